#!/bin/bash
# usage: sweep.sh <tier> <seed>...   runs every claimed check at the given VERIF_SEED values, evidence/replays
# redirected to /tmp (not the committed evidence); prints one line per (property, seed).
tier=$1; shift
cd /verif
for seed in "$@"; do
  for p in $(./check --list | cut -d" " -f1); do
    out=$(VERIF_SEED=$seed VERIF_EVIDENCE_DIR=/tmp/sweep-evidence VERIF_REPLAYS_DIR=/tmp/sweep-replays ./check $p $tier 2>&1); rc=$?
    echo "seed=$seed $p rc=$rc $(echo "$out" | grep -E '^(OK|VIOLATION|INCONCLUSIVE)' | tail -1)"
    if [ $rc -ne 0 ]; then mkdir -p /tmp/sweep-fail; echo "$out" > /tmp/sweep-fail/$p-$tier-$seed.log; fi
  done
done
