#!/bin/sh
# usage: try_mutant.sh <patch.diff> <Cxx> [tier]
# Applies the patch in a scratch worktree of /repo HEAD, runs the check against it (VERIF_REPO_DIR),
# removes the worktree. /repo itself is untouched. The worktree path is fixed per slot
# (MUT_SLOT, default 0) so that the Go build cache is reused between runs; do not run two
# invocations with the same slot at once.
set -u
patch=$(readlink -f "$1"); pid=$2; tier=${3:-quick}
slot=${MUT_SLOT:-0}
wt=/tmp/mutwt/slot$slot
mkdir -p /tmp/mutwt
git -C /repo worktree remove --force "$wt" 2>/dev/null
rm -rf "$wt"
git -C /repo worktree add -q --detach "$wt" HEAD || exit 3
if ! git -C "$wt" apply "$patch"; then echo "patch does not apply"; git -C /repo worktree remove --force "$wt"; exit 3; fi
VERIF_EVIDENCE_DIR=/tmp/mut-evidence VERIF_REPLAYS_DIR=/tmp/mut-replays VERIF_REPO_DIR="$wt" /verif/check "$pid" "$tier"; rc=$?
git -C /repo worktree remove --force "$wt"
echo "mutant rc=$rc"
exit $rc
