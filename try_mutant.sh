#!/bin/sh
# usage: try_mutant.sh <patch.diff> <Cxx> [tier]   - applies the patch in a scratch worktree of /repo HEAD,
# runs the check against it (VERIF_REPO_DIR), removes the worktree. /repo itself is untouched.
set -u
patch=$(readlink -f "$1"); pid=$2; tier=${3:-quick}
wt=/tmp/mutwt.$$
git -C /repo worktree add -q --detach "$wt" HEAD || exit 3
if ! git -C "$wt" apply "$patch"; then echo "patch does not apply"; git -C /repo worktree remove --force "$wt"; exit 3; fi
(cd "$wt" && go build ./... ) || { echo "mutant does not build"; git -C /repo worktree remove --force "$wt"; exit 3; }
VERIF_EVIDENCE_DIR=/tmp/mut-evidence VERIF_REPLAYS_DIR=/tmp/mut-replays VERIF_REPO_DIR="$wt" /verif/check "$pid" "$tier"; rc=$?
git -C /repo worktree remove --force "$wt"
echo "mutant rc=$rc"
exit $rc
