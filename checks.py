"""Per-property check configuration: the single source for the driver and MANIFEST.json."""

def T(name, quick, thorough=None, **kw):
    d = dict(name=name, quick=quick, thorough=thorough if thorough is not None else quick * 10)
    d.update(kw)
    return d

CHECKS = {}

def add(pid, pkg, tests, rule, level="exploration", technique="", text="", note="", design="",
        assumptions=None, fuzz=None, pre=None):
    CHECKS[pid] = dict(pkg=pkg, tests=tests, rule=rule, level=level, technique=technique,
                       text=text, note=note, design=design or ("4/" + pid),
                       assumptions=assumptions or [], fuzz=fuzz or [], pre=pre or [])

add("C20", "c_tl",
    [T("TestC20", 20000, 60000), T("TestC20Arbitrary", 40000, 200000)],
    rule="rapid-generated concatenations of 1..10 TL primitives (boundary-biased values; string/bytes lengths around 253/254, 65535, 2^24-1) appended behind a 0..7-byte prefix into a buffer whose spare capacity (none / 16 / 300 / 70000 bytes) is full of non-zero bytes, and arbitrary/mutated/hostile-length-prefix inputs; non-trivial = concatenation of >=2 values or a string/bytes of length >=252 (round-trip test), non-empty input (arbitrary-bytes test); distinct by value descriptor / input bytes",
    technique="property-based round-trip + differential against an independent TL reference writer/reader (rapid)",
    text="Generated search: every generated value sequence must encode 4-byte aligned and byte-identical to an independent reference writer, decode back consuming exactly the encoded length, fail on every strict prefix, and arbitrary inputs must decode (or fail) exactly as the reference reader does. Sampled, not exhaustive.",
    note="Trusts the harness reference TL writer/reader (pbt/ref/tl.go, written from core.telegram.org/mtproto/serialize) and rapid's generators.",
    assumptions=["string/bytes length <= 2^24-1 (the property's domain)"],
    fuzz=[dict(name="FuzzC20", seconds=60)])

BUBBLE = {"GOMAXPROCS": "1"}  # synctest bubbles: one P keeps goroutine scheduling reproducible

add("C01", "c_updates",
    [T("TestC01Box", 100000, 600000), T("TestC01Manager", 20000, 150000, env=BUBBLE)],
    pre=["TestC01Regression"],
    rule="(a) stateful rapid histories over a partitioned server log (N<=40 positions, counts 1..4) against the real sequenceBox: next / later (reorder) / lose / dup / synthetic overlapping / count-0 / fetched difference; (b) the real updates.Manager in a synctest bubble against a simulated honest server (common pts, qts, 0..2 channels, sliced differences, pushes with loss/dup/reorder, pushes not awaited so channel workers interleave with the main loop). non-trivial = history has a duplicate, a reorder that opens a gap, an overlap, a gap filled by arrival or closed by a difference (a) / dup, reorder, loss or sliced difference (b); distinct by action list",
    technique="model-based stateful PBT (rapid) with a position-frontier reference model; history invariant over recorded handler/difference events; virtual time (testing/synctest)",
    text="Generated delivery histories; every handler delivery is checked against a frontier model: start <= covered frontier (equality without overlaps), at most once per log update, tracked state equals the model frontier after every step. Sampled search, no absence proof.",
    note="Trusts the harness model of an honest server (sim_test.go) and the build-tagged VerifSeqBox wrapper; seq (the updates container sequence) is exercised only with seq=0 containers.",
    assumptions=["position-0 updates never reach a box (callers filter them)", "server differences are honest: range (request, head], messages in new_messages, the rest in other_updates"])

add("C02", "c_updates",
    [T("TestC02", 30000, 200000, env=BUBBLE)],
    pre=["TestC02Regression"],
    rule="containers and differences carry min entities in 1/3 of the cases, and in half of those the access-hash store the client completes them from is down (lookups of the tracked channels themselves always succeed); finite logs (<=10 common pts entries incl. deletes/reads/edits with pts_count 1..3, <=4 qts entries, <=2 channels x <=7 entries) delivered with loss/dup/reorder through the real Manager in a bubble, recovery by gap timer / idle timer / updatesTooLong / channelTooLong, differences whole or sliced (limit 1..3); non-trivial = a recovering difference carried a pts/qts-bearing entry in other_updates or was sliced; distinct by step list",
    technique="stateful PBT against a reference server log (rapid + synctest): delivered multiset must cover the log after recovery",
    text="After the drawn recovery plus two idle periods of virtual time every log entry must have reached the handler (and C01's at-most-once is re-checked). Sampled search.",
    note="Trusts the simulated difference semantics; unknown-peer shortcuts are disabled by construction (messages carry no user peers).",
    assumptions=["handler returns nil", "storage never fails"])

add("C03", "c_updates",
    [T("TestC03", 6000, 50000, env=BUBBLE)],
    pre=["TestC03Regression"],
    level="fault_enumeration",
    rule="C02's histories plus too-long difference answers, a directly constructed class (1/10: a channel moving in steps of 120 positions, a pushed updateChannelTooLong too far ahead to fetch, an idle difference that recovers it, later a channelDifferenceTooLong; drawn steps follow), channels unknown to the initial storage (the client learns them from the first pushed update, which travels without seq; entries before that update are not owed) and getChannelDifference latency 0/50 ms/2 s, so that a crash can fall between the client hearing of a channel and its worker's first answer; every StateStorage write and handler call is recorded in one totally ordered trace; crash points = every trace index for traces <= 12 events, otherwise 6 drawn indexes + 6 drawn indexes just after storage writes, always the quiescent point after an unknown channel was introduced; each crash point restarts a second Manager from the storage snapshot at that index and recovers. non-trivial = a crash point directly after a handler call or difference answer (i.e. strictly between delivery and the next write, or inside a difference); distinct by steps+crash points",
    technique="crash-point enumeration over generated histories (rapid + synctest), trace invariant + restart-and-recover oracle",
    text="Oracle 1: after each write the saved pts/qts/channel pts covers only entries already delivered or reported too long by callback. Oracle 2: delivered(run1 up to crash) U delivered(run2) covers the log minus reported ranges. Crash points are sampled for long traces, complete for short ones.",
    note="Crash model: the process stops between two recorded events; storage writes are atomic (the StateStorage contract).",
    assumptions=["storage writes are individually atomic", "restart uses the same (finite, fully published) server log"])


add("C24", "c_rpc",
    [T("TestC24", 60000, 400000, env=BUBBLE), T("TestC23Concurrent", 3000, 30000, pkg="c_mtproto", env={"GOMAXPROCS": "1"})],
    pre=["TestC24Regression"],
    rule="connection level (TestC23Concurrent, shared with C23): 2..4 invocations on a real mtproto.Conn whose results (plain or gzipped) are handled concurrently, decoders released in a drawn order - each invocation must get the bytes addressed to its id; engine level: owned schedules over the real rpc.Engine in a synctest bubble: 1..3 concurrent Do calls; drawn actions start/ack/valid result/undecodable result/rpc error/duplicate/foreign result/cancel/ForceClose/retry-interval tick/release of a goroutine parked at a scheduling point (rpc: after handler lookup in NotifyResult/NotifyError, before Output.Decode, before Do's final select, before drop; harness: inside Decode, and every log record the engine writes outside its mutex - the harness owns the logger); the same message id issued again after an rpc error (as Invoke does on bad_server_salt); acks/results/errors only for requests whose first transmission happened; which points park is drawn per case. non-trivial = a result is delivered while its call races with cancel/close, or a duplicate/foreign/late result occurs; distinct by action list",
    technique="stateful PBT with an owned schedule (rapid-drawn choices over build-tagged scheduling points, testing/synctest) + history oracle over one totally ordered event log",
    text="Every Do returns exactly once with an outcome that a delivered event explains; a valid result delivered while the call was pending and undisturbed makes it return nil; its Output sees at most one decode, only bytes naming its own id, and no decode start or end after Do returned. Schedules are sampled at hook-point granularity.",
    note="Preemption is modelled only at the hook points; the harness send/drop/recorder are the environment. Trusts testing/synctest for quiescence.",
    assumptions=["hook-point granularity: a race needing a preemption between two statements with no point in between is out of reach"])

add("C25", "c_rpc",
    [T("TestC25", 60000, 400000, env=BUBBLE)],
    rule="retry interval in {1,3,10}s, max retries 1..6, optional send failure on the k-th transmission, script of <=3 events (ack, duplicate ack, result, cancel) at instants 1ns after a timer instant, 1ns before the next one, or in between; reference model predicts the exact transmission instants and the outcome. non-trivial = at least one retransmission; distinct by parameters+script",
    technique="PBT against a complete reference model on virtual time (rapid + testing/synctest)",
    text="Transmissions logged by the harness send function must equal the model's instants exactly, all with the same msg id/seq no/body, at most 1+maxRetries, none after an ack/result, and the call's outcome (success, cancel, send failure, RetryLimitReachedErr at maxRetries*interval) must match.",
    note="Events never coincide exactly with a timer instant (the order would be unspecified).",
    assumptions=["clock.System inside the bubble is the virtual clock"])

add("C26", "c_rpc",
    [T("TestC26", 60000, 400000, env=BUBBLE)],
    pre=["TestC26Regression_resend_stuck_at_close"],
    rule="same machine as C24 (retransmissions have scripted outcomes ok/fail/stuck; the connection and the engine go down in either order); after ForceClose all parked goroutines are released and every pending Do and ForceClose itself must have returned with no virtual time elapsed; classification oracle: sent+never acked => errors.Is(err, rpc.ErrEngineClosed) (what pool/telegram treat as retryable), ack delivered before close => non-nil error that is not ErrEngineClosed, started after close => ErrEngineClosed; drop handler called exactly once iff Do returned the caller's context error and the first send had returned nil. non-trivial = close/cancel between send and ack, between ack and result, or while send is blocked; distinct by action list",
    technique="stateful PBT with an owned schedule (rapid + synctest + scheduling points), promptness watchdog on virtual time",
    text="Sampled schedules; promptness is asserted as 'zero virtual time after releasing all scheduling points'; retryability is asserted against the predicate pool.errRetryableOnNewConn/telegram.errRetryableOnNewConn use (errors.Is ErrEngineClosed).",
    note="A send that is blocked when the engine closes is ended by the harness (the connection closes with the engine in mtproto.Conn); such calls are excluded from the classification oracle.",
    assumptions=["send returns when its context ends or the connection is closed"])


POOL_RULE = "owned schedules over the real pool.DC in a synctest bubble with harness-controlled fake connections: pool max in {1,1,2,3,unlimited}, 1..5 callers; drawn actions start/cancel caller, make connection ready, kill connection, finish an invoke with ok / retryable dead-connection error (only on a dead connection) / non-retryable error, close DC, release a goroutine parked at a pool scheduling point (dead-entry, release-entry, acquire-created, acquire-wait, acquire-stuck, acquire-giveup; each enabled with p=1/3); the in-mutex point transfer-send cancels all waiting callers on a pre-drawn n-th hand-over, and/or lets every goroutine stopped at dead-entry go, and yields instead of parking; 1 case in 10 starts from a directly constructed prefix (two live connections at the limit, one dies in use, its death reported twice and stopped at dead-entry, a third caller waiting) and continues with drawn actions; at the end a capacity probe (max fresh callers must all be served) and a limit probe (one caller more: live connections stay within the limit). "
add("C27", "c_pool",
    [T("TestC27", 40000, 250000, env=BUBBLE)],
    pre=["TestC27Regression"],
    rule=POOL_RULE + "non-trivial = a connection dies while in use or while a caller waits, with >=2 callers; distinct by action list",
    technique="stateful PBT with an owned schedule (rapid + synctest + build-tagged scheduling points); invariants after every step",
    text="After every step: live fake connections <= max, no connection with two invokes in flight, no invoke started on a connection whose death the pool had observed at an earlier quiescent point. Schedules sampled at hook-point granularity.",
    note="'observed death' = the connection's Run returned and, at a later quiescent point, no goroutine was parked before dead() for it; the window in which the pool cannot know yet is not counted. Go's random select choice among ready cases makes some failures non-reproducible from the fail file; the log is then the replay artefact.",
    assumptions=["pool.ErrConnDead / rpc.ErrEngineClosed are returned only by connections that are dead or closing"])
add("C28", "c_pool",
    [T("TestC28", 40000, 250000, env=BUBBLE)],
    pre=["TestC28Regression"],
    rule=POOL_RULE + "non-trivial = a caller is cancelled while its connection is being created or during a hand-over; distinct by action list",
    technique="stateful PBT with an owned schedule (rapid + synctest + scheduling points); behavioural capacity oracles, no internal state read",
    text="At every quiescent point with nothing parked: no caller keeps waiting while a live ready connection is idle or a slot is free; at the end a capacity probe starts max fresh blocking invokes and all must be in flight at once.",
    note="Same machine as C27; the probe runs with injected cancellations switched off.",
    assumptions=["hook-point granularity"])


add("C35", "c_text",
    [T("TestC35", 100000, 600000)],
    pre=["TestC35Regression_NestedTrailingSpace", "TestC35Regression_ShrinkPreCodeReorders", "TestC35Known"],
    rule="1..12 builder operations (Plain, Format with 0..3 formatters, the 24 styling methods, WriteString/Write/WriteRune/WriteByte, Token()..Apply in any order incl. reuse, structured nesting, styling.Perform, builder reuse after Complete, ShrinkPreCode without Pre/Code) over a biased Unicode alphabet (ASCII, BMP, astral, combining marks, ZWJ sequences, every White_Space code point, look-alike non-spaces, 5% invalid bytes). non-trivial = an astral rune before an entity, or trailing white space inside the last entity of a trimmed message, or overlapping/nested entities from different calls; distinct by operation list",
    technique="model-based PBT (rapid): reference model of formatted byte ranges + UTF-16 lengths via unicode/utf16",
    text="Each entity must equal its piece's UTF-16 range over the final text, clipped to the text trimmed of trailing white space only when the last formatted piece reaches the end; all entities within the text. Sampled.",
    note="Trusts pbt/ref/text.go (unicode/utf16, Unicode White_Space).",
    assumptions=["pieces do not end in a UTF-8 lead byte (two pieces cannot join into one rune)"])
add("C36", "c_text",
    [T("TestC36", 50000, 400000), T("TestC36Builder", 50000, 400000)],
    pre=["TestC36Known"],
    rule="lists of 0..30 entities of all kinds with offsets/lengths in [0,hi], hi in {1,3,6,4096} (ties frequent) through SortEntities, and Complete outputs of C35's builder generator. non-trivial = >=2 entities with >=2 distinct offsets and >=2 distinct lengths; distinct by list / operation list. Lists containing a pair with both the larger offset and the larger length are the shape of the listed known finding and are excluded by construction (counted)",
    technique="PBT (rapid): sortedness predicate + multiset preservation",
    text="Output must be the same multiset ordered by ascending offset, ties by descending length. A listed known finding (Less is not an ordering) is excluded by construction and reported.",
    note="Known finding C36-less-not-an-ordering is not repairable without editing the repository's own test.")
add("C37", "c_text",
    [T("TestC37", 100000, 600000)],
    pre=["TestC37Regression_NestedTrailingSpace", "TestC37Regression_ShrinkPreCodeReorders", "TestC37Regression_SplitRune", "TestC37Known"],
    fuzz=[dict(name="FuzzC37", seconds=120)],
    rule="HTML (with and without Telegram escape) and Markdown inputs: grammar-generated tag soup at three hostility levels (70%), TDLib/Markdown corpus (10%), cross-language soup (10%), random bytes (10%), 0..2 byte mutations incl. markup inside a multi-byte character; optional failing user resolver and pre-filled builder. non-trivial = the parser produced >=1 entity; distinct by input",
    technique="grammar-based PBT (rapid) + native coverage-guided fuzzing (thorough) with the range oracle inside the target",
    text="Parse returns an error or Complete() yields entities with offset>=0, length>=0, offset+length <= UTF-16 length of the text; any panic fails. Sampled.",
    note="The oracle is exactly the property text; it does not check that entities match the markup.")
add("C38", "c_misc",
    [T("TestC38", 50000, 500000), T("TestC38Decode", 50000, 500000)],
    pre=["TestC38Seeds", "TestC38Regression_rle_zero_run", "TestC38Known"],
    fuzz=[dict(name="FuzzC38", seconds=90)],
    rule="FileID values built by construction: 18 types, DC in [0,2^31), any int64 ids/hashes, URL variant, all 10 PhotoSizeSource variants with their own fields, file references with forced zero runs (1,2,3,16,200,250..258,511..513,768,1000); and arbitrary strings / mutated ids / hostile RLE streams for DecodeFileID. non-trivial = serialized payload has a zero run >= 2 (round trip) / any input (decode); distinct by value",
    technique="round-trip PBT (rapid) + native fuzzing of DecodeFileID (thorough)",
    text="DecodeFileID(EncodeFileID(x)) == x; any string DecodeFileID accepts re-encodes and decodes to the same projection; no panic.",
    note="Reference RLE / serializer used for classification and diagnostics only.")
add("C39", "c_misc",
    [T("TestC39Messages", 20000, 200000), T("TestC39Dialogs", 20000, 200000), T("TestC39Interrupted", 20000, 200000)],
    rule="a quarter of the message histories carry dates that disagree with the id order (imported / scheduled messages; the server pages by id); histories of N in 0..60 messages (ids strictly descending with gaps) / dialogs (distinct (date, top id, peer)), page size 1..N+1, exact multiples of the page size forced in ~1/3, response kinds full/slice/channelMessages, Iter/ForEach/Collect, GetHistory/Search; fake server with Telegram offset semantics over TL-encoded responses; TestC39Interrupted: a failing request at a drawn index or the context ending after a drawn number of items (the yielded list must be a prefix, and a clean end is allowed only after the last item). non-trivial = N > page size / an interruption that was reported; distinct by history+page+kind",
    technique="model-based PBT (rapid): iterator output vs. the server's list",
    text="The yielded sequence equals the history exactly (order, no duplicate, no omission); Next stays false afterwards.",
    note="Server offset_date semantics of getHistory are not exercised.")
add("C40", "c_misc",
    [T("TestC40", 50000, 500000), T("TestC40Arbitrary", 50000, 500000), T("TestC40FloodWait", 20000, 200000, env=BUBBLE), T("TestC40Client", 20000, 200000, env=BUBBLE)],
    rule="1..5 words [A-Z0-9]*[A-Z][A-Z0-9]* joined by _ with one numeric argument in [0,2^31) at any position (with/without leading zeros), flood/premium/near-miss types forced, each message parsed 1..3 times with the caller editing the earlier *Error in between; arbitrary strings; FloodWait on virtual time with cancel/deadline around the wait; uploader/downloader loops against a fake RPC answering FLOOD_WAIT_n. non-trivial = argument not last or a word containing a digit / a flood error; distinct by message",
    technique="PBT (rapid) with a constructive oracle (the generator knows type and argument) + virtual-time checks (testing/synctest)",
    text="Type = words joined, Argument = number; AsFloodWait exactly for the two flood types; FloodWait returns true only after arg seconds plus the margin, ctx error at the instant the context ends; retry loops resume no earlier.",
    note="")
add("C42", "c_misc",
    [T("TestC42", 20000, 200000, env=BUBBLE)],
    rule="dcs.Plain with a fake dialer: 0..5 candidate addresses, latencies {0,1,2,3,5,10,50 ms} with ties, outcomes success / dial error / handshake-write failure (the error value drawn from: plain, wrapping context.Canceled / context.DeadlineExceeded / os.ErrDeadlineExceeded / io.EOF, *net.OpError - while the caller's context is alive), each honouring or ignoring cancellation (late completion), optional caller cancel; Primary/MediaOnly/CDN, obfuscated or not. non-trivial = n>=2 and (>=2 dials established or one established after the resolver returned); distinct by plan",
    technique="PBT on virtual time (rapid + testing/synctest) with a resource-accounting oracle",
    text="After return and quiescence: exactly one of (conn, err); a returned conn is the only established connection still open; on error none is open and, when all failed, the error contains every failure; no resolver goroutine remains.",
    note="Completion order of equal latencies is the scheduler's; the oracle is order-independent.")


add("C16", "c_transport",
    [T("TestC16", 15000, 150000), T("TestC16Conn", 4000, 40000)],
    pre=["TestC16Regression_limit_overhead", "TestC16Known"],
    rule="protocol in {abridged, intermediate, padded intermediate, full} x header/no header x plain/obfuscated2 listener/net.Pipe; 1..20 payloads with lengths around the 127-word abridged boundary, 4-byte error frames, 1 KiB..16 MiB (rare); write buffers with 16 bytes of non-zero spare capacity; chunking reader with drawn cut points incl. 1-byte reads, receive buffer reused or fresh; 1..4 concurrent senders per direction on one transport.Conn. non-trivial = >=2 frames on both sides of the 127-word boundary or a cut inside a length prefix (codec) / that or >1 concurrent sender (conn); distinct by stream description",
    technique="round-trip PBT (rapid) cross-checked by an independent reference framing reader (pbt/ref/framing.go)",
    text="The receiver yields exactly the sent payload sequence per sender; the wire parses with the reference reader to the same payloads; 4-byte frames come back as ProtocolErr; the listener selects the codec the client chose.",
    note="Trusts the harness reference framing written from the transport specification.")
add("C17", "c_transport",
    [T("TestC17", 40000, 400000), T("TestC17Reuse", 400, 4000), T("TestC17Sweep", 1, 1, rapid=False)],
    pre=["TestC17Regression_full_length_below_12", "TestC17Regression_abridged_length_unchecked", "TestC17Known"],
    fuzz=[dict(name="FuzzC17", seconds=120)],
    rule="per protocol: random streams, valid streams with mutated length fields, bit flips, truncations, splices, hostile prefixes (every prefix 0..64 and a grid to 2^32-1; abridged first byte 0..255 with all-ones/zero/random tails), full-transport frames with wrong seq/CRC; plus an exhaustive small-prefix sweep (4306 cases); plus (TestC17Reuse) 1..3 valid frames of 8 bytes..16 MiB read back to back into a destination buffer that already holds 0..16 MiB of stale bytes and is not reset in between. non-trivial = the first frame's length prefix is wholly present (Reuse: the buffer holds stale bytes when a frame is read into it); distinct by input",
    technique="mutation-based PBT (rapid) + exhaustive small-prefix sweep + native fuzzing (thorough); no-panic, bounded-allocation and differential (reference reader) oracles",
    text="Read returns frames or an error, never panics, never allocates more than 16 MiB + slack for one frame (for a reused non-empty buffer: + the quarter the Go runtime may add when it grows a slice), whatever the destination buffer held before; where the reference reader finds a well-formed frame the codec returns exactly it.",
    note="Allocation is measured with runtime/metrics and re-measured with ReadMemStats before a breach counts.")
add("C18", "c_transport",
    [T("TestC18", 15000, 150000), T("TestC18Listener", 8000, 80000)],
    rule="tag in {ef,ee,dd x4, random}, dc over int16 incl. +-10000+n, secret in {16 bytes, empty, nil}, random streams incl. draws hitting every reserved prefix, 0..10 writes per direction of 0..64 KiB with drawn read chunkings; in half of the cases a neighbour obfuscated2 connection writes inside every transport write of the connection under test. non-trivial = data in both directions and a read boundary inside a write; distinct by parameters",
    technique="round-trip PBT (rapid) + independent reference key schedule decrypting both wire directions",
    text="Accept recovers (tag, dc); bytes read equal bytes written in both directions; the header avoids the reserved patterns; the reference key schedule decrypts the header to the same tag/dc.",
    note="")
add("C19", "c_transport",
    [T("TestC19", 4000, 40000), T("TestC19Handshake", 8000, 80000, env=BUBBLE)],
    pre=["TestC19Regression_write_over_65535", "TestC19Regression_write_after_refused_write", "TestC19Known"],
    rule="write sizes from {0,1,16383,16384,65534,65535,65536,65537,131071,1 MiB,4 MiB} and uniform, 1..6 writes, in 1/4 of the cases with the connection refusing every write (0 bytes, an error) during some of them, read buffers 1..128 KiB, two FakeTLS peers and the reference record parser on the wire; handshakes against a reference server hello with right secret/random, wrong secret, wrong random, flipped digest/body bit, zero digest, 1..17 extra handshake records. non-trivial = some write > 65535 or a handshake with a wrong digest; distinct by sizes / variant",
    technique="round-trip PBT (rapid) + reference TLS record reader and reference HMAC digest",
    text="Reader's byte stream equals the concatenated writes (for a refused write: exactly the bytes Write reported as written); every record's length field equals its actual length <= 65535; the handshake succeeds iff the digest is right.",
    note="")


add("C32", "c_files",
    [T("TestC32", 1500, 4000, env=BUBBLE), T("TestC32Parallel", 1000, 4000, env={"GOMAXPROCS": "4"}), T("TestC32Boundaries", 1, 1, rapid=False, env=BUBBLE, timeout_thorough=4800)],
    pre=["TestC32Regression_unknown_total_exact_multiple"],
    rule="deterministic generator sources (byte=f(seed,offset), short reads, EOF with or after the last bytes), known total or -1, automatic / explicit valid / explicit invalid part sizes, 1..8 threads, sizes around k*part, 10 MiB+-1, 3999*part+-1 (2 GB class in thorough only), mock server answering true/false/FLOOD_WAIT_n/FLOOD_PREMIUM_WAIT_n from a drawn (part, attempt) script with virtual latencies. non-trivial = (n>=2 and >=1 retry) or size within +-1 of a threshold; distinct by parameters",
    technique="model-based PBT on virtual time (rapid + testing/synctest): part ledger vs. the source",
    text="Accepted parts are 0..n-1 exactly once, retransmissions byte-identical, part hashes equal the source slices, sizes/last part/auto part size/3999 limit, descriptor kind/Parts/MD5, FileTotalParts == n when known.",
    note="Upload refusal is allowed only where upstream documents it.",
    assumptions=["source content is a pure function of the offset"])
add("C33", "c_files",
    [T("TestC33", 8000, 100000, env=BUBBLE), T("TestC33Parallel", 4000, 50000, env={"GOMAXPROCS": "4"}), T("TestC34HashFlood", 10, 100, env={"GOMAXPROCS": "4"}, shards=4)],
    rule="part sizes 4 KiB..1 MiB, among them sizes that do not divide 1 MiB (12/160/384/768 KiB: WithPartSize documents only divisibility by 4 KB); file sizes around k*part, exact multiples, uniform, tiny (<= 8 MiB); part sizes 4 KiB..1 MiB; 1..8 threads; Stream/Parallel; honest master with per-(chunk,attempt) faults FLOOD_WAIT, FLOOD_PREMIUM_WAIT, rpc Timeout, context.DeadlineExceeded, net timeouts; latencies 0/5/50/3000 ms so replies complete out of order; in a third of the cases the Downloader (and its buffer pool) was used before for another file, that download completed or cancelled at a drawn request. non-trivial = size % part == 0 or (Parallel, threads>=2, >=1 retry); distinct by parameters",
    technique="model-based PBT on virtual time (rapid + synctest): written bytes vs. the model file",
    text="Stream: exact byte sequence; Parallel: every WriteAt matches the file, spans tile [0,size) without gap or overlap; returned type equals served type; requests stay on the part grid.",
    note="")
add("C34", "c_files",
    [T("TestC34", 2500, 25000, env=BUBBLE), T("TestC34Parallel", 1500, 15000, env={"GOMAXPROCS": "4"}), T("TestC34HashFlood", 12, 120, env={"GOMAXPROCS": "4"}, shards=4), T("TestC34Plan", 1, 1, rapid=False, env=BUBBLE, timeout_thorough=4800)],
    pre=["TestC34Regression_short_cdn_reply_accepted", "TestC34Regression_overlong_cdn_reply_delivered", "TestC34Regression_bytes_past_verified_tail"],
    rule="genuine files <= 4 MiB with regular/irregular hash windows, honest hash service on all four paths, modes master-verify / cdn-inline (x3) / cdn-verify, part sizes aligned and not aligned with windows, 1..4 threads, events (master-direct, reupload, token invalid, fingerprint errors), adversarial CDN mutations (flip, truncate, truncate at window, empty, extend with genuine/garbage, other offset, swap, wrong counter base) keyed by file position; plus the complete (offset, limit) grid of the CDN request plan (quick 272x136, thorough 600x300, exhaustive:true). non-trivial = a served reply was actually changed (TestC34) / plan needs >1 request (plan); distinct by parameters. Replies shorter than the asked limit in cdn-inline mode are the shape of the listed known finding and are excluded at the adversary (counted)",
    technique="adversarial PBT on virtual time (rapid + synctest) with a reference CDN (AES-CTR, SHA-256, plan predicate in pbt/ref/cdn.go) + exhaustive enumeration of the request-plan grid",
    text="A download either fails or equals the genuine file; honest servers must succeed; every getCdnFile range is a valid aligned window and the requests of a chunk tile the asked range (complete grid). One listed known finding.",
    note="Known finding C34-short-cdn-reply is not repairable without editing an upstream test.")


CONN = {"GOMAXPROCS": "1"}
add("C07", "c_mtproto",
    [T("TestC07Buf", 30000, 300000), T("TestC07Conn", 10000, 80000, env=CONN)],
    pre=["TestC07Regression"],
    rule="(a) id sequences over a small alphabet (duplicates and lower-than-all frequent) against a sorted-set model of the last N accepted ids, N in {1,2,3,8,100}; (b) a running mtproto.Conn in a bubble receives 1..25 generated frames built by the reference encryptor: valid, exact replay, replay of an id with new content, client-typed id, type-2 id, 301/299 s old, 31/29 s ahead, wrong session, lower-but-fresh id, then one of padding 0/4/8/12/1024/1040, payload length not divisible by 4, wrong key, flipped bit. non-trivial = replay of a non-latest id after >=2 accepted (a) / a frame differing from valid in exactly one rule (b); distinct by sequence",
    technique="model-based PBT (rapid) + reference-encrypted adversarial frames against a live connection on virtual time (testing/synctest)",
    text="Consume must agree with the security-guideline rule exactly; at connection level exactly the frames the reference rule accepts reach Handler.OnMessage.",
    note="Frames are sent one at a time with quiescence in between (the connection handles each frame on its own goroutine).",
    assumptions=["hard-invalid frames (bad padding/key/length) may also end the connection; they are sent last"])
add("C08", "c_mtproto",
    [T("TestC08Gen", 50000, 500000), T("TestC08Conn", 5000, 40000, env={"GOMAXPROCS": "4"}), T("TestC08Resend", 1500, 15000, env=CONN)],
    pre=["TestC08Regression"],
    rule="(TestC08Conn: the peer announces a session - new_session_created, same or another unique_id - after drawn waves) (c) 2..8 sequential requests whose retransmission (no ack, retry interval 1 s) is drawn to fail: the link stops draining, the write fails at the request's deadline with nothing transferred (non-trivial = at least one failed retransmission); (a) MessageIDGen with a scripted clock: deltas {0,1,2,3,4,5,9,10,11 ns, 1 us, 1 ms, 1 s, -1 ns, -1 s, 15.6 ms} incl. second-boundary starts; (b) 2..24 concurrent Invoke/Ping calls in 1..3 waves on one connection, the peer decodes every frame. non-trivial = >=1 delta in 1..3 ns or a backwards jump (a) / both content and service messages (b); distinct by delta list / op list",
    technique="PBT (rapid) with a scripted clock; history oracle over frames decoded by the reference peer",
    text="Ids strictly increase, are divisible by 4, decoded time monotone and within 10 ns per call of the highest clock reading; in msg_id order content messages have seq_no 2k+1 and service messages 2k.",
    note="Retransmissions (same id, seq and body) are de-duplicated first.")
add("C23", "c_mtproto",
    [T("TestC23", 30000, 250000, env=CONN), T("TestC23Concurrent", 3000, 30000, env=CONN), T("TestC23Corpus", 1, 1, rapid=False, env=CONN)],
    rule="TestC23Concurrent: 2..4 pending invocations whose Output decoders stop on entry, their results (plain or gzipped, 12..1200 bytes) delivered each on its own goroutine as the read loop does, decoders released in a drawn order (non-trivial = a result is delivered while another call's decoder is stopped); payloads handed to the connection's message handler while 0..3 real invocations are pending: generated service messages (rpc_result with plain/gzipped result, rpc_error, pong or nothing inside; pong; msgs_ack; bad_msg_notification; new_session_created; future_salts; unknown types; msg_detailed_info) wrapped in containers and gzip up to depth 4 with req_msg_ids from {a pending id, random}; mutated files of the 14101-entry handle_message corpus; raw bytes with known type ids; plus every corpus file once. non-trivial = payload decodes at least one level or names a pending id; distinct by payload description",
    technique="grammar-based PBT (rapid) through a build-tagged entry point on the test goroutine + full corpus replay + owned schedule of concurrently handled results (harness-owned decoders as stop points)",
    text="No panic; a pending invocation completes only by a payload that names its id, with exactly those bytes / that rpc error; the others stay pending and are then completed by an explicit matching result.",
    note="When handling returns an error (malformed sibling, duplicate result) the client drops the rest of that container; delivery of the siblings is not asserted.",
    fuzz=[])
add("C41", "c_mtproto",
    [T("TestC41Salts", 30000, 300000), T("TestC41SaltsParallel", 400, 4000, env={"GOMAXPROCS": "8"}), T("TestC41Conn", 10000, 80000, env=CONN), T("TestC41Regen", 60, 600, env=CONN)],
    rule="(d) key regeneration after a transport -404 with 0..3 requests issued while the exchange is under way (one server answer held back) and 0..2 after it: every frame the server receives afterwards is under the new key and carries the salt the exchange told (non-trivial = a request issued during the exchange); (c) salts.Salts under real parallelism: 1..4 goroutines calling Get while 1..4 store drawn sets (expired, expiring at the deadline, valid, repeated), 1500 rounds each, a valid salt stored beforehand (non-trivial = a stale salt among the stored sets); (a) salts.Salts under store (fresh, re-sent identical triples, already expired, far future) / clock advance / reset / get with a fixed lookahead, against a map model; (b) a live connection: new_session_created salt, future_salts answers with overlapping / duplicated / expired windows, virtual sleeps up to 3 h, invokes, bad_server_salt once or twice for a request. non-trivial = an expired salt is dropped or a duplicate/expired triple stored (a) / clock crosses a salt expiry or a bad-salt event (b); distinct by action list",
    technique="model-based stateful PBT (rapid) + live connection against the reference peer on virtual time + parallel stress with an invariant oracle (runtime-scheduled)",
    text="Get returns only salts valid beyond the deadline and fails only when none is; every client frame carries a salt the server told or a stored future salt valid beyond now+5min; bad_server_salt => exactly one re-send with the new salt; a second one fails the call.",
    note="Tolerated and counted: the client keeps a previously stored future salt when every stored salt has expired and the server told nothing newer (no valid salt exists then).")
add("C43", "c_mtproto",
    [T("TestC43Ping", 15000, 100000, env=CONN), T("TestC43KeepAlive", 15000, 100000, env=CONN), T("TestC43Late", 4000, 40000, env=CONN)],
    rule="1..3 concurrent Ping calls with deadlines 1..20 s and 0..3 scripted pongs each (own id, id of another in-flight ping, random id, duplicate) at drawn virtual times; keep-alive loop with interval/timeout drawn (timeout < interval) and per-round pong latency prompt / timeout-1ms / timeout+1ms / never / wrong id; (TestC43Late) 1..6 rounds on one connection of a ping whose goroutine is held right after its write while its pong (own / other id / none) arrives and/or its context ends (deadline / cancel) in a drawn order, followed by 0..2 further pings with no pong / a pong for the earlier id / own pong in time / own pong late. non-trivial = a non-matching or duplicate pong (ping) / latency within 1 ms of the timeout or wrong id (keep-alive); distinct by plan",
    technique="PBT on virtual time (rapid + testing/synctest) against the reference peer",
    text="Ping returns nil iff a pong with its own id arrived before its deadline, at that instant, else the deadline error at the deadline; Conn.Run ends with an error within the ping timeout of an unanswered keep-alive ping and keeps running otherwise.",
    note="")


P4 = {"GOMAXPROCS": "4"}
add("C04", "c_crypto",
    [T("TestC04", 40000, 400000, env=P4), T("TestC04Sweep", 1, 1, rapid=False, env=P4), T("TestC04Conn", 400, 4000, pkg="c_mtproto", env={"GOMAXPROCS": "1"}), T("TestC04Concurrent", 1500, 15000, pkg="c_mtproto", env={"GOMAXPROCS": "1"})],
    pre=["TestRefSelfCheck"],
    rule="random 2048-bit auth keys (random, leading-zero, constant-byte), edge and random header values, payload lengths 4k over block boundaries, 0..1200, 1.2K..64K, ~1 MiB (0.3%), 8 MiB and ~16 MiB (0.03%), both directions, both Encrypt paths, all 16 low nibbles of the first random byte forced; exhaustive sweep of lengths 0..2048 x 16 nibbles x 2 directions; plus a live mtproto.Conn with CompressThreshold in {-1,1,1024} (no-copy, pre-encoded and gzip paths), sequentially and (TestC04Concurrent) with 2..5 senders at drawn virtual start times while the harness-owned logger pauses a sender for a drawn time between building and encrypting its message. non-trivial = payload length mod 16 != 0 or > 16; distinct by (length, nibble, direction)",
    technique="round-trip PBT (rapid) cross-checked in both directions by an independent MTProto 2.0 reference (own IGE, KDF, msg_key)",
    text="Impl Encrypt decrypts under the reference to the same header fields and payload, body % 16 == 0, padding in [12,1024]; the other-side impl decrypts through both entry points; reference-encrypted messages with an independently chosen padding decrypt under the impl.",
    note="The reference (pbt/ref/crypto.go) is anchored by the OpenSSL IGE vectors in TestRefSelfCheck.")
add("C05", "c_crypto",
    [T("TestC05", 300000, 2000000, env=P4)],
    rule="valid ciphertexts (50% impl-produced, 50% reference-produced; in about 1/8 of the cases the AuthKey is hand-built with a zero cached id and the message impl-produced) under one of 17 mutations: bit flips in key id / msg_key / body / edges, k-bit flips, truncation and extension (aligned and not), block swap/dup, replaced key id, other key with the same id, re-keying, reflection, wrong receiver key, splice. non-trivial = the mutated wire still has a valid length, so rejection must come from key id or msg_key; distinct by case",
    technique="mutation-based PBT (rapid) with a metamorphic control (the unmutated ciphertext still decrypts)",
    text="Every mutation that changes a byte yields an error and a nil message from both Decrypt entry points; identity mutations are counted and skipped.",
    note="Key domain: random keys with <= 7 leading zero bytes (keys invariant under the x=0/8 offset make reflection legitimately acceptable); a 'different key' differs inside bytes MTProto 2.0 reads.")
add("C06", "c_crypto",
    [T("TestC06", 100000, 1000000, env=P4), T("TestC06Lengths", 40, 400, env=P4), T("TestC06Bind", 200000, 2000000, env=P4)],
    pre=["TestRefSelfCheck"],
    rule="uniform auth keys (random / leading zeros / constant bytes), msg keys, plaintexts of 0..200, 0..5000 and 2^k +- 40 bytes (k = 5..17), every length 0..4224 per case in TestC06Lengths, both sides, with a drawn neighbour helper of the package (crypto.SHA256 over 1..3 chunks, TempAESKeys, NonceHash1) called between the derivations; bind parameters (nonce, temp and perm key ids, session, expiry). non-trivial = every case; distinct by input hash",
    technique="differential PBT (rapid) against reference KDFs written from the MTProto 2.0 / 1.0 specification",
    text="MessageKey/Keys/OldKeys/MessageKeyV1/KeysV1/Key.ID/AuxHash equal the reference; the bind message decrypts under the permanent key with the v1 KDF and the reference IGE to bind_auth_key_inner with the drawn fields, msg_key = SHA1(envelope)[4:20], padding < 16.",
    note="Documentation sample vectors are not available offline; anchoring is by OpenSSL IGE vectors and two-way agreement.")
add("C11", "c_crypto",
    [T("TestC11", 400000, 3000000, env=P4)],
    pre=["TestC11Regression_nilNilOnHashMismatch", "TestC11Known"],
    rule="(key, iv, ciphertext) in classes random, valid (every data length mod 16), valid with a flipped bit / truncated by a block / wrong key / wrong iv, length not a multiple of 16, short; data returned with a nil error is held while two further answers (one altered, one of zeros) are decrypted and compared again. non-trivial = block-aligned ciphertext > 20 bytes; distinct by case",
    technique="PBT (rapid) with an oracle over the reference IGE decryption",
    text="Result is (data, nil) with SHA1(data) equal to the first 20 bytes of the reference decryption and data a prefix of the rest within 15 bytes of its end, or (nil, err). (nil, nil) is a violation.",
    note="")
add("C13", "c_crypto",
    [T("TestC13Residue", 1, 1, rapid=False), T("TestC13GP", 1000, 20000, env=P4), T("TestC13DHSweep", 1, 1, rapid=False, env=P4, timeout_thorough=4800),
     T("TestC13DH", 60, 1000, env=P4, shards=8), T("TestC13Params", 20000, 300000, env=P4), T("TestC13PQ", 300, 4000, env=P4, shards=8),
     T("TestC10PQ", 3000, 30000, pkg="c_exchange")],
    rule="(a) exhaustive: all 4492 safe primes 7 <= p < 2^20 x g in -1..9 against Euler's criterion (exhaustive:true for that sub-domain) + random 24..160-bit safe primes; (b) CheckDH (in a third of the generated cases through a big.Int object that held an accepted prime and was overwritten in place) over 13 known 2048-bit safe primes x g, and reject candidates (non-safe primes, composite 2r+1, 2047/2049-bit, RSA moduli, p+-2k, random odd); (c) CheckDHParams with g_a/g_b from 13 boundary values and random below/inside/above; (d) DecomposePQ over semiprimes from segmented-sieve windows up to sqrt(2^63) incl. p=q, twin and unbalanced factors, and non-semiprime input (primes, 0, 1). non-trivial = all (a), p != q (d); distinct by input",
    technique="exhaustive enumeration of the residue sub-domain + PBT (rapid) against number-theoretic references (Euler's criterion, math/big primality, sieve)",
    text="CheckGP accepts iff g in 2..7 and g^((p-1)/2) = 1 mod p; CheckDH accepts iff p is a 2048-bit safe prime and g passes; CheckDHParams accepts iff strictly inside both ranges; DecomposePQ returns (p, q) ascending with p*q = pq.",
    note="Fresh 2048-bit safe primes cannot be generated per run (minutes each): 13 fixed ones are used on the accept side.")
add("C14", "c_crypto",
    [T("TestC14Pad", 1200, 16000, env=P4, shards=8), T("TestC14Hashed", 1000, 16000, env=P4, shards=8), T("TestC14Lengths", 1, 1, rapid=False, env=P4)],
    rule="data lengths 0..144 (RSA_PAD) / 0..235 (hashed) with every length forced once (TestC14Lengths) and over-limit lengths, random streams (the >= modulus retry occurs in ~30% of cases), three 2048-bit keys; mutated ciphertexts and foreign keys; returned plaintexts are compared again after the later calls of the case. non-trivial = data length within the limit; distinct by (length, seed, key)",
    technique="round-trip + cross-implementation PBT (rapid): reference RSA_PAD encoder and inverse written from the specification",
    text="The reference inverse accepts the impl's output and recovers data||padding; the reference encoder fed the impl's randomness reproduces the exact ciphertext; the impl decodes reference output; over-limit lengths refused; other key / flipped bit fail.",
    note="")
add("C15", "c_crypto",
    [T("TestC15", 40, 400, env=P4, shards=12), T("TestC15NewHash", 40, 400, env=P4, shards=12), T("TestC15Invalid", 100, 1000, env=P4)],
    rule="(TestC15NewHash) salt1 handed over as a slice of a larger caller buffer (0..64 bytes behind it), NewHash 1..3 times, every (verifier, salt) pair re-checked at the end against the reference verifier; passwords and salts 0..64 bytes incl. non-UTF-8 and empty, client secret a of 256 bytes incl. leading zeros and tiny values, 13 safe-prime groups x valid g, B from the reference verifier or arbitrary 0<B<p; scenarios right password / wrong password / arbitrary B (>= 30% wrong); invalid groups. non-trivial = every case; distinct by inputs",
    technique="differential PBT (rapid) against a reference SRP client and verifier written from core.telegram.org/api/srp (own PBKDF2-HMAC-SHA512)",
    text="(A, M1) equals the reference client; the reference verifier accepts exactly when the right password was used; invalid groups make Hash fail.",
    note="~0.5 s per case (PBKDF2 100000 iterations x 2-3): small case counts in quick.")
add("C09", "c_exchange",
    [T("TestC09", 50, 400, env={"GOMAXPROCS": "2"}, shards=12)],
    rule="client ClientExchange.Run against the in-tree ServerExchange (2/3) or the harness reference server (1/3): random client/server streams, permanent/temporary mode with drawn expiry, DC ids incl. test and negative media ids, 4 transport codecs via the in-tree listener, writes split at drawn points. non-trivial = every case; distinct by parameters",
    technique="PBT on virtual time (rapid + synctest) with an independent reference key-exchange server (pbt/exserver.go)",
    text="Both sides finish with the same key, key id (= reference SHA1-derived id) and salt (= reference new_nonce xor server_nonce); key non-zero; temporary mode sets ExpiresAt = now + expires_in.",
    note="~0.5 s CPU per exchange (2048-bit safe-prime checks on both sides).")
add("C10", "c_exchange",
    [T("TestC10", 110, 800, env={"GOMAXPROCS": "2"}, shards=12), T("TestC10PQ", 3000, 30000)],
    rule="harness scripted server playing one of 42 adversary strategies at a drawn position (own RSA key claiming the trusted fingerprint, untrusted fingerprint, wrong nonce/server_nonce echo at each reply, bit flip in encrypted_answer, answer under a wrong new_nonce, altered inner nonces, composite / non-safe / 2047- / 2049-bit dh_prime, g failing the residue rule, g in {0,1,8,-1}, g_a in {0,1,p-1,p,2^1984,p-2^1984, honest+p, p+1, 2p, 2p+1, 2^2048-1}, wrong new_nonce_hash1, dh_gen_retry/fail, server_DH_params_fail, replay of a previous run, pq > 2^63 / prime / 0 / 1) plus the honest script and g_a just inside the ranges; pq sub-check on the real clock for non-semiprime pq. non-trivial = a mutation applied at a step the client reaches; distinct by (strategy, position, seeds)",
    technique="adversarial PBT (rapid + synctest) with a reference server; control run of the same script without the mutation",
    text="Run returns an error for every applied adversarial strategy; the honest script succeeds with the server's key; g_a just inside the ranges passes the parameter checks.",
    note="")
add("C12", "c_exchange",
    [T("TestC12", 80, 600, env={"GOMAXPROCS": "2"}, shards=8), T("TestC12Conn", 60, 500, pkg="c_mtproto", env={"GOMAXPROCS": "2"}, shards=8)],
    level="fault_enumeration",
    rule="silent peer at step 1/2/3 (ResPQ, Server_DH_Params, dh_gen) x exchange timeout {1,15,60 s} x caller deadline none/far x permanent/temporary; entry points ClientExchange.Run, mtproto.Conn.Run without PFS, with PFS (stall in the permanent or the temporary exchange), and key regeneration after transport error -404. non-trivial = stall at step 2 or 3, or no caller deadline / non-initial mode; distinct by parameters",
    technique="fault injection on virtual time (rapid + synctest) with a watchdog: sleep exactly the bound, then require the result",
    text="From the moment the peer received the request of the stalled step, Run returns an error within the exchange timeout (+1 ms).",
    note="")


add("C31", "c_session",
    [T("TestC31", 1, 1, rapid=False, timeout_thorough=4800)],
    level="fault_enumeration",
    rule="pairs of old/new session.Data (DC option lists of 0..2500 entries: files from ~1 KB to ~500 KB, new smaller/equal/larger than old), 12 pairs in quick and 120 in thorough derived from VERIF_SEED; per pair (1) a reference strace run of a helper process performing Loader.Save, then one run per traced system call touching the session directory with SIGKILL injected at its entry, (1b, every second pair) the same for a storage that starts empty - look for a session (none), store the old one, replace it by the new one on one FileStorage value; up to the marker between the two stores the directory may hold no session or the complete old one, after it the complete old or new one - (2) simulated crash states from the recorded trace: every prefix, the last write applied for 0, 1, n/2, n-1 bytes, and a power-loss model dropping all or half of the data not yet fsynced while completed renames persist. non-trivial = crash point after the first mutating system call and up to the last one, or any power-loss state; distinct by (pair, crash point)",
    technique="crash-point enumeration by system-call fault injection (strace inject=SIGKILL) + trace-driven file-system model; oracle Loader.Load == old or new",
    text="Every enumerated crash state must load as the complete old or the complete new session, and the restarted client must be able to go on from it: an undisturbed save of a next session (shorter, every third time longer) over the directory as the crash left it must store exactly that session. The real-kill part is exhaustive over the system calls of the save for each generated pair; the simulated part is a stated, conservative file-system model, not a kernel.",
    note="Power-loss model: data written after the last fsync of a file may be lost entirely or partly; renames are durable. Directory-entry durability is not modelled (either outcome is acceptable to the oracle).",
    assumptions=["strace is available", "a SIGKILLed process leaves page-cache contents intact (process-crash model)"])


add("C29", "c_client",
    [T("TestC29", 12000, 100000, env=CONN)],
    pre=["TestC29Regression", "TestC29Known"],
    level="fault_enumeration",
    rule="a real telegram.Client (restored session, public API, dcs.Plain resolver over pipes) in a synctest bubble against harness peers that answer initConnection/getConfig and pings; 1..3 marked invocations, each with a first-sight plan answer / kill before ack / ack then kill / result then kill / hold (acked) / hold unacked; optional kill of the idle connection first (kill before send); ending: reconnect and wait 2 virtual minutes, or close the client at +0/1 ms/100 ms/3 s/20 s (replacement connections refused) and issue one more invocation. non-trivial = a kill lands after the frame was read by the peer; distinct by scenario. When the known finding is listed, at most one killing plan per case (issued last) and no burst of first writes after an idle kill (counted as excluded)",
    technique="fault-injection PBT on virtual time (rapid + testing/synctest) with reference MTProto peers (pbt/peer.go); server-side request log as oracle",
    text="Per request: killed before ack => re-sent on the replacement connection and answered; acknowledged before the kill => never sent on a later connection and Invoke returns an error; no request answered twice; after close every pending and new invocation returns within 1 s of virtual time.",
    note="One listed known finding (requests whose transport write fails on a dying connection are failed, not re-sent).",
    assumptions=["each transport frame written by the client is read completely by the peer before the peer acts"])
add("C30", "c_client",
    [T("TestC30", 20000, 200000), T("TestC30Concurrent", 20000, 200000), T("TestC30Client", 400, 4000, env={"GOMAXPROCS": "4"}), T("TestC30TwoClients", 600, 6000, env={"GOMAXPROCS": "1"}), T("TestC30Load", 2000, 20000, env=CONN)],
    rule="(e) two whole clients in one process (DC 2 and DC 4, own keys, storages, servers; real time, one P), each server announcing sessions 1..3 times before and 0..6 times after the config answer with salts from disjoint sets, storages taking 0..3 ms per save; every stored session must pair the client's own DC with its own key and one of its own salts (non-trivial = both servers announce again and a storage is slow); (d) a whole client against the harness server in real time with 4 Ps: restored session, the session announced before the config answer and (3/4) once more right after it, the client's clock taking 0/20/200/1000 us per reading (schedule perturbation: it widens whatever window lies around a clock reading); every stored session must pair DC 2 with that connection's key (non-trivial = announced again and a slow clock); (c) the same notifications in flight: each is a goroutine stopped by the harness-owned storage before its load and before its save, with primary-DC changes and further notifications drawn in between (non-trivial = a migration or a second notification while one is in flight); (a) histories of session notifications through the build-tagged wrappers of onSession/onCDNSession: primary (for the current primary DC), non-primary DCs, CDN, interleaved with primary-DC changes (session.Migrate), PFS on/off; storage records every save; (b) stored sessions with intact / bit-flipped / truncated / extended key bytes and key ids, zeroed or foreign ids, loaded by Client.Run with a dialer that counts calls. non-trivial = a non-primary or CDN notification between two primary ones (a) / a corrupted session (b); distinct by history / mutation",
    technique="stateful PBT (rapid) with a set-of-legitimate-notifications model; corruption-based PBT for loading",
    text="After every step the stored (DC, key, salt) equals a notification delivered for the DC that was primary when it was delivered (permanent key under PFS); non-primary and CDN notifications never rewrite it; with notifications in flight the stored record is always the (DC, key, salt) of one notification delivered by a connection to that DC; Run fails with the corrupted-key error before any dial whenever SHA1(key)[12:20] != id, and an intact session leads to a dial.",
    note="Notifications with this_dc = 0 (not sent by an honest server) are not generated.")


add("C21", "c_tl",
    [T("TestC21Registry", 1, 1, rapid=False), T("TestC21", 100000, 800000), T("TestC21Sweep", 20, 200, rapid=False, timeout_thorough=4800),
     T("TestC21Safety", 50000, 400000), T("TestC21Prealloc", 20000, 200000), T("TestC21Deep", 1, 1, rapid=False, timeout_thorough=6000)],
    pre=["TestC21Regression_generic_wrapper_nil_query", "TestC21Regression_accessPointRule_roundtrip", "TestC21Known"],
    fuzz=[dict(name="FuzzC21", seconds=120)],
    rule="all 2600 constructors of tg / mt / e2e (TestC21Sweep covers every constructor N times per run; TestC21 draws them at random), values built by reflection over struct fields (optional groups present with p=1/2, shared flag bits, zero-valued present fields, nested interfaces from the class constructor sets, vectors 0..3, depth budget 4); safety: mutated encodings and raw bytes through five entry points (constructor Decode, tmap.New+Decode, class decoder, DecodeBare, a foreign type); preallocation: vector count words rewritten up to 2^31-1; deep nesting: per type cycle a child process decodes the deepest chain that fits a 10 MiB gzip payload / 16 MiB frame (quick: 3 cycles, thorough: all 57). non-trivial = value has an optional group present or a nested interface / non-empty input / claimed count > 1024 / every deep case; distinct by value or input",
    technique="reflection-driven round-trip PBT (rapid) + mutation-based safety search with an allocation-delta oracle + child-process probes for process-fatal outcomes + native fuzzing (thorough)",
    text="Encode->Decode gives an equal value and byte-identical re-encoding (the re-encoding written into a used buffer with dirty spare capacity) through the constructor map, tmap and the class decoder; decoding mutated/raw bytes never panics and allocation stays within a stated multiple of the input plus (count mod 1024) elements; deep chains must not kill the process (21 cycles are listed known findings).",
    note="Known finding: unbounded decoder recursion (stack overflow) for 21 RichText/PageBlock cycles - not repairable minimally (generated decoders).",
    assumptions=["values sampled per constructor, not all values"])
add("C22", "c_tl",
    [T("TestC22", 10000, 100000), T("TestC22GzipLimits", 1, 1, rapid=False, timeout_thorough=4800)],
    pre=["TestC22Regression_container_negative_count", "TestC22Known"],
    fuzz=[dict(name="FuzzC22", seconds=120)],
    rule="containers of 0..50 messages with bodies up to 1 MiB, rpc_result, unencrypted messages, gzip objects (sizes around 10 MiB, compressible bombs of 16/64/1024 MiB built streaming, concatenated members, corruptions), malformed counts/lengths/truncations/wrong ids, raw bytes; every encoding is written into a used buffer (dirty spare capacity); after every case a fixed valid gzip object must decode through the pooled reader. non-trivial = >=2 messages, a body >= 64 KiB, a non-empty result, gzip data >= 4 KiB or near the limit, or any malformed case; distinct by case",
    technique="round-trip + differential PBT (rapid) against an independent writer (pbt/ref + stdlib gzip), allocation-delta oracle, fixed limit list, native fuzzing (thorough)",
    text="decode(encode(x)) == x and the library encoding equals the reference bytes; gzip yields the data below 10 MiB and fails above, len(Data) <= 10 MiB always; malformed input gives an error, never a panic; the pooled gzip reader survives errors.",
    note="")

NOT_CLAIMED = {}
