"""Per-property check configuration: the single source for the driver and MANIFEST.json."""

def T(name, quick, thorough=None, **kw):
    d = dict(name=name, quick=quick, thorough=thorough if thorough is not None else quick * 10)
    d.update(kw)
    return d

CHECKS = {}

def add(pid, pkg, tests, rule, level="exploration", technique="", text="", note="", design="",
        assumptions=None, fuzz=None, pre=None):
    CHECKS[pid] = dict(pkg=pkg, tests=tests, rule=rule, level=level, technique=technique,
                       text=text, note=note, design=design or ("4/" + pid),
                       assumptions=assumptions or [], fuzz=fuzz or [], pre=pre or [])

add("C20", "c_tl",
    [T("TestC20", 20000, 60000), T("TestC20Arbitrary", 40000, 200000)],
    rule="rapid-generated concatenations of 1..10 TL primitives (boundary-biased values; string/bytes lengths around 253/254, 65535, 2^24-1) and arbitrary/mutated/hostile-length-prefix inputs; non-trivial = concatenation of >=2 values or a string/bytes of length >=252 (round-trip test), non-empty input (arbitrary-bytes test); distinct by value descriptor / input bytes",
    technique="property-based round-trip + differential against an independent TL reference writer/reader (rapid)",
    text="Generated search: every generated value sequence must encode 4-byte aligned and byte-identical to an independent reference writer, decode back consuming exactly the encoded length, fail on every strict prefix, and arbitrary inputs must decode (or fail) exactly as the reference reader does. Sampled, not exhaustive.",
    note="Trusts the harness reference TL writer/reader (pbt/ref/tl.go, written from core.telegram.org/mtproto/serialize) and rapid's generators.",
    assumptions=["string/bytes length <= 2^24-1 (the property's domain)"],
    fuzz=[dict(name="FuzzC20", seconds=60)])
NOT_CLAIMED = {}
