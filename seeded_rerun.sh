#!/bin/bash
# Re-runs every kept seeded change through its property's quick check (scratch worktrees, /repo untouched)
# and writes seeded/RESULTS.txt: one line per change. Usage: seeded_rerun.sh [jobs]
export GOFLAGS=-mod=mod GOPROXY=off
cd /verif
jobs=${1:-6}
out=/tmp/seeded-rerun; rm -rf $out; mkdir -p $out
n=20
for d in seeded/*/; do
  id=$(basename $d); pid=${id:0:3}
  ( MUT_SLOT=$n ./try_mutant.sh /verif/$d/patch.diff $pid quick > $out/$id.log 2>&1; echo "$id rc=$? $(grep -E '^(VIOLATION|OK|INCONCLUSIVE)' $out/$id.log | tail -1)" > $out/$id.res ) &
  n=$((n+1))
  while [ $(jobs -r | wc -l) -ge $jobs ]; do sleep 2; done
done
wait
cat $out/*.res | sed 's#replay=/tmp/mut-replays/##' > seeded/RESULTS.txt
grep -c "rc=1 VIOLATION" seeded/RESULTS.txt
grep -v "rc=1 VIOLATION" seeded/RESULTS.txt
