#!/bin/sh
# Sensitivity: revert each fix in a scratch worktree and run the property's quick check against it.
cd /verif
: > selfmut/results.txt
while read c p; do
  out=$(VERIF_SKIP_PRE=1 ./try_mutant.sh selfmut/revert-$c.diff $p quick 2>&1 | grep -E "^(VIOLATION|OK|INCONCLUSIVE|KNOWN|mutant rc|patch does not|mutant does not)" | tr '\n' ' ')
  echo "$c $p :: $out" >> selfmut/results.txt
done < selfmut/list.txt
