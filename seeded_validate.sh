#!/bin/bash
# usage: seeded_validate.sh <Cxx> <demo-run-regex> <demo-pkg> <test-pkgs...>
# Confirms a sub-agent's seeded change in /tmp/mut/<Cxx>: the demonstration fails with the change
# and passes without it, and the listed existing test packages still pass with it.
set -u
id=$1; run=$2; demopkg=$3; shift 3
wt=/tmp/mut/$id
export GOFLAGS=-mod=mod GOPROXY=off
cd $wt || exit 2
p=MUTANT/patch.diff
echo "== demo with change (expect FAIL)"
go test -count=1 -run "$run" $demopkg 2>&1 | tail -4
echo "== demo without change (expect ok)"
git apply -R $p && go test -count=1 -run "$run" $demopkg 2>&1 | tail -2; git apply $p
echo "== existing tests with change, demo file moved away (expect ok)"
demos=$(git status --porcelain | grep '^??' | grep '_test.go' | awk '{print $2}')
mkdir -p /tmp/mut/$id.demo; for d in $demos; do mv $d /tmp/mut/$id.demo/; done
go build ./... && go test -count=1 "$@" 2>&1 | grep -v "no test files" | tail -12
for d in $demos; do mv /tmp/mut/$id.demo/$(basename $d) $d; done
