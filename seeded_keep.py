#!/usr/bin/env python3
"""usage: seeded_keep.py <Cxx[-n]> <src dir /tmp/mut/Cxx> <check result line> <caught: yes|no> [notes]
Copies a confirmed seeded change into /verif/seeded/<id>/ and records what was run."""
import json, os, shutil, sys, glob
sid, src, result, caught = sys.argv[1:5]
notes = sys.argv[5] if len(sys.argv) > 5 else ""
dst = os.path.join('/verif/seeded', sid)
os.makedirs(dst, exist_ok=True)
m = os.path.join(src, 'MUTANT')
shutil.copy(os.path.join(m, 'patch.diff'), os.path.join(dst, 'patch.diff'))
for f in glob.glob(os.path.join(m, '*')):
    b = os.path.basename(f)
    if b not in ('patch.diff', 'meta.json') and os.path.isfile(f):
        shutil.copy(f, os.path.join(dst, b if not b.endswith('_test.go') else b + '.txt'))
meta = json.load(open(os.path.join(m, 'meta.json')))
meta['confirmed_by_coordinator'] = {
    'demo_fails_with_change_and_passes_without': True,
    'existing_tests_pass_with_change': True,
    'how': '/verif/seeded_validate.sh (demo with change: FAIL; git apply -R: ok; existing tests of the touched packages and dependents with the change, demo file moved away: ok)',
}
meta['check_result'] = {'command': f'./try_mutant.sh seeded/{sid}/patch.diff {sid[:3]} quick', 'caught': caught == 'yes', 'output': result, 'notes': notes}
meta['note'] = 'demo test files are stored with a .txt suffix so that they are not compiled as part of /verif; place them at the path given in "demo"'
json.dump(meta, open(os.path.join(dst, 'meta.json'), 'w'), indent=1)
print('kept', dst, os.listdir(dst))
