#!/bin/sh
# setup_cmd: offline; warms the Go build cache for every harness package.
set -e
cd "$(dirname "$0")/harness"
export GOFLAGS=-mod=mod GOPROXY=off
unset GOTOOLCHAIN GOSUMDB
mkdir -p ../.build/setup
for d in c_*; do
  [ -d "$d" ] || continue
  go test -c -tags verif -vet=off -o ../.build/setup/$d.test ./$d || echo "setup: build of $d failed" >&2
done
rm -rf ../.build/setup
echo '{"findings": []}' > /dev/null
