import json, os, subprocess
import checks as CFG
ROOT = os.path.dirname(os.path.abspath(__file__))

NOT_APPLICABLE = []  # filled below for properties without a check yet

def main():
    props = [json.loads(l) for l in open(os.path.join(ROOT, "properties.jsonl"))]
    hooks_commits = []
    hf = os.path.join(ROOT, "hooks_commits.txt")
    if os.path.exists(hf):
        hooks_commits = [l.split()[0] for l in open(hf) if l.strip() and not l.startswith("#")]
    checks = []
    for p in props:
        pid = p["id"]
        c = CFG.CHECKS.get(pid)
        if not c:
            continue
        entry = {
            "property_id": pid,
            "quick_cmd": f"./check {pid} quick",
            "thorough_cmd": f"./check {pid} thorough",
            "evidence_file": f"/verif/evidence/{pid}.json",
            "replay_cmd_template": f"./check {pid} --replay {{path}}",
            "engine": "rapid-harness",
            "level_claimed": {"category": c["level"], "text": c["text"], "design_ref": "DESIGN.md section " + c["design"]},
            "level_note": c["note"],
            "technique": c["technique"],
        }
        checks.append(entry)
    na = []
    for p in props:
        if p["id"] not in CFG.CHECKS:
            na.append({"property_id": p["id"], "reason": CFG.NOT_CLAIMED.get(p["id"], "check not built yet in this session; property-based design exists in DESIGN.md section 4 but no executable check is registered, so nothing is claimed")})
    m = {
        "version": 1,
        "setup_cmd": "./setup.sh",
        "hooks": {
            "guard": "verif",
            "enable": "go test -tags verif (the harness module replaces github.com/gotd/td with /repo and builds with -tags verif)",
            "baseline_off_cmd": "for m in $(cat /w/out/gomods.txt); do MF=$(cd /repo/$m && . /w/out/goenv.sh && gomodflag); (cd /repo/$m && go test $MF -json -vet=off -count=1 -timeout 25m ./...); done",
            "source_commits": hooks_commits,
            "add_only": True,
        },
        "engines": [{
            "name": "rapid-harness",
            "path": "/verif/harness",
            "serves_properties": sorted(CFG.CHECKS),
            "kind_free_text": "Go module of property-based tests (pgregory.net/rapid v1.3.0 state machines and generators, testing/synctest virtual time, native go fuzz targets in the thorough tier) driven by /verif/check; independent reference implementations in harness/pbt/ref",
        }],
        "checks": checks,
        "not_applicable": na,
        "notes": "All checks are generated-input searches against explicit oracles (property-based testing / fuzzing). Exit 2 from a command means inconclusive (build failure, timeout), never a violation. known_findings.json lists genuine defects that are recorded rather than repaired.",
    }
    with open(os.path.join(ROOT, "MANIFEST.json"), "w") as f:
        json.dump(m, f, indent=1)
    print("MANIFEST.json:", len(checks), "checks,", len(na), "not claimed")

if __name__ == "__main__":
    main()
