module verifharness

go 1.25.0

require (
	github.com/gotd/td v0.0.0
	pgregory.net/rapid v1.3.0
)

replace github.com/gotd/td => /repo
