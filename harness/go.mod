module verifharness

go 1.25.0

require (
	github.com/gotd/log v0.1.0
	github.com/gotd/td v0.0.0
	go.uber.org/multierr v1.11.0
	pgregory.net/rapid v1.3.0
)

require (
	github.com/PuerkitoBio/goquery v1.11.0 // indirect
	github.com/andybalholm/brotli v1.2.1 // indirect
	github.com/andybalholm/cascadia v1.3.3 // indirect
	github.com/awnumar/memcall v0.4.0 // indirect
	github.com/awnumar/memguard v0.23.0 // indirect
	github.com/beevik/ntp v1.5.0 // indirect
	github.com/benbjohnson/clock v1.3.0 // indirect
	github.com/cenkalti/backoff/v4 v4.3.0 // indirect
	github.com/cespare/xxhash/v2 v2.3.0 // indirect
	github.com/coder/websocket v1.8.15 // indirect
	github.com/davecgh/go-spew v1.1.1 // indirect
	github.com/dlclark/regexp2 v1.12.0 // indirect
	github.com/fatih/color v1.19.0 // indirect
	github.com/ghodss/yaml v1.0.0 // indirect
	github.com/go-faster/errors v0.8.0 // indirect
	github.com/go-faster/jx v1.2.0 // indirect
	github.com/go-faster/sdk v0.34.0 // indirect
	github.com/go-faster/xor v1.0.0 // indirect
	github.com/go-faster/yaml v0.4.6 // indirect
	github.com/go-logr/logr v1.4.3 // indirect
	github.com/go-logr/stdr v1.2.2 // indirect
	github.com/go-openapi/inflect v1.0.0 // indirect
	github.com/google/uuid v1.6.0 // indirect
	github.com/gotd/getdoc v0.53.0 // indirect
	github.com/gotd/ige v0.3.0 // indirect
	github.com/gotd/log/logzap v0.1.1 // indirect
	github.com/gotd/neo v0.1.5 // indirect
	github.com/gotd/tl v0.4.0 // indirect
	github.com/k0kubun/pp/v3 v3.5.2 // indirect
	github.com/klauspost/compress v1.19.1 // indirect
	github.com/mattn/go-colorable v0.1.15 // indirect
	github.com/mattn/go-isatty v0.0.22 // indirect
	github.com/ogen-go/ogen v1.23.0 // indirect
	github.com/pion/datachannel v1.6.2 // indirect
	github.com/pion/dtls/v3 v3.1.5 // indirect
	github.com/pion/ice/v4 v4.4.0 // indirect
	github.com/pion/interceptor v0.1.47 // indirect
	github.com/pion/logging v0.2.4 // indirect
	github.com/pion/mdns/v2 v2.1.0 // indirect
	github.com/pion/randutil v0.1.0 // indirect
	github.com/pion/rtcp v1.2.17 // indirect
	github.com/pion/rtp v1.10.5 // indirect
	github.com/pion/sctp v1.11.1 // indirect
	github.com/pion/sdp/v3 v3.0.19 // indirect
	github.com/pion/srtp/v3 v3.0.12 // indirect
	github.com/pion/stun/v3 v3.1.6 // indirect
	github.com/pion/transport/v4 v4.0.2 // indirect
	github.com/pion/turn/v5 v5.0.12 // indirect
	github.com/pion/webrtc/v4 v4.2.18 // indirect
	github.com/pmezard/go-difflib v1.0.0 // indirect
	github.com/refraction-networking/utls v1.8.2 // indirect
	github.com/rogpeppe/go-internal v1.15.0 // indirect
	github.com/segmentio/asm v1.2.1 // indirect
	github.com/sergi/go-diff v1.1.0 // indirect
	github.com/shopspring/decimal v1.4.0 // indirect
	github.com/stretchr/testify v1.11.1 // indirect
	github.com/wlynxg/anet v0.0.5 // indirect
	github.com/yuin/goldmark v1.8.5 // indirect
	go.opentelemetry.io/auto/sdk v1.2.1 // indirect
	go.opentelemetry.io/otel v1.44.0 // indirect
	go.opentelemetry.io/otel/metric v1.44.0 // indirect
	go.opentelemetry.io/otel/trace v1.44.0 // indirect
	go.uber.org/atomic v1.11.0 // indirect
	go.uber.org/ratelimit v0.3.1 // indirect
	go.uber.org/zap v1.28.0 // indirect
	golang.org/x/crypto v0.54.0 // indirect
	golang.org/x/exp v0.0.0-20230725093048-515e97ebf090 // indirect
	golang.org/x/mod v0.38.0 // indirect
	golang.org/x/net v0.57.0 // indirect
	golang.org/x/sync v0.22.0 // indirect
	golang.org/x/sys v0.47.0 // indirect
	golang.org/x/text v0.40.0 // indirect
	golang.org/x/time v0.14.0 // indirect
	golang.org/x/tools v0.48.0 // indirect
	gopkg.in/yaml.v2 v2.4.0 // indirect
	gopkg.in/yaml.v3 v3.0.1 // indirect
	nhooyr.io/websocket v1.8.17 // indirect
	rsc.io/qr v0.2.0 // indirect
)

replace github.com/gotd/td => /repo
