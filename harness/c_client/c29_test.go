package c_client

import (
	"bytes"
	"context"
	"encoding/binary"
	"fmt"
	"net"
	"os"
	"runtime"
	"strings"
	"sync"
	"testing"
	"testing/synctest"
	"time"

	"github.com/gotd/td/bin"
	"github.com/gotd/td/session"
	"github.com/gotd/td/telegram"
	"github.com/gotd/td/telegram/dcs"
	"github.com/gotd/td/tg"
	"pgregory.net/rapid"

	"verifharness/pbt"
)

// C29: requests survive primary connection loss without duplicate execution.
// A real telegram.Client (restored session, public API only) runs in a synctest
// bubble; every dial returns a pipe served by a harness peer that answers
// initConnection/help.getConfig, pings and salts, and treats the harness's
// marked requests according to a drawn plan (kill before ack, ack then kill,
// result then kill, answer, hold).

const marker = 0x7e570029

// sigUndetected: a request whose transport write fails because the connection
// is dying (died but not yet detected, or killed while the frame is being
// written) fails with the write error instead of being re-sent on the
// replacement connection.
const sigUndetected = "C29/send-on-undetected-dead-connection"

type rawEnc []byte

func (e rawEnc) Encode(b *bin.Buffer) error { b.Put(e); return nil }

type rawDec struct{ got *[]byte }

func (d rawDec) Decode(b *bin.Buffer) error {
	*d.got = append([]byte(nil), b.Buf...)
	return nil
}

func markedBody(tag uint64) []byte {
	b := binary.LittleEndian.AppendUint32(nil, marker)
	return binary.LittleEndian.AppendUint64(b, tag)
}

func resultFor(tag uint64) []byte {
	b := binary.LittleEndian.AppendUint32(nil, 0x7e57002a)
	return binary.LittleEndian.AppendUint64(b, tag)
}

type seen struct {
	conn  int
	msgID int64
	at    time.Duration
}

type server struct {
	mu       sync.Mutex
	key      [256]byte
	t0       time.Time
	peers    []*pbt.Peer
	plan     map[uint64]string // first-sight behaviour per tag
	handled  map[uint64]bool   // plan already applied
	seenTag  map[uint64][]seen
	acked    map[uint64]int
	ackedOn  map[uint64]map[int]bool
	answered map[uint64]int
	cfg      []byte
	dials    int
	refuse   bool // refuse new connections
	staleAck int64
	// sessionAfterConfig: a further new_session_created follows the config result
	// at once (servers may announce a session at any time, e.g. after a reset)
	sessionAfterConfig bool
	update             []byte // an encoded updateShort
	// session announcements beyond the two above (TestC30TwoClients): salts
	// saltBase+1.. before the config answer, saltBase+0x100.. after it, the
	// latter afterGap apart. saltBase 0 = 0x4444 / 0x5555 only.
	saltBase    int64
	extraBefore int
	extraAfter  int
	afterGap    time.Duration
}

func (s *server) firstSalt() int64 {
	if s.saltBase != 0 {
		return s.saltBase
	}
	return 0x4444
}

func (s *server) dial(ctx context.Context, network, addr string) (net.Conn, error) {
	s.mu.Lock()
	if s.refuse {
		s.mu.Unlock()
		return nil, fmt.Errorf("harness: connection refused")
	}
	s.dials++
	idx := len(s.peers)
	c1, c2 := net.Pipe()
	p := pbt.NewPeer(c2, s.key)
	p.T0 = s.t0
	first := true
	p.OnMsg = func(p *pbt.Peer, m *pbt.ClientMsg) {
		if m.TypeID == pbt.IDMsgContainer {
			return
		}
		if first {
			first = false
			_ = p.Send(p.NextID(3), 1, pbt.NewSessionCreated(m.MsgID, int64(idx+1), s.firstSalt()))
			for k := 1; k <= s.extraBefore; k++ {
				_ = p.Send(p.NextID(3), 1, pbt.NewSessionCreated(m.MsgID, int64(idx+1+10*k), s.saltBase+int64(k)))
			}
		}
		if id, ok := pbt.PingID(m.Body); ok {
			_ = p.Send(p.NextID(1), 0, pbt.Pong(m.MsgID, id))
			return
		}
		if m.SeqNo%2 == 0 {
			return // service message (acks, get_future_salts, ...)
		}
		// help.getConfig inside invokeWithLayer(initConnection(...))
		if bytes.Contains(m.Body, binary.LittleEndian.AppendUint32(nil, tg.HelpGetConfigRequestTypeID)) {
			_ = p.Send(p.NextID(1), 0, pbt.MsgsAck(m.MsgID))
			_ = p.Send(p.NextID(1), 1, pbt.RPCResult(m.MsgID, s.cfg))
			s.mu.Lock()
			s.staleAck = m.MsgID // answered: the client does not wait for this id any more
			again := s.sessionAfterConfig
			s.mu.Unlock()
			if again {
				_ = p.Send(p.NextID(3), 1, pbt.NewSessionCreated(m.MsgID, int64(idx+101), 0x5555))
			}
			if s.extraAfter > 0 {
				go func(first int64) {
					for k := 0; k < s.extraAfter; k++ {
						time.Sleep(s.afterGap)
						if p.Send(p.NextID(3), 1, pbt.NewSessionCreated(first, int64(idx+201+k), s.saltBase+0x100+int64(k))) != nil {
							return
						}
					}
				}(m.MsgID)
			}
			return
		}
		i := bytes.Index(m.Body, binary.LittleEndian.AppendUint32(nil, marker))
		if i < 0 || i+12 > len(m.Body) {
			// unknown content request (e.g. rpc_drop_answer): acknowledge only
			_ = p.Send(p.NextID(1), 0, pbt.MsgsAck(m.MsgID))
			return
		}
		tag := binary.LittleEndian.Uint64(m.Body[i+4:])
		s.mu.Lock()
		s.seenTag[tag] = append(s.seenTag[tag], seen{conn: idx, msgID: m.MsgID, at: time.Since(s.t0)})
		behaviour := "answer"
		if !s.handled[tag] {
			s.handled[tag] = true
			if b, ok := s.plan[tag]; ok {
				behaviour = b
			}
		}
		s.mu.Unlock()
		ack := func() {
			s.mu.Lock()
			s.acked[tag]++
			if s.ackedOn[tag] == nil {
				s.ackedOn[tag] = map[int]bool{}
			}
			s.ackedOn[tag][idx] = true
			s.mu.Unlock()
			// servers batch acknowledgements: half of the time the ack arrives in a
			// msgs_ack that first names an id the client no longer waits for
			if s.staleAck != 0 && tag%2 == 0 {
				_ = p.Send(p.NextID(1), 0, pbt.MsgsAck(s.staleAck, m.MsgID))
			} else {
				_ = p.Send(p.NextID(1), 0, pbt.MsgsAck(m.MsgID))
			}
		}
		answer := func() {
			s.mu.Lock()
			s.answered[tag]++
			s.mu.Unlock()
			_ = p.Send(p.NextID(1), 1, pbt.RPCResult(m.MsgID, resultFor(tag)))
		}
		switch behaviour {
		case "kill-before-ack":
			_ = p.Conn.Close()
		case "ack-then-kill":
			ack()
			_ = p.Conn.Close()
		case "ack-behind-update-then-kill":
			// the acknowledgement travels in a container behind an update; the
			// client's update handler is slow, so the ack has been received but not
			// yet looked at when the connection goes away
			s.mu.Lock()
			s.acked[tag]++
			if s.ackedOn[tag] == nil {
				s.ackedOn[tag] = map[int]bool{}
			}
			s.ackedOn[tag][idx] = true
			s.mu.Unlock()
			_ = p.Send(p.NextID(1), 0, pbt.Container(
				pbt.ContainerMsg{MsgID: p.NextID(1), SeqNo: 1, Body: s.update},
				pbt.ContainerMsg{MsgID: p.NextID(1), SeqNo: 2, Body: pbt.MsgsAck(m.MsgID)},
			))
			_ = p.Conn.Close()
		case "result-then-kill":
			ack()
			answer()
			_ = p.Conn.Close()
		case "hold":
			ack()
		case "hold-unacked":
		default:
			ack()
			answer()
		}
	}
	s.peers = append(s.peers, p)
	s.mu.Unlock()
	go p.Serve()
	return c1, nil
}

func (s *server) killCurrent() {
	s.mu.Lock()
	p := s.peers[len(s.peers)-1]
	s.mu.Unlock()
	_ = p.Conn.Close()
}

type call struct {
	tag  uint64
	done chan error
	out  []byte
	at   time.Duration
}

func TestC29(t *testing.T) {
	st := pbt.NewStats("TestC29")
	defer st.Flush()
	cfgBuf := bin.Buffer{}
	cfg := tg.Config{ThisDC: 2, DCOptions: []tg.DCOption{{ID: 2, IPAddress: "10.0.0.2", Port: 443}}, Date: 1, Expires: 1 << 30}
	if err := cfg.Encode(&cfgBuf); err != nil {
		t.Fatal(err)
	}
	updBuf := bin.Buffer{}
	if err := (&tg.UpdateShort{Update: &tg.UpdateUserTyping{UserID: 5, Action: &tg.SendMessageTypingAction{}}, Date: 1}).Encode(&updBuf); err != nil {
		t.Fatal(err)
	}
	rapid.Check(t, func(t *rapid.T) {
		rnd, seed := pbt.DrawStream(t, "rnd")
		ncalls := rapid.IntRange(1, 3).Draw(t, "ncalls")
		plans := make([]string, ncalls)
		for i := range plans {
			plans[i] = rapid.SampledFrom([]string{"answer", "kill-before-ack", "kill-before-ack", "ack-then-kill", "ack-then-kill", "ack-behind-update-then-kill", "result-then-kill", "hold", "hold-unacked"}).Draw(t, "plan")
		}
		idleKill := rapid.Bool().Draw(t, "killWhileIdleFirst") // "before send": the connection is dead when the request is issued
		undetected := rapid.Bool().Draw(t, "deathNotYetDetected")
		outage := rapid.Bool().Draw(t, "outageBeforeRequests")
		ending := rapid.SampledFrom([]string{"reconnect", "reconnect", "close"}).Draw(t, "ending")
		closeAfter := time.Duration(rapid.SampledFrom([]int{0, 1, 100, 3000, 20000}).Draw(t, "closeAfterMs")) * time.Millisecond
		var hist []string
		classes := map[string]bool{}
		serialize := pbt.Known("C29", sigUndetected)
		if serialize {
			// Exclusion by construction for the listed finding: no request may be in
			// the middle of its first write while another request's plan kills the
			// connection. At most one killing plan, issued last; after an idle kill
			// several requests are only issued once the reconnect has completed.
			excluded := false
			for i := range plans {
				if strings.Contains(plans[i], "kill") && i != len(plans)-1 {
					plans[i] = "hold"
					excluded = true
				}
			}
			if excluded {
				st.Excluded(sigUndetected)
			}
		}
		rapid.SyncTest(t, func(t *rapid.T) {
			var key [256]byte
			copy(key[:], rnd.Bytes(256))
			srv := &server{key: key, t0: time.Now(), plan: map[uint64]string{}, handled: map[uint64]bool{}, seenTag: map[uint64][]seen{},
				acked: map[uint64]int{}, ackedOn: map[uint64]map[int]bool{}, answered: map[uint64]int{}, cfg: cfgBuf.Buf, update: updBuf.Buf}
			ak := keyFrom(0)
			ak.Value = key
			ak.ID = ak.Value.ID()
			store := &recStorage{}
			if err := (&session.Loader{Storage: store}).Save(context.Background(), &session.Data{DC: 2, Addr: "10.0.0.2:443", AuthKey: ak.Value[:], AuthKeyID: ak.ID[:], Salt: 0x1234}); err != nil {
				t.Fatal(err)
			}
			client := telegram.NewClient(1, "hash", telegram.Options{
				DC:             2,
				DCList:         dcs.List{Options: cfg.DCOptions},
				Resolver:       dcs.Plain(dcs.PlainOptions{Dial: srv.dial}),
				SessionStorage: store,
				NoUpdates:      true,
				Random:         rnd,
				// the application's update handler takes its time (virtual)
				UpdateHandler: telegram.UpdateHandlerFunc(func(ctx context.Context, u tg.UpdatesClass) error {
					time.Sleep(2 * time.Second)
					return nil
				}),
			})
			ctx, cancel := context.WithCancel(context.Background())
			runDone := make(chan error, 1)
			go func() {
				runDone <- client.Run(ctx, func(ctx context.Context) error { <-ctx.Done(); return ctx.Err() })
			}()
			synctest.Wait()
			callsCtx, callsCancel := context.WithCancel(context.Background())
			defer func() {
				cancel()
				synctest.Wait()
				callsCancel() // only now: the oracle ran with caller contexts that never end
				synctest.Wait()
				srv.mu.Lock()
				for _, p := range srv.peers {
					_ = p.Conn.Close()
				}
				srv.mu.Unlock()
				synctest.Wait()
				// (how fast Run itself returns is not part of C29; give it time)
				time.Sleep(5 * time.Minute)
				synctest.Wait()
				select {
				case <-runDone:
				default:
					t.Fatalf("Client.Run did not return within 5 minutes after its context was cancelled\n%s", strings.Join(hist, " "))
				}
				if os.Getenv("VERIF_DEBUG_STACKS") != "" {
					buf := make([]byte, 1<<20)
					n := runtime.Stack(buf, true)
					_ = os.WriteFile(os.Getenv("VERIF_DEBUG_STACKS"), buf[:n], 0o644)
				}
			}()
			if srv.dials == 0 {
				t.Fatalf("client did not dial")
			}
			if idleKill {
				if ending == "close" && outage {
					// the outage lasts: no replacement connection can be established, the
					// reconnect loop is in its back-off when the requests are issued and
					// when the client is closed
					srv.mu.Lock()
					srv.refuse = true
					srv.mu.Unlock()
					classes["issued-during-outage-then-close"] = true
				}
				srv.killCurrent()
				hist = append(hist, "kill-idle")
				classes["kill-before-send"] = true
				if !undetected || pbt.Known("C29", sigUndetected) {
					// let the client notice the death before the request is issued; the
					// other shape (request written to a connection whose death is not
					// yet detected) is a listed known finding
					if undetected {
						st.Excluded(sigUndetected)
					}
					synctest.Wait()
					if serialize && ncalls > 1 {
						time.Sleep(30 * time.Second) // reconnect completes; no burst of first writes
						synctest.Wait()
					}
				} else {
					hist = append(hist, "(death-not-yet-detected)")
				}
				if ending == "close" {
					srv.mu.Lock()
					srv.refuse = true
					srv.mu.Unlock()
				}
			}
			calls := make([]*call, ncalls)
			for i := range calls {
				c := &call{tag: uint64(i + 1), done: make(chan error, 1)}
				calls[i] = c
				srv.mu.Lock()
				srv.plan[c.tag] = plans[i]
				if ending == "close" && strings.Contains(plans[i], "kill") {
					srv.refuse = true // no replacement connection: the client is closed instead
				}
				srv.mu.Unlock()
				hist = append(hist, fmt.Sprintf("invoke(%d:%s)", c.tag, plans[i]))
				go func() {
					err := client.Invoke(callsCtx, rawEnc(markedBody(c.tag)), rawDec{&c.out})
					c.at = time.Since(srv.t0)
					c.done <- err
				}()
				synctest.Wait()
			}
			if ending == "reconnect" {
				// let reconnects (back-off) and re-sends happen
				time.Sleep(2 * time.Minute)
				synctest.Wait()
				hist = append(hist, "wait(2m)")
			} else {
				time.Sleep(closeAfter)
				synctest.Wait()
				closeAt := time.Since(srv.t0)
				cancel()
				hist = append(hist, fmt.Sprintf("close@%v", closeAt))
				classes["client-closed"] = true
				synctest.Wait()
				// bounded virtual time: one second is ample, nothing may wait for a reconnect
				time.Sleep(time.Second)
				synctest.Wait()
				for _, c := range calls {
					select {
					case err := <-c.done:
						c.done <- err
					default:
						t.Fatalf("C29 violated: invoke %d (%s) is still pending 1s after the client was closed\n%s", c.tag, srv.plan[c.tag], strings.Join(hist, " "))
					}
				}
				// a new invocation after close returns as well
				late := make(chan error, 1)
				go func() {
					var out []byte
					late <- client.Invoke(callsCtx, rawEnc(markedBody(99)), rawDec{&out})
				}()
				time.Sleep(time.Second)
				synctest.Wait()
				select {
				case err := <-late:
					if err == nil {
						t.Fatalf("an invocation issued after close succeeded")
					}
				default:
					t.Fatalf("C29 violated: an invocation issued after the client was closed does not return\n%s", strings.Join(hist, " "))
				}
			}
			// ---- per-call oracle
			srv.mu.Lock()
			defer srv.mu.Unlock()
			for _, c := range calls {
				plan := srv.plan[c.tag]
				var err error
				returned := false
				select {
				case err = <-c.done:
					returned = true
				default:
				}
				sightings := srv.seenTag[c.tag]
				conns := map[int]bool{}
				for _, s := range sightings {
					conns[s.conn] = true
				}
				if srv.answered[c.tag] > 1 {
					t.Fatalf("C29 violated: request %d was answered (executed) %d times\n%s", c.tag, srv.answered[c.tag], strings.Join(hist, " "))
				}
				for _, a := range sightings {
					for _, b := range sightings {
						if srv.ackedOn[c.tag][a.conn] && b.conn > a.conn {
							t.Fatalf("C29 violated: request %d (%s) was acknowledged on connection %d and sent again on connection %d\n%s", c.tag, plan, a.conn, b.conn, strings.Join(hist, " "))
						}
					}
				}
				if ending != "reconnect" {
					continue
				}
				switch plan {
				case "answer":
					if !returned || err != nil || !bytes.Equal(c.out, resultFor(c.tag)) {
						t.Fatalf("request %d (answer): returned=%v err=%v", c.tag, returned, err)
					}
				case "kill-before-ack":
					classes["killed-after-send-before-ack"] = true
					if len(conns) < 2 {
						t.Fatalf("C29 violated: request %d was killed before the server acknowledged it but was not re-sent on the replacement connection (seen on %v; Invoke returned=%v err=%v; %d connections)\n%s", c.tag, sightings, returned, err, len(srv.peers), strings.Join(hist, " "))
					}
					if !returned || err != nil || !bytes.Equal(c.out, resultFor(c.tag)) {
						t.Fatalf("C29 violated: request %d was re-sent after an unacknowledged loss but Invoke returned (returned=%v) err=%v\n%s", c.tag, returned, err, strings.Join(hist, " "))
					}
				case "ack-then-kill", "ack-behind-update-then-kill":
					classes["killed-after-ack"] = true
					if plan == "ack-behind-update-then-kill" {
						classes["ack-received-but-not-yet-handled-at-kill"] = true
					}
					if !returned {
						t.Fatalf("C29 violated: request %d was acknowledged, then the connection died: Invoke never returned\n%s", c.tag, strings.Join(hist, " "))
					}
					if err == nil {
						t.Fatalf("C29 violated: request %d was acknowledged, then the connection died, but Invoke returned success without a result", c.tag)
					}
				case "result-then-kill":
					classes["killed-after-result"] = true
					if !returned {
						t.Fatalf("request %d (result then kill): Invoke never returned", c.tag)
					}
					if err == nil && !bytes.Equal(c.out, resultFor(c.tag)) {
						t.Fatalf("request %d: foreign result", c.tag)
					}
				}
			}
		})
		key := fmt.Sprintf("seed=%d %s", seed, strings.Join(hist, " "))
		var cl []string
		for _, k := range []string{"kill-before-send", "killed-after-send-before-ack", "killed-after-ack", "killed-after-result", "client-closed", "issued-during-outage-then-close", "ack-received-but-not-yet-handled-at-kill"} {
			if classes[k] {
				cl = append(cl, k)
			}
		}
		nontrivial := classes["killed-after-send-before-ack"] || classes["killed-after-ack"] || classes["killed-after-result"]
		st.Case(key, nontrivial, short(strings.Join(hist, " "), 300), cl...)
	})
}
