package c_client

import (
	"context"
	"fmt"
	"testing"
	"testing/synctest"
	"time"

	"github.com/gotd/td/bin"
	"github.com/gotd/td/session"
	"github.com/gotd/td/telegram"
	"github.com/gotd/td/telegram/dcs"
	"github.com/gotd/td/tg"

	"verifharness/pbt"
)

// c29UndetectedViolation replays the witness of the known finding: the peer
// closes the idle primary connection and, before the client's read loop has
// noticed, a request is issued. It reports what happened, or "" if the request
// was re-sent on the replacement connection and answered.
func c29UndetectedViolation(t *testing.T) string {
	var result string
	cfgBuf := bin.Buffer{}
	cfg := tg.Config{ThisDC: 2, DCOptions: []tg.DCOption{{ID: 2, IPAddress: "10.0.0.2", Port: 443}}, Date: 1, Expires: 1 << 30}
	_ = cfg.Encode(&cfgBuf)
	synctest.Test(t, func(t *testing.T) {
		var key [256]byte
		copy(key[:], pbt.NewStream(29).Bytes(256))
		srv := &server{key: key, t0: time.Now(), plan: map[uint64]string{}, handled: map[uint64]bool{}, seenTag: map[uint64][]seen{},
			acked: map[uint64]int{}, ackedOn: map[uint64]map[int]bool{}, answered: map[uint64]int{}, cfg: cfgBuf.Buf}
		ak := keyFrom(0)
		ak.Value = key
		ak.ID = ak.Value.ID()
		store := &recStorage{}
		_ = (&session.Loader{Storage: store}).Save(context.Background(), &session.Data{DC: 2, Addr: "10.0.0.2:443", AuthKey: ak.Value[:], AuthKeyID: ak.ID[:], Salt: 0x1234})
		client := telegram.NewClient(1, "hash", telegram.Options{DC: 2, DCList: dcs.List{Options: cfg.DCOptions},
			Resolver: dcs.Plain(dcs.PlainOptions{Dial: srv.dial}), SessionStorage: store, NoUpdates: true, Random: pbt.NewStream(30)})
		ctx, cancel := context.WithCancel(context.Background())
		runDone := make(chan error, 1)
		go func() { runDone <- client.Run(ctx, func(ctx context.Context) error { <-ctx.Done(); return ctx.Err() }) }()
		synctest.Wait()
		srv.killCurrent() // no quiescence here: the client has not noticed yet
		done := make(chan error, 1)
		var out []byte
		cctx, ccancel := context.WithCancel(context.Background())
		go func() { done <- client.Invoke(cctx, rawEnc(markedBody(1)), rawDec{&out}) }()
		time.Sleep(2 * time.Minute)
		synctest.Wait()
		select {
		case err := <-done:
			if err != nil {
				result = fmt.Sprintf("request issued right after the primary connection died (death not yet detected) was not re-sent on the replacement connection: Invoke returned %q", err)
			}
		default:
			result = "request issued right after the primary connection died never returned within 2 minutes"
		}
		ccancel()
		cancel()
		synctest.Wait()
		for _, p := range srv.peers {
			_ = p.Conn.Close()
		}
		time.Sleep(5 * time.Minute)
		synctest.Wait()
		<-runDone
	})
	return result
}

// TestC29Known reports the listed known finding while it still reproduces.
func TestC29Known(t *testing.T) {
	if !pbt.Known("C29", sigUndetected) {
		return
	}
	if v := c29UndetectedViolation(t); v != "" {
		pbt.ReportKnown("C29", sigUndetected, v)
	}
}

// TestC29Regression: an invocation pending while the reconnection loop sleeps in
// its back-off (primary connection killed, replacement refused) must return
// promptly once the client is closed (fixed 0a5ac20e1).
func TestC29Regression(t *testing.T) {
	cfgBuf := bin.Buffer{}
	cfg := tg.Config{ThisDC: 2, DCOptions: []tg.DCOption{{ID: 2, IPAddress: "10.0.0.2", Port: 443}}, Date: 1, Expires: 1 << 30}
	_ = cfg.Encode(&cfgBuf)
	synctest.Test(t, func(t *testing.T) {
		var key [256]byte
		copy(key[:], pbt.NewStream(31).Bytes(256))
		srv := &server{key: key, t0: time.Now(), plan: map[uint64]string{}, handled: map[uint64]bool{}, seenTag: map[uint64][]seen{},
			acked: map[uint64]int{}, ackedOn: map[uint64]map[int]bool{}, answered: map[uint64]int{}, cfg: cfgBuf.Buf}
		ak := keyFrom(0)
		ak.Value = key
		ak.ID = ak.Value.ID()
		store := &recStorage{}
		_ = (&session.Loader{Storage: store}).Save(context.Background(), &session.Data{DC: 2, Addr: "10.0.0.2:443", AuthKey: ak.Value[:], AuthKeyID: ak.ID[:], Salt: 0x1234})
		client := telegram.NewClient(1, "hash", telegram.Options{DC: 2, DCList: dcs.List{Options: cfg.DCOptions},
			Resolver: dcs.Plain(dcs.PlainOptions{Dial: srv.dial}), SessionStorage: store, NoUpdates: true, Random: pbt.NewStream(32)})
		ctx, cancel := context.WithCancel(context.Background())
		runDone := make(chan error, 1)
		go func() { runDone <- client.Run(ctx, func(ctx context.Context) error { <-ctx.Done(); return ctx.Err() }) }()
		synctest.Wait()
		srv.killCurrent()
		srv.mu.Lock()
		srv.refuse = true
		srv.mu.Unlock()
		synctest.Wait()
		done := make(chan error, 1)
		var out []byte
		cctx, ccancel := context.WithCancel(context.Background())
		defer ccancel()
		go func() { done <- client.Invoke(cctx, rawEnc(markedBody(1)), rawDec{&out}) }()
		time.Sleep(20 * time.Second)
		synctest.Wait()
		cancel() // close the client
		synctest.Wait()
		time.Sleep(time.Second)
		synctest.Wait()
		select {
		case err := <-done:
			if err == nil {
				t.Errorf("invocation succeeded without a server")
			}
		default:
			t.Errorf("invocation pending during the outage is still waiting 1s after the client was closed")
		}
		ccancel()
		time.Sleep(5 * time.Minute)
		synctest.Wait()
		<-runDone
	})
}
