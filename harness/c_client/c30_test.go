package c_client

import (
	"context"
	"crypto/sha1"
	"encoding/json"
	"fmt"
	"net"
	"strings"
	"sync"
	"testing"
	"testing/synctest"
	"time"

	"github.com/gotd/td/bin"
	"github.com/gotd/td/clock"
	"github.com/gotd/td/crypto"
	"github.com/gotd/td/mtproto"
	"github.com/gotd/td/session"
	"github.com/gotd/td/telegram"
	"github.com/gotd/td/telegram/dcs"
	"github.com/gotd/td/tg"
	"pgregory.net/rapid"

	"verifharness/pbt"
)

// recStorage is an in-memory session.Storage that records every save.
type recStorage struct {
	mu      sync.Mutex
	data    []byte
	saves   int
	history [][]byte // every stored value, in order
}

func (s *recStorage) LoadSession(context.Context) ([]byte, error) {
	s.mu.Lock()
	defer s.mu.Unlock()
	if s.data == nil {
		return nil, session.ErrNotFound
	}
	return append([]byte(nil), s.data...), nil
}

func (s *recStorage) StoreSession(_ context.Context, d []byte) error {
	s.mu.Lock()
	defer s.mu.Unlock()
	s.data = append([]byte(nil), d...)
	s.history = append(s.history, s.data)
	s.saves++
	return nil
}

func keyFrom(seed uint64) crypto.AuthKey {
	var k crypto.Key
	copy(k[:], pbt.NewStream(seed).Bytes(256))
	return k.WithID()
}

type notif struct {
	dc   int
	key  crypto.AuthKey
	perm crypto.AuthKey
	salt int64
}

// C30 (a): histories of session notifications from primary, non-primary and
// CDN connections interleaved with primary-DC changes; after every step the
// stored (DC, key, salt) equals a notification delivered for the DC that was
// primary when it was delivered, with the permanent key under PFS.
func TestC30(t *testing.T) {
	st := pbt.NewStats("TestC30")
	defer st.Flush()
	rapid.Check(t, func(t *rapid.T) {
		store := &recStorage{}
		startDC := rapid.SampledFrom([]int{1, 2, 4}).Draw(t, "startDC")
		pfs := rapid.Bool().Draw(t, "pfs")
		c := telegram.NewClient(1, "hash", telegram.Options{DC: startDC, SessionStorage: store, EnablePFS: pfs, NoUpdates: true})
		var accepted []notif // notifications delivered for the then-primary DC
		var hist []string
		classes := map[string]bool{}
		seed := uint64(0)
		sawPrimary := false
		check := func() {
			raw, err := store.LoadSession(context.Background())
			if err != nil {
				if len(accepted) > 0 {
					t.Fatalf("nothing stored after a primary notification\n%s", strings.Join(hist, " "))
				}
				return
			}
			var v struct {
				Data session.Data
			}
			if err := json.Unmarshal(raw, &v); err != nil {
				t.Fatalf("stored session does not parse: %v", err)
			}
			for _, n := range accepted {
				want := n.key
				if !n.perm.Zero() {
					want = n.perm
				}
				if v.Data.DC == n.dc && string(v.Data.AuthKey) == string(want.Value[:]) && string(v.Data.AuthKeyID) == string(want.ID[:]) && v.Data.Salt == n.salt {
					return
				}
			}
			t.Fatalf("C30 violated: stored session (dc=%d key=%x.. salt=%d) matches no notification delivered for the DC that was primary at the time\nhistory: %s", v.Data.DC, v.Data.AuthKey[:min(4, len(v.Data.AuthKey))], v.Data.Salt, strings.Join(hist, " "))
		}
		t.Repeat(map[string]func(*rapid.T){
			"primary": func(t *rapid.T) {
				seed++
				dc := c.VerifPrimaryDC()
				n := notif{dc: dc, key: keyFrom(seed), salt: int64(seed * 7)}
				if pfs {
					n.perm = keyFrom(seed + 1000)
				}
				if err := c.VerifOnSession(tg.Config{ThisDC: dc}, mtproto.Session{ID: int64(seed), Key: n.key, PermKey: n.perm, Salt: n.salt}); err != nil {
					t.Fatalf("onSession: %v", err)
				}
				accepted = append(accepted, n)
				hist = append(hist, fmt.Sprintf("primary(dc%d,k%d)", dc, seed))
				if sawPrimary && classes["other-since-primary"] {
					classes["other-between-primaries"] = true
				}
				sawPrimary = true
				classes["other-since-primary"] = false
			},
			"other": func(t *rapid.T) {
				seed++
				dc := rapid.SampledFrom([]int{1, 2, 3, 4, 5}).Draw(t, "dc")
				if dc == c.VerifPrimaryDC() {
					t.Skip("that is the primary DC")
				}
				n := notif{dc: dc, key: keyFrom(seed), salt: int64(seed * 7)}
				if pfs {
					n.perm = keyFrom(seed + 1000)
				}
				before := store.saves
				if err := c.VerifOnSession(tg.Config{ThisDC: dc}, mtproto.Session{ID: int64(seed), Key: n.key, PermKey: n.perm, Salt: n.salt}); err != nil {
					t.Fatalf("onSession: %v", err)
				}
				if store.saves != before {
					t.Fatalf("C30 violated: a notification from non-primary DC %d (primary is %d) rewrote the stored session\nhistory: %s", dc, c.VerifPrimaryDC(), strings.Join(hist, " "))
				}
				hist = append(hist, fmt.Sprintf("other(dc%d,k%d)", dc, seed))
				classes["other-since-primary"] = true
				classes["non-primary"] = true
			},
			"cdn": func(t *rapid.T) {
				seed++
				dc := rapid.SampledFrom([]int{c.VerifPrimaryDC(), 203, 2}).Draw(t, "dc")
				before := store.saves
				if err := c.VerifOnCDNSession(tg.Config{ThisDC: dc}, mtproto.Session{ID: int64(seed), Key: keyFrom(seed), Salt: int64(seed)}); err != nil {
					t.Fatalf("onCDNSession: %v", err)
				}
				if store.saves != before {
					t.Fatalf("C30 violated: a CDN notification rewrote the stored session")
				}
				hist = append(hist, fmt.Sprintf("cdn(dc%d)", dc))
				classes["other-since-primary"] = true
				classes["cdn"] = true
			},
			"migrate": func(t *rapid.T) {
				dc := rapid.SampledFrom([]int{1, 2, 3, 4, 5}).Draw(t, "dc")
				if dc == c.VerifPrimaryDC() {
					t.Skip("already there")
				}
				old := c.VerifPrimaryDC()
				c.VerifMigrate(dc)
				hist = append(hist, fmt.Sprintf("migrate(%d->%d)", old, dc))
				classes["migrate"] = true
			},
			"": func(t *rapid.T) { check() },
		})
		key := strings.Join(hist, " ")
		var cl []string
		for _, k := range []string{"non-primary", "cdn", "migrate", "other-between-primaries"} {
			if classes[k] {
				cl = append(cl, k)
			}
		}
		cl = append(cl, fmt.Sprintf("pfs=%v", pfs))
		st.Case(key, classes["other-between-primaries"], short(key, 300), cl...)
	})
}

func short(s string, n int) string {
	if len(s) > n {
		return s[:n] + "…"
	}
	return s
}

// C30 (b): a stored session whose key id does not match its key is refused on
// load, before any dial.
func TestC30Load(t *testing.T) {
	st := pbt.NewStats("TestC30Load")
	defer st.Flush()
	rapid.Check(t, func(t *rapid.T) {
		seed := rapid.Uint64().Draw(t, "seed")
		k := keyFrom(seed)
		data := session.Data{DC: rapid.SampledFrom([]int{1, 2, 4}).Draw(t, "dc"), Addr: "10.0.0.1:443", AuthKey: k.Value[:], AuthKeyID: k.ID[:], Salt: 5}
		mut := rapid.SampledFrom([]string{"intact", "flip-key-bit", "flip-id-bit", "truncate-key", "truncate-id", "zero-id", "swap-id", "extend-key"}).Draw(t, "mutation")
		pos := rapid.IntRange(0, 4095).Draw(t, "pos")
		switch mut {
		case "flip-key-bit":
			b := append([]byte(nil), data.AuthKey...)
			b[(pos/8)%256] ^= 1 << (pos % 8)
			data.AuthKey = b
		case "flip-id-bit":
			b := append([]byte(nil), data.AuthKeyID...)
			b[(pos/8)%8] ^= 1 << (pos % 8)
			data.AuthKeyID = b
		case "truncate-key":
			data.AuthKey = data.AuthKey[:pos%256]
		case "truncate-id":
			data.AuthKeyID = data.AuthKeyID[:pos%8]
		case "zero-id":
			data.AuthKeyID = make([]byte, 8)
		case "swap-id":
			o := keyFrom(seed + 1)
			data.AuthKeyID = o.ID[:]
		case "extend-key":
			data.AuthKey = append(append([]byte(nil), data.AuthKey...), 1, 2, 3)
		}
		// reference: the id of the 256-byte key as it will be restored (copied into a
		// fixed array, zero padded / cut) is SHA1(key)[12:20]
		var restored [256]byte
		copy(restored[:], data.AuthKey)
		var restoredID [8]byte
		copy(restoredID[:], data.AuthKeyID)
		sum := sha1.Sum(restored[:])
		consistent := string(sum[12:20]) == string(restoredID[:])
		store := &recStorage{}
		if err := (&session.Loader{Storage: store}).Save(context.Background(), &data); err != nil {
			t.Fatal(err)
		}
		dials := 0
		var runErr error
		rapid.SyncTest(t, func(t *rapid.T) {
			resolver := dcs.Plain(dcs.PlainOptions{Dial: func(ctx context.Context, network, addr string) (net.Conn, error) {
				dials++
				return nil, fmt.Errorf("harness: no network")
			}})
			c := telegram.NewClient(1, "hash", telegram.Options{SessionStorage: store, Resolver: resolver, NoUpdates: true, DialTimeout: time.Second})
			ctx, cancel := context.WithTimeout(context.Background(), 30*time.Second)
			defer cancel()
			runErr = c.Run(ctx, func(ctx context.Context) error { return nil })
			synctest.Wait()
		})
		if !consistent {
			if runErr == nil || !strings.Contains(runErr.Error(), "corrupted key") {
				t.Fatalf("C30 violated: stored key id does not match the key (%s) but Run returned %v", mut, runErr)
			}
			if dials != 0 {
				t.Fatalf("C30 violated: a corrupted session (%s) led to %d dial(s) before being refused", mut, dials)
			}
		} else {
			if runErr != nil && strings.Contains(runErr.Error(), "corrupted key") {
				t.Fatalf("an intact session was refused as corrupted (%s)", mut)
			}
			if dials == 0 {
				t.Fatalf("an intact session did not lead to any dial (err=%v)", runErr)
			}
		}
		st.Case(fmt.Sprintf("%d/%s/%d", seed, mut, pos), mut != "intact", fmt.Sprintf("%s pos=%d consistent=%v dials=%d err=%v", mut, pos, consistent, dials, runErr), mut, fmt.Sprintf("consistent=%v", consistent))
	})
}

// gatedStorage parks its caller at the start of every LoadSession and
// StoreSession until the test releases it: the harness owns the storage, so it
// owns the points at which a save can be overtaken by other client activity.
type gatedStorage struct {
	recStorage
	cur    *flight // the only goroutine that is running (all others are parked)
	events chan string
}

type flight struct {
	n      notif
	at     string // "load", "store", "done"
	resume chan struct{}
	err    error
}

func (s *gatedStorage) gate(op string) {
	f := s.cur
	if f == nil {
		return
	}
	f.at = op
	s.events <- op
	<-f.resume
}

func (s *gatedStorage) LoadSession(ctx context.Context) ([]byte, error) {
	s.gate("load")
	return s.recStorage.LoadSession(ctx)
}

func (s *gatedStorage) StoreSession(ctx context.Context, d []byte) error {
	s.gate("store")
	return s.recStorage.StoreSession(ctx, d)
}

// C30 (c): the same histories with the notifications in flight: a notification
// is a goroutine that the schedule stops before each storage access, so primary
// changes and other notifications land between the in-memory update and the
// load, and between the load and the save. At every step the stored record is
// (DC, key, salt) of one notification delivered by a connection to that DC.
func TestC30Concurrent(t *testing.T) {
	st := pbt.NewStats("TestC30Concurrent")
	defer st.Flush()
	rapid.Check(t, func(t *rapid.T) {
		store := &gatedStorage{events: make(chan string)}
		startDC := rapid.SampledFrom([]int{1, 2, 4}).Draw(t, "startDC")
		pfs := rapid.Bool().Draw(t, "pfs")
		c := telegram.NewClient(1, "hash", telegram.Options{DC: startDC, SessionStorage: store, EnablePFS: pfs, NoUpdates: true})
		var delivered []notif
		var inflight []*flight
		var hist []string
		classes := map[string]bool{}
		seed := uint64(0)
		// run lets f proceed to its next storage access or to its end
		run := func(f *flight) {
			store.cur = f
			f.resume <- struct{}{}
			<-store.events
			store.cur = nil
			if f.at == "done" {
				for i, g := range inflight {
					if g == f {
						inflight = append(inflight[:i], inflight[i+1:]...)
						break
					}
				}
				if f.err != nil {
					t.Fatalf("onSession: %v", f.err)
				}
			}
		}
		check := func() {
			raw, err := store.recStorage.LoadSession(context.Background())
			if err != nil {
				return
			}
			var v struct {
				Data session.Data
			}
			if err := json.Unmarshal(raw, &v); err != nil {
				t.Fatalf("stored session does not parse: %v", err)
			}
			for _, n := range delivered {
				want := n.key
				if !n.perm.Zero() {
					want = n.perm
				}
				if v.Data.DC == n.dc && string(v.Data.AuthKey) == string(want.Value[:]) && string(v.Data.AuthKeyID) == string(want.ID[:]) && v.Data.Salt == n.salt {
					return
				}
			}
			t.Fatalf("C30 violated: stored session (dc=%d key=%x.. salt=%d) is not the (DC, key, salt) of any notification delivered by a connection to that DC\nhistory: %s", v.Data.DC, v.Data.AuthKey[:min(4, len(v.Data.AuthKey))], v.Data.Salt, strings.Join(hist, " "))
		}
		t.Cleanup(func() {
			for len(inflight) > 0 {
				run(inflight[0])
			}
		})
		t.Repeat(map[string]func(*rapid.T){
			"deliver": func(t *rapid.T) {
				if len(inflight) >= 3 {
					t.Skip("three notifications in flight")
				}
				seed++
				dc := c.VerifPrimaryDC()
				if rapid.IntRange(0, 3).Draw(t, "fromOther") == 0 {
					dc = rapid.SampledFrom([]int{1, 2, 3, 4, 5}).Draw(t, "dc")
				}
				n := notif{dc: dc, key: keyFrom(seed), salt: int64(seed * 7)}
				if pfs {
					n.perm = keyFrom(seed + 1000)
				}
				delivered = append(delivered, n)
				f := &flight{n: n, resume: make(chan struct{})}
				inflight = append(inflight, f)
				go func() {
					<-f.resume
					f.err = c.VerifOnSession(tg.Config{ThisDC: n.dc}, mtproto.Session{ID: int64(n.salt), Key: n.key, PermKey: n.perm, Salt: n.salt})
					f.at = "done"
					store.events <- "done"
				}()
				hist = append(hist, fmt.Sprintf("deliver#%d(dc%d,primary=%d)", seed, dc, c.VerifPrimaryDC()))
				run(f)
				if len(inflight) > 1 {
					classes["overlapping-notifications"] = true
				}
			},
			"step": func(t *rapid.T) {
				if len(inflight) == 0 {
					t.Skip("nothing in flight")
				}
				f := inflight[rapid.IntRange(0, len(inflight)-1).Draw(t, "which")]
				hist = append(hist, fmt.Sprintf("step#%d(from %s)", f.n.salt/7, f.at))
				run(f)
			},
			"migrate": func(t *rapid.T) {
				dc := rapid.SampledFrom([]int{1, 2, 3, 4, 5}).Draw(t, "dc")
				if dc == c.VerifPrimaryDC() {
					t.Skip("already there")
				}
				old := c.VerifPrimaryDC()
				c.VerifMigrate(dc)
				hist = append(hist, fmt.Sprintf("migrate(%d->%d)", old, dc))
				for _, f := range inflight {
					if f.n.dc == old {
						classes["migrate-during-save"] = true
					}
				}
			},
			"": func(t *rapid.T) { check() },
		})
		for len(inflight) > 0 {
			run(inflight[0])
		}
		check()
		key := strings.Join(hist, " ")
		var cl []string
		for _, k := range []string{"overlapping-notifications", "migrate-during-save"} {
			if classes[k] {
				cl = append(cl, k)
			}
		}
		cl = append(cl, fmt.Sprintf("pfs=%v", pfs))
		st.Case(key, classes["migrate-during-save"] || classes["overlapping-notifications"], short(key, 300), cl...)
	})
}

// delayClock is the client's clock (telegram.Options.Clock): Now takes a drawn
// real time. The client reads the clock at many places between two steps of
// its own bookkeeping; a reading that takes a while is ordinary (a loaded
// machine) and widens whatever window lies there. Schedule perturbation, not
// an oracle input: every outcome is judged by the stored sessions alone.
type delayClock struct {
	clock.Clock
	d time.Duration
}

func (c delayClock) Now() time.Time {
	if c.d > 0 {
		time.Sleep(c.d)
	}
	return c.Clock.Now()
}

// C30 (d): a whole client against the harness server, in real time with real
// parallelism: connect with a restored session, the server announces the
// session before the config answer and (drawn) once more right after it. Every
// session the client stores must pair DC 2 with the key of that connection.
func TestC30Client(t *testing.T) {
	st := pbt.NewStats("TestC30Client")
	defer st.Flush()
	cfgBuf := bin.Buffer{}
	cfg := tg.Config{ThisDC: 2, DCOptions: []tg.DCOption{{ID: 2, IPAddress: "10.0.0.2", Port: 443}}, Date: 1, Expires: 1 << 30}
	if err := cfg.Encode(&cfgBuf); err != nil {
		t.Fatal(err)
	}
	rapid.Check(t, func(t *rapid.T) {
		rnd, seed := pbt.DrawStream(t, "rnd")
		again := rapid.IntRange(0, 3).Draw(t, "sessionAfterConfig") > 0
		delay := time.Duration(rapid.SampledFrom([]int{0, 20, 200, 1000}).Draw(t, "clockDelayMicros")) * time.Microsecond
		var key [256]byte
		copy(key[:], rnd.Bytes(256))
		srv := &server{key: key, t0: time.Now(), plan: map[uint64]string{}, handled: map[uint64]bool{}, seenTag: map[uint64][]seen{},
			acked: map[uint64]int{}, ackedOn: map[uint64]map[int]bool{}, answered: map[uint64]int{}, cfg: cfgBuf.Buf, sessionAfterConfig: again}
		ak := keyFrom(0)
		ak.Value = key
		ak.ID = ak.Value.ID()
		store := &recStorage{}
		if err := (&session.Loader{Storage: store}).Save(context.Background(), &session.Data{DC: 2, Addr: "10.0.0.2:443", AuthKey: ak.Value[:], AuthKeyID: ak.ID[:], Salt: 0x1234}); err != nil {
			t.Fatal(err)
		}
		initial := store.saves
		client := telegram.NewClient(1, "hash", telegram.Options{
			DC:             2,
			DCList:         dcs.List{Options: cfg.DCOptions},
			Resolver:       dcs.Plain(dcs.PlainOptions{Dial: srv.dial}),
			SessionStorage: store,
			NoUpdates:      true,
			Random:         rnd,
			Clock:          delayClock{Clock: clock.System, d: delay},
		})
		ctx, cancel := context.WithTimeout(context.Background(), 60*time.Second)
		defer cancel()
		want := 1
		if again {
			want = 2
		}
		err := client.Run(ctx, func(ctx context.Context) error {
			// the client is ready; give the announced sessions time to be stored
			deadline := time.Now().Add(30 * time.Second)
			for time.Now().Before(deadline) {
				store.mu.Lock()
				n := store.saves - initial
				store.mu.Unlock()
				if n >= want {
					break
				}
				time.Sleep(200 * time.Microsecond)
			}
			time.Sleep(2 * time.Millisecond)
			return nil
		})
		// (how Run ends is not C30's business - under heavy machine load it may run
		// into the 60 s bound; the stored sessions are judged whatever it returned)
		runErr := "nil"
		if err != nil {
			runErr = "error"
		}
		srv.mu.Lock()
		for _, p := range srv.peers {
			_ = p.Conn.Close()
		}
		srv.mu.Unlock()
		store.mu.Lock()
		defer store.mu.Unlock()
		for i, raw := range store.history[initial:] {
			var v struct {
				Data session.Data
			}
			if err := json.Unmarshal(raw, &v); err != nil {
				t.Fatalf("stored session %d does not parse: %v", i, err)
			}
			if v.Data.DC != 2 || string(v.Data.AuthKey) != string(ak.Value[:]) || string(v.Data.AuthKeyID) != string(ak.ID[:]) {
				t.Fatalf("C30 violated: stored session #%d pairs DC %d with key id %x; the only connection is to DC 2 with key id %x (session announced again after the config answer: %v, clock reading takes %v)",
					i+1, v.Data.DC, v.Data.AuthKeyID, ak.ID, again, delay)
			}
			if v.Data.Salt != 0x4444 && v.Data.Salt != 0x5555 {
				t.Fatalf("C30 violated: stored session #%d has salt %#x, the server announced 0x4444 and 0x5555", i+1, v.Data.Salt)
			}
		}
		n := len(store.history) - initial
		st.Case(fmt.Sprintf("%d/%v/%v", seed, again, delay), again && delay > 0, fmt.Sprintf("announcedAgain=%v clockDelay=%v stored=%d", again, delay, n),
			fmt.Sprintf("announcedAgain=%v", again), fmt.Sprintf("clockDelay=%v", delay), fmt.Sprintf("stored=%d", n), "run="+runErr)
	})
}

// slowStorage records like recStorage and takes a while to store (a disk, a
// database): the caller - the handler of a session notification - is parked
// inside the client for that long.
type slowStorage struct {
	recStorage
	d time.Duration
}

func (s *slowStorage) StoreSession(ctx context.Context, d []byte) error {
	if s.d > 0 {
		time.Sleep(s.d)
	}
	return s.recStorage.StoreSession(ctx, d)
}

// C30 (e): two clients in one process, each with a restored session for its
// own DC (2 and 4), its own key, its own storage and its own server. Both
// servers announce sessions (salts from disjoint sets) 1..3 times before the
// config answer and 0..6 times after it, a drawn interval apart, while the
// storages take a drawn time per save - so notifications of one client are
// being handled while the other's arrive. Every session a client stores must
// pair its own DC with its own key and one of the salts its server announced.
func TestC30TwoClients(t *testing.T) {
	st := pbt.NewStats("TestC30TwoClients")
	defer st.Flush()
	type side struct {
		dc       int
		saltBase int64
		cfg      []byte
		opts     []tg.DCOption
	}
	sides := []*side{{dc: 2, saltBase: 0x2000}, {dc: 4, saltBase: 0x4000}}
	for _, sd := range sides {
		c := tg.Config{ThisDC: sd.dc, DCOptions: []tg.DCOption{{ID: sd.dc, IPAddress: fmt.Sprintf("10.0.0.%d", sd.dc), Port: 443}}, Date: 1, Expires: 1 << 30}
		var b bin.Buffer
		if err := c.Encode(&b); err != nil {
			t.Fatal(err)
		}
		sd.cfg, sd.opts = b.Buf, c.DCOptions
	}
	rapid.Check(t, func(t *rapid.T) {
		rnd, seed := pbt.DrawStream(t, "rnd")
		type plan struct {
			before, after int
			gap, store    time.Duration
		}
		plans := make([]plan, 2)
		for i := range plans {
			plans[i] = plan{
				before: rapid.IntRange(0, 2).Draw(t, "announcedBeforeConfig"),
				after:  rapid.IntRange(0, 6).Draw(t, "announcedAfterConfig"),
				gap:    time.Duration(rapid.SampledFrom([]int{0, 50, 200, 1000}).Draw(t, "gapMicros")) * time.Microsecond,
				store:  time.Duration(rapid.SampledFrom([]int{0, 100, 1000, 3000}).Draw(t, "storeMicros")) * time.Microsecond,
			}
		}
		type running struct {
			ak      crypto.AuthKey
			store   *slowStorage
			initial int
			srv     *server
			err     error
		}
		rs := make([]*running, 2)
		var wg sync.WaitGroup
		for i, sd := range sides {
			var key [256]byte
			copy(key[:], rnd.Bytes(256))
			r := &running{store: &slowStorage{d: plans[i].store}}
			r.srv = &server{key: key, t0: time.Now(), plan: map[uint64]string{}, handled: map[uint64]bool{}, seenTag: map[uint64][]seen{},
				acked: map[uint64]int{}, ackedOn: map[uint64]map[int]bool{}, answered: map[uint64]int{}, cfg: sd.cfg,
				saltBase: sd.saltBase, extraBefore: plans[i].before, extraAfter: plans[i].after, afterGap: plans[i].gap}
			r.ak = keyFrom(0)
			r.ak.Value = key
			r.ak.ID = r.ak.Value.ID()
			if err := (&session.Loader{Storage: r.store}).Save(context.Background(), &session.Data{DC: sd.dc, Addr: fmt.Sprintf("10.0.0.%d:443", sd.dc), AuthKey: r.ak.Value[:], AuthKeyID: r.ak.ID[:], Salt: 0x1234}); err != nil {
				t.Fatal(err)
			}
			r.initial = r.store.saves
			rs[i] = r
		}
		for i, sd := range sides {
			i, sd, r := i, sd, rs[i]
			crnd := pbt.NewStream(seed*2 + uint64(i))
			client := telegram.NewClient(1, "hash", telegram.Options{
				DC:             sd.dc,
				DCList:         dcs.List{Options: sd.opts},
				Resolver:       dcs.Plain(dcs.PlainOptions{Dial: r.srv.dial}),
				SessionStorage: r.store,
				NoUpdates:      true,
				Random:         crnd,
			})
			want := 1 + plans[i].before + plans[i].after
			wg.Add(1)
			go func() {
				defer wg.Done()
				ctx, cancel := context.WithTimeout(context.Background(), 60*time.Second)
				defer cancel()
				r.err = client.Run(ctx, func(ctx context.Context) error {
					deadline := time.Now().Add(20 * time.Second)
					for time.Now().Before(deadline) {
						r.store.mu.Lock()
						n := r.store.saves - r.initial
						r.store.mu.Unlock()
						if n >= want {
							break
						}
						time.Sleep(200 * time.Microsecond)
					}
					time.Sleep(2 * time.Millisecond)
					return nil
				})
			}()
		}
		wg.Wait()
		stored := 0
		for i, sd := range sides {
			r := rs[i]
			r.srv.mu.Lock()
			for _, p := range r.srv.peers {
				_ = p.Conn.Close()
			}
			r.srv.mu.Unlock()
			r.store.mu.Lock()
			for k, raw := range r.store.history[r.initial:] {
				var v struct {
					Data session.Data
				}
				if err := json.Unmarshal(raw, &v); err != nil {
					r.store.mu.Unlock()
					t.Fatalf("client for DC %d: stored session %d does not parse: %v", sd.dc, k, err)
				}
				okSalt := v.Data.Salt >= sd.saltBase && v.Data.Salt < sd.saltBase+0x200
				if v.Data.DC != sd.dc || string(v.Data.AuthKey) != string(r.ak.Value[:]) || string(v.Data.AuthKeyID) != string(r.ak.ID[:]) || !okSalt {
					other := rs[1-i]
					r.store.mu.Unlock()
					t.Fatalf("C30 violated: the client connected to DC %d (key id %x, salts %#x..) stored session #%d pairing DC %d with key id %x and salt %#x; the other client in the process talks to DC %d with key id %x and salts %#x.. (plans %+v)",
						sd.dc, r.ak.ID, sd.saltBase, k+1, v.Data.DC, v.Data.AuthKeyID, v.Data.Salt, sides[1-i].dc, other.ak.ID, sides[1-i].saltBase, plans)
				}
				stored++
			}
			r.store.mu.Unlock()
		}
		overlap := (plans[0].store > 0 || plans[1].store > 0) && plans[0].before+plans[0].after > 0 && plans[1].before+plans[1].after > 0
		st.Case(fmt.Sprintf("%d/%+v", seed, plans), overlap, fmt.Sprintf("plans=%+v stored=%d", plans, stored),
			fmt.Sprintf("before=%d/%d", plans[0].before, plans[1].before), fmt.Sprintf("slowStore=%v", plans[0].store > 0 || plans[1].store > 0))
	})
}
