package c_transport

import (
	"bytes"
	"context"
	"encoding/binary"
	"errors"
	"fmt"
	"net"
	"sort"
	"strings"
	"sync"
	"testing"

	"github.com/gotd/td/bin"
	"github.com/gotd/td/mtproxy"
	"github.com/gotd/td/mtproxy/obfuscator"
	"github.com/gotd/td/proto/codec"
	"github.com/gotd/td/transport"
	"pgregory.net/rapid"

	"verifharness/pbt"
	"verifharness/pbt/ref"
)

// C16: transport codecs deliver exactly the frames that were sent.
//
// Domain (property quantifier): payload lengths 8..frame limit, multiples of
// four (what mtproto.Conn hands to transport.Conn: an encrypted or
// unencrypted MTProto message is always 4-aligned), plus 4-byte frames, which
// are what a server sends as a transport error. The sender is gotd's own
// codec; the wire is additionally parsed by the reference reader.

// Findings (see report). The payload range [limit-overhead+1, limit] cannot
// travel through padded intermediate / full because the writer checks the
// payload and the reader the framed length against the same constant.
const sigC16LimitOverhead = "C16/limit-overhead"

var boundaryLens = []int{8, 12, 500, 504, 508, 512, 1024}

// genPayloadLen draws one payload length; big says whether a 16 MiB frame may
// still be drawn for this stream (at most one per stream).
func genPayloadLen(t *rapid.T, allowErr bool, big *bool) (n int, class string) {
	// per-mille classes. Frames of 1 MiB (~1.2 %) and 16 MiB (~0.05 %) are rare
	// on purpose (10..100 ms each); their slots sit in the middle of the range
	// because rapid over-samples the ends of an IntRange.
	c := rapid.IntRange(0, 999).Draw(t, "lenClass")
	switch {
	case c < 360:
		return rapid.SampledFrom(boundaryLens).Draw(t, "len"), "len:boundary-set"
	case c < 500:
		return 4 * rapid.IntRange(120, 134).Draw(t, "words"), "len:near-127w"
	case c < 512:
		return rapid.SampledFrom([]int{1 << 20, 1<<20 + 4}).Draw(t, "len"), "len:1M"
	case c < 513:
		if h := rapid.IntRange(0, 3).Draw(t, "huge"); *big && (h == 1 || h == 2) {
			*big = false
			return rapid.SampledFrom([]int{1 << 24, 1<<24 - 4, 1<<24 - 12, 1<<24 - 16}).Draw(t, "len"), "len:16M"
		}
		return 1 << 20, "len:1M"
	case c < 700:
		return 4 * rapid.IntRange(2, 600).Draw(t, "words"), "len:small"
	case c < 800:
		if allowErr {
			return 4, "len:4(error)"
		}
		return 8, "len:boundary-set"
	case c < 850:
		return rapid.SampledFrom([]int{65532, 65536, 65540}).Draw(t, "len"), "len:64K"
	case c < 910:
		return 4 * rapid.IntRange(2, 1<<14).Draw(t, "words"), "len:<=64K"
	default:
		return 4 * rapid.IntRange(2, 1<<12).Draw(t, "words"), "len:<=16K"
	}
}

// maxPayloadThroughReader: does the framed length of payload (as gotd's writer
// frames it) stay within the limit the readers apply to the length field?
func maxPayloadThroughReader(pd protoDef, payload []byte) bool {
	switch pd.ref {
	case ref.FramePadded:
		// gotd pads with (last payload byte % 4) bytes
		return len(payload)+int(payload[len(payload)-1])%4 <= frameLimit
	case ref.FrameFull:
		return len(payload)+12 <= frameLimit
	}
	return true
}

func errCodeOf(payload []byte) int32 {
	return -int32(binary.LittleEndian.Uint32(payload))
}

// checkWire parses wire with the reference reader and compares with the
// payloads in order.
func checkWire(pd protoDef, wire []byte, withHeader bool, want [][]byte) ([]ref.Frame, error) {
	frames, err := ref.ReadFrames(pd.ref, wire, withHeader)
	if err != nil {
		return nil, fmt.Errorf("reference reader: %v after %d frames (wire %d bytes)", err, len(frames), len(wire))
	}
	if len(frames) != len(want) {
		return nil, fmt.Errorf("reference reader found %d frames, %d were sent", len(frames), len(want))
	}
	for i, f := range frames {
		body := f.Body
		if pd.ref == ref.FramePadded {
			if len(body) < len(want[i]) || len(body)-len(want[i]) > 15 {
				return nil, fmt.Errorf("frame %d: padded body %d bytes for payload %d (padding must be 0..15)", i, len(body), len(want[i]))
			}
			body = body[:len(want[i])]
		}
		if !bytes.Equal(body, want[i]) {
			return nil, fmt.Errorf("frame %d: wire body (%d bytes) differs from payload (%d bytes) at %d", i, len(body), len(want[i]), firstDiff(body, want[i]))
		}
	}
	return frames, nil
}

func lenKey(ps [][]byte) string {
	var sb strings.Builder
	for _, p := range ps {
		fmt.Fprintf(&sb, "%d,", len(p))
	}
	return sb.String()
}

// TestC16: codec level. Sender codec -> byte stream -> (reference reader) and
// (receiver codec through a chunking reader).
func TestC16(t *testing.T) {
	st := pbt.NewStats("TestC16")
	defer st.Flush()
	knownLimit := pbt.Known("C16", sigC16LimitOverhead)
	var ar arena
	var wire bytes.Buffer
	rapid.Check(t, func(t *rapid.T) {
		ar.reset()
		wire.Reset()
		pd := rapid.SampledFrom(protoDefs).Draw(t, "proto")
		header := rapid.Bool().Draw(t, "header")
		n := rapid.IntRange(1, 20).Draw(t, "frames")
		big := true
		payloads := make([][]byte, n)
		classes := map[string]bool{}
		below, atOrAbove := 0, 0
		for i := range payloads {
			ln, cl := genPayloadLen(t, true, &big)
			p := ar.take(ln)
			drawInto(t, "payload", p)
			if ln == 4 {
				switch rapid.IntRange(0, 3).Draw(t, "code") {
				case 0:
					binary.LittleEndian.PutUint32(p, uint32(0xfffffe6c)) // -404
				case 1:
					binary.LittleEndian.PutUint32(p, uint32(0xfffffe53)) // -429
				case 2:
					binary.LittleEndian.PutUint32(p, uint32(0xfffffe44)) // -444
				}
			}
			if knownLimit && !maxPayloadThroughReader(pd, p) {
				st.Excluded(sigC16LimitOverhead)
				ln, cl = 1<<20, "len:1M"
				p = p[:ln]
			}
			payloads[i] = p
			classes[cl] = true
			if ln < 508 {
				below++
			} else {
				atOrAbove++
			}
		}

		// --- sender
		snd := pd.newCodec()
		rcv := pd.newCodec()
		if !header {
			snd, rcv = codec.NoHeader{Codec: snd}, codec.NoHeader{Codec: rcv}
		}
		total := 0
		for _, p := range payloads {
			total += len(p) + 16
		}
		wire.Grow(total + 8)
		if err := snd.WriteHeader(&wire); err != nil {
			t.Fatalf("%s WriteHeader: %v", pd.name, err)
		}
		sent := payloads[:0:0]
		for i, p := range payloads {
			// spare capacity as mtproto's pooled buffers have: the codecs append
			// their prefix/padding behind the payload before writing
			b := usedBufferWith(p)
			before := wire.Len()
			if err := snd.Write(&wire, b); err != nil {
				// A writer may refuse a payload whose framed length would exceed
				// the limit (then nothing was sent and nothing is owed); any
				// other refusal is a failure.
				if !maxPayloadThroughReader(pd, p) && wire.Len() == before {
					classes["writer-refused-over-limit"] = true
					continue
				}
				t.Fatalf("%s Write frame %d (%d bytes): %v", pd.name, i, len(p), err)
			}
			sent = append(sent, p)
		}
		payloads = sent
		n = len(payloads)

		// --- the wire, by the reference reader
		frames, err := checkWire(pd, wire.Bytes(), header, payloads)
		if err != nil {
			t.Fatalf("%s header=%v lens=%s: %v", pd.name, header, lenKey(payloads), err)
		}

		// --- receiver through drawn read cuts
		pattern, pclass := genPattern(t, "chunks", wire.Len())
		cr := &chunkReader{data: wire.Bytes(), pattern: pattern, marked: markPrefixes(frames)}
		reuse := rapid.Bool().Draw(t, "reuseBuffer")
		if err := rcv.ReadHeader(cr); err != nil {
			t.Fatalf("%s ReadHeader: %v", pd.name, err)
		}
		var rb bin.Buffer
		for i, p := range payloads {
			if !reuse {
				rb = bin.Buffer{}
			}
			err := rcv.Read(cr, &rb)
			if len(p) == 4 {
				var pe *codec.ProtocolErr
				if !errors.As(err, &pe) {
					t.Fatalf("%s frame %d: 4-byte frame %x gave err=%v, want *codec.ProtocolErr", pd.name, i, p, err)
				}
				if pe.Code != errCodeOf(p) {
					t.Fatalf("%s frame %d: 4-byte frame %x gave code %d, want %d", pd.name, i, p, pe.Code, errCodeOf(p))
				}
				continue
			}
			if err != nil {
				t.Fatalf("%s header=%v frame %d of lens=%s pattern=%v: Read: %v", pd.name, header, i, lenKey(payloads), pattern, err)
			}
			if !bytes.Equal(rb.Buf, p) {
				t.Fatalf("%s header=%v frame %d of lens=%s pattern=%v: got %d bytes, sent %d, first difference at %d",
					pd.name, header, i, lenKey(payloads), pattern, rb.Len(), len(p), firstDiff(rb.Buf, p))
			}
		}
		if cr.off != len(cr.data) {
			t.Fatalf("%s: receiver consumed %d of %d wire bytes for %d frames", pd.name, cr.off, len(cr.data), n)
		}
		rb = bin.Buffer{}
		if err := rcv.Read(cr, &rb); err == nil {
			t.Fatalf("%s: Read at end of stream returned a %d-byte frame", pd.name, rb.Len())
		}

		nontrivial := (n >= 2 && below > 0 && atOrAbove > 0) || cr.inCuts > 0
		cls := []string{"proto:" + pd.name, fmt.Sprintf("header:%v", header), "chunks:" + pclass}
		for c := range classes {
			cls = append(cls, c)
		}
		sort.Strings(cls)
		if cr.inCuts > 0 {
			cls = append(cls, "cut-inside-prefix")
		}
		if n >= 2 && below > 0 && atOrAbove > 0 {
			cls = append(cls, "both-sides-of-127w")
		}
		key := fmt.Sprintf("%s/h=%v/%s/%v", pd.name, header, lenKey(payloads), pattern)
		st.Case(key, nontrivial, key, cls...)
	})
}

// ---------------------------------------------------------------------------
// connection level

// tagged payloads: first 8 bytes = sender, index; 4-byte frames carry both in
// the value so that the receiver can attribute every frame.
func tagPayload(p []byte, sender, idx int) {
	if len(p) == 4 {
		binary.LittleEndian.PutUint32(p, 0x80000000|uint32(sender)<<16|uint32(idx))
		return
	}
	binary.LittleEndian.PutUint32(p[0:], uint32(sender))
	binary.LittleEndian.PutUint32(p[4:], uint32(idx))
}

func untag(frame []byte, perr *codec.ProtocolErr) (sender, idx int, ok bool) {
	if perr != nil {
		v := uint32(-perr.Code)
		if v&0x80000000 == 0 {
			return 0, 0, false
		}
		return int(v >> 16 & 0x7fff), int(v & 0xffff), true
	}
	if len(frame) < 8 {
		return 0, 0, false
	}
	return int(binary.LittleEndian.Uint32(frame)), int(binary.LittleEndian.Uint32(frame[4:])), true
}

type sendPlan struct {
	bySender [][][]byte
	total    int
	classes  map[string]bool
	below    int
	atOrOver int
}

func genPlan(t *rapid.T, label string, maxSenders int, st *pbt.Stats, pd protoDef, knownLimit bool, ar *arena) sendPlan {
	k := rapid.IntRange(1, maxSenders).Draw(t, label+"Senders")
	pl := sendPlan{classes: map[string]bool{}}
	big := true
	for s := 0; s < k; s++ {
		n := rapid.IntRange(1, max(1, 12/k)).Draw(t, label+"Frames")
		var ps [][]byte
		for i := 0; i < n; i++ {
			ln, cl := genPayloadLen(t, true, &big)
			p := ar.take(ln)
			drawInto(t, "payload", p)
			if !maxPayloadThroughReader(pd, p) {
				// the top overhead bytes of the range are TestC16's business
				// (codec level); here every payload's framed length fits
				if knownLimit {
					st.Excluded(sigC16LimitOverhead)
				}
				ln, cl = 1<<20, "len:1M"
				p = p[:ln]
			}
			tagPayload(p, s, i)
			ps = append(ps, p)
			pl.classes[cl] = true
			pl.total++
			if ln < 508 {
				pl.below++
			} else {
				pl.atOrOver++
			}
		}
		pl.bySender = append(pl.bySender, ps)
	}
	return pl
}

// sendAll runs one goroutine per sender on conn and returns when all frames
// were handed to Send. The first error is returned.
func sendAll(conn transport.Conn, pl sendPlan) error {
	var wg sync.WaitGroup
	errs := make([]error, len(pl.bySender))
	start := make(chan struct{})
	for s := range pl.bySender {
		wg.Add(1)
		go func(s int) {
			defer wg.Done()
			<-start
			for i, p := range pl.bySender[s] {
				b := usedBufferWith(p)
				if err := conn.Send(context.Background(), b); err != nil {
					errs[s] = fmt.Errorf("sender %d frame %d (%d bytes): %w", s, i, len(p), err)
					return
				}
			}
		}(s)
	}
	close(start)
	wg.Wait()
	for _, e := range errs {
		if e != nil {
			return e
		}
	}
	return nil
}

// recvAll receives pl.total frames and checks attribution, content and
// per-sender order. It returns the frames in arrival order.
func recvAll(conn transport.Conn, pl sendPlan) ([][]byte, error) {
	next := make([]int, len(pl.bySender))
	var order [][]byte
	var rb bin.Buffer
	for got := 0; got < pl.total; got++ {
		err := conn.Recv(context.Background(), &rb)
		var pe *codec.ProtocolErr
		if err != nil && !errors.As(err, &pe) {
			return order, fmt.Errorf("Recv %d of %d: %v", got, pl.total, err)
		}
		s, i, ok := untag(rb.Buf, pe)
		if !ok || s >= len(pl.bySender) || i >= len(pl.bySender[s]) {
			return order, fmt.Errorf("Recv %d of %d: frame of %d bytes (err=%v) is not one that was sent (torn or corrupted): head %x", got, pl.total, rb.Len(), err, head(rb.Buf, 16))
		}
		want := pl.bySender[s][i]
		if i != next[s] {
			return order, fmt.Errorf("Recv %d: sender %d frame %d arrived, expected its frame %d next (reordered or duplicated)", got, s, i, next[s])
		}
		next[s]++
		if pe != nil {
			if len(want) != 4 || pe.Code != errCodeOf(want) {
				return order, fmt.Errorf("Recv %d: protocol error %d for sender %d frame %d (sent %d bytes)", got, pe.Code, s, i, len(want))
			}
		} else if !bytes.Equal(rb.Buf, want) {
			return order, fmt.Errorf("Recv %d: sender %d frame %d: got %d bytes, sent %d, first difference at %d", got, s, i, rb.Len(), len(want), firstDiff(rb.Buf, want))
		}
		order = append(order, want)
	}
	return order, nil
}

// TestC16Conn: transport.Conn level. Client handshake (plain with header, or
// obfuscated2 with the tag in the obfuscation header) against
// transport.Listen over an in-memory listener; k concurrent senders on one
// connection in each direction; both wire directions parsed by the reference
// (after reference de-obfuscation). A third mode uses Protocol.Pipe (net.Pipe).
func TestC16Conn(t *testing.T) {
	st := pbt.NewStats("TestC16Conn")
	defer st.Flush()
	knownLimit := pbt.Known("C16", sigC16LimitOverhead)
	var ar arena
	rapid.Check(t, func(t *rapid.T) {
		pd := rapid.SampledFrom(protoDefs).Draw(t, "proto")
		mode := rapid.SampledFrom([]string{"listen-plain", "listen-plain", "listen-obfuscated", "listen-obfuscated", "netpipe"}).Draw(t, "mode")
		if mode == "listen-obfuscated" && pd.ref == ref.FrameFull {
			// the full transport has no obfuscation tag (mtproto-transports: only
			// abridged / intermediate / padded ids exist)
			mode = "listen-plain"
		}
		ar.reset()
		up := genPlan(t, "up", 4, st, pd, knownLimit, &ar)
		down := genPlan(t, "down", 4, st, pd, knownLimit, &ar)

		var clientConn, serverConn transport.Conn
		var c2s, s2c *memHalf
		var clientRaw, serverRaw *memConn
		var patUp, patDown []int
		var pclass string
		switch mode {
		case "netpipe":
			clientConn, serverConn = pd.tp.Pipe()
			pclass = "netpipe"
		default:
			upBytes, downBytes := 0, 0
			for _, ps := range up.bySender {
				for _, p := range ps {
					upBytes += len(p)
				}
			}
			for _, ps := range down.bySender {
				for _, p := range ps {
					downBytes += len(p)
				}
			}
			var pc2 string
			patUp, pclass = genPattern(t, "chunksUp", upBytes)
			patDown, pc2 = genPattern(t, "chunksDown", downBytes)
			pclass += "/" + pc2
			clientRaw, serverRaw, c2s, s2c = memPair(patUp, patDown, true, upBytes+20*up.total+128, downBytes+20*down.total+128)
			var ln net.Listener = newMemListener(serverRaw)
			var err error
			if mode == "listen-obfuscated" {
				ln = transport.ObfuscatedListener(ln)
				rnd, _ := pbt.DrawStream(t, "obfRand")
				dc := rapid.IntRange(1, 5).Draw(t, "dc")
				oc := obfuscator.Obfuscated2(rnd, clientRaw)
				tag := pd.newCodec().(codec.TaggedCodec).ObfuscatedTag()
				if err := oc.Handshake(tag, dc, mtproxy.Secret{}); err != nil {
					t.Fatalf("obfuscated2 handshake: %v", err)
				}
				cdc := pd.newCodec()
				clientConn, err = transport.NewProtocol(func() transport.Codec { return codec.NoHeader{Codec: cdc} }).Handshake(oc)
			} else {
				clientConn, err = pd.tp.Handshake(clientRaw)
			}
			if err != nil {
				t.Fatalf("%s client handshake: %v", pd.name, err)
			}
			// The full transport sends no header, so the listener can only
			// decide once the first frame is there: send before accepting.
			if err := sendAll(clientConn, up); err != nil {
				t.Fatalf("%s %s: %v", pd.name, mode, err)
			}
			// nothing more will be written client->server: a reader that asks
			// for bytes that were never sent gets EOF instead of blocking.
			clientRaw.CloseWrite()
			serverConn, err = transport.Listen(ln).Accept()
			if err != nil {
				t.Fatalf("%s %s: Accept: %v", pd.name, mode, err)
			}
		}
		defer func() {
			_ = clientConn.Close()
			_ = serverConn.Close()
		}()

		fail := func(format string, a ...any) {
			t.Fatalf("%s %s up=%v down=%v patUp=%v patDown=%v: %s", pd.name, mode, planKey(up), planKey(down), patUp, patDown, fmt.Sprintf(format, a...))
		}

		var upOrder, downOrder [][]byte
		var err error
		if mode == "netpipe" {
			// net.Pipe is synchronous: senders and receiver run concurrently.
			errc := make(chan error, 1)
			go func() { errc <- sendAll(clientConn, up) }()
			upOrder, err = recvAll(serverConn, up)
			if err != nil {
				_ = serverConn.Close() // unblock senders
				<-errc
				fail("client->server: %v", err)
			}
			if err := <-errc; err != nil {
				fail("client->server: %v", err)
			}
			go func() { errc <- sendAll(serverConn, down) }()
			downOrder, err = recvAll(clientConn, down)
			if err != nil {
				_ = clientConn.Close()
				<-errc
				fail("server->client: %v", err)
			}
			if err := <-errc; err != nil {
				fail("server->client: %v", err)
			}
			_ = clientConn.Close()
			var rb bin.Buffer
			if err := serverConn.Recv(context.Background(), &rb); err == nil {
				fail("Recv after close returned a %d-byte frame", rb.Len())
			}
		} else {
			upOrder, err = recvAll(serverConn, up)
			if err != nil {
				fail("client->server: %v", err)
			}
			// reply concurrently with the client receiving
			errc := make(chan error, 1)
			go func() {
				e := sendAll(serverConn, down)
				serverRaw.CloseWrite()
				errc <- e
			}()
			downOrder, err = recvAll(clientConn, down)
			if e := <-errc; e != nil {
				fail("server->client send: %v", e)
			}
			if err != nil {
				fail("server->client: %v", err)
			}
			// no phantom frame: after the peers stop writing, Recv must fail
			var rb bin.Buffer
			if err := serverConn.Recv(context.Background(), &rb); err == nil {
				fail("server Recv at end of stream returned a %d-byte frame", rb.Len())
			}
			if c2s.unread() != 0 || s2c.unread() != 0 {
				fail("unread bytes left: c2s=%d s2c=%d", c2s.unread(), s2c.unread())
			}

			// the wire, independently
			upWire, downWire := c2s.wire(), s2c.wire()
			withHeader := true
			if mode == "listen-obfuscated" {
				tag, dc, plain, ok := ref.Obf2Open(upWire, nil)
				if !ok {
					fail("obfuscated wire shorter than the 64-byte header")
				}
				if ref.Obf2Reserved(upWire[:64]) {
					fail("obfuscated2 header starts with a reserved pattern: %x", upWire[:8])
				}
				if tag != ref.FrameObfTag(pd.ref) || dc < 1 || dc > 5 {
					fail("reference de-obfuscation: tag %x dc %d", tag, dc)
				}
				downWire = ref.Obf2OpenReply(upWire[:64], nil, downWire)
				upWire = plain
				withHeader = false
			}
			if _, err := checkWire(pd, upWire, withHeader, upOrder); err != nil {
				fail("client->server wire: %v", err)
			}
			if _, err := checkWire(pd, downWire, false, downOrder); err != nil {
				fail("server->client wire: %v", err)
			}
		}

		conc := len(up.bySender) > 1 || len(down.bySender) > 1
		both := (up.total >= 2 && up.below > 0 && up.atOrOver > 0) || (down.total >= 2 && down.below > 0 && down.atOrOver > 0)
		cls := []string{"proto:" + pd.name, "mode:" + mode, "chunks:" + pclass,
			fmt.Sprintf("senders:%d/%d", len(up.bySender), len(down.bySender))}
		var lc []string
		for c := range up.classes {
			lc = append(lc, c)
		}
		for c := range down.classes {
			if !up.classes[c] {
				lc = append(lc, c)
			}
		}
		sort.Strings(lc)
		cls = append(cls, lc...)
		if conc {
			cls = append(cls, "concurrent-senders")
		}
		if both {
			cls = append(cls, "both-sides-of-127w")
		}
		key := fmt.Sprintf("%s/%s/%s/%s/%v/%v", pd.name, mode, planKey(up), planKey(down), patUp, patDown)
		// non-trivial: the stated rule, or (conn level) more than one sender
		// competing for the connection.
		st.Case(key, both || conc, key, cls...)
	})
}

func planKey(pl sendPlan) string {
	var sb strings.Builder
	for s, ps := range pl.bySender {
		if s > 0 {
			sb.WriteByte('|')
		}
		sb.WriteString(lenKey(ps))
	}
	return sb.String()
}

// ---------------------------------------------------------------------------
// regression witness for C16/limit-overhead

func c16LimitOverheadViolation() string {
	for _, c := range []struct {
		pd   protoDef
		n    int
		last byte
	}{
		{protoDefs[3], frameLimit - 8, 0}, // full: framed length = payload + 12
		{protoDefs[2], frameLimit, 1},     // padded: gotd pads with (last byte % 4) bytes
	} {
		p := make([]byte, c.n)
		p[0], p[len(p)-1] = 0x55, c.last
		var wire bytes.Buffer
		wire.Grow(c.n + 32)
		b := usedBufferWith(p)
		if err := c.pd.newCodec().Write(&wire, b); err != nil {
			continue // refused by the writer: nothing sent, nothing owed
		}
		var rb bin.Buffer
		err := c.pd.newCodec().Read(bytes.NewReader(wire.Bytes()), &rb)
		if err != nil || !bytes.Equal(rb.Buf, p) {
			return fmt.Sprintf("%s: Write accepted a %d-byte payload (limit %d) and produced a %d-byte frame, but Read of that stream gives %d bytes, err=%v",
				c.pd.name, c.n, frameLimit, wire.Len(), rb.Len(), err)
		}
	}
	return ""
}

// TestC16Regression_limit_overhead: payloads within the frame limit whose
// framed length exceeds it are written but cannot be read back.
func TestC16Regression_limit_overhead(t *testing.T) {
	if v := c16LimitOverheadViolation(); v != "" {
		t.Fatalf("C16 [signature %s]: %s", sigC16LimitOverhead, v)
	}
}

// TestC16Known reports the listed finding while it still reproduces.
func TestC16Known(t *testing.T) {
	if !pbt.Known("C16", sigC16LimitOverhead) {
		t.Skip("not listed")
	}
	if v := c16LimitOverheadViolation(); v != "" {
		pbt.ReportKnown("C16", sigC16LimitOverhead, v)
		return
	}
	t.Logf("listed finding %s no longer reproduces", sigC16LimitOverhead)
}

// usedBufferWith returns a buffer holding p whose 16 bytes of spare capacity
// are not zero (a pooled buffer that carried a longer message before).
func usedBufferWith(p []byte) *bin.Buffer {
	buf := make([]byte, len(p)+16)
	copy(buf, p)
	for i := len(p); i < len(buf); i++ {
		buf[i] = 0xA5
	}
	return &bin.Buffer{Buf: buf[:len(p)]}
}
