package c_transport

import (
	"bytes"
	"encoding/binary"
	"errors"
	"fmt"
	"hash/crc32"
	"io"
	"runtime"
	"runtime/metrics"
	"testing"

	"github.com/gotd/td/bin"
	"github.com/gotd/td/proto/codec"
	"pgregory.net/rapid"

	"verifharness/pbt"
	"verifharness/pbt/ref"
)

// C17: decoding arbitrary transport input never crashes the client and never
// allocates more than the frame limit for one frame.
//
// Oracle for one codec.Read call on bytes an adversarial peer chose:
//   (a) no panic (the call runs on the test goroutine under recover);
//   (b) bytes allocated during the call (runtime heap-allocation counter delta) and the
//       capacity of the buffer handed in stay <= frame limit + allocSlack;
//   (c) outcome is (frame | error); where the reference reader (pbt/ref,
//       written from the transport document) finds a whole well-formed frame
//       the codec returns exactly it and consumes exactly its bytes; where the
//       input ends inside the frame the codec returns an error (it cannot
//       invent the missing bytes); where the document gives the bytes no
//       meaning both outcomes are allowed and only counted;
//   (d) a returned frame that the writer accepts re-encodes to a stream that
//       the reference parses to the same frame and the codec reads back.

// allocSlack: header words (full: 12 bytes), allocator size-class rounding
// (large objects round to 8 KiB pages) and the few small error/wrapper
// objects of one call.
const allocSlack = 64 << 10

const (
	sigC17FullShortLen  = "C17/full-length-below-12"
	sigC17AbridgedAlloc = "C17/abridged-length-unchecked"
)

type decodeStats struct {
	frames, protoErrs, errs int
	lenient                 int // codec returned a frame where the document defines none
	reachedLen              bool
	maxAlloc                uint64
	excluded                string
}

type decodeFailure struct {
	sig string
	msg string
	// allocMeasured: the verdict rests on the allocation counter delta
	allocMeasured bool
}

func (f *decodeFailure) Error() string { return f.msg }

type countingReader struct {
	r io.Reader
	n int
}

func (c *countingReader) Read(p []byte) (int, error) {
	n, err := c.r.Read(p)
	c.n += n
	return n, err
}

// allocatedBytes reads the cumulative heap allocation counter. The cheap
// mode (runtime/metrics) does not stop the world but may attribute earlier
// small allocations of the test itself to this interval (per-P caches are
// flushed lazily, e.g. when a GC cycle starts inside a large allocation), so
// it can only over-estimate; a breach seen in cheap mode is re-measured in
// precise mode (runtime.ReadMemStats: stops the world and flushes the caches
// before both readings) before it counts.
func allocatedBytes(precise bool) uint64 {
	if precise {
		var m runtime.MemStats
		runtime.ReadMemStats(&m)
		return m.TotalAlloc
	}
	s := []metrics.Sample{{Name: "/gc/heap/allocs:bytes"}}
	metrics.Read(s)
	return s[0].Value.Uint64()
}

// guardedRead performs one codec.Read with panic capture and allocation
// measurement.
func guardedRead(cdc codec.Codec, r io.Reader, b *bin.Buffer, precise bool) (err error, panicked any, alloc uint64) {
	a0 := allocatedBytes(precise)
	func() {
		defer func() {
			if p := recover(); p != nil {
				panicked = p
			}
		}()
		err = cdc.Read(r, b)
	}()
	return err, panicked, allocatedBytes(precise) - a0
}

// nextIsKnownShape reports whether the frame starting at in[off:] has the
// shape of a listed finding (so the stream is cut there when it is listed).
func nextIsKnownShape(p ref.FrameProto, in []byte, off int, seq uint32) string {
	rest := in[off:]
	switch p {
	case ref.FrameFull:
		if len(rest) >= 4 {
			n := binary.LittleEndian.Uint32(rest)
			if n >= 1 && n <= 3 {
				return sigC17FullShortLen
			}
			// 8..11 reaches the negative Skip only when the seqno matches
			if n >= 8 && n <= 11 && len(rest) >= int(n) && binary.LittleEndian.Uint32(rest[4:]) == seq {
				return sigC17FullShortLen
			}
		}
	case ref.FrameAbridged:
		if len(rest) >= 4 && rest[0] >= 0x7f {
			w := int(rest[1]) | int(rest[2])<<8 | int(rest[3])<<16
			if w<<2 > frameLimit {
				return sigC17AbridgedAlloc
			}
		}
	}
	return ""
}

// checkDecode runs the oracle over a whole input for one protocol. pattern is
// the read chunking, preCap the capacity of the buffer handed to the codec.
func checkDecode(pd protoDef, in []byte, pattern []int, preCap int, knownFull, knownAbr bool) (ds decodeStats, fail *decodeFailure) {
	ds, fail = checkDecodeMode(pd, in, pattern, preCap, knownFull, knownAbr, false)
	if fail != nil && fail.allocMeasured {
		return checkDecodeMode(pd, in, pattern, preCap, knownFull, knownAbr, true)
	}
	return ds, fail
}

func checkDecodeMode(pd protoDef, in []byte, pattern []int, preCap int, knownFull, knownAbr, precise bool) (ds decodeStats, fail *decodeFailure) {
	var b bin.Buffer
	if preCap > 0 {
		b.Buf = make([]byte, 0, preCap)
	}
	return checkDecodeBuf(pd, in, pattern, &b, frameLimit+allocSlack, knownFull, knownAbr, precise)
}

// checkDecodeBuf: the oracle over a whole input, reading every frame into b
// as it is handed in (whatever it holds) and without resetting it in between.
// allocLimit bounds the bytes allocated by one Read.
func checkDecodeBuf(pd protoDef, in []byte, pattern []int, b *bin.Buffer, allocLimit int, knownFull, knownAbr, precise bool) (ds decodeStats, fail *decodeFailure) {
	cdc := pd.newCodec()
	cr := &chunkReader{data: in, pattern: pattern}
	rd := &countingReader{r: cr}
	limitCap := max(cap(b.Buf), allocLimit)
	seq := uint32(0)
	for calls := 0; calls < 64; calls++ {
		off := rd.n
		if off >= len(in) && calls > 0 {
			break
		}
		shape := nextIsKnownShape(pd.ref, in, off, seq)
		if (shape == sigC17FullShortLen && knownFull) || (shape == sigC17AbridgedAlloc && knownAbr) {
			ds.excluded = shape
			return ds, nil
		}
		rf, rerr := ref.ReadFrame(pd.ref, in, off, seq)
		err, panicked, alloc := guardedRead(cdc, rd, b, precise)
		consumed := rd.n - off
		ctx := func() string {
			return fmt.Sprintf("%s read #%d at offset %d of %d-byte input (head %x)", pd.name, calls, off, len(in), head(in[off:], 16))
		}
		if panicked != nil {
			sig := "C17/panic"
			if shape == sigC17FullShortLen {
				sig = shape
			}
			return ds, &decodeFailure{sig, fmt.Sprintf("%s: PANIC: %v", ctx(), panicked), false}
		}
		if alloc > ds.maxAlloc {
			ds.maxAlloc = alloc
		}
		if alloc > uint64(allocLimit) {
			sig := "C17/alloc"
			if shape == sigC17AbridgedAlloc {
				sig = shape
			}
			return ds, &decodeFailure{sig, fmt.Sprintf("%s: allocated %d bytes for one frame (limit %d, bound with slack %d), err=%v", ctx(), alloc, frameLimit, allocLimit, err), true}
		}
		if cap(b.Buf) > limitCap {
			sig := "C17/alloc"
			if shape == sigC17AbridgedAlloc {
				sig = shape
			}
			return ds, &decodeFailure{sig, fmt.Sprintf("%s: buffer capacity grew to %d (limit %d, bound with slack %d), err=%v", ctx(), cap(b.Buf), frameLimit, limitCap, err), false}
		}
		if calls == 0 {
			ds.reachedLen = prefixComplete(pd, in)
		}
		var pe *codec.ProtocolErr
		isPE := errors.As(err, &pe)

		switch {
		case rerr == nil:
			want := rf.Body
			if pd.ref == ref.FramePadded {
				want = want[:len(want)-len(want)%4]
			}
			if len(want) == 4 {
				code, _ := ref.TransportErrorCode(want)
				if !isPE || pe.Code != code {
					return ds, &decodeFailure{"C17/frame", fmt.Sprintf("%s: well-formed 4-byte frame %x: err=%v, want protocol error %d", ctx(), want, err, code), false}
				}
			} else {
				if err != nil {
					return ds, &decodeFailure{"C17/frame", fmt.Sprintf("%s: well-formed %d-byte frame rejected: %v", ctx(), len(want), err), false}
				}
				if !bytes.Equal(b.Buf, want) {
					return ds, &decodeFailure{"C17/frame", fmt.Sprintf("%s: frame differs from the bytes on the wire: got %d bytes, wire has %d, first difference at %d", ctx(), b.Len(), len(want), firstDiff(b.Buf, want)), false}
				}
			}
			if consumed != rf.End-off {
				return ds, &decodeFailure{"C17/frame", fmt.Sprintf("%s: consumed %d bytes, the frame has %d", ctx(), consumed, rf.End-off), false}
			}
		case errors.Is(rerr, ref.ErrFrameTruncated):
			if err == nil || isPE {
				return ds, &decodeFailure{"C17/frame", fmt.Sprintf("%s: input ends inside the frame but Read returned a %d-byte frame / err=%v", ctx(), b.Len(), err), false}
			}
		default: // the document gives these bytes no meaning
			if err == nil || isPE {
				ds.lenient++
			}
		}

		if err != nil && !isPE {
			ds.errs++
			return ds, nil // stream is out of sync after a read error
		}
		if isPE {
			ds.protoErrs++
		} else {
			ds.frames++
			if f := reencode(pd, b.Buf); f != nil {
				f.msg = ctx() + ": " + f.msg
				return ds, f
			}
		}
		seq++
	}
	return ds, nil
}

// prefixComplete: the non-trivial rule. The first frame's length prefix is
// wholly present, so the codec gets as far as computing a payload length from
// it (inputs that end inside the prefix are rejected before that).
func prefixComplete(pd protoDef, in []byte) bool {
	if pd.ref == ref.FrameAbridged {
		return len(in) >= 1 && (in[0] < 0x7f || len(in) >= 4)
	}
	return len(in) >= 4
}

// reencode: oracle (d).
func reencode(pd protoDef, frame []byte) *decodeFailure {
	if len(frame) == 0 || len(frame) > frameLimit-16 {
		return nil // the writer refuses empty frames; top of the range: see C16
	}
	if len(frame)%4 != 0 {
		return nil // outside the transports' domain (the aligned writers refuse it)
	}
	if len(frame) > 1<<16 {
		return nil // cost; large frames are re-encoded by C16
	}
	var w bytes.Buffer
	wb := &bin.Buffer{Buf: append(make([]byte, 0, len(frame)+16), frame...)}
	if err := pd.newCodec().Write(&w, wb); err != nil {
		return &decodeFailure{"C17/reencode", fmt.Sprintf("returned %d-byte frame cannot be written: %v", len(frame), err), false}
	}
	rf, err := ref.ReadFrame(pd.ref, w.Bytes(), 0, 0)
	if err != nil || rf.End != w.Len() {
		return &decodeFailure{"C17/reencode", fmt.Sprintf("re-encoded %d-byte frame is not one well-formed frame for the reference reader: %v", len(frame), err), false}
	}
	body := rf.Body
	if pd.ref == ref.FramePadded && len(body) >= len(frame) {
		body = body[:len(frame)]
	}
	if !bytes.Equal(body, frame) {
		return &decodeFailure{"C17/reencode", fmt.Sprintf("re-encoded %d-byte frame parses to different bytes", len(frame)), false}
	}
	var rb bin.Buffer
	err = pd.newCodec().Read(bytes.NewReader(w.Bytes()), &rb)
	var pe *codec.ProtocolErr
	if len(frame) == 4 {
		if !errors.As(err, &pe) {
			return &decodeFailure{"C17/reencode", fmt.Sprintf("re-encoded 4-byte frame: err=%v", err), false}
		}
		return nil
	}
	if err != nil || !bytes.Equal(rb.Buf, frame) {
		return &decodeFailure{"C17/reencode", fmt.Sprintf("re-encoded %d-byte frame reads back as %d bytes, err=%v", len(frame), rb.Len(), err), false}
	}
	return nil
}

// ---------------------------------------------------------------------------
// generators (T6: construction, not rejection)

func validFrame(t *rapid.T, pd protoDef, seq uint32, maxLen int) []byte {
	var ln int
	switch rapid.IntRange(0, 9).Draw(t, "vlenClass") {
	case 0:
		ln = 4
	case 1, 2, 3:
		ln = rapid.SampledFrom([]int{8, 12, 500, 504, 508, 512}).Draw(t, "vlen")
	case 4:
		ln = 4 * rapid.IntRange(1, maxLen/4).Draw(t, "vwords")
	default:
		ln = 4 * rapid.IntRange(1, 40).Draw(t, "vwords")
	}
	payload := pbt.DrawBytes(t, "vpayload", ln)
	var pad []byte
	if pd.ref == ref.FramePadded {
		pad = pbt.DrawBytes(t, "vpad", rapid.IntRange(0, 3).Draw(t, "vpadn"))
	}
	return ref.AppendFrame(nil, pd.ref, seq, payload, pad)
}

var lenGrid = []uint32{
	0, 1, 2, 3, 4, 5, 7, 8, 9, 10, 11, 12, 13, 15, 16, 17, 20, 24, 63, 64, 127, 128, 255, 256,
	0x7e, 0x7f, 0x80, 0x1fc, 0x200, 0xffff, 0x10000, 0xfffffc, 0xfffffd, 0xffffff, 0x1000000, 0x1000001, 0x100000c,
	0x1000010, 0x3fffffc, 0x4000000, 0x7fffffff, 0x80000000, 0x80000008, 0xfffffff0, 0xfffffffc, 0xffffffff,
}

// fullFrame builds a full-transport frame with a chosen (possibly absurd)
// length field; the CRC is computed over what is there when crcOK.
func fullFrame(n uint32, seq uint32, body []byte, crcOK bool) []byte {
	out := binary.LittleEndian.AppendUint32(nil, n)
	out = binary.LittleEndian.AppendUint32(out, seq)
	out = append(out, body...)
	crc := crc32.ChecksumIEEE(out)
	if !crcOK {
		crc ^= 0x10
	}
	return binary.LittleEndian.AppendUint32(out, crc)
}

func genHostile(t *rapid.T, pd protoDef) (in []byte, class string) {
	class = rapid.SampledFrom([]string{"random", "random-long", "valid", "mutated-length", "bitflip", "truncated", "spliced", "hostile-prefix", "hostile-prefix", "full-seq-crc"}).Draw(t, "class")
	if class == "full-seq-crc" && pd.ref != ref.FrameFull {
		class = "hostile-prefix"
	}
	nValid := func(maxFrames int) ([]byte, []int) {
		k := rapid.IntRange(1, maxFrames).Draw(t, "nvalid")
		var out []byte
		var starts []int
		for i := 0; i < k; i++ {
			starts = append(starts, len(out))
			out = append(out, validFrame(t, pd, uint32(i), 4096)...)
		}
		return out, starts
	}
	switch class {
	case "random":
		in = pbt.DrawBytes(t, "in", rapid.IntRange(0, 24).Draw(t, "n"))
	case "random-long":
		in = pbt.DrawBytes(t, "in", rapid.IntRange(25, 3000).Draw(t, "n"))
		// small first length so that the random tail is consumed as payload
		switch pd.ref {
		case ref.FrameAbridged:
			in[0] = byte(rapid.IntRange(0, 0x7e).Draw(t, "b0"))
		default:
			binary.LittleEndian.PutUint32(in, uint32(rapid.IntRange(0, 3100).Draw(t, "l0")))
		}
	case "valid":
		in, _ = nValid(4)
	case "mutated-length":
		var starts []int
		in, starts = nValid(3)
		at := starts[rapid.IntRange(0, len(starts)-1).Draw(t, "which")]
		if pd.ref == ref.FrameAbridged {
			in[at] = byte(rapid.IntRange(0, 255).Draw(t, "b0"))
			if in[at] >= 0x7f && at+3 < len(in) && rapid.IntRange(0, 7).Draw(t, "bigWords") != 3 {
				in[at+3] = 0 // keep most 3-byte word counts below 64 Ki words (cost)
			}
		} else {
			var v uint32
			if rapid.Bool().Draw(t, "grid") {
				v = rapid.SampledFrom(lenGrid).Draw(t, "len")
			} else {
				old := binary.LittleEndian.Uint32(in[at:])
				v = uint32(int64(old) + int64(rapid.IntRange(-16, 16).Draw(t, "delta")))
			}
			binary.LittleEndian.PutUint32(in[at:], v)
		}
	case "bitflip":
		in, _ = nValid(3)
		for i := rapid.IntRange(1, 3).Draw(t, "flips"); i > 0; i-- {
			pos := rapid.IntRange(0, len(in)-1).Draw(t, "pos")
			if rapid.Bool().Draw(t, "early") {
				pos = rapid.IntRange(0, min(len(in)-1, 12)).Draw(t, "pos")
			}
			in[pos] ^= 1 << rapid.IntRange(0, 7).Draw(t, "bit")
		}
	case "truncated":
		in, _ = nValid(3)
		in = in[:rapid.IntRange(0, len(in)-1).Draw(t, "cut")]
		if rapid.Bool().Draw(t, "nearEnd") && len(in) > 8 {
			in = in[:len(in)-rapid.IntRange(0, 7).Draw(t, "back")]
		}
	case "spliced":
		a, _ := nValid(2)
		bb, _ := nValid(2)
		in = append(a[:rapid.IntRange(0, len(a)).Draw(t, "cutA")], bb[rapid.IntRange(0, len(bb)).Draw(t, "cutB"):]...)
	case "hostile-prefix":
		bodyLen := rapid.SampledFrom([]int{0, 1, 3, 4, 7, 8, 12, 16, 64, 600}).Draw(t, "body")
		body := pbt.DrawBytes(t, "body", bodyLen)
		if rapid.Bool().Draw(t, "zeroBody") {
			body = make([]byte, bodyLen)
		}
		if pd.ref == ref.FrameAbridged {
			b0 := byte(rapid.IntRange(0, 255).Draw(t, "b0"))
			if rapid.Bool().Draw(t, "long") {
				b0 = rapid.SampledFrom([]byte{0x7f, 0x7f, 0x80, 0xff, 0xfe}).Draw(t, "b0l")
			}
			in = []byte{b0}
			switch rapid.IntRange(0, 3).Draw(t, "three") {
			case 0:
				in = append(in, 0xff, 0xff, 0xff)
			case 1:
				in = append(in, 0, 0, 0)
			case 2:
				v := rapid.SampledFrom([]uint32{1, 2, 3, 0x7e, 0x7f, 0x80, 0x81, 0xff, 0x100, 0x3fff, 0x3fffff, 0x400000, 0x400001, 0x7fffff, 0x800000, 0xfffffe}).Draw(t, "w")
				in = append(in, byte(v), byte(v>>8), byte(v>>16))
			default:
				// random 24-bit word count; the top byte is mostly zero so that
				// legal multi-MiB allocations (2 ms each) stay a minority
				three := pbt.DrawBytes(t, "three", 3)
				if rapid.IntRange(0, 7).Draw(t, "bigWords") != 3 {
					three[2] = 0
				}
				in = append(in, three...)
			}
			in = append(in, body...)
		} else {
			var v uint32
			switch rapid.IntRange(0, 2).Draw(t, "lsrc") {
			case 0:
				v = uint32(rapid.IntRange(0, 64).Draw(t, "len"))
			case 1:
				v = rapid.SampledFrom(lenGrid).Draw(t, "len")
			default:
				v = rapid.Uint32().Draw(t, "len")
			}
			in = binary.LittleEndian.AppendUint32(nil, v)
			in = append(in, body...)
		}
	case "full-seq-crc":
		// structurally complete full frames with chosen length field / seq / crc
		payload := pbt.DrawBytes(t, "payload", 4*rapid.IntRange(0, 8).Draw(t, "words"))
		n := uint32(len(payload) + 12)
		if rapid.Bool().Draw(t, "lie") {
			n = uint32(rapid.IntRange(0, 40).Draw(t, "n"))
		}
		seq := uint32(0)
		if rapid.IntRange(0, 3).Draw(t, "badSeq") == 0 {
			seq = rapid.Uint32().Draw(t, "seq")
		}
		in = fullFrame(n, seq, payload, rapid.IntRange(0, 3).Draw(t, "badCRC") != 0)
	}
	return in, class
}

func TestC17(t *testing.T) {
	st := pbt.NewStats("TestC17")
	defer st.Flush()
	knownFull := pbt.Known("C17", sigC17FullShortLen)
	knownAbr := pbt.Known("C17", sigC17AbridgedAlloc)
	var maxAlloc uint64
	rapid.Check(t, func(t *rapid.T) {
		pd := rapid.SampledFrom(protoDefs).Draw(t, "proto")
		in, class := genHostile(t, pd)
		pattern := []int{1 << 30}
		if rapid.IntRange(0, 3).Draw(t, "chunked") == 0 {
			pattern, _ = genPattern(t, "chunks", len(in))
		}
		preCap := rapid.SampledFrom([]int{0, 0, 0, 16, 1024}).Draw(t, "preCap")
		ds, fail := checkDecode(pd, in, pattern, preCap, knownFull, knownAbr)
		if fail != nil {
			t.Fatalf("[signature %s] %s\ninput (%d bytes): %x", fail.sig, fail.msg, len(in), head(in, 64))
		}
		if ds.excluded != "" {
			st.Excluded(ds.excluded)
		}
		if ds.maxAlloc > maxAlloc {
			maxAlloc = ds.maxAlloc
			st.Set("max_alloc_one_read_bytes_upper_estimate", maxAlloc)
		}
		outcome := "outcome:error-only"
		switch {
		case ds.frames+ds.protoErrs > 0 && ds.errs > 0:
			outcome = "outcome:frames-then-error"
		case ds.frames+ds.protoErrs > 0:
			outcome = "outcome:frames"
		}
		cls := []string{"proto:" + pd.name, "class:" + class, outcome}
		if ds.lenient > 0 {
			cls = append(cls, "lenient-accept")
		}
		key := fmt.Sprintf("%s/%x", pd.name, in)
		if len(in) > 64 {
			key = fmt.Sprintf("%s/%x..%d/%08x", pd.name, in[:48], len(in), crc32.ChecksumIEEE(in))
		}
		st.Case(key, ds.reachedLen, fmt.Sprintf("%s %s len=%d head=%x frames=%d perr=%d err=%d", pd.name, class, len(in), head(in, 12), ds.frames, ds.protoErrs, ds.errs), cls...)
	})
	st.Set("alloc_slack_bytes", allocSlack)
}

// reuseAllocLimit: the bound for one Read into a buffer the caller has used
// before. Growing a non-empty Go slice rounds the needed size up by at most a
// quarter (runtime growslice), which is the allocator's doing and not the
// frame's; what the frame itself may claim is still frameLimit.
const reuseAllocLimit = frameLimit + frameLimit/4 + allocSlack

var c17ReuseSizes = []int{0, 1, 3, 4, 5, 11, 12, 1000, 4096, 1 << 20, 6 << 20, 9 << 20, 12 << 20, 16<<20 - 1024, 16 << 20}

// TestC17Reuse: the frame limit holds per frame whatever the destination
// buffer went through before: the buffer handed to Read holds L stale bytes
// (a previous frame that was not Reset, or junk) in a backing array of
// capacity >= L, then 1..3 valid frames of drawn sizes up to the maximum are
// read into it back to back. Every frame must come out intact and no single
// Read may allocate more than the bound.
func TestC17Reuse(t *testing.T) {
	st := pbt.NewStats("TestC17Reuse")
	defer st.Flush()
	knownFull := pbt.Known("C17", sigC17FullShortLen)
	knownAbr := pbt.Known("C17", sigC17AbridgedAlloc)
	rapid.Check(t, func(t *rapid.T) {
		pd := rapid.SampledFrom(protoDefs).Draw(t, "proto")
		prior := rapid.SampledFrom(c17ReuseSizes).Draw(t, "priorLen")
		extra := rapid.SampledFrom([]int{0, 0, 1, 4, 16, 4096}).Draw(t, "priorSpare")
		stale := byte(rapid.SampledFrom([]int{0, 0xff, 0x7f, 0xa5}).Draw(t, "stale"))
		buf := make([]byte, prior, prior+extra)
		if stale != 0 {
			for i := range buf {
				buf[i] = stale
			}
		}
		nFrames := rapid.IntRange(1, 3).Draw(t, "frames")
		var in []byte
		var sizes []int
		total := 0
		for i := 0; i < nFrames; i++ {
			ln := rapid.SampledFrom(c17ReuseSizes).Draw(t, "payloadLen")
			if total+ln > 34<<20 {
				ln = 4096
			}
			ln -= ln % 4
			ln = min(ln, maxPayload(pd))
			if ln < 8 {
				ln = 8 // empty frames are refused; a 4-byte frame is a transport error code
			}
			total += ln
			payload := make([]byte, ln)
			for j, k := 0, rapid.IntRange(0, 8).Draw(t, "stamps"); j < k && ln > 0; j++ {
				payload[rapid.IntRange(0, ln-1).Draw(t, "at")] = byte(rapid.IntRange(1, 255).Draw(t, "v"))
			}
			var pad []byte
			if pd.ref == ref.FramePadded {
				pad = pbt.DrawBytes(t, "pad", rapid.IntRange(0, 3).Draw(t, "padn"))
			}
			in = ref.AppendFrame(in, pd.ref, uint32(i), payload, pad)
			sizes = append(sizes, ln)
		}
		pattern := []int{1 << 30}
		if rapid.IntRange(0, 3).Draw(t, "chunked") == 0 {
			pattern, _ = genPattern(t, "chunks", len(in))
		}
		run := func(precise bool) (decodeStats, *decodeFailure) {
			b := &bin.Buffer{Buf: append(make([]byte, 0, cap(buf)), buf...)}
			return checkDecodeBuf(pd, in, pattern, b, reuseAllocLimit, knownFull, knownAbr, precise)
		}
		ds, fail := run(false)
		if fail != nil && fail.allocMeasured {
			ds, fail = run(true)
		}
		if fail != nil {
			t.Fatalf("[signature %s] buffer with %d stale bytes (cap %d), frames %v: %s", fail.sig, prior, prior+extra, sizes, fail.msg)
		}
		if ds.frames != nFrames {
			t.Fatalf("[signature C17/frame] buffer with %d stale bytes (cap %d), %s frames %v: %d of %d valid frames were read (errors %d)", prior, prior+extra, pd.name, sizes, ds.frames, nFrames, ds.errs)
		}
		big := false
		prev := prior
		for _, n := range sizes {
			if prev+n > reuseAllocLimit {
				big = true
			}
			prev = n
		}
		cls := []string{"proto:" + pd.name, fmt.Sprintf("prior:%s", sizeClass(prior))}
		if big {
			cls = append(cls, "stale+frame>bound")
		}
		// non-trivial: the buffer holds stale bytes when some frame is read into it
		st.Case(fmt.Sprintf("%s/%d+%d/%x/%v/%v", pd.name, prior, extra, stale, sizes, pattern), prior > 0 || nFrames > 1, fmt.Sprintf("%s prior=%d spare=%d frames=%v", pd.name, prior, extra, sizes), cls...)
	})
}

func maxPayload(pd protoDef) int {
	switch pd.ref {
	case ref.FrameFull:
		return frameLimit - 12
	case ref.FramePadded:
		return frameLimit - 4
	}
	return frameLimit
}

func sizeClass(n int) string {
	switch {
	case n == 0:
		return "0"
	case n < 16:
		return "<16"
	case n < 1<<20:
		return "<1MiB"
	case n < 9<<20:
		return "<9MiB"
	}
	return ">=9MiB"
}

// sweepInputs enumerates the full small-prefix sweep of the design: every
// length prefix 0..64 plus the grid, for each 4-byte-prefix transport, with
// no body / a zero body of the claimed size / a body one byte short, and for
// the full transport structurally complete frames with right and wrong
// seq/crc; abridged: every first byte with ff ff ff / 00 00 00 / 01 00 00 /
// a fixed pseudo-random triple, with and without a body.
func sweepInputs(pd protoDef, visit func(in []byte, class string)) {
	if pd.ref == ref.FrameAbridged {
		triples := [][]byte{{0xff, 0xff, 0xff}, {0, 0, 0}, {1, 0, 0}, {0xa7, 0x3c, 0x19}, {0x00, 0x00, 0x40}, {0x01, 0x00, 0x40}}
		for b0 := 0; b0 < 256; b0++ {
			visit([]byte{byte(b0)}, "sweep:abridged-first-byte")
			for _, tr := range triples {
				in := append([]byte{byte(b0)}, tr...)
				visit(in, "sweep:abridged-first-byte")
				visit(append(append([]byte(nil), in...), make([]byte, 4*int(b0&0x7f))...), "sweep:abridged-first-byte+body")
			}
		}
		return
	}
	var lens []uint32
	for n := uint32(0); n <= 64; n++ {
		lens = append(lens, n)
	}
	lens = append(lens, lenGrid...)
	for _, n := range lens {
		pfx := binary.LittleEndian.AppendUint32(nil, n)
		visit(pfx, "sweep:prefix-only")
		if n <= 4096 {
			visit(append(append([]byte(nil), pfx...), make([]byte, n)...), "sweep:prefix+zero-body")
			if n > 0 {
				visit(append(append([]byte(nil), pfx...), make([]byte, n-1)...), "sweep:prefix+short-body")
			}
			if n >= 4 {
				// full: the length counts itself, so n-4 more bytes complete it
				visit(append(append([]byte(nil), pfx...), make([]byte, n-4)...), "sweep:prefix+zero-tail")
			}
		} else {
			visit(append(append([]byte(nil), pfx...), make([]byte, 16)...), "sweep:prefix+16")
		}
		if pd.ref == ref.FrameFull && n <= 4096 {
			bodyLen := 0
			if n >= 12 {
				bodyLen = int(n) - 12
			}
			for _, seq := range []uint32{0, 1} {
				for _, crcOK := range []bool{true, false} {
					visit(fullFrame(n, seq, make([]byte, bodyLen), crcOK), "sweep:full-structured")
				}
			}
		}
	}
}

// TestC17Sweep: the exhaustive small-prefix sweep (not rapid; deterministic).
func TestC17Sweep(t *testing.T) {
	st := pbt.NewStats("TestC17Sweep")
	defer st.Flush()
	knownFull := pbt.Known("C17", sigC17FullShortLen)
	knownAbr := pbt.Known("C17", sigC17AbridgedAlloc)
	failed := map[string]bool{}
	for _, pd := range protoDefs {
		sweepInputs(pd, func(in []byte, class string) {
			ds, fail := checkDecode(pd, in, []int{1 << 30}, 0, knownFull, knownAbr)
			if fail != nil {
				if !failed[fail.sig+pd.name] {
					failed[fail.sig+pd.name] = true
					t.Errorf("[signature %s] %s\ninput (%d bytes): %x", fail.sig, fail.msg, len(in), head(in, 32))
				}
				return
			}
			if ds.excluded != "" {
				st.Excluded(ds.excluded)
				return
			}
			st.Case(fmt.Sprintf("%s/%x/%d", pd.name, head(in, 8), len(in)), ds.reachedLen, fmt.Sprintf("%s %s head=%x len=%d", pd.name, class, head(in, 8), len(in)), "proto:"+pd.name, class)
		})
	}
	st.Set("exhaustive", true)
}

// ---------------------------------------------------------------------------
// native fuzzing target (thorough tier); the same oracle sits inside.

func FuzzC17(f *testing.F) {
	knownFull := pbt.Known("C17", sigC17FullShortLen)
	knownAbr := pbt.Known("C17", sigC17AbridgedAlloc)
	for pi, pd := range protoDefs {
		n := 0
		sweepInputs(pd, func(in []byte, class string) {
			// a spread of the sweep as seeds, not all of it
			n++
			if n%23 == 0 || len(in) <= 5 && n%5 == 0 {
				f.Add(uint8(pi), uint8(0), in)
			}
		})
		var valid []byte
		for i, ln := range []int{4, 8, 504, 508, 12} {
			valid = ref.AppendFrame(valid, pd.ref, uint32(i), bytes.Repeat([]byte{byte(0x31 + i)}, ln), nil)
		}
		f.Add(uint8(pi), uint8(0), valid)
		f.Add(uint8(pi), uint8(3), valid)
	}
	f.Fuzz(func(t *testing.T, proto uint8, chunk uint8, in []byte) {
		pd := protoDefs[int(proto)%len(protoDefs)]
		pattern := []int{1 << 30}
		if chunk != 0 {
			pattern = []int{int(chunk%7) + 1, int(chunk>>3) + 1}
		}
		_, fail := checkDecode(pd, in, pattern, 0, knownFull, knownAbr)
		if fail != nil {
			t.Fatalf("[signature %s] %s", fail.sig, fail.msg)
		}
	})
}

// ---------------------------------------------------------------------------
// regression witnesses (plain tests; fail until /repo is repaired)

func c17FullShortLenViolation() string {
	for _, n := range []uint32{8, 1, 2, 3, 9, 10, 11} {
		in := binary.LittleEndian.AppendUint32(nil, n)
		in = append(in, make([]byte, 8)...) // seqno 0 + filler
		_, fail := checkDecode(protoDefs[3], in, []int{1 << 30}, 0, false, false)
		if fail != nil {
			return fail.msg
		}
	}
	return ""
}

func c17AbridgedAllocViolation() string {
	_, fail := checkDecode(protoDefs[0], []byte{0x7f, 0xff, 0xff, 0xff}, []int{1 << 30}, 0, false, false)
	if fail != nil {
		return fail.msg
	}
	return ""
}

// TestC17Regression_full_length_below_12: a full-transport length field of
// 8..11 (with the expected seqno) or 1..3 makes codec.Full.Read panic.
func TestC17Regression_full_length_below_12(t *testing.T) {
	if v := c17FullShortLenViolation(); v != "" {
		t.Fatalf("C17 [signature %s]: %s", sigC17FullShortLen, v)
	}
}

// TestC17Regression_abridged_length_unchecked: 4 bytes 7f ff ff ff make
// codec.Abridged.Read allocate 64 MiB (4x the 16 MiB frame limit).
func TestC17Regression_abridged_length_unchecked(t *testing.T) {
	if v := c17AbridgedAllocViolation(); v != "" {
		t.Fatalf("C17 [signature %s]: %s", sigC17AbridgedAlloc, v)
	}
}

// TestC17Known reports listed findings while they still reproduce.
func TestC17Known(t *testing.T) {
	if pbt.Known("C17", sigC17FullShortLen) {
		if v := c17FullShortLenViolation(); v != "" {
			pbt.ReportKnown("C17", sigC17FullShortLen, v)
		} else {
			t.Logf("listed finding %s no longer reproduces", sigC17FullShortLen)
		}
	}
	if pbt.Known("C17", sigC17AbridgedAlloc) {
		if v := c17AbridgedAllocViolation(); v != "" {
			pbt.ReportKnown("C17", sigC17AbridgedAlloc, v)
		} else {
			t.Logf("listed finding %s no longer reproduces", sigC17AbridgedAlloc)
		}
	}
}
