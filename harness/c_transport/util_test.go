package c_transport

import (
	"errors"
	"fmt"
	"io"
	"net"
	"runtime"
	"sync"
	"time"

	"github.com/gotd/td/proto/codec"
	"github.com/gotd/td/transport"
	"pgregory.net/rapid"

	"verifharness/pbt"
	"verifharness/pbt/ref"
)

// ---------------------------------------------------------------------------
// protocols under test

type protoDef struct {
	name     string
	ref      ref.FrameProto
	tp       transport.Protocol
	newCodec func() codec.Codec
}

var protoDefs = []protoDef{
	{"abridged", ref.FrameAbridged, transport.Abridged, func() codec.Codec { return codec.Abridged{} }},
	{"intermediate", ref.FrameIntermediate, transport.Intermediate, func() codec.Codec { return codec.Intermediate{} }},
	{"padded", ref.FramePadded, transport.PaddedIntermediate, func() codec.Codec { return codec.PaddedIntermediate{} }},
	{"full", ref.FrameFull, transport.Full, func() codec.Codec { return &codec.Full{} }},
}

const frameLimit = ref.FrameLimit // 16 MiB, the documented client-side limit

// ---------------------------------------------------------------------------
// chunk patterns: how many bytes each successive Read may return

var mixedChunks = []int{1, 2, 3, 4, 5, 7, 8, 9, 13, 64, 509, 4096, 65536, 1 << 20}

// genPattern draws a cyclic list of per-Read byte limits. For big streams a
// large element is added so that the number of Read calls stays bounded
// (16 MiB in 1-byte reads would dominate the budget and adds nothing: the
// interesting cuts are those near prefixes, which the small elements make).
func genPattern(t *rapid.T, label string, total int) (pattern []int, class string) {
	class = rapid.SampledFrom([]string{"ones", "small", "mixed", "mixed", "whole"}).Draw(t, label+"Mode")
	switch class {
	case "ones":
		pattern = []int{1}
	case "small":
		pattern = rapid.SliceOfN(rapid.IntRange(1, 7), 1, 8).Draw(t, label)
	case "mixed":
		pattern = rapid.SliceOfN(rapid.SampledFrom(mixedChunks), 1, 8).Draw(t, label)
	default:
		pattern = []int{1 << 30}
	}
	if total > 256<<10 && class != "whole" {
		big := 65536
		if total > 4<<20 {
			big = 1 << 20
		}
		pattern = append(append([]int(nil), pattern...), big)
	}
	return pattern, class
}

// chunkReader serves data in reads limited by pattern and counts the reads
// that were cut short strictly inside a marked span (length prefixes).
type chunkReader struct {
	data    []byte
	off     int
	pattern []int
	pi      int
	marked  map[int]struct{} // offsets strictly inside a length prefix
	inCuts  int              // short reads ending on a marked offset
	reads   int
}

func (r *chunkReader) Read(p []byte) (int, error) {
	if len(p) == 0 {
		return 0, nil
	}
	if r.off >= len(r.data) {
		return 0, io.EOF
	}
	n := r.pattern[r.pi%len(r.pattern)]
	r.pi++
	r.reads++
	short := n < len(p)
	if !short {
		n = len(p)
	}
	if n > len(r.data)-r.off {
		n = len(r.data) - r.off
	}
	copy(p, r.data[r.off:r.off+n])
	r.off += n
	if short {
		if _, ok := r.marked[r.off]; ok {
			r.inCuts++
		}
	}
	return n, nil
}

func markPrefixes(frames []ref.Frame) map[int]struct{} {
	m := map[int]struct{}{}
	for _, f := range frames {
		for o := f.Start + 1; o < f.Start+f.PrefixLen; o++ {
			m[o] = struct{}{}
		}
	}
	return m
}

// ---------------------------------------------------------------------------
// in-memory net.Conn pair with unbounded buffering, full write history and
// pattern-limited reads.

type memHalf struct {
	mu      sync.Mutex
	cond    *sync.Cond
	buf     []byte // everything ever written (the wire tap)
	roff    int
	wclosed bool // writer side closed: EOF once drained
	rclosed bool // reader side closed
	pattern []int
	pi      int
	yield   bool // Gosched before each write: makes unserialised writers interleave
}

func newMemHalf(pattern []int, yield bool) *memHalf {
	if len(pattern) == 0 {
		pattern = []int{1 << 30}
	}
	h := &memHalf{pattern: pattern, yield: yield}
	h.cond = sync.NewCond(&h.mu)
	return h
}

func (h *memHalf) write(p []byte) (int, error) {
	if h.yield {
		runtime.Gosched()
	}
	h.mu.Lock()
	defer h.mu.Unlock()
	if h.wclosed || h.rclosed {
		return 0, io.ErrClosedPipe
	}
	h.buf = append(h.buf, p...)
	h.cond.Broadcast()
	return len(p), nil
}

// read waits until min(len(p), chunk) bytes are there (or the writer is
// gone), so the cut points depend only on the pattern and the stream, not on
// goroutine timing.
func (h *memHalf) read(p []byte) (int, error) {
	if len(p) == 0 {
		return 0, nil
	}
	h.mu.Lock()
	defer h.mu.Unlock()
	want := h.pattern[h.pi%len(h.pattern)]
	if want > len(p) {
		want = len(p)
	}
	for len(h.buf)-h.roff < want && !h.wclosed && !h.rclosed {
		h.cond.Wait()
	}
	if h.rclosed {
		return 0, io.ErrClosedPipe
	}
	avail := len(h.buf) - h.roff
	if avail == 0 {
		return 0, io.EOF
	}
	if want > avail {
		want = avail
	}
	h.pi++
	copy(p, h.buf[h.roff:h.roff+want])
	h.roff += want
	return want, nil
}

func (h *memHalf) closeWrite() {
	h.mu.Lock()
	h.wclosed = true
	h.cond.Broadcast()
	h.mu.Unlock()
}

func (h *memHalf) closeRead() {
	h.mu.Lock()
	h.rclosed = true
	h.cond.Broadcast()
	h.mu.Unlock()
}

// wire returns everything written so far (not a copy: call it when the
// writers are done).
func (h *memHalf) wire() []byte {
	h.mu.Lock()
	defer h.mu.Unlock()
	return h.buf[:len(h.buf):len(h.buf)]
}

func (h *memHalf) unread() int {
	h.mu.Lock()
	defer h.mu.Unlock()
	return len(h.buf) - h.roff
}

type memAddr struct{}

func (memAddr) Network() string { return "mem" }
func (memAddr) String() string  { return "mem" }

type memConn struct {
	r, w *memHalf
}

func (c *memConn) Read(p []byte) (int, error)       { return c.r.read(p) }
func (c *memConn) Write(p []byte) (int, error)      { return c.w.write(p) }
func (c *memConn) Close() error                     { c.w.closeWrite(); c.r.closeRead(); return nil }
func (c *memConn) CloseWrite()                      { c.w.closeWrite() }
func (c *memConn) LocalAddr() net.Addr              { return memAddr{} }
func (c *memConn) RemoteAddr() net.Addr             { return memAddr{} }
func (c *memConn) SetDeadline(time.Time) error      { return nil }
func (c *memConn) SetReadDeadline(time.Time) error  { return nil }
func (c *memConn) SetWriteDeadline(time.Time) error { return nil }

// memPair returns the two ends; a2b / b2a are the two directions.
func memPair(patA2B, patB2A []int, yield bool, capA2B, capB2A int) (a, b *memConn, a2b, b2a *memHalf) {
	a2b = newMemHalf(patA2B, yield)
	b2a = newMemHalf(patB2A, yield)
	a2b.buf = make([]byte, 0, capA2B)
	b2a.buf = make([]byte, 0, capB2A)
	return &memConn{r: b2a, w: a2b}, &memConn{r: a2b, w: b2a}, a2b, b2a
}

// memListener hands out pre-made connections.
type memListener struct {
	ch   chan net.Conn
	once sync.Once
}

func newMemListener(conns ...net.Conn) *memListener {
	l := &memListener{ch: make(chan net.Conn, len(conns)+1)}
	for _, c := range conns {
		l.ch <- c
	}
	return l
}

func (l *memListener) Accept() (net.Conn, error) {
	c, ok := <-l.ch
	if !ok {
		return nil, net.ErrClosed
	}
	return c, nil
}
func (l *memListener) Close() error   { l.once.Do(func() { close(l.ch) }); return nil }
func (l *memListener) Addr() net.Addr { return memAddr{} }

// ---------------------------------------------------------------------------
// single-goroutine duplex for the obfuscated2 / FakeTLS checks: each end is an
// io.ReadWriter; reads are pattern-limited and return io.EOF when nothing is
// buffered (the checks only read what was written before).

type seqHalf struct {
	buf     []byte // full history
	roff    int
	pattern []int
	pi      int
	cuts    int   // reads that returned less than asked although more was buffered
	bounds  []int // stream offset after each read (first 4096 reads)
}

func (h *seqHalf) read(p []byte) (int, error) {
	if len(p) == 0 {
		return 0, nil
	}
	if h.roff >= len(h.buf) {
		return 0, io.EOF
	}
	n := h.pattern[h.pi%len(h.pattern)]
	h.pi++
	if n > len(p) {
		n = len(p)
	}
	avail := len(h.buf) - h.roff
	if n > avail {
		n = avail
	}
	if n < len(p) && n < avail {
		h.cuts++
	}
	copy(p, h.buf[h.roff:h.roff+n])
	h.roff += n
	if len(h.bounds) < 4096 {
		h.bounds = append(h.bounds, h.roff)
	}
	return n, nil
}

// boundaryInsideWrite reports whether some read ended strictly inside one of
// the writes (writes given by their lengths, the first starting at base).
func (h *seqHalf) boundaryInsideWrite(base int, writes [][]byte) bool {
	edges := map[int]bool{base: true}
	off := base
	for _, w := range writes {
		off += len(w)
		edges[off] = true
	}
	for _, b := range h.bounds {
		if b > base && b < off && !edges[b] {
			return true
		}
	}
	return false
}

type seqEnd struct {
	r, w *seqHalf
	// onRead, if set, runs before every Read (used to let a scripted server
	// answer once the client starts reading).
	onRead func()
	// refuse: every Write fails with nothing written (expired write deadline)
	refuse bool
	// onWrite, if set, runs inside every Write before the bytes are taken
	// over: whatever happens elsewhere in the process while this write is
	// under way (a blocked socket, a slow peer)
	onWrite func()
}

var errWriteRefused = errors.New("harness: write deadline expired, 0 bytes written")

func (e *seqEnd) Read(p []byte) (int, error) {
	if e.onRead != nil {
		e.onRead()
	}
	return e.r.read(p)
}
func (e *seqEnd) Write(p []byte) (int, error) {
	if e.refuse {
		return 0, errWriteRefused
	}
	if e.onWrite != nil {
		e.onWrite()
	}
	e.w.buf = append(e.w.buf, p...)
	return len(p), nil
}

func seqPair(patA2B, patB2A []int) (a, b *seqEnd, a2b, b2a *seqHalf) {
	if len(patA2B) == 0 {
		patA2B = []int{1 << 30}
	}
	if len(patB2A) == 0 {
		patB2A = []int{1 << 30}
	}
	a2b = &seqHalf{pattern: patA2B}
	b2a = &seqHalf{pattern: patB2A}
	return &seqEnd{r: b2a, w: a2b}, &seqEnd{r: a2b, w: b2a}, a2b, b2a
}

// readExactly reads n bytes from r using buffers of the drawn sizes (cycled).
func readExactly(r io.Reader, n int, bufSizes []int) ([]byte, error) {
	out := make([]byte, 0, n)
	maxSz := 0
	for _, s := range bufSizes {
		maxSz = max(maxSz, s)
	}
	scratch := make([]byte, min(maxSz, max(n, 1)))
	for i := 0; len(out) < n; i++ {
		sz := bufSizes[i%len(bufSizes)]
		if sz > n-len(out) {
			sz = n - len(out)
		}
		buf := scratch[:sz]
		m, err := r.Read(buf)
		out = append(out, buf[:m]...)
		if err != nil {
			return out, fmt.Errorf("after %d of %d bytes: %w", len(out), n, err)
		}
		if m == 0 {
			return out, fmt.Errorf("after %d of %d bytes: Read returned 0, nil", len(out), n)
		}
	}
	return out, nil
}

func firstDiff(a, b []byte) int {
	n := min(len(a), len(b))
	for i := 0; i < n; i++ {
		if a[i] != b[i] {
			return i
		}
	}
	if len(a) != len(b) {
		return n
	}
	return -1
}

func head(b []byte, n int) []byte {
	if len(b) > n {
		return b[:n]
	}
	return b
}

// ---------------------------------------------------------------------------
// payload arena: property bodies run one at a time, so payload bytes and the
// wire buffer are carved from buffers that survive between cases (fresh
// multi-MiB allocations per case cost more than the code under test).

type arena struct {
	buf []byte
	off int
}

func (a *arena) reset() { a.off = 0 }

func (a *arena) take(n int) []byte {
	if a.off+n > len(a.buf) {
		// earlier slices of this case keep the old backing array alive
		a.buf = make([]byte, max(2*len(a.buf), n, 1<<20))
		a.off = 0
	}
	s := a.buf[a.off : a.off+n : a.off+n]
	a.off += n
	return s
}

// drawInto fills dst with the stream of one drawn seed.
func drawInto(t *rapid.T, label string, dst []byte) {
	seed := rapid.Uint64().Draw(t, label)
	_, _ = pbt.NewStream(seed).Read(dst)
}
