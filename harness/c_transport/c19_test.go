package c_transport

import (
	"bytes"
	"fmt"
	"testing"
	"time"

	"github.com/gotd/td/mtproxy"
	"github.com/gotd/td/mtproxy/faketls"
	"pgregory.net/rapid"

	"verifharness/pbt"
	"verifharness/pbt/ref"
)

// C19: FakeTLS carries any write sizes intact, each record within the 16-bit
// length, and the client handshake succeeds only with the right server digest.

const sigC19BigWrite = "C19/write-over-65535"

var tlsBoundarySizes = []int{16383, 16384, 65534, 65535}
var tlsOverSizes = []int{65536, 65537, 131071, 131072}

func genWriteSize(t *rapid.T, label string) (n int, class string) {
	// the rare MiB classes sit mid-range: rapid over-samples the ends of an IntRange
	c := rapid.IntRange(0, 99).Draw(t, label+"Class")
	switch {
	case c < 5:
		return 0, "size:0"
	case c < 10:
		return 1, "size:1"
	case c < 40:
		return rapid.IntRange(2, 2000).Draw(t, label), "size:small"
	case c < 52:
		return rapid.SampledFrom(tlsBoundarySizes).Draw(t, label), "size:boundary<=65535"
	case c < 54:
		// MiB-sized writes are rare on purpose (each costs tens of ms)
		if rapid.IntRange(0, 4).Draw(t, label+"Huge") == 2 {
			return 4 << 20, "size:4MiB"
		}
		return 1 << 20, "size:1MiB"
	case c < 66:
		return rapid.IntRange(2001, 65535).Draw(t, label), "size:<=65535"
	case c < 84:
		return rapid.SampledFrom(tlsOverSizes).Draw(t, label), "size:just-over-65535"
	case c < 92:
		return rapid.IntRange(65536, 300000).Draw(t, label), "size:65536..300000"
	default:
		return rapid.IntRange(2, 2000).Draw(t, label), "size:small"
	}
}

type tlsWrites struct {
	all     []byte // the writes back to back
	data    [][]byte
	total   int
	over    bool
	clamped bool // a write > 65535 was replaced by 65535 because the finding is listed
	// refused[i]: the connection under the writer refuses every Write during
	// write #i (an expired write deadline: 0 bytes, an error); nothing of that
	// write reaches the wire, and the writes after it must be unaffected.
	refused    []bool
	anyRefused bool
	classes map[string]bool
}

func genTLSWrites(t *rapid.T, label string, known bool, st *pbt.Stats, minN int, ar *arena) tlsWrites {
	n := rapid.IntRange(minN, 6).Draw(t, label+"N")
	w := tlsWrites{classes: map[string]bool{}}
	lens := make([]int, n)
	for i := range lens {
		ln, cl := genWriteSize(t, label+"Size")
		if ln > 65535 && known {
			st.Excluded(sigC19BigWrite)
			ln, cl = 65535, "size:boundary<=65535"
			w.clamped = true
		}
		if ln > 65535 {
			w.over = true
		}
		w.classes[cl] = true
		w.total += ln
		lens[i] = ln
	}
	w.all = ar.take(w.total)
	drawInto(t, label+"Data", w.all)
	w.refused = make([]bool, n)
	if n > 1 && rapid.IntRange(0, 3).Draw(t, label+"Faults") == 0 {
		for i := range w.refused {
			w.refused[i] = rapid.IntRange(0, 2).Draw(t, label+"Refused") == 0
			w.anyRefused = w.anyRefused || w.refused[i]
		}
	}
	off := 0
	for _, ln := range lens {
		w.data = append(w.data, w.all[off:off+ln:off+ln])
		off += ln
	}
	return w
}

// checkTLSDirection: writer writes all of w, reader reads it back; the wire is
// parsed by the reference record reader.
func checkTLSDirection(dir string, wr, rd *faketls.FakeTLS, wrEnd *seqEnd, half *seqHalf, w tlsWrites, sizes []int) error {
	want := w.all
	if w.anyRefused {
		want = nil
	}
	for i, d := range w.data {
		if w.refused[i] {
			wrEnd.refuse = true
			n, err := wr.Write(d)
			wrEnd.refuse = false
			if err == nil && len(d) > 0 {
				return fmt.Errorf("%s Write #%d (%d bytes) on a connection that refused every write: returned %d, nil", dir, i, len(d), n)
			}
			// what Write says it wrote is what the peer must see
			want = append(want, d[:min(max(n, 0), len(d))]...)
			continue
		}
		if w.anyRefused {
			want = append(want, d...)
		}
		n, err := wr.Write(d)
		if err != nil {
			return fmt.Errorf("%s Write #%d (%d bytes): %v", dir, i, len(d), err)
		}
		if n != len(d) {
			return fmt.Errorf("%s Write #%d (%d bytes) returned %d", dir, i, len(d), n)
		}
	}
	// the wire first: it tells which record is wrong
	app, recs, err := ref.FakeTLSAppData(half.buf)
	if err != nil {
		at := 0
		for _, r := range recs {
			at += 5 + len(r.Data)
		}
		return fmt.Errorf("%s wire (%d bytes for writes %s): not a sequence of whole TLS records: %d good records, then at offset %d: % x", dir, len(half.buf), lenKey(w.data), len(recs), at, head(half.buf[min(at, len(half.buf)):], 8))
	}
	if !bytes.Equal(app, want) {
		return fmt.Errorf("%s wire: application data of the %d records (%d bytes) differs from the %d bytes written (writes %s) at %d", dir, len(recs), len(app), len(want), lenKey(w.data), firstDiff(app, want))
	}
	got, err := readExactly(rd, len(want), sizes)
	if err != nil {
		return fmt.Errorf("%s peer read (writes %s): %v", dir, lenKey(w.data), err)
	}
	if !bytes.Equal(got, want) {
		return fmt.Errorf("%s peer read (writes %s): differs at %d", dir, lenKey(w.data), firstDiff(got, want))
	}
	return nil
}

func TestC19(t *testing.T) {
	st := pbt.NewStats("TestC19")
	defer st.Flush()
	known := pbt.Known("C19", sigC19BigWrite)
	var ar arena
	rapid.Check(t, func(t *rapid.T) {
		ar.reset()
		up := genTLSWrites(t, "up", known, st, 1, &ar)
		down := genTLSWrites(t, "down", known, st, 0, &ar)
		patUp, pcUp := genPattern(t, "chunksUp", up.total)
		patDown, pcDown := genPattern(t, "chunksDown", down.total)
		sizes := rapid.SliceOfN(rapid.OneOf(rapid.SampledFrom([]int{1, 2, 5, 4096, 16384, 65535, 65536, 128 << 10}), rapid.IntRange(1, 128<<10)), 1, 5).Draw(t, "readBufSizes")
		if up.total+down.total > 256<<10 {
			// keep the number of Read calls bounded for MiB-sized streams
			sizes = append(sizes, 64<<10)
		}
		rndA, _ := pbt.DrawStream(t, "randA")
		rndB, _ := pbt.DrawStream(t, "randB")
		endA, endB, a2b, b2a := seqPair(patUp, patDown)
		a2b.buf = make([]byte, 0, up.total+up.total/4096+128)
		b2a.buf = make([]byte, 0, down.total+down.total/4096+128)
		a := faketls.NewFakeTLS(rndA, endA)
		b := faketls.NewFakeTLS(rndB, endB)
		if err := checkTLSDirection("A->B", a, b, endA, a2b, up, sizes); err != nil {
			t.Fatalf("[signature %s] %v", sigOf(up), err)
		}
		if err := checkTLSDirection("B->A", b, a, endB, b2a, down, sizes); err != nil {
			t.Fatalf("[signature %s] %v", sigOf(down), err)
		}
		cls := []string{"chunks:" + pcUp + "/" + pcDown}
		for c := range up.classes {
			cls = append(cls, c)
		}
		for c := range down.classes {
			if !up.classes[c] {
				cls = append(cls, c)
			}
		}
		if up.anyRefused || down.anyRefused {
			cls = append(cls, "some-write-refused-by-connection")
		}
		over := up.over || down.over
		if over {
			cls = append(cls, "some-write>65535")
		}
		key := fmt.Sprintf("%s/%s/%v/%v/%v", lenKey(up.data), lenKey(down.data), patUp, patDown, sizes)
		// non-trivial: some write > 65535; while that shape is excluded as a
		// listed finding, the clamped stand-in (a write that fills a maximal
		// record exactly) counts instead.
		if up.clamped || down.clamped {
			cls = append(cls, "clamped-to-65535(listed finding)")
		}
		st.Case(key, over || up.clamped || down.clamped, fmt.Sprintf("up=%s down=%s readbuf=%v", lenKey(up.data), lenKey(down.data), sizes), cls...)
	})
}

func sigOf(w tlsWrites) string {
	if w.over {
		return sigC19BigWrite
	}
	return "C19/stream"
}

// ---------------------------------------------------------------------------
// handshake

type helloVariant struct {
	name        string
	digestRight bool
}

var helloVariants = []helloVariant{
	{"right", true},
	{"right", true},
	{"extra-handshake-records", true},
	{"wrong-secret", false},
	{"wrong-client-random", false},
	{"flipped-digest-bit", false},
	{"flipped-body-bit", false},
	{"zero-digest", false},
}

func TestC19Handshake(t *testing.T) {
	st := pbt.NewStats("TestC19Handshake")
	defer st.Flush()
	rapid.Check(t, func(t *rapid.T) {
		// inside a bubble: FakeTLS stamps the ClientHello with clock.System
		rapid.SyncTest(t, func(t *rapid.T) {
			secret := pbt.DrawBytes(t, "secret", 16)
			domain := rapid.SampledFrom([]string{"google.com", "example.org", "a.b", "cloudflare-dns.com"}).Draw(t, "domain")
			v := rapid.SampledFrom(helloVariants).Draw(t, "variant")
			extraN := 0
			if v.name == "extra-handshake-records" {
				extraN = rapid.IntRange(1, 17).Draw(t, "extra")
			}
			hsBody := pbt.DrawBytes(t, "hsBody", rapid.IntRange(38, 200).Draw(t, "hsLen"))
			copy(hsBody, []byte{0x02, 0x00, 0x00, byte(len(hsBody) - 4), 0x03, 0x03})
			var extra [][]byte
			for i := 0; i < extraN; i++ {
				extra = append(extra, pbt.DrawBytes(t, "extraBody", rapid.IntRange(0, 40).Draw(t, "extraLen")))
			}
			appData := pbt.DrawBytes(t, "cert", rapid.IntRange(0, 3000).Draw(t, "certLen"))
			flipAt := rapid.IntRange(0, 1<<20).Draw(t, "flipAt")
			flipBit := byte(1) << rapid.IntRange(0, 7).Draw(t, "flipBit")
			follow := pbt.DrawBytes(t, "follow", rapid.IntRange(0, 500).Draw(t, "followLen"))
			patDown, pc := genPattern(t, "chunksDown", 0)
			rnd, _ := pbt.DrawStream(t, "rand")

			clientEnd, _, c2s, s2c := seqPair(nil, patDown)
			var hello, reply []byte
			var helloOK bool
			var helloTime uint32
			answered := false
			// scripted MTProxy: when the client starts reading, answer what it wrote
			clientEnd.onRead = func() {
				if answered {
					return
				}
				answered = true
				hello = append([]byte(nil), c2s.buf...)
				cr, ok := ref.FakeTLSClientRandom(hello)
				if !ok {
					return // nothing sensible to answer: the client sees EOF
				}
				helloTime, helloOK = ref.FakeTLSClientHelloDigestOK(hello, secret)
				useSecret, useRandom := secret, cr
				switch v.name {
				case "wrong-secret":
					useSecret = append([]byte(nil), secret...)
					useSecret[flipAt%16] ^= flipBit
				case "wrong-client-random":
					useRandom[flipAt%32] ^= flipBit
				}
				reply = ref.FakeTLSServerHello(useSecret, useRandom, hsBody, extra, appData)
				switch v.name {
				case "flipped-digest-bit":
					reply[11+flipAt%32] ^= flipBit
				case "zero-digest":
					copy(reply[11:43], make([]byte, 32))
				case "flipped-body-bit":
					// a data byte outside the digest slot: handshake body tail or the application record's data
					cands := []int{}
					for i := 43; i < 5+len(hsBody); i++ {
						cands = append(cands, i)
					}
					for i := len(reply) - len(appData); i < len(reply); i++ {
						cands = append(cands, i)
					}
					if len(cands) > 0 {
						reply[cands[flipAt%len(cands)]] ^= flipBit
					} else {
						reply[11] ^= flipBit
					}
				}
				s2c.buf = append(s2c.buf, reply...)
				// the proxy may start sending data right behind its hello
				if len(follow) > 0 {
					s2c.buf = ref.AppendTLSRecord(s2c.buf, ref.TLSApplication, follow)
				}
			}

			client := faketls.NewFakeTLS(rnd, clientEnd)
			err := client.Handshake([4]byte{0xdd, 0xdd, 0xdd, 0xdd}, 2, mtproxy.Secret{Secret: secret, Tag: 0xee, CloakHost: domain, Type: mtproxy.TLS})
			if !answered || reply == nil {
				t.Fatalf("client never produced a readable ClientHello (%d bytes written, head % x): err=%v", len(c2s.buf), head(c2s.buf, 12), err)
			}
			// the verdict of the reference on what was actually sent
			cr, _ := ref.FakeTLSClientRandom(hello)
			digestRight := bytes.Equal(ref.FakeTLSServerDigest(secret, cr, reply), reply[11:43])
			if digestRight != v.digestRight {
				t.Fatalf("harness: variant %s built a reply whose digest right=%v", v.name, digestRight)
			}
			ctx := fmt.Sprintf("variant=%s extra=%d hs=%d cert=%d chunks=%v", v.name, extraN, len(hsBody), len(appData), patDown)
			if err == nil && !digestRight {
				t.Fatalf("%s: handshake SUCCEEDED although the server digest is not HMAC(secret, client_random || hello)", ctx)
			}
			outcome := "ok"
			if err != nil {
				outcome = "rejected"
				// right digest, canonical shape or fewer extra handshake records than
				// faketls' own sanity limit: must succeed, else no server could ever
				// be accepted and "only when" would hold vacuously
				if digestRight && extraN <= 15 {
					t.Fatalf("%s: handshake failed with the right digest: %v", ctx, err)
				}
			} else {
				if s2c.roff != len(reply) {
					t.Fatalf("%s: handshake consumed %d bytes, the server hello has %d", ctx, s2c.roff, len(reply))
				}
				if len(follow) > 0 {
					got, rerr := readExactly(client, len(follow), []int{7, 300})
					if rerr != nil || !bytes.Equal(got, follow) {
						t.Fatalf("%s: data sent right after the hello: err=%v differs at %d", ctx, rerr, firstDiff(got, follow))
					}
				}
				// and the client's first data write is a dummy ChangeCipherSpec + application record
				msg := pbt.NewStream(uint64(len(follow))).Bytes(100)
				if _, werr := client.Write(msg); werr != nil {
					t.Fatalf("%s: Write after handshake: %v", ctx, werr)
				}
				app, _, perr := ref.FakeTLSAppData(c2s.buf[len(hello):])
				if perr != nil || !bytes.Equal(app, msg) {
					t.Fatalf("%s: first data after the handshake is not carried in whole TLS records: %v", ctx, perr)
				}
			}
			cls := []string{"variant:" + v.name, "outcome:" + outcome, "chunks:" + pc}
			if extraN > 0 {
				cls = append(cls, fmt.Sprintf("extra-records:%d", extraN))
			}
			if helloOK && helloTime == uint32(time.Now().Unix()) {
				cls = append(cls, "client-hello-digest+time-ok")
			} else {
				cls = append(cls, "client-hello-digest-or-time-BAD")
			}
			key := fmt.Sprintf("%s/%d/%x/%d/%d/%d/%x/%v", v.name, extraN, secret, len(hsBody), len(appData), flipAt, flipBit, patDown)
			st.Case(key, !digestRight, fmt.Sprintf("%s extra=%d -> %s", v.name, extraN, outcome), cls...)
		})
	})
}

// ---------------------------------------------------------------------------
// regression witness

func c19BigWriteViolation() string {
	for _, n := range []int{65536, 65535 + 7, 200000} {
		endA, endB, a2b, _ := seqPair(nil, nil)
		a := faketls.NewFakeTLS(pbt.NewStream(1), endA)
		b := faketls.NewFakeTLS(pbt.NewStream(2), endB)
		d := pbt.NewStream(uint64(n)).Bytes(n)
		w := tlsWrites{all: d, data: [][]byte{d}, over: true, refused: []bool{false}}
		if err := checkTLSDirection("A->B", a, b, endA, a2b, w, []int{4096}); err != nil {
			return err.Error()
		}
	}
	return ""
}

// TestC19Regression_write_over_65535: one Write of more than 65535 bytes is
// sent as a single record whose 16-bit length field wraps.
func TestC19Regression_write_over_65535(t *testing.T) {
	if v := c19BigWriteViolation(); v != "" {
		t.Fatalf("C19 [signature %s]: %s", sigC19BigWrite, v)
	}
	// control: the largest write that fits one record is carried intact
	endA, endB, a2b, _ := seqPair(nil, nil)
	a := faketls.NewFakeTLS(pbt.NewStream(1), endA)
	b := faketls.NewFakeTLS(pbt.NewStream(2), endB)
	d := pbt.NewStream(3).Bytes(65535)
	w := tlsWrites{all: d, data: [][]byte{d}, refused: []bool{false}}
	if err := checkTLSDirection("A->B", a, b, endA, a2b, w, []int{4096}); err != nil {
		t.Fatalf("control (65535 bytes): %v", err)
	}
}

// TestC19Regression_write_after_refused_write: a Write that the connection
// refused entirely (0 bytes, an error) leaves nothing behind: the writes after
// it, a retry included, reach the peer alone.
func TestC19Regression_write_after_refused_write(t *testing.T) {
	for _, first := range []bool{true, false} {
		endA, endB, a2b, _ := seqPair(nil, nil)
		a := faketls.NewFakeTLS(pbt.NewStream(1), endA)
		b := faketls.NewFakeTLS(pbt.NewStream(2), endB)
		d := pbt.NewStream(3).Bytes(12)
		w := tlsWrites{all: d, data: [][]byte{d[:4], d[4:8], d[4:8], d[8:]}, refused: []bool{false, true, false, false}, anyRefused: true}
		if first {
			w = tlsWrites{all: d, data: [][]byte{d[:4], d[:4], d[4:]}, refused: []bool{true, false, false}, anyRefused: true}
		}
		if err := checkTLSDirection("A->B", a, b, endA, a2b, w, []int{4096}); err != nil {
			t.Fatalf("C19 [signature C19/stream] refused write first=%v: %v", first, err)
		}
	}
}

// TestC19Known reports the listed finding while it still reproduces.
func TestC19Known(t *testing.T) {
	if !pbt.Known("C19", sigC19BigWrite) {
		t.Skip("not listed")
	}
	if v := c19BigWriteViolation(); v != "" {
		pbt.ReportKnown("C19", sigC19BigWrite, v)
		return
	}
	t.Logf("listed finding %s no longer reproduces", sigC19BigWrite)
}
