package c_transport

import (
	"bytes"
	"encoding/binary"
	"fmt"
	"io"
	"testing"

	"github.com/gotd/td/mtproxy"
	"github.com/gotd/td/mtproxy/obfuscated2"
	"github.com/gotd/td/transport"
	"pgregory.net/rapid"

	"verifharness/pbt"
	"verifharness/pbt/ref"
)

// C18: obfuscated2 handshake agrees on protocol tag, DC and both byte streams.
//
// Domain: tags = the three transport ids and arbitrary 4 bytes; dc = what
// dcs.plain / dcs.mtProxy pass (1..5, negated for media, +-10000 for test
// DCs) plus the int16 extremes; secret = empty (direct / websocket) or the 16
// bytes mtproxy.ParseSecret always produces; the random source is the
// caller's io.Reader, here a deterministic stream optionally preceded by
// 64-byte blocks that start with each reserved pattern.

// reservedBlocks returns 64-byte blocks starting with every pattern that the
// transport document forbids as the start of the init payload.
func reservedBlocks(fill []byte) [][]byte {
	mk := func(first []byte, zeroSecond bool) []byte {
		b := append([]byte(nil), fill[:64]...)
		copy(b, first)
		if zeroSecond {
			copy(b[4:8], []byte{0, 0, 0, 0})
		} else if binary.LittleEndian.Uint32(b[4:8]) == 0 {
			b[4] = 1
		}
		return b
	}
	ok := mk([]byte{0x11, 0x22, 0x33, 0x44}, true) // only the second int is wrong
	return [][]byte{
		mk([]byte{0xef}, false),
		mk([]byte("HEAD"), false),
		mk([]byte("POST"), false),
		mk([]byte("GET "), false),
		mk([]byte("OPTI"), false),
		mk([]byte{0x16, 0x03, 0x01, 0x02}, false),
		mk([]byte{0xdd, 0xdd, 0xdd, 0xdd}, false),
		mk([]byte{0xee, 0xee, 0xee, 0xee}, false),
		ok,
	}
}

type obfCase struct {
	tag       [4]byte
	tagClass  string
	dc        int
	secret    []byte
	secClass  string
	rnd       io.Reader
	nReserved int
}

func genObfCase(t *rapid.T) obfCase {
	var c obfCase
	c.tagClass = rapid.SampledFrom([]string{"ef", "ee", "dd", "random"}).Draw(t, "tagClass")
	switch c.tagClass {
	case "ef":
		c.tag = [4]byte{0xef, 0xef, 0xef, 0xef}
	case "ee":
		c.tag = [4]byte{0xee, 0xee, 0xee, 0xee}
	case "dd":
		c.tag = [4]byte{0xdd, 0xdd, 0xdd, 0xdd}
	default:
		copy(c.tag[:], pbt.DrawBytes(t, "tag", 4))
	}
	switch rapid.IntRange(0, 4).Draw(t, "dcClass") {
	case 0:
		c.dc = rapid.IntRange(1, 5).Draw(t, "dc")
	case 1:
		c.dc = -rapid.IntRange(1, 5).Draw(t, "dc")
	case 2:
		c.dc = 10000 + rapid.IntRange(1, 5).Draw(t, "dc")
	case 3:
		c.dc = -10000 - rapid.IntRange(1, 5).Draw(t, "dc")
	default:
		c.dc = rapid.OneOf(rapid.SampledFrom([]int{0, -1, 32767, -32768, 203}), rapid.IntRange(-32768, 32767)).Draw(t, "dc")
	}
	c.secClass = rapid.SampledFrom([]string{"empty", "16", "16", "nil"}).Draw(t, "secret")
	switch c.secClass {
	case "empty":
		c.secret = []byte{}
	case "16":
		c.secret = pbt.DrawBytes(t, "secret", 16)
	}
	base, _ := pbt.DrawStream(t, "rand")
	c.rnd = base
	if rapid.IntRange(0, 2).Draw(t, "reservedFirst") == 0 {
		blocks := reservedBlocks(pbt.DrawBytes(t, "fill", 64))
		idx := rapid.SliceOfN(rapid.IntRange(0, len(blocks)-1), 1, 12).Draw(t, "reserved")
		var pre []byte
		for _, i := range idx {
			pre = append(pre, blocks[i]...)
		}
		c.nReserved = len(idx)
		c.rnd = io.MultiReader(bytes.NewReader(pre), base)
	}
	return c
}

func genWrites(t *rapid.T, label string) [][]byte {
	n := rapid.IntRange(0, 10).Draw(t, label+"N")
	out := make([][]byte, n)
	for i := range out {
		var ln int
		switch rapid.IntRange(0, 9).Draw(t, label+"LenClass") {
		case 0:
			ln = 0
		case 1:
			ln = rapid.SampledFrom([]int{1, 15, 16, 17, 63, 64, 65}).Draw(t, label+"Len")
		case 2:
			ln = rapid.IntRange(1, 1<<16).Draw(t, label+"Len")
		default:
			ln = rapid.IntRange(1, 300).Draw(t, label+"Len")
		}
		out[i] = pbt.DrawBytes(t, label+"Data", ln)
	}
	return out
}

func genReadSizes(t *rapid.T, label string) []int {
	return rapid.SliceOfN(rapid.SampledFrom([]int{1, 2, 3, 5, 15, 16, 17, 31, 64, 100, 1000, 4096, 1 << 16, 1 << 17}), 1, 6).Draw(t, label)
}

func concat(ws [][]byte) []byte {
	n := 0
	for _, w := range ws {
		n += len(w)
	}
	out := make([]byte, 0, n)
	for _, w := range ws {
		out = append(out, w...)
	}
	return out
}

func TestC18(t *testing.T) {
	st := pbt.NewStats("TestC18")
	defer st.Flush()
	rapid.Check(t, func(t *rapid.T) {
		c := genObfCase(t)
		upWrites := genWrites(t, "up")
		downWrites := genWrites(t, "down")
		patUp, pcUp := genPattern(t, "chunksUp", 0)
		patDown, pcDown := genPattern(t, "chunksDown", 0)
		upSizes := genReadSizes(t, "upReadSizes")
		downSizes := genReadSizes(t, "downReadSizes")
		interleave := rapid.Bool().Draw(t, "interleave")

		clientEnd, serverEnd, c2s, s2c := seqPair(patUp, patDown)
		fail := func(format string, a ...any) {
			t.Fatalf("tag=%x dc=%d secret=%s(%x) reservedBlocks=%d: %s", c.tag, c.dc, c.secClass, c.secret, c.nReserved, fmt.Sprintf(format, a...))
		}

		client := obfuscated2.NewObfuscated2(c.rnd, clientEnd)
		if err := client.Handshake(c.tag, c.dc, mtproxy.Secret{Secret: c.secret, Type: mtproxy.Simple}); err != nil {
			fail("client Handshake: %v", err)
		}
		if len(c2s.buf) != 64 {
			fail("client wrote %d bytes for the header, want 64", len(c2s.buf))
		}
		header := append([]byte(nil), c2s.buf...)
		if ref.Obf2Reserved(header) {
			fail("header starts with a reserved pattern: first int %x second int %x", header[0:4], header[4:8])
		}

		server, md, err := obfuscated2.Accept(serverEnd, c.secret)
		if err != nil {
			fail("Accept: %v", err)
		}
		if md.Protocol != c.tag || md.DC != uint16(c.dc) {
			fail("Accept metadata: protocol %x dc %d, want %x / %d", md.Protocol, md.DC, c.tag, uint16(c.dc))
		}

		// a neighbour: another obfuscated2 connection of the same process (own
		// keys, own pipe) that writes while a write of this connection is under
		// way in its transport - in every Write of the client's or the server's
		// end, before the bytes are taken over
		neighbour := rapid.Bool().Draw(t, "neighbourConnection")
		var nbSent []byte
		var nbServer io.Reader
		if neighbour {
			nbData := pbt.DrawBytes(t, "neighbourData", rapid.SampledFrom([]int{1, 16, 64, 600, 5000}).Draw(t, "neighbourWriteLen"))
			nEndC, nEndS, _, _ := seqPair(nil, nil)
			nrnd, _ := pbt.DrawStream(t, "neighbourRand")
			nClient := obfuscated2.NewObfuscated2(nrnd, nEndC)
			if err := nClient.Handshake(c.tag, c.dc+1, mtproxy.Secret{Secret: c.secret, Type: mtproxy.Simple}); err != nil {
				fail("neighbour Handshake: %v", err)
			}
			nSrv, _, err := obfuscated2.Accept(nEndS, c.secret)
			if err != nil {
				fail("neighbour Accept: %v", err)
			}
			nbServer = nSrv
			busy := false
			hook := func() {
				if busy || len(nbSent) > 1<<20 {
					return
				}
				busy = true
				defer func() { busy = false }()
				if _, err := nClient.Write(nbData); err != nil {
					fail("neighbour Write: %v", err)
				}
				nbSent = append(nbSent, nbData...)
			}
			clientEnd.onWrite, serverEnd.onWrite = hook, hook
		}

		// data, both directions; reads use buffers of drawn sizes over a
		// transport that returns drawn chunk sizes
		xfer := func(dir string, w io.Writer, r io.Reader, data []byte, sizes []int) {
			n, err := w.Write(data)
			if err != nil || n != len(data) {
				fail("%s Write(%d bytes) = %d, %v", dir, len(data), n, err)
			}
			got, err := readExactly(r, len(data), sizes)
			if err != nil {
				fail("%s read back: %v", dir, err)
			}
			if !bytes.Equal(got, data) {
				fail("%s: %d bytes written, read back differs at %d", dir, len(data), firstDiff(got, data))
			}
		}
		if interleave {
			for i := 0; i < max(len(upWrites), len(downWrites)); i++ {
				if i < len(upWrites) {
					xfer("client->server", client, server, upWrites[i], upSizes)
				}
				if i < len(downWrites) {
					xfer("server->client", server, client, downWrites[i], downSizes)
				}
			}
		} else {
			// all writes of a direction first, then one chunked read-out:
			// read boundaries fall inside and across writes
			for _, w := range upWrites {
				if _, err := client.Write(w); err != nil {
					fail("client Write: %v", err)
				}
			}
			for _, w := range downWrites {
				if _, err := server.Write(w); err != nil {
					fail("server Write: %v", err)
				}
			}
			up, down := concat(upWrites), concat(downWrites)
			got, err := readExactly(server, len(up), upSizes)
			if err != nil || !bytes.Equal(got, up) {
				fail("client->server: %d bytes written in %d writes, read back err=%v differs at %d", len(up), len(upWrites), err, firstDiff(got, up))
			}
			got, err = readExactly(client, len(down), downSizes)
			if err != nil || !bytes.Equal(got, down) {
				fail("server->client: %d bytes written in %d writes, read back err=%v differs at %d", len(down), len(downWrites), err, firstDiff(got, down))
			}
		}

		if neighbour {
			got, err := readExactly(nbServer, len(nbSent), []int{4096})
			if err != nil || !bytes.Equal(got, nbSent) {
				fail("neighbour connection: %d bytes written (during this connection's writes), read back err=%v differs at %d", len(nbSent), err, firstDiff(got, nbSent))
			}
		}

		// the wire, by the reference key schedule
		tag, dc, plainUp, ok := ref.Obf2Open(c2s.buf, c.secret)
		if !ok {
			fail("wire shorter than 64 bytes")
		}
		if tag != c.tag || dc != int16(c.dc) {
			fail("reference key schedule decrypts the header to tag %x dc %d, want %x / %d", tag, dc, c.tag, int16(c.dc))
		}
		if !bytes.Equal(c2s.buf[:56], header[:56]) || !bytes.Equal(plainUp, concat(upWrites)) {
			fail("reference decryption of the client->server wire differs from the writes at %d", firstDiff(plainUp, concat(upWrites)))
		}
		plainDown := ref.Obf2OpenReply(header, c.secret, s2c.buf)
		if !bytes.Equal(plainDown, concat(downWrites)) {
			fail("reference decryption of the server->client wire differs from the writes at %d", firstDiff(plainDown, concat(downWrites)))
		}

		upN, downN := len(concat(upWrites)), len(concat(downWrites))
		inside := c2s.boundaryInsideWrite(64, upWrites) || s2c.boundaryInsideWrite(0, downWrites)
		nontrivial := upN > 0 && downN > 0 && inside
		cls := []string{"tag:" + c.tagClass, "secret:" + c.secClass, "chunks:" + pcUp + "/" + pcDown, fmt.Sprintf("interleave:%v", interleave)}
		switch {
		case c.dc >= 10000 || c.dc <= -10000:
			cls = append(cls, "dc:test+-10000")
		case c.dc < 0:
			cls = append(cls, "dc:negative")
		default:
			cls = append(cls, "dc:positive")
		}
		if c.nReserved > 0 {
			cls = append(cls, "rand:reserved-prefix-blocks")
		}
		if neighbour && len(nbSent) > 0 {
			cls = append(cls, "neighbour-connection-writes-meanwhile")
		}
		if upN > 0 && downN > 0 {
			cls = append(cls, "data-both-directions")
		}
		if inside {
			cls = append(cls, "read-boundary-inside-write")
		}
		key := fmt.Sprintf("%x/%d/%s/%x/%d/%s/%s/%v/%v/%v/%v", c.tag, c.dc, c.secClass, header[:8], c.nReserved, lenKey(upWrites), lenKey(downWrites), patUp, patDown, upSizes, downSizes)
		st.Case(key, nontrivial, fmt.Sprintf("tag=%x dc=%d secret=%s reserved=%d up=%s down=%s", c.tag, c.dc, c.secClass, c.nReserved, lenKey(upWrites), lenKey(downWrites)), cls...)
	})
}

// TestC18Listener: the same agreement through transport.ObfuscatedListener
// (transport/obfuscated.go): the accepted net.Conn yields the protocol tag
// first (one byte for abridged, four otherwise) followed by the client's data,
// and what the server writes decrypts with the reference server->client keys.
func TestC18Listener(t *testing.T) {
	st := pbt.NewStats("TestC18Listener")
	defer st.Flush()
	rapid.Check(t, func(t *rapid.T) {
		c := genObfCase(t)
		c.secret, c.secClass = nil, "nil" // the listener accepts without a secret
		upWrites := genWrites(t, "up")
		downWrites := genWrites(t, "down")
		patUp, _ := genPattern(t, "chunksUp", 0)
		patDown, _ := genPattern(t, "chunksDown", 0)
		upSizes := genReadSizes(t, "upReadSizes")
		downSizes := genReadSizes(t, "downReadSizes")

		clientRaw, serverRaw, c2s, s2c := memPair(patUp, patDown, false, 1024, 1024)
		fail := func(format string, a ...any) {
			t.Fatalf("tag=%x dc=%d reservedBlocks=%d: %s", c.tag, c.dc, c.nReserved, fmt.Sprintf(format, a...))
		}
		client := obfuscated2.NewObfuscated2(c.rnd, clientRaw)
		if err := client.Handshake(c.tag, c.dc, mtproxy.Secret{}); err != nil {
			fail("client Handshake: %v", err)
		}
		for _, w := range upWrites {
			if _, err := client.Write(w); err != nil {
				fail("client Write: %v", err)
			}
		}
		clientRaw.CloseWrite()
		conn, err := transport.ObfuscatedListener(newMemListener(serverRaw)).Accept()
		if err != nil {
			fail("listener Accept: %v", err)
		}
		wantTag := c.tag[:]
		if c.tag[0] == 0xef {
			wantTag = c.tag[:1]
		}
		up := append(append([]byte(nil), wantTag...), concat(upWrites)...)
		got, err := readExactly(conn, len(up), upSizes)
		if err != nil || !bytes.Equal(got, up) {
			fail("accepted conn: want tag %x + %d data bytes; err=%v, differs at %d (head %x)", wantTag, len(up)-len(wantTag), err, firstDiff(got, up), head(got, 8))
		}
		for _, w := range downWrites {
			if _, err := conn.Write(w); err != nil {
				fail("server Write: %v", err)
			}
		}
		down := concat(downWrites)
		got, err = readExactly(client, len(down), downSizes)
		if err != nil || !bytes.Equal(got, down) {
			fail("server->client: read back err=%v differs at %d", err, firstDiff(got, down))
		}
		wire := c2s.wire()
		if ref.Obf2Reserved(wire[:64]) {
			fail("header starts with a reserved pattern: %x", wire[:8])
		}
		if pd := ref.Obf2OpenReply(wire[:64], nil, s2c.wire()); !bytes.Equal(pd, down) {
			fail("reference decryption of the server->client wire differs at %d", firstDiff(pd, down))
		}
		_ = conn.Close()
		key := fmt.Sprintf("%x/%d/%x/%s/%s/%v/%v", c.tag, c.dc, wire[:8], lenKey(upWrites), lenKey(downWrites), patUp, patDown)
		st.Case(key, len(up) > len(wantTag) && len(down) > 0, fmt.Sprintf("tag=%x dc=%d up=%s down=%s", c.tag, c.dc, lenKey(upWrites), lenKey(downWrites)), "tag:"+c.tagClass)
	})
}
