package c_files

import (
	"bytes"
	"context"
	"fmt"
	"io"
	"sort"
	"strings"
	"sync"
	"testing"
	"testing/synctest"
	"time"

	"github.com/gotd/td/exchange"
	"github.com/gotd/td/telegram/downloader"
	"github.com/gotd/td/tg"
	"github.com/gotd/td/tgerr"
	"pgregory.net/rapid"

	"verifharness/pbt"
	"verifharness/pbt/ref"
)

// C34: verified and CDN downloads never deliver bytes that fail verification.
//
// Model. A genuine file (<= 4 MiB) with SHA-256 hash windows. The master DC
// and its hash service are honest (they are the trust anchor of the CDN
// protocol): getFileHashes / getCdnFileHashes / reuploadCdnFile /
// fileCdnRedirect.file_hashes answer with the true windows, up to `Batch`
// windows starting at the window that contains the asked offset, and at or
// beyond the end of the file with nothing or with the last window again.
// The last window's `limit` is either the real tail length or the nominal
// window size (both are generated). The CDN DC (modes cdn-*) and, in mode
// master-verify, the data path of the master are adversarial: a drawn set of
// mutations is applied to chunk replies. Honest-but-eventful behaviour:
// cdnFileReuploadNeeded, FILE_TOKEN_INVALID followed by a new redirect (new
// token, optionally new key / DC) or by the master serving the file itself
// for a while, fingerprint errors on client creation or on a request.

const (
	modeMasterVerify = "master-verify" // Download(...).WithVerify(true), no CDN
	modeCDNInline    = "cdn-inline"    // AllowCDN, default: inline verification of CDN chunks
	modeCDNVerify    = "cdn-verify"    // AllowCDN + WithVerify(true)

	sigShort = "C34/cdn-inline/short-cdn-reply-accepted-as-end-of-file"
	sigLong  = "C34/cdn-inline/over-long-cdn-reply-delivered"
	sigTail  = "C34/cdn-inline/bytes-past-verified-tail-delivered"
)

type hwin struct {
	off   int64
	n     int // real number of bytes hashed
	limit int // advertised limit
	hash  []byte
}

type mutation struct {
	Pos  int64 // file position: the mutation hits a data reply whose asked range contains it
	Nth  int   // ... the Nth such reply
	Kind string
	A, B int
}

type c34Cfg struct {
	Seed    uint64
	Size    int64
	Mode    string
	Part    int
	Threads int
	Stream  bool

	WinSizes       []int // nil: regular 128 KiB windows; else window sizes, cycled
	Nominal        bool  // last window advertises the nominal window size
	Batch          int
	EOFAgain       bool // hash service repeats the last window at end of file (else: empty)
	RedirectHashes int  // windows carried by fileCdnRedirect.file_hashes

	Direct         int  // master answers this many getFile calls itself before redirecting
	Reupload       bool // every new token first needs reuploadCdnFile
	TokenInvalidAt int  // the j-th CDN getFile call invalidates the token (-1: never)
	NewKey, NewDC  bool // the redirect after invalidation uses a new key / another DC
	Fallback       int  // after invalidation the master serves this many getFile calls itself
	FpCreate       int  // provider.CDN fails with a fingerprint error this many times
	FpAt           int  // the j-th CDN getFile call fails with a fingerprint error (-1: never)

	Muts      []mutation
	LatSpread int
	ReplyLat  int // CDN replies travel up to this many ms after the CDN produced them (0: none)
	Hold      bool  // the first CDN data reply covering HoldPos travels until the master has taken over
	HoldPos   int64
	BgSeed    uint64
}

func (c c34Cfg) String() string {
	out := "parallel"
	if c.Stream {
		out = "stream"
	}
	return fmt.Sprintf("size=%d %s part=%d thr=%d %s win=%v nominal=%v batch=%d eofAgain=%v rh=%d direct=%d reup=%v tokInv=%d newKey=%v newDC=%v fb=%d fpC=%d fpAt=%d muts=%v lat=%d",
		c.Size, c.Mode, c.Part, c.Threads, out, c.WinSizes, c.Nominal, c.Batch, c.EOFAgain, c.RedirectHashes, c.Direct,
		c.Reupload, c.TokenInvalidAt, c.NewKey, c.NewDC, c.Fallback, c.FpCreate, c.FpAt, c.Muts, c.LatSpread) + fmt.Sprintf(" replyLat=%d hold=%v@%d", c.ReplyLat, c.Hold, c.HoldPos)
}

type tokState struct {
	token    []byte
	key, iv  []byte
	dc       int
	valid    bool
	needReup bool
	reqToken []byte
}

type c34Server struct {
	c    c34Cfg
	file []byte
	wins []hwin
	loc  tg.InputFileLocationClass
	// gates for listed findings
	skipShort, skipLong, skipTail bool

	mu           sync.Mutex
	seq          int
	tokens       map[string]*tokState
	cur          *tokState
	tokSeq       int
	directLeft   int
	fallbackLeft int
	cdnCalls     int
	fpCreateLeft int
	fpDone       bool
	invDone      bool
	cdnLog       []ref.Range
	mutSeen      []int
	mutChanged   int
	mutKinds     map[string]int
	gated        map[string]int
	events       map[string]int
	violations   []string
	conns        int
	held         bool
}

func buildWindows(file []byte, sizes []int, nominal bool) []hwin {
	if len(sizes) == 0 {
		sizes = []int{ref.CDNHashWindow}
	}
	var w []hwin
	off := 0
	for i := 0; off < len(file); i++ {
		sz := sizes[i%len(sizes)]
		n := min(sz, len(file)-off)
		limit := n
		if nominal {
			limit = sz
		}
		w = append(w, hwin{off: int64(off), n: n, limit: limit, hash: ref.SHA256(file[off : off+n])})
		off += n
	}
	return w
}

func (s *c34Server) winIndex(pos int64) int {
	i := sort.Search(len(s.wins), func(i int) bool { return s.wins[i].off+int64(s.wins[i].n) > pos })
	if i < len(s.wins) && s.wins[i].off <= pos {
		return i
	}
	return -1
}

func (s *c34Server) hashesAt(offset int64) []tg.FileHash {
	i := s.winIndex(offset)
	var sel []hwin
	switch {
	case i >= 0:
		sel = s.wins[i:min(i+s.c.Batch, len(s.wins))]
	case s.c.EOFAgain && len(s.wins) > 0 && offset >= 0:
		sel = s.wins[len(s.wins)-1:]
	}
	out := make([]tg.FileHash, 0, len(sel))
	for _, w := range sel {
		out = append(out, tg.FileHash{Offset: w.off, Limit: w.limit, Hash: append([]byte(nil), w.hash...)})
	}
	return out
}

func (s *c34Server) bad(format string, a ...any) {
	if len(s.violations) < 4 {
		s.violations = append(s.violations, fmt.Sprintf(format, a...))
	}
}

// pause gives a call a virtual duration. It is used only by calls the client
// makes outside its own mutexes (getCdnFile, reuploadCdnFile, getFile in
// master-verify mode): a goroutine waiting for a sync.Mutex is not durably
// blocked, so a sleep under a contended client mutex (verifier.mux around the
// hash calls, refreshMux around the master probe, clientMux around CDN client
// creation) would stop the bubble's clock for good.
func (s *c34Server) pause() {
	s.mu.Lock()
	s.seq++
	n := s.seq
	s.mu.Unlock()
	lat := time.Duration(1+n%4096) * time.Nanosecond
	if s.c.LatSpread > 0 {
		lat += time.Duration(mix64(s.c.BgSeed+uint64(n))%uint64(s.c.LatSpread)) * time.Millisecond
	}
	time.Sleep(lat)
}

func (s *c34Server) plain(off int64, limit int) []byte {
	if off < 0 || off >= int64(len(s.file)) || limit <= 0 {
		return nil
	}
	return s.file[off:min(off+int64(limit), int64(len(s.file)))]
}

func garbage(seed uint64, n int) []byte {
	b := make([]byte, n)
	genFill(seed^0xabcdef, 12345, b)
	return b
}

// mutate builds the reply bytes for the asked range. enc(off, pt) is the
// honest encoding of plaintext pt placed at file offset off (identity for the
// master, AES-CTR for the CDN). Caller holds s.mu.
func (s *c34Server) mutate(offset int64, limit int, cdn bool, enc func(off int64, pt []byte) []byte) []byte {
	pt := s.plain(offset, limit)
	honest := enc(offset, pt)
	for i := range s.c.Muts {
		m := s.c.Muts[i]
		if m.Pos < offset || m.Pos >= offset+int64(limit) {
			continue
		}
		seen := s.mutSeen[i]
		s.mutSeen[i]++
		if seen != m.Nth {
			continue
		}
		out := s.applyMutation(m, offset, limit, pt, honest, cdn, enc)
		if out == nil {
			return honest // gated
		}
		if bytes.Equal(*out, honest) {
			return honest
		}
		if cdn && s.c.Mode == modeCDNInline {
			// Listed findings are excluded by shape, whatever mutation produced it.
			switch {
			case len(*out) < len(honest) && s.skipShort && s.shortAccepted(offset, len(*out)):
				s.gate(sigShort)
				return honest
			case len(*out) > limit && s.skipLong:
				s.gate(sigLong)
				return honest
			case len(*out) > len(honest) && len(*out) <= limit && s.c.Nominal && s.skipTail:
				// longer than the file's real tail, within the asked limit
				s.gate(sigTail)
				return honest
			}
		}
		s.mutChanged++
		s.mutKinds[m.Kind]++
		return *out
	}
	return honest
}

// shortAccepted is the shape of the listed finding sigShort: a CDN reply for
// the piece at `offset` that ends after n bytes (file position t) is taken for
// the end of the file when t is the start of the reader's chunk, lies on a
// hash-window boundary, or lies in a window that began before the chunk.
func (s *c34Server) shortAccepted(offset int64, n int) bool {
	t := offset + int64(n)
	chunkStart := offset / int64(s.c.Part) * int64(s.c.Part)
	wi := s.winIndex(t)
	return t == chunkStart || wi < 0 || s.wins[wi].off == t || s.wins[wi].off < chunkStart
}

func (s *c34Server) gate(sig string) *[]byte {
	s.gated[sig]++
	return nil
}

func (s *c34Server) applyMutation(m mutation, offset int64, limit int, pt, honest []byte, cdn bool, enc func(off int64, pt []byte) []byte) *[]byte {
	ret := func(b []byte) *[]byte { return &b }
	cutAt := func(cut int) *[]byte { return ret(append([]byte(nil), honest[:cut]...)) }
	otherOff := func() int64 {
		// another 4 KiB aligned offset that still has len(pt) bytes behind it
		slots := (int64(len(s.file))-int64(len(pt)))/ref.CDNMinChunk + 1
		o := (int64(m.B) % slots) * ref.CDNMinChunk
		if o == offset {
			o = (o + ref.CDNMinChunk) % (slots * ref.CDNMinChunk)
		}
		return o
	}
	switch m.Kind {
	case "flip":
		if len(honest) == 0 {
			return ret(honest)
		}
		out := append([]byte(nil), honest...)
		out[m.A%len(out)] ^= 1 << (m.B % 8)
		return ret(out)
	case "trunc":
		if len(honest) == 0 {
			return ret(honest)
		}
		return cutAt(m.A % len(honest))
	case "empty":
		if len(honest) == 0 {
			return ret(honest)
		}
		return cutAt(0)
	case "trunc-window":
		if len(honest) == 0 {
			return ret(honest)
		}
		cut := 0
		for _, w := range s.wins {
			if w.off > offset && w.off < offset+int64(len(honest)) {
				cut = int(w.off - offset) // keeps the largest
			}
		}
		return cutAt(cut)
	case "extend-genuine", "extend-garbage":
		extra := []int{1, 15, 16, 4096, ref.CDNHashWindow, s.c.Part, 1 + m.A%70000}[m.B%7]
		if m.Kind == "extend-genuine" {
			more := s.plain(offset, len(pt)+extra)
			if len(more) > len(pt) {
				return ret(enc(offset, more))
			}
		}
		return ret(append(append([]byte(nil), honest...), garbage(uint64(m.A), extra)...))
	case "other-ct":
		o := otherOff()
		return ret(enc(o, s.plain(o, len(pt))))
	case "other-pt":
		o := otherOff()
		return ret(enc(offset, s.plain(o, len(pt))))
	case "swap":
		p2 := append([]byte(nil), pt...)
		var in []hwin
		for _, w := range s.wins {
			if w.off >= offset && w.off+int64(w.n) <= offset+int64(len(pt)) {
				in = append(in, w)
			}
		}
		if len(in) >= 2 && in[0].n == in[1].n {
			a, b := int(in[0].off-offset), int(in[1].off-offset)
			n := in[0].n
			copy(p2[a:a+n], pt[b:b+n])
			copy(p2[b:b+n], pt[a:a+n])
		} else {
			h := len(pt) / 2
			copy(p2[:h], pt[len(pt)-h:])
			copy(p2[len(pt)-h:], pt[:h])
		}
		return ret(enc(offset, p2))
	case "ctr":
		if !cdn {
			out := append([]byte(nil), honest...)
			if len(out) > 0 {
				out[len(out)-1] ^= 0x80
			}
			return ret(out)
		}
		if m.B%2 == 0 {
			return ret(enc(offset*16, pt)) // counter = offset instead of offset/16
		}
		return ret(enc(offset+16*int64(1+m.A%4096), pt))
	}
	panic("mutation kind " + m.Kind)
}

// ---- master DC ----

func (s *c34Server) newToken() *tokState {
	s.tokSeq++
	t := &tokState{
		token: []byte(fmt.Sprintf("token-%d", s.tokSeq)),
		dc:    203,
		valid: true,
	}
	gen := 0
	if s.c.NewKey {
		gen = s.tokSeq
	}
	t.key = genBytes(s.c.Seed^0x1111, int64(gen)*64, 32)
	t.iv = genBytes(s.c.Seed^0x2222, int64(gen)*64, 16)
	if s.c.NewDC && s.tokSeq > 1 {
		t.dc = 203 + s.tokSeq
	}
	if s.c.Reupload {
		t.needReup = true
		t.reqToken = []byte(fmt.Sprintf("reup-%d", s.tokSeq))
	}
	s.tokens[string(t.token)] = t
	s.cur = t
	return t
}

func (s *c34Server) UploadGetFile(ctx context.Context, r *tg.UploadGetFileRequest) (tg.UploadFileClass, error) {
	if s.c.Mode == modeMasterVerify {
		s.pause() // reader.next calls the schema outside every lock
	}
	s.mu.Lock()
	defer s.mu.Unlock()
	if r.Location != s.loc {
		s.bad("getFile with a different location")
	}
	if s.c.Mode != modeMasterVerify && r.CDNSupported {
		switch {
		case s.directLeft > 0:
			s.directLeft--
			s.events["master-direct"]++
		case s.fallbackLeft > 0:
			s.fallbackLeft--
			s.events["master-fallback"]++
		default:
			t := s.cur
			if t == nil || !t.valid {
				t = s.newToken()
			}
			s.events["redirect"]++
			return &tg.UploadFileCDNRedirect{
				DCID: t.dc, FileToken: append([]byte(nil), t.token...),
				EncryptionKey: append([]byte(nil), t.key...), EncryptionIv: append([]byte(nil), t.iv...),
				FileHashes: s.redirectHashes(r.Offset),
			}, nil
		}
		// the master itself is honest
		return &tg.UploadFile{Type: &tg.StorageFileUnknown{}, Bytes: append([]byte(nil), s.plain(r.Offset, r.Limit)...)}, nil
	}
	var data []byte
	if s.c.Mode == modeMasterVerify {
		data = s.mutate(r.Offset, r.Limit, false, func(_ int64, pt []byte) []byte { return append([]byte(nil), pt...) })
	} else {
		data = append([]byte(nil), s.plain(r.Offset, r.Limit)...)
	}
	return &tg.UploadFile{Type: &tg.StorageFileUnknown{}, Bytes: data}, nil
}

func (s *c34Server) redirectHashes(offset int64) []tg.FileHash {
	if s.c.RedirectHashes == 0 {
		return nil
	}
	h := s.hashesAt(offset)
	if len(h) > s.c.RedirectHashes {
		h = h[:s.c.RedirectHashes]
	}
	return h
}

func (s *c34Server) UploadGetFileHashes(ctx context.Context, r *tg.UploadGetFileHashesRequest) ([]tg.FileHash, error) {
	s.mu.Lock()
	defer s.mu.Unlock()
	s.events["getFileHashes"]++
	return s.hashesAt(r.Offset), nil
}

func (s *c34Server) UploadGetCDNFileHashes(ctx context.Context, r *tg.UploadGetCDNFileHashesRequest) ([]tg.FileHash, error) {
	s.mu.Lock()
	defer s.mu.Unlock()
	s.events["getCdnFileHashes"]++
	t := s.tokens[string(r.FileToken)]
	if t == nil || !t.valid {
		return nil, tgerr.New(400, "FILE_TOKEN_INVALID")
	}
	return s.hashesAt(r.Offset), nil
}

func (s *c34Server) UploadReuploadCDNFile(ctx context.Context, r *tg.UploadReuploadCDNFileRequest) ([]tg.FileHash, error) {
	s.pause()
	s.mu.Lock()
	defer s.mu.Unlock()
	s.events["reupload"]++
	t := s.tokens[string(r.FileToken)]
	if t == nil || !t.valid {
		return nil, tgerr.New(400, "FILE_TOKEN_INVALID")
	}
	if !bytes.Equal(r.RequestToken, t.reqToken) {
		return nil, tgerr.New(400, "REQUEST_TOKEN_INVALID")
	}
	t.needReup = false
	return s.hashesAt(0), nil
}

func (s *c34Server) UploadGetWebFile(ctx context.Context, r *tg.UploadGetWebFileRequest) (*tg.UploadWebFile, error) {
	return nil, tgerr.New(400, "UNEXPECTED")
}

// ---- CDN DC ----

type cdnConn struct {
	s      *c34Server
	dc     int
	closed bool
}

func (c *cdnConn) Close() error {
	c.s.mu.Lock()
	c.closed = true
	c.s.mu.Unlock()
	return nil
}

// c34CDNClient adds the CDN provider to the master client (modes cdn-*).
type c34CDNClient struct{ *c34Server }

func (s c34CDNClient) CDN(ctx context.Context, dc int, max int64) (downloader.CDN, io.Closer, error) {
	s.mu.Lock()
	defer s.mu.Unlock()
	if s.fpCreateLeft > 0 {
		s.fpCreateLeft--
		s.events["fingerprint-create"]++
		return nil, nil, fmt.Errorf("cdn dc %d: %w", dc, exchange.ErrKeyFingerprintNotFound)
	}
	s.conns++
	c := &cdnConn{s: s.c34Server, dc: dc}
	return c, c, nil
}

// UploadGetCDNFile: the CDN produces its answer (cdnFile) and the answer then
// travels for a drawn time, during which other workers' calls are served: a
// reply produced under a token that was valid when the request arrived can
// reach the client after the token was revoked and the master took over.
func (c *cdnConn) UploadGetCDNFile(ctx context.Context, r *tg.UploadGetCDNFileRequest) (tg.UploadCDNFileClass, error) {
	resp, err := c.cdnFile(ctx, r)
	if hp := c.s.c.HoldPos; c.s.c.Hold && err == nil && r.Offset <= hp && hp < r.Offset+int64(r.Limit) {
		c.s.mu.Lock()
		first := !c.s.held
		c.s.held = true
		c.s.mu.Unlock()
		if _, isData := resp.(*tg.UploadCDNFile); first && isData {
			// in flight while the other workers go on: until the master has answered
			// two calls itself (the refresh probe and one more, i.e. the schema has
			// switched over), at most 5 virtual seconds
			for i := 0; i < 5000; i++ {
				c.s.mu.Lock()
				over := c.s.events["master-fallback"] >= 2
				c.s.mu.Unlock()
				if over {
					c.s.mu.Lock()
					c.s.events["reply-overtaken-by-fallback"]++
					c.s.mu.Unlock()
					break
				}
				time.Sleep(time.Millisecond)
			}
		}
	}
	if c.s.c.ReplyLat > 0 {
		c.s.mu.Lock()
		c.s.seq++
		n := c.s.seq
		c.s.mu.Unlock()
		time.Sleep(time.Duration(mix64(c.s.c.BgSeed^0x5eed+uint64(n))%uint64(c.s.c.ReplyLat))*time.Millisecond + time.Duration(n%4096)*time.Nanosecond)
	}
	return resp, err
}

func (c *cdnConn) cdnFile(ctx context.Context, r *tg.UploadGetCDNFileRequest) (tg.UploadCDNFileClass, error) {
	s := c.s
	s.pause()
	s.mu.Lock()
	defer s.mu.Unlock()
	j := s.cdnCalls
	s.cdnCalls++
	s.cdnLog = append(s.cdnLog, ref.Range{Offset: r.Offset, Limit: r.Limit})
	if err := ref.CDNRequestValid(r.Offset, r.Limit); err != nil {
		s.bad("invalid getCdnFile request: %v", err)
		return nil, tgerr.New(400, "LIMIT_INVALID")
	}
	if j == s.c.FpAt && !s.fpDone {
		s.fpDone = true
		s.events["fingerprint-request"]++
		return nil, fmt.Errorf("cdn request: %w", exchange.ErrKeyFingerprintNotFound)
	}
	t := s.tokens[string(r.FileToken)]
	if t != nil && t.valid && j >= s.c.TokenInvalidAt && s.c.TokenInvalidAt >= 0 && !s.invDone {
		s.invDone = true
		t.valid = false
		s.fallbackLeft = s.c.Fallback
		s.events["token-invalidated"]++
	}
	if t == nil || !t.valid {
		return nil, tgerr.New(400, "FILE_TOKEN_INVALID")
	}
	if t.dc != c.dc {
		s.bad("file token of DC %d used on a connection to DC %d", t.dc, c.dc)
	}
	if t.needReup {
		s.events["reupload-needed"]++
		return &tg.UploadCDNFileReuploadNeeded{RequestToken: append([]byte(nil), t.reqToken...)}, nil
	}
	data := s.mutate(r.Offset, r.Limit, true, func(off int64, pt []byte) []byte { return ref.CDNCrypt(t.key, t.iv, off, pt) })
	return &tg.UploadCDNFile{Bytes: data}, nil
}

// ---- output ----

type capWriter struct {
	mu    sync.Mutex
	buf   []byte
	spans []span
}

func (w *capWriter) Write(p []byte) (int, error) {
	w.buf = append(w.buf, p...)
	return len(p), nil
}

func (w *capWriter) WriteAt(p []byte, off int64) (int, error) {
	w.mu.Lock()
	defer w.mu.Unlock()
	if end := int(off) + len(p); end > len(w.buf) {
		w.buf = append(w.buf, make([]byte, end-len(w.buf))...)
	}
	copy(w.buf[off:], p)
	w.spans = append(w.spans, span{off, off + int64(len(p))})
	return len(p), nil
}

// holes reports the first never-written range below size (parallel mode).
func (w *capWriter) holes(size int64) string {
	sp := append([]span(nil), w.spans...)
	sort.Slice(sp, func(i, j int) bool { return sp[i].off < sp[j].off })
	cur := int64(0)
	for _, s := range sp {
		if s.off > cur {
			break
		}
		cur = max(cur, s.end)
	}
	if cur < size {
		return fmt.Sprintf("bytes from %d on were never written", cur)
	}
	return ""
}

type c34Outcome struct {
	Err        error
	MutChanged int
	MutKinds   map[string]int
	Events     map[string]int
	Gated      map[string]int
	CDNReqs    int
	Exempt     bool
}

// runC34 must run inside a bubble; it returns "" when the property holds.
func runC34(c c34Cfg, skipShort, skipLong, skipTail bool) (c34Outcome, string) {
	file := genBytes(c.Seed, 0, int(c.Size))
	srv := &c34Server{
		c: c, file: file, wins: buildWindows(file, c.WinSizes, c.Nominal),
		loc:       &tg.InputDocumentFileLocation{ID: 1, AccessHash: 2, FileReference: []byte{3}},
		skipShort: skipShort, skipLong: skipLong, skipTail: skipTail,
		tokens: map[string]*tokState{}, directLeft: c.Direct, fpCreateLeft: c.FpCreate,
		mutSeen: make([]int, len(c.Muts)), mutKinds: map[string]int{}, gated: map[string]int{}, events: map[string]int{},
	}
	d := downloader.NewDownloader().WithPartSize(c.Part)
	var b *downloader.Builder
	switch c.Mode {
	case modeMasterVerify:
		b = d.Download(srv, srv.loc).WithVerify(true)
	case modeCDNInline:
		b = d.WithAllowCDN(true).Download(c34CDNClient{srv}, srv.loc)
	case modeCDNVerify:
		b = d.WithAllowCDN(true).Download(c34CDNClient{srv}, srv.loc).WithVerify(true)
	}
	b = b.WithThreads(c.Threads)
	w := &capWriter{}
	var err error
	if c.Stream {
		_, err = b.Stream(context.Background(), w)
	} else {
		_, err = b.Parallel(context.Background(), w)
	}
	o := c34Outcome{Err: err, MutChanged: srv.mutChanged, MutKinds: srv.mutKinds, Events: srv.events, Gated: srv.gated, CDNReqs: len(srv.cdnLog)}
	if len(srv.violations) > 0 {
		return o, srv.violations[0]
	}
	if err != nil {
		if srv.mutChanged == 0 {
			// An honest run may only be refused for one reason: the hash service
			// advertises the real (not 4 KiB aligned) tail length as the last
			// window's limit and the client turns that limit into a CDN request.
			last := hwin{}
			if len(srv.wins) > 0 {
				last = srv.wins[len(srv.wins)-1]
			}
			if c.Mode != modeMasterVerify && !c.Nominal && last.limit%ref.CDNMinChunk != 0 && strings.Contains(err.Error(), "must be divisible by 4096") {
				o.Exempt = true
				return o, ""
			}
			return o, fmt.Sprintf("honest servers, download failed: %v", err)
		}
		return o, ""
	}
	// completed: the output must be the genuine file
	if !c.Stream {
		if m := w.holes(c.Size); m != "" {
			return o, "download completed but " + m + fmt.Sprintf(" (file size %d)", c.Size)
		}
	}
	if !bytes.Equal(w.buf, file) {
		what := "differs from the genuine file"
		switch {
		case len(w.buf) < len(file) && bytes.Equal(w.buf, file[:len(w.buf)]):
			what = fmt.Sprintf("is a strict prefix (%d of %d bytes) of the genuine file", len(w.buf), len(file))
		case len(w.buf) > len(file):
			what = fmt.Sprintf("has %d bytes, the genuine file %d", len(w.buf), len(file))
		}
		return o, fmt.Sprintf("download completed without error but the output %s (mutations that changed a reply: %v)", what, srv.mutKinds)
	}
	return o, ""
}

// ---- generator ----

var c34Kinds = []string{"flip", "trunc", "trunc-window", "empty", "extend-genuine", "extend-garbage", "other-ct", "other-pt", "swap", "ctr"}

// part sizes: divisible by 4 KiB (Downloader.WithPartSize contract); both the
// values getCdnFile accepts directly and values that need a request plan.
var c34Parts = []int{4 * kib, 8 * kib, 12 * kib, 16 * kib, 32 * kib, 64 * kib, 100 * kib, 128 * kib, 132 * kib, 256 * kib, 384 * kib, 512 * kib, 1020 * kib, 1 * mib}

func genC34Cfg(t *rapid.T) c34Cfg {
	var c c34Cfg
	c.Seed = rapid.Uint64().Draw(t, "contentSeed")
	c.Mode = rapid.SampledFrom([]string{modeCDNInline, modeCDNInline, modeCDNInline, modeCDNVerify, modeMasterVerify}).Draw(t, "mode")
	c.Part = rapid.SampledFrom(c34Parts).Draw(t, "part")
	c.Threads = rapid.IntRange(1, 4).Draw(t, "threads")
	c.Stream = rapid.Bool().Draw(t, "stream")
	// hash windows
	unit := int64(ref.CDNHashWindow)
	if rapid.IntRange(0, 2).Draw(t, "winStyle") == 2 {
		n := rapid.IntRange(1, 4).Draw(t, "nWin")
		for i := 0; i < n; i++ {
			c.WinSizes = append(c.WinSizes, 4*kib*rapid.IntRange(1, 48).Draw(t, "win"))
		}
		unit = int64(c.WinSizes[0])
	}
	c.Nominal = rapid.Bool().Draw(t, "nominal")
	c.Batch = rapid.IntRange(1, 8).Draw(t, "batch")
	c.EOFAgain = rapid.Bool().Draw(t, "eofAgain")
	c.RedirectHashes = rapid.IntRange(0, 3).Draw(t, "redirectHashes")
	// size <= 4 MiB, around multiples of the part size / the window size
	switch rapid.SampledFrom([]string{"part", "window", "uniform", "aligned4k"}).Draw(t, "sizeClass") {
	case "part":
		c.Size = around(t, int64(c.Part), int(min(int64(10), 4*mib/int64(c.Part))))
	case "window":
		c.Size = around(t, unit, int(min(int64(12), 4*mib/unit)))
	case "uniform":
		c.Size = int64(rapid.IntRange(1, 1*mib+300*kib).Draw(t, "size"))
	case "aligned4k":
		c.Size = 4 * kib * int64(rapid.IntRange(1, 300).Draw(t, "size4k"))
	}
	if c.Size < 1 && c.Mode != modeMasterVerify {
		c.Size = 1 // a CDN redirect for an empty file makes no sense
	}
	if c.Mode != modeMasterVerify {
		c.Direct = rapid.SampledFrom([]int{0, 0, 0, 1, 2}).Draw(t, "direct")
		c.TokenInvalidAt, c.FpAt = -1, -1
		if rapid.IntRange(0, 2).Draw(t, "eventful") == 2 {
			c.Reupload = rapid.Bool().Draw(t, "reupload")
			if rapid.Bool().Draw(t, "tokInv") {
				c.TokenInvalidAt = rapid.IntRange(0, 6).Draw(t, "tokInvAt")
				c.NewKey = rapid.Bool().Draw(t, "newKey")
				c.NewDC = rapid.Bool().Draw(t, "newDC")
				c.Fallback = rapid.SampledFrom([]int{0, 0, 1, 3, 1 << 20}).Draw(t, "fallback") // 1<<20: the master stops redirecting for good
			}
			c.FpCreate = rapid.SampledFrom([]int{0, 0, 1, 2}).Draw(t, "fpCreate")
			if rapid.IntRange(0, 3).Draw(t, "fpReq") == 3 {
				c.FpAt = rapid.IntRange(0, 6).Draw(t, "fpAt")
			}
		}
	}
	// adversary
	nm := rapid.SampledFrom([]int{1, 1, 1, 2, 2, 3, 0}).Draw(t, "nMut")
	for i := 0; i < nm && c.Size > 0; i++ {
		m := mutation{
			Kind: rapid.SampledFrom(c34Kinds).Draw(t, "mKind"),
			Nth:  rapid.SampledFrom([]int{0, 0, 0, 1}).Draw(t, "mNth"),
			A:    rapid.IntRange(0, 1<<20).Draw(t, "mA"),
			B:    rapid.IntRange(0, 1<<16).Draw(t, "mB"),
		}
		switch rapid.IntRange(0, 2).Draw(t, "mPosClass") {
		case 0:
			m.Pos = int64(rapid.IntRange(0, int(c.Size-1)).Draw(t, "mPos"))
		case 1:
			m.Pos = min(int64(rapid.IntRange(0, 8).Draw(t, "mPosK"))*int64(c.Part), c.Size-1)
		case 2:
			m.Pos = max(c.Size-1-int64(rapid.IntRange(0, c.Part).Draw(t, "mFromEnd")), 0)
		}
		c.Muts = append(c.Muts, m)
	}
	c.LatSpread = rapid.SampledFrom([]int{0, 0, 20, 500}).Draw(t, "latSpread")
	if c.Mode != modeMasterVerify {
		c.ReplyLat = rapid.SampledFrom([]int{0, 0, 30, 800}).Draw(t, "replyLat")
	}
	c.BgSeed = rapid.Uint64().Draw(t, "bgSeed")
	if c.Mode != modeMasterVerify && rapid.IntRange(0, 5).Draw(t, "overtake") == 0 {
		// scenario class built directly (it needs five things at once): several
		// workers, the token revoked after a few CDN calls, the master serving the
		// file itself from then on, and a tampered CDN reply that was produced
		// before the revocation but arrives after the hand-over
		c.Threads = rapid.IntRange(2, 4).Draw(t, "otThreads")
		c.TokenInvalidAt = rapid.IntRange(1, 3).Draw(t, "otInvAt")
		c.Fallback = rapid.SampledFrom([]int{2, 3, 1 << 20}).Draw(t, "otFallback")
		if c.Size < 4*int64(c.Part) {
			c.Size = min(int64(c.Part)*int64(rapid.IntRange(4, 8).Draw(t, "otParts"))+int64(rapid.IntRange(0, c.Part-1).Draw(t, "otTail")), 6*mib)
		}
		if len(c.Muts) == 0 {
			c.Muts = []mutation{{Kind: rapid.SampledFrom([]string{"flip", "other-pt", "other-ct", "swap", "ctr"}).Draw(t, "otKind"), A: rapid.IntRange(0, 1<<20).Draw(t, "otA"), B: rapid.IntRange(0, 1<<16).Draw(t, "otB")}}
		}
		c.Muts[0].Nth = 0
		c.Muts[0].Pos = int64(rapid.IntRange(0, int(min(2*int64(c.Part), c.Size)-1)).Draw(t, "otPos"))
		c.Hold, c.HoldPos = true, c.Muts[0].Pos
	} else if c.TokenInvalidAt >= 0 && c.Fallback > 0 && rapid.Bool().Draw(t, "hold") {
		// a reply produced before the token was revoked arrives after the master
		// took over; preferably the reply the adversary tampered with
		c.Hold = true
		if len(c.Muts) > 0 && rapid.Bool().Draw(t, "holdMutated") {
			c.HoldPos = c.Muts[0].Pos
		} else {
			c.HoldPos = int64(rapid.IntRange(0, int(c.Size-1)).Draw(t, "holdPos"))
		}
	}
	return c
}

func c34Classes(c c34Cfg, o c34Outcome) []string {
	cl := []string{"mode=" + c.Mode, fmt.Sprintf("threads=%d", c.Threads)}
	if c.Stream {
		cl = append(cl, "out=stream")
	} else {
		cl = append(cl, "out=parallel")
	}
	if c.WinSizes == nil {
		cl = append(cl, "windows=128KiB")
		if c.Part%ref.CDNHashWindow == 0 {
			cl = append(cl, "part:window-multiple")
		} else if ref.CDNHashWindow%c.Part == 0 {
			cl = append(cl, "part:window-divisor")
		} else {
			cl = append(cl, "part:unaligned")
		}
	} else {
		cl = append(cl, "windows=irregular")
	}
	if c.Nominal {
		cl = append(cl, "lastlimit=nominal")
	} else {
		cl = append(cl, "lastlimit=real")
	}
	if o.Err != nil {
		cl = append(cl, "result=error")
	} else {
		cl = append(cl, "result=complete")
	}
	if o.MutChanged == 0 {
		cl = append(cl, "servers=honest")
	} else {
		cl = append(cl, "servers=adversarial")
		if o.Err == nil {
			cl = append(cl, "adversarial+complete(repaired-or-unused)")
		}
	}
	for k := range o.MutKinds {
		cl = append(cl, "mut="+k)
	}
	for _, k := range []string{"master-direct", "master-fallback", "token-invalidated", "reupload-needed", "fingerprint-create", "fingerprint-request", "reply-overtaken-by-fallback"} {
		if o.Events[k] > 0 {
			cl = append(cl, "event="+k)
		}
	}
	if o.Exempt {
		cl = append(cl, "honest-refused:unaligned-real-tail-limit")
	}
	if o.CDNReqs > 0 {
		cl = append(cl, "cdn-requests>0")
	}
	sort.Strings(cl)
	return cl
}

func TestC34(t *testing.T) { testC34(t, "TestC34") }

// TestC34Parallel: the same property with several Ps (GOMAXPROCS=4).
func TestC34Parallel(t *testing.T) { testC34(t, "TestC34Parallel") }

func testC34(t *testing.T, name string) {
	st := pbt.NewStats(name)
	defer st.Flush()
	skipShort, skipLong, skipTail := pbt.Known("C34", sigShort), pbt.Known("C34", sigLong), pbt.Known("C34", sigTail)
	rapid.Check(t, func(t *rapid.T) {
		rapid.SyncTest(t, func(t *rapid.T) {
			c := genC34Cfg(t)
			o, bad := runC34(c, skipShort, skipLong, skipTail)
			if bad != "" {
				t.Fatalf("%s\ncase: %s", bad, c)
			}
			for sig, n := range o.Gated {
				for i := 0; i < n; i++ {
					st.Excluded(sig)
				}
			}
			st.Case(c.String(), o.MutChanged > 0, c.String(), c34Classes(c, o)...)
		})
	})
}

// ---- regressions for the defects found by TestC34 (fail on the pinned tree) ----

func c34Regression(t *testing.T, sig string, cases []c34Cfg) {
	for i, c := range cases {
		if c.Batch == 0 {
			c.Batch = 4
		}
		if c.Threads == 0 {
			c.Threads = 1
		}
		c.TokenInvalidAt, c.FpAt = -1, -1
		t.Run(fmt.Sprintf("case%d", i), func(t *testing.T) {
			synctest.Test(t, func(t *testing.T) {
				o, bad := runC34(c, false, false, false)
				if bad != "" {
					if pbt.Known("C34", sig) {
						// listed as known: report, do not fail the run
						pbt.ReportKnown("C34", sig, bad)
						return
					}
					t.Errorf("%s\ncase: %s", bad, c)
					return
				}
				if o.MutChanged == 0 {
					t.Errorf("harness: the mutation was not applied; case: %s", c)
				}
			})
		})
	}
}

// A CDN reply that stops early is taken for the end of the file: the download
// "completes" with a prefix of the file and no error.
func TestC34Regression_short_cdn_reply_accepted(t *testing.T) {
	c34Regression(t, sigShort, []c34Cfg{
		// 1-byte file, the CDN answers with nothing
		{Seed: 1, Size: 1, Mode: modeCDNInline, Part: 4 * kib, Muts: []mutation{{Pos: 0, Kind: "empty"}}},
		// default part size 512 KiB, 1 MiB file, first reply cut at the 384 KiB window boundary
		{Seed: 2, Size: 1 * mib, Mode: modeCDNInline, Part: 512 * kib, Stream: true, Muts: []mutation{{Pos: 0, Kind: "trunc-window"}}},
		// part smaller than the hash window: second chunk starts inside window 0 and is cut to 10 bytes
		{Seed: 3, Size: 256 * kib, Mode: modeCDNInline, Part: 64 * kib, Muts: []mutation{{Pos: 64 * kib, Nth: 1, Kind: "trunc", A: 10}}},
	})
}

// A CDN reply longer than the asked limit is delivered: in stream mode the
// extra bytes are written and then written again by the next chunk.
func TestC34Regression_overlong_cdn_reply_delivered(t *testing.T) {
	c34Regression(t, sigLong, []c34Cfg{
		{Seed: 4, Size: 8 * kib, Mode: modeCDNInline, Part: 4 * kib, Stream: true, Muts: []mutation{{Pos: 0, Kind: "extend-genuine", B: 0}}},
	})
}

// With the last window advertising the nominal limit, bytes appended after the
// real end of the file are delivered unverified when the chunk starts inside
// that window.
func TestC34Regression_bytes_past_verified_tail(t *testing.T) {
	c34Regression(t, sigTail, []c34Cfg{
		{Seed: 5, Size: 20 * kib, Mode: modeCDNInline, Part: 16 * kib, Nominal: true, Muts: []mutation{{Pos: 16 * kib, Nth: 1, Kind: "extend-garbage", A: 7, B: 0}}},
	})
}
