package c_files

import (
	"bytes"
	"encoding/binary"
	"fmt"
	"os"
)

// ---- deterministic file content: byte = f(seed, offset), no backing buffer ----

func mix64(x uint64) uint64 {
	x += 0x9e3779b97f4a7c15
	x = (x ^ (x >> 30)) * 0xbf58476d1ce4e5b9
	x = (x ^ (x >> 27)) * 0x94d049bb133111eb
	return x ^ (x >> 31)
}

// genFill writes the content bytes [off, off+len(p)) of the file named by seed.
// Word k (bytes 8k..8k+7, little endian) is mix64(seed + k).
func genFill(seed uint64, off int64, p []byte) {
	i := 0
	for i < len(p) {
		o := off + int64(i)
		k := uint64(o >> 3)
		w := mix64(seed + k)
		r := int(o & 7)
		if r == 0 && len(p)-i >= 8 {
			binary.LittleEndian.PutUint64(p[i:], w)
			i += 8
			continue
		}
		var tmp [8]byte
		binary.LittleEndian.PutUint64(tmp[:], w)
		i += copy(p[i:], tmp[r:])
	}
}

// genBytes returns content bytes [off, off+n).
func genBytes(seed uint64, off int64, n int) []byte {
	p := make([]byte, n)
	genFill(seed, off, p)
	return p
}

// genEqual reports whether p equals the content at [off, off+len(p)); scratch
// is a reusable buffer (any size >= 8).
func genEqual(seed uint64, off int64, p, scratch []byte) bool {
	for len(p) > 0 {
		n := min(len(p), len(scratch))
		genFill(seed, off, scratch[:n])
		if !bytes.Equal(scratch[:n], p[:n]) {
			return false
		}
		p = p[n:]
		off += int64(n)
	}
	return true
}

// firstDiff returns the first index where p differs from content at off (-1 if equal).
func firstDiff(seed uint64, off int64, p []byte) int {
	var b [1]byte
	for i := range p {
		genFill(seed, off+int64(i), b[:])
		if b[0] != p[i] {
			return i
		}
	}
	return -1
}

func thorough() bool { return os.Getenv("VERIF_TIER") == "thorough" }

func sizeClass(size, part int64) string {
	switch {
	case size == 0:
		return "size=0"
	case size < part:
		return "size<part"
	case size%part == 0:
		return "size=k*part"
	case size%part == 1:
		return "size=k*part+1"
	case size%part == part-1:
		return "size=k*part-1"
	}
	return "size=other"
}

func human(n int64) string {
	switch {
	case n >= 1<<20 && n%(1<<20) == 0:
		return fmt.Sprintf("%dMiB", n>>20)
	case n >= 1<<10 && n%(1<<10) == 0:
		return fmt.Sprintf("%dKiB", n>>10)
	}
	return fmt.Sprint(n)
}
