package c_files

import (
	"context"
	"fmt"
	"net"
	"sort"
	"sync"
	"testing"
	"testing/synctest"
	"time"

	"github.com/gotd/td/telegram/downloader"
	"github.com/gotd/td/tg"
	"github.com/gotd/td/tgerr"
	"pgregory.net/rapid"

	"verifharness/pbt"
)

// C33: plain downloads (no verification, no CDN) reproduce the remote file.
//
// Domain: an honest master DC holding `size` bytes that answers every
// upload.getFile with min(limit, size-offset) bytes (nothing at or beyond the
// end) and one fixed storage type, or with one of the transient failures the
// property names: FLOOD_WAIT_n / FLOOD_PREMIUM_WAIT_n, the RPC "Timeout"
// error, context.DeadlineExceeded from the RPC layer, or a network timeout
// (net.Error with Timeout()). Part sizes are the values upload.getFile allows
// (divisible by 4 KiB, dividing 1 MiB). Replies arrive after drawn virtual
// latencies, so with several threads they complete out of order.

type dlFault struct {
	Chunk   int // request offset / part size
	Attempt int
	Kind    int // 1 FLOOD_WAIT 2 FLOOD_PREMIUM_WAIT 3 rpc Timeout 4 DeadlineExceeded 5 net timeout 6 wrapped net timeout
	Arg     int
}

type netTimeout struct{}

func (netTimeout) Error() string   { return "i/o timeout" }
func (netTimeout) Timeout() bool   { return true }
func (netTimeout) Temporary() bool { return true }

func dlFaultErr(kind, arg int) error {
	switch kind {
	case 1:
		return tgerr.New(420, fmt.Sprintf("FLOOD_WAIT_%d", arg))
	case 2:
		return tgerr.New(420, fmt.Sprintf("FLOOD_PREMIUM_WAIT_%d", arg))
	case 3:
		return tgerr.New(-503, "Timeout")
	case 4:
		return fmt.Errorf("rpc invoke: %w", context.DeadlineExceeded)
	case 5:
		return netTimeout{}
	case 6:
		return fmt.Errorf("read: %w", &net.OpError{Op: "read", Net: "tcp", Err: netTimeout{}})
	}
	panic("kind")
}

type dlReq struct {
	Offset  int64
	Limit   int
	Attempt int
	Kind    int
}

type plainServer struct {
	seed      uint64
	size      int64
	part      int
	typ       tg.StorageFileTypeClass
	loc       tg.InputFileLocationClass
	faults    map[[2]int]dlFault
	bgRate    uint64
	bgSeed    uint64
	latSpread int // max extra latency in ms

	mu         sync.Mutex
	attempts   map[int64]int
	reqs       []dlReq
	violations []string
	// cancelAt > 0: the caller's context is cancelled when the cancelAt-th request arrives
	cancelAt int
	cancel   func()
	seen     int
}

func (s *plainServer) bad(format string, a ...any) {
	s.mu.Lock()
	if len(s.violations) < 4 {
		s.violations = append(s.violations, fmt.Sprintf(format, a...))
	}
	s.mu.Unlock()
}

func (s *plainServer) UploadGetFile(ctx context.Context, r *tg.UploadGetFileRequest) (tg.UploadFileClass, error) {
	s.mu.Lock()
	attempt := s.attempts[r.Offset]
	s.attempts[r.Offset] = attempt + 1
	s.seen++
	if s.cancelAt > 0 && s.seen == s.cancelAt {
		s.cancel()
	}
	s.mu.Unlock()
	if r.Limit != s.part || r.Offset < 0 || r.Offset%int64(s.part) != 0 {
		s.bad("getFile offset=%d limit=%d is off the part grid (part size %d)", r.Offset, r.Limit, s.part)
	}
	if r.Location != s.loc {
		s.bad("getFile with a different location")
	}
	if r.CDNSupported {
		s.bad("getFile with cdn_supported although CDN was not enabled")
	}
	chunk := int(r.Offset / int64(max(s.part, 1)))
	f, ok := s.faults[[2]int{chunk, attempt}]
	if !ok && s.bgRate > 0 && attempt < 3 {
		h := mix64(s.bgSeed ^ uint64(chunk)<<20 ^ uint64(attempt))
		if h&255 < s.bgRate {
			f = dlFault{Chunk: chunk, Attempt: attempt, Kind: 1 + int((h>>8)%6), Arg: int((h >> 16) % 6)}
			ok = true
		}
	}
	// unique virtual latency per (chunk, attempt): see upServer.call
	lat := time.Duration(1+(chunk%100000)*8+attempt%8) * time.Nanosecond
	if s.latSpread > 0 {
		lat += time.Duration(mix64(s.bgSeed+uint64(chunk)*7+uint64(attempt))%uint64(s.latSpread)) * time.Millisecond
	}
	time.Sleep(lat)
	rec := dlReq{Offset: r.Offset, Limit: r.Limit, Attempt: attempt}
	if ok {
		rec.Kind = f.Kind
	}
	s.mu.Lock()
	s.reqs = append(s.reqs, rec)
	s.mu.Unlock()
	if ok {
		return nil, dlFaultErr(f.Kind, f.Arg)
	}
	var data []byte
	if r.Offset < s.size {
		data = genBytes(s.seed, r.Offset, int(min(int64(r.Limit), s.size-r.Offset)))
	}
	return &tg.UploadFile{Type: s.typ, Mtime: 1700000000, Bytes: data}, nil
}

func (s *plainServer) UploadGetFileHashes(ctx context.Context, r *tg.UploadGetFileHashesRequest) ([]tg.FileHash, error) {
	s.bad("unexpected getFileHashes in a plain download")
	return nil, tgerr.New(400, "UNEXPECTED")
}
func (s *plainServer) UploadReuploadCDNFile(ctx context.Context, r *tg.UploadReuploadCDNFileRequest) ([]tg.FileHash, error) {
	s.bad("unexpected reuploadCdnFile in a plain download")
	return nil, tgerr.New(400, "UNEXPECTED")
}
func (s *plainServer) UploadGetCDNFileHashes(ctx context.Context, r *tg.UploadGetCDNFileHashesRequest) ([]tg.FileHash, error) {
	s.bad("unexpected getCdnFileHashes in a plain download")
	return nil, tgerr.New(400, "UNEXPECTED")
}
func (s *plainServer) UploadGetWebFile(ctx context.Context, r *tg.UploadGetWebFileRequest) (*tg.UploadWebFile, error) {
	s.bad("unexpected getWebFile in a plain download")
	return nil, tgerr.New(400, "UNEXPECTED")
}

// ---- writers ----

// seqWriter checks a sequential byte stream against the file on the fly.
type seqWriter struct {
	seed  uint64
	off   int64
	bad   string
	buf   []byte
	calls int
}

func (w *seqWriter) Write(p []byte) (int, error) {
	w.calls++
	if w.buf == nil {
		w.buf = make([]byte, 64*kib)
	}
	if w.bad == "" && !genEqual(w.seed, w.off, p, w.buf) {
		w.bad = fmt.Sprintf("stream write #%d (%d bytes) at stream position %d differs from the file, first at +%d", w.calls, len(p), w.off, firstDiff(w.seed, w.off, p))
	}
	w.off += int64(len(p))
	return len(p), nil
}

type span struct{ off, end int64 }

// sparseWriter records every WriteAt and checks its bytes against the file.
type sparseWriter struct {
	mu    sync.Mutex
	seed  uint64
	spans []span
	bad   string
	buf   []byte
}

func (w *sparseWriter) WriteAt(p []byte, off int64) (int, error) {
	w.mu.Lock()
	defer w.mu.Unlock()
	if w.buf == nil {
		w.buf = make([]byte, 64*kib)
	}
	if w.bad == "" && !genEqual(w.seed, off, p, w.buf) {
		w.bad = fmt.Sprintf("WriteAt(%d bytes, off=%d) differs from the file, first at +%d", len(p), off, firstDiff(w.seed, off, p))
	}
	w.spans = append(w.spans, span{off, off + int64(len(p))})
	return len(p), nil
}

// coverage returns "" when the spans cover [0,size) exactly once.
func (w *sparseWriter) coverage(size int64) string {
	sp := append([]span(nil), w.spans...)
	sort.Slice(sp, func(i, j int) bool { return sp[i].off < sp[j].off })
	cur := int64(0)
	for _, s := range sp {
		switch {
		case s.off > cur:
			return fmt.Sprintf("gap: bytes [%d,%d) never written", cur, s.off)
		case s.off < cur:
			return fmt.Sprintf("duplicate: bytes [%d,%d) written twice", s.off, min(cur, s.end))
		}
		cur = s.end
	}
	if cur != size {
		return fmt.Sprintf("written length %d, file size %d", cur, size)
	}
	return ""
}

// ---- one download ----

type dlCfg struct {
	Seed      uint64
	Size      int64
	Part      int
	Threads   int
	Stream    bool
	TypeIdx   int
	Faults    []dlFault
	BgRate    uint64
	BgSeed    uint64
	LatSpread int
	// Prior: the Downloader (and its buffer pool) has been used before, for
	// another file: "done" = that download completed, "cancelled" = its
	// context was cancelled at its PriorCancelAt-th request.
	Prior         string
	PriorSize     int64
	PriorCancelAt int
}

func (c dlCfg) String() string {
	mode := "parallel"
	if c.Stream {
		mode = "stream"
	}
	prior := ""
	if c.Prior != "" {
		prior = fmt.Sprintf(" prior=%s/%d/%d", c.Prior, c.PriorSize, c.PriorCancelAt)
	}
	return fmt.Sprintf("size=%d part=%d thr=%d %s type=%d faults=%v bg=%d/%x lat=%d%s", c.Size, c.Part, c.Threads, mode, c.TypeIdx, c.Faults, c.BgRate, c.BgSeed, c.LatSpread, prior)
}

var dlTypes = []tg.StorageFileTypeClass{
	&tg.StorageFileJpeg{}, &tg.StorageFilePng{}, &tg.StorageFileUnknown{}, &tg.StorageFilePartial{}, &tg.StorageFileMp4{}, &tg.StorageFilePdf{},
}

// WithPartSize documents "divisible by 4KB" and nothing else: sizes that do not divide 1 MiB are in
// the domain (seeded change C33d needs one, with a file that crosses a 1 MiB boundary).
var dlParts = []int{4 * kib, 8 * kib, 16 * kib, 32 * kib, 64 * kib, 128 * kib, 256 * kib, 512 * kib, 1 * mib, 12 * kib, 160 * kib, 384 * kib, 768 * kib}

type dlOutcome struct {
	Retries int
	Floods  int
	Reqs    int
}

// runDownload must run inside a bubble. It returns "" when the property holds.
func runDownload(c dlCfg) (dlOutcome, string) {
	var o dlOutcome
	loc := &tg.InputDocumentFileLocation{ID: 10, AccessHash: 20, FileReference: []byte{1, 2, 3}}
	srv := &plainServer{
		seed: c.Seed, size: c.Size, part: c.Part, typ: dlTypes[c.TypeIdx], loc: loc,
		faults: map[[2]int]dlFault{}, bgRate: c.BgRate, bgSeed: c.BgSeed, latSpread: c.LatSpread,
		attempts: map[int64]int{},
	}
	for _, f := range c.Faults {
		srv.faults[[2]int{f.Chunk, f.Attempt}] = f
	}
	d := downloader.NewDownloader().WithPartSize(c.Part)
	if c.Prior != "" {
		loc2 := &tg.InputDocumentFileLocation{ID: 11, AccessHash: 21, FileReference: []byte{4, 5}}
		pseed := c.Seed ^ 0x5bd1e995a5a5a5a5
		psrv := &plainServer{seed: pseed, size: c.PriorSize, part: c.Part, typ: dlTypes[0], loc: loc2, faults: map[[2]int]dlFault{}, attempts: map[int64]int{}}
		pctx, cancel := context.WithCancel(context.Background())
		if c.Prior == "cancelled" {
			psrv.cancelAt, psrv.cancel = max(c.PriorCancelAt, 1), cancel
		}
		pb := d.Download(psrv, loc2).WithThreads(c.Threads)
		var perr error
		var pbad string
		if c.Stream {
			w := &seqWriter{seed: pseed}
			_, perr = pb.Stream(pctx, w)
			pbad = w.bad
		} else {
			w := &sparseWriter{seed: pseed}
			_, perr = pb.Parallel(pctx, w)
			pbad = w.bad
		}
		cancel()
		synctest.Wait()
		if pbad != "" {
			return o, "prior download on the same Downloader: " + pbad
		}
		if len(psrv.violations) > 0 {
			return o, "prior download on the same Downloader: " + psrv.violations[0]
		}
		if c.Prior == "done" && perr != nil {
			return o, fmt.Sprintf("prior download on the same Downloader failed without any fault: %v", perr)
		}
	}
	b := d.Download(srv, loc).WithThreads(c.Threads)
	var typ tg.StorageFileTypeClass
	var err error
	var sw *seqWriter
	var pw *sparseWriter
	if c.Stream {
		sw = &seqWriter{seed: c.Seed}
		typ, err = b.Stream(context.Background(), sw)
	} else {
		pw = &sparseWriter{seed: c.Seed}
		typ, err = b.Parallel(context.Background(), pw)
	}
	for _, r := range srv.reqs {
		switch r.Kind {
		case 0:
		case 1, 2:
			o.Floods++
			o.Retries++
		default:
			o.Retries++
		}
	}
	o.Reqs = len(srv.reqs)
	if len(srv.violations) > 0 {
		return o, srv.violations[0]
	}
	if err != nil {
		return o, fmt.Sprintf("download failed although every failure was a flood wait or retryable timeout: %v", err)
	}
	if c.Stream {
		if sw.bad != "" {
			return o, sw.bad
		}
		if sw.off != c.Size {
			return o, fmt.Sprintf("stream wrote %d bytes, file has %d", sw.off, c.Size)
		}
	} else {
		if pw.bad != "" {
			return o, pw.bad
		}
		if m := pw.coverage(c.Size); m != "" {
			return o, m
		}
	}
	if typ == nil || typ.TypeID() != dlTypes[c.TypeIdx].TypeID() {
		return o, fmt.Sprintf("reported file type %v, served %v", typ, dlTypes[c.TypeIdx])
	}
	return o, ""
}

func genDlCfg(t *rapid.T) dlCfg {
	var c dlCfg
	c.Seed = rapid.Uint64().Draw(t, "contentSeed")
	c.Part = rapid.SampledFrom(dlParts).Draw(t, "part")
	c.Threads = rapid.IntRange(1, 8).Draw(t, "threads")
	c.Stream = rapid.IntRange(0, 2).Draw(t, "mode") == 0
	c.TypeIdx = rapid.IntRange(0, len(dlTypes)-1).Draw(t, "type")
	maxK := int(min(int64(12), 8*mib/int64(c.Part)))
	switch rapid.SampledFrom([]string{"around", "around", "around", "exact", "uniform", "tiny"}).Draw(t, "sizeClass") {
	case "around":
		c.Size = around(t, int64(c.Part), maxK)
	case "exact":
		c.Size = int64(rapid.IntRange(0, maxK).Draw(t, "k")) * int64(c.Part)
	case "uniform":
		c.Size = int64(rapid.IntRange(0, maxK*c.Part).Draw(t, "size"))
	case "tiny":
		c.Size = int64(rapid.IntRange(0, 3).Draw(t, "size"))
	}
	n := int(ceilDiv(c.Size, int64(c.Part))) + 1 // chunks the client will ask for, including the probe past the end
	nf := rapid.SampledFrom([]int{0, 1, 1, 2, 3, 6}).Draw(t, "nFaults")
	for i := 0; i < nf; i++ {
		f := dlFault{
			Attempt: rapid.IntRange(0, 2).Draw(t, "fAttempt"),
			Kind:    rapid.IntRange(1, 6).Draw(t, "fKind"),
			Arg:     rapid.IntRange(0, 20).Draw(t, "fArg"),
		}
		if rapid.Bool().Draw(t, "fTail") {
			f.Chunk = max(n-1-rapid.IntRange(0, 2).Draw(t, "fFromEnd"), 0)
		} else {
			f.Chunk = rapid.IntRange(0, n+c.Threads).Draw(t, "fChunk")
		}
		for a := 0; a < f.Attempt; a++ {
			c.Faults = append(c.Faults, dlFault{Chunk: f.Chunk, Attempt: a, Kind: 1 + (f.Kind+a)%6, Arg: a})
		}
		c.Faults = append(c.Faults, f)
	}
	if rapid.IntRange(0, 3).Draw(t, "bg") == 3 {
		c.BgRate = rapid.SampledFrom([]uint64{8, 32, 96}).Draw(t, "bgRate")
	}
	c.BgSeed = rapid.Uint64().Draw(t, "bgSeed")
	c.LatSpread = rapid.SampledFrom([]int{0, 5, 50, 3000}).Draw(t, "latSpread")
	// the Downloader has a history in a third of the cases
	switch rapid.SampledFrom([]string{"", "", "", "", "done", "cancelled"}).Draw(t, "prior") {
	case "done":
		c.Prior = "done"
		c.PriorSize = int64(rapid.IntRange(1, (maxK+2)*c.Part).Draw(t, "priorSize"))
	case "cancelled":
		c.Prior = "cancelled"
		c.PriorSize = int64(rapid.IntRange(c.Part, (maxK+2)*c.Part).Draw(t, "priorSize"))
		c.PriorCancelAt = rapid.IntRange(1, int(ceilDiv(c.PriorSize, int64(c.Part)))+1).Draw(t, "priorCancelAt")
	}
	return c
}

func TestC33(t *testing.T) { testC33(t, "TestC33") }

// TestC33Parallel: the same property with several Ps (the driver sets
// GOMAXPROCS=4): the download workers really overlap. Time is the bubble's.
func TestC33Parallel(t *testing.T) { testC33(t, "TestC33Parallel") }

func testC33(t *testing.T, name string) {
	st := pbt.NewStats(name)
	defer st.Flush()
	rapid.Check(t, func(t *rapid.T) {
		rapid.SyncTest(t, func(t *rapid.T) {
			c := genDlCfg(t)
			o, bad := runDownload(c)
			if bad != "" {
				t.Fatalf("%s\ncase: %s", bad, c)
			}
			multi := !c.Stream && c.Threads >= 2
			nontrivial := c.Size%int64(c.Part) == 0 || (multi && o.Retries >= 1)
			cl := []string{sizeClass(c.Size, int64(c.Part)), fmt.Sprintf("part=%s", human(int64(c.Part)))}
			if c.Stream {
				cl = append(cl, "mode=stream")
			} else {
				cl = append(cl, "mode=parallel", fmt.Sprintf("threads=%d", c.Threads))
			}
			switch {
			case o.Retries == 0:
				cl = append(cl, "retry=none")
			default:
				if o.Floods > 0 {
					cl = append(cl, "retry=flood")
				}
				if o.Retries > o.Floods {
					cl = append(cl, "retry=timeout")
				}
			}
			if multi && o.Retries >= 1 {
				cl = append(cl, "threads>=2+retry")
			}
			if c.LatSpread > 0 && multi {
				cl = append(cl, "scrambled-latency")
			}
			if c.Prior != "" {
				cl = append(cl, "downloader-used-before="+c.Prior)
			}
			st.Case(c.String(), nontrivial, c.String(), cl...)
		})
	})
}
