package c_files

import (
	"context"
	"encoding/json"
	"errors"
	"fmt"
	"io"
	"os"
	"path/filepath"
	"runtime"
	"sync"
	"sync/atomic"
	"testing"

	"github.com/gotd/td/telegram/downloader"
	"github.com/gotd/td/tg"
	"github.com/gotd/td/tgerr"

	"verifharness/pbt"
	"verifharness/pbt/ref"
)

// TestC34Plan: the CDN request plan, exhaustively over the 4 KiB grid.
//
// The planner (buildCDNRequestPlan) is unexported, so it is driven through
// the public API and observed at the request recorder: a download with
// AllowCDN + WithVerify(true) asks the schema for exactly the ranges the hash
// service announces. The service announces one window (offset, limit); the
// master redirects; the CDN records every getCdnFile request and answers it
// with `limit` bytes, so the client walks its whole plan. (The announced hash
// is all zeros, hence the download ends with a hash mismatch after the plan
// has been executed - the plan, not the outcome, is what is observed.)
//
// Oracle (ref.CDNPlanCovers): every request is a valid getCdnFile range
// (offset % 4096 == 0, limit % 4096 == 0, 1 MiB % limit == 0, no 1 MiB
// boundary crossed) and the requests tile [offset, offset+limit) in order.

var planZeros = make([]byte, ref.CDNMaxChunk)

type planServer struct {
	offset int64
	limit  int
	reqs   []ref.Range
	master int
}

func (s *planServer) UploadGetFile(ctx context.Context, r *tg.UploadGetFileRequest) (tg.UploadFileClass, error) {
	s.master++
	if !r.CDNSupported {
		return nil, tgerr.New(400, "UNEXPECTED_NO_CDN")
	}
	return &tg.UploadFileCDNRedirect{DCID: 203, FileToken: []byte("t"), EncryptionKey: planZeros[:32], EncryptionIv: planZeros[:16]}, nil
}
func (s *planServer) UploadGetFileHashes(ctx context.Context, r *tg.UploadGetFileHashesRequest) ([]tg.FileHash, error) {
	if r.Offset == 0 {
		return []tg.FileHash{{Offset: s.offset, Limit: s.limit, Hash: planZeros[:32]}}, nil
	}
	return nil, nil
}
func (s *planServer) UploadGetCDNFileHashes(ctx context.Context, r *tg.UploadGetCDNFileHashesRequest) ([]tg.FileHash, error) {
	return nil, nil
}
func (s *planServer) UploadReuploadCDNFile(ctx context.Context, r *tg.UploadReuploadCDNFileRequest) ([]tg.FileHash, error) {
	return nil, tgerr.New(400, "UNEXPECTED")
}
func (s *planServer) UploadGetWebFile(ctx context.Context, r *tg.UploadGetWebFileRequest) (*tg.UploadWebFile, error) {
	return nil, tgerr.New(400, "UNEXPECTED")
}
func (s *planServer) CDN(ctx context.Context, dc int, max int64) (downloader.CDN, io.Closer, error) {
	return s, io.NopCloser(nil), nil
}
func (s *planServer) UploadGetCDNFile(ctx context.Context, r *tg.UploadGetCDNFileRequest) (tg.UploadCDNFileClass, error) {
	s.reqs = append(s.reqs, ref.Range{Offset: r.Offset, Limit: r.Limit})
	n := r.Limit
	if n < 0 || n > len(planZeros) {
		// not a valid request anyway (recorded; the oracle reports it)
		return nil, tgerr.New(400, "LIMIT_INVALID")
	}
	return &tg.UploadCDNFile{Bytes: planZeros[:n]}, nil
}

// planOnce returns the recorded CDN requests for one asked range.
func planOnce(offset int64, limit int) ([]ref.Range, error) {
	s := &planServer{offset: offset, limit: limit}
	// part size only sizes the client's scratch pool here (verifier mode asks
	// for the announced windows); keep it small, the default costs 512 KiB per case.
	_, err := downloader.NewDownloader().WithPartSize(ref.CDNMinChunk).WithAllowCDN(true).
		Download(s, &tg.InputDocumentFileLocation{ID: 1}).WithVerify(true).
		Stream(context.Background(), io.Discard)
	return s.reqs, err
}

func TestC34Plan(t *testing.T) {
	st := pbt.NewStats("TestC34Plan")
	defer st.Flush()
	// Every plan makes the client allocate, decrypt and hash `limit` bytes
	// (~110 GB for the 600 x 300 grid), so the quick tier enumerates a smaller
	// complete grid: every offset residue modulo 1 MiB (and 16 offsets into the
	// second MiB) with every limit up to 544 KiB, which includes all ranges
	// that cross one 1 MiB boundary. The thorough tier enumerates the design's
	// grid (limits beyond 1 MiB, ranges crossing two boundaries).
	maxOff, maxLim := 272, 136
	if thorough() {
		maxOff, maxLim = 600, 300
	}
	if g := os.Getenv("VERIF_PLAN_GRID"); g != "" {
		if _, err := fmt.Sscanf(g, "%dx%d", &maxOff, &maxLim); err != nil {
			t.Fatalf("VERIF_PLAN_GRID=%q: %v", g, err)
		}
	}
	type job struct{ o, l int }
	jobs := make(chan job, 1024)
	var mu sync.Mutex
	var failures []string
	var cases, total atomic.Int64
	workers := runtime.GOMAXPROCS(0)
	var wg sync.WaitGroup
	for w := 0; w < workers; w++ {
		wg.Add(1)
		go func() {
			defer wg.Done()
			for j := range jobs {
				offset, limit := int64(j.o)*ref.CDNMinChunk, j.l*ref.CDNMinChunk
				reqs, err := planOnce(offset, limit)
				bad := ""
				if perr := ref.CDNPlanCovers(reqs, offset, limit); perr != nil {
					bad = perr.Error()
				} else if !errors.Is(err, downloader.ErrHashMismatch) {
					bad = fmt.Sprintf("harness expectation: download should end with the hash mismatch, got %v", err)
				}
				cases.Add(1)
				total.Add(int64(len(reqs)))
				cl := []string{"plan:single-request"}
				if len(reqs) > 1 {
					cl[0] = "plan:multi-request"
				}
				if offset/ref.CDNMaxChunk != (offset+int64(limit)-1)/ref.CDNMaxChunk {
					cl = append(cl, "range-crosses-1MiB")
				}
				if bad == "" {
					// non-trivial: the asked range is not itself one valid request
					st.Case(fmt.Sprintf("%d,%d", j.o, j.l), len(reqs) > 1, fmt.Sprintf("offset=%d limit=%d -> %d requests", offset, limit, len(reqs)), cl...)
				}
				if bad != "" {
					mu.Lock()
					if len(failures) < 10 {
						failures = append(failures, fmt.Sprintf("offset=%d limit=%d: %s; requests=%v", offset, limit, bad, reqs))
					}
					mu.Unlock()
				}
			}
		}()
	}
	for o := 0; o < maxOff; o++ {
		for l := 1; l <= maxLim; l++ {
			jobs <- job{o, l}
		}
	}
	close(jobs)
	wg.Wait()
	st.Set("exhaustive", true)
	st.Set("grid", fmt.Sprintf("offset in 4096*[0,%d) x limit in 4096*[1,%d]", maxOff, maxLim))
	st.Set("cdn_requests_observed", total.Load())
	st.Set("grid_points", cases.Load())
	if len(failures) > 0 {
		if dir := os.Getenv("VERIF_REPLAY_DIR"); dir != "" {
			b, _ := json.MarshalIndent(failures, "", " ")
			_ = os.MkdirAll(dir, 0o755)
			_ = os.WriteFile(filepath.Join(dir, "TestC34Plan.json"), b, 0o644)
		}
		for _, f := range failures {
			t.Error(f)
		}
	}
}
