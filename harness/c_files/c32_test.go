package c_files

import (
	"context"
	"crypto/md5"
	"encoding/hex"
	"fmt"
	"io"
	"sort"
	"sync"
	"sync/atomic"
	"testing"
	"testing/synctest"
	"time"

	"github.com/gotd/td/telegram/uploader"
	"github.com/gotd/td/tg"
	"github.com/gotd/td/tgerr"
	"pgregory.net/rapid"

	"verifharness/pbt"
)

// C32: uploads split the source into a complete, well-formed part sequence.
//
// Domain (what real callers can produce): a reader that yields exactly `size`
// bytes (possibly in short reads, EOF either together with the last bytes or
// on a separate call - both legal io.Reader behaviours), a total that is the
// true size or -1 (Uploader.FromReader), an explicit part size or none, 1..8
// threads, and a server that answers every save*FilePart call with true,
// false, FLOOD_WAIT_n or FLOOD_PREMIUM_WAIT_n (the answers the property names).

const (
	kib           = 1024
	mib           = 1024 * 1024
	upBigLimit    = 10 * mib  // saveBigFilePart is for files above 10 MB
	upPartsLimit  = 3999      // the limit the property states
	upMaxPartSize = 512 * kib // 524288 % part_size == 0
	upAutoThresh  = 3999 * 128 * kib
)

func validPartSize(p int) bool { return p > 0 && p%1024 == 0 && upMaxPartSize%p == 0 }

func ceilDiv(a, b int64) int64 { return (a + b - 1) / b }

// ---- source ----

type genSource struct {
	seed    uint64
	size    int64
	off     int64
	maxRead int    // upper bound for bytes per Read (short reads); 0 = unlimited
	rseed   uint64 // varies the short-read pattern
	eofWith bool   // return io.EOF together with the final bytes
	calls   int
	eofSeen *atomic.Bool
}

func (s *genSource) Read(p []byte) (int, error) {
	s.calls++
	if s.off >= s.size {
		s.eofSeen.Store(true)
		return 0, io.EOF
	}
	if len(p) == 0 {
		return 0, nil
	}
	n := len(p)
	if s.maxRead > 0 {
		n = min(n, 1+int(mix64(s.rseed+uint64(s.calls))%uint64(s.maxRead)))
	}
	if int64(n) > s.size-s.off {
		n = int(s.size - s.off)
	}
	genFill(s.seed, s.off, p[:n])
	s.off += int64(n)
	if s.off == s.size && s.eofWith {
		// An EOF delivered together with bytes that exactly fill the caller's
		// buffer is legitimately dropped by io.ReadFull-style callers, which
		// then learn about the end from the next (0, EOF): only count the EOF
		// as "reported" when the caller cannot have missed it.
		if n < len(p) {
			s.eofSeen.Store(true)
		}
		return n, io.EOF
	}
	return n, nil
}

// sum64 is the 64-bit content hash stored per request.
func sum64(b []byte) uint64 {
	h := uint64(1469598103934665603) ^ uint64(len(b))
	i := 0
	for ; i+8 <= len(b); i += 8 {
		w := uint64(b[i]) | uint64(b[i+1])<<8 | uint64(b[i+2])<<16 | uint64(b[i+3])<<24 |
			uint64(b[i+4])<<32 | uint64(b[i+5])<<40 | uint64(b[i+6])<<48 | uint64(b[i+7])<<56
		h = mix64(h ^ w)
	}
	for ; i < len(b); i++ {
		h = mix64(h ^ uint64(b[i]) ^ 0xff00)
	}
	return h
}

// ---- server ----

type upFault struct {
	Part, Attempt int
	Kind          int // 1 false, 2 FLOOD_WAIT, 3 FLOOD_PREMIUM_WAIT
	Arg           int
}

type upReq struct {
	Big        bool
	FileID     int64
	Part       int
	Len        int
	Sum        uint64
	TotalParts int
	Attempt    int
	Kind       int // 0 = accepted (true)
	// KnownBefore: the previous attempt for this part returned a flood wait
	// after the source had reported EOF. The flood sleep (>= 1 s of virtual
	// time) lets every runnable goroutine reach a blocking point, so whatever
	// the uploader does on EOF has happened before this request was built.
	KnownBefore bool
}

type upServer struct {
	faults  map[[2]int]upFault
	bgRate  uint64 // background fault probability in 1/256
	bgSeed  uint64
	latency bool
	eofSeen *atomic.Bool

	mu              sync.Mutex
	attempts        map[int]int
	knownAfterFlood map[int]bool
	reqs            []upReq
	violations      []string
}

func (s *upServer) call(big bool, fileID int64, part, totalParts int, data []byte) (bool, error) {
	s.mu.Lock()
	attempt := s.attempts[part]
	s.attempts[part] = attempt + 1
	knownBefore := s.knownAfterFlood[part]
	s.mu.Unlock()

	sum := sum64(data) // what a real client would serialise now

	f, ok := s.faults[[2]int{part, attempt}]
	if !ok && s.bgRate > 0 && attempt < 4 {
		h := mix64(s.bgSeed ^ uint64(part)<<20 ^ uint64(attempt))
		if h&255 < s.bgRate {
			f = upFault{Part: part, Attempt: attempt, Kind: 1 + int((h>>8)%3), Arg: int((h >> 16) % 8)}
			ok = true
		}
	}
	// Every call takes some virtual time, unique per (part, attempt): timers of
	// different calls never fire at the same instant, and because virtual time
	// only moves when every goroutine of the bubble is durably blocked, all
	// other goroutines have reached a blocking point when the sleep returns.
	// This makes "had the source reported EOF by now" a deterministic function
	// of the case instead of a race between goroutines.
	lat := time.Duration(1+(part%100000)*8+attempt%8) * time.Nanosecond
	if s.latency {
		lat += time.Duration(mix64(s.bgSeed+uint64(part)*7+uint64(attempt))%50) * time.Millisecond
	}
	time.Sleep(lat)
	// The request buffer must be stable while the call is in flight (the RPC
	// layer may serialise or retransmit it any time before the call returns).
	if sum64(data) != sum {
		s.mu.Lock()
		s.violations = append(s.violations, fmt.Sprintf("part %d attempt %d: request bytes changed while the call was in flight", part, attempt))
		s.mu.Unlock()
	}

	r := upReq{Big: big, FileID: fileID, Part: part, Len: len(data), Sum: sum, TotalParts: totalParts, Attempt: attempt, KnownBefore: knownBefore}
	var err error
	res := true
	if ok {
		r.Kind = f.Kind
		switch f.Kind {
		case 1:
			res = false
		case 2:
			res, err = false, tgerr.New(420, fmt.Sprintf("FLOOD_WAIT_%d", f.Arg))
		case 3:
			res, err = false, tgerr.New(420, fmt.Sprintf("FLOOD_PREMIUM_WAIT_%d", f.Arg))
		}
	}
	s.mu.Lock()
	s.reqs = append(s.reqs, r)
	s.knownAfterFlood[part] = err != nil && s.eofSeen.Load()
	s.mu.Unlock()
	return res, err
}

func (s *upServer) UploadSaveFilePart(ctx context.Context, r *tg.UploadSaveFilePartRequest) (bool, error) {
	return s.call(false, r.FileID, r.FilePart, 0, r.Bytes)
}

func (s *upServer) UploadSaveBigFilePart(ctx context.Context, r *tg.UploadSaveBigFilePartRequest) (bool, error) {
	return s.call(true, r.FileID, r.FilePart, r.FileTotalParts, r.Bytes)
}

// upSwitch lets one Uploader talk to different servers in turn.
type upSwitch struct {
	cur interface {
		UploadSaveFilePart(ctx context.Context, r *tg.UploadSaveFilePartRequest) (bool, error)
		UploadSaveBigFilePart(ctx context.Context, r *tg.UploadSaveBigFilePartRequest) (bool, error)
	}
}

func (s *upSwitch) UploadSaveFilePart(ctx context.Context, r *tg.UploadSaveFilePartRequest) (bool, error) {
	return s.cur.UploadSaveFilePart(ctx, r)
}

func (s *upSwitch) UploadSaveBigFilePart(ctx context.Context, r *tg.UploadSaveBigFilePartRequest) (bool, error) {
	return s.cur.UploadSaveBigFilePart(ctx, r)
}

// upPrior serves the upload that precedes the one under test.
type upPrior struct{ fail bool }

func (p *upPrior) UploadSaveFilePart(ctx context.Context, r *tg.UploadSaveFilePartRequest) (bool, error) {
	if p.fail {
		return false, tgerr.New(400, "FILE_PART_INVALID")
	}
	return true, nil
}

func (p *upPrior) UploadSaveBigFilePart(ctx context.Context, r *tg.UploadSaveBigFilePartRequest) (bool, error) {
	return p.UploadSaveFilePart(ctx, nil)
}

// ---- one upload ----

type upCfg struct {
	Seed    uint64
	Size    int64
	Known   bool // total passed to NewUpload is Size (true) or -1
	Part    int  // explicit part size; 0 = automatic
	Threads int
	MaxRead int
	RSeed   uint64
	EOFWith bool
	Faults  []upFault
	BgRate  uint64
	BgSeed  uint64
	Latency bool
	FileID  int64
	// Prior: an upload made with the same Uploader before the one under test:
	// "" none, "failed" a small upload the server refused after its first part,
	// "ok" a small upload that went through
	Prior string
}

func (c upCfg) String() string {
	return fmt.Sprintf("size=%d known=%v part=%d thr=%d maxRead=%d eofWith=%v faults=%v bg=%d/%x lat=%v prior=%q",
		c.Size, c.Known, c.Part, c.Threads, c.MaxRead, c.EOFWith, c.Faults, c.BgRate, c.BgSeed, c.Latency, c.Prior)
}

const upName = "verif.bin"

// runUpload must be called inside a synctest bubble.
func runUpload(c upCfg) (*upServer, tg.InputFileClass, error) {
	eof := new(atomic.Bool)
	srv := &upServer{
		faults: map[[2]int]upFault{}, bgRate: c.BgRate, bgSeed: c.BgSeed, latency: c.Latency, eofSeen: eof,
		attempts: map[int]int{}, knownAfterFlood: map[int]bool{},
	}
	for _, f := range c.Faults {
		srv.faults[[2]int{f.Part, f.Attempt}] = f
	}
	src := &genSource{seed: c.Seed, size: c.Size, maxRead: c.MaxRead, rseed: c.RSeed, eofWith: c.EOFWith, eofSeen: eof}
	sw := &upSwitch{}
	u := uploader.NewUploader(sw).WithThreads(c.Threads).
		WithIDGenerator(func() (int64, error) { return c.FileID, nil })
	if c.Prior != "" {
		// an Uploader is made once and used for many files: whatever an earlier
		// upload left behind (a failed one in particular) is not part of this one
		sw.cur = &upPrior{fail: c.Prior == "failed"}
		psrc := &genSource{seed: c.Seed ^ 0x9e37, size: 3000, maxRead: 1 << 20, rseed: 1, eofWith: true, eofSeen: new(atomic.Bool)}
		_, perr := u.Upload(context.Background(), uploader.NewUpload("prior.bin", psrc, 3000))
		if (perr != nil) != (c.Prior == "failed") {
			return srv, nil, fmt.Errorf("harness: prior upload (%s) ended with %v", c.Prior, perr)
		}
	}
	sw.cur = srv
	if c.Part != 0 {
		u = u.WithPartSize(c.Part)
	}
	total := int64(-1)
	if c.Known {
		total = c.Size
	}
	f, err := u.Upload(context.Background(), uploader.NewUpload(upName, src, total))
	return srv, f, err
}

type upOutcome struct {
	N          int
	P          int
	Retries    int
	Floods     int
	Falses     int
	Refused    bool
	Big        bool
	JudgedTP   int // requests whose FileTotalParts was judged
	Suppressed string
}

// checkUpload is the oracle. It returns "" when the run satisfies the property.
func checkUpload(c upCfg, srv *upServer, file tg.InputFileClass, err error, skipTotalPartsExact bool) (upOutcome, string) {
	var o upOutcome
	if len(srv.violations) > 0 {
		return o, srv.violations[0]
	}
	reqs := srv.reqs
	for _, r := range reqs {
		switch r.Kind {
		case 1:
			o.Falses++
		case 2, 3:
			o.Floods++
		}
	}
	o.Retries = o.Falses + o.Floods
	big := !c.Known || c.Size > upBigLimit
	o.Big = big

	if c.Part != 0 && !validPartSize(c.Part) {
		// Documented contract of WithPartSize / checkPartSize: refused.
		if err == nil {
			return o, fmt.Sprintf("invalid explicit part size %d was not refused", c.Part)
		}
		if len(reqs) != 0 {
			return o, fmt.Sprintf("invalid explicit part size %d: %d requests were sent before refusing", c.Part, len(reqs))
		}
		o.Refused = true
		return o, ""
	}

	if err != nil {
		// The only refusal a valid configuration may meet: a small file whose
		// explicit part size would need more than 3999 parts.
		if c.Part != 0 && c.Known && !big && ceilDiv(c.Size, int64(c.Part)) > upPartsLimit {
			if len(reqs) != 0 {
				return o, fmt.Sprintf("refused (%v) after sending %d requests", err, len(reqs))
			}
			o.Refused = true
			return o, ""
		}
		return o, fmt.Sprintf("upload failed: %v", err)
	}

	// accepted parts
	type partInfo struct {
		len      int
		sum      uint64
		accepted int
		afterAcc bool
	}
	parts := map[int]*partInfo{}
	var fileID int64
	for i, r := range reqs {
		if i == 0 {
			fileID = r.FileID
		}
		if r.FileID != fileID {
			return o, fmt.Sprintf("request for part %d uses file id %d, earlier requests %d", r.Part, r.FileID, fileID)
		}
		if r.Big != big {
			return o, fmt.Sprintf("part %d sent with big=%v, file kind by the 10 MiB rule is big=%v (size %d known=%v)", r.Part, r.Big, big, c.Size, c.Known)
		}
		p := parts[r.Part]
		if p == nil {
			p = &partInfo{len: r.Len, sum: r.Sum}
			parts[r.Part] = p
		} else {
			if p.accepted > 0 {
				return o, fmt.Sprintf("part %d sent again after it had been accepted", r.Part)
			}
			if p.len != r.Len || p.sum != r.Sum {
				return o, fmt.Sprintf("part %d attempt %d: retransmission differs (len %d sum %x, first len %d sum %x)", r.Part, r.Attempt, r.Len, r.Sum, p.len, p.sum)
			}
		}
		if r.Kind == 0 {
			p.accepted++
		}
	}
	n := len(parts)
	o.N = n
	idx := make([]int, 0, n)
	for k := range parts {
		idx = append(idx, k)
	}
	sort.Ints(idx)
	for i, k := range idx {
		if k != i {
			return o, fmt.Sprintf("part numbers are not 0..n-1: position %d holds part %d (n=%d)", i, k, n)
		}
		if parts[k].accepted != 1 {
			return o, fmt.Sprintf("part %d accepted %d times", k, parts[k].accepted)
		}
	}
	// part size
	P := c.Part
	if P == 0 {
		if n >= 1 {
			P = parts[0].len
		}
		if n >= 2 && !validPartSize(P) {
			return o, fmt.Sprintf("automatic part size %d is not a valid part size", P)
		}
	}
	o.P = P
	var total int64
	for i := 0; i < n; i++ {
		p := parts[i]
		if i < n-1 && p.len != P {
			return o, fmt.Sprintf("part %d of %d has length %d, part size is %d", i, n, p.len, P)
		}
		if p.len < 1 || p.len > P {
			return o, fmt.Sprintf("part %d of %d has length %d (part size %d)", i, n, p.len, P)
		}
		total += int64(p.len)
	}
	if total != c.Size {
		return o, fmt.Sprintf("parts hold %d bytes, source has %d", total, c.Size)
	}
	// content: part i must be source[i*P, i*P+len)
	buf := make([]byte, 0, 512*kib)
	for i := 0; i < n; i++ {
		p := parts[i]
		if cap(buf) < p.len {
			buf = make([]byte, p.len)
		}
		b := buf[:p.len]
		genFill(c.Seed, int64(i)*int64(P), b)
		if sum64(b) != p.sum {
			return o, fmt.Sprintf("part %d (len %d) does not hold source bytes [%d,%d)", i, p.len, int64(i)*int64(P), int64(i)*int64(P)+int64(p.len))
		}
	}
	// automatic sizing
	if c.Part == 0 && c.Known && c.Size <= int64(upPartsLimit)*upMaxPartSize && n > upPartsLimit {
		return o, fmt.Sprintf("automatic part size %d gives %d parts for %d bytes; a valid part size with <= 3999 parts exists", P, n, c.Size)
	}
	// descriptor
	switch f := file.(type) {
	case *tg.InputFile:
		if big {
			return o, fmt.Sprintf("InputFile returned for size %d known=%v (big by the 10 MiB rule)", c.Size, c.Known)
		}
		if f.Parts != n || (n > 0 && f.ID != fileID) || f.Name != upName {
			return o, fmt.Sprintf("InputFile{ID:%d Parts:%d Name:%q}, uploaded n=%d id=%d", f.ID, f.Parts, f.Name, n, fileID)
		}
		h := md5.New()
		chunk := make([]byte, 64*kib)
		for off := int64(0); off < c.Size; {
			m := int(min(int64(len(chunk)), c.Size-off))
			genFill(c.Seed, off, chunk[:m])
			h.Write(chunk[:m])
			off += int64(m)
		}
		if want := hex.EncodeToString(h.Sum(nil)); f.MD5Checksum != want {
			return o, fmt.Sprintf("InputFile.MD5Checksum=%s, MD5(source)=%s", f.MD5Checksum, want)
		}
	case *tg.InputFileBig:
		if !big {
			return o, fmt.Sprintf("InputFileBig returned for known size %d (<= 10 MiB)", c.Size)
		}
		if f.Parts != n || (n > 0 && f.ID != fileID) || f.Name != upName {
			return o, fmt.Sprintf("InputFileBig{ID:%d Parts:%d Name:%q}, uploaded n=%d id=%d", f.ID, f.Parts, f.Name, n, fileID)
		}
	default:
		return o, fmt.Sprintf("unexpected descriptor %T", file)
	}
	// FileTotalParts
	if big {
		shortLast := n > 0 && c.Size%int64(P) != 0
		for _, r := range reqs {
			judged := c.Known || r.KnownBefore || (shortLast && r.Part == n-1)
			if !judged {
				continue
			}
			if !c.Known && !shortLast && skipTotalPartsExact {
				o.Suppressed = sigTotalPartsExact
				continue
			}
			o.JudgedTP++
			if r.TotalParts != n {
				why := "total size known"
				switch {
				case c.Known:
				case shortLast && r.Part == n-1:
					why = "last part: the source had reported EOF before it was queued"
				default:
					why = "retry after a flood wait that ended after the source had reported EOF"
				}
				return o, fmt.Sprintf("totalparts: part %d attempt %d carries FileTotalParts=%d, final count is %d (%s; size=%d part=%d)", r.Part, r.Attempt, r.TotalParts, n, why, c.Size, P)
			}
		}
	}
	return o, ""
}

const sigTotalPartsExact = "C32/unknown-total/size-multiple-of-part/final-count-never-sent"

// ---- generator ----

var upValidParts = []int{1 * kib, 2 * kib, 4 * kib, 8 * kib, 16 * kib, 32 * kib, 64 * kib, 128 * kib, 256 * kib, 512 * kib}
var upInvalidParts = []int{1000, 1023, 1025, 1536, 3 * kib, 5 * kib, 96 * kib, 384 * kib, 513 * kib, 1 * mib, 2 * mib}

func around(t *rapid.T, unit int64, maxK int) int64 {
	k := int64(rapid.IntRange(0, maxK).Draw(t, "k"))
	d := int64(rapid.SampledFrom([]int{-1, 0, 0, 1}).Draw(t, "delta"))
	s := k*unit + d
	if s < 0 {
		s = 0
	}
	return s
}

func genUpCfg(t *rapid.T) (upCfg, []string) {
	var c upCfg
	var classes []string
	c.Seed = rapid.Uint64().Draw(t, "contentSeed")
	c.Known = rapid.IntRange(0, 9).Draw(t, "known") < 6
	c.Threads = rapid.IntRange(1, 8).Draw(t, "threads")
	c.FileID = rapid.Int64Range(1, 1<<62).Draw(t, "fileID")
	auto := rapid.IntRange(0, 9).Draw(t, "auto") < 3
	// rapid's integer draws lean towards small values; a short weighted list
	// keeps the class distribution close to the weights (common classes first).
	cls := rapid.SampledFrom([]string{
		"small", "small", "small", "small", "small", "small", "small", "small",
		"anypart", "big", "limit3999", "thresh10M", "small", "small", "heavy", "invalid",
	}).Draw(t, "sizeClass")
	switch cls {
	case "invalid":
		// invalid explicit part size: must be refused
		c.Part = rapid.SampledFrom(upInvalidParts).Draw(t, "badPart")
		c.Size = int64(rapid.IntRange(0, 64*kib).Draw(t, "size"))
		classes = append(classes, "part=invalid")
	case "small":
		if auto {
			c.Size = around(t, 128*kib, 5)
		} else {
			c.Part = rapid.SampledFrom(upValidParts[:6]).Draw(t, "part")
			if rapid.Bool().Draw(t, "uniform") {
				c.Size = int64(rapid.IntRange(0, 12*c.Part).Draw(t, "size"))
			} else {
				c.Size = around(t, int64(c.Part), 12)
			}
		}
	case "anypart":
		// any valid explicit part size, up to 4 MiB
		c.Part = rapid.SampledFrom(upValidParts).Draw(t, "part")
		c.Size = min(around(t, int64(c.Part), 40), 4*mib)
	case "limit3999":
		// small-file part-count limit with an explicit part size: 3999 parts +-
		c.Part = rapid.SampledFrom(upValidParts[:2]).Draw(t, "part")
		c.Size = int64(upPartsLimit)*int64(c.Part) + int64(rapid.SampledFrom([]int{-1, 0, 1, c.Part, c.Part + 1}).Draw(t, "delta"))
		classes = append(classes, "threshold=3999*part")
	case "thresh10M":
		// small/big threshold
		c.Size = upBigLimit + int64(rapid.SampledFrom([]int{-1, 0, 1}).Draw(t, "delta"))
		if !auto {
			c.Part = rapid.SampledFrom(upValidParts[2:]).Draw(t, "part")
		}
		classes = append(classes, "threshold=10MiB")
	case "big":
		// big with known total
		if !auto {
			c.Part = rapid.SampledFrom(upValidParts[6:]).Draw(t, "part")
		}
		unit := int64(c.Part)
		if unit == 0 {
			unit = 128 * kib
		}
		c.Size = upBigLimit + 1 + around(t, unit, int(4*mib/unit))
		c.Known = c.Known || rapid.Bool().Draw(t, "known2")
		classes = append(classes, "big>10MiB")
	case "heavy":
		// automatic part-size thresholds (expensive: rare in quick)
		heavy := thorough() || rapid.IntRange(0, 15).Draw(t, "heavy") == 15
		if !heavy {
			c.Size = around(t, 128*kib, 5)
			break
		}
		c.Known = true
		bases := []int64{upAutoThresh}
		if thorough() {
			bases = append(bases, 2*upAutoThresh, 4*upAutoThresh)
		}
		c.Size = rapid.SampledFrom(bases).Draw(t, "base") + int64(rapid.SampledFrom([]int{-1, 0, 1}).Draw(t, "delta"))
		classes = append(classes, "threshold=3999*auto")
	}
	if c.Size > 64*mib {
		c.Threads = max(c.Threads, 4)
	}
	// short reads: only tiny read sizes on small files (cost)
	switch rapid.IntRange(0, 5).Draw(t, "reads") {
	case 0:
		if c.Size <= 64*kib {
			c.MaxRead = rapid.SampledFrom([]int{1, 2, 7}).Draw(t, "maxRead")
		} else {
			c.MaxRead = 64 * kib
		}
	case 1:
		c.MaxRead = rapid.SampledFrom([]int{1000, 1024, 4097, 100000}).Draw(t, "maxRead")
		if c.Size > 16*mib {
			c.MaxRead = 100000
		}
	}
	c.RSeed = rapid.Uint64().Draw(t, "readSeed")
	c.EOFWith = rapid.Bool().Draw(t, "eofWith")
	// fault script
	p := int64(c.Part)
	if p == 0 {
		p = 128 * kib
	}
	nGuess := int(max(ceilDiv(c.Size, p), 1))
	nf := rapid.SampledFrom([]int{0, 0, 1, 1, 2, 3, 5}).Draw(t, "nFaults")
	for i := 0; i < nf; i++ {
		f := upFault{
			Attempt: rapid.IntRange(0, 2).Draw(t, "fAttempt"),
			Kind:    rapid.IntRange(1, 3).Draw(t, "fKind"),
			Arg:     rapid.IntRange(0, 30).Draw(t, "fArg"),
		}
		if rapid.Bool().Draw(t, "fTail") {
			f.Part = max(nGuess-1-rapid.IntRange(0, 2).Draw(t, "fFromEnd"), 0)
		} else {
			f.Part = rapid.IntRange(0, nGuess-1).Draw(t, "fPart")
		}
		if f.Attempt > 0 {
			// make the attempt reachable: the attempts before it fail too
			for a := 0; a < f.Attempt; a++ {
				c.Faults = append(c.Faults, upFault{Part: f.Part, Attempt: a, Kind: 1 + (f.Kind+a)%3, Arg: a})
			}
		}
		c.Faults = append(c.Faults, f)
	}
	if rapid.IntRange(0, 3).Draw(t, "bg") == 0 {
		c.BgRate = rapid.SampledFrom([]uint64{8, 32, 96}).Draw(t, "bgRate")
	}
	c.BgSeed = rapid.Uint64().Draw(t, "bgSeed")
	c.Latency = rapid.Bool().Draw(t, "latency")
	c.Prior = rapid.SampledFrom([]string{"", "", "failed", "failed", "ok"}).Draw(t, "priorUpload")
	if c.Prior != "" {
		classes = append(classes, "prior-upload="+c.Prior)
	}
	return c, classes
}

func upThreshold(c upCfg) bool {
	s := c.Size
	near := func(x int64) bool { return s >= x-1 && s <= x+1 }
	if near(upBigLimit) || near(upAutoThresh) || near(2*upAutoThresh) || near(4*upAutoThresh) {
		return true
	}
	return c.Part != 0 && validPartSize(c.Part) && near(int64(upPartsLimit)*int64(c.Part))
}

func upClasses(c upCfg, o upOutcome) []string {
	cl := []string{}
	add := func(s string) { cl = append(cl, s) }
	if c.Known {
		add("total=known")
	} else {
		add("total=unknown")
	}
	if c.Part == 0 {
		add("part=auto")
	} else if validPartSize(c.Part) {
		add("part=explicit")
	}
	if o.Refused {
		add("refused")
		return cl
	}
	if o.Big {
		add("kind=big")
	} else {
		add("kind=small")
	}
	add(fmt.Sprintf("threads=%d", c.Threads))
	if o.P > 0 {
		add(sizeClass(c.Size, int64(o.P)))
	} else {
		add("size=0")
	}
	switch {
	case o.N == 0:
		add("n=0")
	case o.N == 1:
		add("n=1")
	case o.N <= 16:
		add("n=2..16")
	case o.N <= upPartsLimit:
		add("n=17..3999")
	default:
		add("n>3999")
	}
	if o.Falses > 0 {
		add("retry=false")
	}
	if o.Floods > 0 {
		add("retry=flood")
	}
	if o.Retries == 0 {
		add("retry=none")
	}
	if c.MaxRead > 0 {
		add("shortreads")
	}
	if o.JudgedTP > 0 && !c.Known {
		add("totalparts-judged-unknown-total")
	}
	return cl
}

func TestC32(t *testing.T) { testC32(t, "TestC32") }

// TestC32Parallel is the same property run with several Ps (the driver sets
// GOMAXPROCS=4 for it, 1 for TestC32): the uploader's reader and workers then
// really overlap, and so do buffer-pool operations, which a single P
// serialises. Time is still the bubble's; the oracle does not depend on the
// schedule.
func TestC32Parallel(t *testing.T) { testC32(t, "TestC32Parallel") }

func testC32(t *testing.T, name string) {
	st := pbt.NewStats(name)
	defer st.Flush()
	skipExact := pbt.Known("C32", sigTotalPartsExact)
	rapid.Check(t, func(t *rapid.T) {
		rapid.SyncTest(t, func(t *rapid.T) {
			c, extra := genUpCfg(t)
			start := time.Now()
			srv, file, err := runUpload(c)
			virt := time.Since(start)
			o, bad := checkUpload(c, srv, file, err, skipExact)
			if bad != "" {
				t.Fatalf("%s\ncase: %s", bad, c)
			}
			if o.Suppressed != "" {
				st.Excluded(o.Suppressed)
			}
			nontrivial := (o.N >= 2 && o.Retries >= 1) || (upThreshold(c) && !o.Refused)
			cl := append(upClasses(c, o), extra...)
			if virt > 0 {
				cl = append(cl, "virtual-time>0")
			}
			st.Case(c.String(), nontrivial, c.String(), cl...)
		})
	})
}

// TestC32Boundaries runs the fixed threshold sizes every time (plain, inside a
// bubble): the automatic part-size threshold 3999*128 KiB +-1 (and in the
// thorough tier the 256/512 KiB thresholds, i.e. the 2 GB class).
func TestC32Boundaries(t *testing.T) {
	st := pbt.NewStats("TestC32Boundaries")
	defer st.Flush()
	skipExact := pbt.Known("C32", sigTotalPartsExact)
	type bc struct {
		size  int64
		known bool
		part  int
		wantP int
		wantN int
	}
	cases := []bc{
		{upBigLimit - 1, true, 0, 128 * kib, 80},
		{upBigLimit, true, 0, 128 * kib, 80},
		{upBigLimit + 1, true, 0, 128 * kib, 81},
		{upAutoThresh - 1, true, 0, 0, 3999},
		{upAutoThresh, true, 0, 0, 3999},
		{upAutoThresh + 1, true, 0, 0, 0},
	}
	if thorough() {
		cases = append(cases,
			bc{2*upAutoThresh - 1, true, 0, 0, 0},
			bc{2 * upAutoThresh, true, 0, 0, 0},
			bc{2*upAutoThresh + 1, true, 0, 0, 0},
			bc{4*upAutoThresh - 1, true, 0, 0, 0},
			bc{4 * upAutoThresh, true, 0, 0, 3999},
			bc{4*upAutoThresh + 1, true, 0, 0, 4000}, // no valid part size fits: 4000 parts of 512 KiB
			bc{4*upAutoThresh + 1, false, 512 * kib, 0, 4000},
		)
	}
	for i, b := range cases {
		c := upCfg{
			Seed: uint64(i)*77 + 5, Size: b.size, Known: b.known, Part: b.part, Threads: 4, FileID: 42 + int64(i),
			Faults: []upFault{{Part: 1, Attempt: 0, Kind: 2, Arg: 3}, {Part: 7, Attempt: 0, Kind: 1}}, BgSeed: 9,
		}
		synctest.Test(t, func(t *testing.T) {
			srv, file, err := runUpload(c)
			o, bad := checkUpload(c, srv, file, err, skipExact)
			if bad != "" {
				t.Fatalf("%s\ncase: %s", bad, c)
			}
			if b.wantN != 0 && o.N != b.wantN {
				// informational cross-check of the harness arithmetic, not of the code
				if o.N > upPartsLimit && b.wantN <= upPartsLimit {
					t.Fatalf("size %d: %d parts", b.size, o.N)
				}
			}
			st.Case(c.String(), true, fmt.Sprintf("%s -> P=%d n=%d", c, o.P, o.N), upClasses(c, o)...)
		})
	}
}

// TestC32Regression_unknown_total_exact_multiple: a streamed upload (total -1)
// of exactly one 128 KiB part whose only part meets a FLOOD_WAIT. The source
// has reported EOF long before the retry is built, so the final part count (1)
// is known, yet the retry - like every request of such an upload - carries
// FileTotalParts = -1: the server is never told the final count.
// Fails on the pinned tree (prints KNOWN-FINDING instead once the signature is
// listed as known); passes once the uploader sends the count.
func TestC32Regression_unknown_total_exact_multiple(t *testing.T) {
	for _, c := range []upCfg{
		{Seed: 1, Size: 128 * kib, Known: false, Threads: 1, FileID: 7, Faults: []upFault{{Part: 0, Attempt: 0, Kind: 2, Arg: 0}}},
		{Seed: 2, Size: 3 * 4 * kib, Known: false, Part: 4 * kib, Threads: 3, FileID: 8, Faults: []upFault{{Part: 2, Attempt: 0, Kind: 3, Arg: 2}}},
	} {
		t.Run(fmt.Sprintf("size=%d", c.Size), func(t *testing.T) {
			synctest.Test(t, func(t *testing.T) {
				srv, file, err := runUpload(c)
				if _, bad := checkUpload(c, srv, file, err, false); bad != "" {
					if pbt.Known("C32", sigTotalPartsExact) {
						// listed as known: report, do not fail the run
						pbt.ReportKnown("C32", sigTotalPartsExact, bad)
						return
					}
					t.Errorf("%s\ncase: %s", bad, c)
				}
			})
		})
	}
}
