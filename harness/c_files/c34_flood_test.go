package c_files

import (
	"bytes"
	"context"
	"crypto/sha256"
	"fmt"
	"sync"
	"testing"
	"time"

	"github.com/gotd/td/telegram/downloader"
	"github.com/gotd/td/tg"
	"github.com/gotd/td/tgerr"
	"pgregory.net/rapid"

	"verifharness/pbt"
)

// C33 / C34, verified parallel downloads whose *hash* requests are flood-limited.
// The client sleeps out a FLOOD_WAIT on upload.getFileHashes while other workers
// are busy; this runs in real time with several Ps (in a synctest bubble a
// sleep under the verifier's mutex, which is what the client does, would stop
// the virtual clock). No timing enters the oracle: a download that completes
// must equal the file, whatever the schedule was.

type floodServer struct {
	file      []byte
	window    int
	batch     int
	floodAt   map[int]bool // hashes calls (by index) answered FLOOD_WAIT_0
	chunkWait time.Duration

	mu         sync.Mutex
	hashCalls  int
	floods     int
	chunkCalls int
}

func (s *floodServer) part(off int64, limit int) []byte {
	if off >= int64(len(s.file)) {
		return []byte{}
	}
	end := min(off+int64(limit), int64(len(s.file)))
	return append([]byte(nil), s.file[off:end]...)
}

func (s *floodServer) UploadGetFile(ctx context.Context, r *tg.UploadGetFileRequest) (tg.UploadFileClass, error) {
	s.mu.Lock()
	s.chunkCalls++
	s.mu.Unlock()
	select {
	case <-time.After(s.chunkWait):
	case <-ctx.Done():
		return nil, ctx.Err()
	}
	return &tg.UploadFile{Type: &tg.StorageFileUnknown{}, Bytes: s.part(r.Offset, r.Limit)}, nil
}

func (s *floodServer) UploadGetFileHashes(ctx context.Context, r *tg.UploadGetFileHashesRequest) ([]tg.FileHash, error) {
	s.mu.Lock()
	n := s.hashCalls
	s.hashCalls++
	flood := s.floodAt[n]
	if flood {
		s.floods++
	}
	s.mu.Unlock()
	if flood {
		return nil, tgerr.New(420, "FLOOD_WAIT_0")
	}
	var out []tg.FileHash
	for off := r.Offset - r.Offset%int64(s.window); off < int64(len(s.file)) && len(out) < s.batch; off += int64(s.window) {
		p := s.part(off, s.window)
		h := sha256.Sum256(p)
		out = append(out, tg.FileHash{Offset: off, Limit: len(p), Hash: h[:]})
	}
	return out, nil
}

func (s *floodServer) UploadReuploadCDNFile(ctx context.Context, r *tg.UploadReuploadCDNFileRequest) ([]tg.FileHash, error) {
	return nil, tgerr.New(400, "NOT_SUPPORTED")
}

func (s *floodServer) UploadGetCDNFileHashes(ctx context.Context, r *tg.UploadGetCDNFileHashesRequest) ([]tg.FileHash, error) {
	return nil, tgerr.New(400, "NOT_SUPPORTED")
}

func (s *floodServer) UploadGetWebFile(ctx context.Context, r *tg.UploadGetWebFileRequest) (*tg.UploadWebFile, error) {
	return nil, tgerr.New(400, "NOT_SUPPORTED")
}

func TestC34HashFlood(t *testing.T) {
	st := pbt.NewStats("TestC34HashFlood")
	defer st.Flush()
	rapid.Check(t, func(t *rapid.T) {
		const window = 128 * kib
		wins := rapid.IntRange(3, 7).Draw(t, "windows")
		tail := rapid.SampledFrom([]int{0, 1, 4096, window - 1}).Draw(t, "tail")
		size := wins*window - tail
		seed := rapid.Uint64().Draw(t, "contentSeed")
		srv := &floodServer{
			file:      genBytes(seed, 0, size),
			window:    window,
			// the hash service hands out windows much faster than chunks arrive (one
			// answer may cover the whole file), so hashes are typically all fetched
			// while most chunks are still outstanding
			batch:     rapid.SampledFrom([]int{1, 2, wins, wins}).Draw(t, "hashBatch"),
			floodAt:   map[int]bool{rapid.SampledFrom([]int{0, 0, 1, 2}).Draw(t, "floodAtCall"): true},
			chunkWait: time.Duration(rapid.SampledFrom([]int{100, 400, 700}).Draw(t, "chunkMs")) * time.Millisecond,
		}
		threads := rapid.IntRange(2, 4).Draw(t, "threads")
		loc := &tg.InputDocumentFileLocation{ID: 1, AccessHash: 2, FileReference: []byte{3}}
		w := &capWriter{}
		ctx, cancel := context.WithTimeout(context.Background(), 5*time.Minute)
		defer cancel()
		_, err := downloader.NewDownloader().WithPartSize(window).Download(srv, loc).WithVerify(true).WithThreads(threads).Parallel(ctx, w)
		outcome := "error"
		if err == nil {
			outcome = "complete"
			if m := w.holes(int64(size)); m != "" {
				t.Fatalf("C33/C34 violated: verified parallel download (threads %d, %d windows, hash batch %d, FLOOD_WAIT on hashes call %v) completed but %s (file size %d)", threads, wins, srv.batch, srv.floodAt, m, size)
			}
			if !bytes.Equal(w.buf, srv.file) {
				t.Fatalf("C33/C34 violated: verified parallel download completed without error but delivered %d bytes that differ from the genuine file of %d bytes (threads %d, hash batch %d, FLOOD_WAIT on hashes call %v)", len(w.buf), size, threads, srv.batch, srv.floodAt)
			}
		}
		st.Case(fmt.Sprintf("%d/%d/%d/%d/%v/%v", seed, size, srv.batch, threads, srv.floodAt, srv.chunkWait), srv.floods > 0,
			fmt.Sprintf("size=%d windows=%d batch=%d threads=%d floodAt=%v chunk=%v -> %s (hash calls %d, floods %d)", size, wins, srv.batch, threads, srv.floodAt, srv.chunkWait, outcome, srv.hashCalls, srv.floods),
			"outcome="+outcome, fmt.Sprintf("flooded=%v", srv.floods > 0), fmt.Sprintf("threads=%d", threads))
	})
}
