package c_crypto

import (
	"bytes"
	"crypto/sha256"
	"fmt"
	"math/big"
	"testing"

	"github.com/gotd/td/bin"
	"github.com/gotd/td/crypto"
	"pgregory.net/rapid"

	"verifharness/pbt"
	"verifharness/pbt/ref"
)

// C06: msg_key / aes_key / aes_iv equal the MTProto 2.0 definitions for both
// directions; the v1 derivation equals MTProto 1.0; the bind message decrypts
// under the permanent key (v1 KDF, x = 0) to the bound ids, session, expiry.

func TestC06(t *testing.T) {
	st := pbt.NewStats("TestC06")
	defer st.Flush()
	rapid.Check(t, func(t *rapid.T) {
		ak, keyClass := genAuthKey(t, "key")
		var msgKey bin.Int128
		mkClass := "msgkey:random"
		switch rapid.IntRange(0, 7).Draw(t, "msgKeyClass") {
		case 0:
			mkClass = "msgkey:zero"
		case 1:
			for i := range msgKey {
				msgKey[i] = 0xff
			}
			mkClass = "msgkey:ff"
		default:
			copy(msgKey[:], drawBytes(t, "msgKey", 16))
		}
		// MessageKey takes any plaintext (messages go up to 16 MiB; padded
		// lengths are multiples of 16 but the function does not require it).
		// Lengths: small, uniform to 5000, and within 40 of a power of two up
		// to 2^17 (buffer-size boundaries of any block-wise implementation).
		n := rapid.OneOf(
			rapid.IntRange(0, 200),
			rapid.IntRange(0, 5000),
			rapid.SampledFrom([]int{0, 16, 32, 48, 55, 56, 63, 64, 65, 119, 120, 4096}),
			rapid.Custom(func(t *rapid.T) int {
				v := 1<<rapid.IntRange(5, 17).Draw(t, "pow") + rapid.IntRange(-40, 40).Draw(t, "delta")
				if v < 0 {
					v = 0
				}
				return v
			}),
		).Draw(t, "plainLen")
		plain := drawBytes(t, "plain", n)
		rk := [256]byte(ak.Value)
		// the derivations do not run alone in the process: between them the same
		// goroutine uses the package's other helpers (hashing in several chunks,
		// as the obfuscated transport's key setup does, nonce hashes, temporary
		// keys). Whatever those leave behind (pooled hashers, scratch buffers)
		// must not show in the next derivation.
		neighbour := rapid.SampledFrom([]string{"none", "none", "sha256x1", "sha256x2", "sha256x3", "temp-aes-keys", "nonce-hash"}).Draw(t, "neighbour")
		nb := drawBytes(t, "neighbourData", 96)
		disturb := func() {
			switch neighbour {
			case "sha256x1", "sha256x2", "sha256x3":
				chunks := [][]byte{nb[:32], nb[32:64], nb[64:]}[:int(neighbour[7]-'0')]
				var all []byte
				for _, c := range chunks {
					all = append(all, c...)
				}
				if got, want := crypto.SHA256(chunks...), sha256.Sum256(all); !bytes.Equal(got, want[:]) {
					t.Fatalf("crypto.SHA256 over %d chunks: got %x want %x", len(chunks), got, want)
				}
			case "temp-aes-keys":
				crypto.TempAESKeys(new(big.Int).SetBytes(nb[:32]), new(big.Int).SetBytes(nb[32:48]))
			case "nonce-hash":
				var nn bin.Int256
				copy(nn[:], nb[:32])
				crypto.NonceHash1(nn, ak.Value)
			}
		}

		for _, side := range []crypto.Side{crypto.Client, crypto.Server} {
			fromServer := side == crypto.Server
			disturb()
			// msg_key over arbitrary plaintext (v2)
			if got, want := crypto.MessageKey(ak.Value, plain, side), ref.MsgKeyV2(rk, plain, fromServer); [16]byte(got) != want {
				t.Fatalf("MessageKey side=%d len=%d: got %x want %x", side, n, got[:], want[:])
			}
			disturb()
			gk, gi := crypto.Keys(ak.Value, msgKey, side)
			wk, wi := ref.KDFv2(rk, [16]byte(msgKey), fromServer)
			if [32]byte(gk) != wk || [32]byte(gi) != wi {
				t.Fatalf("Keys side=%d: got key %x iv %x want key %x iv %x", side, gk[:], gi[:], wk[:], wi[:])
			}
			// MTProto 1.0 KDF with the side parameter
			ok, oi := crypto.OldKeys(ak.Value, msgKey, side)
			w1k, w1i := ref.KDFv1(rk, [16]byte(msgKey), fromServer)
			if [32]byte(ok) != w1k || [32]byte(oi) != w1i {
				t.Fatalf("OldKeys side=%d: got key %x iv %x want key %x iv %x", side, ok[:], oi[:], w1k[:], w1i[:])
			}
		}
		// v1 helpers used for binding (x = 0)
		if got, want := crypto.MessageKeyV1(plain), ref.MsgKeyV1(plain); [16]byte(got) != want {
			t.Fatalf("MessageKeyV1 len=%d: got %x want %x", n, got[:], want[:])
		}
		gk, gi := crypto.KeysV1(ak.Value, msgKey)
		wk, wi := ref.KDFv1(rk, [16]byte(msgKey), false)
		if [32]byte(gk) != wk || [32]byte(gi) != wi {
			t.Fatalf("KeysV1: got key %x iv %x want key %x iv %x", gk[:], gi[:], wk[:], wi[:])
		}
		// auth_key_id / aux hash
		if ak.ID != ref.AuthKeyID(rk) || ak.Value.ID() != ref.AuthKeyID(rk) {
			t.Fatalf("auth_key_id: got %x want %x", ak.ID, ref.AuthKeyID(rk))
		}
		if ak.Value.AuxHash() != ref.AuthKeyAuxHash(rk) {
			t.Fatalf("aux_hash mismatch")
		}
		h := fmt.Sprintf("%x/%x/%d/%x", ak.ID, msgKey[:], n, trunc24(plain))
		st.Case(h, true, fmt.Sprintf("keyid=%x msgkey=%s plain=%d", ak.ID, hexShort(msgKey[:]), n), keyClass, mkClass, fmt.Sprintf("plain%%64=%d", n%64/16*16), "neighbour:"+neighbour)
	})
}

// TestC06Lengths: msg_key for every plaintext length 0..4224 in one case (one
// drawn key and content): a deviation confined to a few lengths cannot hide.
func TestC06Lengths(t *testing.T) {
	st := pbt.NewStats("TestC06Lengths")
	defer st.Flush()
	rapid.Check(t, func(t *rapid.T) {
		ak, keyClass := genAuthKey(t, "key")
		rk := [256]byte(ak.Value)
		seed := rapid.Uint64().Draw(t, "contentSeed")
		buf := pbt.NewStream(seed).Bytes(4224)
		for n := 0; n <= len(buf); n++ {
			for _, side := range []crypto.Side{crypto.Client, crypto.Server} {
				if got, want := crypto.MessageKey(ak.Value, buf[:n], side), ref.MsgKeyV2(rk, buf[:n], side == crypto.Server); [16]byte(got) != want {
					t.Fatalf("MessageKey side=%d len=%d: got %x want %x", side, n, got[:], want[:])
				}
			}
			if got, want := crypto.MessageKeyV1(buf[:n]), ref.MsgKeyV1(buf[:n]); [16]byte(got) != want {
				t.Fatalf("MessageKeyV1 len=%d: got %x want %x", n, got[:], want[:])
			}
		}
		st.Case(fmt.Sprintf("%x/%d", ak.ID, seed), true, fmt.Sprintf("keyid=%x content seed %d, lengths 0..4224", ak.ID, seed), keyClass)
	})
}

// TestC06Bind: EncryptBindMessage against the reference v1 decryptor. A case
// makes 1..4 bind messages in a row (retries, key rotation, several
// connections binding) and only then checks them all: a message stays what it
// was when later ones are made.
func TestC06Bind(t *testing.T) {
	st := pbt.NewStats("TestC06Bind")
	defer st.Flush()
	rapid.Check(t, func(t *rapid.T) {
		perm, keyClass := genAuthKey(t, "perm")
		i64 := rapid.OneOf(rapid.SampledFrom([]int64{0, 1, -1, 1<<63 - 1, -1 << 63}), rapid.Int64())
		n := rapid.SampledFrom([]int{1, 1, 2, 3, 4}).Draw(t, "messages")
		type made struct {
			inner *crypto.BindAuthKeyInner
			msgID int64
			wire  []byte
			seed  uint64
		}
		var all []made
		for k := 0; k < n; k++ {
			inner := &crypto.BindAuthKeyInner{
				Nonce:         i64.Draw(t, "nonce"),
				TempAuthKeyID: i64.Draw(t, "tempKeyID"),
				PermAuthKeyID: i64.Draw(t, "permKeyID"),
				TempSessionID: i64.Draw(t, "session"),
				// expires_at:int is 32-bit on the wire; callers pass a unix time.
				ExpiresAt: int(rapid.OneOf(rapid.SampledFrom([]int32{0, 1, 1<<31 - 1}), rapid.Int32Range(0, 1<<31-1)).Draw(t, "expires")),
			}
			msgID := i64.Draw(t, "msgID")
			s, seed := drawStream(t, "rand")
			wire, err := crypto.EncryptBindMessage(s, perm, msgID, inner)
			if err != nil {
				t.Fatalf("EncryptBindMessage: %v", err)
			}
			all = append(all, made{inner, msgID, wire, seed}) // the returned slice itself, not a copy
		}
		var m ref.BindMessage
		for k, x := range all {
			var err error
			m, err = ref.DecryptBindMessage([256]byte(perm.Value), x.wire)
			if err != nil {
				t.Fatalf("reference cannot decrypt bind message %d of %d: %v (wire %d bytes)", k+1, n, err, len(x.wire))
			}
			if m.MsgID != x.msgID {
				t.Fatalf("message %d of %d: msg_id %d, want the request's %d", k+1, n, m.MsgID, x.msgID)
			}
			if m.SeqNo != 0 {
				t.Fatalf("seq_no %d, want 0", m.SeqNo)
			}
			if m.PaddingLen < 0 || m.PaddingLen > 15 {
				t.Fatalf("padding %d, want 0..15", m.PaddingLen)
			}
			in, inner := m.Inner, x.inner
			if in.Nonce != inner.Nonce || in.TempAuthKeyID != inner.TempAuthKeyID || in.PermAuthKeyID != inner.PermAuthKeyID ||
				in.TempSessionID != inner.TempSessionID || int(in.ExpiresAt) != inner.ExpiresAt {
				t.Fatalf("bind_auth_key_inner mismatch in message %d of %d: got %+v want %+v", k+1, n, in, *inner)
			}
			// the key id in front is the permanent key's
			if !bytes.Equal(x.wire[:8], perm.ID[:]) {
				t.Fatalf("auth_key_id prefix %x, want %x", x.wire[:8], perm.ID)
			}
		}
		last := all[len(all)-1]
		st.Case(fmt.Sprintf("%x/%d/%d/%d/%d", perm.ID, last.msgID, last.inner.Nonce, last.seed, n), true,
			fmt.Sprintf("perm=%x messages=%d msgID=%d expires=%d pad=%d", perm.ID, n, last.msgID, last.inner.ExpiresAt, m.PaddingLen), keyClass, fmt.Sprintf("pad=%d", m.PaddingLen), fmt.Sprintf("messages=%d", n))
	})
}
