package c_crypto

import (
	"bytes"
	"encoding/hex"
	"math/big"
	"testing"

	"verifharness/pbt/ref"
)

func unhex(t testing.TB, s string) []byte {
	b, err := hex.DecodeString(s)
	if err != nil {
		t.Fatal(err)
	}
	return b
}

// TestRefSelfCheck validates the reference implementations against vectors
// that do not come from gotd/td: the two AES-IGE vectors of OpenSSL's
// test/igetest.c, RFC 6070-style PBKDF2 structure (single iteration equals one
// HMAC), primality of every DH group constant, and inverse relations.
func TestRefSelfCheck(t *testing.T) {
	// OpenSSL igetest vector 1: AES-128, key 00..0F, iv 00..1F, 32 zero bytes.
	{
		key := unhex(t, "000102030405060708090A0B0C0D0E0F")
		iv := unhex(t, "000102030405060708090A0B0C0D0E0F101112131415161718191A1B1C1D1E1F")
		pt := make([]byte, 32)
		want := unhex(t, "1A8519A6557BE652E9DA8E43DA4EF4453CF456B4CA488AA383C79C98B34797CB")
		if got := ref.IGEEncrypt(key, iv, pt); !bytes.Equal(got, want) {
			t.Fatalf("IGE vector 1: got %x", got)
		}
		if got := ref.IGEDecrypt(key, iv, want); !bytes.Equal(got, pt) {
			t.Fatalf("IGE vector 1 decrypt: got %x", got)
		}
	}
	// OpenSSL igetest vector 2.
	{
		key := unhex(t, "5468697320697320616E20696D706C65")
		iv := unhex(t, "6D656E746174696F6E206F6620494745206D6F646520666F72204F70656E5353")
		pt := unhex(t, "99706487A1CDE613BC6DE0B6F24B1C7AA448C8B9C3403E3467A8CAD89340F53B")
		want := unhex(t, "4C2E204C6574277320686F70652042656E20676F74206974207269676874210A")
		if got := ref.IGEEncrypt(key, iv, pt); !bytes.Equal(got, want) {
			t.Fatalf("IGE vector 2: got %x", got)
		}
		if got := ref.IGEDecrypt(key, iv, want); !bytes.Equal(got, pt) {
			t.Fatalf("IGE vector 2 decrypt: got %x", got)
		}
	}
	// PBKDF2-HMAC-SHA512, "password"/"salt", 1 and 2 iterations, first 64 bytes
	// (widely published vectors for PBKDF2-HMAC-SHA512).
	{
		w1 := unhex(t, "867f70cf1ade02cff3752599a3a53dc4af34c7a669815ae5d513554e1c8cf252c02d470a285a0501bad999bfe943c08f050235d7d68b1da55e63f73b60a57fce")
		if got := ref.PBKDF2SHA512Block1([]byte("password"), []byte("salt"), 1); !bytes.Equal(got, w1) {
			t.Fatalf("pbkdf2 c=1: %x", got)
		}
		w2 := unhex(t, "e1d9c16aa681708a45f5c7c4e215ceb66e011a2e9f0040713f18aefdb866d53cf76cab2868a39b9f7840edce4fef5a82be67335c77a6068e04112754f27ccf4e")
		if got := ref.PBKDF2SHA512Block1([]byte("password"), []byte("salt"), 2); !bytes.Equal(got, w2) {
			t.Fatalf("pbkdf2 c=2: %x", got)
		}
	}
	// SRP: the fixed vector of the Telegram documentation / TDLib tests
	// (password "123123", a = 1, g = 3, production prime).
	{
		params := ref.SRPParams{G: 3, P: mustHex(telegramPrimeHex),
			Salt1: unhex(t, "4D11FB6BEC38F9D2546BB0F61E4F1C99A1BC0DB8F0D5F35B1291B37B213123D7ED48F3C6794D495B"),
			Salt2: unhex(t, "A1B181AAFE88188680AE32860D60BB01")}
		B := mustHex("9C52401A6A8084EC82F01C3725D3FB448BD2F0C909F9D97726EAC4B7A74172D9" +
			"52F02466BE6734FA274D2B7429E27397F10372D66B400B80A5C5AE3F28B17BF3" +
			"105D7A2D2A885998CDC2DEFC208AEC217AB58859A9ABC2374AD93DC285F4B3FB" +
			"CAFF4143D7888F2425BD2FB711B25609CEB21757D935B1EF2F042173AD0CE2FE" +
			"0E474DAC53914BD25A8A9AED4AEA8953D55CB88621DB37B871EA0D04393AC098" +
			"7F68094CCC9DE8239251375D8FFFD263316CD528C097B7BC9FB919FBEDB76C52" +
			"5DF3413C374EE076D97A1E6D352BB7CC80FD13651B04B32E2E48C5268150842C" +
			"FD07CF855958B1B5EA9C36FDAD697FE3AEC8DCC6B1EFEC36874AF226204676CF")
		x := ref.SRPX([]byte("123123"), params.Salt1, params.Salt2)
		A, M1 := params.SRPClientAnswer(x, big.NewInt(1), B)
		if new(big.Int).SetBytes(A).Int64() != 3 || !bytes.Equal(M1, unhex(t, "999DF906BDA2C6CBB52F503406EBA2D0D0503ACE0CC302C38F13EE5010AD4051")) {
			t.Fatalf("SRP vector: M1 = %x", M1)
		}
		// verifier consistency: an honest exchange verifies, a wrong x does not
		v := params.SRPVerifierV(x)
		b := big.NewInt(987654321)
		hb := params.SRPServerB(v, b)
		A2, M2 := params.SRPClientAnswer(x, big.NewInt(55555), hb)
		if !params.SRPServerCheck(v, b, A2, M2) {
			t.Fatalf("reference verifier rejects the reference client")
		}
		A3, M3 := params.SRPClientAnswer(new(big.Int).Add(x, big.NewInt(1)), big.NewInt(55555), hb)
		if params.SRPServerCheck(v, b, A3, M3) {
			t.Fatalf("reference verifier accepts a wrong password hash")
		}
	}
	// every group constant is a 2048-bit safe prime
	for _, g := range safeGroups() {
		if g.P.BitLen() != 2048 {
			t.Fatalf("%s: %d bits", g.Name, g.P.BitLen())
		}
		q := new(big.Int).Rsh(g.P, 1)
		if !g.P.ProbablyPrime(32) || !q.ProbablyPrime(32) {
			t.Fatalf("%s is not a safe prime", g.Name)
		}
	}
	// reject-side material is what its name says
	for _, h := range generatedPlainPrimes2048 {
		v := mustHex(h)
		if v.BitLen() != 2048 || !v.ProbablyPrime(32) || new(big.Int).Rsh(v, 1).ProbablyPrime(32) {
			t.Fatalf("generatedPlainPrimes2048 entry is not a non-safe 2048-bit prime")
		}
	}
	for _, h := range generatedPrimes2047 {
		v := mustHex(h)
		p2 := new(big.Int).Lsh(v, 1)
		p2.Add(p2, big.NewInt(1))
		if v.BitLen() != 2047 || !v.ProbablyPrime(32) || p2.BitLen() != 2048 || p2.ProbablyPrime(32) {
			t.Fatalf("generatedPrimes2047 entry does not give a composite 2r+1 of 2048 bits")
		}
	}
	for bits, list := range map[int][]string{2047: generatedSafePrimes2047, 2049: generatedSafePrimes2049} {
		for _, h := range list {
			v := mustHex(h)
			if v.BitLen() != bits || !v.ProbablyPrime(32) || !new(big.Int).Rsh(v, 1).ProbablyPrime(32) {
				t.Fatalf("%d-bit safe prime entry is wrong", bits)
			}
		}
	}
	for _, k := range testRSAKeys() {
		if k.Key.N.BitLen() != 2048 || k.Key.Validate() != nil {
			t.Fatalf("rsa key %s invalid", k.Name)
		}
	}
	// sieve helpers agree with trial division
	for _, p := range ref.SievePrimes(2000) {
		if !ref.IsPrimeTrial(uint64(p)) {
			t.Fatalf("sieve produced composite %d", p)
		}
	}
	n := 0
	for i := uint64(0); i < 2000; i++ {
		if ref.IsPrimeTrial(i) {
			n++
		}
	}
	if n != len(ref.SievePrimes(2000)) {
		t.Fatalf("sieve count %d, trial count %d", len(ref.SievePrimes(2000)), n)
	}
	w := ref.PrimesInWindow(1<<31-500, 1<<31+500)
	for _, p := range w {
		if !ref.IsPrimeTrial(p) {
			t.Fatalf("window produced composite %d", p)
		}
	}
	cnt := 0
	for i := uint64(1<<31 - 500); i < 1<<31+500; i++ {
		if ref.IsPrimeTrial(i) {
			cnt++
		}
	}
	if cnt != len(w) {
		t.Fatalf("window count %d, trial %d", len(w), cnt)
	}
	// message round trip of the reference itself
	var key [256]byte
	for i := range key {
		key[i] = byte(i * 7)
	}
	wire := ref.EncryptMessage(key, true, 1, 2, 3, 4, []byte("abcd"), make([]byte, 12))
	salt, sess, id, seq, payload, pad, err := ref.DecryptMessage(key, true, wire)
	if err != nil || salt != 1 || sess != 2 || id != 3 || seq != 4 || string(payload) != "abcd" || pad != 12 {
		t.Fatalf("reference round trip: %v %d %d %d %d %q %d", err, salt, sess, id, seq, payload, pad)
	}
	if _, _, _, _, _, _, err := ref.DecryptMessage(key, false, wire); err == nil {
		t.Fatalf("reference accepted a reflected message")
	}
}
