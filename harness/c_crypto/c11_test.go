package c_crypto

import (
	"bytes"
	"crypto/sha1"
	"fmt"
	"testing"

	"github.com/gotd/td/crypto"
	"pgregory.net/rapid"

	"verifharness/pbt"
	"verifharness/pbt/ref"
)

// C11: DecryptExchangeAnswer either returns the embedded data whose SHA-1
// prefix matches, or an error; never success with empty/unauthenticated data.

// Signature of the known shape: every block-aligned ciphertext whose decrypted
// SHA1 prefix matches no padding length (the whole reject-by-hash side).
const c11SigNilNil = "C11/success-on-hash-mismatch"

type c11Case struct {
	Class string
	Key   []byte
	IV    []byte
	CT    []byte
	Data  []byte // for valid classes: what was embedded
}

var c11Classes = []string{"random", "valid", "valid-bitflip", "valid-trunc16", "valid-wrong-key", "valid-wrong-iv", "badlen", "short", "crafted-hash"}

// mismatch classes produce (with overwhelming probability) a block-aligned
// ciphertext whose hash does not match.
func c11MismatchClass(c string) bool {
	switch c {
	case "random", "valid-bitflip", "valid-trunc16", "valid-wrong-key", "valid-wrong-iv", "short", "crafted-hash":
		return true
	}
	return false
}

func genC11(t *rapid.T, st *pbt.Stats) c11Case {
	var c c11Case
	classes := c11Classes
	if pbt.Known("C11", c11SigNilNil) {
		// exclude the listed shape by construction: keep only inputs whose
		// outcome does not depend on the hash-mismatch branch.
		classes = []string{"valid", "badlen"}
	}
	c.Class = pick(t, "class", c11Classes)
	if pbt.Known("C11", c11SigNilNil) && c11MismatchClass(c.Class) {
		st.Excluded(c11SigNilNil)
		c.Class = pick(t, "class2", classes)
	}
	// key: 32 bytes (tmp_aes_key), iv: 32 bytes (tmp_aes_iv), as both callers
	// (exchange client and server flows) pass them from TempAESKeys.
	c.Key = drawBytes(t, "key", 32)
	c.IV = drawBytes(t, "iv", 32)
	valid := func() {
		// every length mod 16 occurs: 0..40 uniformly plus realistic sizes
		// (server_DH_inner_data is ~ 564 bytes, client_DH_inner_data ~ 300).
		n := rapid.OneOf(rapid.IntRange(0, 40), rapid.IntRange(280, 600)).Draw(t, "dataLen")
		c.Data = drawBytes(t, "data", n)
		s, _ := drawStream(t, "rand")
		ct, err := crypto.EncryptExchangeAnswer(s, c.Data, c.Key, c.IV)
		if err != nil {
			t.Fatalf("EncryptExchangeAnswer: %v", err)
		}
		c.CT = ct
	}
	switch c.Class {
	case "random":
		k := rapid.IntRange(2, 40).Draw(t, "blocks")
		c.CT = drawBytes(t, "ct", 16*k)
	case "short":
		// 0 or 1 block: not even room for a SHA1
		c.CT = drawBytes(t, "ct", 16*rapid.IntRange(0, 1).Draw(t, "blocks"))
	case "valid":
		valid()
	case "valid-bitflip":
		valid()
		// flip inside the region that certainly matters: hash or data, not the
		// trailing random padding (a flip there is legitimately ignored...
		// except that IGE propagates forward, so only the last block's padding
		// bytes are harmless). Choose a position in the first 20+len(data) bytes'
		// blocks.
		limit := 20 + len(c.Data)
		pos := rapid.IntRange(0, limit-1).Draw(t, "pos")
		c.CT[pos] ^= byte(1 << rapid.IntRange(0, 7).Draw(t, "bit"))
	case "valid-trunc16":
		valid()
		k := rapid.IntRange(1, len(c.CT)/16-1).Draw(t, "dropBlocks")
		c.CT = c.CT[:len(c.CT)-16*k]
	case "valid-wrong-key":
		valid()
		c.Key = append([]byte(nil), c.Key...)
		c.Key[rapid.IntRange(0, 31).Draw(t, "pos")] ^= byte(1 << rapid.IntRange(0, 7).Draw(t, "bit"))
	case "valid-wrong-iv":
		valid()
		c.IV = append([]byte(nil), c.IV...)
		c.IV[rapid.IntRange(0, 31).Draw(t, "pos")] ^= byte(1 << rapid.IntRange(0, 7).Draw(t, "bit"))
	case "crafted-hash":
		// an attacker who knows the temporary key chooses the plaintext: the hash
		// field is the SHA1 of something that is not "the data followed by at most
		// 15 bytes of padding" - of nothing at all, of a too short prefix of what
		// follows (padding > 15), or of a suffix of it
		k := rapid.IntRange(3, 40).Draw(t, "blocks")
		tail := drawBytes(t, "tail", 16*k-20)
		var of []byte
		switch rapid.IntRange(0, 2).Draw(t, "hashOf") {
		case 0: // SHA1("")
		case 1:
			of = tail[:rapid.IntRange(0, len(tail)-16).Draw(t, "prefixLen")]
		default:
			of = tail[rapid.IntRange(1, len(tail)).Draw(t, "suffixFrom"):]
		}
		h := sha1.Sum(of)
		plain := append(append([]byte(nil), h[:]...), tail...)
		if ref.ExchangeAnswerAuthentic(plain) {
			t.Skip("the crafted plaintext is authentic after all")
		}
		c.CT = ref.IGEEncrypt(c.Key, c.IV, plain)
	case "badlen":
		n := rapid.IntRange(1, 640).Draw(t, "n")
		if n%16 == 0 {
			n++
		}
		c.CT = drawBytes(t, "ct", n)
	}
	return c
}

// c11Oracle checks one call. It returns the outcome label.
func c11Oracle(t interface{ Fatalf(string, ...any) }, c c11Case) string {
	ctCopy := append([]byte(nil), c.CT...)
	got, err := crypto.DecryptExchangeAnswer(ctCopy, c.Key, c.IV)
	if err != nil {
		if got != nil {
			t.Fatalf("%s: error %v together with %d bytes of data", c.Class, err, len(got))
		}
		if c.Class == "valid" {
			t.Fatalf("valid answer (data %d bytes) rejected: %v", len(c.Data), err)
		}
		return "error"
	}
	// success: must be authenticated per the reference decryption
	if len(c.CT)%16 != 0 {
		t.Fatalf("%s: success for a ciphertext of %d bytes (not block aligned)", c.Class, len(c.CT))
	}
	plain := ref.ExchangeAnswerPlain(c.CT, c.Key, c.IV)
	if !ref.ExchangeAnswerData(plain, got) {
		t.Fatalf("%s: DecryptExchangeAnswer returned (data=%v len=%d, err=nil) but SHA1(data) does not match the decrypted prefix "+
			"(ciphertext %d bytes; any matching padding: %v)", c.Class, got != nil, len(got), len(c.CT), ref.ExchangeAnswerAuthentic(plain))
	}
	if c.Class == "valid" && !bytes.Equal(got, c.Data) {
		t.Fatalf("valid answer decrypted to different data (%d vs %d bytes)", len(got), len(c.Data))
	}
	// the data reported as authentic stays that data: the caller holds it while
	// further answers (here: the same one with a flipped byte, and zeros) are
	// decrypted, whatever their outcome
	kept := append([]byte(nil), got...)
	other := append([]byte(nil), c.CT...)
	other[len(other)-1] ^= 0x40
	_, _ = crypto.DecryptExchangeAnswer(other, c.Key, c.IV)
	_, _ = crypto.DecryptExchangeAnswer(make([]byte, len(c.CT)), c.Key, c.IV)
	if !bytes.Equal(got, kept) {
		t.Fatalf("%s: the %d bytes returned with a nil error changed while two further answers were decrypted: they are no longer the authenticated data", c.Class, len(kept))
	}
	return "data"
}

func TestC11(t *testing.T) {
	st := pbt.NewStats("TestC11")
	defer st.Flush()
	rapid.Check(t, func(t *rapid.T) {
		c := genC11(t, st)
		outcome := c11Oracle(t, c)
		// non-trivial: block-aligned input long enough to hold a hash, so the
		// answer depends on the hash comparison and not on framing.
		nontrivial := len(c.CT)%16 == 0 && len(c.CT) > 20
		st.Case(fmt.Sprintf("%s/%x/%x/%d", c.Class, trunc24(c.CT), c.Key[:4], len(c.CT)), nontrivial,
			fmt.Sprintf("%s ct=%d data=%d -> %s", c.Class, len(c.CT), len(c.Data), outcome),
			"class:"+c.Class, "outcome:"+outcome, fmt.Sprintf("dataLen%%16=%d", len(c.Data)%16))
	})
}

// c11Witness is the minimal witness: 32 zero bytes under a zero key / zero iv
// decrypt to a plaintext whose SHA1 prefix matches no padding length.
func c11Witness(t *testing.T) (c11Case, []byte, error) {
	c := c11Case{Class: "random", Key: make([]byte, 32), IV: make([]byte, 32), CT: make([]byte, 32)}
	plain := ref.ExchangeAnswerPlain(c.CT, c.Key, c.IV)
	if ref.ExchangeAnswerAuthentic(plain) {
		t.Fatalf("witness is unexpectedly authentic")
	}
	got, err := crypto.DecryptExchangeAnswer(append([]byte(nil), c.CT...), c.Key, c.IV)
	return c, got, err
}

// TestC11Regression_nilNilOnHashMismatch fails while the defect is present.
func TestC11Regression_nilNilOnHashMismatch(t *testing.T) {
	_, got, err := c11Witness(t)
	if err == nil {
		t.Fatalf("DecryptExchangeAnswer(32 zero bytes, zero key, zero iv) = (data nil=%v len=%d, err=nil); "+
			"the decrypted SHA1 prefix matches no padding length, want an error", got == nil, len(got))
	}
}

// TestC11Known replays the witness of the listed finding.
func TestC11Known(t *testing.T) {
	if !pbt.Known("C11", c11SigNilNil) {
		t.Skip("not listed")
	}
	_, got, err := c11Witness(t)
	if err == nil {
		pbt.ReportKnown("C11", c11SigNilNil, fmt.Sprintf("DecryptExchangeAnswer(32 zero bytes) = (nil=%v, len=%d, err=nil): hash mismatch reported as success", got == nil, len(got)))
	}
}
