package c_crypto

import (
	"fmt"
	"math/big"
	"os"
	"strconv"
	"sync"
	"testing"

	"github.com/gotd/td/crypto"
	"pgregory.net/rapid"

	"verifharness/pbt"
	"verifharness/pbt/ref"
)

// C13: CheckGP / CheckDH accept (g, p) exactly when p is a 2048-bit safe prime
// and g in 2..7 is a quadratic residue; CheckDHParams accepts exactly the
// strict interior of (1, p-1) and of the 2^1984 margins; DecomposePQ returns
// the two prime factors ascending.

func eulerQR(g int, p *big.Int) bool {
	return ref.IsQuadraticResidue(big.NewInt(int64(g)), p)
}

// ---- (a) residue rule -----------------------------------------------------

// CheckGP has no size or primality check of its own (it only looks at p mod
// 8, 3, 5, 24, 7), so it can be called with small primes. For a safe prime
// p = 2q+1 >= 11 (p = 3 mod 4, p > g) the specification's condition "g
// generates the subgroup of order (p-1)/2, i.e. is a quadratic residue mod p"
// is Euler's criterion g^((p-1)/2) = 1 (mod p).
func c13ResidueOracle(g int, p *big.Int) bool {
	return g >= 2 && g <= 7 && eulerQR(g, p)
}

// TestC13Residue enumerates ALL safe primes 7 <= p < 2^20 x g in -1..9.
func TestC13Residue(t *testing.T) {
	st := pbt.NewStats("TestC13Residue")
	defer st.Flush()
	n := 0
	for _, sp := range ref.SafePrimesBelow(1 << 20) {
		if sp < 7 {
			continue // p = 5 is 1 mod 4 (q = 2): the reciprocity table is stated for p = 3 mod 4
		}
		p := big.NewInt(int64(sp))
		n++
		for g := -1; g <= 9; g++ {
			got := crypto.CheckGP(g, p) == nil
			want := c13ResidueOracle(g, p)
			if got != want {
				t.Fatalf("CheckGP(g=%d, p=%d): accepted=%v, Euler criterion says %v", g, sp, got, want)
			}
			st.Case(fmt.Sprintf("%d/%d", g, sp), true, nil, fmt.Sprintf("g=%d", g), fmt.Sprintf("accept=%v", want))
		}
	}
	st.Set("exhaustive", true)
	st.Set("safe_primes", n)
	if n < 1000 {
		t.Fatalf("only %d safe primes enumerated", n)
	}
}

var smallPrimes = ref.SievePrimes(400)

// nextSafePrime returns the first safe prime p = 2q+1 with q >= start.
func nextSafePrime(start *big.Int) *big.Int {
	q := new(big.Int).Set(start)
	if q.Bit(0) == 0 {
		q.Add(q, big.NewInt(1))
	}
	p := new(big.Int)
	m := new(big.Int)
	two := big.NewInt(2)
outer:
	for ; ; q.Add(q, two) {
		p.Lsh(q, 1)
		p.Add(p, big.NewInt(1))
		for _, r := range smallPrimes {
			br := big.NewInt(int64(r))
			if q.Cmp(br) <= 0 {
				break
			}
			if m.Mod(q, br).Sign() == 0 || m.Mod(p, br).Sign() == 0 {
				continue outer
			}
		}
		if q.ProbablyPrime(16) && p.ProbablyPrime(16) {
			return new(big.Int).Set(p)
		}
	}
}

// TestC13GP: random safe primes of 24..160 bits x every g in -1..9.
func TestC13GP(t *testing.T) {
	st := pbt.NewStats("TestC13GP")
	defer st.Flush()
	rapid.Check(t, func(t *rapid.T) {
		bits := pick(t, "bits", []int{24, 32, 48, 63, 64, 65, 96, 128, 160})
		start := new(big.Int).SetBytes(drawBytes(t, "start", (bits+7)/8))
		start.SetBit(start, bits-2, 1) // q has bits-1 bits
		for i := start.BitLen() - 1; i > bits-2; i-- {
			start.SetBit(start, i, 0)
		}
		p := nextSafePrime(start)
		var accepted []int
		for g := -1; g <= 9; g++ {
			got := crypto.CheckGP(g, p) == nil
			want := c13ResidueOracle(g, p)
			if got != want {
				t.Fatalf("CheckGP(g=%d, p=%s): accepted=%v, Euler criterion says %v", g, p, got, want)
			}
			if got {
				accepted = append(accepted, g)
			}
		}
		st.Case(p.String(), true, fmt.Sprintf("p=%s bits=%d accepted g=%v", p, p.BitLen(), accepted), fmt.Sprintf("bits=%d", bits), fmt.Sprintf("accepted=%v", accepted))
	})
}

// ---- (b) CheckDH ------------------------------------------------------------

type dhCandidate struct {
	Name string
	P    *big.Int
	// Cost class: "slow" when the implementation has to run full
	// primality tests (p prime), "fast" otherwise.
	Slow bool
}

var (
	rejectOnce sync.Once
	rejectSet  []dhCandidate
)

// c13Rejects: 2048-bit-ish values that are NOT acceptable DH primes.
func c13Rejects() []dhCandidate {
	rejectOnce.Do(func() {
		one := big.NewInt(1)
		add := func(name string, p *big.Int, slow bool) {
			rejectSet = append(rejectSet, dhCandidate{name, p, slow})
		}
		for i, h := range generatedPlainPrimes2048 {
			add(fmt.Sprintf("prime-not-safe-%d", i+1), mustHex(h), true)
		}
		for i, h := range generatedPrimes2047 {
			r := mustHex(h)
			p := new(big.Int).Lsh(r, 1)
			p.Add(p, one)
			add(fmt.Sprintf("2r+1-composite-%d", i+1), p, false)
		}
		for i, h := range generatedSafePrimes2047 {
			add(fmt.Sprintf("safe-2047-bit-%d", i+1), mustHex(h), false)
		}
		for i, h := range generatedSafePrimes2049 {
			add(fmt.Sprintf("safe-2049-bit-%d", i+1), mustHex(h), false)
		}
		for _, k := range testRSAKeys() {
			add("semiprime-"+k.Name, new(big.Int).Set(k.Key.N), false)
		}
		for _, g := range safeGroups()[:4] {
			add(g.Name+"-2", new(big.Int).Sub(g.P, big.NewInt(2)), false)
			add(g.Name+"+2", new(big.Int).Add(g.P, big.NewInt(2)), false)
			add(g.Name+"-1", new(big.Int).Sub(g.P, one), false)
			add("q-of-"+g.Name, new(big.Int).Rsh(g.P, 1), false) // prime, 2047 bits
		}
		add("2^2047", new(big.Int).Lsh(one, 2047), false)
		add("2^2047+1", new(big.Int).Add(new(big.Int).Lsh(one, 2047), one), false)
		add("2^2048-1", new(big.Int).Sub(new(big.Int).Lsh(one, 2048), one), false)
		add("2^2048+1", new(big.Int).Add(new(big.Int).Lsh(one, 2048), one), false)
		add("zero", big.NewInt(0), false)
		add("one", one, false)
		add("small-safe-prime-23", big.NewInt(23), false)
	})
	return rejectSet
}

// isSafePrime2048 is the specification's condition on p, decided with
// math/big's primality test (Baillie-PSW + 24 Miller-Rabin rounds).
func isSafePrime2048(p *big.Int) bool {
	if p.Sign() <= 0 || p.BitLen() != 2048 {
		return false
	}
	// the fixed candidates recur: remember their verdicts (keyed by value)
	key := string(p.Bytes())
	safeMu.Lock()
	v, ok := safeMemo[key]
	safeMu.Unlock()
	if ok {
		return v
	}
	v = p.ProbablyPrime(24) && new(big.Int).Rsh(p, 1).ProbablyPrime(24)
	safeMu.Lock()
	safeMemo[key] = v
	safeMu.Unlock()
	return v
}

var (
	safeMu   sync.Mutex
	safeMemo = map[string]bool{}
)

func c13DHOracle(g int, p *big.Int) bool {
	return isSafePrime2048(p) && g >= 2 && g <= 7 && eulerQR(g, p)
}

// TestC13DHSweep sweeps the known 2048-bit safe primes x g in -1..9 (accept
// side) and every fixed reject candidate.
func TestC13DHSweep(t *testing.T) {
	st := pbt.NewStats("TestC13DHSweep")
	defer st.Flush()
	all := safeGroups()
	sel := all
	if os.Getenv("VERIF_TIER") != "thorough" {
		// quick: each accepting call costs ~0.5 s (2 x 64 Miller-Rabin rounds on
		// 2048 bits); take the three published primes and three of the ten
		// generated ones, rotated by VERIF_SEED. thorough takes all thirteen.
		seed, _ := strconv.Atoi(os.Getenv("VERIF_SEED"))
		sel = append([]group(nil), all[:3]...)
		for i := 0; i < 3; i++ {
			sel = append(sel, all[3+(seed*3+i)%10])
		}
	}
	for _, grp := range sel {
		var acc []int
		for g := -1; g <= 9; g++ {
			got := crypto.CheckDH(g, grp.P)
			want := g >= 2 && g <= 7 && eulerQR(g, grp.P) // grp.P verified safe by TestRefSelfCheck
			if (got == nil) != want {
				t.Fatalf("CheckDH(g=%d, %s): err=%v, want accept=%v", g, grp.Name, got, want)
			}
			if want {
				acc = append(acc, g)
			}
			st.Case(fmt.Sprintf("%s/%d", grp.Name, g), true, nil, fmt.Sprintf("accept=%v", want))
		}
		st.Class(fmt.Sprintf("%s accepts g=%v", grp.Name, acc))
	}
	// reject side: every fixed candidate with g = 4 (passes the residue table
	// for any p) and with every g in 2..7 that IS a residue by Euler's criterion,
	// so the size / primality checks have to do the rejecting.
	for _, c := range c13Rejects() {
		gs := []int{4}
		if c.P.Cmp(big.NewInt(7)) > 0 && c.P.Bit(0) == 1 {
			for g := 2; g <= 7; g++ {
				if g != 4 && eulerQR(g, c.P) {
					gs = append(gs, g)
					break
				}
			}
		}
		for _, g := range gs {
			if err := crypto.CheckDH(g, c.P); err == nil {
				t.Fatalf("CheckDH(g=%d, %s [%d bits]) accepted", g, c.Name, c.P.BitLen())
			}
			st.Case(fmt.Sprintf("%s/%d", c.Name, g), true, nil, "accept=false", "reject:"+c.Name)
		}
	}
	st.Set("exhaustive", len(sel) == len(all))
	st.Set("groups", len(sel))
}

// TestC13DH: generated candidates, mostly reject side.
func TestC13DH(t *testing.T) {
	st := pbt.NewStats("TestC13DH")
	defer st.Flush()
	rapid.Check(t, func(t *rapid.T) {
		var p *big.Int
		var name string
		class := pick(t, "class", []string{"fixed-reject", "fixed-reject", "fixed-reject", "random-odd", "perturbed-safe", "safe"})
		switch class {
		case "fixed-reject":
			c := pick(t, "cand", c13Rejects())
			p, name = c.P, c.Name
		case "random-odd":
			p = new(big.Int).SetBytes(drawBytes(t, "p", 256))
			p.SetBit(p, 2047, 1)
			p.SetBit(p, 0, 1)
			// keep p = 3 mod 4 half of the time so that cheap filters pass
			if rapid.Bool().Draw(t, "mod4") {
				p.SetBit(p, 1, 1)
			}
			name = "random-odd"
		case "perturbed-safe":
			grp := pick(t, "group", safeGroups())
			d := int64(rapid.IntRange(1, 4096).Draw(t, "delta")) * 2
			if rapid.Bool().Draw(t, "minus") {
				d = -d
			}
			p = new(big.Int).Add(grp.P, big.NewInt(d))
			name = fmt.Sprintf("%s%+d", grp.Name, d)
		case "safe":
			grp := pick(t, "group", safeGroups())
			p, name = grp.P, grp.Name
		}
		// g: mostly 4 (passes the residue table for every p, so the size and
		// primality checks have to do the rejecting) and otherwise any of -1..9.
		g := 4
		if rapid.IntRange(0, 2).Draw(t, "gClass") == 0 {
			g = rapid.IntRange(-1, 9).Draw(t, "g")
		}
		want := c13DHOracle(g, p)
		// the caller's big.Int has a history in a third of the cases: the same
		// object held a published safe prime that was just checked (and
		// accepted) and is then overwritten in place with this case's value
		arg := p
		reused := rapid.IntRange(0, 2).Draw(t, "reusedBigInt") == 0
		if reused {
			prev := pick(t, "previousValue", safeGroups())
			arg = new(big.Int).Set(prev.P)
			if err := crypto.CheckDH(4, arg); err != nil {
				t.Fatalf("CheckDH(g=4, %s): %v", prev.Name, err)
			}
			arg.Set(p)
			class += "+reused-big.Int"
		}
		err := crypto.CheckDH(g, arg)
		if (err == nil) != want {
			t.Fatalf("CheckDH(g=%d, %s [%d bits], big.Int object used before for an accepted prime: %v): err=%v, want accept=%v", g, name, p.BitLen(), reused, err, want)
		}
		if arg.Cmp(p) != 0 {
			t.Fatalf("CheckDH changed its argument")
		}
		nontrivial := p.BitLen() == 2048 && g >= 2 && g <= 7
		st.Case(fmt.Sprintf("%s/%d/%x", name, g, trunc24(p.Bytes())), nontrivial, fmt.Sprintf("%s g=%d accept=%v", name, g, want),
			"class:"+class, fmt.Sprintf("accept=%v", want), fmt.Sprintf("g=%d", g))
	})
}

// ---- (c) CheckDHParams ---------------------------------------------------------

func TestC13Params(t *testing.T) {
	st := pbt.NewStats("TestC13Params")
	defer st.Flush()
	one := big.NewInt(1)
	margin := new(big.Int).Lsh(one, 2048-64)
	rapid.Check(t, func(t *rapid.T) {
		// dh_prime: callers pass a prime that went through CheckDH.
		grp := pick(t, "group", safeGroups())
		p := grp.P
		genVal := func(label string) (*big.Int, string) {
			pm := new(big.Int).Sub(p, margin)
			cands := []struct {
				n string
				v *big.Int
			}{
				{"0", big.NewInt(0)}, {"1", big.NewInt(1)}, {"2", big.NewInt(2)},
				{"2^1984-1", new(big.Int).Sub(margin, one)}, {"2^1984", margin}, {"2^1984+1", new(big.Int).Add(margin, one)},
				{"p-2^1984-1", new(big.Int).Sub(pm, one)}, {"p-2^1984", pm}, {"p-2^1984+1", new(big.Int).Add(pm, one)},
				{"p-2", new(big.Int).Sub(p, big.NewInt(2))}, {"p-1", new(big.Int).Sub(p, one)}, {"p", p}, {"p+1", new(big.Int).Add(p, one)},
			}
			k := uniform(t, label, len(cands)+8)
			if k < len(cands) {
				return cands[k].v, cands[k].n
			}
			switch k - len(cands) {
			case 0: // random below the lower margin
				v := new(big.Int).SetBytes(drawBytes(t, label+"Bytes", rapid.IntRange(1, 248).Draw(t, label+"Len")))
				return v, "random<2^1984"
			case 1: // random above the upper margin
				d := new(big.Int).SetBytes(drawBytes(t, label+"Bytes", rapid.IntRange(1, 247).Draw(t, label+"Len")))
				return new(big.Int).Sub(p, d), "random>p-2^1984"
			default: // random interior
				v := new(big.Int).SetBytes(drawBytes(t, label+"Bytes", 256))
				v.Mod(v, p)
				return v, "random-mod-p"
			}
		}
		gA, ca := genVal("gA")
		gB, cb := genVal("gB")
		var g *big.Int
		cg := "g:2..7"
		switch uniform(t, "gClass", 10) {
		case 0:
			g, cg = genVal("g")
			cg = "g:" + cg
		default:
			g = big.NewInt(int64(rapid.IntRange(2, 7).Draw(t, "g")))
		}
		pm1 := new(big.Int).Sub(p, one)
		inside := func(x, lo, hi *big.Int) bool { return x.Cmp(lo) > 0 && x.Cmp(hi) < 0 }
		upper := new(big.Int).Sub(p, margin)
		want := inside(g, one, pm1) && inside(gA, one, pm1) && inside(gB, one, pm1) &&
			inside(gA, margin, upper) && inside(gB, margin, upper)
		err := crypto.CheckDHParams(p, g, gA, gB)
		if (err == nil) != want {
			t.Fatalf("CheckDHParams(%s, g=%s, g_a=%s, g_b=%s): err=%v, want accept=%v", grp.Name, cg, ca, cb, err, want)
		}
		st.Case(fmt.Sprintf("%s/%s/%s/%s/%x/%x", grp.Name, cg, ca, cb, trunc24(gA.Bytes()), trunc24(gB.Bytes())), true,
			fmt.Sprintf("%s g=%s g_a=%s g_b=%s accept=%v", grp.Name, cg, ca, cb, want),
			"g_a:"+ca, "g_b:"+cb, cg, fmt.Sprintf("accept=%v", want))
	})
}

// ---- (d) DecomposePQ -------------------------------------------------------------

const maxFactor = 3037000499 // floor(sqrt(2^63)): p, q <= maxFactor  =>  pq < 2^63

// windowPrimes returns the primes of a window starting at lo (segmented sieve).
func windowPrimes(lo uint64, width uint64) []uint64 {
	hi := lo + width
	if hi > maxFactor+1 {
		hi = maxFactor + 1
	}
	return ref.PrimesInWindow(lo, hi)
}

// nextPrime64 returns the first prime >= n (n < 2^63). math/big's test is
// exact below 2^64.
func nextPrime64(n uint64) uint64 {
	if n <= 2 {
		return 2
	}
	if n%2 == 0 {
		n++
	}
	for ; ; n += 2 {
		if new(big.Int).SetUint64(n).ProbablyPrime(0) {
			return n
		}
	}
}

func TestC13PQ(t *testing.T) {
	st := pbt.NewStats("TestC13PQ")
	defer st.Flush()
	rapid.Check(t, func(t *rapid.T) {
		var p, q uint64
		// Weights keep the mean cost near 10 ms: the implementation needs
		// 0.2-0.8 s for a 63-bit product of two 31.5-bit primes.
		k := uniform(t, "class", 100)
		var class string
		primeNear := func(label string, lo, hi uint64) []uint64 {
			for {
				start := lo + uint64(uniform(t, label, int(hi-lo)))
				if w := windowPrimes(start, 2000); len(w) >= 2 {
					return w
				}
				// only possible right at the top of the range; move down
				hi = start
			}
		}
		switch {
		case k < 25:
			class = "tiny(<2^8)"
			tbl := ref.SievePrimes(256)
			p, q = uint64(pick(t, "p", tbl)), uint64(pick(t, "q", tbl))
		case k < 50:
			class = "small(<2^16)"
			tbl := ref.SievePrimes(1 << 16)
			p, q = uint64(pick(t, "p", tbl)), uint64(pick(t, "q", tbl))
		case k < 70:
			class = "medium(<2^24)"
			w1 := primeNear("off1", 1<<16, 1<<24)
			w2 := primeNear("off2", 1<<16, 1<<24)
			p, q = pick(t, "p", w1), pick(t, "q", w2)
		case k < 80:
			class = "large(<2^29)"
			w1 := primeNear("off1", 1<<24, 1<<29)
			w2 := primeNear("off2", 1<<24, 1<<29)
			p, q = pick(t, "p", w1), pick(t, "q", w2)
		case k < 84:
			class = "full(2^30..2^31.5)"
			w1 := primeNear("off1", 1<<30, maxFactor-2000)
			w2 := primeNear("off2", 1<<30, maxFactor-2000)
			p, q = pick(t, "p", w1), pick(t, "q", w2)
		case k < 86:
			class = "full-adjacent"
			w := primeNear("off1", 1<<30, maxFactor-2000)
			i := uniform(t, "i", len(w)-1)
			// prefer a twin pair if the window has one
			for j := 0; j+1 < len(w); j++ {
				if w[j+1]-w[j] == 2 {
					i = j
					break
				}
			}
			p, q = w[i], w[i+1]
		case k < 87:
			class = "top-of-range"
			w := windowPrimes(maxFactor-1500, 1501)
			p, q = w[len(w)-1-uniform(t, "i", 3)], w[len(w)-1-uniform(t, "j", 3)]
		case k < 93:
			class = "square(p=q)"
			w := primeNear("off1", 2, 1<<26)
			p = pick(t, "p", w)
			q = p
		default:
			class = "unbalanced"
			// small factor below 2^20, cofactor up to 2^63/p (pq < 2^63)
			tbl := ref.SievePrimes(1 << 20)
			p = uint64(pick(t, "p", tbl))
			limit := (uint64(1)<<63 - 1) / p
			start := 2 + uint64(pbt.NewStream(drawSeed(t, "qSeed")).Uint64()%(limit-2000))
			q = nextPrime64(start)
		}
		if p > q {
			p, q = q, p
		}
		pq := new(big.Int).Mul(new(big.Int).SetUint64(p), new(big.Int).SetUint64(q))
		if pq.BitLen() > 63 {
			t.Fatalf("harness: pq has %d bits", pq.BitLen())
		}
		s, seed := drawStream(t, "rand")
		gp, gq, err := crypto.DecomposePQ(new(big.Int).Set(pq), s)
		if err != nil {
			t.Fatalf("DecomposePQ(%s = %d*%d): %v", pq, p, q, err)
		}
		if gp == nil || gq == nil || !gp.IsUint64() || !gq.IsUint64() || gp.Uint64() != p || gq.Uint64() != q {
			t.Fatalf("DecomposePQ(%s) = (%v, %v), want (%d, %d) [stream seed %d]", pq, gp, gq, p, q, seed)
		}
		st.Case(fmt.Sprintf("%d*%d/%d", p, q, seed), p != q, fmt.Sprintf("%d*%d (%d bits)", p, q, pq.BitLen()), "class:"+class, fmt.Sprintf("bits=%d", pq.BitLen()/8*8))
	})
}
