package c_crypto

import (
	"bytes"
	"crypto/rsa"
	"crypto/x509"
	"encoding/pem"
	"fmt"
	"io"
	"math/big"
	"strings"
	"sync"

	"github.com/gotd/td/bin"
	"github.com/gotd/td/crypto"
	"github.com/gotd/td/testutil"
	"pgregory.net/rapid"

	"verifharness/pbt"
)

// ---- auth keys --------------------------------------------------------------

// genAuthKey draws a 2048-bit auth key. Any 256 bytes are a possible key
// (auth_key = g^ab mod p serialized to 256 bytes, leading zero bytes allowed).
func genAuthKey(t *rapid.T, label string) (crypto.AuthKey, string) {
	var k crypto.Key
	class := "key:random"
	switch rapid.IntRange(0, 15).Draw(t, label+"Class") {
	case 0:
		// leading zero bytes (a small shared secret)
		copy(k[:], drawBytes(t, label, 256))
		n := rapid.IntRange(1, 200).Draw(t, label+"Zeros")
		for i := 0; i < n; i++ {
			k[i] = 0
		}
		class = "key:leading-zeros"
	case 1:
		b := rapid.SampledFrom([]byte{0x01, 0x80, 0xff}).Draw(t, label+"Fill")
		for i := range k {
			k[i] = b
		}
		class = "key:constant-bytes"
	default:
		copy(k[:], drawBytes(t, label, 256))
	}
	return k.WithID(), class
}

// genAuthKeyDistinctSides draws keys for the properties that rely on the two
// directions deriving different keys (C05 reflection). MTProto's only
// protection against reflection is the offset x = 0 / 8 into auth_key, so a
// key whose bytes 0..128 are invariant under a shift by 8 (constant bytes,
// >= 128 leading zeros) derives the same msg_key/aes_key for both directions
// by specification; such keys (probability < 2^-900 for g^ab mod p) are not
// part of the claim. Random bytes with at most 7 leading zero bytes are used.
func genAuthKeyDistinctSides(t *rapid.T, label string) (crypto.AuthKey, string) {
	var k crypto.Key
	copy(k[:], drawBytes(t, label, 256))
	class := "key:random"
	if n := rapid.IntRange(0, 7).Draw(t, label+"Zeros"); n > 0 {
		for i := 0; i < n; i++ {
			k[i] = 0
		}
		class = "key:leading-zeros"
	}
	return k.WithID(), class
}

// rawEncoder is a bin.Encoder emitting fixed bytes (the Message path of
// EncryptedMessageData used by mtproto.Conn when compression is off).
type rawEncoder struct{ b []byte }

func (r rawEncoder) Encode(b *bin.Buffer) error {
	b.Put(r.b)
	return nil
}

// firstByteReader yields one chosen byte and then the stream: Cipher.Encrypt
// reads exactly one byte to pick the number of extra padding blocks (low
// nibble) and then the padding itself.
func firstByteReader(first byte, s io.Reader) io.Reader {
	return io.MultiReader(bytes.NewReader([]byte{first}), s)
}

func hexShort(b []byte) string {
	if len(b) > 16 {
		return fmt.Sprintf("%x..(%d)", b[:16], len(b))
	}
	return fmt.Sprintf("%x", b)
}

// ---- DH groups --------------------------------------------------------------

// Well-known 2048-bit safe primes.
const (
	// Telegram's production DH prime (core.telegram.org/mtproto/security_guidelines; also the SRP prime).
	telegramPrimeHex = "C71CAEB9C6B1C9048E6C522F70F13F73980D40238E3E21C14934D037563D930F" +
		"48198A0AA7C14058229493D22530F4DBFA336F6E0AC925139543AED44CCE7C37" +
		"20FD51F69458705AC68CD4FE6B6B13ABDC9746512969328454F18FAF8C595F64" +
		"2477FE96BB2A941D5BCD1D4AC8CC49880708FA9B378E3C4F3A9060BEE67CF9A4" +
		"A4A695811051907E162753B56B0F6B410DBA74D8A84B2A14B3144E0EF1284754" +
		"FD17ED950D5965B4B9DD46582DB1178D169C6BC465B0D6FF9CA3928FEF5B9AE4" +
		"E418FC15E83EBEA0F87FA9FF5EED70050DED2849F47BF959D956850CE929851F" +
		"0D8115F635B105EE2E4E15D04B2454BF6F4FADF034B10403119CD8E3B92FCC5B"
	// RFC 3526 group 14.
	rfc3526Group14Hex = "FFFFFFFFFFFFFFFFC90FDAA22168C234C4C6628B80DC1CD129024E088A67CC74" +
		"020BBEA63B139B22514A08798E3404DDEF9519B3CD3A431B302B0A6DF25F1437" +
		"4FE1356D6D51C245E485B576625E7EC6F44C42E9A637ED6B0BFF5CB6F406B7ED" +
		"EE386BFB5A899FA5AE9F24117C4B1FE649286651ECE45B3DC2007CB8A163BF05" +
		"98DA48361C55D39A69163FA8FD24CF5F83655D23DCA3AD961C62F356208552BB" +
		"9ED529077096966D670C354E4ABC9804F1746C08CA18217C32905E462E36CE3B" +
		"E39E772C180E86039B2783A2EC07A28FB5C55DF06F4C52C9DE2BCBF695581718" +
		"3995497CEA956AE515D2261898FA051015728E5A8AACAA68FFFFFFFFFFFFFFFF"
	// RFC 7919 ffdhe2048.
	ffdhe2048Hex = "FFFFFFFFFFFFFFFFADF85458A2BB4A9AAFDC5620273D3CF1D8B9C583CE2D3695" +
		"A9E13641146433FBCC939DCE249B3EF97D2FE363630C75D8F681B202AEC4617A" +
		"D3DF1ED5D5FD65612433F51F5F066ED0856365553DED1AF3B557135E7F57C935" +
		"984F0C70E0E68B77E2A689DAF3EFE8721DF158A136ADE73530ACCA4F483A797A" +
		"BC0AB182B324FB61D108A94BB2C8E3FBB96ADAB760D7F4681D4F42A3DE394DF4" +
		"AE56EDE76372BB190B07A7C8EE0A6D709E02FCE1CDF7E2ECC03404CD28342F61" +
		"9172FE9CE98583FF8E4F1232EEF28183C3FE3B1B4C6FAD733BB5FCBC2EC22005" +
		"C58EF1837D1683B2C6F34A26C1B2EFFA886B423861285C97FFFFFFFFFFFFFFFF"
)

type group struct {
	Name string
	P    *big.Int
}

func mustHex(s string) *big.Int {
	v, ok := new(big.Int).SetString(s, 16)
	if !ok {
		panic("bad hex")
	}
	return v
}

var (
	groupsOnce sync.Once
	groups     []group
)

// safeGroups returns the thirteen 2048-bit safe primes the harness knows:
// three published ones and ten generated with OpenSSL (material_test.go).
// Generating fresh 2048-bit safe primes per case costs tens of seconds each,
// so the accept side of CheckDH and the SRP groups draw from this fixed set.
func safeGroups() []group {
	groupsOnce.Do(func() {
		groups = []group{
			{"telegram", mustHex(telegramPrimeHex)},
			{"rfc3526-14", mustHex(rfc3526Group14Hex)},
			{"ffdhe2048", mustHex(ffdhe2048Hex)},
		}
		for i, h := range generatedSafePrimes {
			groups = append(groups, group{fmt.Sprintf("gen%d", i+1), mustHex(h)})
		}
	})
	return groups
}

// validGs lists, by Euler's criterion (not by the mod-4g table under test),
// the generators 2..7 that are quadratic residues mod p.
func validGs(p *big.Int) []int {
	var out []int
	for g := 2; g <= 7; g++ {
		if eulerQR(g, p) {
			out = append(out, g)
		}
	}
	return out
}

// ---- RSA keys ---------------------------------------------------------------

type rsaKey struct {
	Name string
	Key  *rsa.PrivateKey
}

var (
	rsaOnce sync.Once
	rsaKeys []rsaKey
)

func parseRSAPEM(s string) *rsa.PrivateKey {
	blk, _ := pem.Decode([]byte(strings.TrimSpace(s)))
	if blk == nil {
		panic("bad pem")
	}
	k, err := x509.ParsePKCS1PrivateKey(blk.Bytes)
	if err != nil {
		panic(err)
	}
	return k
}

// testRSAKeys: the repository's test key and two more fixed 2048-bit keys.
// (Servers use 2048-bit keys; rsaEncrypt writes exactly 256 bytes.)
func testRSAKeys() []rsaKey {
	rsaOnce.Do(func() {
		rsaKeys = []rsaKey{
			{"testutil", testutil.RSAPrivateKey()},
			{"fixed1", parseRSAPEM(rsaTestKey1PEM)},
			{"fixed2", parseRSAPEM(rsaTestKey2PEM)},
		}
	})
	return rsaKeys
}

// ---- uniform choices ----------------------------------------------------------

// uniform draws an integer in [0, n) with a flat distribution. rapid's integer
// generators are deliberately biased towards small values and the range ends
// (measured: a 30 % class came out at 73 %), which is wrong for class weights;
// here 64 atom-free bits (drawSeed) are whitened through the AES-CTR stream.
func uniform(t *rapid.T, label string, n int) int {
	return int(pbt.NewStream(drawSeed(t, label)^0x9e3779b97f4a7c15).Uint64() % uint64(n))
}

// drawSeed draws 64 bits without heavy atoms: rapid.Uint64 returns 0, 1 and a
// few other values several per cent of the time each (measured: the top value
// had 5.7 % of 50 000 draws), which makes "random" keys, streams and class
// choices collide; eight separately drawn bytes never collided in the same
// measurement. Shrinks towards zero bytes.
func drawSeed(t *rapid.T, label string) uint64 {
	bs := rapid.SliceOfN(rapid.Byte(), 8, 8).Draw(t, label)
	var v uint64
	for _, b := range bs {
		v = v<<8 | uint64(b)
	}
	return v
}

// drawStream / drawBytes are pbt.DrawStream / pbt.DrawBytes over drawSeed.
func drawStream(t *rapid.T, label string) (*pbt.Stream, uint64) {
	seed := drawSeed(t, label)
	return pbt.NewStream(seed), seed
}

func drawBytes(t *rapid.T, label string, n int) []byte {
	s, _ := drawStream(t, label)
	return s.Bytes(n)
}

// uniformRange is uniform over [lo, hi].
func uniformRange(t *rapid.T, label string, lo, hi int) int {
	return lo + uniform(t, label, hi-lo+1)
}

// pick is a flat choice from a slice.
func pick[T any](t *rapid.T, label string, xs []T) T {
	return xs[uniform(t, label, len(xs))]
}
