package c_crypto

import (
	"bytes"
	"fmt"
	"testing"

	"github.com/gotd/td/bin"
	"github.com/gotd/td/crypto"
	"pgregory.net/rapid"

	"verifharness/pbt"
	"verifharness/pbt/ref"
)

// C04 (crypto-level part): a message encrypted by one side decrypts on the
// other side to the same header fields and payload; body % 16 == 0; padding in
// [12, 1024]. Cross-checked with the reference decryptor / encryptor.

// Payload lengths: the quantifier says 0 .. maximum message size, aligned to 4
// (TL-serialized bodies are always 4-byte aligned; Decrypt refuses others).
var c04SmallLens = []int{0, 4, 8, 12, 16, 20, 24, 28, 32, 36, 40, 44, 48, 52, 60, 64, 96, 100, 1020, 1024, 1028}

const (
	c04MiB = 1 << 20
	// transport frame limit in gotd/td codecs is 16 MiB for the whole frame:
	// 24 bytes envelope + 32 bytes header + payload + padding(<=252 here).
	c04MaxPayload = 16*c04MiB - 24 - 32 - 256
)

// Weights: the 1 MiB class costs ~60 ms and the 16 MiB class ~650 ms per case
// (five IGE passes over the body), so they get 0.3 % and 0.03 %.
func genPayloadLen(t *rapid.T) (int, string) {
	switch c := uniform(t, "lenClass", 10000); {
	case c < 3000:
		return pick(t, "len", c04SmallLens), "len:boundary"
	case c < 9000:
		return 4 * uniformRange(t, "len4", 0, 300), "len:0..1200"
	case c < 9967:
		return 4 * uniformRange(t, "len4", 300, 16384), "len:1.2K..64K"
	case c < 9997:
		return pick(t, "len", []int{c04MiB - 4, c04MiB, c04MiB + 4, c04MiB + 20}), "len:1MiB"
	default:
		return pick(t, "len", []int{c04MaxPayload, c04MaxPayload - 4, c04MaxPayload - 12, 8 * c04MiB}) &^ 3, "len:16MiB"
	}
}

type c04Case struct {
	Key        crypto.AuthKey
	KeyClass   string
	Salt       int64
	Session    int64
	MsgID      int64
	SeqNo      int32
	Payload    []byte
	LenClass   string
	FromServer bool // direction: true = server encrypts, client decrypts
	Path       string
	RandByte   byte
	RandSeed   uint64
}

func genC04Case(t *rapid.T) c04Case {
	var c c04Case
	c.Key, c.KeyClass = genAuthKey(t, "key")
	i64 := rapid.OneOf(rapid.SampledFrom([]int64{0, 1, -1, 1<<63 - 1, -1 << 63}), rapid.Int64())
	c.Salt = i64.Draw(t, "salt")
	c.Session = i64.Draw(t, "session")
	c.MsgID = i64.Draw(t, "msgID")
	c.SeqNo = rapid.OneOf(rapid.SampledFrom([]int32{0, 1, -1, 1<<31 - 1, -1 << 31}), rapid.Int32()).Draw(t, "seqNo")
	n, lc := genPayloadLen(t)
	c.LenClass = lc
	c.Payload = drawBytes(t, "payload", n)
	c.FromServer = rapid.Bool().Draw(t, "fromServer")
	// mtproto.Conn uses Message (no-copy) when compression is off and
	// MessageDataWithPadding+MessageDataLen otherwise; tgtest uses the latter.
	c.Path = rapid.SampledFrom([]string{"raw", "encoder"}).Draw(t, "path")
	c.RandByte = byte(uniform(t, "randByte", 256))
	c.RandSeed = drawSeed(t, "randSeed")
	return c
}

func (c c04Case) ciphers() (enc, dec crypto.Cipher) {
	r := firstByteReader(c.RandByte, pbt.NewStream(c.RandSeed))
	if c.FromServer {
		return crypto.NewServerCipher(r), crypto.NewClientCipher(nil)
	}
	return crypto.NewClientCipher(r), crypto.NewServerCipher(nil)
}

func (c c04Case) data() crypto.EncryptedMessageData {
	d := crypto.EncryptedMessageData{
		Salt:      c.Salt,
		SessionID: c.Session,
		MessageID: c.MsgID,
		SeqNo:     c.SeqNo,
	}
	if c.Path == "encoder" {
		d.Message = rawEncoder{c.Payload}
	} else {
		d.MessageDataLen = int32(len(c.Payload))
		d.MessageDataWithPadding = append([]byte(nil), c.Payload...)
	}
	return d
}

func (c c04Case) checkDecoded(t interface{ Fatalf(string, ...any) }, who string, m *crypto.EncryptedMessageData) {
	if m == nil {
		t.Fatalf("%s: nil message without error", who)
	}
	if m.Salt != c.Salt || m.SessionID != c.Session || m.MessageID != c.MsgID || m.SeqNo != c.SeqNo {
		t.Fatalf("%s: header mismatch: got salt=%d session=%d id=%d seq=%d want %d %d %d %d",
			who, m.Salt, m.SessionID, m.MessageID, m.SeqNo, c.Salt, c.Session, c.MsgID, c.SeqNo)
	}
	if int(m.MessageDataLen) != len(c.Payload) {
		t.Fatalf("%s: MessageDataLen=%d want %d", who, m.MessageDataLen, len(c.Payload))
	}
	if !bytes.Equal(m.Data(), c.Payload) {
		t.Fatalf("%s: payload mismatch (len %d)", who, len(c.Payload))
	}
}

// c04Check runs the whole oracle for one case and returns the padding the
// implementation chose.
func c04Check(t interface{ Fatalf(string, ...any) }, c c04Case) int {
	enc, dec := c.ciphers()
	var buf bin.Buffer
	if err := enc.Encrypt(c.Key, c.data(), &buf); err != nil {
		t.Fatalf("Encrypt: %v", err)
	}
	wire := append([]byte(nil), buf.Buf...)
	if len(wire) < 24 || (len(wire)-24)%16 != 0 {
		t.Fatalf("encrypted body length %d is not a multiple of 16", len(wire)-24)
	}
	padding := len(wire) - 24 - 32 - len(c.Payload)
	if padding < 12 || padding > 1024 {
		t.Fatalf("padding %d outside [12,1024] (payload %d, randByte %#x)", padding, len(c.Payload), c.RandByte)
	}

	// reference decrypts what the implementation produced
	salt, sess, id, seq, payload, padLen, err := ref.DecryptMessage([256]byte(c.Key.Value), c.FromServer, wire)
	if err != nil {
		t.Fatalf("reference cannot decrypt implementation output: %v", err)
	}
	if salt != c.Salt || sess != c.Session || id != c.MsgID || seq != c.SeqNo || !bytes.Equal(payload, c.Payload) || padLen != padding {
		t.Fatalf("reference decrypts implementation output to different fields (salt %d session %d id %d seq %d len %d pad %d)",
			salt, sess, id, seq, len(payload), padLen)
	}

	// the other side of the implementation decrypts it, both entry points
	m, err := dec.DecryptFromBuffer(c.Key, &bin.Buffer{Buf: append([]byte(nil), wire...)})
	if err != nil {
		t.Fatalf("DecryptFromBuffer on the other side: %v", err)
	}
	c.checkDecoded(t, "DecryptFromBuffer", m)
	var em crypto.EncryptedMessage
	if err := em.Decode(&bin.Buffer{Buf: append([]byte(nil), wire...)}); err != nil {
		t.Fatalf("EncryptedMessage.Decode: %v", err)
	}
	m2, err := dec.Decrypt(c.Key, &em)
	if err != nil {
		t.Fatalf("Decrypt on the other side: %v", err)
	}
	c.checkDecoded(t, "Decrypt", m2)
	// a receiver value that held another frame before (shorter, equal or longer,
	// by the case's own stream): what that frame left behind is not part of this one
	{
		ps := pbt.NewStream(c.RandSeed ^ 0x0ddba11)
		prev := ps.Bytes(24 + 16*int(ps.Uint64()%160))
		var reused crypto.EncryptedMessage
		if err := reused.Decode(&bin.Buffer{Buf: prev}); err != nil {
			t.Fatalf("EncryptedMessage.Decode(previous frame of %d bytes): %v", len(prev), err)
		}
		if err := reused.Decode(&bin.Buffer{Buf: append([]byte(nil), wire...)}); err != nil {
			t.Fatalf("EncryptedMessage.Decode into a reused value: %v", err)
		}
		if len(reused.EncryptedData) != len(wire)-24 {
			t.Fatalf("EncryptedMessage reused after a %d-byte frame holds %d bytes of encrypted data, the wire has %d", len(prev), len(reused.EncryptedData), len(wire)-24)
		}
		m4, err := dec.Decrypt(c.Key, &reused)
		if err != nil {
			t.Fatalf("Decrypt of a frame decoded into a reused EncryptedMessage (previous frame %d bytes, this one %d): %v", len(prev), len(wire), err)
		}
		c.checkDecoded(t, "Decrypt(reused receiver)", m4)
	}

	// the implementation decrypts what the reference produces, with a padding
	// length chosen independently of the implementation's choice.
	s := pbt.NewStream(c.RandSeed ^ 0x5a5a5a5a)
	base := (16 - (32+len(c.Payload))%16) % 16
	if base < 12 {
		base += 16
	}
	maxExtra := (1024 - base) / 16
	refPad := base + 16*int(s.Uint64()%uint64(maxExtra+1))
	refWire := ref.EncryptMessage([256]byte(c.Key.Value), c.FromServer, c.Salt, c.Session, c.MsgID, c.SeqNo, c.Payload, s.Bytes(refPad))
	m3, err := dec.DecryptFromBuffer(c.Key, &bin.Buffer{Buf: refWire})
	if err != nil {
		t.Fatalf("implementation cannot decrypt reference output (padding %d): %v", refPad, err)
	}
	c.checkDecoded(t, "DecryptFromBuffer(reference wire)", m3)
	if got := len(m3.MessageDataWithPadding) - int(m3.MessageDataLen); got != refPad {
		t.Fatalf("padding seen by implementation %d, reference used %d", got, refPad)
	}
	return padding
}

func TestC04(t *testing.T) {
	st := pbt.NewStats("TestC04")
	defer st.Flush()
	rapid.Check(t, func(t *rapid.T) {
		c := genC04Case(t)
		padding := c04Check(t, c)
		dir := "dir:client->server"
		if c.FromServer {
			dir = "dir:server->client"
		}
		n := len(c.Payload)
		nontrivial := n%16 != 0 || n > 16
		key := fmt.Sprintf("%d/%x/%v", n, c.RandByte&0x0f, c.FromServer)
		st.Case(key, nontrivial,
			fmt.Sprintf("len=%d nibble=%x %s path=%s padding=%d", n, c.RandByte&0x0f, dir, c.Path, padding),
			dir, c.LenClass, "path:"+c.Path, c.KeyClass, fmt.Sprintf("nibble:%x", c.RandByte&0x0f), fmt.Sprintf("len%%16=%d", n%16))
	})
}

// TestC04Sweep is the deterministic part: every payload length 0..2048 step 4
// x every low nibble x both directions (the "all 16 values of the nibble are
// forced to occur" requirement of the design, made exhaustive for small sizes).
func TestC04Sweep(t *testing.T) {
	st := pbt.NewStats("TestC04Sweep")
	defer st.Flush()
	var key crypto.Key
	copy(key[:], pbt.NewStream(4).Bytes(256))
	for n := 0; n <= 2048; n += 4 {
		for nib := 0; nib < 16; nib++ {
			for _, fromServer := range []bool{false, true} {
				c := c04Case{
					Key: key.WithID(), Salt: int64(n) * 77, Session: -5, MsgID: int64(nib) << 32, SeqNo: int32(n + nib),
					Payload: pbt.NewStream(uint64(n)).Bytes(n), FromServer: fromServer,
					Path: []string{"raw", "encoder"}[(n/4+nib)%2], RandByte: byte(nib) | byte(n<<2)&0xf0, RandSeed: uint64(n*16 + nib),
				}
				padding := c04Check(t, c)
				st.Case(fmt.Sprintf("%d/%x/%v", n, nib, fromServer), n%16 != 0 || n > 16, nil, fmt.Sprintf("padding=%d", padding))
			}
		}
	}
	st.Set("exhaustive", true)
}
