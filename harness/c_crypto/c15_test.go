package c_crypto

import (
	"bytes"
	"fmt"
	"math/big"
	"strings"
	"testing"

	"github.com/gotd/td/crypto/srp"
	"pgregory.net/rapid"

	"verifharness/pbt"
	"verifharness/pbt/ref"
)

// C15: (A, M1) equals the value defined by Telegram's SRP specification; a
// verifier holding v accepts it exactly when the password is the one v was
// made from; invalid groups are refused.

type c15Case struct {
	Group     group
	G         int
	Password  []byte
	Salt1     []byte
	Salt2     []byte
	A         []byte // client secret a, 256 bytes as handed to Hash
	BSecret   *big.Int
	Scenario  string // "right", "wrong", "arbitraryB"
	ShortS    bool   // search a client secret whose shared secret s_a has a zero top byte
	WrongPass []byte
	ArbB      *big.Int
}

func genBytesField(t *rapid.T, label string, maxLen int) []byte {
	n := rapid.OneOf(rapid.SampledFrom([]int{0, 1, 8, 16, 32, 40, 64}), rapid.IntRange(0, maxLen)).Draw(t, label+"Len")
	if n > maxLen {
		n = maxLen
	}
	b := drawBytes(t, label, n)
	if n > 0 && rapid.IntRange(0, 5).Draw(t, label+"Kind") == 0 {
		// printable password-like content
		for i := range b {
			b[i] = 'a' + b[i]%26
		}
	}
	return b
}

func genC15(t *rapid.T) c15Case {
	var c c15Case
	c.Group = pick(t, "group", safeGroups())
	gs := validGs(c.Group.P)
	c.G = pick(t, "g", gs)
	// passwords are arbitrary byte strings at this layer (callers pass []byte;
	// non-UTF-8 included), salts are server-chosen bytes.
	c.Password = genBytesField(t, "password", 64)
	c.Salt1 = genBytesField(t, "salt1", 64)
	c.Salt2 = genBytesField(t, "salt2", 64)
	// client secret a: "random 2048-bit number"; callers pass 256 random bytes.
	c.A = drawBytes(t, "a", 256)
	switch uniform(t, "aClass", 8) {
	case 0: // leading zero bytes
		z := rapid.IntRange(1, 255).Draw(t, "aZeros")
		for i := 0; i < z; i++ {
			c.A[i] = 0
		}
	case 1: // tiny secret: g_a has leading zeros that must be padded
		for i := range c.A {
			c.A[i] = 0
		}
		c.A[255] = byte(rapid.IntRange(1, 9).Draw(t, "aSmall"))
	}
	c.BSecret = new(big.Int).SetBytes(drawBytes(t, "b", 256))
	// s_a < 2^2040 happens once in 256 random cases; "numbers ... padded to
	// 2048 bits" matters exactly there, so a third of the cases force it.
	c.ShortS = uniform(t, "shortSecret", 3) == 0
	switch k := uniform(t, "scenario", 10); {
	case k < 4:
		c.Scenario = "right"
	case k < 8:
		c.Scenario = "wrong"
		// wrong password: unrelated bytes, or a near miss
		switch rapid.IntRange(0, 2).Draw(t, "wrongKind") {
		case 0:
			c.WrongPass = genBytesField(t, "wrongPassword", 64)
		case 1:
			c.WrongPass = append(append([]byte(nil), c.Password...), 0)
		default:
			c.WrongPass = append([]byte(nil), c.Password...)
			if len(c.WrongPass) > 0 {
				c.WrongPass[len(c.WrongPass)-1] ^= 1
			} else {
				c.WrongPass = []byte{' '}
			}
		}
		if bytes.Equal(c.WrongPass, c.Password) {
			c.WrongPass = append(c.WrongPass, 'x')
		}
	default:
		c.Scenario = "arbitraryB"
		// any server value 0 < B < p (the specification's formulas are total
		// on that range); includes values with leading zero bytes.
		v := new(big.Int).SetBytes(drawBytes(t, "B", rapid.SampledFrom([]int{256, 256, 255, 200, 32, 1}).Draw(t, "BLen")))
		v.Mod(v, c.Group.P)
		if v.Sign() == 0 {
			v.SetInt64(1)
		}
		c.ArbB = v
	}
	return c
}

func TestC15(t *testing.T) {
	st := pbt.NewStats("TestC15")
	defer st.Flush()
	rapid.Check(t, func(t *rapid.T) {
		c := genC15(t)
		params := ref.SRPParams{G: c.G, P: c.Group.P, Salt1: c.Salt1, Salt2: c.Salt2}
		in := srp.Input{Salt1: c.Salt1, Salt2: c.Salt2, G: c.G, P: ref.SRPPad(c.Group.P)}
		s := srp.NewSRP(pbt.NewStream(1))
		a := new(big.Int).SetBytes(c.A)

		// the verifier is made from the true password
		x := ref.SRPX(c.Password, c.Salt1, c.Salt2)
		v := params.SRPVerifierV(x)
		var B *big.Int
		if c.Scenario == "arbitraryB" {
			B = c.ArbB
		} else {
			B = params.SRPServerB(v, c.BSecret)
			if B.Sign() == 0 {
				t.Skip("B = 0 (probability 2^-2048)")
			}
		}
		// srp_B travels as bytes; the server sends 256 bytes. For arbitrary B
		// also the minimal big-endian form is tried (a peer may strip zeros;
		// "numbers ... padded to 2048 bits" when hashed).
		srpB := ref.SRPPad(B)
		bForm := "B:256"
		if c.Scenario == "arbitraryB" && rapid.Bool().Draw(t, "minimalB") {
			srpB = B.Bytes()
			bForm = fmt.Sprintf("B:%d", len(srpB)/32*32)
		}

		used := c.Password
		if c.Scenario == "wrong" {
			used = c.WrongPass
		}
		xu := x
		if c.Scenario == "wrong" {
			xu = ref.SRPX(used, c.Salt1, c.Salt2)
		}
		sClass := "s_a:full"
		if c.ShortS {
			// deterministic search from the drawn a: a, a+1, ... (a stays a
			// 2048-bit value; the few cases where a+i overflows are skipped)
			for i := 0; i < 6000; i++ {
				if params.SRPSharedSecret(xu, a, B).BitLen() <= 2040 {
					sClass = "s_a:short"
					break
				}
				a.Add(a, big.NewInt(1))
			}
			if a.BitLen() > 2048 {
				t.Skip("a overflowed 2048 bits")
			}
			a.FillBytes(c.A)
		} else if params.SRPSharedSecret(xu, a, B).BitLen() <= 2040 {
			sClass = "s_a:short"
		}
		ans, err := s.Hash(used, srpB, c.A, in)
		if err != nil {
			t.Fatalf("Hash(group %s, g=%d): %v", c.Group.Name, c.G, err)
		}
		// (1) equals the specification's value for the password that was used
		wantA, wantM1 := params.SRPClientAnswer(xu, a, B)
		if !bytes.Equal(ans.A, wantA) {
			t.Fatalf("A mismatch (group %s g=%d): got %s want %s", c.Group.Name, c.G, hexShort(ans.A), hexShort(wantA))
		}
		if !bytes.Equal(ans.M1, wantM1) {
			t.Fatalf("M1 mismatch (group %s g=%d scenario %s, |password|=%d |salt1|=%d |salt2|=%d): got %x want %x",
				c.Group.Name, c.G, c.Scenario, len(used), len(c.Salt1), len(c.Salt2), ans.M1, wantM1)
		}
		// (2) the verifier accepts exactly for the right password
		if c.Scenario != "arbitraryB" {
			ok := params.SRPServerCheck(v, c.BSecret, ans.A, ans.M1)
			if ok != (c.Scenario == "right") {
				t.Fatalf("verifier accepted=%v for scenario %q (group %s g=%d)", ok, c.Scenario, c.Group.Name, c.G)
			}
		}
		st.Case(fmt.Sprintf("%s/%d/%x/%x/%x/%x/%s", c.Group.Name, c.G, c.Password, c.Salt1, c.Salt2, c.A[224:], c.Scenario), true,
			fmt.Sprintf("%s g=%d |pw|=%d |s1|=%d |s2|=%d %s %s", c.Group.Name, c.G, len(c.Password), len(c.Salt1), len(c.Salt2), c.Scenario, bForm),
			"scenario:"+c.Scenario, "group:"+c.Group.Name, fmt.Sprintf("g=%d", c.G), bForm, sClass)
	})
}

// TestC15Invalid: groups from C13's reject set, or a g that is not a residue,
// make Hash and NewHash fail.
func TestC15Invalid(t *testing.T) {
	st := pbt.NewStats("TestC15Invalid")
	defer st.Flush()
	rapid.Check(t, func(t *rapid.T) {
		var p *big.Int
		var g int
		var name string
		if rapid.Bool().Draw(t, "badPrime") {
			// cheap rejects only (the slow ones are C13's business)
			var cands []dhCandidate
			for _, c := range c13Rejects() {
				if !c.Slow && c.P.Sign() > 0 {
					cands = append(cands, c)
				}
			}
			c := pick(t, "cand", cands)
			p, name = c.P, c.Name
			g = rapid.IntRange(2, 7).Draw(t, "g")
		} else {
			grp := pick(t, "group", safeGroups())
			p, name = grp.P, grp.Name+"/bad-g"
			var bad []int
			for x := -1; x <= 9; x++ {
				if !(x >= 2 && x <= 7 && eulerQR(x, p)) {
					bad = append(bad, x)
				}
			}
			g = pick(t, "g", bad)
		}
		if c13DHOracle(g, p) {
			t.Skip("candidate is valid after all")
		}
		in := srp.Input{Salt1: drawBytes(t, "s1", 8), Salt2: drawBytes(t, "s2", 16), G: g, P: p.Bytes()}
		s := srp.NewSRP(pbt.NewStream(2))
		primed := "fresh"
		if gs := validGs(p); !strings.HasSuffix(name, "/bad-g") || len(gs) == 0 {
			// (an invalid modulus has no valid generator to be used with first)
		} else if rapid.Bool().Draw(t, "usedWithValidGFirst") {
			// the same modulus was used with a valid generator earlier in this
			// process (every real login does that): the refusal must not depend on
			// what was checked before
			ok := srp.Input{Salt1: in.Salt1, Salt2: in.Salt2, G: pick(t, "validG", gs), P: in.P}
			if _, _, err := s.NewHash([]byte("password"), ok); err != nil {
				t.Fatalf("NewHash with the valid group %s g=%d: %v", name, ok.G, err)
			}
			primed = "after-valid-use-of-p"
		}
		ans, err := s.Hash([]byte("password"), ref.SRPPad(big.NewInt(12345)), drawBytes(t, "a", 256), in)
		if err == nil {
			t.Fatalf("Hash accepted invalid group %s g=%d (A %d bytes)", name, g, len(ans.A))
		}
		if h, _, err := s.NewHash([]byte("password"), in); err == nil {
			t.Fatalf("NewHash accepted invalid group %s g=%d (%d bytes)", name, g, len(h))
		}
		st.Case(fmt.Sprintf("%s/%d/%s", name, g, primed), true, nil, "cand:"+name, fmt.Sprintf("g=%d", g), primed)
	})
}

// TestC15NewHash: the new-password hash is v = g^x mod p for salt1 extended by
// 32 random bytes (core.telegram.org/api/srp#setting-a-new-2fa-password),
// padded to 2048 bits.
func TestC15NewHash(t *testing.T) {
	st := pbt.NewStats("TestC15NewHash")
	defer st.Flush()
	rapid.Check(t, func(t *rapid.T) {
		grp := pick(t, "group", safeGroups())
		g := pick(t, "g", validGs(grp.P))
		password := genBytesField(t, "password", 64)
		salt1 := genBytesField(t, "salt1", 64)
		salt2 := genBytesField(t, "salt2", 64)
		rnd, seed := drawStream(t, "rand")
		s := srp.NewSRP(rnd)
		// salt1 as the caller holds it: a slice of a larger buffer (0..64 bytes
		// of the caller's own data behind it), as a field decoded out of a
		// message is
		spare := rapid.SampledFrom([]int{0, 0, 8, 32, 33, 64}).Draw(t, "bytesBehindSalt1")
		backing := make([]byte, len(salt1)+spare)
		copy(backing, salt1)
		for i := len(salt1); i < len(backing); i++ {
			backing[i] = 0xC3
		}
		in := srp.Input{Salt1: backing[:len(salt1)], Salt2: salt2, G: g, P: ref.SRPPad(grp.P)}
		rs := pbt.NewStream(seed)
		type made struct{ h, salt, hCopy, saltCopy []byte }
		var results []made
		calls := rapid.IntRange(1, 3).Draw(t, "calls")
		for k := 0; k < calls; k++ {
			h, newSalt, err := s.NewHash(password, in)
			if err != nil {
				t.Fatalf("NewHash: %v", err)
			}
			wantSalt := append(append([]byte(nil), salt1...), rs.Bytes(32)...)
			if !bytes.Equal(newSalt, wantSalt) {
				t.Fatalf("call %d: new salt1 is not salt1 + 32 random bytes: got %d bytes", k, len(newSalt))
			}
			results = append(results, made{h, newSalt, append([]byte(nil), h...), append([]byte(nil), newSalt...)})
		}
		if !bytes.Equal(in.Salt1, salt1) {
			t.Fatalf("NewHash modified the caller's salt1")
		}
		for i := len(salt1); i < len(backing); i++ {
			if backing[i] != 0xC3 {
				t.Fatalf("NewHash wrote into the caller's buffer behind salt1 (byte %d of %d behind it)", i-len(salt1), spare)
			}
		}
		// every (verifier, salt) pair handed out is still what it was and still
		// belongs together, whatever was made after it
		for k, r := range results {
			if !bytes.Equal(r.h, r.hCopy) || !bytes.Equal(r.salt, r.saltCopy) {
				t.Fatalf("the result of NewHash call %d of %d changed after it was returned (%d bytes behind salt1 in the caller's buffer)", k, calls, spare)
			}
			params := ref.SRPParams{G: g, P: grp.P, Salt1: r.salt, Salt2: salt2}
			want := ref.SRPPad(params.SRPVerifierV(ref.SRPX(password, r.salt, salt2)))
			if !bytes.Equal(r.h, want) {
				t.Fatalf("new_password_hash mismatch (group %s g=%d, call %d)", grp.Name, g, k)
			}
		}
		st.Case(fmt.Sprintf("%s/%d/%x/%x/%d/%d/%d", grp.Name, g, password, salt1, seed, spare, calls), spare >= 32 || calls > 1, nil, "group:"+grp.Name, fmt.Sprintf("behindSalt1=%d", spare), fmt.Sprintf("calls=%d", calls))
	})
}
