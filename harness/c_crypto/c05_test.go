package c_crypto

import (
	"bytes"
	"fmt"
	"testing"

	"github.com/gotd/td/bin"
	"github.com/gotd/td/crypto"
	"pgregory.net/rapid"

	"verifharness/pbt"
	"verifharness/pbt/ref"
)

// C05: decryption rejects any ciphertext that differs from what the peer
// produced, reflected messages and messages under another key; a rejected
// message yields no fields.

// c05Valid builds a valid ciphertext in a drawn direction. The ciphertext is
// produced by the implementation or by the reference encryptor (drawn), so the
// rejection oracle does not rest on Encrypt being right.
type c05Base struct {
	Key        crypto.AuthKey
	FromServer bool
	Payload    []byte
	Wire       []byte
	Producer   string
	Fields     [4]int64
}

func genC05Base(t *rapid.T) c05Base {
	var b c05Base
	b.Key, _ = genAuthKeyDistinctSides(t, "key")
	// A hand-built AuthKey whose cached ID was never computed (the zero id; the crypto
	// package's own tests build such keys): Encrypt stamps that id, Decrypt compares with it,
	// so a flipped auth_key_id bit must still be refused (seeded change C05d).
	zeroID := rapid.IntRange(0, 7).Draw(t, "zeroID") == 0
	if zeroID {
		b.Key.ID = [8]byte{}
	}
	b.FromServer = rapid.Bool().Draw(t, "fromServer")
	n := 4 * rapid.IntRange(0, 80).Draw(t, "len4")
	b.Payload = drawBytes(t, "payload", n)
	salt, session, msgID := rapid.Int64().Draw(t, "salt"), rapid.Int64().Draw(t, "session"), rapid.Int64().Draw(t, "msgID")
	seq := rapid.Int32().Draw(t, "seq")
	b.Fields = [4]int64{salt, session, msgID, int64(seq)}
	s, _ := drawStream(t, "rand")
	if !zeroID && rapid.Bool().Draw(t, "byRef") {
		b.Producer = "reference"
		base := (16 - (32+n)%16) % 16
		if base < 12 {
			base += 16
		}
		pad := base + 16*rapid.IntRange(0, 15).Draw(t, "extraBlocks")
		b.Wire = ref.EncryptMessage([256]byte(b.Key.Value), b.FromServer, salt, session, msgID, seq, b.Payload, s.Bytes(pad))
	} else {
		b.Producer = "implementation"
		enc := crypto.NewClientCipher(s)
		if b.FromServer {
			enc = crypto.NewServerCipher(s)
		}
		var buf bin.Buffer
		err := enc.Encrypt(b.Key, crypto.EncryptedMessageData{
			Salt: salt, SessionID: session, MessageID: msgID, SeqNo: seq,
			MessageDataLen: int32(n), MessageDataWithPadding: append([]byte(nil), b.Payload...),
		}, &buf)
		if err != nil {
			t.Fatalf("Encrypt: %v", err)
		}
		b.Wire = append([]byte(nil), buf.Buf...)
	}
	return b
}

// receiver returns the cipher of the side that legitimately receives b.Wire.
func (b c05Base) receiver() crypto.Cipher {
	if b.FromServer {
		return crypto.NewClientCipher(nil)
	}
	return crypto.NewServerCipher(nil)
}

// sender returns the cipher of the side that produced b.Wire (for reflection).
func (b c05Base) sender() crypto.Cipher {
	if b.FromServer {
		return crypto.NewServerCipher(nil)
	}
	return crypto.NewClientCipher(nil)
}

// tryDecrypt runs both entry points and demands agreement between them.
// With prior given, a third path decodes wire into an EncryptedMessage value
// that was used for prior before (receiver objects are reused between frames;
// Decode documents no fresh-value precondition): what the previous frame left
// behind must not become part of this one.
func tryDecrypt(t *rapid.T, c crypto.Cipher, k crypto.AuthKey, wire []byte, prior ...[]byte) (*crypto.EncryptedMessageData, error) {
	m1, err1 := c.DecryptFromBuffer(k, &bin.Buffer{Buf: append([]byte(nil), wire...)})
	for _, p := range prior {
		var em crypto.EncryptedMessage
		if err := em.Decode(&bin.Buffer{Buf: append([]byte(nil), p...)}); err != nil {
			t.Fatalf("Decode of the valid frame: %v", err)
		}
		var m3 *crypto.EncryptedMessageData
		err3 := em.Decode(&bin.Buffer{Buf: append([]byte(nil), wire...)})
		if err3 == nil {
			m3, err3 = c.Decrypt(k, &em)
		}
		if (err1 == nil) != (err3 == nil) {
			t.Fatalf("DecryptFromBuffer err=%v but Decode into a reused EncryptedMessage + Decrypt err=%v", err1, err3)
		}
		if err3 != nil && m3 != nil {
			t.Fatalf("Decrypt returned an error AND a message: %v", err3)
		}
	}
	var em crypto.EncryptedMessage
	var m2 *crypto.EncryptedMessageData
	err2 := em.Decode(&bin.Buffer{Buf: append([]byte(nil), wire...)})
	if err2 == nil {
		m2, err2 = c.Decrypt(k, &em)
	}
	if (err1 == nil) != (err2 == nil) {
		t.Fatalf("DecryptFromBuffer err=%v but Decode+Decrypt err=%v", err1, err2)
	}
	if err1 != nil && m1 != nil {
		t.Fatalf("DecryptFromBuffer returned an error AND a message: %v", err1)
	}
	if err2 != nil && m2 != nil {
		t.Fatalf("Decrypt returned an error AND a message: %v", err2)
	}
	return m1, err1
}

// otherKey draws a key that differs from k inside bytes 96..120, the part of
// auth_key that enters msg_key for both directions (88+x .. 120+x). Bytes of
// auth_key above 136 are not used by MTProto 2.0 at all, so two keys that
// differ only there are the same key as far as message encryption goes (seen:
// equal stream seeds with one zeroed leading byte).
func otherKey(t *rapid.T, label string, k crypto.Key) crypto.Key {
	var k2 crypto.Key
	copy(k2[:], drawBytes(t, label, 256))
	if bytes.Equal(k2[96:120], k[96:120]) {
		k2[100] ^= 1
	}
	return k2
}

type c05Mutation struct {
	Name     string
	Wire     []byte
	Key      crypto.AuthKey // key the receiver uses
	Cipher   crypto.Cipher
	LenValid bool // length still 24 + 16k with k >= 2 (header fits): rejection must come from key id / msg_key
}

var c05Kinds = []string{
	"flip1-keyid", "flip1-msgkey", "flip1-body", "flip1-edge", "flipk", "trunc16", "trunc-odd", "extend16", "extend-odd",
	"swap-blocks", "dup-block", "replace-keyid", "other-key-same-id", "rekey", "reflect", "wrong-receiver-key", "splice",
}

func genC05Mutation(t *rapid.T, b c05Base) c05Mutation {
	kind := pick(t, "kind", c05Kinds)
	w := append([]byte(nil), b.Wire...)
	m := c05Mutation{Name: kind, Key: b.Key, Cipher: b.receiver()}
	bodyBlocks := (len(w) - 24) / 16
	flip := func(i int) { w[i] ^= byte(1 << rapid.IntRange(0, 7).Draw(t, "bit")) }
	switch kind {
	case "flip1-keyid":
		flip(rapid.IntRange(0, 7).Draw(t, "pos"))
	case "flip1-msgkey":
		flip(rapid.IntRange(8, 23).Draw(t, "pos"))
	case "flip1-body":
		flip(rapid.IntRange(24, len(w)-1).Draw(t, "pos"))
	case "flip1-edge":
		// first / last byte of each region
		flip(rapid.SampledFrom([]int{0, 7, 8, 23, 24, 39, len(w) - 16, len(w) - 1}).Draw(t, "pos"))
	case "flipk":
		k := rapid.IntRange(2, 64).Draw(t, "k")
		s, _ := drawStream(t, "positions")
		for i := 0; i < k; i++ {
			p := int(s.Uint64() % uint64(len(w)*8))
			w[p/8] ^= 1 << (p % 8)
		}
	case "trunc16":
		w = w[:len(w)-16*rapid.IntRange(1, bodyBlocks).Draw(t, "blocks")]
	case "trunc-odd":
		n := rapid.IntRange(1, len(w)).Draw(t, "n")
		if n%16 == 0 {
			n--
		}
		w = w[:len(w)-n]
	case "extend16":
		w = append(w, drawBytes(t, "ext", 16*rapid.IntRange(1, 4).Draw(t, "blocks"))...)
	case "extend-odd":
		n := rapid.IntRange(1, 40).Draw(t, "n")
		if n%16 == 0 {
			n++
		}
		w = append(w, drawBytes(t, "ext", n)...)
	case "swap-blocks":
		i := rapid.IntRange(0, bodyBlocks-1).Draw(t, "i")
		j := rapid.IntRange(0, bodyBlocks-1).Draw(t, "j")
		bi, bj := w[24+16*i:24+16*i+16], w[24+16*j:24+16*j+16]
		tmp := append([]byte(nil), bi...)
		copy(bi, bj)
		copy(bj, tmp)
	case "dup-block":
		i := rapid.IntRange(0, bodyBlocks-1).Draw(t, "i")
		j := rapid.IntRange(0, bodyBlocks-1).Draw(t, "j")
		copy(w[24+16*i:24+16*i+16], b.Wire[24+16*j:24+16*j+16])
	case "replace-keyid":
		copy(w[:8], drawBytes(t, "keyid", 8))
	case "other-key-same-id":
		// the receiver holds a different key value that claims the same id
		// (AuthKey.ID is a cached field): only msg_key can reject.
		k2 := otherKey(t, "key2", b.Key.Value)
		m.Key = crypto.AuthKey{Value: k2, ID: b.Key.ID}
	case "rekey":
		// same plaintext fields encrypted under a second key by the reference,
		// presented to a receiver holding the first key; then also with the
		// key id rewritten to the receiver's.
		k2 := otherKey(t, "key2", b.Key.Value)
		w = ref.EncryptMessage([256]byte(k2), b.FromServer, b.Fields[0], b.Fields[1], b.Fields[2], int32(b.Fields[3]), b.Payload, drawBytes(t, "pad2", len(b.Wire)-24-32-len(b.Payload)))
		if rapid.Bool().Draw(t, "fixKeyID") {
			copy(w[:8], b.Key.ID[:])
		}
	case "reflect":
		// decrypt with the side that encrypted it
		m.Cipher = b.sender()
	case "wrong-receiver-key":
		m.Key = otherKey(t, "key2", b.Key.Value).WithID()
	case "splice":
		// header (key id + msg_key) of this message, body of another valid one
		s2, _ := drawStream(t, "rand2")
		other := ref.EncryptMessage([256]byte(b.Key.Value), b.FromServer, b.Fields[0], b.Fields[1], b.Fields[2]+4, int32(b.Fields[3]), b.Payload, s2.Bytes(len(b.Wire)-24-32-len(b.Payload)))
		copy(w[24:], other[24:])
	}
	m.Wire = w
	m.LenValid = len(w) >= 24+32 && (len(w)-24)%16 == 0
	return m
}

func (m c05Mutation) identity(b c05Base) bool {
	sameCipher := m.Name != "reflect"
	return sameCipher && bytes.Equal(m.Wire, b.Wire) && m.Key == b.Key
}

func TestC05(t *testing.T) {
	st := pbt.NewStats("TestC05")
	defer st.Flush()
	rapid.Check(t, func(t *rapid.T) {
		b := genC05Base(t)
		// metamorphic anchor: the unmutated ciphertext decrypts on the right side
		m0, err := tryDecrypt(t, b.receiver(), b.Key, b.Wire)
		if err != nil || m0 == nil {
			t.Fatalf("valid %s ciphertext rejected: %v", b.Producer, err)
		}
		if m0.Salt != b.Fields[0] || m0.SessionID != b.Fields[1] || m0.MessageID != b.Fields[2] || int64(m0.SeqNo) != b.Fields[3] || !bytes.Equal(m0.Data(), b.Payload) {
			t.Fatalf("valid ciphertext decrypted to other fields")
		}
		mut := genC05Mutation(t, b)
		if mut.identity(b) {
			st.Case("identity", false, nil, "identity:"+mut.Name)
			return
		}
		got, err := tryDecrypt(t, mut.Cipher, mut.Key, mut.Wire, b.Wire)
		if err == nil {
			t.Fatalf("mutation %s accepted: wire %d bytes (orig %d), producer %s, fromServer=%v; got msgID=%d len=%d",
				mut.Name, len(mut.Wire), len(b.Wire), b.Producer, b.FromServer, got.MessageID, got.MessageDataLen)
		}
		if got != nil {
			t.Fatalf("mutation %s: error %v but message returned", mut.Name, err)
		}
		key := fmt.Sprintf("%s/%x/%x", mut.Name, trunc24(mut.Wire), mut.Key.ID)
		st.Case(key, mut.LenValid, fmt.Sprintf("%s len=%d producer=%s fromServer=%v", mut.Name, len(mut.Wire), b.Producer, b.FromServer),
			"mut:"+mut.Name, "producer:"+b.Producer, fmt.Sprintf("lenValid=%v", mut.LenValid))
	})
}

func trunc24(b []byte) []byte {
	if len(b) > 40 {
		return b[:40]
	}
	return b
}
