package c_crypto

import (
	"bytes"
	"fmt"
	"testing"

	"github.com/gotd/td/crypto"
	"pgregory.net/rapid"

	"verifharness/pbt"
	"verifharness/pbt/ref"
)

// C14: RSA_PAD and the legacy hashed RSA scheme round-trip, are the exact
// constructions of the specification (checked through an independent inverse
// and an independent encoder), and ciphertexts under another key or altered
// ciphertexts fail to decrypt.

// genLenForced draws a data length in [0, max] plus sometimes max+1.. (refused).
func genDataLen(t *rapid.T, max int) int {
	switch uniform(t, "lenClass", 10) {
	case 0:
		return pick(t, "len", []int{0, 1, max - 1, max})
	case 1:
		return max + 1 + uniform(t, "over", 20) // must be refused
	default:
		return uniformRange(t, "len", 0, max)
	}
}

func TestC14Pad(t *testing.T) {
	st := pbt.NewStats("TestC14Pad")
	defer st.Flush()
	keys := testRSAKeys()
	rapid.Check(t, func(t *rapid.T) {
		k := pick(t, "key", keys)
		n := genDataLen(t, ref.RSAPadDataLimit)
		data := drawBytes(t, "data", n)
		s, seed := drawStream(t, "rand")
		ct, err := crypto.RSAPad(data, &k.Key.PublicKey, s)
		if n > ref.RSAPadDataLimit {
			if err == nil {
				t.Fatalf("RSAPad accepted %d bytes of data (limit 144)", n)
			}
			st.Case(fmt.Sprintf("over/%d", n), false, nil, "refused-too-long")
			return
		}
		if err != nil {
			t.Fatalf("RSAPad(len=%d): %v", n, err)
		}
		if len(ct) != 256 {
			t.Fatalf("RSAPad output %d bytes, want 256", len(ct))
		}
		N, D, E := k.Key.N, k.Key.D, k.Key.E

		// (1) the reference inverse accepts it and recovers data + padding
		dwp, tempKey, err := ref.RSAPadDecrypt(ct, N, D)
		if err != nil {
			t.Fatalf("reference inverse rejects RSAPad output (key %s, len %d): %v", k.Name, n, err)
		}
		if !bytes.Equal(dwp[:n], data) {
			t.Fatalf("reference inverse recovers different data")
		}
		// (2) exact construction: the reference encoder, fed the padding and the
		// temp_key the implementation chose, yields the very same ciphertext.
		again, used, err := ref.RSAPadEncrypt(data, N, E, dwp[n:], [][32]byte{tempKey})
		if err != nil || used != 1 || !bytes.Equal(again, ct) {
			t.Fatalf("reference encoder with the same padding/temp_key gives a different ciphertext (err=%v)", err)
		}
		// (3) the implementation's decoder returns data followed by its padding
		dec, err := crypto.DecodeRSAPad(ct, k.Key)
		if err != nil {
			t.Fatalf("DecodeRSAPad(RSAPad(d)): %v", err)
		}
		if len(dec) != 192 || !bytes.Equal(dec, dwp) {
			t.Fatalf("DecodeRSAPad returned %d bytes, want data+padding of 192 bytes equal to the reference's", len(dec))
		}
		// the ciphertext is still the RSA_PAD construction afterwards: it still
		// equals what the reference encoder produced, and it decrypts again
		if !bytes.Equal(ct, again) {
			t.Fatalf("DecodeRSAPad modified the ciphertext it was given")
		}
		if dec2, err := crypto.DecodeRSAPad(ct, k.Key); err != nil || !bytes.Equal(dec2, dwp) {
			t.Fatalf("the same ciphertext does not decrypt a second time: %v", err)
		}
		// (4) cross-implementation: the implementation decodes the reference
		// encoder's output (fresh padding, several temp keys: the first ones are
		// chosen to overflow the modulus when possible).
		rs := pbt.NewStream(seed ^ 0x1234)
		pad := rs.Bytes(192 - n)
		var tks [][32]byte
		for i := 0; i < 64; i++ {
			tks = append(tks, [32]byte(rs.Bytes(32)))
		}
		rct, retries, err := ref.RSAPadEncrypt(data, N, E, pad, tks)
		if err != nil {
			t.Fatalf("reference encoder: %v", err)
		}
		rdec, err := crypto.DecodeRSAPad(rct, k.Key)
		if err != nil {
			t.Fatalf("DecodeRSAPad rejects the reference encoder's output: %v", err)
		}
		if !bytes.Equal(rdec[:n], data) || !bytes.Equal(rdec[n:], pad) {
			t.Fatalf("DecodeRSAPad(reference ciphertext) returned other data/padding")
		}
		// how many temp keys did the implementation itself consume? The stream
		// order is padding then temp keys; replay to count (statistics only).
		implRetries := 0
		{
			rp := pbt.NewStream(seed)
			rp.Bytes(192 - n)
			for i := 1; i <= 64; i++ {
				if [32]byte(rp.Bytes(32)) == tempKey {
					implRetries = i
					break
				}
			}
		}

		// (5) negative: another key, flipped bit
		neg := pick(t, "neg", []string{"other-key", "flip"})
		switch neg {
		case "other-key":
			o := pick(t, "otherKey", keys)
			if o.Name != k.Name {
				if _, err := crypto.DecodeRSAPad(ct, o.Key); err == nil {
					t.Fatalf("DecodeRSAPad accepted a ciphertext made for key %s under key %s", k.Name, o.Name)
				}
			}
		case "flip":
			m := append([]byte(nil), ct...)
			pos := rapid.IntRange(0, 255).Draw(t, "pos")
			m[pos] ^= byte(1 << rapid.IntRange(0, 7).Draw(t, "bit"))
			if _, err := crypto.DecodeRSAPad(m, k.Key); err == nil {
				t.Fatalf("DecodeRSAPad accepted a ciphertext with bit flipped at byte %d", pos)
			}
		}
		// (6) what was returned stays what it was after the later calls
		if !bytes.Equal(dec, dwp) || !bytes.Equal(ct, again) {
			t.Fatalf("the plaintext returned by DecodeRSAPad or the ciphertext returned by RSAPad changed while later ciphertexts were decrypted (negative case: %s)", neg)
		}
		st.Case(fmt.Sprintf("%s/%d/%d/%x", k.Name, n, seed, trunc24(data)), true,
			fmt.Sprintf("key=%s len=%d implTempKeys=%d refTempKeys=%d neg=%s", k.Name, n, implRetries, retries, neg),
			"key:"+k.Name, fmt.Sprintf("implTempKeys=%d", implRetries), fmt.Sprintf("refTempKeys=%d", min(retries, 4)), "neg:"+neg, lenBucket(n, 144))
	})
}

func lenBucket(n, max int) string {
	switch {
	case n == 0:
		return "len=0"
	case n == max:
		return "len=max"
	default:
		return fmt.Sprintf("len<%d", (n/48+1)*48)
	}
}

func TestC14Hashed(t *testing.T) {
	st := pbt.NewStats("TestC14Hashed")
	defer st.Flush()
	keys := testRSAKeys()
	rapid.Check(t, func(t *rapid.T) {
		k := pick(t, "key", keys)
		n := genDataLen(t, ref.RSAHashedDataLimit)
		data := drawBytes(t, "data", n)
		s, seed := drawStream(t, "rand")
		ct, err := crypto.RSAEncryptHashed(data, &k.Key.PublicKey, s)
		if n > ref.RSAHashedDataLimit {
			if err == nil {
				t.Fatalf("RSAEncryptHashed accepted %d bytes of data (limit 235)", n)
			}
			st.Case(fmt.Sprintf("over/%d", n), false, nil, "refused-too-long")
			return
		}
		if err != nil {
			t.Fatalf("RSAEncryptHashed(len=%d): %v", n, err)
		}
		if len(ct) != 256 {
			t.Fatalf("output %d bytes, want 256", len(ct))
		}
		N, D, E := k.Key.N, k.Key.D, k.Key.E
		// (1) reference inverse: 255-byte data_with_hash = SHA1(data) + data + anything
		dwh, err := ref.RSAHashedDecrypt(ct, N, D)
		if err != nil {
			t.Fatalf("reference inverse: %v", err)
		}
		if !ref.RSAHashedHolds(dwh, data) {
			t.Fatalf("decrypted data_with_hash is not SHA1(data)+data+padding (len %d)", n)
		}
		// (2) exact construction with the implementation's padding bytes
		again, err := ref.RSAHashedEncrypt(data, N, E, dwh[20+n:])
		if err != nil || !bytes.Equal(again, ct) {
			t.Fatalf("reference encoder with the same padding gives a different ciphertext (err=%v)", err)
		}
		// (3) round trip through the implementation
		dec, err := crypto.RSADecryptHashed(ct, k.Key)
		if err != nil {
			t.Fatalf("RSADecryptHashed(RSAEncryptHashed(d)): %v", err)
		}
		if !bytes.Equal(dec, data) {
			t.Fatalf("round trip returned %d bytes, want the %d bytes of data", len(dec), n)
		}
		// (4) implementation decodes the reference encoder's output
		rs := pbt.NewStream(seed ^ 0x4321)
		pad := rs.Bytes(ref.RSAHashedDataLimit - n)
		rct, err := ref.RSAHashedEncrypt(data, N, E, pad)
		if err != nil {
			t.Fatalf("reference encoder: %v", err)
		}
		rdec, err := crypto.RSADecryptHashed(rct, k.Key)
		if err != nil {
			t.Fatalf("RSADecryptHashed rejects the reference encoder's output: %v", err)
		}
		if !bytes.Equal(rdec, data) {
			t.Fatalf("RSADecryptHashed(reference ciphertext) returned %d bytes, want %d", len(rdec), n)
		}
		// (5) negatives
		neg := pick(t, "neg", []string{"other-key", "flip"})
		switch neg {
		case "other-key":
			o := pick(t, "otherKey", keys)
			if o.Name != k.Name {
				if got, err := crypto.RSADecryptHashed(ct, o.Key); err == nil {
					t.Fatalf("RSADecryptHashed accepted a ciphertext made for key %s under key %s (%d bytes)", k.Name, o.Name, len(got))
				}
			}
		case "flip":
			m := append([]byte(nil), ct...)
			pos := rapid.IntRange(0, 255).Draw(t, "pos")
			m[pos] ^= byte(1 << rapid.IntRange(0, 7).Draw(t, "bit"))
			if got, err := crypto.RSADecryptHashed(m, k.Key); err == nil {
				t.Fatalf("RSADecryptHashed accepted a ciphertext with a bit flipped at byte %d (%d bytes)", pos, len(got))
			}
		}
		// (6) what was returned stays what it was: the results of (3) and (4)
		// are still the data after the later calls, successful or refused
		// (a result must not live in storage the next call writes to)
		if !bytes.Equal(dec, data) || !bytes.Equal(rdec, data) {
			t.Fatalf("a plaintext returned by RSADecryptHashed (%d bytes) changed while later ciphertexts were decrypted (negative case: %s)", n, neg)
		}
		st.Case(fmt.Sprintf("%s/%d/%d/%x", k.Name, n, seed, trunc24(data)), true,
			fmt.Sprintf("key=%s len=%d neg=%s", k.Name, n, neg), "key:"+k.Name, "neg:"+neg, lenBucket(n, 235))
	})
}

// TestC14Lengths forces every data length at least once per run (both
// schemes, one key, fixed streams): 0..144 and 0..235, plus the first refused
// length.
func TestC14Lengths(t *testing.T) {
	st := pbt.NewStats("TestC14Lengths")
	defer st.Flush()
	k := testRSAKeys()[0]
	N, D := k.Key.N, k.Key.D
	for n := 0; n <= ref.RSAPadDataLimit+1; n++ {
		data := pbt.NewStream(uint64(1000 + n)).Bytes(n)
		ct, err := crypto.RSAPad(data, &k.Key.PublicKey, pbt.NewStream(uint64(n)))
		if n > ref.RSAPadDataLimit {
			if err == nil {
				t.Fatalf("RSAPad accepted %d bytes", n)
			}
			continue
		}
		if err != nil {
			t.Fatalf("RSAPad(%d): %v", n, err)
		}
		dwp, _, err := ref.RSAPadDecrypt(ct, N, D)
		if err != nil || !bytes.Equal(dwp[:n], data) {
			t.Fatalf("RSAPad(%d): reference inverse err=%v", n, err)
		}
		dec, err := crypto.DecodeRSAPad(ct, k.Key)
		if err != nil || !bytes.Equal(dec, dwp) {
			t.Fatalf("DecodeRSAPad(%d): err=%v", n, err)
		}
		st.Case(fmt.Sprintf("pad/%d", n), true, nil, "scheme:rsa_pad")
	}
	for n := 0; n <= ref.RSAHashedDataLimit+1; n++ {
		data := pbt.NewStream(uint64(2000 + n)).Bytes(n)
		ct, err := crypto.RSAEncryptHashed(data, &k.Key.PublicKey, pbt.NewStream(uint64(n)))
		if n > ref.RSAHashedDataLimit {
			if err == nil {
				t.Fatalf("RSAEncryptHashed accepted %d bytes", n)
			}
			continue
		}
		if err != nil {
			t.Fatalf("RSAEncryptHashed(%d): %v", n, err)
		}
		dwh, err := ref.RSAHashedDecrypt(ct, N, D)
		if err != nil || !ref.RSAHashedHolds(dwh, data) {
			t.Fatalf("RSAEncryptHashed(%d): reference inverse err=%v", n, err)
		}
		dec, err := crypto.RSADecryptHashed(ct, k.Key)
		if err != nil || !bytes.Equal(dec, data) {
			t.Fatalf("RSADecryptHashed(%d): err=%v got %d bytes", n, err, len(dec))
		}
		st.Case(fmt.Sprintf("hashed/%d", n), true, nil, "scheme:hashed")
	}
	st.Set("exhaustive", true)
}
