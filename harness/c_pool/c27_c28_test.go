package c_pool

import (
	"strings"
	"testing"

	"pgregory.net/rapid"

	"verifharness/pbt"
)

func runPool(t *rapid.T) *pmachine {
	m := newPMachine(t)
	t.Cleanup(m.teardown) // runs inside the bubble even when the property panics
	n := rapid.IntRange(1, 30).Draw(t, "steps")
	for i := 0; i < n; i++ {
		m.step()
		if m.violation != "" || m.v28 != "" {
			break
		}
	}
	if m.violation == "" && m.v28 == "" {
		m.probe()
	}
	return m
}

func short(s string, n int) string {
	if len(s) > n {
		return s[:n] + "…"
	}
	return s
}

func TestC27(t *testing.T) {
	st := pbt.NewStats("TestC27")
	defer st.Flush()
	rapid.Check(t, func(t *rapid.T) {
		rapid.SyncTest(t, func(t *rapid.T) {
			m := runPool(t)
			if m.violation != "" {
				t.Fatalf("C27 violated: %s\nsteps: %s\nlog:\n%s", m.violation, strings.Join(m.steps, " "), m.dump())
			}
			key := strings.Join(m.steps, " ")
			nontrivial := (m.classes["death-in-use"] || m.classes["death-while-caller-waits"]) && len(m.callers) >= 2
			st.Case(key, nontrivial, short(key, 400), m.classList()...)
		})
	})
}

func TestC28(t *testing.T) {
	st := pbt.NewStats("TestC28")
	defer st.Flush()
	rapid.Check(t, func(t *rapid.T) {
		rapid.SyncTest(t, func(t *rapid.T) {
			m := runPool(t)
			if m.v28 != "" {
				t.Fatalf("C28 violated: %s\nsteps: %s\nlog:\n%s", m.v28, strings.Join(m.steps, " "), m.dump())
			}
			key := strings.Join(m.steps, " ")
			nontrivial := m.classes["cancel-during-create"] || m.classes["cancel-during-handover"]
			st.Case(key, nontrivial, short(key, 400), m.classList()...)
		})
	})
}
