package c_pool

import (
	"context"
	"errors"
	"fmt"
	"os"
	"runtime"
	"strings"
	"sync"
	"testing/synctest"

	"github.com/gotd/log"

	"github.com/gotd/td/bin"
	"github.com/gotd/td/pool"
	"pgregory.net/rapid"

	"verifharness/pbt"
)

// Owned-schedule machine around the real pool.DC (C27, C28) with fake
// connections whose Run / Ready / Invoke are controlled by the harness.

var errNonRetryable = errors.New("harness: rpc failed (not retryable)")

type finvoke struct {
	caller int
	conn   *fconn
	result chan error
}

type fconn struct {
	m          *pmachine
	n          int64 // pool connection id (creation order, from 1)
	ready      chan struct{}
	isReady    bool
	die        chan struct{}
	killed     bool
	runStarted bool
	runExited  bool
	observed   bool // the pool has had a quiescent point after Run exited with dead() not parked
	inflight   []*finvoke
}

func (c *fconn) Run(ctx context.Context) error {
	c.m.mu.Lock()
	c.runStarted = true
	c.m.mu.Unlock()
	var err error
	select {
	case <-ctx.Done():
		err = ctx.Err()
	case <-c.die:
		err = errors.New("harness: connection killed")
	}
	c.m.mu.Lock()
	c.runExited = true
	c.m.mu.Unlock()
	c.m.ev("conn-exit(%d)", c.n)
	return err
}

func (c *fconn) Ready() <-chan struct{}         { return c.ready }
func (c *fconn) Ping(ctx context.Context) error { return nil }

type callerEnc int

func (callerEnc) Encode(*bin.Buffer) error { return nil }

type nopDec struct{}

func (nopDec) Decode(*bin.Buffer) error { return nil }

func (c *fconn) Invoke(ctx context.Context, in bin.Encoder, out bin.Decoder) error {
	caller := int(in.(callerEnc))
	m := c.m
	inv := &finvoke{caller: caller, conn: c, result: make(chan error, 1)}
	m.mu.Lock()
	if len(c.inflight) > 0 {
		m.violate("connection %d handed to caller %d while caller %d is using it", c.n, caller, c.inflight[0].caller)
	}
	if c.observed {
		m.violate("connection %d handed to caller %d although the pool had observed its death", c.n, caller)
	}
	if !c.isReady {
		m.classes["invoke-on-unready"] = true
	}
	c.inflight = append(c.inflight, inv)
	m.callers[caller].inflight = inv
	m.mu.Unlock()
	m.ev("invoke-start(caller %d on conn %d)", caller, c.n)
	var err error
	select {
	case err = <-inv.result:
	case <-ctx.Done():
		err = ctx.Err()
	}
	m.mu.Lock()
	for i, x := range c.inflight {
		if x == inv {
			c.inflight = append(c.inflight[:i:i], c.inflight[i+1:]...)
		}
	}
	m.callers[caller].inflight = nil
	m.mu.Unlock()
	m.ev("invoke-end(caller %d on conn %d: %v)", caller, c.n, err)
	return err
}

type pcaller struct {
	idx      int
	ctx      context.Context
	cancel   context.CancelFunc
	started  bool
	canceled bool
	returned bool
	err      error
	inflight *finvoke
}

type pmachine struct {
	t          *rapid.T
	mu         sync.Mutex
	dc         *pool.DC
	max        int64
	sched      *pbt.Sched
	conns      []*fconn
	callers    []*pcaller
	log        []string
	steps      []string
	classes    map[string]bool
	violation  string // first C27 violation
	v28        string // first C28 violation
	closed     bool
	closeDone  bool
	tornDown   bool
	allowClose bool

	// pre-drawn plan for the in-mutex point "transfer-send"
	cancelAtTransfer int // -1 = never; else on the n-th transfer
	deadAtTransfer   int // -1 = never; else on the n-th transfer every goroutine parked at "dead-entry" is released
	transfers        int
	startAtLog       int      // -1 = never; else at the n-th log record of the pool a not yet started caller starts
	logRecords       int
	script           []string // action names to perform first (a directly constructed prefix), then drawn actions
}

func (m *pmachine) violate(f string, a ...any) {
	if m.violation == "" {
		m.violation = fmt.Sprintf(f, a...)
	}
}

func (m *pmachine) violate28(f string, a ...any) {
	if m.v28 == "" {
		m.v28 = fmt.Sprintf(f, a...)
	}
}

func (m *pmachine) ev(f string, a ...any) {
	m.mu.Lock()
	m.log = append(m.log, fmt.Sprintf(f, a...))
	m.mu.Unlock()
}

func (m *pmachine) note(f string, a ...any) {
	s := fmt.Sprintf(f, a...)
	m.steps = append(m.steps, s)
	m.ev("-- %s", s)
}

var parkPoints = []string{"dead-entry", "release-entry", "acquire-created", "acquire-wait", "acquire-stuck", "acquire-giveup"}

func newPMachine(t *rapid.T) *pmachine {
	m := &pmachine{t: t, classes: map[string]bool{}, cancelAtTransfer: -1, deadAtTransfer: -1, startAtLog: -1}
	m.max = int64(rapid.SampledFrom([]int{1, 1, 2, 3, 0}).Draw(t, "max"))
	var hooks []string
	for _, p := range parkPoints {
		if rapid.IntRange(0, 2).Draw(t, "hook:"+p) == 0 {
			hooks = append(hooks, p)
		}
	}
	if rapid.Bool().Draw(t, "cancelAtTransfer") {
		m.cancelAtTransfer = rapid.SampledFrom([]int{0, 0, 1, 2}).Draw(t, "nthTransfer")
	}
	m.allowClose = rapid.IntRange(0, 3).Draw(t, "allowClose") == 0
	if rapid.Bool().Draw(t, "deadAtTransfer") {
		m.deadAtTransfer = rapid.SampledFrom([]int{0, 0, 1}).Draw(t, "nthTransferDead")
	}
	ncallers := rapid.IntRange(1, 5).Draw(t, "callers")
	if rapid.IntRange(0, 9).Draw(t, "scripted") == 0 {
		// A state that needs about ten specific steps, built directly: two live
		// connections at the limit, one dies in use and its death is reported both
		// by its supervisor and by the invocation that ran on it (both stopped at
		// the entry of dead), while a third caller waits for a connection; the
		// release of the other connection then hands it over, and the two death
		// reports are let go while that hand-over holds the DC mutex.
		m.max, hooks, ncallers = 2, []string{"dead-entry"}, rapid.IntRange(3, 5).Draw(t, "scriptedCallers")
		m.cancelAtTransfer, m.deadAtTransfer, m.allowClose = -1, 0, false
		m.script = []string{"start(0)", "ready(1)", "start(1)", "ready(2)", "start(2)", "kill(1)", "finish(0@1:retryable)", "finish(1@2:ok)"}
		m.classes["scripted:double-death-report-during-handover"] = true
	}
	m.sched = pbt.NewSched(hooks...)
	for i := 0; i < ncallers; i++ {
		c := &pcaller{idx: i}
		c.ctx, c.cancel = context.WithCancel(context.Background())
		m.callers = append(m.callers, c)
	}
	pool.VerifSetHook(m.hook)
	if rapid.Bool().Draw(t, "startAtLog") {
		m.startAtLog = rapid.IntRange(0, 12).Draw(t, "nthLogRecord")
	}
	m.dc = pool.NewDC(context.Background(), 2, m.newConn, pool.DCOptions{MaxOpenConnections: m.max, Logger: poolLogger{m}})
	return m
}

func (m *pmachine) newConn() pool.Conn {
	m.mu.Lock()
	defer m.mu.Unlock()
	c := &fconn{m: m, n: int64(len(m.conns) + 1), ready: make(chan struct{}), die: make(chan struct{})}
	m.conns = append(m.conns, c)
	m.log = append(m.log, fmt.Sprintf("conn-created(%d)", c.n))
	return c
}

// hook is installed into pool; "transfer-send" runs under the DC mutex, so it
// never parks: it performs the pre-drawn action and yields instead.
func (m *pmachine) hook(point string, id int64) {
	if point == "transfer-send" {
		m.mu.Lock()
		n := m.transfers
		m.transfers++
		doIt := n == m.cancelAtTransfer
		var targets []*pcaller
		if doIt {
			for _, c := range m.callers {
				if c.started && !c.returned && c.inflight == nil && !c.canceled {
					c.canceled = true
					targets = append(targets, c)
				}
			}
			if len(targets) > 0 {
				m.classes["cancel-during-handover"] = true
			}
		}
		m.mu.Unlock()
		m.mu.Lock()
		deadNow := n == m.deadAtTransfer
		m.mu.Unlock()
		if deadNow {
			// death reports that were stopped at the entry of dead proceed while this
			// hand-over holds the DC mutex: they pass their entry check and queue up
			// on the mutex together
			for _, p := range m.sched.Waiting() {
				if p.Name == "dead-entry" {
					m.ev("release %s inside transfer of conn %d", p, id)
					m.sched.Release(p)
					m.mu.Lock()
					m.classes["death-report-during-handover"] = true
					m.mu.Unlock()
				}
			}
			for i := 0; i < 64; i++ {
				runtime.Gosched()
			}
		}
		if doIt {
			for _, c := range targets {
				m.ev("cancel(caller %d) inside transfer of conn %d", c.idx, id)
				c.cancel()
			}
			// let the cancelled waiters run as far as they can (they may block on the
			// DC mutex held by the releasing goroutine we are on)
			for i := 0; i < 64; i++ {
				runtime.Gosched()
			}
		}
		return
	}
	m.sched.Hook(point, id)
}

// poolLogger: the pool's log records are points the harness owns (DCOptions.
// Logger). Some are written while the DC mutex is held, so nothing parks here;
// instead, at a pre-drawn record, a caller that has not started yet starts and
// the logging goroutine yields: the new caller runs into whatever the pool is
// in the middle of (it blocks on the DC mutex if the pool holds it).
type poolLogger struct{ m *pmachine }

func (l poolLogger) Enabled(context.Context, log.Level) bool { return true }

func (l poolLogger) Log(_ context.Context, _ log.Level, msg string, _ ...log.Attr) {
	m := l.m
	m.mu.Lock()
	n := m.logRecords
	m.logRecords++
	var c *pcaller
	if n == m.startAtLog {
		for _, x := range m.callers {
			if !x.started {
				c = x
				break
			}
		}
	}
	if c != nil {
		c.started = true
		m.classes["caller-started-inside-pool-operation"] = true
	}
	m.mu.Unlock()
	if c == nil {
		return
	}
	m.ev("start(caller %d) at log record %d %q", c.idx, n, msg)
	m.launch(c)
	for i := 0; i < 64; i++ {
		runtime.Gosched()
	}
}

func (m *pmachine) startCaller(c *pcaller) {
	c.started = true
	m.launch(c)
}

func (m *pmachine) launch(c *pcaller) {
	go func() {
		err := m.dc.Invoke(c.ctx, callerEnc(c.idx), nopDec{})
		m.mu.Lock()
		c.returned, c.err = true, err
		m.mu.Unlock()
		m.ev("caller-return(%d: %v)", c.idx, err)
	}()
}

func (m *pmachine) live() (live, unready, idleReady int) {
	for _, c := range m.conns {
		if c.runStarted && !c.runExited && !c.killed {
			live++
			if !c.isReady {
				unready++
			} else if len(c.inflight) == 0 {
				idleReady++
			}
		}
	}
	return
}

func (m *pmachine) step() {
	t := m.t
	type action struct {
		name string
		do   func()
	}
	var acts []action
	m.mu.Lock()
	for _, c := range m.callers {
		c := c
		if !c.started {
			acts = append(acts, action{fmt.Sprintf("start(%d)", c.idx), func() { m.startCaller(c) }})
		} else if !c.returned && !c.canceled {
			acts = append(acts, action{fmt.Sprintf("cancel(%d)", c.idx), func() {
				m.mu.Lock()
				c.canceled = true
				inflight := c.inflight != nil
				creating := false
				for _, k := range m.conns {
					if k.runStarted && !k.runExited && !k.isReady {
						creating = true
					}
				}
				if !inflight && creating {
					m.classes["cancel-during-create"] = true
				}
				if !inflight && !creating {
					m.classes["cancel-while-waiting"] = true
				}
				m.mu.Unlock()
				c.cancel()
			}})
		}
	}
	for _, k := range m.conns {
		k := k
		if k.killed || k.runExited {
			// a dead connection's in-flight invoke still has to end
		} else {
			if !k.isReady {
				acts = append(acts, action{fmt.Sprintf("ready(%d)", k.n), func() {
					m.mu.Lock()
					k.isReady = true
					m.mu.Unlock()
					close(k.ready)
				}})
			}
			acts = append(acts, action{fmt.Sprintf("kill(%d)", k.n), func() {
				m.mu.Lock()
				k.killed = true
				if len(k.inflight) > 0 {
					m.classes["death-in-use"] = true
				}
				waiting := 0
				for _, c := range m.callers {
					if c.started && !c.returned && c.inflight == nil {
						waiting++
					}
				}
				if waiting > 0 {
					m.classes["death-while-caller-waits"] = true
				}
				m.mu.Unlock()
				close(k.die)
			}})
		}
		for _, inv := range k.inflight {
			inv := inv
			for _, outcome := range []string{"ok", "retryable", "fail", "fail-canceled"} {
				outcome := outcome
				// pool.ErrConnDead / rpc.ErrEngineClosed come only from a connection
				// that is dead or closing (manager.Conn.waitSession, rpc.Engine.ForceClose
				// in Conn.Run's exit path): a live connection never returns them
				if outcome == "retryable" && !k.killed && !k.runExited {
					continue
				}
				acts = append(acts, action{fmt.Sprintf("finish(%d@%d:%s)", inv.caller, k.n, outcome), func() {
					switch outcome {
					case "ok":
						inv.result <- nil
					case "retryable":
						inv.result <- fmt.Errorf("harness: %w", pool.ErrConnDead)
					case "fail-canceled":
						// a request that was aborted inside a live connection (a middleware
						// or sub-context of its own): the error wraps context.Canceled although
						// the caller's context is alive and the connection is fine
						inv.result <- fmt.Errorf("harness: request aborted: %w", context.Canceled)
						m.mu.Lock()
						m.classes["inner-cancel-on-live-connection"] = true
						m.mu.Unlock()
					default:
						inv.result <- errNonRetryable
					}
				}})
			}
		}
	}
	if !m.closed && m.allowClose {
		acts = append(acts, action{"closeDC", func() {
			m.closed = true
			go func() {
				_ = m.dc.Close()
				m.mu.Lock()
				m.closeDone = true
				m.mu.Unlock()
			}()
		}})
	}
	m.mu.Unlock()
	for _, p := range m.sched.Waiting() {
		p := p
		acts = append(acts, action{"release:" + p.String(), func() { m.sched.Release(p) }})
	}
	if len(acts) == 0 {
		return
	}
	if len(m.script) > 0 {
		want := m.script[0]
		m.script = m.script[1:]
		for _, a := range acts {
			if a.name == want {
				m.note("%s", a.name)
				a.do()
				synctest.Wait()
				m.afterQuiescence()
				return
			}
		}
		m.script = nil // the prefix does not apply (any more): go on with drawn actions
		m.classes["script-abandoned"] = true
	}
	a := acts[rapid.IntRange(0, len(acts)-1).Draw(t, "action")]
	m.note("%s", a.name)
	a.do()
	synctest.Wait()
	m.afterQuiescence()
}

// afterQuiescence updates "observed deaths" and evaluates the step invariants.
func (m *pmachine) afterQuiescence() {
	parked := m.sched.Waiting()
	m.mu.Lock()
	defer m.mu.Unlock()
	for _, c := range m.conns {
		if c.runExited && !c.observed {
			stillParked := false
			for _, p := range parked {
				// (the pool numbers its connections before it creates them, so with two
				// creations under way its ids and the fake connections' numbers can
				// differ: any stopped death report may be this connection's)
				if p.Name == "dead-entry" {
					stillParked = true
				}
			}
			if !stillParked {
				c.observed = true
			}
		}
	}
	live, unready, idleReady := m.live()
	if m.max >= 1 && int64(live) > m.max {
		m.violate("%d live connections exceed the limit %d", live, m.max)
	}
	if len(parked) > 0 || m.closed {
		return
	}
	// C28 (1): nobody may keep waiting while capacity is available
	for _, c := range m.callers {
		if c.started && !c.returned && c.inflight == nil && !c.canceled && unready == 0 {
			if idleReady > 0 {
				m.violate28("caller %d is still waiting although a live connection is idle (live=%d idle=%d max=%d): that connection was lost to the pool", c.idx, live, idleReady, m.max)
			} else if m.max < 1 || int64(live) < m.max {
				m.violate28("caller %d is still waiting although a slot is free (live=%d max=%d)", c.idx, live, m.max)
			}
		}
	}
}

// probe is C28 (2): after everything ended the pool must still provide its full capacity.
func (m *pmachine) probe() {
	if m.closed {
		return
	}
	// end all activity; the probe itself runs without injected cancellations
	m.mu.Lock()
	m.cancelAtTransfer = -1
	m.deadAtTransfer = -1
	m.startAtLog = -1
	m.mu.Unlock()
	m.sched.Off()
	synctest.Wait()
	for i := 0; i < 20; i++ {
		m.mu.Lock()
		var pending []*finvoke
		for _, k := range m.conns {
			pending = append(pending, k.inflight...)
		}
		for _, c := range m.callers {
			if c.started && !c.returned && !c.canceled {
				c.canceled = true
				c.cancel()
			}
		}
		m.mu.Unlock()
		for _, inv := range pending {
			select {
			case inv.result <- nil:
			default:
			}
		}
		synctest.Wait()
		if len(pending) == 0 {
			break
		}
	}
	m.mu.Lock()
	for _, c := range m.callers {
		if c.started && !c.returned {
			m.violate28("caller %d did not return after cancellation", c.idx)
		}
	}
	want := int(m.max)
	if want < 1 {
		want = 3
	}
	m.mu.Unlock()
	var probes []*pcaller
	for i := 0; i < want; i++ {
		c := &pcaller{idx: len(m.callers)}
		c.ctx, c.cancel = context.WithCancel(context.Background())
		m.mu.Lock()
		m.callers = append(m.callers, c)
		m.mu.Unlock()
		probes = append(probes, c)
		m.startCaller(c)
	}
	for i := 0; i < 5; i++ {
		synctest.Wait()
		m.mu.Lock()
		for _, k := range m.conns {
			if k.runStarted && !k.runExited && !k.killed && !k.isReady {
				k.isReady = true
				close(k.ready)
			}
		}
		m.mu.Unlock()
	}
	synctest.Wait()
	m.mu.Lock()
	served := 0
	for _, c := range probes {
		if c.inflight != nil {
			served++
		}
	}
	if served < want {
		live, _, idle := m.live()
		m.violate28("capacity probe: only %d of %d fresh callers could be served at once (live=%d idle=%d max=%d): a connection or slot was stranded", served, want, live, idle, m.max)
	}
	m.mu.Unlock()
	m.classes["probed"] = true
	if m.max >= 1 {
		// limit probe (C27): one caller more than the limit; it has to wait, the
		// number of live connections stays within the limit
		c := &pcaller{idx: len(m.callers)}
		c.ctx, c.cancel = context.WithCancel(context.Background())
		m.mu.Lock()
		m.callers = append(m.callers, c)
		m.mu.Unlock()
		m.startCaller(c)
		for i := 0; i < 3; i++ {
			synctest.Wait()
			m.mu.Lock()
			for _, k := range m.conns {
				if k.runStarted && !k.runExited && !k.killed && !k.isReady {
					k.isReady = true
					close(k.ready)
				}
			}
			m.mu.Unlock()
		}
		synctest.Wait()
		m.mu.Lock()
		if live, _, _ := m.live(); int64(live) > m.max {
			m.violate("limit probe: %d callers ask for connections and %d connections are live, the limit is %d (the pool lost count of a live connection)", want+1, live, m.max)
		}
		m.mu.Unlock()
	}
}

func (m *pmachine) teardown() {
	if m.tornDown {
		return
	}
	m.tornDown = true
	m.mu.Lock()
	m.startAtLog = -1
	m.mu.Unlock()
	m.sched.Off()
	for i := 0; i < 20; i++ {
		synctest.Wait()
		m.mu.Lock()
		var pending []*finvoke
		for _, k := range m.conns {
			pending = append(pending, k.inflight...)
		}
		for _, c := range m.callers {
			c.cancel()
		}
		m.mu.Unlock()
		for _, inv := range pending {
			select {
			case inv.result <- nil:
			default:
			}
		}
		if len(pending) == 0 {
			break
		}
	}
	if !m.closed {
		m.closed = true
		_ = m.dc.Close()
	}
	synctest.Wait()
	pool.VerifSetHook(nil)
	if os.Getenv("VERIF_DEBUG_STACKS") != "" {
		buf := make([]byte, 1<<20)
		n := runtime.Stack(buf, true)
		_ = os.WriteFile(os.Getenv("VERIF_DEBUG_STACKS"), buf[:n], 0o644)
	}
}

func (m *pmachine) dump() string {
	m.mu.Lock()
	defer m.mu.Unlock()
	return "  " + strings.Join(m.log, "\n  ")
}

func (m *pmachine) classList() []string {
	var out []string
	for _, k := range []string{"cancel-during-create", "cancel-during-handover", "cancel-while-waiting", "death-in-use", "death-while-caller-waits", "probed", "invoke-on-unready", "inner-cancel-on-live-connection", "caller-started-inside-pool-operation", "death-report-during-handover", "scripted:double-death-report-during-handover", "script-abandoned"} {
		if m.classes[k] {
			out = append(out, k)
		}
	}
	for _, name := range parkPoints {
		if m.sched.Parks[name] > 0 {
			out = append(out, "parked:"+name)
		}
	}
	return out
}
