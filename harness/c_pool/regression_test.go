package c_pool

import (
	"context"
	"testing"
	"testing/synctest"

	"github.com/gotd/td/pool"

	"verifharness/pbt"
)

// Plain replays of the shrunk schedules found by TestC27 / TestC28 on the
// unrepaired pool. Each fails on the tree before the named fix commit.

func fixedMachine(max int64, ncallers int, cancelAtTransfer int, hooks ...string) *pmachine {
	m := &pmachine{classes: map[string]bool{}, cancelAtTransfer: cancelAtTransfer, max: max}
	m.sched = pbt.NewSched(hooks...)
	for i := 0; i < ncallers; i++ {
		c := &pcaller{idx: i}
		c.ctx, c.cancel = context.WithCancel(context.Background())
		m.callers = append(m.callers, c)
	}
	pool.VerifSetHook(m.hook)
	m.dc = pool.NewDC(context.Background(), 2, m.newConn, pool.DCOptions{MaxOpenConnections: max})
	return m
}

func (m *pmachine) doReady(n int) {
	k := m.conns[n-1]
	m.mu.Lock()
	k.isReady = true
	m.mu.Unlock()
	close(k.ready)
	synctest.Wait()
}

func (m *pmachine) doKill(n int) {
	k := m.conns[n-1]
	m.mu.Lock()
	k.killed = true
	m.mu.Unlock()
	close(k.die)
	synctest.Wait()
	m.afterQuiescence()
}

func (m *pmachine) doStart(i int)  { m.startCaller(m.callers[i]); synctest.Wait() }
func (m *pmachine) doCancel(i int) { m.callers[i].canceled = true; m.callers[i].cancel(); synctest.Wait() }
func (m *pmachine) doFinish(i int, err error) {
	m.mu.Lock()
	inv := m.callers[i].inflight
	m.mu.Unlock()
	inv.result <- err
	synctest.Wait()
}

func (m *pmachine) releaseAll() {
	for _, p := range m.sched.Waiting() {
		m.sched.Release(p)
	}
	synctest.Wait()
}

func (m *pmachine) inflightOn(i int) int64 {
	m.mu.Lock()
	defer m.mu.Unlock()
	if m.callers[i].inflight == nil {
		return 0
	}
	return m.callers[i].inflight.conn.n
}

func TestC28Regression(t *testing.T) {
	t.Run("cancel during creation (fixed 41136a2c5)", func(t *testing.T) {
		synctest.Test(t, func(t *testing.T) {
			m := fixedMachine(1, 2, -1)
			defer m.teardown()
			m.doStart(0)
			m.doCancel(0)
			m.doReady(1)
			m.doStart(1)
			if m.inflightOn(1) == 0 {
				t.Errorf("max=1: caller cancelled while its connection was being created; the connection became ready and idle but the next caller is never served")
			}
		})
	})
	t.Run("cancel during hand-over (fixed f48a694fc)", func(t *testing.T) {
		synctest.Test(t, func(t *testing.T) {
			m := fixedMachine(1, 3, 0)
			defer m.teardown()
			m.doStart(0)
			m.doReady(1)
			m.doStart(1) // waits for a free connection
			m.doFinish(0, nil)
			// the release of conn 1 picked waiter 1, which was cancelled inside the transfer
			m.doStart(2)
			if m.inflightOn(2) == 0 && m.inflightOn(1) == 0 {
				t.Errorf("max=1: waiter cancelled between transfer's unlock and send; the connection was sent into the abandoned channel and the next caller is never served")
			}
		})
	})
	t.Run("death between registering as waiter and waiting (fixed e1be3847f)", func(t *testing.T) {
		synctest.Test(t, func(t *testing.T) {
			m := fixedMachine(1, 2, -1, "acquire-wait")
			defer m.teardown()
			m.doStart(0)
			m.doReady(1)
			m.doStart(1) // parked after registering its request
			m.doKill(1)
			m.doCancel(0)
			m.releaseAll()
			m.mu.Lock()
			n := len(m.conns)
			m.mu.Unlock()
			if n < 2 {
				t.Errorf("max=1: the only connection died while the waiter was between registering and waiting; it missed the signal and waits although a slot is free")
			}
		})
	})
}

func TestC27Regression(t *testing.T) {
	t.Run("dead connection transferred by release (fixed 85762c9d9)", func(t *testing.T) {
		synctest.Test(t, func(t *testing.T) {
			m := fixedMachine(1, 2, -1, "acquire-stuck")
			defer m.teardown()
			m.doStart(0)
			m.doReady(1)
			m.doStart(1)                  // waits in the request map
			m.doKill(1)                   // waiter wakes on "stuck" and parks before deleting its key
			m.doFinish(0, errNonRetryable) // caller 0 releases the dead connection: transferred to the waiter
			m.releaseAll()
			m.afterQuiescence()
			if m.violation != "" {
				t.Errorf("%s", m.violation)
			}
		})
	})
	t.Run("ready and dead at once (fixed 85762c9d9)", func(t *testing.T) {
		for i := 0; i < 24; i++ {
			synctest.Test(t, func(t *testing.T) {
				m := fixedMachine(1, 1, -1, "acquire-created")
				defer m.teardown()
				m.doStart(0)
				m.doReady(1)
				m.doKill(1)
				m.releaseAll()
				if m.violation != "" {
					t.Errorf("%s", m.violation)
				}
			})
		}
	})
}
