package c_misc

import (
	"bytes"
	"context"
	"errors"
	"fmt"
	"strconv"
	"strings"
	"testing"
	"testing/synctest"
	"time"

	"github.com/gotd/td/telegram/downloader"
	"github.com/gotd/td/telegram/uploader"
	"github.com/gotd/td/tg"
	"github.com/gotd/td/tgerr"
	"pgregory.net/rapid"

	"verifharness/pbt"
)

// C40: RPC error messages made of upper-case words and one numeric argument
// are parsed into type (message without the numeric part) and argument;
// flood-wait errors of either kind make the client wait that many seconds
// plus the safety margin.

// c40Margin is the safety margin tgerr.FloodWait adds at the pinned commit
// (flood_wait.go: d + 1*time.Second). The property requires a margin; the
// check accepts any wait in (arg s, arg s + c40Margin].
const c40Margin = time.Second

type c40Msg struct {
	Words  []string
	ArgPos int    // index in the part list where the argument sits (0..len(Words))
	ArgStr string // digits as written (may have leading zeros)
	Arg    int
}

func (m c40Msg) message() string {
	parts := make([]string, 0, len(m.Words)+1)
	parts = append(parts, m.Words[:m.ArgPos]...)
	parts = append(parts, m.ArgStr)
	parts = append(parts, m.Words[m.ArgPos:]...)
	return strings.Join(parts, "_")
}

func (m c40Msg) wantType() string { return strings.Join(m.Words, "_") }

var c40RealWords = []string{
	"FLOOD", "WAIT", "PREMIUM", "SLOWMODE", "PHONE", "MIGRATE", "FILE", "NETWORK", "USER", "STATS",
	"2FA", "CONFIRM", "TAKEOUT", "INIT", "DELAY", "X", "FLOOD2", "MD5", "A1B2", "PASSWORD", "TOO", "FRESH",
	"EMAIL", "UNCONFIRMED", "INTERDC", "CALL", "ERROR", "SESSION", "TEST",
}

// genC40Word: an upper-case word [A-Z0-9]+ with at least one letter (e.g.
// PHONE, 2FA, MD5). An all-digit word would be a second numeric argument and
// is outside the property's "one numeric argument".
func genC40Word(t *rapid.T) string {
	if rapid.IntRange(0, 2).Draw(t, "realWord") != 0 {
		return rapid.SampledFrom(c40RealWords).Draw(t, "word")
	}
	w := rapid.StringMatching(`[A-Z0-9]{0,4}[A-Z][A-Z0-9]{0,4}`).Draw(t, "word")
	return w
}

// genC40Msg draws 1..5 words and one argument in [0, 2^31) at any position.
func genC40Msg(t *rapid.T) (c40Msg, string) {
	var m c40Msg
	class := "random"
	switch rapid.IntRange(0, 9).Draw(t, "shape") {
	case 0, 1:
		m.Words, class = []string{"FLOOD", "WAIT"}, "FLOOD_WAIT"
	case 2, 3:
		m.Words, class = []string{"FLOOD", "PREMIUM", "WAIT"}, "FLOOD_PREMIUM_WAIT"
	case 4:
		// near misses of the flood-wait types
		m.Words = rapid.SampledFrom([][]string{
			{"FLOOD"}, {"WAIT"}, {"FLOOD", "WAIT", "X"}, {"X", "FLOOD", "WAIT"}, {"FLOOD", "TEST", "PHONE", "WAIT"},
			{"FLOOD", "PREMIUM"}, {"PREMIUM", "FLOOD", "WAIT"}, {"SLOWMODE", "WAIT"}, {"FLOOD", "WAIT2"}, {"FLOOD", "WAITS"},
		}).Draw(t, "near")
		m.Words = append([]string(nil), m.Words...)
		class = "near-flood"
	default:
		n := rapid.IntRange(1, 5).Draw(t, "nWords")
		for i := 0; i < n; i++ {
			m.Words = append(m.Words, genC40Word(t))
		}
	}
	m.Arg = rapid.OneOf(
		rapid.SampledFrom([]int{0, 1, 2, 3, 5, 9, 10, 59, 60, 3600, 86400, 1<<31 - 1}),
		rapid.IntRange(0, 1<<31-1),
		rapid.IntRange(0, 300),
	).Draw(t, "arg")
	m.ArgStr = strconv.Itoa(m.Arg)
	if rapid.IntRange(0, 4).Draw(t, "leadingZeros") == 0 {
		m.ArgStr = strings.Repeat("0", rapid.IntRange(1, 3).Draw(t, "zeros")) + m.ArgStr
	}
	if rapid.IntRange(0, 2).Draw(t, "argLast") == 0 {
		m.ArgPos = len(m.Words) // the common place
	} else {
		m.ArgPos = rapid.IntRange(0, len(m.Words)).Draw(t, "argPos")
	}
	return m, class
}

func c40IsFlood(typ string) bool { return typ == "FLOOD_WAIT" || typ == "FLOOD_PREMIUM_WAIT" }

func c40HasDigitWord(words []string) bool {
	for _, w := range words {
		if strings.ContainsAny(w, "0123456789") {
			return true
		}
	}
	return false
}

func TestC40(t *testing.T) {
	st := pbt.NewStats("TestC40")
	defer st.Flush()
	rapid.Check(t, func(t *rapid.T) {
		m, class := genC40Msg(t)
		code := rapid.SampledFrom([]int{420, 400, 303, 500, 401, 406, 0, -503}).Draw(t, "code")
		msg := m.message()
		// the same message is parsed 1..3 times; in between the caller does with
		// the *Error it got what callers do with their own values: it edits the
		// exported fields (a handler marking an error as handled, a test
		// shortening a wait). Every parse must give the parsed values.
		parses := rapid.SampledFrom([]int{1, 1, 2, 3}).Draw(t, "parses")
		var e *tgerr.Error
		for k := 0; k < parses; k++ {
			if e != nil {
				switch rapid.IntRange(0, 2).Draw(t, "callerEdit") {
				case 0:
					e.Argument = rapid.IntRange(0, 5000).Draw(t, "newArgument")
				case 1:
					e.Type = "HANDLED"
				default:
					e.Type, e.Argument, e.Message = "", 0, ""
				}
			}
			e = tgerr.New(code, msg)
			if e.Code != code || e.Message != msg {
				t.Fatalf("New(%d, %q) (parse %d of this message): Code=%d Message=%q", code, msg, k+1, e.Code, e.Message)
			}
			if e.Type != m.wantType() || e.Argument != m.Arg {
				t.Fatalf("New(%d, %q) (parse %d of this message, the caller edited the earlier result): Type=%q Argument=%d, want Type=%q Argument=%d", code, msg, k+1, e.Type, e.Argument, m.wantType(), m.Arg)
			}
		}
		if !e.IsType(m.wantType()) || !tgerr.Is(e, m.wantType()) {
			t.Fatalf("New(%d, %q): IsType/Is(%q) is false", code, msg, m.wantType())
		}
		// flood-wait classification, also through wrapping
		var err error = e
		wrapped := rapid.Bool().Draw(t, "wrapped")
		if wrapped {
			err = fmt.Errorf("invoke: %w", fmt.Errorf("rpc: %w", e))
		}
		d, ok := tgerr.AsFloodWait(err)
		wantFlood := c40IsFlood(m.wantType())
		if ok != wantFlood {
			t.Fatalf("AsFloodWait(%q) ok=%v, want %v (type %q)", msg, ok, wantFlood, m.wantType())
		}
		if ok && d != time.Duration(m.Arg)*time.Second {
			t.Fatalf("AsFloodWait(%q) = %v, want %d s", msg, d, m.Arg)
		}
		if !ok && d != 0 {
			t.Fatalf("AsFloodWait(%q) = %v for a non flood error", msg, d)
		}
		nontrivial := m.ArgPos != len(m.Words) || c40HasDigitWord(m.Words)
		classes := []string{"class=" + class, fmt.Sprintf("words=%d", len(m.Words))}
		switch {
		case m.ArgPos == len(m.Words):
			classes = append(classes, "arg last")
		case m.ArgPos == 0:
			classes = append(classes, "arg first")
		default:
			classes = append(classes, "arg middle")
		}
		if c40HasDigitWord(m.Words) {
			classes = append(classes, "word with digit")
		}
		if m.ArgStr != strconv.Itoa(m.Arg) {
			classes = append(classes, "leading zeros")
		}
		if wrapped {
			classes = append(classes, "wrapped")
		}
		if parses > 1 {
			classes = append(classes, "parsed-again-after-caller-edit")
		}
		st.Case(msg, nontrivial, msg, classes...)
	})
}

// TestC40Arbitrary: arbitrary strings never panic (New, Error, AsFloodWait)
// and Code and Message are kept. The property says nothing else about them.
func TestC40Arbitrary(t *testing.T) {
	st := pbt.NewStats("TestC40Arbitrary")
	defer st.Flush()
	rapid.Check(t, func(t *rapid.T) {
		var msg, class string
		switch rapid.IntRange(0, 3).Draw(t, "class") {
		case 0:
			msg, class = rapid.String().Draw(t, "msg"), "any"
		case 1:
			msg, class = rapid.StringMatching(`[A-Z0-9_]{0,24}`).Draw(t, "msg"), "alphabet"
		case 2:
			// digit runs too long for an int, empty parts, several arguments
			msg = rapid.SampledFrom([]string{
				"", "_", "__", "A_", "_A", "A__5", "5", "5_6", "A_5_6", "FLOOD_WAIT_99999999999999999999999",
				"FLOOD_WAIT_-5", "FLOOD_WAIT_+5", "FLOOD_WAIT_5.5", "FLOOD_WAIT_٣", "FLOOD_WAIT_５", "flood_wait_5", "FLOOD_WAIT_ 5",
				"FLOOD_WAIT", "FLOOD_PREMIUM_WAIT", "FLOOD_WAIT_9223372036854775807", "FLOOD_WAIT_9223372036854775808",
			}).Draw(t, "msg")
			class = "hostile"
		case 3:
			m, _ := genC40Msg(t)
			b := []byte(m.message())
			if len(b) > 0 {
				b[rapid.IntRange(0, len(b)-1).Draw(t, "pos")] = byte(rapid.IntRange(0, 255).Draw(t, "val"))
			}
			msg, class = string(b), "mutated"
		}
		e := tgerr.New(420, msg)
		if e.Code != 420 || e.Message != msg {
			t.Fatalf("New(420, %q): Code=%d Message=%q", msg, e.Code, e.Message)
		}
		_ = e.Error()
		_, _ = tgerr.AsFloodWait(e)
		st.Case(class+"/"+msg, msg != "", fmt.Sprintf("%q -> type %q arg %d", msg, e.Type, e.Argument), "class="+class, fmt.Sprintf("typeEmpty=%v", e.Type == ""))
	})
}

// TestC40FloodWait: tgerr.FloodWait on virtual time.
func TestC40FloodWait(t *testing.T) {
	st := pbt.NewStats("TestC40FloodWait")
	defer st.Flush()
	rapid.Check(t, func(rt *rapid.T) {
		rapid.SyncTest(rt, func(t *rapid.T) {
			m, class := genC40Msg(t)
			if rapid.IntRange(0, 3).Draw(t, "smallArg") != 0 {
				m.Arg = rapid.IntRange(0, 120).Draw(t, "argSmall")
				m.ArgStr = strconv.Itoa(m.Arg)
			}
			msg := m.message()
			var err error = tgerr.New(420, msg)
			if rapid.Bool().Draw(t, "wrapped") {
				err = fmt.Errorf("invoke: %w", err)
			}
			flood := c40IsFlood(m.wantType())
			wait := time.Duration(m.Arg) * time.Second

			// The caller's context ends (cancel or deadline) at a drawn offset
			// around the wait, or never.
			ctxMode := rapid.SampledFrom([]string{"none", "none", "cancel", "deadline"}).Draw(t, "ctx")
			var endAt time.Duration
			if ctxMode != "none" {
				endAt = wait + time.Duration(rapid.SampledFrom([]int{-5000, -1000, -1, 0, 1, 999, 1000, 1001, 5000}).Draw(t, "ctxDeltaMs"))*time.Millisecond
				if rapid.Bool().Draw(t, "ctxEarly") {
					endAt = time.Duration(rapid.IntRange(0, 2000).Draw(t, "ctxAtMs")) * time.Millisecond
				}
				if endAt < 0 {
					endAt = 0
				}
			}
			ctx, cancel := context.WithCancel(context.Background())
			defer cancel()
			stop := make(chan struct{})
			switch ctxMode {
			case "cancel":
				go func() {
					tm := time.NewTimer(endAt)
					defer tm.Stop()
					select {
					case <-tm.C:
						cancel()
					case <-stop: // time stops when the bubble's root returns: never leave a sleeper behind
					}
				}()
			case "deadline":
				var c2 context.CancelFunc
				ctx, c2 = context.WithTimeout(ctx, endAt)
				defer c2()
			}

			type result struct {
				ok      bool
				err     error
				elapsed time.Duration
			}
			done := make(chan result, 1)
			start := time.Now()
			go func() {
				ok, rerr := tgerr.FloodWait(ctx, err)
				done <- result{ok, rerr, time.Since(start)}
			}()
			synctest.Wait()
			var r result
			returnedAtOnce := false
			select {
			case r = <-done:
				returnedAtOnce = true
			default:
				r = <-done
			}
			close(stop)
			cancel()
			synctest.Wait() // the canceller goroutine has gone

			desc := fmt.Sprintf("FloodWait(%q) ctx=%s@%v -> (%v, %v) after %v", msg, ctxMode, endAt, r.ok, r.err, r.elapsed)
			outcome := ""
			switch {
			case !flood:
				// not a flood wait: no waiting, original error back, no retry
				if r.ok || !returnedAtOnce || r.elapsed != 0 || r.err != err {
					t.Fatalf("%s: want (false, the original error) immediately", desc)
				}
				outcome = "not-flood"
			case r.ok:
				// "retry now": only after the argument plus the margin
				if r.elapsed <= wait || r.elapsed > wait+c40Margin {
					t.Fatalf("%s: retry allowed outside (%v, %v]", desc, wait, wait+c40Margin)
				}
				if ctxMode != "none" && endAt < r.elapsed {
					t.Fatalf("%s: returned true although the context ended at %v", desc, endAt)
				}
				outcome = "waited"
			default:
				// gave up: only because the context ended, at that moment, with its error
				if ctxMode == "none" {
					t.Fatalf("%s: returned false for a flood wait without a context end", desc)
				}
				if r.err == nil || !(errors.Is(r.err, context.Canceled) || errors.Is(r.err, context.DeadlineExceeded)) {
					t.Fatalf("%s: gave up without the context's error", desc)
				}
				if r.elapsed != endAt {
					t.Fatalf("%s: gave up at %v, context ended at %v", desc, r.elapsed, endAt)
				}
				if endAt > wait+c40Margin {
					t.Fatalf("%s: the wait (%v + margin) was over before the context ended", desc, wait)
				}
				outcome = "ctx-ended"
			}
			if flood && ctxMode != "none" && endAt < wait && r.ok {
				t.Fatalf("%s: context ended before the wait but FloodWait reported a completed wait", desc)
			}
			nontrivial := flood
			st.Case(fmt.Sprintf("%s/%s/%v", msg, ctxMode, endAt), nontrivial, desc, "class="+class, "ctx="+ctxMode, "outcome="+outcome)
		})
	})
}

// ------------------------------------------------------------ client level
//
// "flood-wait errors of either kind make the client wait ... before retrying":
// the callers of tgerr.FloodWait in the client are the uploader and downloader
// retry loops. A fake RPC answers a drawn subset of requests with
// FLOOD_WAIT_n / FLOOD_PREMIUM_WAIT_n and stamps every request with virtual
// time; the request that follows a flood answer must come more than n
// seconds later.

type c40FloodPlan struct {
	plan   []int // per incoming request: -1 serve, otherwise flood argument
	kinds  []string
	wrap   []bool
	next   int
	events []c40FloodEvent
	last   *c40FloodEvent
}

type c40FloodEvent struct {
	Arg   int
	At    time.Time
	Retry time.Duration // gap to the next request, -1 = none
}

// step is called at the start of every fake RPC; it returns the flood error
// to answer with, or nil to serve the request.
func (p *c40FloodPlan) step() error {
	now := time.Now()
	if p.last != nil {
		p.last.Retry = now.Sub(p.last.At)
		p.events = append(p.events, *p.last)
		p.last = nil
	}
	if p.next >= len(p.plan) {
		return nil
	}
	i := p.next
	p.next++
	if p.plan[i] < 0 {
		return nil
	}
	p.last = &c40FloodEvent{Arg: p.plan[i], At: now, Retry: -1}
	var err error = tgerr.New(420, p.kinds[i]+"_"+strconv.Itoa(p.plan[i]))
	if p.wrap[i] {
		err = fmt.Errorf("rpcDoRequest: %w", err)
	}
	return err
}

func genC40Plan(t *rapid.T) *c40FloodPlan {
	n := rapid.IntRange(1, 8).Draw(t, "planLen")
	p := &c40FloodPlan{}
	for i := 0; i < n; i++ {
		arg := -1
		if rapid.Bool().Draw(t, "flood") {
			arg = rapid.OneOf(rapid.IntRange(0, 120), rapid.SampledFrom([]int{0, 1, 3600, 86400, 10_000_000})).Draw(t, "arg")
			// (no 2^31-1 here: eight such waits in one bubble overflow time.Duration;
			// TestC40FloodWait covers the largest argument once per bubble)
		}
		p.plan = append(p.plan, arg)
		p.kinds = append(p.kinds, rapid.SampledFrom([]string{"FLOOD_WAIT", "FLOOD_PREMIUM_WAIT"}).Draw(t, "kind"))
		p.wrap = append(p.wrap, rapid.Bool().Draw(t, "wrap"))
	}
	return p
}

type c40UploadRPC struct{ plan *c40FloodPlan }

func (r c40UploadRPC) UploadSaveFilePart(_ context.Context, _ *tg.UploadSaveFilePartRequest) (bool, error) {
	if err := r.plan.step(); err != nil {
		return false, err
	}
	return true, nil
}

func (r c40UploadRPC) UploadSaveBigFilePart(_ context.Context, _ *tg.UploadSaveBigFilePartRequest) (bool, error) {
	if err := r.plan.step(); err != nil {
		return false, err
	}
	return true, nil
}

type c40DownloadRPC struct {
	plan *c40FloodPlan
	data []byte
}

func (r c40DownloadRPC) UploadGetFile(_ context.Context, req *tg.UploadGetFileRequest) (tg.UploadFileClass, error) {
	if err := r.plan.step(); err != nil {
		return nil, err
	}
	from := min(int(req.Offset), len(r.data))
	to := min(from+req.Limit, len(r.data))
	return &tg.UploadFile{Type: &tg.StorageFileUnknown{}, Bytes: r.data[from:to]}, nil
}

func (r c40DownloadRPC) UploadGetFileHashes(context.Context, *tg.UploadGetFileHashesRequest) ([]tg.FileHash, error) {
	return nil, errors.New("harness: not scripted")
}

func (r c40DownloadRPC) UploadReuploadCDNFile(context.Context, *tg.UploadReuploadCDNFileRequest) ([]tg.FileHash, error) {
	return nil, errors.New("harness: not scripted")
}

func (r c40DownloadRPC) UploadGetCDNFileHashes(context.Context, *tg.UploadGetCDNFileHashesRequest) ([]tg.FileHash, error) {
	return nil, errors.New("harness: not scripted")
}

func (r c40DownloadRPC) UploadGetWebFile(context.Context, *tg.UploadGetWebFileRequest) (*tg.UploadWebFile, error) {
	return nil, errors.New("harness: not scripted")
}

func TestC40Client(t *testing.T) {
	st := pbt.NewStats("TestC40Client")
	defer st.Flush()
	rapid.Check(t, func(rt *rapid.T) {
		rapid.SyncTest(rt, func(t *rapid.T) {
			plan := genC40Plan(t)
			path := rapid.SampledFrom([]string{"upload-small", "upload-big", "download"}).Draw(t, "path")
			parts := rapid.IntRange(1, 4).Draw(t, "parts")
			ctx := context.Background()
			var err error
			switch path {
			case "upload-small":
				data := make([]byte, parts*1024-rapid.IntRange(0, 1023).Draw(t, "short"))
				_, err = uploader.NewUploader(c40UploadRPC{plan}).WithPartSize(1024).
					WithIDGenerator(func() (int64, error) { return 7, nil }).FromBytes(ctx, "f", data)
			case "upload-big":
				// unknown length (-1) takes the big-file path whatever the size
				data := make([]byte, parts*1024-rapid.IntRange(0, 1023).Draw(t, "short"))
				up := uploader.NewUpload("f", bytes.NewReader(data), -1)
				_, err = uploader.NewUploader(c40UploadRPC{plan}).WithPartSize(1024).
					WithIDGenerator(func() (int64, error) { return 7, nil }).Upload(ctx, up)
			case "download":
				data := make([]byte, parts*4096-rapid.IntRange(1, 4095).Draw(t, "short"))
				var out bytes.Buffer
				_, err = downloader.NewDownloader().WithPartSize(4096).
					Download(c40DownloadRPC{plan, data}, &tg.InputDocumentFileLocation{ID: 1}).Stream(ctx, &out)
			}
			synctest.Wait()
			if err != nil {
				t.Fatalf("%s with flood answers %v failed: %v", path, plan.plan, err)
			}
			if plan.last != nil {
				t.Fatalf("%s: the operation returned success but the request answered with %s_%d was never retried", path, "FLOOD_WAIT", plan.last.Arg)
			}
			floods, exact := 0, 0
			for _, e := range plan.events {
				floods++
				wait := time.Duration(e.Arg) * time.Second
				if e.Retry <= wait {
					t.Fatalf("%s: request retried %v after a flood wait of %d s (plan %v)", path, e.Retry, e.Arg, plan.plan)
				}
				if e.Retry == wait+c40Margin {
					exact++
				}
			}
			classes := []string{"path=" + path, fmt.Sprintf("floods=%d", min(floods, 4))}
			if floods > 0 && exact == floods {
				classes = append(classes, "every retry at arg+1s")
			}
			st.Case(fmt.Sprintf("%s/%d/%v/%v", path, parts, plan.plan, plan.kinds), floods > 0, fmt.Sprintf("%s parts=%d plan=%v", path, parts, plan.plan), classes...)
		})
	})
}
