package c_misc

import (
	"context"
	"errors"
	"fmt"
	"io"
	"net"
	"os"
	"strings"
	"sync"
	"sync/atomic"
	"testing"
	"testing/synctest"
	"time"

	"github.com/gotd/td/telegram/dcs"
	"github.com/gotd/td/tg"
	"github.com/gotd/td/transport"
	"go.uber.org/multierr"
	"pgregory.net/rapid"

	"verifharness/pbt"
)

// C42: racing dials to a DC return one connection (or an error combining all
// failures) and close every other connection that was or later becomes
// established.
//
// Runs in a synctest bubble: every fake dial takes a drawn virtual latency,
// so the completion order of the racing dials is a function of the drawn
// values (dials with equal latency complete in an order the Go scheduler
// picks; the oracle only looks at the final state, which must hold for every
// order).

type c42Conn struct {
	addr     string
	writeErr error
	closes   atomic.Int32
	writes   atomic.Int32
}

func (c *c42Conn) Read([]byte) (int, error) { return 0, io.EOF }
func (c *c42Conn) Write(p []byte) (int, error) {
	c.writes.Add(1)
	if c.writeErr != nil {
		return 0, c.writeErr
	}
	return len(p), nil
}
func (c *c42Conn) Close() error                     { c.closes.Add(1); return nil }
func (c *c42Conn) LocalAddr() net.Addr              { return c42Addr("local") }
func (c *c42Conn) RemoteAddr() net.Addr             { return c42Addr(c.addr) }
func (c *c42Conn) SetDeadline(time.Time) error      { return nil }
func (c *c42Conn) SetReadDeadline(time.Time) error  { return nil }
func (c *c42Conn) SetWriteDeadline(time.Time) error { return nil }

type c42Addr string

func (a c42Addr) Network() string { return "tcp" }
func (a c42Addr) String() string  { return string(a) }

// c42Dial is the drawn behaviour of one candidate address.
type c42Dial struct {
	Addr    string
	Latency time.Duration
	// Outcome: "ok" established; "fail" dial error; "hs-fail" established but
	// the transport handshake write fails (the connection was established, so
	// it must be closed).
	Outcome string
	// Late dials ignore context cancellation (a dialer stuck in a syscall, or
	// a connection that completes in the same instant as the cancel): they
	// finish after their full latency whatever happens.
	Late bool

	err error
}

func (d c42Dial) String() string {
	s := fmt.Sprintf("%s:%s@%v", d.Addr, d.Outcome, d.Latency)
	if d.Late {
		s += "(ignores-cancel)"
	}
	return s
}

type c42Dialer struct {
	mu          sync.Mutex
	byAddr      map[string]*c42Dial
	established []*c42Conn
	estAt       []time.Duration
	dialed      map[string]int
	unknown     []string
	start       time.Time
	finished    atomic.Int32
}

func (f *c42Dialer) dial(ctx context.Context, _, addr string) (net.Conn, error) {
	defer f.finished.Add(1)
	f.mu.Lock()
	d := f.byAddr[addr]
	f.dialed[addr]++
	if d == nil {
		f.unknown = append(f.unknown, addr)
	}
	f.mu.Unlock()
	if d == nil {
		return nil, fmt.Errorf("harness: dial of unknown address %s", addr)
	}
	if d.Late {
		time.Sleep(d.Latency)
	} else {
		tm := time.NewTimer(d.Latency)
		defer tm.Stop()
		select {
		case <-tm.C:
		case <-ctx.Done():
			return nil, ctx.Err()
		}
	}
	if d.Outcome == "fail" {
		return nil, d.err
	}
	c := &c42Conn{addr: addr}
	if d.Outcome == "hs-fail" {
		c.writeErr = d.err
	}
	f.mu.Lock()
	f.established = append(f.established, c)
	f.estAt = append(f.estAt, time.Since(f.start))
	f.mu.Unlock()
	return c, nil
}

var c42Latencies = []int{0, 1, 1, 2, 2, 3, 5, 10, 50}

func TestC42(t *testing.T) {
	st := pbt.NewStats("TestC42")
	defer st.Flush()
	rapid.Check(t, func(rt *rapid.T) {
		rapid.SyncTest(rt, func(t *rapid.T) {
			n := rapid.SampledFrom([]int{3, 2, 4, 5, 2, 3, 4, 5, 3, 2, 4, 5, 1, 0}).Draw(t, "n")
			method := rapid.SampledFrom([]string{"Primary", "Primary", "MediaOnly", "CDN"}).Draw(t, "method")
			const dcID = 2
			f := &c42Dialer{byAddr: map[string]*c42Dial{}, dialed: map[string]int{}}
			var opts []tg.DCOption
			var dials []*c42Dial
			var maxLatency time.Duration
			errKinds := map[string]bool{}
			for i := 0; i < n; i++ {
				d := &c42Dial{
					Latency: time.Duration(rapid.SampledFrom(c42Latencies).Draw(t, "latencyMs")) * time.Millisecond,
					Outcome: rapid.SampledFrom([]string{"ok", "ok", "fail", "fail", "hs-fail"}).Draw(t, "outcome"),
					Late:    rapid.IntRange(0, 2).Draw(t, "late") == 0,
				}
				ip := fmt.Sprintf("10.0.0.%d", i+1)
				d.Addr = net.JoinHostPort(ip, "443")
				// the failure is whatever error value a dialer may return: a plain
				// one, or one that wraps a context or deadline error of the
				// dialer's own (a proxy dialer whose own lifetime ended) while
				// the caller's context is alive.
				switch kind := rapid.SampledFrom([]string{"plain", "plain", "plain", "wraps-canceled", "wraps-deadline", "wraps-os-deadline", "wraps-eof", "op-error"}).Draw(t, "errKind"); kind {
				case "plain":
					d.err = fmt.Errorf("dial %s: connection refused (fake #%d)", d.Addr, i)
				case "wraps-canceled":
					d.err = fmt.Errorf("dial %s via proxy (fake #%d): %w", d.Addr, i, context.Canceled)
				case "wraps-deadline":
					d.err = fmt.Errorf("dial %s via proxy (fake #%d): %w", d.Addr, i, context.DeadlineExceeded)
				case "wraps-os-deadline":
					d.err = fmt.Errorf("dial %s (fake #%d): %w", d.Addr, i, os.ErrDeadlineExceeded)
				case "wraps-eof":
					d.err = fmt.Errorf("dial %s (fake #%d): %w", d.Addr, i, io.EOF)
				default:
					d.err = &net.OpError{Op: "dial", Net: "tcp", Err: fmt.Errorf("connection refused (fake #%d to %s)", i, d.Addr)}
				}
				if d.Outcome != "ok" {
					errKinds["err:"+d.Outcome+":"+errKindOf(d.err)] = true
				}
				f.byAddr[d.Addr] = d
				dials = append(dials, d)
				if d.Latency > maxLatency {
					maxLatency = d.Latency
				}
				opts = append(opts, tg.DCOption{
					ID: dcID, IPAddress: ip, Port: 443,
					Static:    rapid.Bool().Draw(t, "static"),
					MediaOnly: method == "MediaOnly",
					CDN:       method == "CDN",
				})
			}
			obfuscated := rapid.IntRange(0, 3).Draw(t, "obfuscated") == 0
			randSrc, _ := pbt.DrawStream(t, "rand")
			cancelAt := time.Duration(-1)
			if rapid.IntRange(0, 2).Draw(t, "cancel") == 0 {
				cancelAt = time.Duration(rapid.SampledFrom(c42Latencies).Draw(t, "cancelAtMs")) * time.Millisecond
			}

			resolver := dcs.Plain(dcs.PlainOptions{Dial: f.dial, Rand: randSrc, Obfuscated: obfuscated})
			ctx, cancel := context.WithCancel(context.Background())
			defer cancel()
			stop := make(chan struct{})
			if cancelAt >= 0 {
				go func() {
					tm := time.NewTimer(cancelAt)
					defer tm.Stop()
					select {
					case <-tm.C:
						cancel()
					case <-stop:
					}
				}()
			}

			f.start = time.Now()
			var (
				conn       transport.Conn
				err        error
				returnedAt time.Duration
			)
			done := make(chan struct{})
			go func() {
				defer close(done)
				list := dcs.List{Options: opts}
				switch method {
				case "Primary":
					conn, err = resolver.Primary(ctx, dcID, list)
				case "MediaOnly":
					conn, err = resolver.MediaOnly(ctx, dcID, list)
				case "CDN":
					conn, err = resolver.CDN(ctx, dcID, list)
				}
				returnedAt = time.Since(f.start)
			}()
			<-done
			close(stop)
			// Quiescence: let every dial that ignores cancellation run to its
			// end, then wait until nothing in the bubble can move.
			time.Sleep(maxLatency + time.Millisecond)
			synctest.Wait()

			desc := func() string {
				var parts []string
				for _, d := range dials {
					parts = append(parts, d.String())
				}
				c := "no cancel"
				if cancelAt >= 0 {
					c = fmt.Sprintf("caller cancels @%v", cancelAt)
				}
				return fmt.Sprintf("%s [%s] %s obfuscated=%v -> conn=%v err=%v @%v", method, strings.Join(parts, " "), c, obfuscated, conn != nil, err, returnedAt)
			}

			if len(f.unknown) > 0 {
				t.Fatalf("harness: unknown addresses dialed: %v", f.unknown)
			}
			if (conn == nil) == (err == nil) {
				t.Fatalf("%s: want exactly one of connection and error", desc())
			}
			f.mu.Lock()
			established := append([]*c42Conn(nil), f.established...)
			estAt := append([]time.Duration(nil), f.estAt...)
			f.mu.Unlock()

			var open []*c42Conn
			doubleClose := false
			for _, c := range established {
				switch k := c.closes.Load(); {
				case k == 0:
					open = append(open, c)
				case k > 1:
					doubleClose = true
				}
			}
			if conn != nil {
				if len(open) != 1 {
					t.Fatalf("%s: %d of %d established connections are open after the call settled, want exactly the returned one (%s)",
						desc(), len(open), len(established), c42State(established))
				}
				if cerr := conn.Close(); cerr != nil {
					t.Fatalf("%s: closing the returned connection: %v", desc(), cerr)
				}
				if open[0].closes.Load() != 1 {
					t.Fatalf("%s: the returned connection is not the one left open (%s)", desc(), c42State(established))
				}
				if open[0].writeErr != nil {
					t.Fatalf("%s: returned a connection whose transport handshake failed", desc())
				}
			} else if len(open) != 0 {
				t.Fatalf("%s: returned an error but %d established connections stay open (%s)", desc(), len(open), c42State(established))
			}

			// Which result the drawn behaviours allow.
			cancelled := cancelAt >= 0 && cancelAt <= returnedAt
			minOK := time.Duration(-1)
			successes := 0
			allFailedBy := time.Duration(0)
			for _, d := range dials {
				if d.Outcome == "ok" {
					successes++
					if minOK < 0 || d.Latency < minOK {
						minOK = d.Latency
					}
				} else if d.Latency > allFailedBy {
					allFailedBy = d.Latency
				}
			}
			switch {
			case n == 0:
				if err == nil {
					t.Fatalf("%s: no candidates but no error", desc())
				}
			case successes > 0 && (cancelAt < 0 || minOK < cancelAt):
				// a dial succeeds before anything can stop the race
				if conn == nil {
					t.Fatalf("%s: a dial succeeds at %v but the resolver returned an error", desc(), minOK)
				}
			case successes == 0 && (cancelAt < 0 || cancelAt > allFailedBy):
				// every dial failed and the caller did not interfere: the error combines all failures
				if err == nil {
					t.Fatalf("%s: every dial failed but no error", desc())
				}
				for _, d := range dials {
					if !c42Contains(err, d.err) {
						t.Fatalf("%s: the error does not contain the failure of %s; multierr.Errors=%q", desc(), d.Addr, multierr.Errors(err))
					}
				}
			}
			lateAfterReturn := false
			for i := range established {
				if estAt[i] > returnedAt {
					lateAfterReturn = true
				}
			}
			ties := false
			for i := range dials {
				for j := i + 1; j < len(dials); j++ {
					if dials[i].Latency == dials[j].Latency {
						ties = true
					}
				}
			}
			classes := []string{fmt.Sprintf("n=%d", n), "method=" + method}
			if conn != nil {
				classes = append(classes, "result=conn")
			} else {
				classes = append(classes, "result=error")
			}
			if successes >= 2 {
				classes = append(classes, "planned successes>=2")
			}
			if lateAfterReturn {
				classes = append(classes, "established after return")
			}
			if len(established) >= 2 {
				classes = append(classes, "established>=2")
			}
			if cancelled {
				classes = append(classes, "caller cancelled before return")
			}
			if ties {
				classes = append(classes, "equal latencies")
			}
			if doubleClose {
				classes = append(classes, "some connection closed twice")
			}
			if obfuscated {
				classes = append(classes, "obfuscated")
			}
			if successes == 0 && n >= 2 && !cancelled {
				classes = append(classes, "all dials failed")
			}
			okEstablished := 0
			for _, c := range established {
				if c.writeErr == nil {
					okEstablished++
				}
			}
			if okEstablished >= 2 {
				classes = append(classes, "dials that succeeded>=2")
			}
			for k := range errKinds {
				classes = append(classes, k)
			}
			// non-trivial: at least two dials succeed, or a connection gets
			// established after the resolver has returned
			nontrivial := n >= 2 && (okEstablished >= 2 || lateAfterReturn)
			var key []string
			for _, d := range dials {
				key = append(key, d.String())
			}
			st.Case(fmt.Sprintf("%s/%v/%v/%v", method, key, cancelAt, obfuscated), nontrivial, desc(), classes...)
		})
	})
}

func c42State(cs []*c42Conn) string {
	var parts []string
	for _, c := range cs {
		parts = append(parts, fmt.Sprintf("%s closes=%d", c.addr, c.closes.Load()))
	}
	return strings.Join(parts, ", ")
}

// c42Contains reports whether the combined error err carries want.
func c42Contains(err, want error) bool {
	if errors.Is(err, want) {
		return true
	}
	for _, e := range multierr.Errors(err) {
		if errors.Is(e, want) {
			return true
		}
	}
	return false
}

func errKindOf(err error) string {
	switch {
	case errors.Is(err, context.Canceled):
		return "wraps-context.Canceled"
	case errors.Is(err, context.DeadlineExceeded):
		return "wraps-context.DeadlineExceeded"
	case errors.Is(err, os.ErrDeadlineExceeded):
		return "wraps-os.ErrDeadlineExceeded"
	case errors.Is(err, io.EOF):
		return "wraps-io.EOF"
	}
	var op *net.OpError
	if errors.As(err, &op) {
		return "net.OpError"
	}
	return "plain"
}
