package c_misc

import (
	"context"
	"fmt"
	"math"
	"sort"
	"strings"
	"testing"

	"github.com/gotd/td/bin"
	"github.com/gotd/td/telegram/query"
	"github.com/gotd/td/telegram/query/dialogs"
	"github.com/gotd/td/telegram/query/messages"
	"github.com/gotd/td/tg"
	"pgregory.net/rapid"

	"verifharness/pbt"
)

// C39: history and dialog iterators yield every item once, in server order,
// and stop after the last item.
//
// The iterators are reached the way applications reach them: through
// query.Messages(raw).GetHistory/Search(...).BatchSize(n) and
// query.GetDialogs(raw).BatchSize(n), with Iter / ForEach / Collect, over a
// tg.Client whose tg.Invoker is an honest fake server. Every response goes
// through TL encoding and decoding, as on the wire.

// c39Invoker is the fake tg.Invoker.
type c39Invoker struct {
	handle   func(input bin.Encoder) (bin.Encoder, error)
	requests int
	log      []string
	failAt   int // the failAt-th request fails with errC39Injected (0 = never)
}

var errC39Injected = fmt.Errorf("fake server: injected RPC failure")

func (s *c39Invoker) Invoke(ctx context.Context, input bin.Encoder, output bin.Decoder) error {
	// as the real invoker: a request on a finished context fails with its error
	if err := ctx.Err(); err != nil {
		return err
	}
	s.requests++
	if s.failAt > 0 && s.requests == s.failAt {
		return errC39Injected
	}
	if s.requests > 10000 {
		return fmt.Errorf("fake server: more than 10000 requests")
	}
	resp, err := s.handle(input)
	if err != nil {
		return err
	}
	var b bin.Buffer
	if err := resp.Encode(&b); err != nil {
		return fmt.Errorf("harness: encode response: %w", err)
	}
	return output.Decode(&b)
}

// ---------------------------------------------------------------- messages

type c39Msg struct {
	ID, Date int
	Service  bool
}

// c39History is the server-side message list, newest first (strictly
// descending ids, non-increasing dates), of one peer.
type c39History struct {
	msgs []c39Msg
	kind string // "full", "slice", "channel"
	peer tg.PeerClass
}

// window implements Telegram's paging: offset_id is exclusive (0 = from the
// newest message), add_offset skips further, limit caps the page; the server
// returns full pages except the last (the domain the iterator documents: "full
// pages unless history ended").
func (h *c39History) window(offsetID, addOffset, limit int) (start, end int) {
	n := len(h.msgs)
	if offsetID != 0 {
		start = sort.Search(n, func(i int) bool { return h.msgs[i].ID < offsetID })
	}
	start += addOffset
	if start < 0 {
		start = 0
	}
	if start > n {
		start = n
	}
	if limit < 0 {
		limit = 0
	}
	end = start + limit
	if end > n {
		end = n
	}
	return start, end
}

func (h *c39History) respond(inv *c39Invoker, offsetID, addOffset, limit int) (bin.Encoder, error) {
	start, end := h.window(offsetID, addOffset, limit)
	inv.log = append(inv.log, fmt.Sprintf("offset_id=%d add_offset=%d limit=%d -> [%d,%d)", offsetID, addOffset, limit, start, end))
	page := make([]tg.MessageClass, 0, end-start)
	for _, m := range h.msgs[start:end] {
		if m.Service {
			page = append(page, &tg.MessageService{ID: m.ID, PeerID: h.peer, Date: m.Date, Action: &tg.MessageActionPinMessage{}})
		} else {
			page = append(page, &tg.Message{ID: m.ID, PeerID: h.peer, Date: m.Date, Message: fmt.Sprintf("m%d", m.ID)})
		}
	}
	var users []tg.UserClass
	var chats []tg.ChatClass
	switch p := h.peer.(type) {
	case *tg.PeerUser:
		users = append(users, &tg.User{ID: p.UserID, AccessHash: 11})
	case *tg.PeerChat:
		chats = append(chats, &tg.Chat{ID: p.ChatID, Title: "chat", Photo: &tg.ChatPhotoEmpty{}})
	case *tg.PeerChannel:
		chats = append(chats, &tg.Channel{ID: p.ChannelID, AccessHash: 12, Title: "channel", Photo: &tg.ChatPhotoEmpty{}})
	}
	whole := start == 0 && end == len(h.msgs)
	switch {
	case h.kind == "channel":
		return &tg.MessagesChannelMessages{Pts: 1, Count: len(h.msgs), Messages: page, Chats: chats, Users: users}, nil
	case h.kind == "full" && whole:
		// messages.messages is the "full list" constructor: an honest server
		// only uses it when the response holds the complete list.
		return &tg.MessagesMessages{Messages: page, Chats: chats, Users: users}, nil
	default:
		return &tg.MessagesMessagesSlice{Count: len(h.msgs), Messages: page, Chats: chats, Users: users}, nil
	}
}

func (h *c39History) handle(inv *c39Invoker) func(bin.Encoder) (bin.Encoder, error) {
	return func(input bin.Encoder) (bin.Encoder, error) {
		switch r := input.(type) {
		case *tg.MessagesGetHistoryRequest:
			return h.respond(inv, r.OffsetID, r.AddOffset, r.Limit)
		case *tg.MessagesSearchRequest:
			return h.respond(inv, r.OffsetID, r.AddOffset, r.Limit)
		default:
			return nil, fmt.Errorf("fake server: unexpected request %T", input)
		}
	}
}

// genC39Sizes draws N in 0..60 and a page size in 1..N+1; in about a third
// of the cases N is forced to an exact multiple of the page size.
func genC39Sizes(t *rapid.T) (n, page int) {
	if rapid.IntRange(0, 2).Draw(t, "exactMultiple") == 0 {
		page = rapid.IntRange(1, 20).Draw(t, "page")
		n = page * rapid.IntRange(1, 60/page).Draw(t, "pages")
		return n, page
	}
	n = rapid.IntRange(0, 60).Draw(t, "n")
	page = rapid.IntRange(1, n+1).Draw(t, "page")
	return n, page
}

func c39SizeClasses(n, page int) []string {
	cl := []string{}
	switch {
	case n == 0:
		cl = append(cl, "N=0")
	case n <= page:
		cl = append(cl, "N<=page")
	default:
		cl = append(cl, "N>page")
	}
	if n > 0 && n%page == 0 {
		cl = append(cl, "N multiple of page")
	}
	if page == 1 && n > 1 {
		cl = append(cl, "page=1")
	}
	return cl
}

func TestC39Messages(t *testing.T) {
	st := pbt.NewStats("TestC39Messages")
	defer st.Flush()
	rapid.Check(t, func(t *rapid.T) {
		n, page := genC39Sizes(t)
		h := &c39History{kind: rapid.SampledFrom([]string{"full", "slice", "channel"}).Draw(t, "kind")}
		var inPeer tg.InputPeerClass
		switch {
		case h.kind == "channel":
			h.peer, inPeer = &tg.PeerChannel{ChannelID: 30}, &tg.InputPeerChannel{ChannelID: 30, AccessHash: 12}
		case rapid.Bool().Draw(t, "userPeer"):
			h.peer, inPeer = &tg.PeerUser{UserID: 10}, &tg.InputPeerUser{UserID: 10, AccessHash: 11}
		default:
			h.peer, inPeer = &tg.PeerChat{ChatID: 20}, &tg.InputPeerChat{ChatID: 20}
		}
		// ids strictly descending with gaps 1..4, dates non-increasing with
		// ties (several messages in one second), some service messages.
		noise := pbt.DrawBytes(t, "noise", 3*n)
		id := 1 + rapid.IntRange(0, 1000).Draw(t, "minID")
		date := 1_600_000_000
		asc := make([]c39Msg, n)
		// Imported and scheduled-then-sent messages carry dates that disagree with the id
		// order; the server pages a history by id (seeded change C39d sorts pages by date).
		scrambled := rapid.IntRange(0, 3).Draw(t, "scrambledDates") == 0
		for i := 0; i < n; i++ {
			asc[i] = c39Msg{ID: id, Date: date, Service: noise[3*i+2]%8 == 0}
			if scrambled {
				asc[i].Date = 1_600_000_000 + int(noise[3*i+1])*37%1000
			}
			id += 1 + int(noise[3*i]%4)
			date += int(noise[3*i+1] % 3)
		}
		for i := n - 1; i >= 0; i-- {
			h.msgs = append(h.msgs, asc[i])
		}

		inv := &c39Invoker{}
		inv.handle = h.handle(inv)
		raw := tg.NewClient(inv)
		ctx := context.Background()

		builder := rapid.SampledFrom([]string{"GetHistory", "Search"}).Draw(t, "builder")
		api := rapid.SampledFrom([]string{"Iter", "Iter", "ForEach", "Collect"}).Draw(t, "api")
		type source interface {
			Iter() *messages.Iterator
			ForEach(ctx context.Context, cb func(context.Context, messages.Elem) error) error
			Collect(ctx context.Context) ([]messages.Elem, error)
		}
		var src source
		if builder == "GetHistory" {
			src = query.Messages(raw).GetHistory(inPeer).BatchSize(page)
		} else {
			src = query.Messages(raw).Search(inPeer).BatchSize(page)
		}

		var got []int
		var kept []messages.Elem // the elements as the caller keeps them while iterating on
		add := func(e messages.Elem) {
			if e.Msg == nil {
				t.Fatalf("element %d has a nil message", len(got))
			}
			got = append(got, e.Msg.GetID())
			kept = append(kept, e)
		}
		var requestsToEnd int
		switch api {
		case "Iter":
			it := src.Iter()
			for it.Next(ctx) {
				add(it.Value())
				if len(got) > n+3 {
					break
				}
			}
			requestsToEnd = inv.requests
			if err := it.Err(); err != nil {
				t.Fatalf("iterator error: %v\nrequests: %s", err, strings.Join(inv.log, "; "))
			}
			for k := 0; k < 3 && len(got) <= n; k++ { // stays stopped
				if it.Next(ctx) {
					t.Fatalf("Next returned true again after it had returned false (N=%d page=%d kind=%s); value id %d\nrequests: %s",
						n, page, h.kind, it.Value().Msg.GetID(), strings.Join(inv.log, "; "))
				}
			}
		case "ForEach":
			if err := src.ForEach(ctx, func(_ context.Context, e messages.Elem) error {
				add(e)
				if len(got) > n+3 {
					return fmt.Errorf("harness: too many elements")
				}
				return nil
			}); err != nil && len(got) <= n+3 {
				t.Fatalf("ForEach error: %v", err)
			}
			requestsToEnd = inv.requests
		case "Collect":
			elems, err := src.Collect(ctx)
			if err != nil {
				t.Fatalf("Collect error: %v", err)
			}
			for _, e := range elems {
				add(e)
			}
			requestsToEnd = inv.requests - 1 // Collect asks for the total first
		}

		want := make([]int, n)
		for i, m := range h.msgs {
			want[i] = m.ID
		}
		if fmt.Sprint(got) != fmt.Sprint(want) {
			t.Fatalf("%s.%s N=%d page=%d kind=%s:\nserver history ids: %v\niterator yielded:   %v\nrequests: %s",
				builder, api, n, page, h.kind, want, got, strings.Join(inv.log, "; "))
		}
		// an element handed out stays that element while later pages are fetched
		for i, e := range kept {
			if e.Msg == nil || e.Msg.GetID() != got[i] {
				t.Fatalf("%s.%s N=%d page=%d kind=%s: element %d was message %d when it was yielded and is something else after the iteration went on", builder, api, n, page, h.kind, i, got[i])
			}
		}

		pages := (n + page - 1) / page
		reqClass := fmt.Sprintf("requests=pages%+d", requestsToEnd-pages)
		key := fmt.Sprintf("%s/%s/%s/%T/p%d/%v/%x", builder, api, h.kind, h.peer, page, want, noise)
		classes := append(c39SizeClasses(n, page), "kind="+h.kind, "builder="+builder, "api="+api, reqClass)
		st.Case(key, n > page, fmt.Sprintf("%s.%s kind=%s N=%d page=%d requests=%d", builder, api, h.kind, n, page, requestsToEnd), classes...)
	})
}

// ----------------------------------------------------------------- dialogs

type c39Dlg struct {
	Kind  int // 0 user, 1 chat, 2 channel
	ID    int64
	TopID int
	Date  int
}

func (d c39Dlg) peer() tg.PeerClass {
	switch d.Kind {
	case 0:
		return &tg.PeerUser{UserID: d.ID}
	case 1:
		return &tg.PeerChat{ChatID: d.ID}
	default:
		return &tg.PeerChannel{ChannelID: d.ID}
	}
}

func (d c39Dlg) peerKey() int64 { return int64(d.Kind)<<40 + d.ID }

func (d c39Dlg) String() string { return fmt.Sprintf("%c%d", "ugc"[d.Kind], d.ID) }

// c39After reports whether position (date, id, peer) a comes strictly after b
// in the server's dialog order: top-message date descending, then top-message
// id descending, then peer descending.
func c39After(aDate, aID int, aPeer int64, bDate, bID int, bPeer int64) bool {
	if aDate != bDate {
		return aDate < bDate
	}
	if aID != bID {
		return aID < bID
	}
	return aPeer < bPeer
}

type c39DialogList struct {
	dlgs []c39Dlg // in server order
	kind string   // "full" or "slice"
	// byPeer: the server pages by offset_peer alone (the next page starts after the
	// dialog of that peer); dialogs may then come without their top message (noTop)
	byPeer bool
	noTop  map[int64]bool
}

func (l *c39DialogList) handle(inv *c39Invoker) func(bin.Encoder) (bin.Encoder, error) {
	return func(input bin.Encoder) (bin.Encoder, error) {
		r, ok := input.(*tg.MessagesGetDialogsRequest)
		if !ok {
			return nil, fmt.Errorf("fake server: unexpected request %T", input)
		}
		// messages.getDialogs paging: dialogs strictly after the position
		// (offset_date, offset_id, offset_peer); all-zero offset = from the top.
		n := len(l.dlgs)
		start := 0
		var peerKey int64 = math.MaxInt64
		peerStr := "empty"
		switch p := r.OffsetPeer.(type) {
		case *tg.InputPeerUser:
			peerKey, peerStr = c39Dlg{Kind: 0, ID: p.UserID}.peerKey(), fmt.Sprintf("u%d", p.UserID)
		case *tg.InputPeerChat:
			peerKey, peerStr = c39Dlg{Kind: 1, ID: p.ChatID}.peerKey(), fmt.Sprintf("g%d", p.ChatID)
		case *tg.InputPeerChannel:
			peerKey, peerStr = c39Dlg{Kind: 2, ID: p.ChannelID}.peerKey(), fmt.Sprintf("c%d", p.ChannelID)
		case *tg.InputPeerEmpty:
		default:
			return nil, fmt.Errorf("fake server: unexpected offset peer %T", r.OffsetPeer)
		}
		if l.byPeer {
			if peerKey != math.MaxInt64 {
				start = n
				for i, d := range l.dlgs {
					if d.peerKey() == peerKey {
						start = i + 1
					}
				}
			}
		} else if !(r.OffsetDate == 0 && r.OffsetID == 0 && peerKey == math.MaxInt64) {
			start = sort.Search(n, func(i int) bool {
				d := l.dlgs[i]
				return c39After(d.Date, d.TopID, d.peerKey(), r.OffsetDate, r.OffsetID, peerKey)
			})
		}
		limit := r.Limit
		if limit < 0 {
			limit = 0
		}
		end := start + limit
		if end > n {
			end = n
		}
		inv.log = append(inv.log, fmt.Sprintf("offset=(%d,%d,%s) limit=%d -> [%d,%d)", r.OffsetDate, r.OffsetID, peerStr, r.Limit, start, end))
		var (
			ds    []tg.DialogClass
			msgs  []tg.MessageClass
			users []tg.UserClass
			chats []tg.ChatClass
		)
		for _, d := range l.dlgs[start:end] {
			ds = append(ds, &tg.Dialog{Peer: d.peer(), TopMessage: d.TopID})
			if !l.noTop[d.peerKey()] {
				msgs = append(msgs, &tg.Message{ID: d.TopID, PeerID: d.peer(), Date: d.Date, Message: "top"})
			}
			switch d.Kind {
			case 0:
				users = append(users, &tg.User{ID: d.ID, AccessHash: d.ID + 1})
			case 1:
				chats = append(chats, &tg.Chat{ID: d.ID, Title: "chat", Photo: &tg.ChatPhotoEmpty{}})
			default:
				chats = append(chats, &tg.Channel{ID: d.ID, AccessHash: d.ID + 1, Title: "channel", Photo: &tg.ChatPhotoEmpty{}})
			}
		}
		if l.kind == "full" && start == 0 && end == n {
			return &tg.MessagesDialogs{Dialogs: ds, Messages: msgs, Chats: chats, Users: users}, nil
		}
		return &tg.MessagesDialogsSlice{Count: n, Dialogs: ds, Messages: msgs, Chats: chats, Users: users}, nil
	}
}

func TestC39Dialogs(t *testing.T) {
	st := pbt.NewStats("TestC39Dialogs")
	defer st.Flush()
	rapid.Check(t, func(t *rapid.T) {
		n, page := genC39Sizes(t)
		l := &c39DialogList{kind: rapid.SampledFrom([]string{"full", "slice", "slice"}).Draw(t, "kind")}
		// Every dialog has a top message (a dialog exists because of one) and
		// a distinct peer, hence distinct (date, top id, peer) positions.
		// Dates and top ids collide across dialogs (channels number their
		// messages independently) when the drawn spread is small.
		dateSpread := rapid.SampledFrom([]int{1, 2, 5, 1000}).Draw(t, "dateSpread")
		idSpread := rapid.SampledFrom([]int{1, 3, 50, 100000}).Draw(t, "idSpread")
		noise := pbt.DrawBytes(t, "noise", 5*n)
		ties := false
		for i := 0; i < n; i++ {
			d := c39Dlg{
				Kind:  int(noise[5*i] % 3),
				ID:    int64(100 + i),
				Date:  1_600_000_000 + (int(noise[5*i+1])<<8|int(noise[5*i+2]))%dateSpread,
				TopID: 1 + (int(noise[5*i+3])<<8|int(noise[5*i+4]))%idSpread,
			}
			l.dlgs = append(l.dlgs, d)
		}
		sort.Slice(l.dlgs, func(i, j int) bool {
			a, b := l.dlgs[i], l.dlgs[j]
			return c39After(b.Date, b.TopID, b.peerKey(), a.Date, a.TopID, a.peerKey())
		})
		for i := 1; i < n; i++ {
			if l.dlgs[i].Date == l.dlgs[i-1].Date {
				ties = true
			}
		}
		holes := 0
		if rapid.IntRange(0, 3).Draw(t, "pagingByPeer") == 0 {
			// a server that pages by offset_peer; some dialogs arrive without their
			// top message (the client then has only the peer to move on with)
			l.byPeer, l.noTop = true, map[int64]bool{}
			for i := range l.dlgs {
				if noise[5*i]%5 == 0 {
					l.noTop[l.dlgs[i].peerKey()] = true
					holes++
				}
			}
		}

		inv := &c39Invoker{}
		inv.handle = l.handle(inv)
		raw := tg.NewClient(inv)
		ctx := context.Background()
		api := rapid.SampledFrom([]string{"Iter", "Iter", "ForEach", "Collect"}).Draw(t, "api")
		src := query.GetDialogs(raw).BatchSize(page)

		var got []string
		add := func(e dialogs.Elem) {
			d, ok := e.Dialog.(*tg.Dialog)
			if !ok {
				t.Fatalf("element %d is %T", len(got), e.Dialog)
			}
			switch p := d.Peer.(type) {
			case *tg.PeerUser:
				got = append(got, fmt.Sprintf("u%d", p.UserID))
			case *tg.PeerChat:
				got = append(got, fmt.Sprintf("g%d", p.ChatID))
			case *tg.PeerChannel:
				got = append(got, fmt.Sprintf("c%d", p.ChannelID))
			default:
				t.Fatalf("element %d has peer %T", len(got), d.Peer)
			}
		}
		var requestsToEnd int
		switch api {
		case "Iter":
			it := src.Iter()
			for it.Next(ctx) {
				add(it.Value())
				if len(got) > n+3 {
					break
				}
			}
			requestsToEnd = inv.requests
			if err := it.Err(); err != nil {
				t.Fatalf("iterator error: %v\nrequests: %s", err, strings.Join(inv.log, "; "))
			}
			for k := 0; k < 3 && len(got) <= n; k++ {
				if it.Next(ctx) {
					t.Fatalf("Next returned true again after it had returned false (N=%d page=%d kind=%s)\nrequests: %s",
						n, page, l.kind, strings.Join(inv.log, "; "))
				}
			}
		case "ForEach":
			if err := src.ForEach(ctx, func(_ context.Context, e dialogs.Elem) error {
				add(e)
				if len(got) > n+3 {
					return fmt.Errorf("harness: too many elements")
				}
				return nil
			}); err != nil && len(got) <= n+3 {
				t.Fatalf("ForEach error: %v", err)
			}
			requestsToEnd = inv.requests
		case "Collect":
			elems, err := src.Collect(ctx)
			if err != nil {
				t.Fatalf("Collect error: %v", err)
			}
			for _, e := range elems {
				add(e)
			}
			requestsToEnd = inv.requests - 1
		}

		want := make([]string, n)
		for i, d := range l.dlgs {
			want[i] = d.String()
		}
		if fmt.Sprint(got) != fmt.Sprint(want) {
			var pos []string
			for _, d := range l.dlgs {
				pos = append(pos, fmt.Sprintf("%s(date=%d,top=%d)", d, d.Date-1_600_000_000, d.TopID))
			}
			t.Fatalf("GetDialogs.%s N=%d page=%d kind=%s:\nserver order:      %v\niterator yielded:  %v\nrequests: %s",
				api, n, page, l.kind, pos, got, strings.Join(inv.log, "; "))
		}

		pages := (n + page - 1) / page
		classes := append(c39SizeClasses(n, page), "kind="+l.kind, "api="+api, fmt.Sprintf("requests=pages%+d", requestsToEnd-pages))
		if ties {
			classes = append(classes, "equal dates adjacent")
		}
		if l.byPeer {
			classes = append(classes, "paging=by-peer", fmt.Sprintf("dialogs-without-top-message>0=%v", holes > 0))
		}
		key := fmt.Sprintf("%s/%s/p%d/%v/%x/%v", api, l.kind, page, want, noise, l.byPeer)
		st.Case(key, n > page, fmt.Sprintf("GetDialogs.%s kind=%s N=%d page=%d requests=%d", api, l.kind, n, page, requestsToEnd), classes...)
	})
}

// TestC39Interrupted: the same iteration cut short, by a request that fails or
// by the caller's context ending between two Next calls. What was yielded
// must be a prefix of the server's list, and the iteration may end without an
// error only after the last item: a clean end of stream on a proper prefix is
// a silently truncated history.
func TestC39Interrupted(t *testing.T) {
	st := pbt.NewStats("TestC39Interrupted")
	defer st.Flush()
	rapid.Check(t, func(t *rapid.T) {
		n, page := genC39Sizes(t)
		what := rapid.SampledFrom([]string{"messages", "messages", "dialogs"}).Draw(t, "what")
		cut := rapid.SampledFrom([]string{"cancel", "cancel", "rpc-error"}).Draw(t, "cut")
		after := rapid.IntRange(0, n+1).Draw(t, "afterItems") // cancel: after this many items were consumed
		inv := &c39Invoker{}
		if cut == "rpc-error" {
			inv.failAt = rapid.IntRange(1, n/page+3).Draw(t, "failAt")
		}
		ctx, cancel := context.WithCancel(context.Background())
		defer cancel()
		var want, got []string
		var iterErr error
		consume := func(id string) {
			got = append(got, id)
			if cut == "cancel" && len(got) == after {
				cancel()
			}
		}
		if cut == "cancel" && after == 0 {
			cancel()
		}
		raw := tg.NewClient(inv)
		if what == "messages" {
			h := &c39History{kind: rapid.SampledFrom([]string{"full", "slice", "channel"}).Draw(t, "kind"), peer: &tg.PeerUser{UserID: 10}}
			for i := 0; i < n; i++ {
				h.msgs = append(h.msgs, c39Msg{ID: 2*(n-i) + 5, Date: 1_600_000_000 + (n-i)/2})
				want = append(want, fmt.Sprint(2*(n-i)+5))
			}
			inv.handle = h.handle(inv)
			it := query.Messages(raw).GetHistory(&tg.InputPeerUser{UserID: 10, AccessHash: 11}).BatchSize(page).Iter()
			for it.Next(ctx) {
				consume(fmt.Sprint(it.Value().Msg.GetID()))
				if len(got) > n+3 {
					break
				}
			}
			iterErr = it.Err()
		} else {
			l := &c39DialogList{kind: rapid.SampledFrom([]string{"full", "slice"}).Draw(t, "kind")}
			for i := 0; i < n; i++ {
				l.dlgs = append(l.dlgs, c39Dlg{Kind: 0, ID: int64(100 + i), Date: 1_600_000_000 + 2*(n-i), TopID: 1 + n - i})
				want = append(want, fmt.Sprintf("u%d", 100+i))
			}
			inv.handle = l.handle(inv)
			it := query.GetDialogs(raw).BatchSize(page).Iter()
			for it.Next(ctx) {
				d, _ := it.Value().Dialog.(*tg.Dialog)
				p, _ := d.Peer.(*tg.PeerUser)
				consume(fmt.Sprintf("u%d", p.UserID))
				if len(got) > n+3 {
					break
				}
			}
			iterErr = it.Err()
		}
		if len(got) > len(want) || fmt.Sprint(got) != fmt.Sprint(want[:len(got)]) {
			t.Fatalf("%s N=%d page=%d cut=%s: yielded %v is not a prefix of the server list %v\nrequests: %s", what, n, page, cut, got, want, strings.Join(inv.log, "; "))
		}
		if iterErr == nil && len(got) != len(want) {
			t.Fatalf("%s N=%d page=%d cut=%s(after %d items / request %d): iteration ended without an error after %d of %d items\nrequests: %s",
				what, n, page, cut, after, inv.failAt, len(got), len(want), strings.Join(inv.log, "; "))
		}
		outcome := "complete"
		if iterErr != nil {
			outcome = "error-reported"
		}
		st.Case(fmt.Sprintf("%s/%d/%d/%s/%d/%d", what, n, page, cut, after, inv.failAt), iterErr != nil,
			fmt.Sprintf("%s N=%d page=%d cut=%s after=%d failAt=%d -> %d items, err=%v", what, n, page, cut, after, inv.failAt, len(got), iterErr),
			"what="+what, "cut="+cut, "outcome="+outcome)
	})
}
