package c_misc

import (
	"bytes"
	"encoding/base64"
	"fmt"
	"math"
	"testing"

	"github.com/gotd/td/constant"
	"github.com/gotd/td/fileid"
	"pgregory.net/rapid"

	"verifharness/pbt"
	"verifharness/pbt/ref"
)

// C38: Bot-API file ids round-trip for every file id value; decoding any
// string never panics.

// sigC38RLE names the one root cause found so far: the zero-run counter of
// fileid.rleEncode is a byte, so a run of 256 or more zero bytes in the
// serialized file id loses 256*k bytes.
const sigC38RLE = "rle-zero-run-ge-256"

const (
	c38WebLocationFlag   = 1 << 24
	c38FileReferenceFlag = 1 << 25
	c38SubVersion        = 34 // TDLib's current persistent-id sub version
	c38Version           = 4  // persistent id version
	c38Types             = int(fileid.DocumentAsFile) + 1
	c38SourceTypes       = int(fileid.PhotoSizeSourceStickerSetThumbnailVersion) + 1
)

func c38IsPhoto(t fileid.Type) bool {
	return t == fileid.Thumbnail || t == fileid.Photo || t == fileid.ProfilePhoto
}

// c38Canon keeps exactly the fields that belong to the variant x is (URL file
// id / document-like / photo with its PhotoSizeSource variant). The file id
// format only carries those; any other field is not part of the value.
func c38Canon(x fileid.FileID) fileid.FileID {
	c := fileid.FileID{Type: x.Type, DC: x.DC}
	if len(x.FileReference) > 0 {
		c.FileReference = x.FileReference
	}
	if x.URL != "" {
		c.URL = x.URL
		return c
	}
	c.ID, c.AccessHash = x.ID, x.AccessHash
	if !c38IsPhoto(x.Type) {
		return c
	}
	p := x.PhotoSizeSource
	q := fileid.PhotoSizeSource{Type: p.Type}
	switch p.Type {
	case fileid.PhotoSizeSourceLegacy:
		q.Secret = p.Secret
	case fileid.PhotoSizeSourceThumbnail:
		q.FileType, q.ThumbnailType = p.FileType, p.ThumbnailType
	case fileid.PhotoSizeSourceDialogPhotoSmall, fileid.PhotoSizeSourceDialogPhotoBig:
		q.DialogID, q.DialogAccessHash = p.DialogID, p.DialogAccessHash
	case fileid.PhotoSizeSourceStickerSetThumbnail:
		q.StickerSetID, q.StickerSetAccessHash = p.StickerSetID, p.StickerSetAccessHash
	case fileid.PhotoSizeSourceFullLegacy:
		q.VolumeID, q.Secret, q.LocalID = p.VolumeID, p.Secret, p.LocalID
	case fileid.PhotoSizeSourceDialogPhotoSmallLegacy, fileid.PhotoSizeSourceDialogPhotoBigLegacy:
		q.DialogID, q.DialogAccessHash = p.DialogID, p.DialogAccessHash
		q.VolumeID, q.LocalID = p.VolumeID, p.LocalID
	case fileid.PhotoSizeSourceStickerSetThumbnailLegacy:
		q.StickerSetID, q.StickerSetAccessHash = p.StickerSetID, p.StickerSetAccessHash
		q.VolumeID, q.LocalID = p.VolumeID, p.LocalID
	case fileid.PhotoSizeSourceStickerSetThumbnailVersion:
		q.StickerSetID, q.StickerSetAccessHash = p.StickerSetID, p.StickerSetAccessHash
		q.StickerVersion = p.StickerVersion
	}
	c.PhotoSizeSource = q
	return c
}

// c38Diff returns "" when a and b are the same file id value (nil and empty
// file reference are the same value: "no reference").
func c38Diff(a, b fileid.FileID) string {
	switch {
	case a.Type != b.Type:
		return fmt.Sprintf("Type %d != %d", a.Type, b.Type)
	case a.DC != b.DC:
		return fmt.Sprintf("DC %d != %d", a.DC, b.DC)
	case a.ID != b.ID:
		return fmt.Sprintf("ID %d != %d", a.ID, b.ID)
	case a.AccessHash != b.AccessHash:
		return fmt.Sprintf("AccessHash %d != %d", a.AccessHash, b.AccessHash)
	case !bytes.Equal(a.FileReference, b.FileReference):
		return fmt.Sprintf("FileReference len %d != len %d (or content)", len(a.FileReference), len(b.FileReference))
	case a.URL != b.URL:
		return fmt.Sprintf("URL %q != %q", c38Short(a.URL), c38Short(b.URL))
	case a.PhotoSizeSource != b.PhotoSizeSource:
		return fmt.Sprintf("PhotoSizeSource %+v != %+v", a.PhotoSizeSource, b.PhotoSizeSource)
	}
	return ""
}

func c38Short(s string) string {
	if len(s) > 40 {
		return s[:40] + "..."
	}
	return s
}

// c38RefPayload serializes x as TDLib does (FileManager::get_persistent_id,
// FullRemoteFileLocation::store, PhotoSizeSource::store at sub version 34),
// with the harness TL writer. Used to classify cases by zero runs, to build
// seeds / mutated inputs, and in failure messages. It is NOT an oracle: the
// property only asks for the round trip.
func c38RefPayload(x fileid.FileID) []byte {
	var b []byte
	typeID := uint32(x.Type)
	if x.URL != "" {
		typeID |= c38WebLocationFlag
	}
	if len(x.FileReference) > 0 {
		typeID |= c38FileReferenceFlag
	}
	b = ref.PutUint32(b, typeID)
	b = ref.PutUint32(b, uint32(x.DC))
	if len(x.FileReference) > 0 {
		b = ref.PutBytes(b, x.FileReference)
	}
	if x.URL != "" {
		b = ref.PutBytes(b, []byte(x.URL))
		return append(b, c38Version)
	}
	b = ref.PutInt64(b, x.ID)
	b = ref.PutInt64(b, x.AccessHash)
	if c38IsPhoto(x.Type) {
		p := x.PhotoSizeSource
		b = ref.PutInt32(b, int32(p.Type))
		dialog := func() {
			b = ref.PutInt64(b, int64(p.DialogID))
			b = ref.PutInt64(b, p.DialogAccessHash)
		}
		set := func() {
			b = ref.PutInt64(b, p.StickerSetID)
			b = ref.PutInt64(b, p.StickerSetAccessHash)
		}
		volLocal := func() {
			b = ref.PutInt64(b, p.VolumeID)
			b = ref.PutInt32(b, int32(p.LocalID))
		}
		switch p.Type {
		case fileid.PhotoSizeSourceLegacy:
			b = ref.PutInt64(b, p.Secret)
		case fileid.PhotoSizeSourceThumbnail:
			b = ref.PutUint32(b, uint32(p.FileType))
			b = ref.PutInt32(b, p.ThumbnailType)
		case fileid.PhotoSizeSourceDialogPhotoSmall, fileid.PhotoSizeSourceDialogPhotoBig:
			dialog()
		case fileid.PhotoSizeSourceStickerSetThumbnail:
			set()
		case fileid.PhotoSizeSourceFullLegacy:
			b = ref.PutInt64(b, p.VolumeID)
			b = ref.PutInt64(b, p.Secret)
			b = ref.PutInt32(b, int32(p.LocalID))
		case fileid.PhotoSizeSourceDialogPhotoSmallLegacy, fileid.PhotoSizeSourceDialogPhotoBigLegacy:
			dialog()
			volLocal()
		case fileid.PhotoSizeSourceStickerSetThumbnailLegacy:
			set()
			volLocal()
		case fileid.PhotoSizeSourceStickerSetThumbnailVersion:
			set()
			b = ref.PutInt32(b, p.StickerVersion)
		}
	}
	return append(b, c38SubVersion, c38Version)
}

func c38RefEncode(x fileid.FileID) string {
	return base64.RawURLEncoding.EncodeToString(ref.RLEEncode(c38RefPayload(x)))
}

var c38ZeroRuns = []int{1, 2, 3, 16, 200, 250, 251, 252, 253, 254, 255, 256, 257, 258, 511, 512, 513, 768, 1000}

// genC38Blob draws byte content for a file reference / URL body: random
// bytes with forced zero runs of boundary lengths.
func genC38Blob(t *rapid.T, label string, allowEmpty bool) []byte {
	var out []byte
	switch rapid.IntRange(0, 9).Draw(t, label+"Class") {
	case 0, 1, 2: // like real references: 20..40 random bytes
		out = pbt.DrawBytes(t, label+"Raw", rapid.IntRange(1, 48).Draw(t, label+"Len"))
	case 3: // all zero
		out = make([]byte, rapid.SampledFrom(c38ZeroRuns).Draw(t, label+"Zeros"))
	default: // segments
		n := rapid.IntRange(1, 4).Draw(t, label+"Segs")
		for i := 0; i < n; i++ {
			if rapid.Bool().Draw(t, label+"SegZero") {
				out = append(out, make([]byte, rapid.SampledFrom(c38ZeroRuns).Draw(t, label+"Run"))...)
			} else {
				seg := pbt.DrawBytes(t, label+"Seg", rapid.IntRange(1, 40).Draw(t, label+"SegLen"))
				for j := range seg { // keep literal segments free of zeros so that run lengths are the drawn ones
					if seg[j] == 0 && rapid.IntRange(0, 3).Draw(t, label+"KeepZero") != 0 {
						seg[j] = 0x5a
					}
				}
				out = append(out, seg...)
			}
		}
	}
	if len(out) == 0 && !allowEmpty {
		out = []byte{1}
	}
	return out
}

func genC38Int64(t *rapid.T, label string) int64 {
	return rapid.OneOf(
		rapid.SampledFrom([]int64{0, 1, -1, math.MinInt64, math.MaxInt64, 1 << 56, 0xff, 1 << 32}),
		rapid.Int64(),
	).Draw(t, label)
}

// genC38FileID builds a FileID by construction.
//
// Domain (who produces such values): fileid.FromDocument/FromPhoto/FromChatPhoto
// and DecodeFileID itself. Type is one of the 18 defined types; DC is a data
// centre number carried as a 32-bit unsigned field, drawn from [0, 2^31)
// (non-negative: a DC id is never negative, and the field cannot hold one);
// LocalID / ThumbnailType / StickerVersion are 32-bit fields; a URL file id
// carries only type, DC, reference and a non-empty URL; a PhotoSizeSource only
// exists for the three photo types and carries only its variant's fields
// (c38Canon). File references are opaque server bytes of any content.
func genC38FileID(t *rapid.T) (fileid.FileID, string) {
	x := fileid.FileID{
		Type: fileid.Type(rapid.IntRange(0, c38Types-1).Draw(t, "type")),
		DC: rapid.OneOf(
			rapid.SampledFrom([]int{0, 1, 2, 3, 4, 5, 203, 256, 1 << 16, 1 << 24, math.MaxInt32}),
			rapid.IntRange(0, math.MaxInt32),
		).Draw(t, "dc"),
	}
	if rapid.IntRange(0, 9).Draw(t, "hasRef") < 7 {
		x.FileReference = genC38Blob(t, "ref", false)
	}
	if rapid.IntRange(0, 9).Draw(t, "isURL") < 2 {
		if rapid.IntRange(0, 3).Draw(t, "urlRaw") == 0 {
			x.URL = string(genC38Blob(t, "url", false))
		} else {
			x.URL = "https://" + rapid.StringMatching(`[a-z0-9./?=&%-]{1,300}`).Draw(t, "url")
		}
		return x, "url"
	}
	x.ID = genC38Int64(t, "id")
	x.AccessHash = genC38Int64(t, "hash")
	if !c38IsPhoto(x.Type) {
		return x, "document"
	}
	p := fileid.PhotoSizeSource{Type: fileid.PhotoSizeSourceType(rapid.IntRange(0, c38SourceTypes-1).Draw(t, "srcType"))}
	local := func() int { return int(rapid.Int32().Draw(t, "localID")) }
	switch p.Type {
	case fileid.PhotoSizeSourceLegacy:
		p.Secret = genC38Int64(t, "secret")
	case fileid.PhotoSizeSourceThumbnail:
		p.FileType = fileid.Type(rapid.IntRange(0, c38Types-1).Draw(t, "fileType"))
		p.ThumbnailType = rapid.OneOf(rapid.SampledFrom([]int32{'s', 'm', 'x', 'y', 'w', 'a', 'b', 'c', 'd', 0}), rapid.Int32()).Draw(t, "thumbType")
	case fileid.PhotoSizeSourceDialogPhotoSmall, fileid.PhotoSizeSourceDialogPhotoBig:
		p.DialogID = constant.TDLibPeerID(genC38Int64(t, "dialogID"))
		p.DialogAccessHash = genC38Int64(t, "dialogHash")
	case fileid.PhotoSizeSourceStickerSetThumbnail:
		p.StickerSetID = genC38Int64(t, "setID")
		p.StickerSetAccessHash = genC38Int64(t, "setHash")
	case fileid.PhotoSizeSourceFullLegacy:
		p.VolumeID = genC38Int64(t, "volume")
		p.Secret = genC38Int64(t, "secret")
		p.LocalID = local()
	case fileid.PhotoSizeSourceDialogPhotoSmallLegacy, fileid.PhotoSizeSourceDialogPhotoBigLegacy:
		p.DialogID = constant.TDLibPeerID(genC38Int64(t, "dialogID"))
		p.DialogAccessHash = genC38Int64(t, "dialogHash")
		p.VolumeID = genC38Int64(t, "volume")
		p.LocalID = local()
	case fileid.PhotoSizeSourceStickerSetThumbnailLegacy:
		p.StickerSetID = genC38Int64(t, "setID")
		p.StickerSetAccessHash = genC38Int64(t, "setHash")
		p.VolumeID = genC38Int64(t, "volume")
		p.LocalID = local()
	case fileid.PhotoSizeSourceStickerSetThumbnailVersion:
		p.StickerSetID = genC38Int64(t, "setID")
		p.StickerSetAccessHash = genC38Int64(t, "setHash")
		p.StickerVersion = rapid.Int32().Draw(t, "stickerVersion")
	}
	x.PhotoSizeSource = p
	return x, "photo/" + p.Type.String()
}

// c38BreakRuns rewrites blob so that no zero run in it is longer than 200
// (exclusion by construction of the listed RLE finding: everything else in a
// payload contributes fewer than 56 adjacent zero bytes).
func c38BreakRuns(blob []byte) []byte {
	out := append([]byte(nil), blob...)
	run := 0
	for i := range out {
		if out[i] != 0 {
			run = 0
			continue
		}
		run++
		if run > 200 {
			out[i] = 1
			run = 0
		}
	}
	return out
}

func c38RunClass(n int) string {
	switch {
	case n < 2:
		return "maxrun<2"
	case n < 254:
		return "maxrun 2..253"
	case n < 256:
		return "maxrun 254..255"
	case n == 256:
		return "maxrun=256"
	case n < 512:
		return "maxrun 257..511"
	default:
		return "maxrun>=512"
	}
}

// c38RoundTrip is the property: Decode(Encode(x)) == x.
func c38RoundTrip(x fileid.FileID) error {
	s, err := fileid.EncodeFileID(x)
	if err != nil {
		return fmt.Errorf("EncodeFileID: %v", err)
	}
	payload := c38RefPayload(x)
	got, err := fileid.DecodeFileID(s)
	diag := func() string {
		raw, berr := base64.RawURLEncoding.DecodeString(s)
		if berr != nil {
			return fmt.Sprintf("encoded string is not raw-url base64: %v", berr)
		}
		return fmt.Sprintf("serialized %d bytes (longest zero run %d); the encoded string expands (reference RLE) to %d bytes",
			len(payload), ref.MaxZeroRun(payload), len(ref.RLEDecode(raw)))
	}
	if err != nil {
		return fmt.Errorf("DecodeFileID(EncodeFileID(x)) failed: %v; %s", err, diag())
	}
	if d := c38Diff(x, got); d != "" {
		return fmt.Errorf("DecodeFileID(EncodeFileID(x)) != x: %s; %s", d, diag())
	}
	return nil
}

func TestC38(t *testing.T) {
	st := pbt.NewStats("TestC38")
	defer st.Flush()
	known := pbt.Known("C38", sigC38RLE)
	rapid.Check(t, func(t *rapid.T) {
		x, variant := genC38FileID(t)
		if d := c38Diff(x, c38Canon(x)); d != "" {
			t.Fatalf("harness: generated value is not canonical: %s", d)
		}
		payload := c38RefPayload(x)
		if known && ref.MaxZeroRun(payload) >= 256 {
			st.Excluded(sigC38RLE)
			x.FileReference = c38BreakRuns(x.FileReference)
			if x.URL != "" {
				x.URL = string(c38BreakRuns([]byte(x.URL)))
			}
			payload = c38RefPayload(x)
			if ref.MaxZeroRun(payload) >= 256 {
				t.Fatalf("harness: exclusion left a zero run of %d", ref.MaxZeroRun(payload))
			}
		}
		if err := c38RoundTrip(x); err != nil {
			t.Fatalf("%+v\n%v", c38Render(x), err)
		}
		run := ref.MaxZeroRun(payload)
		refClass := "ref=none"
		if n := len(x.FileReference); n > 0 {
			switch {
			case n <= 253:
				refClass = "ref<=253"
			default:
				refClass = "ref>=254"
			}
		}
		st.Case(fmt.Sprintf("%x", payload), run >= 2, c38Render(x), "variant="+variant, c38RunClass(run), refClass)
	})
}

func c38Render(x fileid.FileID) string {
	s := fmt.Sprintf("type=%v dc=%d id=%d hash=%d ref=%s", x.Type, x.DC, x.ID, x.AccessHash, c38Blob(x.FileReference))
	if x.URL != "" {
		s += " url=" + c38Blob([]byte(x.URL))
	}
	if c38IsPhoto(x.Type) && x.URL == "" {
		s += fmt.Sprintf(" src=%+v", x.PhotoSizeSource)
	}
	return s
}

// c38Blob renders bytes compactly: zero runs as 0*n.
func c38Blob(b []byte) string {
	if len(b) == 0 {
		return "-"
	}
	var out bytes.Buffer
	fmt.Fprintf(&out, "[%d]", len(b))
	for i := 0; i < len(b) && out.Len() < 120; {
		if b[i] == 0 {
			j := i
			for j < len(b) && b[j] == 0 {
				j++
			}
			fmt.Fprintf(&out, "(0*%d)", j-i)
			i = j
			continue
		}
		fmt.Fprintf(&out, "%02x", b[i])
		i++
	}
	return out.String()
}

// c38CheckDecode is the oracle for arbitrary strings: DecodeFileID returns a
// value or an error without panicking (a panic propagates to the caller: rapid
// / the fuzz engine records it). When it returns a value, that value projected
// on its variant's own fields is a file id value and so must round-trip.
func c38CheckDecode(s string, known bool) (ok bool, excluded bool, err error) {
	x, derr := fileid.DecodeFileID(s)
	if derr != nil {
		return false, false, nil
	}
	c := c38Canon(x)
	if known && ref.MaxZeroRun(c38RefPayload(c)) >= 256 {
		return true, true, nil
	}
	if rerr := c38RoundTrip(c); rerr != nil {
		return true, false, fmt.Errorf("decoded %q to %s, which does not round-trip: %v", c38Short(s), c38Render(c), rerr)
	}
	return true, false, nil
}

const c38Alphabet = "ABCDEFGHIJKLMNOPQRSTUVWXYZabcdefghijklmnopqrstuvwxyz0123456789-_"

// TestC38Decode: arbitrary strings and mutated valid ids (T6: mutation of
// valid encodings by construction, at string level and at payload level).
func TestC38Decode(t *testing.T) {
	st := pbt.NewStats("TestC38Decode")
	defer st.Flush()
	known := pbt.Known("C38", sigC38RLE)
	rapid.Check(t, func(t *rapid.T) {
		class := rapid.SampledFrom([]string{"arbitrary", "alphabet", "string-mutation", "payload-mutation", "payload-mutation", "rle-level"}).Draw(t, "class")
		var s string
		switch class {
		case "arbitrary":
			s = rapid.String().Draw(t, "s")
		case "alphabet":
			n := rapid.IntRange(0, 120).Draw(t, "n")
			raw := pbt.DrawBytes(t, "chars", n)
			b := make([]byte, n)
			for i := range b {
				b[i] = c38Alphabet[int(raw[i])%len(c38Alphabet)]
			}
			s = string(b)
		case "string-mutation":
			x, _ := genC38FileID(t)
			b := []byte(c38RefEncode(x))
			switch rapid.IntRange(0, 3).Draw(t, "mut") {
			case 0:
				if len(b) > 0 {
					b[rapid.IntRange(0, len(b)-1).Draw(t, "pos")] = c38Alphabet[rapid.IntRange(0, 63).Draw(t, "ch")]
				}
			case 1:
				b = b[:rapid.IntRange(0, len(b)).Draw(t, "cut")]
			case 2:
				b = append(b, c38Alphabet[rapid.IntRange(0, 63).Draw(t, "ch")])
			case 3:
				b = append(b, "=="[:rapid.IntRange(1, 2).Draw(t, "pad")]...)
			}
			s = string(b)
		case "payload-mutation":
			x, _ := genC38FileID(t)
			p := c38RefPayload(x)
			switch rapid.IntRange(0, 6).Draw(t, "mut") {
			case 0: // legacy / unknown sub version
				if len(p) >= 2 {
					p[len(p)-2] = byte(rapid.SampledFrom([]int{0, 1, 3, 4, 5, 21, 22, 23, 31, 32, 33, 34, 35, 255}).Draw(t, "sub"))
				}
			case 1: // version byte
				p[len(p)-1] = byte(rapid.SampledFrom([]int{0, 1, 2, 3, 4, 5, 255}).Draw(t, "ver"))
			case 2: // type / flags word
				p[rapid.IntRange(0, 3).Draw(t, "pos")] ^= byte(1 << rapid.IntRange(0, 7).Draw(t, "bit"))
			case 3: // any byte
				p[rapid.IntRange(0, len(p)-1).Draw(t, "pos")] = byte(rapid.IntRange(0, 255).Draw(t, "val"))
			case 4: // truncate, keep the version byte
				cut := rapid.IntRange(0, len(p)-1).Draw(t, "cut")
				p = append(p[:cut:cut], c38Version)
			case 5: // truncate anywhere
				p = p[:rapid.IntRange(0, len(p)).Draw(t, "cut")]
			case 6: // photo size source type out of range (offset of the field for photo ids without reference)
				if len(p) >= 28 {
					pos := len(p) - 2 - 4*rapid.IntRange(1, 6).Draw(t, "back")
					if pos >= 0 {
						copy(p[pos:], ref.PutInt32(nil, rapid.SampledFrom([]int32{-1, 10, 11, math.MaxInt32, math.MinInt32}).Draw(t, "src")))
					}
				}
			}
			s = base64.RawURLEncoding.EncodeToString(ref.RLEEncode(p))
		case "rle-level":
			// hostile run-length streams: zero counts, lone trailing zero, long expansions
			n := rapid.IntRange(0, 40).Draw(t, "n")
			raw := pbt.DrawBytes(t, "raw", n)
			for i := range raw {
				if rapid.IntRange(0, 2).Draw(t, "z") == 0 {
					raw[i] = 0
				}
			}
			if rapid.Bool().Draw(t, "ver") {
				raw = append(raw, c38Version)
			}
			s = base64.RawURLEncoding.EncodeToString(raw)
		}
		ok, excluded, err := c38CheckDecode(s, known)
		if err != nil {
			t.Fatalf("%v", err)
		}
		if excluded {
			st.Excluded(sigC38RLE)
		}
		st.Case(class+"/"+s, s != "", fmt.Sprintf("%s %q ok=%v", class, c38Short(s), ok), "class="+class, fmt.Sprintf("decoded=%v", ok))
	})
}

// Real Bot-API file ids (public test vectors, also in /repo/fileid/decode_test.go).
var c38RealIDs = []string{
	"CAACAgIAAxkBAAM6YZlDEHCmaTKrUhCIjxAPtPtjVx4AAicAA4dXjx6dGLyHwXVNcCIE",
	"CgACAgIAAxkBAAM7YZqVjhoGXOIk6qgVu7xd0QvyRVEAArQQAAK7XrBIi5xgKHPRFpQiBA",
	"AAMCAgADGQEAAzthmpWOGgZc4iTqqBW7vF3RC_JFUQACtBAAArtesEiLnGAoc9EWlAEAB20AAyIE",
	"AgACAgIAAxkBAAM9YZqXG-B0WHEv7lFlQxOQDs6jrGQAAoa7MRvdfNlIhJa73cDxR0kBAAMCAAN4AAMiBA",
	"AQADAgAD7a8xG75QcEkACAMAA2jAIuIW____cd7THMWjNdIiBA",
	"CQACAgIAAxkBAANEYZzt3rDAw5CkHSU8RZA8AzTTsyMAAvACAAKoAAF4SjhQUd8y3lIoIgQ",
}

func c38Seeds() []string {
	seeds := append([]string(nil), c38RealIDs...)
	seeds = append(seeds, "", "A", "BA", "AAAA", "AP8E", "____")
	for _, x := range []fileid.FileID{
		{Type: fileid.Document, DC: 2, ID: 1, AccessHash: 2},
		{Type: fileid.Document, DC: 2, ID: 1, AccessHash: 2, FileReference: make([]byte, 255)},
		{Type: fileid.Photo, DC: 4, URL: "https://example.org/a.png"},
		{Type: fileid.ProfilePhoto, DC: 1, ID: 5, AccessHash: 6, PhotoSizeSource: fileid.PhotoSizeSource{
			Type: fileid.PhotoSizeSourceDialogPhotoBig, DialogID: -1001234567890, DialogAccessHash: 77}},
		{Type: fileid.Thumbnail, DC: 2, ID: 5, AccessHash: 6, FileReference: []byte{1, 0, 0, 0, 9}, PhotoSizeSource: fileid.PhotoSizeSource{
			Type: fileid.PhotoSizeSourceStickerSetThumbnailVersion, StickerSetID: 3, StickerSetAccessHash: 4, StickerVersion: 9}},
	} {
		seeds = append(seeds, c38RefEncode(x))
	}
	return seeds
}

// TestC38Seeds runs the fuzz seeds as a plain test (the fuzz engine is only
// used in the thorough tier) and checks the harness reference encoder against
// the real-world vectors, so that the reference cannot drift silently.
func TestC38Seeds(t *testing.T) {
	known := pbt.Known("C38", sigC38RLE)
	for _, s := range c38Seeds() {
		if _, _, err := c38CheckDecode(s, known); err != nil {
			t.Errorf("%v", err)
		}
	}
	for _, s := range c38RealIDs {
		x, err := fileid.DecodeFileID(s)
		if err != nil {
			t.Errorf("real id %q: %v", s, err)
			continue
		}
		raw, _ := base64.RawURLEncoding.DecodeString(s)
		if got, want := c38RefPayload(c38Canon(x)), ref.RLEDecode(raw); !bytes.Equal(got, want) {
			t.Errorf("harness reference serialization differs from real-world id %q:\n got %x\nwant %x", s, got, want)
		}
	}
}

// FuzzC38: DecodeFileID never panics; a decoded value round-trips.
func FuzzC38(f *testing.F) {
	for _, s := range c38Seeds() {
		f.Add(s)
	}
	known := pbt.Known("C38", sigC38RLE)
	f.Fuzz(func(t *testing.T, s string) {
		if _, _, err := c38CheckDecode(s, known); err != nil {
			t.Fatalf("%v", err)
		}
	})
}

// c38Witnesses: minimal file ids hitting the listed RLE finding. A reference
// of 254 zero bytes is the shortest all-zero one: its TL length prefix
// (fe fe 00 00), the 254 bytes and 2 padding bytes make a 258-byte zero run.
func c38Witnesses() []fileid.FileID {
	mixed := append(append([]byte{1}, make([]byte, 300)...), 2)
	return []fileid.FileID{
		{Type: fileid.Document, DC: 2, ID: 1, AccessHash: 1, FileReference: make([]byte, 254)},
		{Type: fileid.Document, DC: 2, ID: 1, AccessHash: 1, FileReference: make([]byte, 256)},
		{Type: fileid.Document, DC: 2, ID: 1, AccessHash: 1, FileReference: mixed},
		{Type: fileid.Photo, DC: 2, ID: 1, AccessHash: 1, FileReference: make([]byte, 512),
			PhotoSizeSource: fileid.PhotoSizeSource{Type: fileid.PhotoSizeSourceThumbnail, FileType: fileid.Photo, ThumbnailType: 'x'}},
	}
}

// TestC38Regression_rle_zero_run fails while fileid.rleEncode counts zero
// runs in a byte (passes once /repo is repaired).
func TestC38Regression_rle_zero_run(t *testing.T) {
	for _, x := range c38Witnesses() {
		if err := c38RoundTrip(x); err != nil {
			t.Errorf("%s\n%v", c38Render(x), err)
		}
	}
	// control: one byte below the boundary round-trips
	if err := c38RoundTrip(fileid.FileID{Type: fileid.Document, DC: 2, ID: 1, AccessHash: 1, FileReference: make([]byte, 251)}); err != nil {
		t.Errorf("control (255-byte zero run) failed: %v", err)
	}
}

// TestC38Known replays the witnesses of the listed finding and prints the
// KNOWN-FINDING line while they still fail; it never fails itself.
func TestC38Known(t *testing.T) {
	if !pbt.Known("C38", sigC38RLE) {
		t.Skip("not listed")
	}
	for _, x := range c38Witnesses() {
		if err := c38RoundTrip(x); err != nil {
			pbt.ReportKnown("C38", sigC38RLE, fmt.Sprintf("file id with a zero run >= 256 does not round-trip: %s: %v", c38Render(x), err))
			return
		}
	}
	t.Logf("listed finding %s no longer reproduces", sigC38RLE)
}
