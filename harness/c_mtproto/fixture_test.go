package c_mtproto

import (
	"context"
	"net"
	"os"
	"sync"
	"testing/synctest"
	"time"

	"github.com/gotd/td/bin"
	"github.com/gotd/td/crypto"
	"github.com/gotd/td/mtproto"
	"github.com/gotd/td/transport"

	"verifharness/pbt"
)

// fixture runs a real mtproto.Conn (restored key, no key exchange) against a
// harness peer over net.Pipe inside a synctest bubble.
type fixture struct {
	gate    *gatedConn
	peer    *pbt.Peer
	conn    *mtproto.Conn
	cancel  context.CancelFunc
	runErr  chan error
	t0      time.Time
	mu      sync.Mutex
	msgs    [][]byte // bodies given to Handler.OnMessage
	session []mtproto.Session
	key     [256]byte
}

type fataler interface{ Fatalf(string, ...any) }

func (f *fixture) OnMessage(b *bin.Buffer) error {
	f.mu.Lock()
	f.msgs = append(f.msgs, append([]byte(nil), b.Buf...))
	f.mu.Unlock()
	return nil
}

func (f *fixture) OnSession(s mtproto.Session) error {
	f.mu.Lock()
	f.session = append(f.session, s)
	f.mu.Unlock()
	return nil
}

func (f *fixture) handled() [][]byte {
	f.mu.Lock()
	defer f.mu.Unlock()
	return append([][]byte(nil), f.msgs...)
}

// startConn starts the connection; rnd supplies every random byte the client
// consumes. onPeer (optional) configures the peer before it starts serving.
func startConn(t fataler, key [256]byte, rnd *pbt.Stream, opts mtproto.Options, onPeer func(*pbt.Peer)) *fixture {
	f := &fixture{t0: time.Now(), key: key, runErr: make(chan error, 1)}
	opts.Key = crypto.Key(key).WithID()
	opts.Random = rnd
	opts.Handler = f
	if opts.Salt == 0 {
		opts.Salt = 0x1111
	}
	dial := func(ctx context.Context) (transport.Conn, error) {
		p1, c2 := net.Pipe()
		f.gate = &gatedConn{Conn: p1}
		var c1 net.Conn = f.gate
		f.peer = pbt.NewPeer(c2, key)
		if onPeer != nil {
			onPeer(f.peer)
		}
		go f.peer.Serve()
		return transport.Intermediate.Handshake(c1)
	}
	f.conn = mtproto.New(dial, opts)
	ctx, cancel := context.WithCancel(context.Background())
	f.cancel = cancel
	go func() {
		f.runErr <- f.conn.Run(ctx, func(ctx context.Context) error {
			<-ctx.Done()
			return ctx.Err()
		})
	}()
	synctest.Wait()
	if f.peer == nil {
		t.Fatalf("connection did not dial")
	}
	return f
}

// stop cancels the connection and waits for Run to return.
func (f *fixture) stop(t fataler) error {
	f.cancel()
	synctest.Wait()
	_ = f.peer.Conn.Close()
	synctest.Wait()
	select {
	case err := <-f.runErr:
		return err
	default:
		t.Fatalf("Conn.Run did not return after cancel")
		return nil
	}
}

// running reports whether Run is still going; if it ended, the error is kept.
func (f *fixture) running() (bool, error) {
	select {
	case err := <-f.runErr:
		f.runErr <- err
		return false, err
	default:
		return true, nil
	}
}

func drawKey(s *pbt.Stream) [256]byte {
	var k [256]byte
	copy(k[:], s.Bytes(256))
	return k
}

// gatedConn is the client's side of the pipe. While stalled, a Write blocks
// without anything being transferred and fails with the deadline error once the
// write deadline passes (a full socket buffer on a link that does not drain):
// the failed write leaves the stream intact.
type gatedConn struct {
	net.Conn
	mu      sync.Mutex
	stalled chan struct{}
	wdl     time.Time
	// held (see HoldReturns): a Write hands its bytes over and then does not
	// return until released - the writing goroutine loses the processor right
	// after the system call, while the peer already has the data.
	held chan struct{}
}

func (g *gatedConn) HoldReturns() {
	g.mu.Lock()
	if g.held == nil {
		g.held = make(chan struct{})
	}
	g.mu.Unlock()
}

func (g *gatedConn) ReleaseReturns() {
	g.mu.Lock()
	if g.held != nil {
		close(g.held)
		g.held = nil
	}
	g.mu.Unlock()
}

func (g *gatedConn) SetWriteDeadline(t time.Time) error {
	g.mu.Lock()
	g.wdl = t
	g.mu.Unlock()
	return g.Conn.SetWriteDeadline(t)
}

func (g *gatedConn) SetDeadline(t time.Time) error {
	g.mu.Lock()
	g.wdl = t
	g.mu.Unlock()
	return g.Conn.SetDeadline(t)
}

func (g *gatedConn) Write(p []byte) (int, error) {
	g.mu.Lock()
	st, dl := g.stalled, g.wdl
	g.mu.Unlock()
	if st != nil {
		var timer <-chan time.Time
		if !dl.IsZero() {
			timer = time.After(time.Until(dl))
		}
		select {
		case <-st:
		case <-timer:
			return 0, os.ErrDeadlineExceeded
		}
	}
	n, err := g.Conn.Write(p)
	g.mu.Lock()
	held := g.held
	g.mu.Unlock()
	if held != nil && err == nil && len(p) > 4 {
		// (the 4-byte write is the frame's length prefix; the frame follows)
		<-held
	}
	return n, err
}

// StallWrites / ResumeWrites switch the stall.
func (g *gatedConn) StallWrites() {
	g.mu.Lock()
	if g.stalled == nil {
		g.stalled = make(chan struct{})
	}
	g.mu.Unlock()
}

func (g *gatedConn) ResumeWrites() {
	g.mu.Lock()
	if g.stalled != nil {
		close(g.stalled)
		g.stalled = nil
	}
	g.mu.Unlock()
}
