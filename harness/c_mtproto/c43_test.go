package c_mtproto

import (
	"context"
	"fmt"
	"sort"
	"testing"
	"testing/synctest"
	"time"

	"github.com/gotd/td/mtproto"
	"pgregory.net/rapid"

	"verifharness/pbt"
)

// C43: a ping succeeds only on a pong with its own id; a missed keep-alive pong
// ends the connection.

func TestC43Ping(t *testing.T) {
	st := pbt.NewStats("TestC43Ping")
	defer st.Flush()
	rapid.Check(t, func(t *rapid.T) {
		rnd, seed := pbt.DrawStream(t, "rnd")
		npings := rapid.IntRange(1, 3).Draw(t, "npings")
		type pingPlan struct {
			deadline time.Duration // caller deadline after the ping was issued
			// pongs the peer sends, relative to ping arrival
			pongs []struct {
				after  time.Duration
				kind   string // own | other | random | dup
				copies int    // > 1: the pong is repeated inside one container (server retransmission batched with the original)
			}
		}
		plans := make([]pingPlan, npings)
		classes := map[string]bool{}
		for i := range plans {
			plans[i].deadline = time.Duration(rapid.IntRange(1, 20).Draw(t, "deadlineSec")) * time.Second
			n := rapid.IntRange(0, 3).Draw(t, "npongs")
			for j := 0; j < n; j++ {
				after := time.Duration(rapid.IntRange(0, 25_000).Draw(t, "afterMs"))*time.Millisecond + time.Duration(j+1)
				kind := rapid.SampledFrom([]string{"own", "own", "other", "random", "dup"}).Draw(t, "kind")
				copies := rapid.SampledFrom([]int{1, 1, 1, 2, 3}).Draw(t, "copies")
				plans[i].pongs = append(plans[i].pongs, struct {
					after  time.Duration
					kind   string
					copies int
				}{after, kind, copies})
			}
		}
		rapid.SyncTest(t, func(t *rapid.T) {
			key := drawKey(rnd)
			f := startConn(t, key, rnd, mtproto.Options{PingInterval: time.Hour, PingTimeout: time.Hour}, nil)
			defer f.stop(t)
			type result struct {
				err error
				at  time.Duration
			}
			results := make([]chan result, npings)
			issued := make([]time.Duration, npings)
			for i := range plans {
				i := i
				results[i] = make(chan result, 1)
				issued[i] = time.Since(f.t0)
				go func() {
					ctx, cancel := context.WithTimeout(context.Background(), plans[i].deadline)
					defer cancel()
					err := f.conn.Ping(ctx)
					results[i] <- result{err, time.Since(f.t0)}
				}()
				// let this call write its ping before the next one starts, so the i-th
				// ping seen by the peer belongs to caller i (all stay in flight together)
				synctest.Wait()
			}
			// the peer has one ping message per call, in some order; match by arrival order
			var pingIDs []int64
			var pingMsgIDs []int64
			for _, m := range f.peer.Msgs() {
				if id, ok := pbt.PingID(m.Body); ok && m.TypeID == pbt.IDPing {
					pingIDs = append(pingIDs, id)
					pingMsgIDs = append(pingMsgIDs, m.MsgID)
				}
			}
			if len(pingIDs) != npings {
				t.Fatalf("peer saw %d pings, want %d", len(pingIDs), npings)
			}
			// We cannot tell which caller owns which ping id from outside, and do not
			// need to: plan i is applied to ping id i; the oracle is evaluated per id
			// and matched to callers through the multiset of outcomes.
			type ev struct {
				at     time.Duration
				ping   int
				kind   string
				copies int
			}
			var evs []ev
			for i, p := range plans {
				for _, pg := range p.pongs {
					evs = append(evs, ev{pg.after, i, pg.kind, pg.copies})
				}
			}
			sort.SliceStable(evs, func(i, j int) bool { return evs[i].at < evs[j].at })
			ownPongAt := make([]time.Duration, npings)
			for i := range ownPongAt {
				ownPongAt[i] = -1
			}
			for _, e := range evs {
				time.Sleep(e.at - time.Since(f.t0))
				synctest.Wait()
				var id int64
				switch e.kind {
				case "own", "dup":
					id = pingIDs[e.ping]
					if ownPongAt[e.ping] < 0 {
						ownPongAt[e.ping] = time.Since(f.t0)
					} else {
						classes["duplicate-pong"] = true
					}
				case "other":
					id = pingIDs[(e.ping+1)%npings]
					if npings == 1 {
						id = pingIDs[0] + 1
					} else {
						// a pong naming another in-flight ping is that ping's own pong
						o := (e.ping + 1) % npings
						if ownPongAt[o] < 0 {
							ownPongAt[o] = time.Since(f.t0)
						}
						classes["pong-for-other-inflight"] = true
					}
				default:
					id = int64(rnd.Uint64()) | 1<<40
					classes["random-pong"] = true
				}
				body := pbt.Pong(pingMsgIDs[e.ping], id)
				if e.copies > 1 {
					// the same pong several times in one container: the copies are
					// handled back to back, before the waiting caller gets to run
					var msgs []pbt.ContainerMsg
					for k := 0; k < e.copies; k++ {
						msgs = append(msgs, pbt.ContainerMsg{MsgID: f.peer.NextID(1), SeqNo: 0, Body: body})
					}
					body = pbt.Container(msgs...)
					classes["duplicate-pong"] = true
					classes["pong-repeated-in-container"] = true
				}
				if err := f.peer.Send(f.peer.NextID(1), 0, body); err != nil {
					t.Fatalf("peer send: %v", err)
				}
				synctest.Wait()
			}
			time.Sleep(30 * time.Second)
			synctest.Wait()
			// Each Ping call drew its id from the shared random stream in call order is
			// not guaranteed, so compare as multisets: for every ping id the expected
			// outcome is determined; the callers' outcomes must be a permutation
			// consistent with their deadlines. All calls here use independent
			// deadlines, so match outcome by (deadline) where possible: the i-th
			// started goroutine wrote the i-th ping unless goroutines were reordered;
			// with GOMAXPROCS=1 start order is preserved. Verify by exact match first.
			for i := range plans {
				var r result
				select {
				case r = <-results[i]:
				default:
					t.Fatalf("Ping %d did not return", i)
				}
				deadlineAt := issued[i] + plans[i].deadline
				wantOK := ownPongAt[i] >= 0 && ownPongAt[i] < deadlineAt
				if wantOK {
					if r.err != nil {
						t.Fatalf("ping %d: own pong delivered at %v before deadline %v, but Ping returned %v", i, ownPongAt[i], deadlineAt, r.err)
					}
					if r.at != ownPongAt[i] {
						t.Fatalf("ping %d returned at %v, own pong was delivered at %v", i, r.at, ownPongAt[i])
					}
				} else {
					if r.err == nil {
						t.Fatalf("ping %d returned success at %v without a pong carrying its id before its deadline (own pong at %v, deadline %v)", i, r.at, ownPongAt[i], deadlineAt)
					}
					if r.err != context.DeadlineExceeded {
						t.Fatalf("ping %d: want context deadline error, got %v", i, r.err)
					}
					if r.at != deadlineAt {
						t.Fatalf("ping %d returned at %v, deadline was %v", i, r.at, deadlineAt)
					}
				}
			}
		})
		nontrivial := classes["random-pong"] || classes["pong-for-other-inflight"] || classes["duplicate-pong"]
		key := fmt.Sprintf("seed=%d plans=%v", seed, plans)
		var cl []string
		for _, c := range []string{"random-pong", "pong-for-other-inflight", "duplicate-pong", "pong-repeated-in-container"} {
			if classes[c] {
				cl = append(cl, c)
			}
		}
		st.Case(key, nontrivial, fmt.Sprintf("pings=%d plans=%v", npings, plans), cl...)
	})
}

// TestC43KeepAlive: the keep-alive loop ends the connection when a pong does
// not arrive within the ping timeout, and keeps it otherwise.
func TestC43KeepAlive(t *testing.T) {
	st := pbt.NewStats("TestC43KeepAlive")
	defer st.Flush()
	rapid.Check(t, func(t *rapid.T) {
		rnd, seed := pbt.DrawStream(t, "rnd")
		interval := time.Duration(rapid.SampledFrom([]int{5, 60, 90}).Draw(t, "intervalSec")) * time.Second
		// timeout < interval (as in the defaults 15s/60s): a pong later than the next
		// tick would make the loop skip ticks, which the round model does not follow
		timeouts := []int{1, 4}
		if interval >= time.Minute {
			timeouts = []int{1, 15, 30}
		}
		timeout := time.Duration(rapid.SampledFrom(timeouts).Draw(t, "timeoutSec")) * time.Second
		rounds := rapid.IntRange(1, 5).Draw(t, "rounds")
		// lateness of the pong for each keep-alive ping, relative to the ping's arrival
		type lat struct {
			kind string
			d    time.Duration
		}
		lats := make([]lat, rounds)
		failRound := -1
		for i := range lats {
			k := rapid.SampledFrom([]string{"prompt", "prompt", "just-in-time", "just-late", "never", "wrong-id", "stalled-write"}).Draw(t, "lat")
			l := lat{kind: k}
			switch k {
			case "prompt":
				l.d = time.Duration(rapid.IntRange(0, 500).Draw(t, "ms")) * time.Millisecond
			case "just-in-time":
				l.d = timeout - time.Millisecond
			case "just-late":
				l.d = timeout + time.Millisecond
			}
			lats[i] = l
			if failRound < 0 && (k == "just-late" || k == "never" || k == "wrong-id" || k == "stalled-write") {
				failRound = i
			}
		}
		rapid.SyncTest(t, func(t *rapid.T) {
			key := drawKey(rnd)
			f := startConn(t, key, rnd, mtproto.Options{PingInterval: interval, PingTimeout: timeout}, nil)
			defer f.stop(t)
			seen := 0
			for r := 0; r < rounds; r++ {
				if lats[r].kind == "stalled-write" && r == failRound {
					// the link is half open: the peer stops reading, so the keep-alive ping
					// cannot even be written; no pong can come, and the loop must end the
					// connection within the ping timeout all the same
					f.peer.StallReads()
					tick := time.Duration(r+1) * interval
					time.Sleep(tick + timeout - time.Since(f.t0))
					synctest.Wait()
					alive, err := f.running()
					if alive {
						t.Fatalf("keep-alive ping %d (due at %v) could not be written (peer not reading) and no pong came within %v, but Conn.Run is still running at %v", r, tick, timeout, time.Since(f.t0))
					}
					if err == nil {
						t.Fatalf("Conn.Run returned nil after a missed pong")
					}
					f.peer.ResumeReads()
					return
				}
				// wait for the r-th keep-alive ping
				time.Sleep(time.Duration(r+1)*interval - time.Since(f.t0))
				synctest.Wait()
				var pings []*pbt.ClientMsg
				for _, m := range f.peer.Msgs() {
					if m.TypeID == pbt.IDPingDelayDisc {
						pings = append(pings, m)
					}
				}
				if alive, err := f.running(); !alive {
					t.Fatalf("connection ended before keep-alive round %d although every pong was in time: %v", r, err)
				}
				if len(pings) != seen+1 {
					t.Fatalf("round %d at %v: peer saw %d keep-alive pings, want %d", r, time.Since(f.t0), len(pings), seen+1)
				}
				seen++
				p := pings[len(pings)-1]
				pingAt := time.Since(f.t0)
				id, _ := pbt.PingID(p.Body)
				l := lats[r]
				switch l.kind {
				case "never":
				case "wrong-id":
					_ = f.peer.Send(f.peer.NextID(1), 0, pbt.Pong(p.MsgID, id+1))
				default:
					time.Sleep(l.d)
					synctest.Wait()
					_ = f.peer.Send(f.peer.NextID(1), 0, pbt.Pong(p.MsgID, id))
				}
				synctest.Wait()
				if r == failRound {
					// the connection must end no later than timeout after the ping
					time.Sleep(pingAt + timeout - time.Since(f.t0))
					synctest.Wait()
					alive, err := f.running()
					if alive {
						t.Fatalf("keep-alive ping %d sent at %v got no matching pong within %v (%s), but Conn.Run is still running at %v", r, pingAt, timeout, l.kind, time.Since(f.t0))
					}
					if err == nil {
						t.Fatalf("Conn.Run returned nil after a missed pong")
					}
					return
				}
			}
			time.Sleep(interval / 2)
			synctest.Wait()
			if alive, err := f.running(); !alive {
				t.Fatalf("connection ended although every pong was in time: %v", err)
			}
		})
		key := fmt.Sprintf("seed=%d i=%v t=%v lats=%v", seed, interval, timeout, lats)
		nontrivial := false
		for _, l := range lats {
			if l.kind == "just-in-time" || l.kind == "just-late" || l.kind == "wrong-id" || l.kind == "stalled-write" {
				nontrivial = true
			}
		}
		st.Case(key, nontrivial, key, fmt.Sprintf("failRound=%d", failRound))
	})
}
