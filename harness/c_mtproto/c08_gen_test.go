package c_mtproto

import (
	"fmt"
	"testing"
	"time"

	"github.com/gotd/td/proto"
	"pgregory.net/rapid"

	"verifharness/pbt"
)

// C08 (a): proto.MessageIDGen under a scripted clock.
func TestC08Gen(t *testing.T) {
	st := pbt.NewStats("TestC08Gen")
	defer st.Flush()
	deltas := []int64{0, 1, 2, 3, 4, 5, 9, 10, 11, 1000, 1_000_000, 1_000_000_000, -1, -1_000_000_000, 15_600_000}
	rapid.Check(t, func(t *rapid.T) {
		// start near a second boundary sometimes
		base := int64(1_700_000_000)*1_000_000_000 + rapid.SampledFrom([]int64{0, 999_999_990, 500_000_000, 123_456_789}).Draw(t, "baseFrac")
		now := base
		gen := proto.NewMessageIDGen(func() time.Time { return time.Unix(0, now) })
		n := rapid.IntRange(2, 40).Draw(t, "n")
		var prev int64
		var prevTime time.Time
		maxClock := now
		small, back := false, false
		var ds []int64
		for i := 0; i < n; i++ {
			if i > 0 {
				d := rapid.SampledFrom(deltas).Draw(t, "delta")
				ds = append(ds, d)
				if d >= 1 && d <= 3 {
					small = true
				}
				if d < 0 {
					back = true
				}
				now += d
			}
			if now > maxClock {
				maxClock = now
			}
			typ := proto.MessageFromClient
			id := gen.New(typ)
			if id%4 != 0 {
				t.Fatalf("id %#x is not divisible by 4 (client type)", id)
			}
			if proto.MessageID(id).Type() != proto.MessageFromClient {
				t.Fatalf("id %#x is not client-typed", id)
			}
			tm := proto.MessageID(id).Time()
			if i > 0 {
				if id <= prev {
					t.Fatalf("call %d: id %#x is not greater than the previous id %#x (clock deltas %v)", i, id, prev, ds)
				}
				if tm.Before(prevTime) {
					t.Fatalf("call %d: id time %v is earlier than previous id time %v", i, tm, prevTime)
				}
			}
			// close to the clock reading: never before the highest reading by more than
			// the 4 ns rounding, never ahead by more than 10 ns per call
			lo := time.Unix(0, maxClock-4)
			hi := time.Unix(0, maxClock+int64(10*(i+1)))
			if tm.Before(lo) || tm.After(hi) {
				t.Fatalf("call %d: id time %v outside [%v, %v]", i, tm.UnixNano(), lo.UnixNano(), hi.UnixNano())
			}
			prev, prevTime = id, tm
		}
		key := fmt.Sprintf("base=%d deltas=%v", base%1_000_000_000, ds)
		var cl []string
		if small {
			cl = append(cl, "delta-1..3ns")
		}
		if back {
			cl = append(cl, "clock-backwards")
		}
		st.Case(key, small || back, key, cl...)
	})
}
