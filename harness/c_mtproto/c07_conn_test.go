package c_mtproto

import (
	"encoding/binary"
	"fmt"
	"strings"
	"testing"
	"testing/synctest"
	"time"

	"github.com/gotd/td/mtproto"
	"pgregory.net/rapid"

	"verifharness/pbt"
	"verifharness/pbt/ref"
)

// C07 (b): a running mtproto.Conn receives generated frames from the harness
// peer (encrypted with the reference implementation, so paddings outside the
// specification can be built); exactly the frames the reference rule accepts
// must reach Handler.OnMessage.

const probeType = 0x7e570001 // not a service constructor: goes to Handler.OnMessage

func probeBody(tag uint64, words int) []byte {
	b := binary.LittleEndian.AppendUint32(nil, probeType)
	b = binary.LittleEndian.AppendUint64(b, tag)
	for i := 0; i < words; i++ {
		b = binary.LittleEndian.AppendUint32(b, 0)
	}
	return b
}

func serverID(at time.Time, typ int64, salt int64) int64 {
	return at.Unix()<<32 | (int64(at.Nanosecond())+salt*8)&^3&0x7fffffff | typ
}

func TestC07Conn(t *testing.T) {
	st := pbt.NewStats("TestC07Conn")
	defer st.Flush()
	softKinds := []string{"valid", "valid", "valid", "replay", "replay-reencrypted", "session-created", "client-typed", "type-2", "old-301", "old-299", "future-31", "future-29", "wrong-session", "lower-fresh"}
	hardKinds := []string{"pad-0", "pad-4", "pad-8", "pad-12", "pad-1024", "pad-1040", "len-not-mult-4", "len-neg-4", "len-neg-8", "len-neg-512", "len-neg-1", "len-min-int32", "wrong-key", "flipped-bit", "none"}
	rapid.Check(t, func(t *rapid.T) {
		rnd, seed := pbt.DrawStream(t, "rnd")
		n := rapid.IntRange(1, 25).Draw(t, "n")
		kinds := make([]string, n)
		for i := range kinds {
			kinds[i] = rapid.SampledFrom(softKinds).Draw(t, "kind")
		}
		hard := rapid.SampledFrom(hardKinds).Draw(t, "hard")
		replayIdx := make([]int, n)
		for i := range replayIdx {
			replayIdx[i] = rapid.IntRange(0, 1000).Draw(t, "replayOf")
		}
		gaps := make([]int, n)
		for i := range gaps {
			gaps[i] = rapid.SampledFrom([]int{0, 0, 1, 1000, 60_000}).Draw(t, "gapMs")
		}
		var descr []string
		oneRule := false
		rapid.SyncTest(t, func(t *rapid.T) {
			key := drawKey(rnd)
			f := startConn(t, key, rnd, mtproto.Options{PingInterval: 24 * time.Hour, PingTimeout: time.Hour}, nil)
			defer f.stop(t)
			// learn the session id: make the client send one frame
			go func() { _ = f.conn.Ping(t.Context()) }()
			synctest.Wait()
			if f.peer.Session == 0 {
				t.Fatalf("peer did not learn the session")
			}
			session := f.peer.Session
			type sent struct {
				wire  []byte
				id    int64
				tag   uint64
				words int
			}
			var accepted []sent
			seen := map[int64]bool{}
			want := map[uint64]bool{}
			tag := uint64(100)
			send := func(kind string, i int) {
				now := time.Now()
				tag++
				words := int(tag % 4) // payload 12..24 bytes
				body := probeBody(tag, words)
				id := serverID(now, 1, int64(tag))
				sess := session
				k := f.key
				pad := pbt.PadFor(len(body))
				dataLen := int32(len(body))
				expect := true
				switch kind {
				case "valid":
				case "replay", "replay-reencrypted":
					if len(accepted) == 0 {
						kind = "valid"
						break
					}
					prev := accepted[replayIdx[i]%len(accepted)]
					expect = false
					oneRule = true
					if kind == "replay" {
						descr = append(descr, fmt.Sprintf("replay(#%d)", prev.tag))
						_ = f.peer.WriteFrame(prev.wire)
						synctest.Wait()
						return
					}
					// same msg id, new payload tag: must still be rejected by id
					id = prev.id
				case "session-created":
					// a valid service message that announces a (new) server session: it
					// changes neither key nor session id, so nothing accepted before it
					// becomes acceptable again
					body = pbt.NewSessionCreated(id-4, int64(tag), 0x77)
					dataLen = int32(len(body))
					pad = pbt.PadFor(len(body))
					wire := ref.EncryptMessageLen(k, true, 0x5a17, sess, id, 1, dataLen, append(append([]byte(nil), body...), pbt.Padding(pad)...))
					descr = append(descr, fmt.Sprintf("session-created(#%d)", tag))
					_ = f.peer.WriteFrame(wire)
					synctest.Wait()
					seen[id] = true
					return
				case "client-typed":
					id = serverID(now, 0, int64(tag))
					expect = false
					oneRule = true
				case "type-2":
					id = serverID(now, 2, int64(tag))
					expect = false
					oneRule = true
				case "old-301":
					id = serverID(now.Add(-301*time.Second), 1, int64(tag))
					expect = false
					oneRule = true
				case "old-299":
					id = serverID(now.Add(-299*time.Second), 1, int64(tag))
				case "future-31":
					id = serverID(now.Add(31*time.Second), 3, int64(tag))
					expect = false
					oneRule = true
				case "future-29":
					id = serverID(now.Add(29*time.Second), 3, int64(tag))
				case "wrong-session":
					sess = session + 1
					expect = false
					oneRule = true
				case "lower-fresh":
					// lower than the previous ids but never seen and fewer than N stored: accepted
					id = serverID(now.Add(-10*time.Second), 1, int64(tag))
				case "pad-0", "pad-4", "pad-8", "pad-12", "pad-1024", "pad-1040":
					var p int
					fmt.Sscanf(kind, "pad-%d", &p)
					// choose the payload size that makes exactly this padding block-align
					for w := 0; w < 4; w++ {
						if (32+len(probeBody(tag, w))+p)%16 == 0 {
							words = w
						}
					}
					body = probeBody(tag, words)
					dataLen = int32(len(body))
					if (32+len(body)+p)%16 != 0 {
						panic("alignment")
					}
					pad = p
					expect = p >= 12 && p <= 1024
					oneRule = true
				case "len-not-mult-4":
					body = append(probeBody(tag, 0), 0xAA) // 13 bytes
					dataLen = 13
					pad = 16 - (32+13)%16 + 16
					expect = false
					oneRule = true
				case "len-neg-4", "len-neg-8", "len-neg-512", "len-neg-1", "len-min-int32":
					// message_data_length is a signed 32-bit field: a negative value is
					// no payload length at all (the frame itself is well-formed and
					// block-aligned, so only the length rule can refuse it)
					switch kind {
					case "len-neg-4":
						dataLen = -4
					case "len-neg-8":
						dataLen = -8
					case "len-neg-512":
						dataLen = -512
					case "len-neg-1":
						dataLen = -1
					default:
						dataLen = -1 << 31
					}
					expect = false
					oneRule = true
				case "wrong-key":
					k[100] ^= 0x40 // inside auth_key[96:128], used by msg_key for server->client
					expect = false
					oneRule = true
				case "flipped-bit":
					expect = false
					oneRule = true
				}
				if seen[id] {
					expect = false
				}
				wire := ref.EncryptMessageLen(k, true, 0x5a17, sess, id, 0, dataLen, append(append([]byte(nil), body...), pbt.Padding(pad)...))
				if kind == "wrong-key" {
					// keep the right key id so that only the key material differs
					good := ref.AuthKeyID(f.key)
					copy(wire[:8], good[:])
				}
				if kind == "flipped-bit" {
					wire[len(wire)-3] ^= 0x10
				}
				descr = append(descr, fmt.Sprintf("%s(#%d)", kind, tag))
				if err := f.peer.WriteFrame(wire); err != nil {
					// connection already closed by the client (after a hard-invalid frame)
					return
				}
				synctest.Wait()
				if expect {
					want[tag] = true
					seen[id] = true
					accepted = append(accepted, sent{wire: wire, id: id, tag: tag, words: words})
				}
			}
			for i, kind := range kinds {
				if gaps[i] > 0 {
					time.Sleep(time.Duration(gaps[i]) * time.Millisecond)
				}
				send(kind, i)
			}
			if hard != "none" {
				send(hard, 0)
			}
			synctest.Wait()
			got := map[uint64]int{}
			for _, b := range f.handled() {
				if len(b) >= 12 && binary.LittleEndian.Uint32(b) == probeType {
					got[binary.LittleEndian.Uint64(b[4:])]++
				}
			}
			for tg, c := range got {
				if !want[tg] {
					t.Fatalf("frame #%d reached the handler but the reference rule rejects it\nframes: %s", tg, strings.Join(descr, " "))
				}
				if c > 1 {
					t.Fatalf("frame #%d reached the handler %d times\nframes: %s", tg, c, strings.Join(descr, " "))
				}
			}
			for tg := range want {
				if got[tg] == 0 {
					t.Fatalf("frame #%d is valid by the reference rule but never reached the handler\nframes: %s", tg, strings.Join(descr, " "))
				}
			}
		})
		key := fmt.Sprintf("seed=%d %s", seed, strings.Join(descr, " "))
		var cl []string
		seenKind := map[string]bool{}
		for _, k := range append(kinds, hard) {
			if !seenKind[k] {
				seenKind[k] = true
				cl = append(cl, k)
			}
		}
		st.Case(key, oneRule, short(strings.Join(descr, " "), 300), cl...)
	})
}
