package c_mtproto

import (
	"bytes"
	"context"
	"encoding/binary"
	"fmt"
	"sort"
	"sync"
	"testing"
	"testing/synctest"
	"time"

	"github.com/gotd/td/bin"
	"github.com/gotd/td/mtproto"
	"pgregory.net/rapid"

	"verifharness/pbt"
)

type rawEnc []byte

func (e rawEnc) Encode(b *bin.Buffer) error { b.Put(e); return nil }

type rawDec struct{ got *[]byte }

func (d rawDec) Decode(b *bin.Buffer) error {
	*d.got = append([]byte(nil), b.Buf...)
	return nil
}

func reqBody(tag uint64, size int) []byte {
	b := binary.LittleEndian.AppendUint32(nil, 0x7e570002)
	b = binary.LittleEndian.AppendUint64(b, tag)
	for len(b) < size {
		b = binary.LittleEndian.AppendUint32(b, uint32(len(b)))
	}
	return b
}

// C08 (b): concurrent invokes and pings on one connection; the peer decodes
// every frame and checks ids and sequence numbers in msg_id order.
func TestC08Conn(t *testing.T) {
	st := pbt.NewStats("TestC08Conn")
	defer st.Flush()
	rapid.Check(t, func(t *rapid.T) {
		rnd, seed := pbt.DrawStream(t, "rnd")
		nops := rapid.IntRange(2, 24).Draw(t, "nops")
		ops := make([]string, nops)
		nInv, nPing := 0, 0
		for i := range ops {
			ops[i] = rapid.SampledFrom([]string{"invoke", "invoke", "ping"}).Draw(t, "op")
			if ops[i] == "invoke" {
				nInv++
			} else {
				nPing++
			}
		}
		waves := rapid.IntRange(1, 3).Draw(t, "waves")
		tick := rapid.SampledFrom([]time.Duration{0, time.Nanosecond, time.Millisecond, time.Second}).Draw(t, "tick")
		// The server may announce a session more than once, with the same or another
		// unique_id (it lost its state): numbering must go on (seeded change C08d).
		announce := make([]int, waves)
		for w := range announce {
			announce[w] = rapid.SampledFrom([]int{0, 0, 1, 2}).Draw(t, "announce")
		}
		rapid.SyncTest(t, func(t *rapid.T) {
			key := drawKey(rnd)
			f := startConn(t, key, rnd, mtproto.Options{PingInterval: 24 * time.Hour, PingTimeout: time.Hour,
				RetryInterval: time.Hour, CompressThreshold: -1}, nil)
			ctx, cancel := context.WithCancel(context.Background())
			var wg sync.WaitGroup
			per := (nops + waves - 1) / waves
			for w := 0; w < waves; w++ {
				for i := w * per; i < nops && i < (w+1)*per; i++ {
					i := i
					wg.Add(1)
					go func() {
						defer wg.Done()
						if ops[i] == "invoke" {
							var out []byte
							_ = f.conn.Invoke(ctx, rawEnc(reqBody(uint64(i), 12)), rawDec{&out})
						} else {
							_ = f.conn.Ping(ctx)
						}
					}()
				}
				synctest.Wait()
				if announce[w] != 0 {
					_ = f.peer.Send(f.peer.NextID(3), 1, pbt.NewSessionCreated(0, int64(100+announce[w]), 0x5a17))
					synctest.Wait()
				}
				time.Sleep(tick)
			}
			synctest.Wait()
			msgs := f.peer.Msgs()
			// close the connection first: cancelling a sent request makes the client
			// send rpc_drop_answer and wait for its answer, which this peer never gives
			f.stop(t)
			cancel()
			wg.Wait()
			// de-duplicate retransmissions: same id, seq and body is one message
			type m struct {
				id   int64
				seq  int32
				body []byte
			}
			byID := map[int64]m{}
			var list []m
			for _, x := range msgs {
				if x.TypeID == pbt.IDMsgContainer {
					continue
				}
				if prev, ok := byID[x.MsgID]; ok {
					if prev.seq != x.SeqNo || !bytes.Equal(prev.body, x.Body) {
						t.Fatalf("two different messages share msg_id %#x (seq %d/%d)", x.MsgID, prev.seq, x.SeqNo)
					}
					continue
				}
				mm := m{x.MsgID, x.SeqNo, x.Body}
				byID[x.MsgID] = mm
				list = append(list, mm)
			}
			if len(list) < nops {
				t.Fatalf("peer saw %d distinct messages for %d operations", len(list), nops)
			}
			sort.Slice(list, func(i, j int) bool { return list[i].id < list[j].id })
			content := int32(0)
			for i, x := range list {
				if x.id%4 != 0 {
					t.Fatalf("msg_id %#x is not divisible by 4", x.id)
				}
				isContent := x.seq%2 == 1
				isInvoke := len(x.body) >= 4 && binary.LittleEndian.Uint32(x.body) == 0x7e570002
				if isInvoke != isContent {
					t.Fatalf("message %d (type %#x): seq_no %d has the wrong parity (content=%v)", i, binary.LittleEndian.Uint32(x.body), x.seq, isInvoke)
				}
				want := 2 * content
				if isContent {
					want++
				}
				if x.seq != want {
					t.Fatalf("message %d in msg_id order (id %#x): seq_no %d, want %d (%d content messages before it)", i, x.id, x.seq, want, content)
				}
				if isContent {
					content++
				}
			}
		})
		key := fmt.Sprintf("seed=%d ops=%v waves=%d tick=%v", seed, ops, waves, tick)
		st.Case(key, nInv > 0 && nPing > 0, key, fmt.Sprintf("waves=%d", waves))
	})
}

// C08 (c): retransmissions whose write fails. Requests are issued one after the
// other (a single writer at any time); the peer answers nothing, so every
// request is transmitted again after the retry interval; for drawn requests the
// link stops draining before that retransmission, which then fails at the
// request's deadline without having transferred anything. Every content
// message has been on the wire once, so the numbering the peer sees must be
// exactly the specification's, failed retransmissions or not.
func TestC08Resend(t *testing.T) {
	st := pbt.NewStats("TestC08Resend")
	defer st.Flush()
	rapid.Check(t, func(t *rapid.T) {
		rnd, seed := pbt.DrawStream(t, "rnd")
		nops := rapid.IntRange(2, 8).Draw(t, "nops")
		ops := make([]string, nops)
		failing := 0
		for i := range ops {
			ops[i] = rapid.SampledFrom([]string{"invoke", "invoke-resend-fails", "invoke-resend-fails", "ping"}).Draw(t, "op")
			if ops[i] == "invoke-resend-fails" {
				failing++
			}
		}
		rapid.SyncTest(t, func(t *rapid.T) {
			key := drawKey(rnd)
			f := startConn(t, key, rnd, mtproto.Options{PingInterval: 24 * time.Hour, PingTimeout: time.Hour,
				RetryInterval: time.Second, MaxRetries: 10, CompressThreshold: -1}, nil)
			for i, op := range ops {
				switch op {
				case "ping":
					ctx, cancel := context.WithTimeout(context.Background(), 100*time.Millisecond)
					_ = f.conn.Ping(ctx)
					cancel()
				default:
					ctx, cancel := context.WithTimeout(context.Background(), 2500*time.Millisecond)
					done := make(chan struct{})
					go func() {
						var out []byte
						_ = f.conn.Invoke(ctx, rawEnc(reqBody(uint64(i), 12)), rawDec{&out})
						close(done)
					}()
					synctest.Wait() // first transmission is on the wire
					if op == "invoke-resend-fails" {
						time.Sleep(500 * time.Millisecond)
						f.gate.StallWrites() // the retransmission at 1 s blocks and fails at 2.5 s
					}
					<-done
					f.gate.ResumeWrites()
					cancel()
				}
				synctest.Wait()
			}
			msgs := f.peer.Msgs()
			f.stop(t)
			type m struct {
				id   int64
				seq  int32
				body []byte
			}
			byID := map[int64]m{}
			var list []m
			for _, x := range msgs {
				if x.TypeID == pbt.IDMsgContainer {
					continue
				}
				if prev, ok := byID[x.MsgID]; ok {
					if prev.seq != x.SeqNo || !bytes.Equal(prev.body, x.Body) {
						t.Fatalf("two different messages share msg_id %#x (seq %d/%d)", x.MsgID, prev.seq, x.SeqNo)
					}
					continue
				}
				mm := m{x.MsgID, x.SeqNo, x.Body}
				byID[x.MsgID] = mm
				list = append(list, mm)
			}
			sort.Slice(list, func(i, j int) bool { return list[i].id < list[j].id })
			content := int32(0)
			for i, x := range list {
				// content-related messages here are the requests and the rpc_drop_answer
				// the client sends when a request's deadline passes; the parity of the
				// number tells which kind the client meant (TestC08Conn checks the parity
				// against the message type)
				isContent := x.seq%2 == 1
				want := 2 * content
				if isContent {
					want++
				}
				if x.seq != want {
					t.Fatalf("C08 violated: message %d in msg_id order (id %#x, type %#x): seq_no %d, want %d (%d content messages before it); operations %v", i, x.id, binary.LittleEndian.Uint32(x.body), x.seq, want, content, ops)
				}
				if isContent {
					content++
				}
			}
		})
		key := fmt.Sprintf("seed=%d ops=%v", seed, ops)
		st.Case(key, failing > 0, key, fmt.Sprintf("failing-resends=%d", failing))
	})
}
