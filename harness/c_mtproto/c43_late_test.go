package c_mtproto

import (
	"context"
	"errors"
	"fmt"
	"testing"
	"testing/synctest"
	"time"

	"github.com/gotd/td/mtproto"
	"pgregory.net/rapid"

	"verifharness/pbt"
)

// C43 (pong and end of context both before the caller gets to wait): the
// goroutine of ping A is held right after its write handed the ping over (it
// lost the processor after the system call); meanwhile the peer answers
// and/or A's context ends. Once released, A may report either what happened
// first or second when both happened, but never success without its pong.
// Then follow-up pings run on the same connection: whatever A went through,
// each of them succeeds only on a pong with its own id.
func TestC43Late(t *testing.T) {
	st := pbt.NewStats("TestC43Late")
	defer st.Flush()
	rapid.Check(t, func(t *rapid.T) {
		rnd, seed := pbt.DrawStream(t, "rnd")
		type round struct {
			pongA     string // own | none | other
			endA      string // deadline | cancel | none
			pongFirst bool
			followUps []string // per follow-up ping: none | other | own | own-late
		}
		rounds := make([]round, rapid.IntRange(1, 6).Draw(t, "rounds"))
		for i := range rounds {
			r := &rounds[i]
			r.pongA = rapid.SampledFrom([]string{"own", "own", "own", "none", "other"}).Draw(t, "pongA")
			r.endA = rapid.SampledFrom([]string{"deadline", "cancel", "cancel", "none"}).Draw(t, "endA")
			if r.pongA != "own" && r.endA == "none" {
				r.endA = "cancel" // something must end the call
			}
			r.pongFirst = rapid.Bool().Draw(t, "pongFirst")
			for j, n := 0, rapid.IntRange(0, 2).Draw(t, "followUps"); j < n; j++ {
				r.followUps = append(r.followUps, rapid.SampledFrom([]string{"none", "none", "other", "own", "own-late"}).Draw(t, "followUp"))
			}
		}
		classes := map[string]bool{}
		rapid.SyncTest(t, func(t *rapid.T) {
			key := drawKey(rnd)
			f := startConn(t, key, rnd, mtproto.Options{PingInterval: 1000 * time.Hour, PingTimeout: time.Hour}, nil)
			defer f.stop(t)
			lastPing := func() (id, msgID int64) {
				msgs := f.peer.Msgs()
				for i := len(msgs) - 1; i >= 0; i-- {
					if pid, ok := pbt.PingID(msgs[i].Body); ok && msgs[i].TypeID == pbt.IDPing {
						return pid, msgs[i].MsgID
					}
				}
				t.Fatalf("the peer saw no ping")
				return 0, 0
			}
			nPings := func() int {
				n := 0
				for _, m := range f.peer.Msgs() {
					if m.TypeID == pbt.IDPing {
						n++
					}
				}
				return n
			}
			sendPong := func(msgID, id int64) {
				if err := f.peer.Send(f.peer.NextID(1), 0, pbt.Pong(msgID, id)); err != nil {
					t.Fatalf("peer send: %v", err)
				}
				synctest.Wait()
			}
			for ri, r := range rounds {
				where := fmt.Sprintf("round %d %+v", ri, r)
				// ping A, held after its write
				const deadlineA = 5 * time.Second
				ctx, cancel := context.WithCancel(context.Background())
				if r.endA == "deadline" {
					ctx, cancel = context.WithTimeout(context.Background(), deadlineA)
				}
				before := nPings()
				f.gate.HoldReturns()
				resA := make(chan error, 1)
				go func() { resA <- f.conn.Ping(ctx) }()
				synctest.Wait()
				if nPings() != before+1 {
					cancel()
					t.Fatalf("%s: ping A was not written", where)
				}
				idA, msgA := lastPing()
				end := func() {
					switch r.endA {
					case "cancel":
						cancel()
					case "deadline":
						time.Sleep(deadlineA)
					}
					synctest.Wait()
				}
				pong := func() {
					switch r.pongA {
					case "own":
						sendPong(msgA, idA)
					case "other":
						sendPong(msgA, idA+1)
					}
				}
				if r.pongFirst {
					pong()
					end()
				} else {
					end()
					pong()
				}
				select {
				case err := <-resA:
					t.Fatalf("%s: ping A returned %v while its write had not returned", where, err)
				default:
				}
				f.gate.ReleaseReturns()
				synctest.Wait()
				var errA error
				select {
				case errA = <-resA:
				default:
					cancel()
					t.Fatalf("%s: ping A did not return after its write returned (pong %s, context end %s)", where, r.pongA, r.endA)
				}
				cancel()
				wantCtx := context.Canceled
				if r.endA == "deadline" {
					wantCtx = context.DeadlineExceeded
				}
				switch {
				case errA == nil:
					if r.pongA != "own" {
						t.Fatalf("%s: ping A returned success without a pong carrying its id", where)
					}
				case errors.Is(errA, wantCtx):
					if r.endA == "none" {
						t.Fatalf("%s: ping A returned %v, its context is alive", where, errA)
					}
				default:
					t.Fatalf("%s: ping A returned %v", where, errA)
				}
				if r.pongA == "own" && r.endA != "none" {
					classes["pong-and-context-end-before-wait"] = true
					if errA != nil {
						classes["...reported-context-error"] = true
					} else {
						classes["...reported-success"] = true
					}
				}
				// follow-up pings on the same connection
				for bi, plan := range r.followUps {
					const deadlineB = 3 * time.Second
					ctxB, cancelB := context.WithTimeout(context.Background(), deadlineB)
					start := time.Now()
					type res struct {
						err error
						at  time.Duration
					}
					resB := make(chan res, 1)
					before := nPings()
					go func() {
						err := f.conn.Ping(ctxB)
						resB <- res{err, time.Since(start)}
					}()
					synctest.Wait()
					if nPings() != before+1 {
						cancelB()
						t.Fatalf("%s: follow-up ping %d was not written", where, bi)
					}
					idB, msgB := lastPing()
					ownAt := time.Duration(-1)
					switch plan {
					case "other":
						time.Sleep(time.Second)
						sendPong(msgB, idA) // the id of the ping before
					case "own":
						time.Sleep(time.Second)
						ownAt = time.Since(start)
						sendPong(msgB, idB)
					case "own-late":
						time.Sleep(deadlineB + time.Second)
						sendPong(msgB, idB)
					}
					time.Sleep(2 * deadlineB)
					synctest.Wait()
					var rb res
					select {
					case rb = <-resB:
					default:
						cancelB()
						t.Fatalf("%s: follow-up ping %d (%s) did not return", where, bi, plan)
					}
					cancelB()
					if ownAt >= 0 {
						if rb.err != nil || rb.at != ownAt {
							t.Fatalf("%s: follow-up ping %d: own pong at %v, Ping returned %v at %v", where, bi, ownAt, rb.err, rb.at)
						}
					} else {
						if rb.err == nil {
							t.Fatalf("%s: follow-up ping %d (%s) returned success after %v without a pong carrying its id (ping A before it: pong %s, context end %s, returned %v)", where, bi, plan, rb.at, r.pongA, r.endA, errA)
						}
						if !errors.Is(rb.err, context.DeadlineExceeded) || rb.at != deadlineB {
							t.Fatalf("%s: follow-up ping %d (%s): returned %v at %v, deadline %v", where, bi, plan, rb.err, rb.at, deadlineB)
						}
					}
					classes["follow-up:"+plan] = true
				}
			}
		})
		key := fmt.Sprintf("seed=%d rounds=%+v", seed, rounds)
		var cl []string
		for c := range classes {
			cl = append(cl, c)
		}
		// non-trivial: a ping had both its pong and the end of its context
		// before it got to wait, and another ping followed
		nt := false
		for _, r := range rounds {
			if r.pongA == "own" && r.endA != "none" && len(r.followUps) > 0 {
				nt = true
			}
		}
		st.Case(key, nt, fmt.Sprintf("%+v", rounds), cl...)
	})
}
