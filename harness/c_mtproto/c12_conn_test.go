package c_mtproto

import (
	"context"
	"encoding/binary"
	"fmt"
	"io"
	"net"
	"testing"
	"testing/synctest"
	"time"

	"github.com/gotd/td/crypto"
	"github.com/gotd/td/exchange"
	"github.com/gotd/td/mtproto"
	"github.com/gotd/td/transport"
	"pgregory.net/rapid"

	"verifharness/pbt"
)

// C12 (connection level): a peer that goes silent inside a key exchange makes
// mtproto.Conn.Run fail within the exchange timeout of the stalled step - for
// the initial connect without PFS, with PFS (permanent, then temporary
// exchange) and for key regeneration after the server reported an unknown key
// (transport error -404).
func TestC12Conn(t *testing.T) {
	st := pbt.NewStats("TestC12Conn")
	defer st.Flush()
	tk := pbt.ParseKey(pbt.TrustedKeyPEM)
	rapid.Check(t, func(t *rapid.T) {
		crnd, cseed := pbt.DrawStream(t, "clientRnd")
		srnd, sseed := pbt.DrawStream(t, "serverRnd")
		mode := rapid.SampledFrom([]string{"initial", "pfs-perm", "pfs-temp", "regen"}).Draw(t, "mode")
		stall := rapid.IntRange(1, 3).Draw(t, "stallAt")
		timeout := time.Duration(rapid.SampledFrom([]int{1, 15, 60}).Draw(t, "timeoutSec")) * time.Second
		rapid.SyncTest(t, func(t *rapid.T) {
			var stalled *pbt.ExServer
			ready := make(chan struct{})
			dial := func(ctx context.Context) (transport.Conn, error) {
				c1, c2 := net.Pipe()
				go func() {
					defer close(ready)
					switch mode {
					case "initial":
						stalled = &pbt.ExServer{Conn: c2, Key: tk, Rnd: srnd, StallAt: stall}
						_ = stalled.Run()
					case "pfs-perm":
						stalled = &pbt.ExServer{Conn: c2, Key: tk, Rnd: srnd, StallAt: stall}
						_ = stalled.Run()
					case "pfs-temp":
						first := &pbt.ExServer{Conn: c2, Key: tk, Rnd: srnd}
						if err := first.Run(); err != nil {
							return
						}
						stalled = &pbt.ExServer{Conn: c2, Key: tk, Rnd: srnd, StallAt: stall, HeaderRead: true}
						_ = stalled.Run()
					case "regen":
						var hdr [4]byte
						if _, err := io.ReadFull(c2, hdr[:]); err != nil {
							return
						}
						// transport error -404: 4-byte frame
						frame := binary.LittleEndian.AppendUint32(nil, 4)
						frame = binary.LittleEndian.AppendUint32(frame, uint32(0xffffffff-404+1))
						if _, err := c2.Write(frame); err != nil {
							return
						}
						stalled = &pbt.ExServer{Conn: c2, Key: tk, Rnd: srnd, StallAt: stall, HeaderRead: true}
						_ = stalled.Run()
					}
				}()
				return transport.Intermediate.Handshake(c1)
			}
			opts := mtproto.Options{
				PublicKeys:      []exchange.PublicKey{{RSA: &tk.PublicKey}},
				Random:          crnd,
				ExchangeTimeout: timeout,
				DialTimeout:     100 * timeout,
				PingInterval:    1000 * time.Hour,
				PingTimeout:     time.Hour,
				EnablePFS:       mode == "pfs-perm" || mode == "pfs-temp",
			}
			if mode == "regen" {
				var k [256]byte
				copy(k[:], crnd.Bytes(256))
				opts.Key = crypto.Key(k).WithID()
				opts.Salt = 1
			}
			conn := mtproto.New(dial, opts)
			ctx, cancel := context.WithCancel(context.Background())
			defer cancel()
			runErr := make(chan error, 1)
			go func() {
				runErr <- conn.Run(ctx, func(ctx context.Context) error { <-ctx.Done(); return ctx.Err() })
			}()
			synctest.Wait()
			if stalled == nil || stalled.ReqAt[stall].IsZero() {
				t.Fatalf("mode %s: the client never sent the request for step %d", mode, stall)
			}
			started := stalled.ReqAt[stall]
			time.Sleep(started.Add(timeout).Sub(time.Now()) + time.Millisecond)
			synctest.Wait()
			select {
			case err := <-runErr:
				if err == nil {
					t.Fatalf("Conn.Run returned nil although the exchange stalled")
				}
			default:
				cancel()
				_ = stalled.Conn.Close()
				synctest.Wait()
				<-runErr
				t.Fatalf("C12 violated: mode %s, server silent at exchange step %d; %v after the step started Conn.Run is still waiting (exchange timeout %v)", mode, stall, time.Since(started), timeout)
			}
			_ = stalled.Conn.Close()
			synctest.Wait()
			<-ready
		})
		key := fmt.Sprintf("c=%d s=%d mode=%s stall=%d timeout=%v", cseed, sseed, mode, stall, timeout)
		st.Case(key, stall >= 2 || mode != "initial", key, mode, fmt.Sprintf("stall=%d", stall))
	})
}
