package c_mtproto

import (
	"bytes"
	"context"
	"encoding/binary"
	"fmt"
	"strings"
	"testing"
	"testing/synctest"
	"time"

	"github.com/gotd/td/bin"
	"github.com/gotd/td/mtproto"
	"pgregory.net/rapid"

	"verifharness/pbt"
)

// C23, concurrent handling: the read loop hands every incoming message to its
// own goroutine, so results for different requests are handled at the same
// time. Here each pending request's Output is a harness decoder that stops on
// entry (the request's Output is the caller's code: a slow decode is ordinary),
// further results are delivered while it is stopped, and the stopped decoders
// are released in a drawn order. Every request must end up with exactly the
// result bytes addressed to its message id.

type gatedDec struct {
	entered chan struct{}
	release chan struct{}
	got     *[]byte
}

func (d gatedDec) Decode(b *bin.Buffer) error {
	close(d.entered)
	<-d.release
	*d.got = append([]byte(nil), b.Buf...)
	return nil
}

func TestC23Concurrent(t *testing.T) {
	st := pbt.NewStats("TestC23Concurrent")
	defer st.Flush()
	rapid.Check(t, func(t *rapid.T) {
		rnd, seed := pbt.DrawStream(t, "rnd")
		n := rapid.IntRange(2, 4).Draw(t, "pending")
		sizes := make([]int, n)
		gz := make([]bool, n)
		for i := range sizes {
			sizes[i] = 4 * rapid.SampledFrom([]int{3, 3, 4, 8, 64, 300}).Draw(t, "words")
			gz[i] = rapid.IntRange(0, 4).Draw(t, "gzip") == 0
		}
		// event order: d<i> = deliver the result for call i (on its own goroutine),
		// r<i> = release call i's decoder; r<i> comes after d<i>
		var events []string
		pendingD := make([]int, n)
		for i := range pendingD {
			pendingD[i] = i
		}
		var pendingR []int
		for len(pendingD)+len(pendingR) > 0 {
			pickD := len(pendingR) == 0 || (len(pendingD) > 0 && rapid.IntRange(0, 2).Draw(t, "deliverNext") > 0)
			if pickD {
				k := rapid.IntRange(0, len(pendingD)-1).Draw(t, "which")
				i := pendingD[k]
				pendingD = append(pendingD[:k], pendingD[k+1:]...)
				pendingR = append(pendingR, i)
				events = append(events, fmt.Sprintf("d%d", i))
			} else {
				k := rapid.IntRange(0, len(pendingR)-1).Draw(t, "which")
				i := pendingR[k]
				pendingR = append(pendingR[:k], pendingR[k+1:]...)
				events = append(events, fmt.Sprintf("r%d", i))
			}
		}
		overlap := 0
		rapid.SyncTest(t, func(t *rapid.T) {
			key := drawKey(rnd)
			f := startConn(t, key, rnd, mtproto.Options{PingInterval: 1000 * time.Hour, PingTimeout: time.Hour, RetryInterval: 1000 * time.Hour, CompressThreshold: -1}, nil)
			defer f.stop(t)
			type call struct {
				tag   uint64
				msgID int64
				done  chan error
				out   []byte
				dec   gatedDec
				want  []byte
			}
			calls := make([]*call, n)
			for i := range calls {
				c := &call{tag: uint64(2000 + i), done: make(chan error, 1)}
				c.dec = gatedDec{entered: make(chan struct{}), release: make(chan struct{}), got: &c.out}
				c.want = reqBody(c.tag+100, sizes[i])
				calls[i] = c
				go func() { c.done <- f.conn.Invoke(context.Background(), rawEnc(reqBody(c.tag, 12)), c.dec) }()
				synctest.Wait()
				for _, m := range f.peer.Msgs() {
					if m.TypeID == 0x7e570002 && binary.LittleEndian.Uint64(m.Body[4:]) == c.tag {
						c.msgID = m.MsgID
					}
				}
				if c.msgID == 0 {
					t.Fatalf("peer did not see invoke %d", i)
				}
			}
			stopped := 0
			for _, ev := range events {
				var i int
				fmt.Sscanf(ev[1:], "%d", &i)
				c := calls[i]
				if ev[0] == 'd' {
					body := c.want
					if gz[i] {
						body = gzipPacked(body)
					}
					payload := pbt.RPCResult(c.msgID, body)
					id := f.peer.NextID(1)
					go func() { _ = f.conn.VerifHandleMessage(id, &bin.Buffer{Buf: payload}) }()
					synctest.Wait()
					select {
					case <-c.dec.entered:
					default:
						t.Fatalf("result for call %d was delivered but its Output was not asked to decode (events %v)", i, events)
					}
					if stopped > 0 {
						overlap++
					}
					stopped++
				} else {
					close(c.dec.release)
					synctest.Wait()
					stopped--
					select {
					case err := <-c.done:
						if err != nil {
							t.Fatalf("call %d: Invoke returned %v", i, err)
						}
					default:
						t.Fatalf("call %d did not return after its result was decoded (events %v)", i, events)
					}
					if !bytes.Equal(c.out, c.want) {
						t.Fatalf("C23 violated: call %d (msg id %#x) decoded bytes that are not the result addressed to it: got %x.. (%d bytes), want %x.. (%d bytes); events %v",
							i, c.msgID, c.out[:min(16, len(c.out))], len(c.out), c.want[:16], len(c.want), events)
					}
				}
			}
		})
		st.Case(fmt.Sprintf("seed=%d %v %v %v", seed, sizes, gz, events), overlap > 0, fmt.Sprintf("sizes=%v gzip=%v events=%s", sizes, gz, strings.Join(events, " ")),
			fmt.Sprintf("pending=%d", n), fmt.Sprintf("overlapping-results>0=%v", overlap > 0))
	})
}
