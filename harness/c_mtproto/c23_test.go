package c_mtproto

import (
	"bytes"
	"compress/gzip"
	"context"
	"encoding/binary"
	"fmt"
	"os"
	"path/filepath"
	"sort"
	"strings"
	"testing"
	"testing/synctest"
	"time"

	"github.com/gotd/td/bin"
	"github.com/gotd/td/mtproto"
	"pgregory.net/rapid"

	"verifharness/pbt"
	"verifharness/pbt/ref"
)

// C23: handling any decrypted server payload never panics, and results are
// routed only to the request whose message id they name. Payloads go straight
// into the connection's message handler through the build-tagged
// VerifHandleMessage (on the test goroutine, so rapid catches and shrinks
// panics) while real invocations are pending on the running connection.

type pendingCall struct {
	tag   uint64
	msgID int64
	done  chan error
	out   []byte
}

type c23env struct {
	f     *fixture
	calls []*pendingCall
}

func (e *c23env) start(t fataler, n int) {
	for i := 0; i < n; i++ {
		pc := &pendingCall{tag: uint64(1000 + i), done: make(chan error, 1)}
		go func() {
			pc.done <- e.f.conn.Invoke(context.Background(), rawEnc(reqBody(pc.tag, 12)), rawDec{&pc.out})
		}()
		synctest.Wait()
		for _, m := range e.f.peer.Msgs() {
			if m.TypeID == 0x7e570002 && binary.LittleEndian.Uint64(m.Body[4:]) == pc.tag {
				pc.msgID = m.MsgID
			}
		}
		if pc.msgID == 0 {
			t.Fatalf("peer did not see invoke %d", i)
		}
		e.calls = append(e.calls, pc)
	}
}

func gzipPacked(data []byte) []byte {
	var zb bytes.Buffer
	zw := gzip.NewWriter(&zb)
	_, _ = zw.Write(data)
	_ = zw.Close()
	b := binary.LittleEndian.AppendUint32(nil, pbt.IDGzipPacked)
	return ref.PutBytes(b, zb.Bytes())
}

// effect of a generated payload on pending calls
type effect struct {
	kind string // result | rpcerror | badmsg
	body []byte
	code int32
	msg  string
}

// genPayload builds a structured service payload and returns the expected
// effects keyed by request msg id (first effect per id wins).
// c23PingIDs: ping ids of Ping calls in flight on the connection (set per case)
var c23PingIDs []int64

func genPayload(t *rapid.T, ids []int64, depth int, effects map[int64]effect, order *[]int64) ([]byte, string) {
	pingID := func() int64 {
		if len(c23PingIDs) > 0 && rapid.IntRange(0, 2).Draw(t, "useInflightPing") > 0 {
			return c23PingIDs[rapid.IntRange(0, len(c23PingIDs)-1).Draw(t, "whichPing")]
		}
		return int64(rapid.Uint64().Draw(t, "pingID"))
	}
	pick := func() int64 {
		if len(ids) > 0 && rapid.IntRange(0, 2).Draw(t, "usePending") > 0 {
			return ids[rapid.IntRange(0, len(ids)-1).Draw(t, "which")]
		}
		return int64(rapid.Uint64().Draw(t, "randomID")) | 1
	}
	note := func(id int64, e effect) {
		if _, ok := effects[id]; !ok {
			effects[id] = e
			*order = append(*order, id)
		}
	}
	kinds := []string{"result", "result-gzip", "rpcerror", "rpcerror-gzip", "pong-in-result", "pong", "ack", "badmsg", "newsession", "futuresalts", "unknown", "detailed", "empty-result"}
	if depth > 0 {
		kinds = append(kinds, "container", "container", "gzip", "repeated")
	}
	kind := rapid.SampledFrom(kinds).Draw(t, "kind")
	switch kind {
	case "result", "result-gzip":
		id := pick()
		body := reqBody(uint64(rapid.Uint32().Draw(t, "resTag")), rapid.SampledFrom([]int{12, 16, 64}).Draw(t, "resLen"))
		wire := body
		if kind == "result-gzip" {
			wire = gzipPacked(body)
		}
		note(id, effect{kind: "result", body: body})
		return pbt.RPCResult(id, wire), kind
	case "rpcerror", "rpcerror-gzip":
		id := pick()
		code := int32(rapid.SampledFrom([]int{400, 420, 500}).Draw(t, "code"))
		msg := rapid.SampledFrom([]string{"FLOOD_WAIT_3", "PEER_ID_INVALID", "X"}).Draw(t, "msg")
		body := pbt.RPCError(code, msg)
		if kind == "rpcerror-gzip" {
			body = gzipPacked(body)
		}
		note(id, effect{kind: "rpcerror", code: code, msg: msg})
		return pbt.RPCResult(id, body), kind
	case "pong-in-result":
		return pbt.RPCResult(pick(), pbt.Pong(pick(), pingID())), kind
	case "empty-result":
		// rpc_result with no body: must be an error, not a completion
		return pbt.RPCResult(pick(), nil), kind
	case "pong":
		return pbt.Pong(pick(), pingID()), kind
	case "repeated":
		// the same message two or three times in one container (a server
		// retransmission batched with the original): handled back to back
		inner, k := genPayload(t, ids, depth-1, effects, order)
		n := rapid.IntRange(2, 3).Draw(t, "copies")
		var msgs []pbt.ContainerMsg
		for i := 0; i < n; i++ {
			msgs = append(msgs, pbt.ContainerMsg{MsgID: int64(i+1)<<32 | 1, SeqNo: 1, Body: inner})
		}
		return pbt.Container(msgs...), fmt.Sprintf("repeated%d[%s]", n, k)
	case "ack":
		return pbt.MsgsAck(pick(), pick()), kind
	case "badmsg":
		id := pick()
		code := int32(rapid.SampledFrom([]int{16, 17, 32, 33, 64}).Draw(t, "badCode"))
		note(id, effect{kind: "badmsg", code: code})
		return pbt.BadMsgNotification(id, 1, code), kind
	case "newsession":
		return pbt.NewSessionCreated(pick(), 9, 0x3333), kind
	case "futuresalts":
		return pbt.FutureSalts(pick(), 1, []pbt.FutureSalt{{ValidSince: 1, ValidUntil: 2, Salt: 3}}), kind
	case "unknown":
		return probeBody(uint64(rapid.Uint32().Draw(t, "probe")), 1), kind
	case "detailed":
		b := binary.LittleEndian.AppendUint32(nil, 0x276d3ec6) // msg_detailed_info
		return append(b, make([]byte, 24)...), kind
	case "gzip":
		inner, k := genPayload(t, ids, depth-1, effects, order)
		return gzipPacked(inner), "gzip(" + k + ")"
	case "container":
		n := rapid.IntRange(0, 4).Draw(t, "n")
		var msgs []pbt.ContainerMsg
		var ks []string
		for i := 0; i < n; i++ {
			inner, k := genPayload(t, ids, depth-1, effects, order)
			msgs = append(msgs, pbt.ContainerMsg{MsgID: int64(i+1)<<32 | 1, SeqNo: 1, Body: inner})
			ks = append(ks, k)
		}
		return pbt.Container(msgs...), "container[" + strings.Join(ks, ",") + "]"
	}
	panic(kind)
}

func (e *c23env) completed(pc *pendingCall) (bool, error) {
	select {
	case err := <-pc.done:
		pc.done <- err
		return true, err
	default:
		return false, nil
	}
}

// finishAll completes the still-pending calls with explicit matching results
// ("stayed pending" is verified, not assumed).
func (e *c23env) finishAll(t fataler, context string) {
	for _, pc := range e.calls {
		if done, _ := e.completed(pc); done {
			continue
		}
		want := reqBody(pc.tag+7, 12)
		if err := e.f.conn.VerifHandleMessage(e.f.peer.NextID(1), &bin.Buffer{Buf: pbt.RPCResult(pc.msgID, want)}); err != nil {
			t.Fatalf("%s: explicit result for pending call: %v", context, err)
		}
		synctest.Wait()
		done, err := e.completed(pc)
		if !done || err != nil {
			t.Fatalf("%s: call %d was neither completed by the payload nor by an explicit result naming its id (done=%v err=%v)", context, pc.tag, done, err)
		}
		if !bytes.Equal(pc.out, want) {
			t.Fatalf("%s: call %d decoded foreign bytes", context, pc.tag)
		}
	}
}

func TestC23(t *testing.T) {
	st := pbt.NewStats("TestC23")
	defer st.Flush()
	corpus := loadCorpus(t)
	rapid.Check(t, func(t *rapid.T) {
		rnd, seed := pbt.DrawStream(t, "rnd")
		npending := rapid.IntRange(0, 3).Draw(t, "pending")
		withPing := rapid.Bool().Draw(t, "pingInFlight")
		class := rapid.SampledFrom([]string{"generated", "generated", "corpus-mutated", "raw"}).Draw(t, "class")
		var descr string
		nontrivial := false
		rapid.SyncTest(t, func(t *rapid.T) {
			key := drawKey(rnd)
			f := startConn(t, key, rnd, mtproto.Options{PingInterval: 1000 * time.Hour, PingTimeout: time.Hour, RetryInterval: 1000 * time.Hour, CompressThreshold: -1}, nil)
			defer f.stop(t)
			e := &c23env{f: f}
			e.start(t, npending)
			c23PingIDs = nil
			if withPing {
				// a Ping call in flight: pongs may name its id
				pctx, pcancel := context.WithCancel(context.Background())
				defer pcancel()
				go func() { _ = f.conn.Ping(pctx) }()
				synctest.Wait()
				for _, m := range f.peer.Msgs() {
					if id, ok := pbt.PingID(m.Body); ok && m.TypeID == pbt.IDPing {
						c23PingIDs = append(c23PingIDs, id)
					}
				}
			}
			var ids []int64
			for _, pc := range e.calls {
				ids = append(ids, pc.msgID)
			}
			effects := map[int64]effect{}
			var order []int64
			var payload []byte
			switch class {
			case "generated":
				payload, descr = genPayload(t, ids, 4, effects, &order)
				nontrivial = strings.Contains(descr, "(") || strings.Contains(descr, "[") || len(effects) > 0
			case "corpus-mutated":
				payload = append([]byte(nil), corpus[rapid.IntRange(0, len(corpus)-1).Draw(t, "file")]...)
				for i := rapid.IntRange(0, 3).Draw(t, "muts"); i > 0 && len(payload) > 0; i-- {
					pos := rapid.IntRange(0, len(payload)-1).Draw(t, "pos")
					switch rapid.IntRange(0, 3).Draw(t, "mut") {
					case 0:
						payload[pos] ^= byte(1 << rapid.IntRange(0, 7).Draw(t, "bit"))
					case 1:
						payload = payload[:pos]
					case 2:
						payload = append(payload[:pos:pos], append(pbt.DrawBytes(t, "ins", 4), payload[pos:]...)...)
					case 3:
						if len(ids) > 0 && pos+8 <= len(payload) {
							binary.LittleEndian.PutUint64(payload[pos:], uint64(ids[0]))
						}
					}
				}
				descr = fmt.Sprintf("corpus-mutated(len=%d)", len(payload))
				nontrivial = len(payload) >= 4
			case "raw":
				payload = pbt.DrawBytes(t, "raw", rapid.IntRange(0, 64).Draw(t, "rawLen"))
				if len(payload) >= 4 && rapid.Bool().Draw(t, "knownID") {
					id := rapid.SampledFrom([]uint32{pbt.IDMsgContainer, pbt.IDRPCResult, pbt.IDGzipPacked, pbt.IDMsgsAck, pbt.IDBadServerSalt, pbt.IDFutureSalts, pbt.IDNewSessionCreated, pbt.IDPong}).Draw(t, "tid")
					binary.LittleEndian.PutUint32(payload, id)
					nontrivial = true
				}
				descr = fmt.Sprintf("raw(%x)", payload)
			}
			// the call under test: a panic here fails the case
			handleErr := f.conn.VerifHandleMessage(f.peer.NextID(1), &bin.Buffer{Buf: payload})
			synctest.Wait()
			for _, pc := range e.calls {
				done, err := e.completed(pc)
				eff, named := effects[pc.msgID]
				if class != "generated" {
					// opaque payload: a completion is legitimate only if the payload names the id
					idb := binary.LittleEndian.AppendUint64(nil, uint64(pc.msgID))
					if done && !bytes.Contains(payload, idb) {
						t.Fatalf("call %d (msg id %#x) completed (err=%v) by a payload that does not contain its id: %s", pc.tag, pc.msgID, err, descr)
					}
					continue
				}
				if !named {
					if done {
						t.Fatalf("call %d completed (err=%v) although the payload names no result for its id: %s", pc.tag, err, descr)
					}
					continue
				}
				if !done && handleErr != nil {
					// a message that fails to handle (malformed, or a duplicate result for a
					// call that already completed) makes the client drop the rest of its
					// container; the property does not promise delivery of the siblings
					continue
				}
				if !done {
					t.Fatalf("call %d still pending after a payload that carries a %s for its id: %s", pc.tag, eff.kind, descr)
				}
				switch eff.kind {
				case "result":
					if err != nil || !bytes.Equal(pc.out, eff.body) {
						t.Fatalf("call %d: want the result bytes addressed to it, got err=%v out=%x want=%x (%s)", pc.tag, err, pc.out, eff.body, descr)
					}
				case "rpcerror":
					if err == nil || !strings.Contains(err.Error(), strings.TrimRight(eff.msg, "_0123456789")) {
						t.Fatalf("call %d: want rpc error %d %s, got %v (%s)", pc.tag, eff.code, eff.msg, err, descr)
					}
				case "badmsg":
					if err == nil {
						t.Fatalf("call %d: bad_msg_notification must fail the call (%s)", pc.tag, descr)
					}
				}
			}
			e.finishAll(t, descr)
		})
		st.Case(fmt.Sprintf("seed=%d pending=%d %s", seed, npending, descr), nontrivial, short(fmt.Sprintf("pending=%d %s", npending, descr), 300), class)
	})
}

func loadCorpus(t interface{ Fatalf(string, ...any) }) [][]byte {
	repo := os.Getenv("VERIF_REPO")
	if repo == "" {
		repo = "/repo"
	}
	files, _ := filepath.Glob(filepath.Join(repo, "_fuzz/handle_message/corpus/*"))
	sort.Strings(files)
	var out [][]byte
	for _, f := range files {
		b, err := os.ReadFile(f)
		if err == nil {
			out = append(out, b)
		}
	}
	if len(out) == 0 {
		t.Fatalf("handle_message corpus not found under %s", repo)
	}
	return out
}

// TestC23Corpus replays every corpus file once (non-rapid): no panic, and the
// pending calls are untouched (corpus payloads cannot name fresh ids).
func TestC23Corpus(t *testing.T) {
	st := pbt.NewStats("TestC23Corpus")
	defer st.Flush()
	corpus := loadCorpus(t)
	const batch = 500
	for start := 0; start < len(corpus); start += batch {
		end := min(start+batch, len(corpus))
		synctest.Test(t, func(t *testing.T) {
			rnd := pbt.NewStream(uint64(start) + 1)
			f := startConn(t, drawKey(rnd), rnd, mtproto.Options{PingInterval: 1000 * time.Hour, PingTimeout: time.Hour, RetryInterval: 1000 * time.Hour, CompressThreshold: -1}, nil)
			defer f.stop(t)
			e := &c23env{f: f}
			e.start(t, 2)
			for i := start; i < end; i++ {
				func() {
					defer func() {
						if r := recover(); r != nil {
							t.Fatalf("corpus file #%d (%d bytes, %x…) panicked the handler: %v", i, len(corpus[i]), corpus[i][:min(16, len(corpus[i]))], r)
						}
					}()
					_ = f.conn.VerifHandleMessage(f.peer.NextID(1), &bin.Buffer{Buf: append([]byte(nil), corpus[i]...)})
				}()
				tid := uint32(0)
				if len(corpus[i]) >= 4 {
					tid = binary.LittleEndian.Uint32(corpus[i])
				}
				st.Case(fmt.Sprintf("corpus#%d", i), len(corpus[i]) >= 4, fmt.Sprintf("corpus#%d len=%d type=%#x", i, len(corpus[i]), tid))
			}
			synctest.Wait()
			for _, pc := range e.calls {
				if done, err := e.completed(pc); done {
					t.Fatalf("a corpus payload in [%d,%d) completed pending call %d: %v", start, end, pc.tag, err)
				}
			}
			e.finishAll(t, fmt.Sprintf("corpus[%d,%d)", start, end))
		})
	}
}
