package c_mtproto

import (
	"bytes"
	"compress/gzip"
	"context"
	"encoding/binary"
	"fmt"
	"io"
	"testing"
	"testing/synctest"
	"time"

	"github.com/gotd/td/mtproto"
	"pgregory.net/rapid"

	"verifharness/pbt"
	"verifharness/pbt/ref"
)

// C04 (connection driver): requests written by a real mtproto.Conn - with the
// gzip path, the pre-encoded path and the no-copy path - are decrypted by the
// reference implementation at the peer; results encrypted by the reference
// with drawn padding lengths are decrypted by the client.
func TestC04Conn(t *testing.T) {
	st := pbt.NewStats("TestC04Conn")
	defer st.Flush()
	rapid.Check(t, func(t *rapid.T) {
		rnd, seed := pbt.DrawStream(t, "rnd")
		threshold := rapid.SampledFrom([]int{-1, 1, 1024}).Draw(t, "compressThreshold")
		n := rapid.IntRange(1, 6).Draw(t, "n")
		sizes := make([]int, n)
		resPads := make([]int, n)
		resSizes := make([]int, n)
		for i := range sizes {
			sizes[i] = rapid.SampledFrom([]int{12, 16, 20, 24, 28, 1020, 1024, 1028, 4096, 65536, 1 << 20}).Draw(t, "size")
			resSizes[i] = rapid.SampledFrom([]int{12, 16, 20, 24, 28, 1024, 65536}).Draw(t, "resSize")
			resPads[i] = rapid.IntRange(0, 63).Draw(t, "resPadBlocks")
		}
		compressible := rapid.Bool().Draw(t, "compressible")
		paths := map[string]bool{}
		rapid.SyncTest(t, func(t *rapid.T) {
			key := drawKey(rnd)
			f := startConn(t, key, rnd, mtproto.Options{PingInterval: 1000 * time.Hour, PingTimeout: time.Hour, RetryInterval: 1000 * time.Hour, CompressThreshold: threshold}, nil)
			defer f.stop(t)
			for i := 0; i < n; i++ {
				req := reqBody(uint64(i+1), sizes[i])
				if !compressible {
					copy(req[12:], rnd.Bytes(len(req)-12))
				}
				var out []byte
				done := make(chan error, 1)
				go func() { done <- f.conn.Invoke(context.Background(), rawEnc(req), rawDec{&out}) }()
				synctest.Wait()
				msgs := f.peer.Msgs()
				m := msgs[len(msgs)-1]
				if m.Session != f.peer.Session || m.Salt != 0x1111 {
					t.Fatalf("header mismatch: session %#x salt %#x", m.Session, m.Salt)
				}
				if m.PaddingLen < 12 || m.PaddingLen > 1024 {
					t.Fatalf("client frame has %d bytes of padding", m.PaddingLen)
				}
				if m.SeqNo != int32(2*i+1) {
					t.Fatalf("seq_no %d, want %d", m.SeqNo, 2*i+1)
				}
				got := m.Body
				if m.TypeID == pbt.IDGzipPacked {
					paths["gzip"] = true
					packed, _, err := ref.Bytes(m.Body[4:])
					if err != nil {
						t.Fatalf("gzip_packed does not parse: %v", err)
					}
					zr, err := gzip.NewReader(bytes.NewReader(packed))
					if err != nil {
						t.Fatalf("gzip: %v", err)
					}
					got, err = io.ReadAll(zr)
					if err != nil {
						t.Fatalf("gunzip: %v", err)
					}
					if threshold <= 0 || len(req) <= threshold {
						t.Fatalf("payload of %d bytes was compressed with threshold %d", len(req), threshold)
					}
				} else if threshold > 0 {
					paths["pre-encoded"] = true
					if len(req) > threshold {
						t.Fatalf("payload of %d bytes above threshold %d was not compressed", len(req), threshold)
					}
				} else {
					paths["no-copy"] = true
				}
				if !bytes.Equal(got, req) {
					t.Fatalf("peer decrypted %d bytes that differ from the %d-byte request", len(got), len(req))
				}
				// server -> client with a drawn padding length (12..1020, block aligned)
				res := reqBody(uint64(1000+i), resSizes[i])
				body := pbt.RPCResult(m.MsgID, res)
				pad := pbt.PadFor(len(body)) + 16*resPads[i]
				if pad > 1024 {
					pad -= 16 * ((pad - 1024 + 15) / 16)
				}
				wire := ref.EncryptMessage(f.peer.Key, true, 0x9999, f.peer.Session, f.peer.NextID(1), 1, body, pbt.Padding(pad))
				if err := f.peer.WriteFrame(wire); err != nil {
					t.Fatalf("peer write: %v", err)
				}
				synctest.Wait()
				select {
				case err := <-done:
					if err != nil {
						t.Fatalf("invoke: %v", err)
					}
				default:
					t.Fatalf("invoke did not complete (result padding %d)", pad)
				}
				if !bytes.Equal(out, res) {
					t.Fatalf("client decrypted a different result")
				}
				_ = binary.LittleEndian
			}
		})
		key := fmt.Sprintf("seed=%d thr=%d sizes=%v res=%v pads=%v c=%v", seed, threshold, sizes, resSizes, resPads, compressible)
		var cl []string
		for _, p := range []string{"gzip", "pre-encoded", "no-copy"} {
			if paths[p] {
				cl = append(cl, p)
			}
		}
		st.Case(key, true, key, cl...)
	})
}
