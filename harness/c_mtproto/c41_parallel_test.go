package c_mtproto

import (
	"fmt"
	"sync"
	"sync/atomic"
	"testing"
	"time"

	"github.com/gotd/td/mt"
	"github.com/gotd/td/mtproto/salts"
	"pgregory.net/rapid"

	"verifharness/pbt"
)

// C41 (c): salts.Salts under real parallelism. In a connection Get is called by
// the sending goroutines and Store by the read loop (future_salts answers), at
// the same time. A salt valid past the deadline is stored before anything
// starts and is never removed, so whatever the interleaving every Get must
// return a salt whose validity ends after the deadline. The schedule is the Go
// runtime's, not the harness's: a failure names the drawn sets and the salt
// that came back; it may not reproduce from the fail file (the log is the
// artefact). No timing enters the oracle.
func TestC41SaltsParallel(t *testing.T) {
	st := pbt.NewStats("TestC41SaltsParallel")
	defer st.Flush()
	rapid.Check(t, func(t *rapid.T) {
		deadline := 1_700_000_000 + rapid.IntRange(0, 100000).Draw(t, "deadline")
		validUntil := map[int64]int{}
		next := int64(1)
		mk := func(until int) mt.FutureSalt {
			fs := mt.FutureSalt{ValidSince: until - 3600, ValidUntil: until, Salt: next}
			validUntil[next] = until
			next++
			return fs
		}
		good := mk(deadline + rapid.IntRange(1, 7200).Draw(t, "goodFor"))
		// the sets the read loop keeps storing: expired, expiring exactly at the
		// deadline, and valid salts, repeated (the server repeats triples)
		nsets := rapid.IntRange(1, 4).Draw(t, "nsets")
		sets := make([][]mt.FutureSalt, nsets)
		stale := 0
		for i := range sets {
			for j, n := 0, rapid.IntRange(1, 4).Draw(t, "n"); j < n; j++ {
				switch rapid.IntRange(0, 3).Draw(t, "class") {
				case 0:
					sets[i] = append(sets[i], mk(deadline-rapid.IntRange(0, 7200).Draw(t, "ago")))
					stale++
				case 1:
					sets[i] = append(sets[i], mk(deadline))
					stale++
				case 2:
					sets[i] = append(sets[i], good)
				default:
					sets[i] = append(sets[i], mk(deadline+rapid.IntRange(1, 7200).Draw(t, "ahead")))
				}
			}
		}
		getters := rapid.IntRange(1, 4).Draw(t, "getters")
		storers := rapid.IntRange(1, 4).Draw(t, "storers")
		const rounds = 1500
		var s salts.Salts
		s.Store([]mt.FutureSalt{good})
		var bad atomic.Value
		var wg sync.WaitGroup
		dl := time.Unix(int64(deadline), 0)
		for g := 0; g < storers; g++ {
			wg.Add(1)
			go func(g int) {
				defer wg.Done()
				for i := 0; i < rounds && bad.Load() == nil; i++ {
					s.Store(append([]mt.FutureSalt(nil), sets[(g+i)%nsets]...))
				}
			}(g)
		}
		for g := 0; g < getters; g++ {
			wg.Add(1)
			go func() {
				defer wg.Done()
				for i := 0; i < rounds && bad.Load() == nil; i++ {
					salt, ok := s.Get(dl)
					if !ok {
						bad.Store(fmt.Sprintf("Get(deadline=%d) found no salt although salt %d (valid until %d) is stored", deadline, good.Salt, good.ValidUntil))
						return
					}
					if u := validUntil[salt]; u <= deadline {
						bad.Store(fmt.Sprintf("Get(deadline=%d) returned salt %d which is valid only until %d, while salt %d (valid until %d) is stored", deadline, salt, u, good.Salt, good.ValidUntil))
						return
					}
				}
			}()
		}
		wg.Wait()
		if v := bad.Load(); v != nil {
			t.Fatalf("C41 violated: %s\nsets stored concurrently: %v", v, sets)
		}
		st.Case(fmt.Sprintf("%d/%v/%d/%d", deadline, sets, getters, storers), stale > 0,
			fmt.Sprintf("deadline=%d sets=%v getters=%d storers=%d", deadline, sets, getters, storers),
			fmt.Sprintf("getters=%d", getters), fmt.Sprintf("storers=%d", storers), fmt.Sprintf("stale-salts>0=%v", stale > 0))
	})
}
