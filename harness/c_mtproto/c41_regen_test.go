package c_mtproto

import (
	"context"
	"encoding/binary"
	"fmt"
	"io"
	"net"
	"runtime"
	"testing"
	"testing/synctest"
	"time"

	"github.com/gotd/td/crypto"
	"github.com/gotd/td/exchange"
	"github.com/gotd/td/mtproto"
	"github.com/gotd/td/transport"
	"pgregory.net/rapid"

	"verifharness/pbt"
	"verifharness/pbt/ref"
)

// C41 (d): the salt on frames written around a key regeneration. The server
// answers the first frame with the transport error -404 (unknown auth key);
// the client regenerates the key in place. While that exchange is under way
// (the server holds back one of its answers) further requests are issued; they
// are written when the exchange has finished. Every frame the server receives
// after it has sent the last exchange answer must be under the new key and
// carry the salt that answer told the client (or one told later).
func TestC41Regen(t *testing.T) {
	st := pbt.NewStats("TestC41Regen")
	defer st.Flush()
	tk := pbt.ParseKey(pbt.TrustedKeyPEM)
	rapid.Check(t, func(t *rapid.T) {
		crnd, cseed := pbt.DrawStream(t, "clientRnd")
		srnd, sseed := pbt.DrawStream(t, "serverRnd")
		pauseAt := rapid.IntRange(1, 3).Draw(t, "pauseAtReply")
		during := rapid.IntRange(0, 3).Draw(t, "requestsDuringExchange")
		after := rapid.IntRange(0, 2).Draw(t, "requestsAfterExchange")
		var report string
		frames, old := 0, 0
		rapid.SyncTest(t, func(t *rapid.T) {
			var oldKey [256]byte
			copy(oldKey[:], crnd.Bytes(256))
			ex := &pbt.ExServer{Key: tk, Rnd: srnd, HeaderRead: true, PauseAt: pauseAt, Paused: make(chan struct{}), Resume: make(chan struct{})}
			var peer *pbt.Peer
			served := make(chan struct{})
			dial := func(ctx context.Context) (transport.Conn, error) {
				c1, c2 := net.Pipe()
				ex.Conn = c2
				go func() {
					defer close(served)
					var hdr [4]byte
					if _, err := io.ReadFull(c2, hdr[:]); err != nil {
						return
					}
					// first client frame (under the key the server does not know): read and drop
					var ln [4]byte
					if _, err := io.ReadFull(c2, ln[:]); err != nil {
						return
					}
					if _, err := io.CopyN(io.Discard, c2, int64(binary.LittleEndian.Uint32(ln[:]))); err != nil {
						return
					}
					frame := binary.LittleEndian.AppendUint32(nil, 4)
					frame = binary.LittleEndian.AppendUint32(frame, uint32(0xffffffff-404+1))
					if _, err := c2.Write(frame); err != nil {
						return
					}
					if err := ex.Run(); err != nil {
						return
					}
					peer = pbt.NewPeer(c2, ex.AuthKey)
					peer.HeaderRead = true
					peer.OnBadFrame = func(p *pbt.Peer, wire []byte, err error) {
						frames++
						// a frame the new key does not open: is it under the replaced key?
						if salt, session, _, _, _, _, e := ref.DecryptMessage(oldKey, false, wire); e == nil {
							old++
							if report == "" {
								report = fmt.Sprintf("a frame written after the key regeneration is under the replaced key (salt %#x, session %#x); the exchange told salt %#x", salt, session, ex.ServerSalt)
							}
						} else if report == "" {
							report = fmt.Sprintf("a frame written after the key regeneration opens under neither key: %v", err)
						}
					}
					peer.OnMsg = func(p *pbt.Peer, m *pbt.ClientMsg) {
						if m.InContainer {
							return
						}
						frames++
						if m.Salt != ex.ServerSalt && report == "" {
							report = fmt.Sprintf("frame with msg_id %#x carries salt %#x; the last salt the server told is %#x (from the exchange)", m.MsgID, m.Salt, ex.ServerSalt)
						}
					}
					peer.Serve()
				}()
				return transport.Intermediate.Handshake(c1)
			}
			opts := mtproto.Options{
				PublicKeys:      []exchange.PublicKey{{RSA: &tk.PublicKey}},
				Random:          crnd,
				ExchangeTimeout: time.Hour,
				DialTimeout:     time.Hour,
				PingInterval:    1000 * time.Hour,
				PingTimeout:     time.Hour,
				Key:             crypto.Key(oldKey).WithID(),
				Salt:            0x01d,
			}
			conn := mtproto.New(dial, opts)
			ctx, cancel := context.WithCancel(context.Background())
			defer cancel()
			runErr := make(chan error, 1)
			go func() {
				runErr <- conn.Run(ctx, func(ctx context.Context) error { <-ctx.Done(); return ctx.Err() })
			}()
			synctest.Wait()
			pctx, pcancel := context.WithCancel(context.Background())
			defer pcancel()
			go func() { _ = conn.Ping(pctx) }() // the frame that makes the server answer -404
			synctest.Wait()
			select {
			case <-ex.Paused:
			default:
				t.Fatalf("the key regeneration did not reach reply %d", pauseAt)
			}
			// requests issued while the exchange is under way: they cannot be written
			// before it ends (a goroutine waiting for the exchange lock is not durably
			// blocked, so no synctest.Wait here: yield until they are all waiting)
			for i := 0; i < during; i++ {
				go func() { _ = conn.Ping(pctx) }()
			}
			for i := 0; i < 200; i++ {
				runtime.Gosched()
			}
			close(ex.Resume)
			synctest.Wait()
			for i := 0; i < after; i++ {
				go func() { _ = conn.Ping(pctx) }()
				synctest.Wait()
			}
			time.Sleep(time.Second)
			synctest.Wait()
			if !ex.Done {
				t.Fatalf("the key regeneration did not complete (server side error: %v)", ex.Err)
			}
			pcancel()
			cancel()
			synctest.Wait()
			_ = ex.Conn.Close()
			synctest.Wait()
			<-served
			<-runErr
		})
		if report != "" {
			t.Fatalf("C41 violated: %s (requests issued during the exchange: %d, after it: %d; %d frames seen after the exchange)", report, during, after, frames)
		}
		st.Case(fmt.Sprintf("c=%d s=%d pause=%d during=%d after=%d", cseed, sseed, pauseAt, during, after), during > 0,
			fmt.Sprintf("pauseAtReply=%d requestsDuring=%d after=%d framesAfter=%d", pauseAt, during, after, frames), fmt.Sprintf("during>0=%v", during > 0))
	})
}
