package c_mtproto

import (
	"fmt"
	"sort"
	"strings"
	"testing"

	"github.com/gotd/td/proto"
	"pgregory.net/rapid"

	"verifharness/pbt"
)

// C07 (a): proto.MessageIDBuf against the rule of the MTProto security
// guidelines: keep the last N accepted ids; ignore a message whose id equals a
// stored one, or is lower than all of them once N are stored; otherwise accept
// and, when more than N are stored, discard the lowest.
func TestC07Buf(t *testing.T) {
	st := pbt.NewStats("TestC07Buf")
	defer st.Flush()
	rapid.Check(t, func(t *rapid.T) {
		n := rapid.SampledFrom([]int{1, 2, 3, 8, 100}).Draw(t, "N")
		buf := proto.NewMessageIDBuf(n)
		var set []int64 // sorted ascending
		base := int64(1_700_000_000) << 32
		k := rapid.IntRange(1, 60).Draw(t, "len")
		var hist []string
		replayNonLatest := false
		accepted := 0
		for i := 0; i < k; i++ {
			id := base + int64(rapid.IntRange(1, 40).Draw(t, "id"))*4 + 1
			inSet := false
			for _, x := range set {
				if x == id {
					inSet = true
				}
			}
			want := true
			if inSet {
				want = false
				if accepted >= 2 && id != set[len(set)-1] {
					replayNonLatest = true
				}
			} else if len(set) == n && id < set[0] {
				want = false
			}
			got := buf.Consume(id)
			hist = append(hist, fmt.Sprintf("%d:%v", (id-base)/4, got))
			if got != want {
				t.Fatalf("N=%d stored=%v: Consume(%d) = %v, want %v\nhistory: %s", n, rel(set, base), (id-base)/4, got, want, strings.Join(hist, " "))
			}
			if want {
				accepted++
				set = append(set, id)
				sort.Slice(set, func(a, b int) bool { return set[a] < set[b] })
				if len(set) > n {
					set = set[1:]
				}
			}
		}
		key := fmt.Sprintf("N=%d %s", n, strings.Join(hist, " "))
		st.Case(key, replayNonLatest, short(key, 300), fmt.Sprintf("N=%d", n))
	})
}

func rel(s []int64, base int64) []int64 {
	out := make([]int64, len(s))
	for i, x := range s {
		out[i] = (x - base) / 4
	}
	return out
}
