package c_mtproto

import (
	"testing"
	"time"

	"github.com/gotd/td/proto"
)

// TestC07Regression: replay of a non-latest id must be rejected, and an id lower
// than all stored ones once N are stored (fixed 5deea001b).
func TestC07Regression(t *testing.T) {
	b := proto.NewMessageIDBuf(1)
	if !b.Consume(2<<32 | 1) {
		t.Fatal("first id rejected")
	}
	if b.Consume(1<<32 | 1) {
		t.Error("N=1 stored=[2]: Consume(1) accepted although it is lower than all stored ids")
	}
	b = proto.NewMessageIDBuf(3)
	for _, id := range []int64{5, 6, 7} {
		if !b.Consume(id<<32 | 1) {
			t.Fatalf("id %d rejected", id)
		}
	}
	if b.Consume(5<<32 | 1) {
		t.Error("N=3 stored=[5 6 7]: replay of 5 accepted")
	}
	if b.Consume(6<<32 | 1) {
		t.Error("N=3 stored=[5 6 7]: replay of 6 accepted")
	}
}

// TestC08Regression: clock steps of 1..3 ns must not yield equal ids (fixed d824c2a83).
func TestC08Regression(t *testing.T) {
	for _, d := range []int64{1, 2, 3} {
		now := int64(1_700_000_000) * 1_000_000_000
		g := proto.NewMessageIDGen(func() time.Time { return time.Unix(0, now) })
		a := g.New(proto.MessageFromClient)
		now += d
		b := g.New(proto.MessageFromClient)
		if b <= a {
			t.Errorf("clock step %d ns: second id %#x is not greater than the first %#x", d, b, a)
		}
	}
}
