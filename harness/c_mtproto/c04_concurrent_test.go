package c_mtproto

import (
	"bytes"
	"compress/gzip"
	"context"
	"fmt"
	"io"
	"sync"
	"testing"
	"testing/synctest"
	"time"

	"github.com/gotd/log"
	"github.com/gotd/td/mtproto"
	"pgregory.net/rapid"

	"verifharness/pbt"
	"verifharness/pbt/ref"
)

// c04Logger is the connection's logger, owned by the harness: every "Request"
// record (written between building a message and encrypting it) pauses its
// goroutine for a drawn virtual duration, so that other senders run their
// whole send inside that window.
type c04Logger struct {
	mu     sync.Mutex
	delays []time.Duration
	next   int
	paused int
}

func (l *c04Logger) Enabled(context.Context, log.Level) bool { return true }

func (l *c04Logger) Log(_ context.Context, _ log.Level, msg string, _ ...log.Attr) {
	if msg != "Request" {
		return
	}
	l.mu.Lock()
	d := l.delays[l.next%len(l.delays)]
	l.next++
	if d > 0 {
		l.paused++
	}
	l.mu.Unlock()
	if d > 0 {
		time.Sleep(d)
	}
}

// C04 (concurrent senders): 2..5 goroutines send through one mtproto.Conn at
// drawn virtual times while the harness-owned logger pauses senders between
// building and encrypting their message. Every message the reference peer
// decrypts must carry exactly the payload of one request, each request
// exactly once.
func TestC04Concurrent(t *testing.T) {
	st := pbt.NewStats("TestC04Concurrent")
	defer st.Flush()
	rapid.Check(t, func(t *rapid.T) {
		rnd, seed := pbt.DrawStream(t, "rnd")
		threshold := rapid.SampledFrom([]int{1024, 1, 1024, -1}).Draw(t, "compressThreshold")
		n := rapid.IntRange(2, 5).Draw(t, "senders")
		sizes := make([]int, n)
		starts := make([]time.Duration, n)
		for i := range sizes {
			sizes[i] = rapid.SampledFrom([]int{12, 16, 20, 24, 28, 512, 1020, 1024, 1028, 4096, 65536}).Draw(t, "size")
			starts[i] = time.Duration(rapid.IntRange(0, 4).Draw(t, "startMs")) * time.Millisecond
		}
		delays := make([]time.Duration, rapid.IntRange(1, 5).Draw(t, "nDelays"))
		for i := range delays {
			delays[i] = time.Duration(rapid.SampledFrom([]int{0, 1, 2, 3, 5}).Draw(t, "requestLogPauseMs")) * time.Millisecond
		}
		compressible := rapid.Bool().Draw(t, "compressible")
		lg := &c04Logger{delays: delays}
		overlap := false
		rapid.SyncTest(t, func(t *rapid.T) {
			key := drawKey(rnd)
			f := startConn(t, key, rnd, mtproto.Options{PingInterval: 1000 * time.Hour, PingTimeout: time.Hour, RetryInterval: 1000 * time.Hour, CompressThreshold: threshold, Logger: lg}, nil)
			defer f.stop(t)
			var bad []string
			var badMu sync.Mutex
			f.peer.OnBadFrame = func(_ *pbt.Peer, wire []byte, err error) {
				badMu.Lock()
				bad = append(bad, fmt.Sprintf("%d-byte frame: %v", len(wire), err))
				badMu.Unlock()
			}
			reqs := make([][]byte, n)
			outs := make([][]byte, n)
			done := make([]chan error, n)
			ctx, cancel := context.WithCancel(context.Background())
			defer cancel()
			for i := 0; i < n; i++ {
				reqs[i] = reqBody(uint64(i+1), sizes[i])
				if !compressible {
					copy(reqs[i][12:], rnd.Bytes(len(reqs[i])-12))
				}
				done[i] = make(chan error, 1)
				go func(i int) {
					time.Sleep(starts[i])
					done[i] <- f.conn.Invoke(ctx, rawEnc(reqs[i]), rawDec{&outs[i]})
				}(i)
			}
			time.Sleep(time.Second)
			synctest.Wait()
			badMu.Lock()
			if len(bad) > 0 {
				t.Fatalf("the peer could not decrypt %d frames of %d concurrent senders: %v", len(bad), n, bad)
			}
			badMu.Unlock()
			seen := make([]int, n)
			byReq := make([]*pbt.ClientMsg, n)
			for _, m := range f.peer.Msgs() {
				if m.SeqNo%2 == 0 {
					continue // service messages (acks) carry no request
				}
				if m.PaddingLen < 12 || m.PaddingLen > 1024 {
					t.Fatalf("client frame has %d bytes of padding", m.PaddingLen)
				}
				got := m.Body
				if m.TypeID == pbt.IDGzipPacked {
					packed, _, err := ref.Bytes(m.Body[4:])
					if err != nil {
						t.Fatalf("message %d: gzip_packed does not parse: %v", m.MsgID, err)
					}
					zr, err := gzip.NewReader(bytes.NewReader(packed))
					if err != nil {
						t.Fatalf("message %d: gzip: %v", m.MsgID, err)
					}
					if got, err = io.ReadAll(zr); err != nil {
						t.Fatalf("message %d: gunzip: %v", m.MsgID, err)
					}
				}
				which := -1
				for i := range reqs {
					if bytes.Equal(got, reqs[i]) {
						which = i
					}
				}
				if which < 0 {
					t.Fatalf("message %d (seq %d, %d bytes, head %x) decrypts to a payload that none of the %d senders sent (sizes %v, starts %v, pauses %v, threshold %d)", m.MsgID, m.SeqNo, len(got), got[:min(len(got), 16)], n, sizes, starts, delays, threshold)
				}
				seen[which]++
				byReq[which] = m
			}
			for i, c := range seen {
				if c != 1 {
					t.Fatalf("request #%d (%d bytes) arrived %d times (sizes %v, starts %v, pauses %v, threshold %d)", i, sizes[i], c, sizes, starts, delays, threshold)
				}
			}
			// the other direction: each request gets its own result
			for i := 0; i < n; i++ {
				res := reqBody(uint64(1000+i), 16+4*i)
				body := pbt.RPCResult(byReq[i].MsgID, res)
				wire := ref.EncryptMessage(f.peer.Key, true, 0x9999, f.peer.Session, f.peer.NextID(1), int32(2*i+1), body, pbt.Padding(pbt.PadFor(len(body))))
				if err := f.peer.WriteFrame(wire); err != nil {
					t.Fatalf("peer write: %v", err)
				}
				synctest.Wait()
				select {
				case err := <-done[i]:
					if err != nil {
						t.Fatalf("invoke #%d: %v", i, err)
					}
				default:
					t.Fatalf("invoke #%d did not complete", i)
				}
				if !bytes.Equal(outs[i], res) {
					t.Fatalf("invoke #%d decoded a different result", i)
				}
			}
			lg.mu.Lock()
			overlap = lg.paused > 0
			lg.mu.Unlock()
		})
		// non-trivial: some sender was paused between building and encrypting
		// its message while another sender was still to start or under way
		sameWindow := false
		for i := range starts {
			for j := range starts {
				if i != j && starts[j] >= starts[i] && starts[j]-starts[i] <= 5*time.Millisecond {
					sameWindow = true
				}
			}
		}
		key := fmt.Sprintf("seed=%d thr=%d sizes=%v starts=%v pauses=%v c=%v", seed, threshold, sizes, starts, delays, compressible)
		cls := []string{fmt.Sprintf("threshold:%d", threshold), fmt.Sprintf("senders:%d", n)}
		if overlap {
			cls = append(cls, "paused-at-Request-record")
		}
		st.Case(key, overlap && sameWindow, key, cls...)
	})
}
