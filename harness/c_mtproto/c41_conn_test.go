package c_mtproto

import (
	"bytes"
	"context"
	"encoding/binary"
	"fmt"
	"strings"
	"testing"
	"testing/synctest"
	"time"

	"github.com/gotd/td/mtproto"
	"pgregory.net/rapid"

	"verifharness/pbt"
)

// C41 (b): the salt of every client frame is one the server told (initial
// option, new_session_created, bad_server_salt) or a stored future salt valid
// beyond send time + 5 min, never an expired one; a request rejected with
// bad_server_salt is re-sent exactly once with the new salt; a second
// bad_server_salt fails the call.

type saltStep struct {
	kind    string // invoke | badsalt | badsalt2 | sleep | futuresalts
	d       time.Duration
	newSalt int64
	set     []pbt.FutureSalt // relative times (seconds from "now") are resolved at send time
}

func TestC41Conn(t *testing.T) {
	st := pbt.NewStats("TestC41Conn")
	defer st.Flush()
	rapid.Check(t, func(t *rapid.T) {
		rnd, seed := pbt.DrawStream(t, "rnd")
		nsteps := rapid.IntRange(1, 12).Draw(t, "nsteps")
		steps := make([]saltStep, nsteps)
		nextSalt := int64(0x7000)
		for i := range steps {
			k := rapid.SampledFrom([]string{"invoke", "invoke", "badsalt", "badsalt2", "sleep", "sleep", "futuresalts"}).Draw(t, "kind")
			s := saltStep{kind: k}
			switch k {
			case "sleep":
				s.d = rapid.SampledFrom([]time.Duration{time.Second, 4 * time.Minute, 6 * time.Minute, 31 * time.Minute, time.Hour, 3 * time.Hour}).Draw(t, "d")
			case "badsalt", "badsalt2":
				nextSalt++
				s.newSalt = nextSalt
			case "futuresalts":
				n := rapid.IntRange(0, 4).Draw(t, "n")
				for j := 0; j < n; j++ {
					nextSalt++
					since := rapid.SampledFrom([]int{-7200, -1800, -60, 0, 1800, 3600}).Draw(t, "since")
					length := rapid.SampledFrom([]int{60, 299, 301, 1800, 3600}).Draw(t, "len")
					s.set = append(s.set, pbt.FutureSalt{ValidSince: int32(since), ValidUntil: int32(since + length), Salt: nextSalt})
				}
				if n > 0 && rapid.IntRange(0, 3).Draw(t, "dupEntry") == 0 {
					s.set = append(s.set, s.set[0])
				}
			}
			steps[i] = s
		}
		var hist []string
		classes := map[string]bool{}
		rapid.SyncTest(t, func(t *rapid.T) {
			key := drawKey(rnd)
			const initialSalt = 0x1111
			const sessionSalt = 0x2222
			told := map[int64]bool{initialSalt: true} // salts the server told, ever
			type fut struct {
				salt  int64
				until int64
			}
			var stored []fut
			var peerErr string
			badSaltFor := map[uint64]int{}   // request tag -> number of bad_server_salt answers still to give
			newSaltFor := map[uint64][]int64{} // salts to announce
			sentSession := false
			var futureSaltReq []*pbt.ClientMsg
			onMsg := func(p *pbt.Peer, m *pbt.ClientMsg) {
				if m.TypeID == pbt.IDMsgContainer {
					return
				}
				now := time.Now().Unix()
				// ---- salt oracle for every client frame
				ok := told[m.Salt]
				for _, f := range stored {
					if f.salt == m.Salt && f.until > now+300 {
						ok = true
					}
				}
				if !ok {
					// Tolerated: the client keeps the future salt it selected earlier when
					// nothing better exists (every stored salt has expired or expires within
					// the lookahead, and the server told nothing newer). No implementation can
					// attach a valid salt then; the property's "never expired" is read as a
					// rule for selecting a salt.
					alt := false
					for _, f := range stored {
						if f.until > now+300 {
							alt = true
						}
					}
					isStored := false
					for _, f := range stored {
						if f.salt == m.Salt {
							isStored = true
						}
					}
					if isStored && !alt {
						ok = true
						classes["stale-salt-no-alternative"] = true
					}
				}
				if !ok && peerErr == "" {
					peerErr = fmt.Sprintf("frame type %#x at %v carries salt %#x which is neither a salt the server told nor a stored future salt valid beyond now+5min (stored %v, now %d)", m.TypeID, time.Since(p.T0), m.Salt, stored, now)
				}
				if !sentSession {
					sentSession = true
					told[sessionSalt] = true
					_ = p.Send(p.NextID(3), 1, pbt.NewSessionCreated(m.MsgID, 77, sessionSalt))
				}
				switch m.TypeID {
				case pbt.IDGetFutureSalts:
					futureSaltReq = append(futureSaltReq, m)
				case 0x7e570002:
					tag := binary.LittleEndian.Uint64(m.Body[4:])
					if badSaltFor[tag] > 0 {
						badSaltFor[tag]--
						ns := newSaltFor[tag][0]
						newSaltFor[tag] = newSaltFor[tag][1:]
						told[ns] = true
						// bad_server_salt voids what the client knew about salts: it takes
						// the new salt and forgets the future salts it had stored (they belong
						// to the state the server has just called wrong), so from here on they
						// are neither usable nor an alternative
						stored = stored[:0]
						_ = p.Send(p.NextID(1), 0, pbt.BadServerSalt(m.MsgID, m.SeqNo, ns))
						return
					}
					_ = p.Send(p.NextID(1), 0, pbt.MsgsAck(m.MsgID))
					_ = p.Send(p.NextID(1), 1, pbt.RPCResult(m.MsgID, reqBody(tag, 12)))
				}
			}
			f := startConn(t, key, rnd, mtproto.Options{Salt: initialSalt, PingInterval: 1000 * time.Hour, PingTimeout: time.Hour,
				CompressThreshold: -1, SaltFetchInterval: time.Hour}, func(p *pbt.Peer) { p.OnMsg = onMsg })
			defer f.stop(t)
			tag := uint64(0)
			invoke := func(nBad int, salts []int64) (error, uint64) {
				tag++
				badSaltFor[tag] = nBad
				newSaltFor[tag] = salts
				var out []byte
				done := make(chan error, 1)
				myTag := tag
				go func() { done <- f.conn.Invoke(context.Background(), rawEnc(reqBody(myTag, 12)), rawDec{&out}) }()
				synctest.Wait()
				select {
				case err := <-done:
					if err == nil && !bytes.Equal(out, reqBody(myTag, 12)) {
						t.Fatalf("invoke %d got a foreign result", myTag)
					}
					return err, myTag
				default:
					t.Fatalf("invoke %d did not complete although the peer answers immediately\n%s", myTag, strings.Join(hist, " "))
					return nil, 0
				}
			}
			count := func(tg uint64) (n int, salts []int64) {
				for _, m := range f.peer.Msgs() {
					if m.TypeID == 0x7e570002 && binary.LittleEndian.Uint64(m.Body[4:]) == tg {
						n++
						salts = append(salts, m.Salt)
					}
				}
				return
			}
			for _, s := range steps {
				switch s.kind {
				case "invoke":
					err, tg := invoke(0, nil)
					hist = append(hist, "invoke")
					if err != nil {
						t.Fatalf("plain invoke failed: %v\n%s", err, strings.Join(hist, " "))
					}
					if n, _ := count(tg); n != 1 {
						t.Fatalf("plain invoke was transmitted %d times", n)
					}
				case "badsalt":
					err, tg := invoke(1, []int64{s.newSalt})
					hist = append(hist, fmt.Sprintf("badsalt(%#x)", s.newSalt))
					classes["bad-salt"] = true
					n, salts := count(tg)
					if n != 2 {
						t.Fatalf("request rejected with bad_server_salt was transmitted %d times in total, want exactly 2 (original + one re-send); salts %x\n%s", n, salts, strings.Join(hist, " "))
					}
					if salts[1] != s.newSalt {
						t.Fatalf("re-send after bad_server_salt carries salt %#x, want the new salt %#x", salts[1], s.newSalt)
					}
					if err != nil {
						t.Fatalf("invoke failed after one bad_server_salt: %v", err)
					}
				case "badsalt2":
					err, tg := invoke(2, []int64{s.newSalt, s.newSalt + 0x100})
					told[s.newSalt+0x100] = true
					hist = append(hist, fmt.Sprintf("badsalt2(%#x)", s.newSalt))
					classes["bad-salt-twice"] = true
					n, _ := count(tg)
					if n != 2 {
						t.Fatalf("request rejected twice with bad_server_salt was transmitted %d times, want 2 (no third transmission)", n)
					}
					if err == nil {
						t.Fatalf("invoke succeeded although the server rejected both transmissions")
					}
				case "sleep":
					before := time.Now().Unix()
					time.Sleep(s.d)
					synctest.Wait()
					hist = append(hist, fmt.Sprintf("sleep(%v)", s.d))
					for _, fs := range stored {
						if fs.until > before && fs.until <= time.Now().Unix()+300 {
							classes["clock-crosses-salt-expiry"] = true
						}
					}
				case "futuresalts":
					// answer the oldest outstanding get_future_salts request (if the client sent one)
					if len(futureSaltReq) == 0 {
						hist = append(hist, "futuresalts(no-request)")
						continue
					}
					req := futureSaltReq[0]
					futureSaltReq = futureSaltReq[1:]
					now := int32(time.Now().Unix())
					var abs []pbt.FutureSalt
					for _, e := range s.set {
						abs = append(abs, pbt.FutureSalt{ValidSince: now + e.ValidSince, ValidUntil: now + e.ValidUntil, Salt: e.Salt})
						stored = append(stored, fut{e.Salt, int64(now + e.ValidUntil)})
					}
					_ = f.peer.Send(f.peer.NextID(1), 0, pbt.FutureSalts(req.MsgID, now, abs))
					synctest.Wait()
					hist = append(hist, fmt.Sprintf("futuresalts%v", s.set))
					classes["future-salts"] = true
				}
				if peerErr != "" {
					t.Fatalf("C41 violated: %s\n%s", peerErr, strings.Join(hist, " "))
				}
			}
			if alive, err := f.running(); !alive {
				t.Fatalf("connection ended: %v", err)
			}
		})
		key := fmt.Sprintf("seed=%d %s", seed, strings.Join(hist, " "))
		var cl []string
		for _, c := range []string{"bad-salt", "bad-salt-twice", "future-salts", "clock-crosses-salt-expiry", "stale-salt-no-alternative"} {
			if classes[c] {
				cl = append(cl, c)
			}
		}
		st.Case(key, classes["bad-salt"] || classes["bad-salt-twice"] || classes["clock-crosses-salt-expiry"], short(strings.Join(hist, " "), 300), cl...)
	})
}
