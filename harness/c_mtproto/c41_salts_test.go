package c_mtproto

import (
	"fmt"
	"strings"
	"testing"
	"time"

	"github.com/gotd/td/mt"
	"github.com/gotd/td/mtproto/salts"
	"pgregory.net/rapid"

	"verifharness/pbt"
)

// C41 (a): salts.Salts against a map model salt -> validUntil.
// Domain: future-salt sets as the server sends them (salt values unique per
// validity window; the same triple may be sent again; windows overlap), clock
// only moves forward.
func TestC41Salts(t *testing.T) {
	st := pbt.NewStats("TestC41Salts")
	defer st.Flush()
	rapid.Check(t, func(t *rapid.T) {
		var s salts.Salts
		model := map[int64]int{} // salt -> validUntil (first stored wins, as a set of triples)
		now := 1_700_000_000
		next := int64(1)
		var sent []mt.FutureSalt
		var hist []string
		classes := map[string]bool{}
		// the only caller (Conn.updateSalt) always asks with the same lookahead on a
		// clock that moves forward, so deadlines are monotonic within a connection
		look := rapid.SampledFrom([]int{300, 300, 0}).Draw(t, "lookahead")
		t.Repeat(map[string]func(*rapid.T){
			"store": func(t *rapid.T) {
				n := rapid.IntRange(0, 5).Draw(t, "n")
				var set []mt.FutureSalt
				for i := 0; i < n; i++ {
					if len(sent) > 0 && rapid.IntRange(0, 2).Draw(t, "resend") == 0 {
						set = append(set, sent[rapid.IntRange(0, len(sent)-1).Draw(t, "which")])
						classes["duplicate-triple"] = true
						continue
					}
					since := now + rapid.IntRange(-7200, 7200).Draw(t, "since")
					until := since + rapid.IntRange(1, 7200).Draw(t, "len")
					fs := mt.FutureSalt{ValidSince: since, ValidUntil: until, Salt: next}
					next++
					if until <= now {
						classes["already-expired"] = true
					}
					set = append(set, fs)
					sent = append(sent, fs)
				}
				s.Store(set)
				for _, fs := range set {
					if _, ok := model[fs.Salt]; !ok {
						model[fs.Salt] = fs.ValidUntil
					}
				}
				hist = append(hist, fmt.Sprintf("store%v", set))
			},
			"advance": func(t *rapid.T) {
				d := rapid.SampledFrom([]int{1, 60, 299, 300, 301, 1800, 3600, 86400}).Draw(t, "d")
				now += d
				hist = append(hist, fmt.Sprintf("advance(%d)", d))
			},
			"reset": func(t *rapid.T) {
				s.Reset()
				model = map[int64]int{}
				hist = append(hist, "reset")
			},
			"get": func(t *rapid.T) {
				deadline := now + look
				salt, ok := s.Get(time.Unix(int64(deadline), 0))
				anyValid := false
				for _, until := range model {
					if until > deadline {
						anyValid = true
					}
				}
				hist = append(hist, fmt.Sprintf("get(%d)->%d,%v", deadline, salt, ok))
				if ok {
					until, known := model[salt]
					if !known {
						t.Fatalf("Get returned salt %d that was never stored\n%s", salt, strings.Join(hist, " "))
					}
					if until <= deadline {
						classes["crossed-expiry"] = true
						t.Fatalf("Get(deadline=%d) returned salt %d valid only until %d\n%s", deadline, salt, until, strings.Join(hist, " "))
					}
				} else if anyValid {
					t.Fatalf("Get(deadline=%d) found nothing although a stored salt is valid beyond it\n%s", deadline, strings.Join(hist, " "))
				}
				// expired entries are dropped from the model too (the store may forget them)
				for k, until := range model {
					if until <= deadline {
						delete(model, k)
						classes["expired-dropped"] = true
					}
				}
			},
		})
		key := strings.Join(hist, " ")
		st.Case(key, classes["expired-dropped"] || classes["duplicate-triple"] || classes["already-expired"], short(key, 300),
			keys(classes)...)
	})
}

func keys(m map[string]bool) []string {
	var out []string
	for _, k := range []string{"duplicate-triple", "already-expired", "expired-dropped", "crossed-expiry"} {
		if m[k] {
			out = append(out, k)
		}
	}
	return out
}

func short(s string, n int) string {
	if len(s) > n {
		return s[:n] + "…"
	}
	return s
}
