package c_text

import (
	"fmt"
	"sort"
	"strings"
	"testing"

	"github.com/gotd/td/telegram/message/entity"
	"github.com/gotd/td/tg"
	"pgregory.net/rapid"

	"verifharness/pbt"
)

// C36: completed entities are ordered by offset, then by descending length.
//
// Oracle (property text): after entity.SortEntities / Builder.Complete the list
// holds the same entities (multiset; for SortEntities the very same pointers)
// and for every adjacent pair (o1 < o2) or (o1 == o2 and l1 >= l2). Nothing is
// asked about the relative order of entities with equal offset and length.

const sigLess = "sort/less-missing-equal-offset-guard"

// orderViolation returns the first adjacent pair that is out of order.
func orderViolation(ents []tg.MessageEntityClass) string {
	for i := 1; i < len(ents); i++ {
		a, b := ents[i-1], ents[i]
		if a.GetOffset() < b.GetOffset() || (a.GetOffset() == b.GetOffset() && a.GetLength() >= b.GetLength()) {
			continue
		}
		return fmt.Sprintf("position %d: (offset %d, length %d) precedes (offset %d, length %d)",
			i-1, a.GetOffset(), a.GetLength(), b.GetOffset(), b.GetLength())
	}
	return ""
}

// badPair: a pair the comparison without the equal-offset guard orders the
// wrong way round (larger offset and larger length).
func badPair(offs, lens []int) bool {
	for i := range offs {
		for j := range offs {
			if offs[i] > offs[j] && lens[i] > lens[j] {
				return true
			}
		}
	}
	return false
}

// orderSig names the shape of a mis-ordered list: the listed comparison defect
// can only act on lists with a badPair.
func orderSig(offs, lens []int) string {
	if badPair(offs, lens) {
		return sigLess
	}
	return "sort/order-without-mixed-pair"
}

func entLine(e tg.MessageEntityClass) string {
	return fmt.Sprintf("%s@%d+%d", entKey(e), e.GetOffset(), e.GetLength())
}

func TestC36(t *testing.T) {
	st := pbt.NewStats("TestC36")
	defer st.Flush()
	rapid.Check(t, func(t *rapid.T) {
		n := rapid.IntRange(0, 30).Draw(t, "n")
		// small ranges make ties frequent; the wide class covers real sizes
		// (a message has at most 4096 UTF-16 units)
		hi := rapid.SampledFrom([]int{1, 3, 3, 6, 6, 4096}).Draw(t, "range")
		offs := make([]int, n)
		lens := make([]int, n)
		for i := 0; i < n; i++ {
			offs[i] = rapid.IntRange(0, hi).Draw(t, "off")
			lens[i] = rapid.IntRange(0, hi).Draw(t, "len")
		}
		if badPair(offs, lens) && pbt.Known("C36", sigLess) {
			// Exclusion by construction: make lengths non-increasing with
			// growing offset, which removes every pair the listed defect
			// mis-orders and keeps ties on offset and on length.
			idx := make([]int, n)
			for i := range idx {
				idx[i] = i
			}
			sort.SliceStable(idx, func(a, b int) bool { return offs[idx[a]] < offs[idx[b]] })
			limit := 1 << 30
			for g := 0; g < n; {
				h := g
				groupMin := 1 << 30
				for h < n && offs[idx[h]] == offs[idx[g]] {
					if lens[idx[h]] > limit {
						lens[idx[h]] = limit
					}
					groupMin = min(groupMin, lens[idx[h]])
					h++
				}
				limit = groupMin
				g = h
			}
			st.Excluded(sigLess)
		}
		ents := make([]tg.MessageEntityClass, n)
		for i := range ents {
			ents[i] = genFmt(t, false).f(offs[i], lens[i])
		}
		input := append([]tg.MessageEntityClass(nil), ents...)
		before := make([]string, n)
		for i, e := range ents {
			before[i] = entLine(e)
		}

		entity.SortEntities(ents)

		if len(ents) != n {
			t.Fatalf("length changed %d -> %d", n, len(ents))
		}
		// same pointers, same contents
		seen := map[tg.MessageEntityClass]int{}
		for _, e := range input {
			seen[e]++
		}
		after := make([]string, n)
		for i, e := range ents {
			seen[e]--
			after[i] = entLine(e)
		}
		for _, c := range seen {
			if c != 0 {
				t.Fatalf("SortEntities changed the set of entities: in %v out %v", before, after)
			}
		}
		sb, sa := append([]string(nil), before...), append([]string(nil), after...)
		sort.Strings(sb)
		sort.Strings(sa)
		if strings.Join(sb, "\n") != strings.Join(sa, "\n") {
			t.Fatalf("SortEntities modified entities: in %v out %v", before, after)
		}
		if v := orderViolation(ents); v != "" {
			t.Fatalf("C36 violated [signature %s]: SortEntities(%v) = %v: %s", orderSig(offs, lens), before, after, v)
		}

		distinctOff, distinctLen := map[int]bool{}, map[int]bool{}
		tieOff, tieBoth := false, false
		for i := range offs {
			if distinctOff[offs[i]] {
				tieOff = true
			}
			distinctOff[offs[i]], distinctLen[lens[i]] = true, true
			for j := 0; j < i; j++ {
				if offs[i] == offs[j] && lens[i] == lens[j] {
					tieBoth = true
				}
			}
		}
		nontrivial := n >= 2 && len(distinctOff) >= 2 && len(distinctLen) >= 2
		classes := []string{fmt.Sprintf("n=%s", bucket(n))}
		if tieOff {
			classes = append(classes, "equal-offsets")
		}
		if tieBoth {
			classes = append(classes, "equal-offset-and-length")
		}
		if badPair(offs, lens) {
			classes = append(classes, "larger-offset-with-larger-length")
		}
		if sort.SliceIsSorted(input, func(i, j int) bool {
			return input[i].GetOffset() < input[j].GetOffset() ||
				(input[i].GetOffset() == input[j].GetOffset() && input[i].GetLength() > input[j].GetLength())
		}) {
			classes = append(classes, "input-already-sorted")
		}
		st.Case(strings.Join(before, ","), nontrivial, strings.Join(before, ","), classes...)
	})
}

func bucket(n int) string {
	switch {
	case n == 0:
		return "0"
	case n == 1:
		return "1"
	case n <= 5:
		return "2-5"
	case n <= 12:
		return "6-12"
	default:
		return "13-30"
	}
}

// TestC36Builder: the list returned by Builder.Complete (C35's generator).
func TestC36Builder(t *testing.T) {
	st := pbt.NewStats("TestC36Builder")
	defer st.Flush()
	rapid.Check(t, func(t *rapid.T) {
		// property "" = none of C35's range findings is gated here: they do not
		// change what this check looks at (order), and ShrinkPreCode hands the
		// sort a list that is not already in order.
		obs := runBuilderCase(t, builderOpts{property: "", st: st})
		var key strings.Builder
		nontrivial := false
		var classes []string
		for _, c := range obs {
			offs := make([]int, len(c.ents))
			lens := make([]int, len(c.ents))
			dOff, dLen := map[int]bool{}, map[int]bool{}
			for i, e := range c.ents {
				offs[i], lens[i] = e.GetOffset(), e.GetLength()
				dOff[offs[i]], dLen[lens[i]] = true, true
			}
			// (whether every formatted piece is represented is C35's question)
			key.WriteString(c.m.desc.String())
			key.WriteString("C;")
			if len(dOff) >= 2 && len(dLen) >= 2 {
				nontrivial = true
			}
			if badPair(offs, lens) {
				if pbt.Known("C36", sigLess) {
					// shape decided from the entity ranges alone, not from the outcome
					st.Excluded(sigLess)
					continue
				}
				classes = append(classes, "larger-offset-with-larger-length")
			}
			if v := orderViolation(c.ents); v != "" {
				t.Fatalf("C36 violated [signature %s]\n ops: %s\n Complete returned %s: %s", orderSig(offs, lens), c.m.desc.String(), dumpEnts(c.ents), v)
			}
		}
		classes = append(classes, fmt.Sprintf("completes=%d", len(obs)))
		st.Case(key.String(), nontrivial, key.String(), classes...)
	})
}

// Witness of the confirmed defect (fails on the pinned tree).

func c36Violation() string {
	ents := []tg.MessageEntityClass{
		&tg.MessageEntityItalic{Offset: 0, Length: 1},
		&tg.MessageEntityBold{Offset: 5, Length: 10},
	}
	entity.SortEntities(ents)
	if v := orderViolation(ents); v != "" {
		return fmt.Sprintf("SortEntities([Italic(0,1) Bold(5,10)]) = %s: %s", dumpEnts(ents), v)
	}
	var b entity.Builder
	b.Bold("a").Plain(" ").Italic("bc")
	_, got := b.Complete()
	if v := orderViolation(got); v != "" {
		return fmt.Sprintf("Bold(\"a\").Plain(\" \").Italic(\"bc\").Complete() = %s: %s", dumpEnts(got), v)
	}
	return ""
}

func TestC36Regression_LessWithoutEqualOffsetGuard(t *testing.T) {
	if v := c36Violation(); v != "" {
		t.Fatalf("C36 [signature %s]: %s", sigLess, v)
	}
}

func TestC36Known(t *testing.T) {
	if pbt.Known("C36", sigLess) {
		if v := c36Violation(); v != "" {
			pbt.ReportKnown("C36", sigLess, v)
		}
	}
}
