package c_text

import (
	"bytes"
	"errors"
	"fmt"
	"strings"
	"testing"
	"unicode/utf8"

	"github.com/gotd/td/telegram/message/entity"
	"github.com/gotd/td/telegram/message/html"
	"github.com/gotd/td/telegram/message/markdown"
	"github.com/gotd/td/tg"
	"pgregory.net/rapid"

	"verifharness/pbt"
	"verifharness/pbt/ref"
)

// C37: HTML and Markdown parsing never panic and entities stay within the text.
//
// Oracle (property text): html.HTML / markdown.Markdown return an error, or
// Builder.Complete yields text and entities with offset >= 0, length >= 0 and
// offset+length <= UTF-16 length of the text (reference: unicode/utf16 over the
// returned text). A panic fails the case (rapid and the fuzz engine catch it).

const sigSplit = "utf16/split-rune-miscount"

// Mode bits of one parse (shared by TestC37 and FuzzC37).
const (
	modeParsers   = 3 // mode%3: 0 HTML (Telegram unescape), 1 HTML (DisableTelegramEscape), 2 Markdown
	modeResolver  = 3 // bit: user resolver fails for odd ids
	modePrefix    = 6 // bit: builder already holds a plain and a formatted piece
	modeCount     = 12
	maxInputBytes = 4096 // a Telegram message holds at most 4096 characters
)

var errResolve = errors.New("harness: unknown user")

func failingResolver(id int64) (tg.InputUserClass, error) {
	if id%2 != 0 {
		return nil, errResolve
	}
	return &tg.InputUser{UserID: id, AccessHash: 1}, nil
}

func runParser(mode uint8, in []byte, b *entity.Builder) error {
	var resolver entity.UserResolver
	if mode/modeResolver%2 == 1 {
		resolver = failingResolver
	}
	if mode/modePrefix%2 == 1 {
		b.Plain("p\U0001F600 ")
		b.Format("q ", entity.Underline())
	}
	switch mode % modeParsers {
	case 0:
		return html.HTML(bytes.NewReader(in), b, html.Options{UserResolver: resolver})
	case 1:
		return html.HTML(bytes.NewReader(in), b, html.Options{UserResolver: resolver, DisableTelegramEscape: true})
	default:
		return markdown.Markdown(bytes.NewReader(in), b, markdown.Options{UserResolver: resolver})
	}
}

func modeName(mode uint8) string {
	n := []string{"html", "html-noescape", "markdown"}[mode%modeParsers]
	if mode/modeResolver%2 == 1 {
		n += "+resolver"
	}
	if mode/modePrefix%2 == 1 {
		n += "+prefix"
	}
	return n
}

type parseResult struct {
	err     error
	msg     string
	ents    []tg.MessageEntityClass
	trimmed bool
	shapes  []string // signatures of listed-finding shapes this case has
	viol    string
	sig     string
}

func outside(e tg.MessageEntityClass, total int) bool {
	return e.GetOffset() < 0 || e.GetLength() < 0 || e.GetOffset()+e.GetLength() > total
}

// checkParse runs one parse and evaluates the oracle. The shapes are decided
// from facts about the case (was the text trimmed, how many entities reach
// the end, does the builder's running UTF-16 count agree with the text), not
// from whether the oracle failed. sigSplit: the input is not valid UTF-8 and
// the builder's count differs from the UTF-16 length of the text it holds.
func checkParse(mode uint8, in []byte) parseResult {
	var b entity.Builder
	if err := runParser(mode, in, &b); err != nil {
		return parseResult{err: err}
	}
	pre8, pre16 := b.UTF8Len(), b.UTF16Len()
	msg, ents := b.Complete()
	r := parseResult{msg: msg, ents: ents, trimmed: len(msg) < pre8}
	total := ref.UTF16Len(msg)
	var bad []string
	for _, e := range ents {
		if outside(e, total) {
			bad = append(bad, fmt.Sprintf("%s(offset %d, length %d)", e.TypeName(), e.GetOffset(), e.GetLength()))
		}
	}
	if !r.trimmed && len(bad) == 0 {
		return r
	}
	// Second, identical parse observed before Complete (Raw resets the builder).
	var b2 entity.Builder
	if err := runParser(mode, in, &b2); err != nil {
		r.viol, r.sig = fmt.Sprintf("second parse of the same input failed: %v", err), "nondeterministic"
		return r
	}
	rawMsg, rawEnts := b2.Raw()
	rawTotal := ref.UTF16Len(rawMsg)
	miscount := rawTotal != pre16
	endReach := 0
	for _, e := range rawEnts {
		if e.GetOffset()+e.GetLength() >= rawTotal {
			endReach++
		}
	}
	splitShape := miscount && !utf8.Valid(in)
	if splitShape {
		r.shapes = append(r.shapes, sigSplit)
	}
	if r.trimmed && len(rawEnts) >= 2 {
		r.shapes = append(r.shapes, sigShrink)
	}
	if r.trimmed && endReach >= 2 {
		r.shapes = append(r.shapes, sigNested)
	}
	if len(bad) == 0 {
		return r
	}
	rawBad := 0
	for _, e := range rawEnts {
		if outside(e, rawTotal) {
			rawBad++
		}
	}
	switch {
	case rawBad > 0 && splitShape:
		r.sig = sigSplit
	case rawBad > 0 && miscount:
		r.sig = "utf16/miscount-on-valid-input"
	case rawBad > 0:
		r.sig = "parser/entity-outside-untrimmed-text"
	case r.trimmed && endReach >= 2:
		r.sig = sigNested
	case r.trimmed && len(rawEnts) >= 2:
		r.sig = sigShrink
	case r.trimmed:
		r.sig = "trim/single-entity"
	default:
		r.sig = "other"
	}
	r.viol = fmt.Sprintf("text %q has UTF-16 length %d; outside it: %s; all entities %s; before Complete: text %q (UTF-16 length %d, builder counted %d), entities %s",
		msg, total, strings.Join(bad, ", "), dumpEnts(ents), rawMsg, rawTotal, pre16, dumpEnts(rawEnts))
	return r
}

// ---------------------------------------------------------------------------
// Generators
// ---------------------------------------------------------------------------

var htmlRefs = []string{
	"&lt;", "&gt;", "&amp;", "&quot;", "&laquo;", "&nbsp;", "&lt", "&gt", "&amp", "&LT;", "&", "&;", "&#", "&#;", "&#x", "&#x;", "&#1", "&#x1",
	"&#60;", "&#x3c;", "&#X3C", "&#32;", "&#10;", "&#160;", "&#x2003;", "&#128512;", "&#x1F600;", "&#x1f3df", "&#65536;", "&#65535;",
	"&#55357;&#56832;", "&#xD800;", "&#xDFFF;", "&#57311;", "&#0;", "&#00;", "&#1114110;", "&#1114111;", "&#1114112;", "&#x10FFFE;", "&#x10FFFF;", "&#x110000;",
	"&#12345678;", "&#4294967295;", "&#4294967296;", "&#99999999999999999999;", "&#xFFFFFFFF;", "&#x100000000;", "&#xFFFFFFFFFFFFFFFFF;",
	"&#2147483647;", "&#2147483648;", "&#x80000000;", "&#x7fffffff",
}

var htmlSpecial = []string{"<", ">", "&", "\"", "'", "=", "/", "</", "<!", "<?", "--", "]]>", "\x00", "\r\n"}

var supportedTags = []string{"b", "strong", "i", "em", "u", "ins", "s", "strike", "del", "a", "a", "pre", "code", "pre", "code",
	"span", "tg-spoiler", "tg-emoji", "blockquote", "tg-time"}

var otherTags = []string{"div", "p", "br", "img", "script", "style", "textarea", "title", "plaintext", "xmp", "svg", "math", "B", "Strong", "PRE", "A", "x", "tg-", "b-"}

var hrefs = []string{"telegram.org", "https://t.me/x?y=1#z", "http://www.example.com/", "tg://user?id=123456789", "tg://user?id=2", "tg://user?id=abc",
	"tg://user?id=99999999999999999999", "tg://user", "tg://resolve?domain=x", "http://[::1]/", "http://[::1", "%zz", ":", "", "javascript:alert(1)",
	"http://exa mple.com", "http://a<b.com", "\U0001F600.com", "mailto:a@b.c", "telegram.org?&lt;", "//x", "#", "http://\xff.com", "a\x00b"}

// hostile decides whether one more malformed detail is used. Level 0 gives
// well-formed documents (so that entities are produced and the range logic
// is reached), level 1 a few defects, level 2 tag soup.
func hostile(t *rapid.T, level int, label string) bool {
	switch level {
	case 0:
		return false
	case 1:
		return rapid.IntRange(0, 29).Draw(t, label) == 0
	default:
		return rapid.IntRange(0, 2).Draw(t, label) == 0
	}
}

func genAttrValue(t *rapid.T, h int, v string) string {
	sp := func(l string) string { return rapid.SampledFrom([]string{"", "", " ", "  "}).Draw(t, l) }
	eq := sp("sp1") + "=" + sp("sp2")
	if hostile(t, h, "badQuote") {
		if rapid.Bool().Draw(t, "unterminated") {
			return eq + "\"" + v // unterminated
		}
		return eq + v // unquoted whatever the value holds
	}
	if rapid.Bool().Draw(t, "dquote") || strings.Contains(v, "'") {
		return eq + "\"" + strings.ReplaceAll(v, "\"", "&quot;") + "\""
	}
	return eq + "'" + v + "'"
}

func genAttrs(t *rapid.T, h int, tag string) string {
	var sb strings.Builder
	add := func(name string, values []string) {
		sep := " "
		if hostile(t, h, "oddSep") {
			sep = rapid.SampledFrom([]string{"  ", "\n", "/", "\t"}).Draw(t, "attrSep")
		}
		sb.WriteString(sep)
		sb.WriteString(name)
		if values != nil {
			sb.WriteString(genAttrValue(t, h, rapid.SampledFrom(values).Draw(t, "attrVal")))
		}
	}
	if rapid.IntRange(0, 5).Draw(t, "junkAttr") == 0 {
		names := []string{"aba", "x", "href", "class"}
		if hostile(t, h, "junkAttrName") {
			names = []string{"=aba", "a=b=c", "\U0001F600", "\xff"}
		}
		add(rapid.SampledFrom(names).Draw(t, "junkName"), []string{"caba", "190azAz-.", "&lt;&gt;&quot;", ""})
	}
	switch strings.ToLower(tag) {
	case "a":
		if rapid.IntRange(0, 4).Draw(t, "hasHref") != 0 {
			add("href", hrefs)
		}
	case "code":
		if rapid.Bool().Draw(t, "hasClass") {
			add("class", []string{"language-go", "language-", "go", "language-\U0001F600", "language-fift"})
		}
	case "span":
		add("class", []string{"tg-spoiler", "tg-spoiler", "x", ""})
	case "tg-emoji":
		add("emoji-id", []string{"5368324170671202286", "abc", "99999999999999999999", "-1", ""})
	case "blockquote":
		if rapid.Bool().Draw(t, "expandable") {
			if rapid.Bool().Draw(t, "expandableValue") {
				add("expandable", []string{""})
			} else {
				add("expandable", nil)
			}
		}
	case "tg-time":
		add("unix", []string{"1647531900", "0", "-5", "x", "99999999999999999999"})
		if rapid.Bool().Draw(t, "hasFormat") {
			add("format", []string{"t", "r", "R", "wDT", "q", "", "rr"})
		}
	}
	return sb.String()
}

func genHTMLText(t *rapid.T, h int) string {
	var sb strings.Builder
	n := rapid.IntRange(1, 4).Draw(t, "ntext")
	for i := 0; i < n; i++ {
		switch rapid.IntRange(0, 9).Draw(t, "textKind") {
		case 0:
			sb.WriteString(rapid.SampledFrom(htmlRefs).Draw(t, "ref"))
		case 1:
			// a numeric reference drawn by value class rather than from the list:
			// ASCII, Latin-1 above ASCII (the values that are also the bytes of UTF-8
			// lead and continuation positions), BMP, surrogates, astral
			var v int
			switch rapid.IntRange(0, 5).Draw(t, "refClass") {
			case 0:
				v = rapid.IntRange(1, 127).Draw(t, "refASCII")
			case 1, 2:
				v = rapid.IntRange(128, 255).Draw(t, "refLatin1")
			case 3:
				v = rapid.IntRange(256, 0xD7FF).Draw(t, "refBMP")
			case 4:
				v = rapid.IntRange(0xD800, 0xDFFF).Draw(t, "refSurrogate")
			default:
				v = rapid.IntRange(0x10000, 0x10FFFF).Draw(t, "refAstral")
			}
			if rapid.Bool().Draw(t, "refHex") {
				fmt.Fprintf(&sb, "&#x%x;", v)
			} else {
				fmt.Fprintf(&sb, "&#%d;", v)
			}
		case 2:
			if hostile(t, h, "rawSpecial") {
				sb.WriteString(rapid.SampledFrom(htmlSpecial).Draw(t, "special"))
			} else {
				sb.WriteString(rapid.SampledFrom([]string{"&lt;", "&gt;", "&amp;", "&quot;", "'", "=", "/", "--"}).Draw(t, "escaped"))
			}
		case 3, 4:
			sb.WriteString(rapid.SampledFrom(spaceTokens).Draw(t, "ws"))
		default:
			sb.WriteString(rapid.SampledFrom(allTokens).Draw(t, "tok"))
		}
	}
	return sb.String()
}

func genHTMLNodes(t *rapid.T, h, depth int, sb *strings.Builder) {
	lo := 0
	if depth == 0 || h == 0 {
		lo = 1
	}
	n := rapid.IntRange(lo, 3).Draw(t, "nnodes")
	for i := 0; i < n; i++ {
		kind := rapid.IntRange(1, 9).Draw(t, "node")
		if depth == 0 && i == 0 && h < 2 && kind < 5 {
			kind = 5 // at least one element per document
		}
		switch {
		case kind <= 3 || depth >= 4:
			sb.WriteString(genHTMLText(t, h))
		case kind == 4:
			misc := []string{"<!-- c -->", "<!---->", "<br/>", "<b/>", "<br>"}
			if hostile(t, h, "oddMisc") {
				misc = []string{"<!-->", "<!doctype html>", "<![CDATA[x]]>", "<?xml?>", "<>", "< b>", "<!", "</", "<b"}
			}
			sb.WriteString(rapid.SampledFrom(misc).Draw(t, "misc"))
		default:
			var tag string
			if rapid.IntRange(0, 9).Draw(t, "otherTag") == 0 {
				if hostile(t, h, "rawTextTag") {
					tag = rapid.SampledFrom(otherTags).Draw(t, "tag")
				} else {
					tag = rapid.SampledFrom([]string{"div", "p", "x", "B", "Strong", "PRE", "A"}).Draw(t, "tag")
				}
			} else {
				tag = rapid.SampledFrom(supportedTags).Draw(t, "tag")
			}
			sb.WriteString("<" + tag + genAttrs(t, h, tag))
			if hostile(t, h, "oddTagEnd") {
				sb.WriteString(rapid.SampledFrom([]string{" >", "/>", "", "\n>"}).Draw(t, "tagEnd"))
			} else {
				sb.WriteString(">")
			}
			genHTMLNodes(t, h, depth+1, sb)
			closeTag := strings.ToLower(tag) // the tokenizer lower-cases names on both sides
			if rapid.Bool().Draw(t, "closeSameCase") {
				closeTag = tag
			}
			switch {
			case hostile(t, h, "oddClose"):
				switch rapid.IntRange(0, 2).Draw(t, "oddCloseKind") {
				case 0:
					sb.WriteString("</" + rapid.SampledFrom(supportedTags).Draw(t, "wrongTag") + ">")
				case 1:
					sb.WriteString("</" + closeTag)
				default: // unclosed
				}
			default:
				sb.WriteString(rapid.SampledFrom([]string{"</" + closeTag + ">", "</" + closeTag + ">", "</" + closeTag + ">", "</>", "</" + closeTag + "   >", "</    >"}).Draw(t, "close"))
			}
		}
	}
}

var mdSpecial = []string{"*", "**", "_", "__", "`", "``", "~", "~~", "|", "||", "|||", "[", "]", "(", ")", "![", "](", "\\", "\\*", "\\_", "\\|", "\\`",
	">", "> ", "#", "# ", "- ", "1. ", "---", "===", "  \n", "\\\n", "\n", "\n\n", "\r\n", "\t", "    ", "&amp;", "&#42;", "&#x1F600;", "<b>", "</b>", "<", "<http://x.y>", "http://x.y", "```", "~~~", "\x00"}

var mdDests = []string{"http://x.y", "https://t.me/a?b=c#d", "tg://user?id=123456789", "tg://user?id=2", "tg://user?id=abc", "tg://user", "tg://emoji?id=5368324170671202286",
	"tg://emoji?id=x", "tg://emoji", "tg://time?unix=1647531900&format=t", "tg://time?unix=1647531900&format=q", "tg://time?unix=x", "tg://time", "", "%zz", ":", "<a b>", "<>",
	"x \"title\"", "x 'ti\ntle'", "http://[::1", "\U0001F600", "a\\)b", "(a(b)c)", "\xff", "/url"}

func genMDText(t *rapid.T) string {
	var sb strings.Builder
	n := rapid.IntRange(0, 4).Draw(t, "ntext")
	for i := 0; i < n; i++ {
		switch rapid.IntRange(0, 9).Draw(t, "textKind") {
		case 0, 1, 2:
			sb.WriteString(rapid.SampledFrom(mdSpecial).Draw(t, "special"))
		case 3, 4:
			sb.WriteString(rapid.SampledFrom(spaceTokens).Draw(t, "ws"))
		default:
			sb.WriteString(rapid.SampledFrom(allTokens).Draw(t, "tok"))
		}
	}
	return sb.String()
}

var mdGoodDests = []string{"http://x.y", "https://t.me/a?b=c#d", "tg://user?id=123456789", "tg://user?id=2", "tg://emoji?id=5368324170671202286",
	"tg://time?unix=1647531900&format=t", "tg://time?unix=1647531900&format=q", "", "<a b>", "x \"title\"", "\U0001F600", "(a(b)c)", "/url"}

func genMDInline(t *rapid.T, h, depth int, sb *strings.Builder) {
	n := rapid.IntRange(1, 3).Draw(t, "ninline")
	for i := 0; i < n; i++ {
		kind := rapid.IntRange(0, 11).Draw(t, "inline")
		switch {
		case kind <= 3 || depth >= 4:
			sb.WriteString(genMDText(t))
		case kind <= 6:
			d := rapid.SampledFrom([]string{"*", "**", "***", "_", "__", "~~", "~", "||", "|"}).Draw(t, "delim")
			sb.WriteString(d)
			genMDInline(t, h, depth+1, sb)
			if rapid.IntRange(0, 9).Draw(t, "closeDelim") != 0 {
				sb.WriteString(d)
			}
		case kind <= 8:
			tick := rapid.SampledFrom([]string{"`", "`", "``", "```"}).Draw(t, "tick")
			sb.WriteString(tick)
			sb.WriteString(rapid.SampledFrom([]string{"", " "}).Draw(t, "padL"))
			sb.WriteString(genMDText(t))
			sb.WriteString(rapid.SampledFrom([]string{"", " ", "  ", "\n"}).Draw(t, "padR"))
			if rapid.IntRange(0, 9).Draw(t, "closeTick") != 0 {
				sb.WriteString(tick)
			}
		default:
			if rapid.IntRange(0, 3).Draw(t, "image") == 0 {
				sb.WriteString("!")
			}
			sb.WriteString("[")
			genMDInline(t, h, depth+1, sb)
			sb.WriteString("]")
			switch rapid.IntRange(0, 5).Draw(t, "linkTail") {
			case 0:
				sb.WriteString("[ref]")
			case 1:
			default:
				dests := mdGoodDests
				if hostile(t, h, "badDest") {
					dests = mdDests
				}
				sb.WriteString("(" + rapid.SampledFrom(dests).Draw(t, "dest") + ")")
			}
		}
	}
}

func genMDBlocks(t *rapid.T, h, depth int) string {
	n := rapid.IntRange(1, 3).Draw(t, "nblocks")
	var blocks []string
	for i := 0; i < n; i++ {
		kind := rapid.IntRange(0, 9).Draw(t, "block")
		switch {
		case kind <= 4 || depth >= 3:
			var sb strings.Builder
			sb.WriteString(rapid.SampledFrom([]string{"", "", "", "# ", "- ", "1. ", "    ", "   "}).Draw(t, "lead"))
			genMDInline(t, h, 0, &sb)
			blocks = append(blocks, sb.String())
		case kind <= 6:
			inner := genMDBlocks(t, h, depth+1)
			marker := rapid.SampledFrom([]string{"> ", "> ", ">", " > ", ">\t"}).Draw(t, "quoteMarker")
			lazy := rapid.IntRange(0, 4).Draw(t, "lazy") == 0
			lines := strings.Split(inner, "\n")
			for j := range lines {
				if j > 0 && lazy {
					continue
				}
				lines[j] = marker + lines[j]
			}
			blocks = append(blocks, strings.Join(lines, "\n"))
		default:
			fence := rapid.SampledFrom([]string{"```", "```", "~~~", "````", "``"}).Draw(t, "fence")
			info := rapid.SampledFrom([]string{"", "go", "go extra", "\U0001F600", " c++ ", "\\*", "a`b"}).Draw(t, "info")
			body := genMDText(t)
			if rapid.Bool().Draw(t, "bodyLines") {
				body += "\n" + genMDText(t)
			}
			body += rapid.SampledFrom([]string{"", " ", "  ", "\n", "\n\n", " \n \n"}).Draw(t, "bodyTail")
			s := fence + info + "\n" + body
			if rapid.IntRange(0, 5).Draw(t, "closeFence") != 0 {
				s += "\n" + fence
			}
			blocks = append(blocks, s)
		}
	}
	return strings.Join(blocks, rapid.SampledFrom([]string{"\n\n", "\n\n", "\n", "\n \n", ""}).Draw(t, "blockSep"))
}

var c37Corpus = []string{
	// TDLib HTML test inputs (telegram/message/html/tdlib_test.go, re-typed)
	"", "➡️ ➡️", "&lt;&gt;&amp;&quot;&laquo;&raquo;&#12345678;",
	"➡️ ➡️<i>➡️ ➡️</i>",
	"➡️ ➡️<i>➡️ ➡️</i><b>➡️ ➡️</b>",
	"\U0001F3DF \U0001F3DF<i>\U0001F3DF &lt\U0001F3DF</i>",
	"\U0001F3DF \U0001F3DF<i>\U0001F3DF &gt;<b aba   =   caba>&lt\U0001F3DF</b></i>",
	"\U0001F3DF \U0001F3DF&lt;<i    aba  =  190azAz-.   >a</i>",
	"\U0001F3DF \U0001F3DF&lt;<i    aba  =  \"&lt;&gt;&quot;\">a</i>",
	"\U0001F3DF \U0001F3DF&lt;<i    aba  =  '&lt;&gt;&quot;'>a</>",
	"\U0001F3DF \U0001F3DF&lt;<i>\U0001F3DF \U0001F3DF&lt;</>",
	"\U0001F3DF \U0001F3DF&lt;<i>a</    >", "\U0001F3DF \U0001F3DF&lt;<i>a</i   >", "\U0001F3DF \U0001F3DF&lt;<b></b>",
	"<i>\t</i>", "<i>\r</i>", "<i>\n</i>",
	"➡️ ➡️<span class = \"tg-spoiler\">➡️ ➡️</span><b>➡️ ➡️</b>",
	"\U0001F3DF \U0001F3DF<tg-spoiler>\U0001F3DF &gt;<b aba   =   caba>&lt\U0001F3DF</b></tg-spoiler>",
	"<a href=telegram.org>\t</a>", "<a href=telegram.org> </a>", "<a href  =\"telegram.org\"   > </a>", "<a   href=  'telegram.org?&lt;'   > </a>",
	"<code><i><b> </b></i></code><i><b><code> </code></b></i>", "<i><b> </b> <code> </code></i>",
	"<a>telegram.org </a>", "<a>telegram.org</a>", "<a>https://telegram.org/asdsa?asdasdwe#12e3we</a>",
	"\U0001F3DF \U0001F3DF&lt;<pre  >\U0001F3DF \U0001F3DF&lt;</>", "\U0001F3DF \U0001F3DF&lt;<code >\U0001F3DF \U0001F3DF&lt;</>",
	"\U0001F3DF \U0001F3DF&lt;<pre><code>\U0001F3DF \U0001F3DF&lt;</code></>",
	"\U0001F3DF \U0001F3DF&lt;<pre><code class=\"language-\">\U0001F3DF \U0001F3DF&lt;</code></>",
	"\U0001F3DF \U0001F3DF&lt;<pre><code class=\"language-fift\">\U0001F3DF \U0001F3DF&lt;</></>",
	"\U0001F3DF \U0001F3DF&lt;<code class=\"language-fift\"><pre>\U0001F3DF \U0001F3DF&lt;</></>",
	"\U0001F3DF \U0001F3DF&lt;<pre><code class=\"language-fift\">\U0001F3DF \U0001F3DF&lt;</> </>",
	"\U0001F3DF \U0001F3DF&lt;<pre> <code class=\"language-fift\">\U0001F3DF \U0001F3DF&lt;</></>",
	// error cases of the same suite
	"&#57311;", "&#xDFDF;", "&#xDFDF", "\U0001F3DF \U0001F3DF&lt;<abacaba", "\U0001F3DF \U0001F3DF&lt;<i   =aba>", "\U0001F3DF \U0001F3DF&lt;<i    aba  =  ",
	"\U0001F3DF \U0001F3DF&lt;</", "\U0001F3DF \U0001F3DF&lt;<b></b></", "\U0001F3DF \U0001F3DF&lt;<i>a</i   ", "\U0001F3DF \U0001F3DF&lt;<i>a</em   >",
	// Bot API examples
	`<a href="tg://user?id=123456789">inline mention of a user</a>`, `<pre><code class="language-python">python code</code></pre>`,
	"<tg-emoji emoji-id=\"5368324170671202286\">\U0001F44D</tg-emoji>", "<blockquote expandable>quote</blockquote>",
	`<tg-time unix="1647531900" format="wDT">22:45 tomorrow</tg-time>`,
}

var c37MarkdownCorpus = []string{
	"*italic* **bold** ~~strike~~ ||spoiler|| `code`", "```go\nfunc main() {}\n```", "[inline URL](http://www.example.com/)",
	"[inline mention of a user](tg://user?id=123456789)", "![\U0001F44D](tg://emoji?id=5368324170671202286)", "![22:45 tomorrow](tg://time?unix=1647531900&format=wDT)",
	"> quote\n> **bold _nested_**\n\n> ```\n> code  \n> ```", "line  \nbreak\\\nhard", "a\n\n\nb",
}

var splitMarkup = []string{"<b>", "</b>", "<i>", "</>", "&lt;", "&#32;", "*", "**", "_", "`", "||", "~~", "\\", "\n", "[", "]("}

// mutate applies one byte-level edit (construction on top of a well-formed
// input: truncation, deletion, duplication, insertion, bit flip, or markup
// placed in the middle of a multi-byte character).
func mutate(t *rapid.T, in []byte) ([]byte, string) {
	pos := func(l string) int { return rapid.IntRange(0, len(in)).Draw(t, l) }
	switch rapid.IntRange(0, 5).Draw(t, "mutation") {
	case 0:
		return in[:pos("cut")], "truncate"
	case 1:
		a, b := pos("a"), pos("b")
		if a > b {
			a, b = b, a
		}
		return append(append([]byte{}, in[:a]...), in[b:]...), "delete"
	case 2:
		a, b := pos("a"), pos("b")
		if a > b {
			a, b = b, a
		}
		return append(append(append([]byte{}, in[:b]...), in[a:b]...), in[b:]...), "duplicate"
	case 3:
		p := pos("at")
		var ins []byte
		if rapid.Bool().Draw(t, "insMarkup") {
			ins = []byte(rapid.SampledFrom(append(append([]string{}, splitMarkup...), htmlRefs...)).Draw(t, "ins"))
		} else {
			ins = pbt.DrawBytes(t, "insBytes", rapid.IntRange(1, 4).Draw(t, "insN"))
		}
		return append(append(append([]byte{}, in[:p]...), ins...), in[p:]...), "insert"
	case 4:
		if len(in) == 0 {
			return in, "none"
		}
		out := append([]byte{}, in...)
		out[rapid.IntRange(0, len(in)-1).Draw(t, "flipAt")] ^= 1 << rapid.IntRange(0, 7).Draw(t, "bit")
		return out, "bitflip"
	default:
		// split a multi-byte character with markup
		var starts []int
		for i := 0; i < len(in); {
			_, sz := utf8.DecodeRune(in[i:])
			if sz > 1 {
				starts = append(starts, i)
			}
			i += sz
		}
		if len(starts) == 0 {
			in = append(append([]byte{}, in...), "\U0001F600"...)
			starts = []int{len(in) - 4}
		}
		s := starts[rapid.IntRange(0, len(starts)-1).Draw(t, "runeAt")]
		_, sz := utf8.DecodeRune(in[s:])
		p := s + rapid.IntRange(1, sz-1).Draw(t, "within")
		ins := rapid.SampledFrom(splitMarkup).Draw(t, "splitWith")
		return append(append(append([]byte{}, in[:p]...), ins...), in[p:]...), "split-rune"
	}
}

func genC37Input(t *rapid.T) (mode uint8, in []byte, classes []string) {
	parser := rapid.SampledFrom([]uint8{0, 0, 0, 1, 2, 2, 2}).Draw(t, "parser")
	mode = parser
	if rapid.IntRange(0, 3).Draw(t, "resolver") == 0 {
		mode += modeResolver
	}
	if rapid.IntRange(0, 6).Draw(t, "prefix") == 0 {
		mode += modePrefix
	}
	src := rapid.SampledFrom([]string{"grammar", "grammar", "grammar", "grammar", "grammar", "grammar", "grammar", "corpus", "soup", "bytes"}).Draw(t, "source")
	h := rapid.SampledFrom([]int{0, 0, 0, 1, 1, 2}).Draw(t, "hostility")
	switch src {
	case "grammar":
		if parser == 2 {
			in = []byte(genMDBlocks(t, h, 0))
		} else {
			var sb strings.Builder
			genHTMLNodes(t, h, 0, &sb)
			in = []byte(sb.String())
		}
		classes = append(classes, fmt.Sprintf("hostility=%d", h))
	case "corpus":
		if (parser == 2) != (rapid.IntRange(0, 4).Draw(t, "otherCorpus") == 0) {
			in = []byte(rapid.SampledFrom(c37MarkdownCorpus).Draw(t, "corpus"))
		} else {
			in = []byte(rapid.SampledFrom(c37Corpus).Draw(t, "corpus"))
		}
	case "soup":
		// the other language's grammar, or a token soup of both
		if rapid.Bool().Draw(t, "crossGrammar") {
			if parser == 2 {
				var sb strings.Builder
				genHTMLNodes(t, h, 0, &sb)
				in = []byte(sb.String())
			} else {
				in = []byte(genMDBlocks(t, h, 0))
			}
		} else {
			all := append(append(append(append([]string{}, mdSpecial...), htmlSpecial...), htmlRefs...), "<b>", "</b>", "<i>", "</i>", "<a href=x>", "</a>", "<pre>", "<code>", "</>", "a", " ", "\U0001F600")
			in = []byte(strings.Join(rapid.SliceOfN(rapid.SampledFrom(all), 0, 20).Draw(t, "soup"), ""))
		}
	case "bytes":
		in = pbt.DrawBytes(t, "bytes", rapid.IntRange(0, 64).Draw(t, "nbytes"))
	}
	classes = append([]string{src}, classes...)
	nmut := rapid.SampledFrom([]int{0, 0, 0, 0, 1, 1, 2}).Draw(t, "nmut")
	for i := 0; i < nmut; i++ {
		var what string
		in, what = mutate(t, in)
		classes = append(classes, "mut:"+what)
	}
	return mode, in, classes
}

func TestC37(t *testing.T) {
	st := pbt.NewStats("TestC37")
	defer st.Flush()
	rapid.Check(t, func(t *rapid.T) {
		mode, in, classes := genC37Input(t)
		r := checkParse(mode, in)
		classes = append(classes, modeName(mode))
		key := fmt.Sprintf("%d/%x", mode, in)
		sample := fmt.Sprintf("%s %q", modeName(mode), in)
		if r.err != nil {
			st.Case(key, false, sample, append(classes, "error")...)
			return
		}
		excluded := false
		for _, s := range r.shapes {
			if pbt.Known("C37", s) {
				// the case has the shape of a listed finding: excluded whatever its outcome
				st.Excluded(s)
				excluded = true
			}
		}
		if excluded {
			st.Case(key, false, sample, append(classes, "excluded")...)
			return
		}
		if r.viol != "" {
			t.Fatalf("C37 violated [signature %s]\n mode:  %s\n input: %q\n %s", r.sig, modeName(mode), in, r.viol)
		}
		if !utf8.Valid(in) {
			classes = append(classes, "invalid-utf8-input")
		}
		if r.trimmed {
			classes = append(classes, "trimmed")
		}
		// entities the parser produced (the prefix contributes one of its own)
		n := len(r.ents)
		if mode/modePrefix%2 == 1 {
			n--
		}
		switch {
		case n <= 0:
			classes = append(classes, "entities=0")
		case n == 1:
			classes = append(classes, "entities=1")
		default:
			classes = append(classes, "entities>=2")
		}
		if hasAstral(r.msg) {
			classes = append(classes, "astral-in-text")
		}
		st.Case(key, n >= 1, sample, classes...)
	})
}

// FuzzC37: native fuzz target with the same semantic oracle.
func FuzzC37(f *testing.F) {
	for i, s := range c37Corpus {
		f.Add(uint8(i%2+i%4/2*modeResolver), []byte(s))
	}
	for i, s := range c37MarkdownCorpus {
		f.Add(uint8(2+i%2*modePrefix), []byte(s))
	}
	f.Add(uint8(0), []byte("<b><i>a&#32;</i></b>"))
	f.Add(uint8(0), []byte("<i>a</i> <b>b </b>"))
	f.Add(uint8(0), []byte("\xf0\x9f<b>\x98\x80</b>"))
	f.Add(uint8(0), []byte("&#xFFFFFFFFF;&#55357;&#56832;&#0;<a href=\"tg://user?id=1\">x</a>"))
	f.Add(uint8(1), []byte("<pre><code class=\"language-go\">x</code></pre>&nbsp;"))
	f.Add(uint8(2), []byte("**`a  `**"))
	f.Add(uint8(2), []byte("> > ```go\n> > x\n\n[a](tg://user?id=3) ![b](tg://emoji?id=1) ||s|| ~~d~~"))
	f.Add(uint8(2+modeResolver), []byte("[a](tg://user?id=3)"))
	f.Add(uint8(2+modePrefix), []byte("\xf0\x9f*\x98\x80*"))
	f.Fuzz(func(t *testing.T, mode uint8, in []byte) {
		if len(in) > maxInputBytes {
			t.Skip()
		}
		mode %= modeCount
		r := checkParse(mode, in)
		if r.err != nil {
			return
		}
		for _, s := range r.shapes {
			if pbt.Known("C37", s) {
				return
			}
		}
		if r.viol != "" {
			t.Fatalf("C37 violated [signature %s]\n mode:  %s\n input: %q\n %s", r.sig, modeName(mode), in, r.viol)
		}
	})
}

// Witnesses of confirmed defects (plain tests that fail on the pinned tree).

func c37Witness(mode uint8, in string) string {
	r := checkParse(mode, []byte(in))
	if r.err != nil || r.viol == "" {
		return ""
	}
	return fmt.Sprintf("%s %q: %s", modeName(mode), in, r.viol)
}

func TestC37Regression_NestedTrailingSpace(t *testing.T) {
	for _, w := range []struct {
		mode uint8
		in   string
	}{{0, "<b><i>a </i></b>"}, {2, "**`a  `**"}} {
		if v := c37Witness(w.mode, w.in); v != "" {
			t.Errorf("C37 [signature %s]: %s", sigNested, v)
		}
	}
}

func TestC37Regression_ShrinkPreCodeReorders(t *testing.T) {
	for _, w := range []struct {
		mode uint8
		in   string
	}{{0, "<i>a</i> <b>b </b>"}, {2, "*a* `b  `"}} {
		if v := c37Witness(w.mode, w.in); v != "" {
			t.Errorf("C37 [signature %s]: %s", sigShrink, v)
		}
	}
}

func TestC37Regression_SplitRune(t *testing.T) {
	for _, w := range []struct {
		mode uint8
		in   string
	}{{0, "\xf0\x9f<b>\x98\x80</b>"}, {2, "\xf0\x9f*\x98\x80*"}} {
		if v := c37Witness(w.mode, w.in); v != "" {
			t.Errorf("C37 [signature %s]: %s", sigSplit, v)
		}
	}
}

func TestC37Known(t *testing.T) {
	for _, w := range []struct {
		sig  string
		mode uint8
		in   string
	}{
		{sigNested, 0, "<b><i>a </i></b>"},
		{sigShrink, 0, "<i>a</i> <b>b </b>"},
		{sigSplit, 0, "\xf0\x9f<b>\x98\x80</b>"},
	} {
		if !pbt.Known("C37", w.sig) {
			continue
		}
		if v := c37Witness(w.mode, w.in); v != "" {
			pbt.ReportKnown("C37", w.sig, v)
		}
	}
}
