package c_text

import (
	"fmt"
	"reflect"
	"strings"

	"github.com/gotd/td/telegram/message/entity"
	"github.com/gotd/td/telegram/message/styling"
	"github.com/gotd/td/tg"
	"pgregory.net/rapid"
)

// ---------------------------------------------------------------------------
// Alphabet shared by C35/C36/C37.
// ---------------------------------------------------------------------------

// Every White_Space code point (Unicode PropList.txt); plain space weighted.
var spaceTokens = []string{
	" ", " ", " ", "\t", "\n", "\n", "\r", "\v", "\f", "\u0085", "\u00a0", "\u1680",
	"\u2000", "\u2001", "\u2002", "\u2003", "\u2004", "\u2005", "\u2006", "\u2007",
	"\u2008", "\u2009", "\u200a", "\u2028", "\u2029", "\u202f", "\u205f", "\u3000",
}

// Look like spaces but are not White_Space: must never be trimmed.
// ZWSP, ZWNJ, ZWJ, WORD JOINER, BOM, MONGOLIAN VOWEL SEPARATOR, Braille blank.
var notSpaceTokens = []string{"\u200b", "\u200c", "\u200d", "\u2060", "\ufeff", "\u180e", "\u2800"}

var asciiTokens = []string{"a", "b", "z", "A", "0", "9", ".", "-", "_", "!", "ab", "xyz"}

var bmpTokens = []string{"\u00e9", "\u0436", "\u4e2d", "\u00df", "\u05d0", "\u0e01", "\ufffd", "\ud7ff", "\ue000", "\uffff"}

// Astral plane: two UTF-16 code units each.
var astralTokens = []string{"\U0001F600", "\U0001F3DF", "\U0001D4B3", "\U00010000", "\U0010ffff", "\U0001F1FA", "\U0001F3FD"}

// Combining marks, variation selectors, ZWJ sequences, flags, keycaps, tags.
var clusterTokens = []string{
	"e\u0301", "\u0301", "\u20e3", "\ufe0f", "\u27a1\ufe0f", "1\ufe0f\u20e3",
	"\U0001F468\u200d\U0001F469\u200d\U0001F467", "\U0001F1FA\U0001F1E6", "\U0001F44D\U0001F3FD", "\U000e0067",
}

// Bytes that can never be part of well-formed UTF-8 and lone continuation
// bytes. Lead bytes (0xC2..0xF4) are deliberately absent: two builder pieces
// "\xf0\x9f" + "\x98\x80" would join into one rune, which no caller handing
// Unicode strings to the builder can produce (C35 quantifies over Unicode
// strings). C37 (all byte strings) has its own split-rune class.
var invalidTokens = []string{"\xff", "\xfe", "\xc0", "\xc1", "\x80", "\xbf", "\xc0\x80"}

var validTokens = func() []string {
	var all []string
	// weights by repetition
	for i := 0; i < 3; i++ {
		all = append(all, asciiTokens...)
	}
	all = append(all, bmpTokens...)
	all = append(all, astralTokens...)
	all = append(all, astralTokens...)
	all = append(all, clusterTokens...)
	all = append(all, spaceTokens...)
	all = append(all, notSpaceTokens...)
	return all
}()

var allTokens = append(append([]string{}, validTokens...), invalidTokens...)

// genText draws a short string from the biased alphabet; one in three gets
// extra trailing White_Space (the part fixEntities is about).
func genText(t *rapid.T, label string, minTok int, invalid bool) string {
	toks := validTokens
	if invalid {
		toks = allTokens
	}
	parts := rapid.SliceOfN(rapid.SampledFrom(toks), minTok, 6).Draw(t, label)
	s := strings.Join(parts, "")
	if rapid.IntRange(0, 2).Draw(t, label+"Tail") == 0 {
		s += strings.Join(rapid.SliceOfN(rapid.SampledFrom(spaceTokens), 1, 3).Draw(t, label+"TailWs"), "")
	}
	return s
}

func hasAstral(s string) bool {
	for _, r := range s {
		if r >= 0x10000 {
			return true
		}
	}
	return false
}

// ---------------------------------------------------------------------------
// Formatter kinds.
// ---------------------------------------------------------------------------

// fmtSpec is one drawn formatter in its three API shapes, with the key the
// produced entity must carry (Go type name of the constructor documented for
// the helper + its payload).
type fmtSpec struct {
	key    string
	f      entity.Formatter
	method func(b *entity.Builder, s string)
	style  func(s string) styling.StyledTextOption
}

func simpleKind(typeName string, f func() entity.Formatter, m func(*entity.Builder, string) *entity.Builder,
	s func(string) styling.StyledTextOption) func(*rapid.T) fmtSpec {
	return func(*rapid.T) fmtSpec {
		return fmtSpec{
			key:    typeName + "|",
			f:      f(),
			method: func(b *entity.Builder, str string) { m(b, str) },
			style:  s,
		}
	}
}

var kindGens = []func(*rapid.T) fmtSpec{
	simpleKind("MessageEntityUnknown", entity.Unknown, (*entity.Builder).Unknown, styling.Unknown),
	simpleKind("MessageEntityMention", entity.Mention, (*entity.Builder).Mention, styling.Mention),
	simpleKind("MessageEntityHashtag", entity.Hashtag, (*entity.Builder).Hashtag, styling.Hashtag),
	simpleKind("MessageEntityBotCommand", entity.BotCommand, (*entity.Builder).BotCommand, styling.BotCommand),
	simpleKind("MessageEntityURL", entity.URL, (*entity.Builder).URL, styling.URL),
	simpleKind("MessageEntityEmail", entity.Email, (*entity.Builder).Email, styling.Email),
	simpleKind("MessageEntityBold", entity.Bold, (*entity.Builder).Bold, styling.Bold),
	simpleKind("MessageEntityItalic", entity.Italic, (*entity.Builder).Italic, styling.Italic),
	simpleKind("MessageEntityCode", entity.Code, (*entity.Builder).Code, styling.Code),
	simpleKind("MessageEntityPhone", entity.Phone, (*entity.Builder).Phone, styling.Phone),
	simpleKind("MessageEntityCashtag", entity.Cashtag, (*entity.Builder).Cashtag, styling.Cashtag),
	simpleKind("MessageEntityUnderline", entity.Underline, (*entity.Builder).Underline, styling.Underline),
	simpleKind("MessageEntityStrike", entity.Strike, (*entity.Builder).Strike, styling.Strike),
	simpleKind("MessageEntityBankCard", entity.BankCard, (*entity.Builder).BankCard, styling.BankCard),
	simpleKind("MessageEntitySpoiler", entity.Spoiler, (*entity.Builder).Spoiler, styling.Spoiler),
	simpleKind("MessageEntityDiffInsert", entity.DiffInsert, (*entity.Builder).DiffInsert, styling.DiffInsert),
	simpleKind("MessageEntityDiffDelete", entity.DiffDelete, (*entity.Builder).DiffDelete, styling.DiffDelete),
	// with payload
	func(t *rapid.T) fmtSpec {
		lang := rapid.SampledFrom([]string{"", "go", "c++", "\U0001F600"}).Draw(t, "lang")
		return fmtSpec{
			key:    "MessageEntityPre|" + lang,
			f:      entity.Pre(lang),
			method: func(b *entity.Builder, s string) { b.Pre(s, lang) },
			style:  func(s string) styling.StyledTextOption { return styling.Pre(s, lang) },
		}
	},
	func(t *rapid.T) fmtSpec {
		u := rapid.SampledFrom([]string{"", "https://t.me", "tg://user?id=1", "x"}).Draw(t, "url")
		return fmtSpec{
			key:    "MessageEntityTextURL|" + u,
			f:      entity.TextURL(u),
			method: func(b *entity.Builder, s string) { b.TextURL(s, u) },
			style:  func(s string) styling.StyledTextOption { return styling.TextURL(s, u) },
		}
	},
	func(t *rapid.T) fmtSpec {
		id := rapid.Int64Range(0, 3).Draw(t, "userID")
		user := &tg.InputUser{UserID: id, AccessHash: 7}
		return fmtSpec{
			key:    fmt.Sprintf("InputMessageEntityMentionName|%d/7", id),
			f:      entity.MentionName(user),
			method: func(b *entity.Builder, s string) { b.MentionName(s, user) },
			style:  func(s string) styling.StyledTextOption { return styling.MentionName(s, user) },
		}
	},
	func(t *rapid.T) fmtSpec {
		id := rapid.SampledFrom([]int64{0, 1, -1, 5368324170671202286}).Draw(t, "docID")
		return fmtSpec{
			key:    fmt.Sprintf("MessageEntityCustomEmoji|%d", id),
			f:      entity.CustomEmoji(id),
			method: func(b *entity.Builder, s string) { b.CustomEmoji(s, id) },
			style:  func(s string) styling.StyledTextOption { return styling.CustomEmoji(s, id) },
		}
	},
	func(t *rapid.T) fmtSpec {
		c := rapid.Bool().Draw(t, "collapsed")
		return fmtSpec{
			key:    fmt.Sprintf("MessageEntityBlockquote|%v", c),
			f:      entity.Blockquote(c),
			method: func(b *entity.Builder, s string) { b.Blockquote(s, c) },
			style:  func(s string) styling.StyledTextOption { return styling.Blockquote(s, c) },
		}
	},
	func(t *rapid.T) fmtSpec {
		bits := rapid.IntRange(0, 63).Draw(t, "dateFlags")
		date := rapid.SampledFrom([]int{0, 1647531900}).Draw(t, "date")
		fl := func(i int) bool { return bits>>i&1 == 1 }
		return fmtSpec{
			key: fmt.Sprintf("MessageEntityFormattedDate|%v %v %v %v %v %v %d", fl(0), fl(1), fl(2), fl(3), fl(4), fl(5), date),
			f:   entity.FormattedDate(fl(0), fl(1), fl(2), fl(3), fl(4), fl(5), date),
			method: func(b *entity.Builder, s string) {
				b.FormattedDate(s, fl(0), fl(1), fl(2), fl(3), fl(4), fl(5), date)
			},
			style: func(s string) styling.StyledTextOption {
				return styling.FormattedDate(s, fl(0), fl(1), fl(2), fl(3), fl(4), fl(5), date)
			},
		}
	},
	func(t *rapid.T) fmtSpec {
		old := rapid.SampledFrom([]string{"", "old", "\U0001F600 "}).Draw(t, "oldText")
		return fmtSpec{
			key:    "MessageEntityDiffReplace|" + old,
			f:      entity.DiffReplace(old),
			method: func(b *entity.Builder, s string) { b.DiffReplace(s, old) },
			style:  func(s string) styling.StyledTextOption { return styling.DiffReplace(s, old) },
		}
	},
}

// genFmt draws a formatter; noPreCode avoids the two kinds ShrinkPreCode
// may merge (indices 8 = Code, 17 = Pre).
func genFmt(t *rapid.T, noPreCode bool) fmtSpec {
	i := rapid.IntRange(0, len(kindGens)-1).Draw(t, "kind")
	if noPreCode && (i == 8 || i == 17) {
		i = 6 // Bold; construction, not rejection
	}
	return kindGens[i](t)
}

// entKey renders type and payload of a produced entity in the format of
// fmtSpec.key (offset and length are compared separately).
func entKey(e tg.MessageEntityClass) string {
	name := reflect.TypeOf(e).Elem().Name()
	switch v := e.(type) {
	case *tg.MessageEntityPre:
		return name + "|" + v.Language
	case *tg.MessageEntityTextURL:
		return name + "|" + v.URL
	case *tg.InputMessageEntityMentionName:
		if u, ok := v.UserID.(*tg.InputUser); ok {
			return fmt.Sprintf("%s|%d/%d", name, u.UserID, u.AccessHash)
		}
		return fmt.Sprintf("%s|%T", name, v.UserID)
	case *tg.MessageEntityMentionName:
		return fmt.Sprintf("%s|%d", name, v.UserID)
	case *tg.MessageEntityCustomEmoji:
		return fmt.Sprintf("%s|%d", name, v.DocumentID)
	case *tg.MessageEntityBlockquote:
		return fmt.Sprintf("%s|%v", name, v.Collapsed)
	case *tg.MessageEntityFormattedDate:
		return fmt.Sprintf("%s|%v %v %v %v %v %v %d", name, v.Relative, v.ShortTime, v.LongTime, v.ShortDate, v.LongDate, v.DayOfWeek, v.Date)
	case *tg.MessageEntityDiffReplace:
		return name + "|" + v.OldText
	}
	return name + "|"
}

func dumpEnts(ents []tg.MessageEntityClass) string {
	var sb strings.Builder
	sb.WriteByte('[')
	for i, e := range ents {
		if i > 0 {
			sb.WriteByte(' ')
		}
		fmt.Fprintf(&sb, "%s(%d,%d)", strings.TrimPrefix(strings.TrimPrefix(entKey(e), "Input"), "MessageEntity"), e.GetOffset(), e.GetLength())
	}
	sb.WriteByte(']')
	return sb.String()
}
