package c_text

import (
	"fmt"
	"strings"
	"testing"

	"github.com/gotd/td/telegram/message/entity"
	"github.com/gotd/td/tg"
	"pgregory.net/rapid"

	"verifharness/pbt"
	"verifharness/pbt/ref"
)

// C35: message entity offsets and lengths are correct UTF-16 ranges.
//
// Oracle (from the property text): the completed text is the concatenation of
// the written pieces, shortened by trailing White_Space only, and only inside
// the last formatted piece when that piece ends the message; every entity
// equals the UTF-16 range (reference: unicode/utf16 over the final text) of the
// piece it formatted, clipped to the final text; offset >= 0, length >= 0,
// offset+length <= UTF-16 length of the text. An entity whose whole piece was
// trimmed away may be absent or empty anywhere inside the text.

func TestC35(t *testing.T) {
	st := pbt.NewStats("TestC35")
	defer st.Flush()
	rapid.Check(t, func(t *rapid.T) {
		obs := runBuilderCase(t, builderOpts{property: "C35", st: st})
		var key strings.Builder
		nontrivial := false
		classSet := map[string]bool{}
		var order []string
		for _, c := range obs {
			if viol, sig := checkRanges(c); viol != "" {
				t.Fatalf("C35 violated [signature %s]\n ops:   %s\n text:  %q (UTF-16 length %d)\n got:   %s\n cause: %s",
					sig, c.m.desc.String(), c.msg, ref.UTF16Len(c.msg), dumpEnts(c.ents), viol)
			}
			cl, nt := c.m.rangeClasses()
			nontrivial = nontrivial || nt
			for _, k := range cl {
				if !classSet[k] {
					classSet[k] = true
					order = append(order, k)
				}
			}
			key.WriteString(c.m.desc.String())
			key.WriteString("C;")
		}
		st.Case(key.String(), nontrivial, key.String(), order...)
	})
}

// Witnesses of confirmed defects: plain tests that fail on the pinned tree.

func c35NestedWitness() (string, []tg.MessageEntityClass) {
	var b entity.Builder
	outer := b.Token()
	b.Format("a ", entity.Italic()) // inner piece ends with a space
	outer.Apply(&b, entity.Bold())  // outer piece = same text, applied last
	return b.Complete()
}

func c35NestedViolation() string {
	msg, ents := c35NestedWitness()
	total := ref.UTF16Len(msg)
	for _, e := range ents {
		if e.GetOffset() < 0 || e.GetLength() < 0 || e.GetOffset()+e.GetLength() > total {
			return fmt.Sprintf("Token();Format(\"a \",Italic);Apply(Bold);Complete -> text %q (UTF-16 length %d), entities %s: %s(%d,%d) lies outside the text",
				msg, total, dumpEnts(ents), e.TypeName(), e.GetOffset(), e.GetLength())
		}
	}
	return ""
}

func TestC35Regression_NestedTrailingSpace(t *testing.T) {
	if v := c35NestedViolation(); v != "" {
		t.Fatalf("C35 [signature %s]: %s", sigNested, v)
	}
}

func c35ShrinkWitness() (string, []tg.MessageEntityClass) {
	var b entity.Builder
	b.Format("abc", entity.Italic())
	b.Format("d ", entity.Bold())
	b.ShrinkPreCode() // no Pre/Code entity present: nothing to merge
	return b.Complete()
}

func c35ShrinkViolation() string {
	msg, ents := c35ShrinkWitness()
	ok := msg == "abcd" && len(ents) == 2
	if ok {
		for _, e := range ents {
			switch e.(type) {
			case *tg.MessageEntityItalic:
				ok = ok && e.GetOffset() == 0 && e.GetLength() == 3
			case *tg.MessageEntityBold:
				ok = ok && e.GetOffset() == 3 && e.GetLength() == 1
			default:
				ok = false
			}
		}
	}
	if ok {
		return ""
	}
	return fmt.Sprintf("Format(\"abc\",Italic);Format(\"d \",Bold);ShrinkPreCode;Complete -> text %q entities %s, want \"abcd\" [Italic(0,3) Bold(3,1)]", msg, dumpEnts(ents))
}

func TestC35Regression_ShrinkPreCodeReorders(t *testing.T) {
	if v := c35ShrinkViolation(); v != "" {
		t.Fatalf("C35 [signature %s]: %s", sigShrink, v)
	}
}

// TestC35Known replays the witnesses of listed findings and reports them.
func TestC35Known(t *testing.T) {
	if pbt.Known("C35", sigNested) {
		if v := c35NestedViolation(); v != "" {
			pbt.ReportKnown("C35", sigNested, v)
		}
	}
	if pbt.Known("C35", sigShrink) {
		if v := c35ShrinkViolation(); v != "" {
			pbt.ReportKnown("C35", sigShrink, v)
		}
	}
}
