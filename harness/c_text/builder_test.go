package c_text

import (
	"fmt"
	"sort"
	"strings"

	"github.com/gotd/td/telegram/message/entity"
	"github.com/gotd/td/telegram/message/styling"
	"github.com/gotd/td/tg"
	"pgregory.net/rapid"

	"verifharness/pbt"
	"verifharness/pbt/ref"
)

// Generator of entity.Builder operation sequences together with a reference
// model (shared by C35 and C36).
//
// Domain (who can produce this): every operation is a public method of
// entity.Builder / entity.Token or a styling.* option, called the way
// telegram/message/text.go (styling.Perform + Complete), the HTML parser
// (Token ... Apply, Write) and the Markdown renderer (Write, WriteByte('\n'),
// WriteString) call them. Tokens are applied to the builder they came from and
// never after that builder was completed. WriteByte gets ASCII only and every
// text piece is a whole Unicode string (see invalidTokens for the one
// exception class and why it cannot join across pieces).

const (
	sigNested = "trim/nested-entity-not-shortened"
	sigShrink = "trim/shrinkprecode-reorders"
)

// mEnt is one entity the model expects: the UTF-8 byte range of the piece it
// formatted and the appendEntities call (group) that created it.
type mEnt struct {
	key   string
	s, e  int
	group int
}

type model struct {
	text   strings.Builder
	ents   []mEnt
	groups int
	// last entity-producing operation
	prodGroup int // -1: none
	prodStart int
	// what happened after it
	wroteAfter bool // non-empty text was appended (piece no longer reaches the end)
	opsAfter   bool // some operation (possibly writing nothing) came after it
	shrunk     bool // ShrinkPreCode was called
	desc       strings.Builder
	classes    map[string]bool
}

func newModel() *model {
	return &model{prodGroup: -1, classes: map[string]bool{}}
}

func (m *model) write(s string) {
	m.text.WriteString(s)
	if m.prodGroup >= 0 {
		m.opsAfter = true
		if s != "" {
			m.wroteAfter = true
		}
	}
}

// produce records entities created by one Format/Apply call over [s, len).
func (m *model) produce(start int, keys []string) {
	if len(keys) == 0 {
		return
	}
	g := m.groups
	m.groups++
	for _, k := range keys {
		m.ents = append(m.ents, mEnt{key: k, s: start, e: m.text.Len(), group: g})
	}
	m.prodGroup, m.prodStart = g, start
	m.wroteAfter, m.opsAfter = false, false
}

type liveToken struct {
	tok entity.Token
	pos int
}

// completed is one Complete() observation with the model that led to it.
type completed struct {
	m    *model
	msg  string
	ents []tg.MessageEntityClass
}

type builderOpts struct {
	property string // for pbt.Known
	st       *pbt.Stats
}

// expectation derived from the model at Complete time.
type expectation struct {
	full    string
	trimLen int  // byte length of the text if the last piece is trimmed
	must    bool // trimming is required (last op produced the entities)
	may     bool // trimming is allowed (only no-op writes after the last producer)
}

func (m *model) expect() expectation {
	c := m.text.String()
	ex := expectation{full: c, trimLen: len(c)}
	if m.prodGroup >= 0 && !m.wroteAfter {
		ex.trimLen = m.prodStart + ref.TrimRightSpaceLen(c[m.prodStart:])
		ex.must = !m.opsAfter
		ex.may = true
	}
	return ex
}

// nestedTrimShape: trimming will (or may) happen and an entity that does not
// belong to the last producing call reaches into the trimmed part.
func (m *model) nestedTrimShape() bool {
	ex := m.expect()
	if !ex.may || ex.trimLen == len(ex.full) {
		return false
	}
	for _, e := range m.ents {
		if e.group != m.prodGroup && e.e > ex.trimLen {
			return true
		}
	}
	return false
}

func genFmts(t *rapid.T, lo, hi int, noPreCode bool) []fmtSpec {
	n := rapid.IntRange(lo, hi).Draw(t, "nfmt")
	out := make([]fmtSpec, n)
	for i := range out {
		out[i] = genFmt(t, noPreCode)
	}
	return out
}

func keysOf(fs []fmtSpec) []string {
	out := make([]string, len(fs))
	for i, f := range fs {
		out[i] = f.key
	}
	return out
}

func formattersOf(fs []fmtSpec) []entity.Formatter {
	out := make([]entity.Formatter, len(fs))
	for i, f := range fs {
		out[i] = f.f
	}
	return out
}

func kindNames(fs []fmtSpec) string {
	var parts []string
	for _, f := range fs {
		parts = append(parts, strings.TrimPrefix(strings.TrimPrefix(f.key, "Input"), "MessageEntity"))
	}
	return strings.Join(parts, ",")
}

// runBuilderCase draws and executes one operation sequence against a real
// entity.Builder and the model; it returns every Complete() observation.
func runBuilderCase(t *rapid.T, o builderOpts) []completed {
	var (
		b      entity.Builder
		m      = newModel()
		tokens []liveToken
		out    []completed
	)
	invalid := rapid.IntRange(0, 19).Draw(t, "invalidUTF8") == 0
	// ShrinkPreCode is a public Builder operation that the HTML and Markdown
	// front-ends call on every parse. Without Pre/Code entities there is
	// nothing to merge, so the model treats it as the identity.
	shrinkCase := rapid.IntRange(0, 5).Draw(t, "shrinkCase") == 0
	if shrinkCase && pbt.Known(o.property, sigShrink) {
		shrinkCase = false
		o.st.Excluded(sigShrink)
	}
	carry := map[string]bool{}
	if invalid {
		carry["invalid-utf8"] = true
	}

	text := func(label string, minTok int) string { return genText(t, label, minTok, invalid) }

	complete := func() {
		if m.nestedTrimShape() && pbt.Known(o.property, sigNested) {
			// Exclusion by construction: a visible character after the last
			// piece means nothing is trimmed.
			b.Plain(".")
			m.write(".")
			fmt.Fprintf(&m.desc, "P(%q);", ".")
			o.st.Excluded(sigNested)
		}
		for k := range carry {
			m.classes[k] = true
		}
		msg, ents := b.Complete()
		out = append(out, completed{m: m, msg: msg, ents: ents})
		m = newModel()
		tokens = nil
	}

	nops := rapid.IntRange(1, 12).Draw(t, "nops")
	for i := 0; i < nops; i++ {
		op := rapid.SampledFrom([]string{
			"plain", "plain", "format", "format", "format", "method", "write", "open", "open",
			"apply", "apply", "apply", "nested", "nested", "styling", "reuse", "shrink",
		}).Draw(t, "op")
		switch op {
		case "plain":
			s := text("s", 0)
			b.Plain(s)
			m.write(s)
			fmt.Fprintf(&m.desc, "P(%q);", s)
		case "format":
			s := text("s", 0)
			fs := genFmts(t, 0, 3, shrinkCase)
			start := m.text.Len()
			b.Format(s, formattersOf(fs)...)
			if s == "" {
				// Format("") adds neither text nor entities.
				m.write("")
			} else {
				m.write(s)
				m.produce(start, keysOf(fs))
				if len(fs) > 1 {
					m.classes["multi-formatter"] = true
				}
			}
			fmt.Fprintf(&m.desc, "F(%q,%s);", s, kindNames(fs))
		case "method":
			s := text("s", 1)
			f := genFmt(t, shrinkCase)
			start := m.text.Len()
			f.method(&b, s)
			m.write(s)
			if s != "" {
				m.produce(start, []string{f.key})
			}
			fmt.Fprintf(&m.desc, "M(%q,%s);", s, kindNames([]fmtSpec{f}))
		case "write":
			switch rapid.IntRange(0, 3).Draw(t, "writer") {
			case 0:
				s := text("s", 0)
				_, _ = b.WriteString(s)
				m.write(s)
				fmt.Fprintf(&m.desc, "WS(%q);", s)
			case 1:
				s := text("s", 0)
				_, _ = b.Write([]byte(s))
				m.write(s)
				fmt.Fprintf(&m.desc, "W(%q);", s)
			case 2:
				// valid scalar values only (what a caller holding a rune has)
				r := []rune(rapid.SampledFrom(validTokens).Draw(t, "rune"))[0]
				_, _ = b.WriteRune(r)
				m.write(string(r))
				fmt.Fprintf(&m.desc, "WR(%q);", r)
			case 3:
				c := rapid.SampledFrom([]byte{'a', ' ', '\n', '\t', '.', '0'}).Draw(t, "byte")
				_ = b.WriteByte(c)
				m.write(string(rune(c)))
				fmt.Fprintf(&m.desc, "WB(%q);", c)
			}
		case "open":
			if len(tokens) < 4 {
				tokens = append(tokens, liveToken{tok: b.Token(), pos: m.text.Len()})
				fmt.Fprintf(&m.desc, "T+;")
			}
		case "apply":
			if len(tokens) == 0 {
				continue
			}
			// any order: LIFO is what the HTML parser does, other orders
			// give overlapping ranges
			idx := rapid.IntRange(0, len(tokens)-1).Draw(t, "tokIdx")
			if rapid.Bool().Draw(t, "lifo") {
				idx = len(tokens) - 1
			}
			tk := tokens[idx]
			if rapid.IntRange(0, 3).Draw(t, "keepTok") != 0 {
				tokens = append(tokens[:idx:idx], tokens[idx+1:]...)
			}
			fs := genFmts(t, 1, 2, shrinkCase)
			tk.tok.Apply(&b, formattersOf(fs)...)
			m.produce(tk.pos, keysOf(fs))
			m.classes["token"] = true
			fmt.Fprintf(&m.desc, "A@%d(%s);", tk.pos, kindNames(fs))
		case "nested":
			// <outer> [lead] <inner>s</inner> [trail] </outer>
			outer := b.Token()
			opos := m.text.Len()
			if rapid.Bool().Draw(t, "lead") {
				s := text("lead", 1)
				b.Plain(s)
				m.write(s)
				fmt.Fprintf(&m.desc, "P(%q);", s)
			}
			s := text("inner", 1)
			fi := genFmt(t, shrinkCase)
			start := m.text.Len()
			b.Format(s, fi.f)
			m.write(s)
			m.produce(start, []string{fi.key})
			fmt.Fprintf(&m.desc, "F(%q,%s);", s, kindNames([]fmtSpec{fi}))
			if rapid.Bool().Draw(t, "trail") {
				s := text("trail", 1)
				_, _ = b.WriteString(s)
				m.write(s)
				fmt.Fprintf(&m.desc, "WS(%q);", s)
			}
			fo := genFmt(t, shrinkCase)
			outer.Apply(&b, fo.f)
			m.produce(opos, []string{fo.key})
			m.classes["token"] = true
			fmt.Fprintf(&m.desc, "A@%d(%s);", opos, kindNames([]fmtSpec{fo}))
		case "styling":
			n := rapid.IntRange(1, 4).Draw(t, "nstyle")
			var opts []styling.StyledTextOption
			type planned struct {
				s    string
				keys []string
			}
			var plan []planned
			for j := 0; j < n; j++ {
				s := text("s", 0)
				switch rapid.IntRange(0, 3).Draw(t, "styleKind") {
				case 0:
					opts = append(opts, styling.Plain(s))
					plan = append(plan, planned{s: s})
					fmt.Fprintf(&m.desc, "SP(%q);", s)
				case 1, 2:
					f := genFmt(t, shrinkCase)
					opts = append(opts, f.style(s))
					plan = append(plan, planned{s: s, keys: []string{f.key}})
					fmt.Fprintf(&m.desc, "S(%q,%s);", s, kindNames([]fmtSpec{f}))
				case 3:
					fs := genFmts(t, 1, 2, shrinkCase)
					opts = append(opts, styling.Custom(func(eb *entity.Builder) error {
						eb.Format(s, formattersOf(fs)...)
						return nil
					}))
					plan = append(plan, planned{s: s, keys: keysOf(fs)})
					fmt.Fprintf(&m.desc, "SC(%q,%s);", s, kindNames(fs))
				}
			}
			if err := styling.Perform(&b, opts...); err != nil {
				t.Fatalf("styling.Perform: %v", err)
			}
			for _, p := range plan {
				start := m.text.Len()
				m.write(p.s)
				if p.s != "" {
					m.produce(start, p.keys)
				}
			}
			m.classes["styling"] = true
		case "reuse":
			if i == 0 || rapid.IntRange(0, 2).Draw(t, "reuseNow") != 0 {
				continue
			}
			complete()
			carry["reuse"] = true
		case "shrink":
			if !shrinkCase {
				continue
			}
			b.ShrinkPreCode()
			m.shrunk = true
			m.classes["shrinkprecode"] = true
			fmt.Fprintf(&m.desc, "SH;")
		}
	}
	complete()
	return out
}

// ---------------------------------------------------------------------------
// C35 oracle
// ---------------------------------------------------------------------------

type rng struct{ off, n int }

// checkRanges compares one Complete() observation with the model. It returns
// "" when the property holds, otherwise a description and the signature of
// the shape.
func checkRanges(c completed) (viol, sig string) {
	m := c.m
	ex := m.expect()
	full := ex.full
	msg := c.msg

	// final text: the concatenation, possibly without trailing white space
	if !strings.HasPrefix(full, msg) {
		return fmt.Sprintf("text %q is not a prefix of the written pieces %q", msg, full), "text"
	}
	if !ref.AllWhiteSpace(full[len(msg):]) {
		return fmt.Sprintf("text %q drops non-white-space %q", msg, full[len(msg):]), "text"
	}
	switch {
	case ex.must && len(msg) != ex.trimLen:
		return fmt.Sprintf("last piece is formatted and ends the message: want text %q (white space of that piece trimmed), got %q", full[:ex.trimLen], msg), "text"
	case !ex.must && ex.may && len(msg) != ex.trimLen && len(msg) != len(full):
		return fmt.Sprintf("want text %q or %q, got %q", full, full[:ex.trimLen], msg), "text"
	case !ex.may && len(msg) != len(full):
		return fmt.Sprintf("no formatted piece ends the message, yet text %q was shortened to %q", full, msg), "text"
	}

	total := ref.UTF16Len(msg)
	type want struct {
		r        rng
		unclip   rng
		optional bool
		last     bool
		used     bool
	}
	byKey := map[string][]*want{}
	for _, e := range m.ents {
		s, en := min(e.s, len(msg)), min(e.e, len(msg))
		w := &want{
			r:        rng{ref.UTF16Offset(full, s), ref.UTF16Len(full[s:en])},
			unclip:   rng{ref.UTF16Offset(full, e.s), ref.UTF16Len(full[e.s:e.e])},
			optional: s == en,
			last:     e.group == m.prodGroup,
		}
		byKey[e.key] = append(byKey[e.key], w)
	}

	var problems []string
	explained := true // every problem is "entity kept its untrimmed range"
	note := func(isNested bool, format string, args ...any) {
		problems = append(problems, fmt.Sprintf(format, args...))
		if !isNested {
			explained = false
		}
	}

	var rest []tg.MessageEntityClass
	for _, a := range c.ents {
		k := entKey(a)
		got := rng{a.GetOffset(), a.GetLength()}
		hit := false
		for _, w := range byKey[k] {
			if !w.used && w.r == got {
				w.used, hit = true, true
				break
			}
		}
		if !hit {
			rest = append(rest, a)
		}
	}
	for _, a := range rest {
		k := entKey(a)
		got := rng{a.GetOffset(), a.GetLength()}
		hit := false
		// an entity whose piece was trimmed away entirely: any empty range in the text
		if got.n == 0 && got.off >= 0 && got.off <= total {
			for _, w := range byKey[k] {
				if !w.used && w.optional {
					w.used, hit = true, true
					break
				}
			}
		}
		if hit {
			continue
		}
		// classify
		nested := false
		for _, w := range byKey[k] {
			if !w.used && w.unclip == got && w.unclip != w.r {
				w.used, nested = true, true
				break
			}
		}
		where := ""
		if got.off < 0 || got.n < 0 || got.off+got.n > total {
			where = fmt.Sprintf(" (outside the text: UTF-16 length %d)", total)
		}
		if nested {
			note(true, "%s offset=%d length=%d%s still has the range it had before trailing white space was trimmed", k, got.off, got.n, where)
		} else {
			note(false, "%s offset=%d length=%d%s matches no formatted piece", k, got.off, got.n, where)
		}
	}
	keys := make([]string, 0, len(byKey))
	for k := range byKey {
		keys = append(keys, k)
	}
	sort.Strings(keys)
	for _, k := range keys {
		for _, w := range byKey[k] {
			if !w.used && !w.optional {
				note(false, "missing %s offset=%d length=%d", k, w.r.off, w.r.n)
			}
		}
	}
	if len(problems) == 0 {
		return "", ""
	}
	sig = "ranges"
	if explained && len(msg) < len(full) {
		sig = sigNested
		if m.shrunk {
			sig = sigShrink
		}
	} else if m.shrunk {
		sig = sigShrink
	}
	return strings.Join(problems, "; "), sig
}

// nontrivialRanges is C35's stated rule: a non-BMP rune before an entity, or
// trailing white space inside the last entity, or nesting/overlap.
func (m *model) rangeClasses() (classes []string, nontrivial bool) {
	full := m.text.String()
	ex := m.expect()
	astralBefore, overlap, adjacent := false, false, false
	for i, e := range m.ents {
		if hasAstral(full[:e.s]) {
			astralBefore = true
		}
		for _, f := range m.ents[:i] {
			if f.group == e.group {
				continue
			}
			if f.s < e.e && e.s < f.e {
				overlap = true
			}
			if f.e == e.s || e.e == f.s {
				adjacent = true
			}
		}
	}
	trimmed := ex.may && ex.trimLen < len(full)
	if astralBefore {
		classes = append(classes, "astral-before-entity")
	}
	if overlap {
		classes = append(classes, "nested-or-overlap")
	}
	if adjacent {
		classes = append(classes, "adjacent")
	}
	if trimmed {
		classes = append(classes, "trailing-ws-in-last-entity")
	}
	if len(m.ents) == 0 {
		classes = append(classes, "no-entities")
	}
	ks := make([]string, 0, len(m.classes))
	for k := range m.classes {
		ks = append(ks, k)
	}
	sort.Strings(ks)
	classes = append(classes, ks...)
	return classes, astralBefore || overlap || trimmed
}
