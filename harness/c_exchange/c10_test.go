package c_exchange

import (
	"context"
	"fmt"
	"net"
	"strings"
	"testing"
	"testing/synctest"
	"time"

	"github.com/gotd/td/exchange"
	"pgregory.net/rapid"

	"verifharness/pbt"
)

// C10: the client completes a key exchange only with a peer that holds a
// trusted private key and echoes nonces / hashes correctly; every strategy of
// the bounded adversary library makes Run fail. The same script without the
// mutation succeeds (guards against a vacuous "everything fails").
func TestC10(t *testing.T) {
	st := pbt.NewStats("TestC10")
	defer st.Flush()
	tk, ak := testKeys()
	inside := []string{"ga-just-inside-low", "ga-just-inside-high"}
	rapid.Check(t, func(t *rapid.T) {
		crnd, cseed := pbt.DrawStream(t, "clientRnd")
		srnd, sseed := pbt.DrawStream(t, "serverRnd")
		all := append(append([]string{"honest"}, pbt.Mutations...), inside...)
		mut := rapid.SampledFrom(all).Draw(t, "mutation")
		pos := rapid.IntRange(0, 4095).Draw(t, "pos")
		temp := rapid.Bool().Draw(t, "temp")
		applied := false
		outcome := ""
		rapid.SyncTest(t, func(t *rapid.T) {
			keys := []exchange.PublicKey{{RSA: &tk.PublicKey}}
			run := func(m string, replay [][]byte) (clientResult, *pbt.ExServer) {
				c1, c2 := net.Pipe()
				defer c1.Close()
				defer c2.Close()
				srv := &pbt.ExServer{Conn: c2, Key: tk, Rnd: srnd, Pos: pos, Replay: replay}
				switch m {
				case "honest":
				case "own-key-claim-trusted":
					srv.Mut = m
					srv.Key = ak
					srv.ClaimFingerprints = []int64{pbt.Fingerprint(&tk.PublicKey)}
				case "untrusted-fingerprint":
					srv.Key = ak // announces its own (untrusted) fingerprint only
					srv.ClaimFingerprints = []int64{pbt.Fingerprint(&ak.PublicKey)}
				default:
					srv.Mut = m
				}
				done := make(chan error, 1)
				go func() { done <- srv.Run() }()
				ctx, cancel := context.WithTimeout(context.Background(), 10*time.Minute)
				defer cancel()
				res := <-runClient(ctx, c1, crnd, 2, time.Minute, temp, 3600, keys, time.Now())
				_ = c1.Close()
				_ = c2.Close()
				<-done
				synctest.Wait()
				return res, srv
			}
			var replay [][]byte
			if mut == "replay-previous-run" {
				r0, s0 := run("honest", nil)
				if r0.err != nil {
					t.Fatalf("honest run before the replay failed: %v", r0.err)
				}
				replay = s0.Sent
			}
			res, srv := run(mut, replay)
			applied = srv.Applied || mut == "untrusted-fingerprint"
			if res.err != nil && (strings.HasPrefix(mut, "prime-") || strings.HasPrefix(mut, "g-")) {
				// an adversary may present the same unsafe parameters again (e.g. after the
				// client reconnects): the second attempt in the same process must fail too
				res2, srv2 := run(mut, replay)
				if res2.err == nil {
					t.Fatalf("C10 violated: exchange completed against adversary %q on the SECOND presentation of the same parameters (first attempt was refused): client key %x..", mut, res2.res.AuthKey.Value[:8])
				}
				_ = srv2
			}
			switch {
			case mut == "honest":
				if res.err != nil {
					t.Fatalf("honest scripted server: client failed: %v", res.err)
				}
				if res.res.AuthKey.Value != srv.AuthKey {
					t.Fatalf("honest run: keys differ")
				}
				outcome = "ok"
			case mut == inside[0] || mut == inside[1]:
				// g_a strictly inside both ranges must pass the parameter checks; the
				// exchange still fails later because this server does not know log(g_a)
				if res.err == nil {
					t.Fatalf("%s: exchange succeeded with a server that cannot know the key", mut)
				}
				if strings.Contains(res.err.Error(), "invalid params") || strings.Contains(res.err.Error(), "check DH") {
					t.Fatalf("%s: g_a inside the safe range was refused: %v", mut, res.err)
				}
				outcome = "accepted-params"
			default:
				if !applied {
					t.Fatalf("mutation %s was not applied (harness bug)", mut)
				}
				if res.err == nil {
					t.Fatalf("C10 violated: exchange completed against adversary %q (pos %d): client key %x..", mut, pos, res.res.AuthKey.Value[:8])
				}
				outcome = "rejected"
			}
		})
		key := fmt.Sprintf("c=%d s=%d mut=%s pos=%d temp=%v", cseed, sseed, mut, pos, temp)
		st.Case(key, mut != "honest", key, mut, outcome)
	})
}
