package c_exchange

import (
	"context"
	"crypto/rsa"
	"net"
	"sync"
	"time"

	"github.com/gotd/td/exchange"
	"github.com/gotd/td/transport"

	"verifharness/pbt"
)

var (
	keysOnce sync.Once
	trusted  *rsa.PrivateKey
	attacker *rsa.PrivateKey
)

func testKeys() (*rsa.PrivateKey, *rsa.PrivateKey) {
	keysOnce.Do(func() {
		trusted = pbt.ParseKey(pbt.TrustedKeyPEM)
		attacker = pbt.ParseKey(pbt.AttackerKeyPEM)
	})
	return trusted, attacker
}

// chunkConn splits every Write at drawn points (read/write interleavings over
// the in-memory transport).
type chunkConn struct {
	net.Conn
	cuts []int
	i    int
}

func (c *chunkConn) Write(p []byte) (int, error) {
	total := 0
	for len(p) > 0 {
		n := len(p)
		if len(c.cuts) > 0 {
			k := c.cuts[c.i%len(c.cuts)]
			c.i++
			if k > 0 && k < n {
				n = k
			}
		}
		w, err := c.Conn.Write(p[:n])
		total += w
		if err != nil {
			return total, err
		}
		p = p[n:]
	}
	return total, nil
}

type clientResult struct {
	res exchange.ClientExchangeResult
	err error
	at  time.Duration
}

// runClient starts the real client exchange over the client end of a pipe
// using the intermediate transport.
func runClient(ctx context.Context, conn net.Conn, rnd *pbt.Stream, dc int, timeout time.Duration, temp bool, expiresIn int, keys []exchange.PublicKey, t0 time.Time) chan clientResult {
	out := make(chan clientResult, 1)
	go func() {
		tc, err := transport.Intermediate.Handshake(conn)
		if err != nil {
			out <- clientResult{err: err}
			return
		}
		ex := exchange.NewExchanger(tc, dc).WithRand(rnd).WithTimeout(timeout)
		if temp {
			ex = ex.WithTempMode(expiresIn)
		}
		r, err := ex.Client(keys).Run(ctx)
		out <- clientResult{res: r, err: err, at: time.Since(t0)}
	}()
	return out
}

// oneShotListener hands out one prepared connection.
type oneShotListener struct {
	conn net.Conn
	used bool
}

func (l *oneShotListener) Accept() (net.Conn, error) {
	if l.used {
		return nil, net.ErrClosed
	}
	l.used = true
	return l.conn, nil
}
func (l *oneShotListener) Close() error   { return nil }
func (l *oneShotListener) Addr() net.Addr { return &net.TCPAddr{} }
