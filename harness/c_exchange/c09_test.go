package c_exchange

import (
	"context"
	"fmt"
	"math/big"
	"net"
	"testing"
	"testing/synctest"
	"time"

	"github.com/gotd/td/exchange"
	"github.com/gotd/td/transport"
	"pgregory.net/rapid"

	"verifharness/pbt"
	"verifharness/pbt/ref"
)

// C09: key exchange with an honest server yields the same key, key id and salt
// on both sides. Two honest servers are used: the in-tree ServerExchange (the
// property's statement) and the harness reference server (so that both ends
// being wrong in the same way cannot pass).
func TestC09(t *testing.T) {
	st := pbt.NewStats("TestC09")
	defer st.Flush()
	rapid.Check(t, func(t *rapid.T) {
		crnd, cseed := pbt.DrawStream(t, "clientRnd")
		srnd, sseed := pbt.DrawStream(t, "serverRnd")
		temp := rapid.Bool().Draw(t, "temp")
		expiresIn := rapid.SampledFrom([]int{60, 3600, 86400}).Draw(t, "expiresIn")
		dc := rapid.SampledFrom([]int{1, 2, 3, 4, 5, 10001, 10002, -2, -10004}).Draw(t, "dc")
		server := rapid.SampledFrom([]string{"in-tree", "in-tree", "in-tree", "reference", "reference", "reference-leading-zero-key"}).Draw(t, "server")
		proto := rapid.IntRange(0, 3).Draw(t, "proto")
		if server != "in-tree" {
			proto = 1 // the reference server speaks the intermediate transport
		}
		ncuts := rapid.IntRange(0, 4).Draw(t, "ncuts")
		cuts := make([]int, ncuts)
		for i := range cuts {
			cuts[i] = rapid.SampledFrom([]int{1, 3, 4, 7, 16, 100, 255}).Draw(t, "cut")
		}
		tk, _ := testKeys()
		rapid.SyncTest(t, func(t *rapid.T) {
			t0 := time.Now()
			c1, c2 := net.Pipe()
			defer c1.Close()
			defer c2.Close()
			cc := &chunkConn{Conn: c1, cuts: cuts}
			sc := &chunkConn{Conn: c2, cuts: cuts}
			keys := []exchange.PublicKey{{RSA: &tk.PublicKey}}
			ctx := context.Background()
			protos := []transport.Protocol{transport.Abridged, transport.Intermediate, transport.PaddedIntermediate, transport.Full}
			var cres clientResult
			var forceA *big.Int
			if server == "reference-leading-zero-key" {
				// A key whose first byte is zero (1 in 256 by chance) is forced: a dry run
				// with the same client stream reveals the client's g_b (the client draws its
				// secret b before it uses the server's g_a), then the server secret a is
				// searched so that g_b^a mod p < 2^2040, and the real run uses that a.
				d1, d2 := net.Pipe()
				dry := &pbt.ExServer{Conn: d2, Key: tk, Rnd: pbt.NewStream(sseed)}
				ddone := make(chan error, 1)
				go func() { ddone <- dry.Run() }()
				dres := <-runClient(ctx, d1, pbt.NewStream(cseed), dc, time.Minute, temp, expiresIn, keys, t0)
				if err := <-ddone; err != nil || dres.err != nil {
					t.Fatalf("dry run failed: server=%v client=%v", err, dres.err)
				}
				_ = d1.Close()
				_ = d2.Close()
				limit := new(big.Int).Lsh(big.NewInt(1), 2040)
				a := new(big.Int).SetBytes(pbt.NewStream(sseed ^ 0x5eed).Bytes(256))
				for i := 0; ; i++ {
					if new(big.Int).Exp(dry.GB, a, pbt.TelegramPrime).Cmp(limit) < 0 {
						break
					}
					a.Add(a, big.NewInt(1))
					if i > 20000 {
						t.Fatalf("no server secret with a leading-zero key found")
					}
				}
				forceA = a
				crnd, srnd = pbt.NewStream(cseed), pbt.NewStream(sseed)
			}
			if server != "in-tree" {
				srv := &pbt.ExServer{Conn: sc, Key: tk, Rnd: srnd, ForceA: forceA}
				done := make(chan error, 1)
				go func() { done <- srv.Run() }()
				cres = <-runClient(ctx, cc, crnd, dc, time.Minute, temp, expiresIn, keys, t0)
				if err := <-done; err != nil {
					t.Fatalf("reference server: %v (client: %v)", err, cres.err)
				}
				if cres.err != nil {
					t.Fatalf("client failed against the honest reference server: %v", cres.err)
				}
				if cres.res.AuthKey.Value != srv.AuthKey {
					t.Fatalf("client key %x.. differs from the reference server's g_b^a key %s..", cres.res.AuthKey.Value[:8], pbt.HexKey(srv.AuthKey))
				}
				if cres.res.ServerSalt != srv.ServerSalt {
					t.Fatalf("client salt %#x, reference new_nonce[0:8] xor server_nonce[0:8] = %#x", cres.res.ServerSalt, srv.ServerSalt)
				}
				if forceA != nil && srv.AuthKey[0] != 0 {
					t.Fatalf("harness: forced key does not start with a zero byte (client drew a different b in the real run)")
				}
				if srv.TempMode != temp || (temp && int(srv.ExpiresIn) != expiresIn) || int(srv.DC) != dc {
					t.Fatalf("inner data: temp=%v expires=%d dc=%d, want %v %d %d", srv.TempMode, srv.ExpiresIn, srv.DC, temp, expiresIn, dc)
				}
			} else {
				// both ends use gotd's codec of the drawn protocol over the chunking pipe
				type sres struct {
					r   exchange.ServerExchangeResult
					err error
				}
				sdone := make(chan sres, 1)
				go func() {
					// the in-tree listener reads the client's transport header and picks the codec
					conn, err := transport.Listen(&oneShotListener{conn: sc}).Accept()
					if err != nil {
						sdone <- sres{err: err}
						return
					}
					r, err := exchange.NewExchanger(conn, dc).WithRand(srnd).Server(exchange.PrivateKey{RSA: tk}).Run(ctx)
					sdone <- sres{r, err}
				}()
				cdone := make(chan clientResult, 1)
				go func() {
					tc, err := protos[proto].Handshake(cc)
					if err != nil {
						cdone <- clientResult{err: err}
						return
					}
					ex := exchange.NewExchanger(tc, dc).WithRand(crnd).WithTimeout(time.Minute)
					if temp {
						ex = ex.WithTempMode(expiresIn)
					}
					r, err := ex.Client(keys).Run(ctx)
					cdone <- clientResult{res: r, err: err, at: time.Since(t0)}
				}()
				cres = <-cdone
				s := <-sdone
				if cres.err != nil || s.err != nil {
					t.Fatalf("honest exchange failed: client=%v server=%v", cres.err, s.err)
				}
				if cres.res.AuthKey.Value != s.r.Key.Value || cres.res.AuthKey.ID != s.r.Key.ID {
					t.Fatalf("keys differ: client %x.. server %x..", cres.res.AuthKey.Value[:8], s.r.Key.Value[:8])
				}
				if cres.res.ServerSalt != s.r.ServerSalt {
					t.Fatalf("salts differ: client %#x server %#x", cres.res.ServerSalt, s.r.ServerSalt)
				}
			}
			var zero [256]byte
			if cres.res.AuthKey.Value == zero {
				t.Fatalf("client returned a zero key on success")
			}
			if id := ref.AuthKeyID(cres.res.AuthKey.Value); id != cres.res.AuthKey.ID {
				t.Fatalf("key id %x, reference SHA1-derived id %x", cres.res.AuthKey.ID, id)
			}
			wantExp := int64(0)
			if temp {
				wantExp = time.Now().Unix() + int64(expiresIn)
			}
			if cres.res.ExpiresAt != wantExp {
				t.Fatalf("ExpiresAt %d, want %d (temp=%v)", cres.res.ExpiresAt, wantExp, temp)
			}
			synctest.Wait()
		})
		key := fmt.Sprintf("c=%d s=%d temp=%v exp=%d dc=%d server=%s proto=%d cuts=%v", cseed, sseed, temp, expiresIn, dc, server, proto, cuts)
		st.Case(key, true, key, server, fmt.Sprintf("temp=%v", temp), fmt.Sprintf("proto=%d", proto))
	})
}
