package c_exchange

import (
	"context"
	"fmt"
	"net"
	"testing"
	"testing/synctest"
	"time"

	"github.com/gotd/td/exchange"
	"pgregory.net/rapid"

	"verifharness/pbt"
)

// C12 (exchange level): when the peer goes silent at any step, Run fails no
// later than the exchange timeout after that step started, even without a
// caller deadline.
func TestC12(t *testing.T) {
	st := pbt.NewStats("TestC12")
	defer st.Flush()
	tk, _ := testKeys()
	rapid.Check(t, func(t *rapid.T) {
		crnd, cseed := pbt.DrawStream(t, "clientRnd")
		srnd, sseed := pbt.DrawStream(t, "serverRnd")
		stall := rapid.IntRange(1, 3).Draw(t, "stallAt")
		timeout := time.Duration(rapid.SampledFrom([]int{1, 15, 60}).Draw(t, "timeoutSec")) * time.Second
		deadline := rapid.SampledFrom([]string{"none", "none", "far"}).Draw(t, "callerDeadline")
		temp := rapid.Bool().Draw(t, "temp")
		// a stalled peer may still emit stale transport errors (-404) for an earlier
		// attempt before it goes silent; the client skips them at the first step
		stale := 0
		if stall == 1 {
			stale = rapid.SampledFrom([]int{0, 0, 1, 3}).Draw(t, "stale404")
		}
		rapid.SyncTest(t, func(t *rapid.T) {
			c1, c2 := net.Pipe()
			defer c1.Close()
			defer c2.Close()
			srv := &pbt.ExServer{Conn: c2, Key: tk, Rnd: srnd, StallAt: stall, Stale404: stale}
			go func() { _ = srv.Run() }()
			ctx := context.Background()
			if deadline == "far" {
				var cancel context.CancelFunc
				ctx, cancel = context.WithTimeout(ctx, 100*timeout)
				defer cancel()
			}
			t0 := time.Now()
			resCh := runClient(ctx, c1, crnd, 2, timeout, temp, 3600, []exchange.PublicKey{{RSA: &tk.PublicKey}}, t0)
			synctest.Wait() // the client has sent the request for the stalled step and waits
			if srv.ReqAt[stall].IsZero() {
				t.Fatalf("server did not receive the request for step %d", stall)
			}
			started := srv.ReqAt[stall]
			// sleep exactly until the bound and require the result to be there
			time.Sleep(started.Add(timeout).Sub(time.Now()) + time.Millisecond)
			synctest.Wait()
			select {
			case r := <-resCh:
				if r.err == nil {
					t.Fatalf("exchange succeeded although the server stalled at step %d", stall)
				}
			default:
				// unblock the client so that the bubble can end, then fail
				_ = c1.Close()
				_ = c2.Close()
				synctest.Wait()
				t.Fatalf("C12 violated: server silent at step %d (request received at +%v); %v after that the client is still waiting (exchange timeout %v, caller deadline %s)",
					stall, started.Sub(t0), time.Since(started), timeout, deadline)
			}
		})
		key := fmt.Sprintf("c=%d s=%d stall=%d stale404=%d timeout=%v deadline=%s temp=%v", cseed, sseed, stall, stale, timeout, deadline, temp)
		st.Case(key, stall >= 2 || deadline == "none", key, fmt.Sprintf("stall=%d", stall), "deadline="+deadline, fmt.Sprintf("stale404=%d", stale))
	})
}
