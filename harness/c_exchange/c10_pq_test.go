package c_exchange

import (
	"fmt"
	"math/big"
	"testing"
	"time"

	"github.com/gotd/td/crypto"
	"pgregory.net/rapid"

	"verifharness/pbt"
	"verifharness/pbt/ref"
)

// C10 (pq sub-check): the pq value comes from the unauthenticated server. For
// values that are not a product of two primes the factorization must fail
// cleanly - not panic, not spin. A spin cannot be observed from inside a
// synctest bubble (the goroutine is never blocked), so this sub-check runs on
// the real clock with a very generous bound: a correct implementation answers
// in microseconds, the bound is 20 s.
func TestC10PQ(t *testing.T) {
	st := pbt.NewStats("TestC10PQ")
	defer st.Flush()
	primes := ref.SievePrimes(1 << 16)
	rapid.Check(t, func(t *rapid.T) {
		class := rapid.SampledFrom([]string{"zero", "one", "two", "three", "small-prime", "big-prime", "mersenne61", "semiprime"}).Draw(t, "class")
		var pq *big.Int
		wantErr := true
		switch class {
		case "zero":
			pq = big.NewInt(0)
		case "one":
			pq = big.NewInt(1)
		case "two":
			pq = big.NewInt(2)
		case "three":
			pq = big.NewInt(3)
		case "small-prime":
			pq = big.NewInt(int64(primes[rapid.IntRange(0, len(primes)-1).Draw(t, "i")]))
		case "big-prime":
			// next prime after a drawn 62-bit value (math/big is exact below 2^64)
			v := new(big.Int).SetUint64(rapid.Uint64Range(1<<40, 1<<62).Draw(t, "v") | 1)
			for !v.ProbablyPrime(0) {
				v.Add(v, big.NewInt(2))
			}
			pq = v
		case "mersenne61":
			pq = new(big.Int).SetUint64(2305843009213693951)
		case "semiprime":
			a := primes[rapid.IntRange(0, len(primes)-1).Draw(t, "a")]
			b := primes[rapid.IntRange(0, len(primes)-1).Draw(t, "b")]
			pq = big.NewInt(int64(a) * int64(b))
			wantErr = false
		}
		rnd, _ := pbt.DrawStream(t, "rnd")
		type out struct {
			p, q  *big.Int
			err   error
			panic any
		}
		ch := make(chan out, 1)
		go func() {
			defer func() {
				if r := recover(); r != nil {
					ch <- out{panic: r}
				}
			}()
			p, q, err := crypto.DecomposePQ(pq, rnd)
			ch <- out{p: p, q: q, err: err}
		}()
		select {
		case o := <-ch:
			if o.panic != nil {
				t.Fatalf("DecomposePQ(%v) panicked: %v", pq, o.panic)
			}
			if wantErr && o.err == nil {
				t.Fatalf("DecomposePQ(%v) (%s) returned factors %v, %v without error", pq, class, o.p, o.q)
			}
			if !wantErr {
				if o.err != nil {
					t.Fatalf("DecomposePQ(%v): %v", pq, o.err)
				}
				if new(big.Int).Mul(o.p, o.q).Cmp(pq) != 0 || o.p.Cmp(o.q) > 0 {
					t.Fatalf("DecomposePQ(%v) = %v, %v", pq, o.p, o.q)
				}
			}
		case <-time.After(20 * time.Second):
			t.Fatalf("DecomposePQ(%v) (%s) did not return within 20 s of real time: a server can hang the client with this pq", pq, class)
		}
		st.Case(fmt.Sprintf("%s:%v", class, pq), wantErr, fmt.Sprintf("%s pq=%v", class, pq), class)
	})
}
