package c_rpc

import (
	"context"
	"errors"
	"fmt"
	"strings"
	"testing"
	"testing/synctest"
	"time"

	"github.com/gotd/td/rpc"
	"pgregory.net/rapid"

	"verifharness/pbt"
)

var allHooks = []string{"notify-result", "notify-error", "before-decode", "do-wait", "do-drop", "in-decode", "log"}

func drawHooks(t *rapid.T) []string {
	var hooks []string
	for _, h := range allHooks {
		if rapid.Bool().Draw(t, "hook:"+h) {
			hooks = append(hooks, h)
		}
	}
	return hooks
}

// checkC24 evaluates the C24 history oracle over the machine's log.
func (m *machine) checkC24() string {
	for _, c := range m.calls {
		if !c.started {
			continue
		}
		ret := -1
		rets := 0
		for i, e := range m.log {
			if e.kind == "return" && e.call == c.idx {
				rets++
				ret = i
			}
		}
		if rets != 1 {
			return fmt.Sprintf("call %d returned %d times", c.idx, rets)
		}
		before := func(kind, prefix string) bool {
			i := m.firstIdx(kind, c.idx, prefix)
			return i >= 0 && i < ret
		}
		decodeStarts := 0
		for i, e := range m.log {
			if e.call != c.idx {
				continue
			}
			if e.kind == "decode-start" || e.kind == "decode-end" {
				if e.kind == "decode-start" {
					decodeStarts++
				}
				if !strings.HasSuffix(e.detail, fmt.Sprintf("payload-id=%d", c.id)) {
					return fmt.Sprintf("call %d (id %d): Output was given bytes addressed to another message id: %s", c.idx, c.id, e.detail)
				}
				if i > ret {
					return fmt.Sprintf("call %d: Output %s at log[%d] after Do returned at log[%d] (err=%v)", c.idx, e.kind, i, ret, c.err)
				}
			}
		}
		if decodeStarts > 1 {
			return fmt.Sprintf("call %d: Output decoded %d times", c.idx, decodeStarts)
		}
		err := c.err
		closeIdx := m.firstIdx("close-issued", -1, "")
		closedBefore := closeIdx >= 0 && closeIdx < ret
		switch {
		case err == nil:
			if !before("decode-end", "valid") {
				return fmt.Sprintf("call %d returned nil without a decoded valid result of its own", c.idx)
			}
		case errors.Is(err, errBadDecode):
			if !before("decode-end", "bad") {
				return fmt.Sprintf("call %d returned the decode error without such a result", c.idx)
			}
		case errors.Is(err, c.rpcErr):
			if !before("error-issued", "") {
				return fmt.Sprintf("call %d returned its rpc error but none was delivered", c.idx)
			}
		case strings.Contains(err.Error(), "engine forcibly closed") || errors.Is(err, rpc.ErrEngineClosed):
			if !closedBefore {
				return fmt.Sprintf("call %d returned %q but the engine was not closed", c.idx, err)
			}
		case err == context.Canceled:
			if !before("cancel-issued", "") {
				return fmt.Sprintf("call %d returned context.Canceled but was not cancelled", c.idx)
			}
		case errors.Is(err, context.DeadlineExceeded):
			if c.deadline == 0 || m.log[ret].at < c.deadline {
				return fmt.Sprintf("call %d returned a deadline error at %v, its deadline is %v", c.idx, m.log[ret].at, c.deadline)
			}
		case errors.Is(err, errSendFailed):
			if !hasOutcome(c, "fail") {
				return fmt.Sprintf("call %d returned a send failure that was never injected", c.idx)
			}
		case errors.Is(err, errConnClosed):
			if !hasOutcome(c, "block") || !closedBefore {
				return fmt.Sprintf("call %d returned conn-closed without a blocked send + close", c.idx)
			}
		case errors.Is(err, &rpc.RetryLimitReachedErr{}):
			if c.sends != m.maxRetries+1 {
				return fmt.Sprintf("call %d: retry limit error after %d transmissions, limit %d", c.idx, c.sends, m.maxRetries)
			}
		default:
			return fmt.Sprintf("call %d returned an error no delivered event explains: %v", c.idx, err)
		}
		for _, o := range m.calls {
			if o != c && errors.Is(err, o.rpcErr) {
				return fmt.Sprintf("call %d returned the rpc error addressed to call %d", c.idx, o.idx)
			}
		}
		// "returns ... with the decoded result addressed to its own message id": a
		// result that was delivered while the call was pending and nothing else
		// happened to it completes the call with that result
		if c.mustComplete >= 0 && err != nil {
			return fmt.Sprintf("call %d (message id %d, invocation #%d of that id): a valid result for its id was delivered at log[%d] while it was pending and undisturbed, but Do returned %v", c.idx, c.id, c.attempt+1, c.mustComplete, err)
		}
	}
	return ""
}

func hasOutcome(c *mcall, what string) bool {
	for _, o := range c.outcomes {
		if o == what {
			return true
		}
	}
	return false
}

func (m *machine) deriveClasses() {
	// result (or error) delivered while its call races with cancel/close
	for _, c := range m.calls {
		ri := m.firstIdx("result-issued", c.idx, "")
		ci := m.firstIdx("cancel-issued", c.idx, "")
		xi := m.firstIdx("close-issued", -1, "")
		ret := m.firstIdx("return", c.idx, "")
		if ri >= 0 && ret >= 0 && ((ci >= 0 && ci < ret) || (xi >= 0 && xi < ret)) {
			m.classes["result-races-cancel-or-close"] = true
		}
		n := 0
		for _, e := range m.log {
			if e.kind == "result-issued" && e.call == c.idx {
				n++
			}
		}
		if n > 1 {
			m.classes["duplicate-result"] = true
		}
		if ri > ret && ret >= 0 {
			m.classes["result-after-return"] = true
		}
	}
	for _, e := range m.log {
		if e.kind == "foreign-issued" {
			m.classes["foreign-result"] = true
		}
	}
	for name, n := range m.sched.Parks {
		if n > 0 {
			if strings.HasPrefix(name, "log:") {
				name = "log"
			}
			m.classes["parked:"+name] = true
		}
	}
	for _, c := range m.calls {
		if c.mustComplete >= 0 {
			m.classes["result-must-complete"] = true
		}
	}
}

func (m *machine) classList() []string {
	var out []string
	for _, k := range []string{"result-races-cancel-or-close", "duplicate-result", "result-after-return", "foreign-result",
		"parked:notify-result", "parked:notify-error", "parked:before-decode", "parked:do-wait", "parked:do-drop", "parked:in-decode",
		"batched-ack", "same-id-reissued", "result-must-complete", "parked:log", "ended-by-deadline", "close-during-blocked-resend", "close-between-send-and-ack", "close-between-ack-and-result", "close-while-send-blocked", "cancel-after-send", "cancel-before-send", "start-after-close"} {
		if m.classes[k] {
			out = append(out, k)
		}
	}
	return out
}

func TestC24(t *testing.T) {
	st := pbt.NewStats("TestC24")
	defer st.Flush()
	rapid.Check(t, func(t *rapid.T) {
		rapid.SyncTest(t, func(t *rapid.T) {
			m := newMachine(t, drawHooks(t), rapid.IntRange(1, 3).Draw(t, "ncalls"))
			n := rapid.IntRange(1, 25).Draw(t, "steps")
			for i := 0; i < n; i++ {
				m.step()
			}
			m.teardown()
			if v := m.checkC24(); v != "" {
				t.Fatalf("C24 violated: %s\nsteps: %s\nlog:\n%s", v, strings.Join(m.steps, " "), m.dump())
			}
			m.deriveClasses()
			nontrivial := m.classes["result-races-cancel-or-close"] || m.classes["duplicate-result"] || m.classes["foreign-result"] || m.classes["result-after-return"]
			key := strings.Join(m.steps, " ")
			st.Case(key, nontrivial, short(key, 400), m.classList()...)
		})
	})
}

// checkC26 evaluates close/cancel oracles.
func (m *machine) checkC26() string {
	closeIdx := m.firstIdx("close-issued", -1, "")
	for _, c := range m.calls {
		if !c.started {
			continue
		}
		ret := m.firstIdx("return", c.idx, "")
		if ret < 0 {
			return fmt.Sprintf("call %d never returned", c.idx)
		}
		// drop requests: exactly one iff the call was cancelled and its request had been sent
		wantDrops := 0
		byContext := c.err == context.Canceled || errors.Is(c.err, context.DeadlineExceeded)
		if byContext && c.firstSend == "ok" {
			wantDrops = 1
		}
		if errors.Is(c.err, context.DeadlineExceeded) {
			m.classes["ended-by-deadline"] = true
		}
		if c.drops != wantDrops {
			return fmt.Sprintf("call %d (err=%v, first send=%s): %d drop requests, want %d", c.idx, c.err, c.firstSend, c.drops, wantDrops)
		}
		if byContext {
			if c.firstSend == "ok" {
				m.classes["cancel-after-send"] = true
			} else {
				m.classes["cancel-before-send"] = true
			}
		}
		if closeIdx < 0 || ret < closeIdx {
			continue
		}
		startIdx := m.firstIdx("start", c.idx, "")
		if startIdx > closeIdx {
			m.classes["start-after-close"] = true
			if !errors.Is(c.err, rpc.ErrEngineClosed) {
				return fmt.Sprintf("call %d started after close returned %v, want ErrEngineClosed", c.idx, c.err)
			}
			continue
		}
		// classification of calls that were pending when the engine was closed
		issuedBefore := func(kind string) bool {
			i := m.firstIdx(kind, c.idx, "")
			return i >= 0 && i < ret
		}
		if issuedBefore("cancel-issued") || issuedBefore("result-issued") || issuedBefore("error-issued") {
			continue // other outcomes are legitimate
		}
		if c.deadline > 0 && c.deadline <= m.log[closeIdx].at {
			continue // the call's own deadline had passed before the close: it was already ending
		}
		if c.firstSend != "ok" {
			if c.firstSend == "block" {
				m.classes["close-while-send-blocked"] = true
			}
			continue
		}
		if errors.Is(c.err, errSendFailed) {
			continue // an injected transmission failure, unrelated to the close: its own outcome
		}
		if m.connFirst && errors.Is(c.err, errConnClosed) {
			continue // the transport failed before the engine was closed: a write error like any other
		}
		if len(c.outcomes) > 1 && c.outcomes[len(c.outcomes)-1] == "block" {
			m.classes["close-during-blocked-resend"] = true
		}
		ackIssued := m.firstIdx("ack-issued", c.idx, "")
		ackDelivered := m.firstIdx("ack-delivered", c.idx, "")
		switch {
		case ackIssued < 0 || ackIssued > ret:
			m.classes["close-between-send-and-ack"] = true
			if errors.Is(c.err, &rpc.RetryLimitReachedErr{}) {
				continue
			}
			if !errors.Is(c.err, rpc.ErrEngineClosed) {
				return fmt.Sprintf("call %d was sent but never acknowledged when the engine closed: got %v, want an error matching rpc.ErrEngineClosed (retryable)", c.idx, c.err)
			}
		case ackDelivered >= 0 && ackDelivered < closeIdx:
			m.classes["close-between-ack-and-result"] = true
			if c.err == nil || errors.Is(c.err, rpc.ErrEngineClosed) {
				return fmt.Sprintf("call %d was acknowledged before the engine closed: got %v, want a non-retryable error", c.idx, c.err)
			}
		}
	}
	return ""
}

func TestC26(t *testing.T) {
	st := pbt.NewStats("TestC26")
	defer st.Flush()
	rapid.Check(t, func(t *rapid.T) {
		rapid.SyncTest(t, func(t *rapid.T) {
			m := newMachine(t, drawHooks(t), rapid.IntRange(1, 3).Draw(t, "ncalls"))
			n := rapid.IntRange(1, 20).Draw(t, "steps")
			for i := 0; i < n; i++ {
				wasClosed := m.closeIssued
				before := time.Since(m.t0)
				m.step()
				if m.closeIssued && !wasClosed {
					// promptness: once parked goroutines are released everything returns
					// without any virtual time passing
					m.drain()
					synctest.Wait()
					for _, c := range m.calls {
						if c.started && !c.returned {
							t.Fatalf("C26 violated: call %d still pending after ForceClose (all scheduling points released, no time needed)\nsteps: %s\nlog:\n%s", c.idx, strings.Join(m.steps, " "), m.dump())
						}
					}
					if !m.closeReturned {
						t.Fatalf("C26 violated: ForceClose did not return\nsteps: %s\nlog:\n%s", strings.Join(m.steps, " "), m.dump())
					}
					if time.Since(m.t0) != before {
						t.Fatalf("virtual time moved during close drain")
					}
				}
			}
			m.teardown()
			if v := m.checkC26(); v != "" {
				t.Fatalf("C26 violated: %s\nsteps: %s\nlog:\n%s", v, strings.Join(m.steps, " "), m.dump())
			}
			m.deriveClasses()
			nontrivial := m.classes["close-between-send-and-ack"] || m.classes["close-between-ack-and-result"] || m.classes["close-while-send-blocked"] || m.classes["cancel-after-send"]
			key := strings.Join(m.steps, " ")
			st.Case(key, nontrivial, short(key, 400), m.classList()...)
		})
	})
}

func short(s string, n int) string {
	if len(s) > n {
		return s[:n] + "…"
	}
	return s
}
