package c_rpc

import (
	"context"
	"encoding/binary"
	"errors"
	"fmt"
	"runtime"
	"strings"
	"sync"
	"sync/atomic"
	"testing/synctest"
	"time"

	"github.com/gotd/log"

	"github.com/gotd/td/bin"
	"github.com/gotd/td/rpc"
	"pgregory.net/rapid"

	"verifharness/pbt"
)

// Owned-schedule state machine around the real rpc.Engine (C24, C26).
//
// The harness is everything around the engine: the send function, the drop
// handler, the goroutines that deliver acks / results / errors (as the
// connection's read loop does), the callers. rpc's build-tagged scheduling
// points and the harness's own points park goroutines; the root goroutine
// draws what happens next. One global log records every event in order.

var (
	errBadDecode  = errors.New("harness: result does not decode")
	errSendFailed = errors.New("harness: send failed")
	errConnClosed = errors.New("harness: connection closed")
)

type logEv struct {
	kind   string
	call   int
	detail string
	at     time.Duration
}

type mcall struct {
	idx    int
	id     int64
	seqNo  int32
	body   []byte
	ctx    context.Context
	cancel context.CancelFunc
	rpcErr error

	started  bool
	returned bool
	err      error

	sendScript []string // outcome of the k-th transmission: ok | fail | block
	sends      int
	firstSend  string   // "", ok, fail, block
	outcomes   []string // outcome of every transmission
	drops      int
	decodes    int

	deadline     time.Duration // >0: the call's context has this deadline (from machine start)
	responded    bool          // a result or an error for this id was issued while this attempt was the latest
	cancelIssued bool
	attempt      int  // 0 = first Do with this message id; >0 = issued again with the same id
	mustComplete int  // log index of a valid result issued while this call was pending and undisturbed (-1: none)
	restarted    bool // a later attempt with the same id exists
}

type machine struct {
	t      *rapid.T
	mu     sync.Mutex
	log    []logEv
	t0     time.Time
	eng    *rpc.Engine
	sched  *pbt.Sched
	calls  []*mcall
	byID   map[int64]*mcall
	closed chan struct{} // closed when ForceClose is issued (the connection dies with it)

	closeIssued   bool
	closeReturned bool
	closeAt       time.Duration
	retry         time.Duration
	maxRetries    int
	classes       map[string]bool
	steps         []string
	connFirst     bool
	disturb       int // number of root actions other than releases so far
	armed         atomic.Bool
}

func (m *machine) ev(kind string, call int, detail string) int {
	m.mu.Lock()
	defer m.mu.Unlock()
	m.log = append(m.log, logEv{kind: kind, call: call, detail: detail, at: time.Since(m.t0)})
	return len(m.log) - 1
}

type rawEnc []byte

func (e rawEnc) Encode(b *bin.Buffer) error { b.Put(e); return nil }

// recorder is the Output of a call: it logs decode start/end.
type recorder struct {
	m *machine
	c *mcall
}

func resultPayload(id int64, valid bool) []byte {
	b := make([]byte, 12)
	binary.LittleEndian.PutUint64(b, uint64(id))
	if valid {
		b[8] = 1
	}
	return b
}

func (r recorder) Decode(b *bin.Buffer) error {
	raw := append([]byte(nil), b.Buf...)
	var id int64
	valid := false
	if len(raw) >= 9 {
		id = int64(binary.LittleEndian.Uint64(raw))
		valid = raw[8] == 1
	}
	r.m.ev("decode-start", r.c.idx, fmt.Sprintf("payload-id=%d", id))
	r.m.sched.Hook("in-decode", r.c.id) // a decode takes time: let the schedule cut it in two
	r.m.mu.Lock()
	r.c.decodes++
	r.m.mu.Unlock()
	if !valid {
		r.m.ev("decode-end", r.c.idx, fmt.Sprintf("bad payload-id=%d", id))
		return errBadDecode
	}
	r.m.ev("decode-end", r.c.idx, fmt.Sprintf("valid payload-id=%d", id))
	return nil
}

func (m *machine) send(ctx context.Context, msgID int64, seqNo int32, in bin.Encoder) error {
	var b bin.Buffer
	if err := in.Encode(&b); err != nil {
		return err
	}
	c := m.byID[msgID]
	m.mu.Lock()
	k := c.sends
	c.sends++
	outcome := "ok"
	if k < len(c.sendScript) {
		outcome = c.sendScript[k]
	}
	if ctx.Err() != nil {
		outcome = "ctx"
	}
	if k == 0 {
		c.firstSend = outcome
	}
	c.outcomes = append(c.outcomes, outcome)
	m.mu.Unlock()
	m.ev("send", c.idx, fmt.Sprintf("n=%d id=%d seq=%d body=%x -> %s", k, msgID, seqNo, b.Buf, outcome))
	switch outcome {
	case "ctx":
		return ctx.Err()
	case "fail":
		return errSendFailed
	case "block":
		// a stuck write: ends when the caller's context ends or the connection is closed
		select {
		case <-ctx.Done():
			return ctx.Err()
		case <-m.closed:
			return errConnClosed
		}
	}
	return nil
}

func (m *machine) drop(req rpc.Request) error {
	c := m.byID[req.MsgID]
	m.mu.Lock()
	c.drops++
	m.mu.Unlock()
	m.ev("drop", c.idx, "")
	return nil
}

// schedLogger makes every log record of the engine a scheduling point the
// harness owns ("log:<message>", enabled as a family by the hook name "log"):
// a goroutine can be stopped wherever the engine reports something, without
// any change to the engine. Records written while the engine mutex is held
// (NotifyAcks, waitAck) are not parked at: a goroutine parked under a mutex
// leaves its contenders blocked in a way the bubble cannot see through.
type schedLogger struct{ m *machine }

func (l schedLogger) Enabled(context.Context, log.Level) bool { return true }

func (l schedLogger) Log(_ context.Context, _ log.Level, msg string, attrs ...log.Attr) {
	if !l.m.armed.Load() {
		return // records written by the constructor, on the root goroutine
	}
	var pcs [12]uintptr
	n := runtime.Callers(2, pcs[:])
	frames := runtime.CallersFrames(pcs[:n])
	for {
		f, more := frames.Next()
		if strings.HasSuffix(f.Function, ".NotifyAcks") || strings.HasSuffix(f.Function, ".waitAck") {
			return
		}
		if !more {
			break
		}
	}
	l.m.sched.Hook("log:"+msg, 0)
}

func newMachine(t *rapid.T, hooks []string, ncalls int) *machine {
	m := &machine{t: t, t0: time.Now(), byID: map[int64]*mcall{}, closed: make(chan struct{}), classes: map[string]bool{}}
	m.sched = pbt.NewSched(hooks...)
	m.retry = time.Duration(rapid.SampledFrom([]int{1, 10}).Draw(t, "retrySec")) * time.Second
	m.maxRetries = rapid.IntRange(1, 3).Draw(t, "maxRetries")
	m.connFirst = rapid.Bool().Draw(t, "connFirst")
	m.eng = rpc.New(m.send, rpc.Options{RetryInterval: m.retry, MaxRetries: m.maxRetries, DropHandler: m.drop, Logger: schedLogger{m}})
	for i := 0; i < ncalls; i++ {
		c := &mcall{idx: i, id: int64(1000 + 4*i), seqNo: int32(2*i + 1), mustComplete: -1}
		c.body = []byte(fmt.Sprintf("req-%d..", i))[:8]
		if k := rapid.SampledFrom([]int{0, 0, 1, 2, 3}).Draw(t, "deadlineTicks"); k > 0 {
			// the caller gave a deadline instead of (or besides) cancelling by hand: it
			// passes after k ticks of the retry interval, half a tick in
			c.deadline = time.Duration(k)*m.retry - m.retry/2
			c.ctx, c.cancel = context.WithTimeout(context.Background(), c.deadline)
		} else {
			c.ctx, c.cancel = context.WithCancel(context.Background())
		}
		c.rpcErr = fmt.Errorf("rpc error for call %d", i)
		first := rapid.SampledFrom([]string{"ok", "ok", "ok", "ok", "fail", "block"}).Draw(t, "firstSend")
		c.sendScript = []string{first}
		// retransmissions usually go through; sometimes one fails or is stuck in
		// the transport when something else happens
		for k := 0; k < 3; k++ {
			c.sendScript = append(c.sendScript, rapid.SampledFrom([]string{"ok", "ok", "ok", "ok", "ok", "fail", "block", "block"}).Draw(t, "resend"))
		}
		m.calls = append(m.calls, c)
		m.byID[c.id] = c
	}
	rpc.VerifSetHook(m.sched.Hook)
	m.armed.Store(true)
	return m
}

func (m *machine) note(f string, a ...any) { m.steps = append(m.steps, fmt.Sprintf(f, a...)) }

func (m *machine) startCall(c *mcall) {
	c.started = true
	m.ev("start", c.idx, "")
	go func() {
		err := m.eng.Do(c.ctx, rpc.Request{MsgID: c.id, SeqNo: c.seqNo, Input: rawEnc(c.body), Output: recorder{m, c}})
		m.mu.Lock()
		c.returned, c.err = true, err
		m.mu.Unlock()
		m.ev("return", c.idx, fmt.Sprint(err))
	}()
}

// step performs one drawn action; returns false when nothing was done.
func (m *machine) step() {
	t := m.t
	type action struct {
		name string
		do   func()
	}
	var acts []action
	for _, c := range m.calls {
		c := c
		if !c.started {
			acts = append(acts, action{fmt.Sprintf("start(%d)", c.idx), func() { m.startCall(c) }})
			continue
		}
		if c.restarted {
			continue // responses and cancellations address the latest invocation of a message id
		}
		m.mu.Lock()
		onWire := c.sends > 0
		m.mu.Unlock()
		if c.returned && c.attempt == 0 && !m.closeIssued && c.err != nil && errors.Is(c.err, c.rpcErr) {
			// the caller issues the same request again under the same message id, as
			// mtproto.Conn.Invoke does after bad_server_salt
			acts = append(acts, action{fmt.Sprintf("reissue(%d)", c.idx), func() {
				n := &mcall{idx: len(m.calls), id: c.id, seqNo: c.seqNo, body: c.body, attempt: c.attempt + 1, mustComplete: -1,
					sendScript: []string{"ok"}, rpcErr: fmt.Errorf("rpc error for call %d (second invocation of id %d)", len(m.calls), c.id)}
				n.ctx, n.cancel = context.WithCancel(context.Background())
				c.restarted = true
				m.calls = append(m.calls, n)
				m.byID[c.id] = n
				m.classes["same-id-reissued"] = true
				m.startCall(n)
			}})
		}
		if !onWire {
			// the server answers what it has received: no ack, result or error for a
			// request whose first transmission has not happened yet (the caller may
			// still be cancelled)
			acts = append(acts, action{fmt.Sprintf("cancel(%d)", c.idx), func() {
				c.cancelIssued = true
				m.ev("cancel-issued", c.idx, "")
				c.cancel()
			}})
			continue
		}
		acts = append(acts,
			action{fmt.Sprintf("ack(%d)", c.idx), func() {
				n := m.ev("ack-issued", c.idx, "")
				go func() { m.eng.NotifyAcks([]int64{c.id}); m.ev("ack-delivered", c.idx, fmt.Sprint(n)) }()
			}},
			action{fmt.Sprintf("ackbatch(%d)", c.idx), func() {
				// one msgs_ack carrying several ids, as servers batch them: ids nobody
				// waits for (unknown, or of calls that already completed) around this one
				batch := []int64{777001}
				for _, o := range m.calls {
					if o != c && o.started && o.returned && !o.restarted && o.id != c.id {
						batch = append(batch, o.id)
					}
				}
				batch = append(batch, c.id, 777002)
				m.classes["batched-ack"] = true
				n := m.ev("ack-issued", c.idx, fmt.Sprint(batch))
				go func() { m.eng.NotifyAcks(batch); m.ev("ack-delivered", c.idx, fmt.Sprint(n)) }()
			}},
			action{fmt.Sprintf("result(%d)", c.idx), func() {
				at := m.ev("result-issued", c.idx, "valid")
				// the result finds the call pending and undisturbed: sent (all
				// transmissions went through), not answered, cancelled or closed
				clean := !c.returned && !c.responded && !c.cancelIssued && !m.closeIssued && c.firstSend == "ok" &&
					(c.deadline == 0 || time.Since(m.t0) < c.deadline)
				for _, o := range c.outcomes {
					if o != "ok" {
						clean = false
					}
				}
				c.responded = true
				mark := m.disturb
				go func() {
					_ = m.eng.NotifyResult(c.id, &bin.Buffer{Buf: resultPayload(c.id, true)})
					m.ev("notify-done", c.idx, "")
					m.mu.Lock()
					if clean && m.disturb == mark {
						// nothing but releases of parked goroutines happened while the
						// result was being delivered: it must have completed the call
						c.mustComplete = at
					}
					m.mu.Unlock()
				}()
			}},
			action{fmt.Sprintf("badresult(%d)", c.idx), func() {
				c.responded = true
				m.ev("result-issued", c.idx, "bad")
				go func() {
					_ = m.eng.NotifyResult(c.id, &bin.Buffer{Buf: resultPayload(c.id, false)})
					m.ev("notify-done", c.idx, "")
				}()
			}},
			action{fmt.Sprintf("error(%d)", c.idx), func() {
				c.responded = true
				m.ev("error-issued", c.idx, "")
				go func() { m.eng.NotifyError(c.id, c.rpcErr); m.ev("notify-done", c.idx, "") }()
			}},
			action{fmt.Sprintf("cancel(%d)", c.idx), func() {
				c.cancelIssued = true
				m.ev("cancel-issued", c.idx, "")
				c.cancel()
			}},
		)
	}
	acts = append(acts, action{"foreign", func() {
		// a result naming an id nobody waits for (unknown, or a call that already returned)
		m.ev("foreign-issued", -1, "")
		go func() { _ = m.eng.NotifyResult(999999, &bin.Buffer{Buf: resultPayload(999999, true)}) }()
	}})
	if !m.closeIssued {
		acts = append(acts, action{"forceClose", func() { m.forceClose() }})
	}
	acts = append(acts, action{"tick", func() { time.Sleep(m.retry) }})
	for _, p := range m.sched.Waiting() {
		p := p
		// releasing is offered twice so parked goroutines do not starve
		acts = append(acts, action{"release:" + p.String(), func() { m.sched.Release(p) }})
	}
	a := acts[rapid.IntRange(0, len(acts)-1).Draw(t, "action")]
	m.note("%s", a.name)
	if !strings.HasPrefix(a.name, "release:") {
		m.mu.Lock()
		m.disturb++
		m.mu.Unlock()
	}
	a.do()
	synctest.Wait()
}

func (m *machine) forceClose() {
	m.mu.Lock()
	m.disturb++
	m.mu.Unlock()
	m.closeIssued = true
	m.closeAt = time.Since(m.t0)
	m.ev("close-issued", -1, fmt.Sprintf("connFirst=%v", m.connFirst))
	// The connection and the engine go down together, in either order: with
	// connFirst a stuck transmission fails before the engine knows it is being
	// closed (a plain write error), otherwise the engine is closed first and the
	// stuck transmission fails afterwards.
	if m.connFirst {
		close(m.closed)
	}
	go func() {
		m.eng.ForceClose()
		m.mu.Lock()
		m.closeReturned = true
		m.mu.Unlock()
		m.ev("close-returned", -1, "")
	}()
	if !m.connFirst {
		synctest.Wait()
		close(m.closed)
	}
}

// drain releases every parked goroutine until the system is quiescent.
func (m *machine) drain() {
	for i := 0; i < 100; i++ {
		synctest.Wait()
		w := m.sched.Waiting()
		if len(w) == 0 {
			return
		}
		for _, p := range w {
			m.sched.Release(p)
		}
	}
	m.t.Fatalf("drain did not converge")
}

func (m *machine) teardown() {
	if !m.closeIssued {
		m.forceClose()
	}
	m.sched.Off()
	synctest.Wait()
	for _, c := range m.calls {
		c.cancel()
	}
	synctest.Wait()
	rpc.VerifSetHook(nil)
}

func (m *machine) dump() string {
	var sb strings.Builder
	for i, e := range m.log {
		fmt.Fprintf(&sb, "  %3d %8v %-14s call=%d %s\n", i, e.at, e.kind, e.call, e.detail)
	}
	return sb.String()
}

// indexOf returns the log index of the first event matching, or -1.
func (m *machine) firstIdx(kind string, call int, detailPrefix string) int {
	for i, e := range m.log {
		if e.kind == kind && e.call == call && strings.HasPrefix(e.detail, detailPrefix) {
			return i
		}
	}
	return -1
}
