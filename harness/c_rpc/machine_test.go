package c_rpc

import (
	"context"
	"encoding/binary"
	"errors"
	"fmt"
	"strings"
	"sync"
	"testing/synctest"
	"time"

	"github.com/gotd/td/bin"
	"github.com/gotd/td/rpc"
	"pgregory.net/rapid"

	"verifharness/pbt"
)

// Owned-schedule state machine around the real rpc.Engine (C24, C26).
//
// The harness is everything around the engine: the send function, the drop
// handler, the goroutines that deliver acks / results / errors (as the
// connection's read loop does), the callers. rpc's build-tagged scheduling
// points and the harness's own points park goroutines; the root goroutine
// draws what happens next. One global log records every event in order.

var (
	errBadDecode  = errors.New("harness: result does not decode")
	errSendFailed = errors.New("harness: send failed")
	errConnClosed = errors.New("harness: connection closed")
)

type logEv struct {
	kind   string
	call   int
	detail string
	at     time.Duration
}

type mcall struct {
	idx    int
	id     int64
	seqNo  int32
	body   []byte
	ctx    context.Context
	cancel context.CancelFunc
	rpcErr error

	started  bool
	returned bool
	err      error

	sendScript []string // outcome of the k-th transmission: ok | fail | block
	sends      int
	firstSend  string // "", ok, fail, block
	drops      int
	decodes    int
}

type machine struct {
	t      *rapid.T
	mu     sync.Mutex
	log    []logEv
	t0     time.Time
	eng    *rpc.Engine
	sched  *pbt.Sched
	calls  []*mcall
	byID   map[int64]*mcall
	closed chan struct{} // closed when ForceClose is issued (the connection dies with it)

	closeIssued   bool
	closeReturned bool
	closeAt       time.Duration
	retry         time.Duration
	maxRetries    int
	classes       map[string]bool
	steps         []string
}

func (m *machine) ev(kind string, call int, detail string) int {
	m.mu.Lock()
	defer m.mu.Unlock()
	m.log = append(m.log, logEv{kind: kind, call: call, detail: detail, at: time.Since(m.t0)})
	return len(m.log) - 1
}

type rawEnc []byte

func (e rawEnc) Encode(b *bin.Buffer) error { b.Put(e); return nil }

// recorder is the Output of a call: it logs decode start/end.
type recorder struct {
	m *machine
	c *mcall
}

func resultPayload(id int64, valid bool) []byte {
	b := make([]byte, 12)
	binary.LittleEndian.PutUint64(b, uint64(id))
	if valid {
		b[8] = 1
	}
	return b
}

func (r recorder) Decode(b *bin.Buffer) error {
	raw := append([]byte(nil), b.Buf...)
	var id int64
	valid := false
	if len(raw) >= 9 {
		id = int64(binary.LittleEndian.Uint64(raw))
		valid = raw[8] == 1
	}
	r.m.ev("decode-start", r.c.idx, fmt.Sprintf("payload-id=%d", id))
	r.m.sched.Hook("in-decode", r.c.id) // a decode takes time: let the schedule cut it in two
	r.m.mu.Lock()
	r.c.decodes++
	r.m.mu.Unlock()
	if !valid {
		r.m.ev("decode-end", r.c.idx, fmt.Sprintf("bad payload-id=%d", id))
		return errBadDecode
	}
	r.m.ev("decode-end", r.c.idx, fmt.Sprintf("valid payload-id=%d", id))
	return nil
}

func (m *machine) send(ctx context.Context, msgID int64, seqNo int32, in bin.Encoder) error {
	var b bin.Buffer
	if err := in.Encode(&b); err != nil {
		return err
	}
	c := m.byID[msgID]
	m.mu.Lock()
	k := c.sends
	c.sends++
	outcome := "ok"
	if k < len(c.sendScript) {
		outcome = c.sendScript[k]
	}
	if ctx.Err() != nil {
		outcome = "ctx"
	}
	if k == 0 {
		c.firstSend = outcome
	}
	m.mu.Unlock()
	m.ev("send", c.idx, fmt.Sprintf("n=%d id=%d seq=%d body=%x -> %s", k, msgID, seqNo, b.Buf, outcome))
	switch outcome {
	case "ctx":
		return ctx.Err()
	case "fail":
		return errSendFailed
	case "block":
		// a stuck write: ends when the caller's context ends or the connection is closed
		select {
		case <-ctx.Done():
			return ctx.Err()
		case <-m.closed:
			return errConnClosed
		}
	}
	return nil
}

func (m *machine) drop(req rpc.Request) error {
	c := m.byID[req.MsgID]
	m.mu.Lock()
	c.drops++
	m.mu.Unlock()
	m.ev("drop", c.idx, "")
	return nil
}

func newMachine(t *rapid.T, hooks []string, ncalls int) *machine {
	m := &machine{t: t, t0: time.Now(), byID: map[int64]*mcall{}, closed: make(chan struct{}), classes: map[string]bool{}}
	m.sched = pbt.NewSched(hooks...)
	m.retry = time.Duration(rapid.SampledFrom([]int{1, 10}).Draw(t, "retrySec")) * time.Second
	m.maxRetries = rapid.IntRange(1, 3).Draw(t, "maxRetries")
	m.eng = rpc.New(m.send, rpc.Options{RetryInterval: m.retry, MaxRetries: m.maxRetries, DropHandler: m.drop})
	for i := 0; i < ncalls; i++ {
		c := &mcall{idx: i, id: int64(1000 + 4*i), seqNo: int32(2*i + 1)}
		c.body = []byte(fmt.Sprintf("req-%d..", i))[:8]
		c.ctx, c.cancel = context.WithCancel(context.Background())
		c.rpcErr = fmt.Errorf("rpc error for call %d", i)
		first := rapid.SampledFrom([]string{"ok", "ok", "ok", "ok", "fail", "block"}).Draw(t, "firstSend")
		c.sendScript = []string{first}
		m.calls = append(m.calls, c)
		m.byID[c.id] = c
	}
	rpc.VerifSetHook(m.sched.Hook)
	return m
}

func (m *machine) note(f string, a ...any) { m.steps = append(m.steps, fmt.Sprintf(f, a...)) }

func (m *machine) startCall(c *mcall) {
	c.started = true
	m.ev("start", c.idx, "")
	go func() {
		err := m.eng.Do(c.ctx, rpc.Request{MsgID: c.id, SeqNo: c.seqNo, Input: rawEnc(c.body), Output: recorder{m, c}})
		m.mu.Lock()
		c.returned, c.err = true, err
		m.mu.Unlock()
		m.ev("return", c.idx, fmt.Sprint(err))
	}()
}

// step performs one drawn action; returns false when nothing was done.
func (m *machine) step() {
	t := m.t
	type action struct {
		name string
		do   func()
	}
	var acts []action
	for _, c := range m.calls {
		c := c
		if !c.started {
			acts = append(acts, action{fmt.Sprintf("start(%d)", c.idx), func() { m.startCall(c) }})
			continue
		}
		acts = append(acts,
			action{fmt.Sprintf("ack(%d)", c.idx), func() {
				n := m.ev("ack-issued", c.idx, "")
				go func() { m.eng.NotifyAcks([]int64{c.id}); m.ev("ack-delivered", c.idx, fmt.Sprint(n)) }()
			}},
			action{fmt.Sprintf("ackbatch(%d)", c.idx), func() {
				// one msgs_ack carrying several ids, as servers batch them: ids nobody
				// waits for (unknown, or of calls that already completed) around this one
				batch := []int64{777001}
				for _, o := range m.calls {
					if o != c && o.started && o.returned {
						batch = append(batch, o.id)
					}
				}
				batch = append(batch, c.id, 777002)
				m.classes["batched-ack"] = true
				n := m.ev("ack-issued", c.idx, fmt.Sprint(batch))
				go func() { m.eng.NotifyAcks(batch); m.ev("ack-delivered", c.idx, fmt.Sprint(n)) }()
			}},
			action{fmt.Sprintf("result(%d)", c.idx), func() {
				m.ev("result-issued", c.idx, "valid")
				go func() {
					_ = m.eng.NotifyResult(c.id, &bin.Buffer{Buf: resultPayload(c.id, true)})
					m.ev("notify-done", c.idx, "")
				}()
			}},
			action{fmt.Sprintf("badresult(%d)", c.idx), func() {
				m.ev("result-issued", c.idx, "bad")
				go func() {
					_ = m.eng.NotifyResult(c.id, &bin.Buffer{Buf: resultPayload(c.id, false)})
					m.ev("notify-done", c.idx, "")
				}()
			}},
			action{fmt.Sprintf("error(%d)", c.idx), func() {
				m.ev("error-issued", c.idx, "")
				go func() { m.eng.NotifyError(c.id, c.rpcErr); m.ev("notify-done", c.idx, "") }()
			}},
			action{fmt.Sprintf("cancel(%d)", c.idx), func() {
				m.ev("cancel-issued", c.idx, "")
				c.cancel()
			}},
		)
	}
	acts = append(acts, action{"foreign", func() {
		// a result naming an id nobody waits for (unknown, or a call that already returned)
		m.ev("foreign-issued", -1, "")
		go func() { _ = m.eng.NotifyResult(999999, &bin.Buffer{Buf: resultPayload(999999, true)}) }()
	}})
	if !m.closeIssued {
		acts = append(acts, action{"forceClose", func() { m.forceClose() }})
	}
	acts = append(acts, action{"tick", func() { time.Sleep(m.retry) }})
	for _, p := range m.sched.Waiting() {
		p := p
		// releasing is offered twice so parked goroutines do not starve
		acts = append(acts, action{"release:" + p.String(), func() { m.sched.Release(p) }})
	}
	a := acts[rapid.IntRange(0, len(acts)-1).Draw(t, "action")]
	m.note("%s", a.name)
	a.do()
	synctest.Wait()
}

func (m *machine) forceClose() {
	m.closeIssued = true
	m.closeAt = time.Since(m.t0)
	m.ev("close-issued", -1, "")
	close(m.closed)
	go func() {
		m.eng.ForceClose()
		m.mu.Lock()
		m.closeReturned = true
		m.mu.Unlock()
		m.ev("close-returned", -1, "")
	}()
}

// drain releases every parked goroutine until the system is quiescent.
func (m *machine) drain() {
	for i := 0; i < 100; i++ {
		synctest.Wait()
		w := m.sched.Waiting()
		if len(w) == 0 {
			return
		}
		for _, p := range w {
			m.sched.Release(p)
		}
	}
	m.t.Fatalf("drain did not converge")
}

func (m *machine) teardown() {
	if !m.closeIssued {
		m.forceClose()
	}
	m.sched.Off()
	synctest.Wait()
	for _, c := range m.calls {
		c.cancel()
	}
	synctest.Wait()
	rpc.VerifSetHook(nil)
}

func (m *machine) dump() string {
	var sb strings.Builder
	for i, e := range m.log {
		fmt.Fprintf(&sb, "  %3d %8v %-14s call=%d %s\n", i, e.at, e.kind, e.call, e.detail)
	}
	return sb.String()
}

// indexOf returns the log index of the first event matching, or -1.
func (m *machine) firstIdx(kind string, call int, detailPrefix string) int {
	for i, e := range m.log {
		if e.kind == kind && e.call == call && strings.HasPrefix(e.detail, detailPrefix) {
			return i
		}
	}
	return -1
}
