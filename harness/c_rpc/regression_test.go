package c_rpc

import (
	"context"
	"errors"
	"sync/atomic"
	"testing"
	"testing/synctest"
	"time"

	"github.com/gotd/td/bin"
	"github.com/gotd/td/rpc"

	"verifharness/pbt"
)

type decoderFunc func(*bin.Buffer) error

func (f decoderFunc) Decode(b *bin.Buffer) error { return f(b) }

// TestC24Regression replays the shrunk schedule found by TestC24: the notifier
// is preempted between the handler lookup and the handler call, the invocation
// gives up (cancel / engine close), then the notifier resumes. The output must
// not be decoded after Do returned. Fixed by "fix: never run the rpc result
// handler concurrently with or after the return of Do".
func TestC24Regression(t *testing.T) {
	for _, how := range []string{"cancel", "close"} {
		synctest.Test(t, func(t *testing.T) {
			sched := pbt.NewSched("notify-result")
			rpc.VerifSetHook(sched.Hook)
			defer rpc.VerifSetHook(nil)
			eng := rpc.New(rpc.NopSend, rpc.Options{})
			ctx, cancel := context.WithCancel(context.Background())
			defer cancel()
			var returned, decodedAfter atomic.Bool
			out := decoderFunc(func(*bin.Buffer) error {
				if returned.Load() {
					decodedAfter.Store(true)
				}
				return nil
			})
			go func() {
				_ = eng.Do(ctx, rpc.Request{MsgID: 1000, SeqNo: 1, Input: rawEnc("x"), Output: out})
				returned.Store(true)
			}()
			synctest.Wait()
			go func() { _ = eng.NotifyResult(1000, &bin.Buffer{Buf: resultPayload(1000, true)}) }()
			synctest.Wait() // notifier parked after the lookup
			if len(sched.Waiting()) != 1 {
				t.Fatalf("%s: notifier did not reach the scheduling point", how)
			}
			if how == "cancel" {
				cancel()
			} else {
				go eng.ForceClose()
			}
			synctest.Wait()
			if !returned.Load() {
				t.Fatalf("%s: Do did not return", how)
			}
			sched.Off()
			synctest.Wait()
			if decodedAfter.Load() {
				t.Errorf("%s: Output was decoded after Do returned", how)
			}
			eng.ForceClose()
		})
	}
}

// TestC26Regression_resend_stuck_at_close replays the shrunk schedule found by
// TestC26 after retransmissions got scripted outcomes: the request is sent, no
// acknowledgement arrives, the retransmission is stuck in the transport, the
// engine is force-closed and the stuck write then fails. The request was never
// acknowledged, so the error must match rpc.ErrEngineClosed (safe to retry);
// with the acknowledgement delivered first it must not. Fixed by "fix: report
// ErrEngineClosed when a retransmission fails after the engine was closed".
func TestC26Regression_resend_stuck_at_close(t *testing.T) {
	for _, acked := range []bool{false, true} {
		synctest.Test(t, func(t *testing.T) {
			connClosed := make(chan struct{})
			sends := 0
			send := func(ctx context.Context, msgID int64, seqNo int32, in bin.Encoder) error {
				sends++
				if sends == 1 {
					return nil
				}
				select { // the retransmission is stuck until the connection goes away
				case <-ctx.Done():
					return ctx.Err()
				case <-connClosed:
					return errConnClosed
				}
			}
			eng := rpc.New(send, rpc.Options{RetryInterval: time.Second, MaxRetries: 3})
			done := make(chan error, 1)
			go func() {
				done <- eng.Do(context.Background(), rpc.Request{MsgID: 1000, SeqNo: 1, Input: rawEnc("x"), Output: decoderFunc(func(*bin.Buffer) error { return nil })})
			}()
			time.Sleep(time.Second) // retry timer fires, the retransmission blocks
			synctest.Wait()
			if sends != 2 {
				t.Fatalf("want a stuck retransmission, sends=%d", sends)
			}
			if acked {
				eng.NotifyAcks([]int64{1000})
				synctest.Wait()
			}
			go eng.ForceClose()
			synctest.Wait()
			close(connClosed)
			synctest.Wait()
			var err error
			select {
			case err = <-done:
			default:
				t.Fatalf("Do did not return after ForceClose")
			}
			if acked && (err == nil || errors.Is(err, rpc.ErrEngineClosed)) {
				t.Fatalf("acknowledged request: got %v, want a non-retryable error", err)
			}
			if !acked && !errors.Is(err, rpc.ErrEngineClosed) {
				t.Fatalf("C26 violated: the request was sent but never acknowledged when the engine closed: got %v, want an error matching rpc.ErrEngineClosed", err)
			}
		})
	}
}
