package c_rpc

import (
	"context"
	"sync/atomic"
	"testing"
	"testing/synctest"

	"github.com/gotd/td/bin"
	"github.com/gotd/td/rpc"

	"verifharness/pbt"
)

type decoderFunc func(*bin.Buffer) error

func (f decoderFunc) Decode(b *bin.Buffer) error { return f(b) }

// TestC24Regression replays the shrunk schedule found by TestC24: the notifier
// is preempted between the handler lookup and the handler call, the invocation
// gives up (cancel / engine close), then the notifier resumes. The output must
// not be decoded after Do returned. Fixed by "fix: never run the rpc result
// handler concurrently with or after the return of Do".
func TestC24Regression(t *testing.T) {
	for _, how := range []string{"cancel", "close"} {
		synctest.Test(t, func(t *testing.T) {
			sched := pbt.NewSched("notify-result")
			rpc.VerifSetHook(sched.Hook)
			defer rpc.VerifSetHook(nil)
			eng := rpc.New(rpc.NopSend, rpc.Options{})
			ctx, cancel := context.WithCancel(context.Background())
			defer cancel()
			var returned, decodedAfter atomic.Bool
			out := decoderFunc(func(*bin.Buffer) error {
				if returned.Load() {
					decodedAfter.Store(true)
				}
				return nil
			})
			go func() {
				_ = eng.Do(ctx, rpc.Request{MsgID: 1000, SeqNo: 1, Input: rawEnc("x"), Output: out})
				returned.Store(true)
			}()
			synctest.Wait()
			go func() { _ = eng.NotifyResult(1000, &bin.Buffer{Buf: resultPayload(1000, true)}) }()
			synctest.Wait() // notifier parked after the lookup
			if len(sched.Waiting()) != 1 {
				t.Fatalf("%s: notifier did not reach the scheduling point", how)
			}
			if how == "cancel" {
				cancel()
			} else {
				go eng.ForceClose()
			}
			synctest.Wait()
			if !returned.Load() {
				t.Fatalf("%s: Do did not return", how)
			}
			sched.Off()
			synctest.Wait()
			if decodedAfter.Load() {
				t.Errorf("%s: Output was decoded after Do returned", how)
			}
			eng.ForceClose()
		})
	}
}
