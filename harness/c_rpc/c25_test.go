package c_rpc

import (
	"context"
	"errors"
	"fmt"
	"sort"
	"sync"
	"testing"
	"testing/synctest"
	"time"

	"github.com/gotd/td/bin"
	"github.com/gotd/td/rpc"
	"pgregory.net/rapid"

	"verifharness/pbt"
)

// C25: unacknowledged requests are retransmitted with the same identity every
// retry interval, at most maxRetries times; never after an ack or result.
// Virtual time (synctest), no hooks. The oracle is a complete reference model:
// the exact list of transmission instants and the outcome are predicted from
// the script and compared.

var errRPC = errors.New("harness: rpc error")

var errWriteTimeout = fmt.Errorf("harness: write: %w", context.DeadlineExceeded)

type tx struct {
	at    time.Duration
	id    int64
	seqNo int32
	body  string
}

type scriptEv struct {
	at   time.Duration
	kind string // ack result cancel
}

func TestC25(t *testing.T) {
	st := pbt.NewStats("TestC25")
	defer st.Flush()
	rapid.Check(t, func(t *rapid.T) {
		retry := time.Duration(rapid.SampledFrom([]int{1, 3, 10}).Draw(t, "retrySec")) * time.Second
		maxRetries := rapid.IntRange(1, 6).Draw(t, "maxRetries")
		failAt := -1
		errInjected := errSendFailed
		if rapid.IntRange(0, 3).Draw(t, "injectSendFailure") == 0 {
			failAt = rapid.IntRange(0, maxRetries).Draw(t, "failAt")
			if rapid.Bool().Draw(t, "failureIsWriteTimeout") {
				// the transport's own write timeout: a deadline error although the
				// caller's context is alive
				errInjected = errWriteTimeout
			}
		}
		// script: up to 3 events at instants strictly between timer instants, or 1ns after one
		var script []scriptEv
		n := rapid.IntRange(0, 3).Draw(t, "nEvents")
		for i := 0; i < n; i++ {
			k := rapid.IntRange(0, maxRetries+1).Draw(t, "slot")
			var off time.Duration
			switch rapid.IntRange(0, 2).Draw(t, "where") {
			case 0:
				off = time.Nanosecond // just after the timer instant
			case 1:
				off = retry - time.Nanosecond // just before the next one
			default:
				off = time.Duration(rapid.Int64Range(1, int64(retry)-1).Draw(t, "off"))
			}
			kind := rapid.SampledFrom([]string{"ack", "ack", "result", "cancel", "dupack", "badresult", "rpcerror"}).Draw(t, "kind")
			script = append(script, scriptEv{at: time.Duration(k)*retry + off + time.Duration(i), kind: kind})
		}
		sort.SliceStable(script, func(i, j int) bool { return script[i].at < script[j].at })

		// ---- reference model
		var wantTx []time.Duration
		wantOutcome := ""
		stopAt := time.Duration(-1) // instant after which nothing is sent
		acked := false
		for _, e := range script {
			switch e.kind {
			case "ack", "dupack":
				if stopAt < 0 {
					stopAt = e.at
					acked = true
				}
			case "result":
				if wantOutcome == "" {
					if stopAt < 0 {
						stopAt = e.at
					}
					wantOutcome = "nil"
				}
			case "cancel":
				if wantOutcome == "" {
					if stopAt < 0 {
						stopAt = e.at
					}
					wantOutcome = "canceled"
				}
			case "badresult", "rpcerror":
				// any answer for the request ends it: nothing is sent afterwards
				if wantOutcome == "" {
					if stopAt < 0 {
						stopAt = e.at
					}
					wantOutcome = e.kind
				}
			}
			if wantOutcome != "" {
				break
			}
		}
		for k := 0; k <= maxRetries; k++ {
			at := time.Duration(k) * retry
			if stopAt >= 0 && at > stopAt {
				break
			}
			wantTx = append(wantTx, at)
			if k == failAt {
				wantOutcome = "sendfail"
				break
			}
			if k == maxRetries {
				wantOutcome = "limit"
			}
		}
		_ = acked
		if wantOutcome == "" {
			wantOutcome = "pending" // acknowledged, no result: waits until the harness cancels at the end
		}

		rapid.SyncTest(t, func(t *rapid.T) {
			t0 := time.Now()
			var mu sync.Mutex
			var got []tx
			send := func(ctx context.Context, msgID int64, seqNo int32, in bin.Encoder) error {
				var b bin.Buffer
				_ = in.Encode(&b)
				mu.Lock()
				k := len(got)
				got = append(got, tx{at: time.Since(t0), id: msgID, seqNo: seqNo, body: string(b.Buf)})
				mu.Unlock()
				if k == failAt {
					return errInjected
				}
				return nil
			}
			eng := rpc.New(send, rpc.Options{RetryInterval: retry, MaxRetries: maxRetries})
			ctx, cancel := context.WithCancel(context.Background())
			defer cancel()
			const id, seq = int64(4000), int32(7)
			type res struct {
				err error
				at  time.Duration
			}
			resCh := make(chan res, 1)
			go func() {
				err := eng.Do(ctx, rpc.Request{MsgID: id, SeqNo: seq, Input: rawEnc("retransmit-me"), Output: decoderFunc(func(b *bin.Buffer) error {
					if len(b.Buf) >= 9 && b.Buf[8] != 1 {
						return errBadDecode
					}
					return nil
				})})
				resCh <- res{err, time.Since(t0)}
			}()
			synctest.Wait()
			for _, e := range script {
				time.Sleep(e.at - time.Since(t0))
				synctest.Wait()
				switch e.kind {
				case "ack":
					eng.NotifyAcks([]int64{id})
				case "dupack":
					// batched msgs_ack: ids nobody waits for before and after ours
					eng.NotifyAcks([]int64{id - 4, id, id + 4})
				case "result":
					_ = eng.NotifyResult(id, &bin.Buffer{Buf: resultPayload(id, true)})
				case "badresult":
					_ = eng.NotifyResult(id, &bin.Buffer{Buf: resultPayload(id, false)})
				case "rpcerror":
					eng.NotifyError(id, errRPC)
				case "cancel":
					cancel()
				}
				synctest.Wait()
			}
			time.Sleep(time.Duration(maxRetries+3) * retry)
			synctest.Wait()
			var r res
			select {
			case r = <-resCh:
				if wantOutcome == "pending" {
					t.Fatalf("Do returned %v although the request was acknowledged and no result arrived", r.err)
				}
			default:
				if wantOutcome != "pending" {
					t.Fatalf("Do did not return; model expects outcome %q; transmissions %v", wantOutcome, got)
				}
				cancel()
				synctest.Wait()
				r = <-resCh
			}
			eng.ForceClose()
			// ---- compare with the model
			mu.Lock()
			defer mu.Unlock()
			for i, g := range got {
				if g.id != id || g.seqNo != seq || g.body != "retransmit-me" {
					t.Fatalf("transmission %d changed identity: %+v", i, g)
				}
			}
			var gotAt []time.Duration
			for _, g := range got {
				gotAt = append(gotAt, g.at)
			}
			if fmt.Sprint(gotAt) != fmt.Sprint(wantTx) {
				t.Fatalf("transmission instants %v, model %v (retry=%v max=%d failAt=%d script=%v)", gotAt, wantTx, retry, maxRetries, failAt, script)
			}
			if len(got) > 1+maxRetries {
				t.Fatalf("%d transmissions exceed 1+maxRetries=%d", len(got), 1+maxRetries)
			}
			switch wantOutcome {
			case "nil":
				if r.err != nil {
					t.Fatalf("want success, got %v", r.err)
				}
			case "canceled", "pending":
				if !errors.Is(r.err, context.Canceled) {
					t.Fatalf("want context.Canceled, got %v", r.err)
				}
			case "badresult":
				if !errors.Is(r.err, errBadDecode) {
					t.Fatalf("want the decode error, got %v", r.err)
				}
			case "rpcerror":
				if !errors.Is(r.err, errRPC) {
					t.Fatalf("want the rpc error, got %v", r.err)
				}
			case "sendfail":
				if !errors.Is(r.err, errInjected) {
					t.Fatalf("want the injected send failure (%v), got %v", errInjected, r.err)
				}
			case "limit":
				var lim *rpc.RetryLimitReachedErr
				if !errors.As(r.err, &lim) {
					t.Fatalf("want RetryLimitReachedErr, got %v", r.err)
				}
				if r.at != time.Duration(maxRetries)*retry {
					t.Fatalf("retry-limit failure at %v, want %v", r.at, time.Duration(maxRetries)*retry)
				}
			}
		})
		key := fmt.Sprintf("retry=%v max=%d failAt=%d(%v) script=%v", retry, maxRetries, failAt, errInjected == errWriteTimeout, script)
		st.Case(key, len(wantTx) > 1, key+fmt.Sprintf(" tx=%v outcome=%s", wantTx, wantOutcome), "outcome="+wantOutcome, fmt.Sprintf("tx=%d", len(wantTx)))
	})
}
