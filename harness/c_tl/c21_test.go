package c_tl

// C21: every generated TL type round-trips and decodes any bytes safely.
//
//   TestC21Registry   (plain)  the reflection registry is complete and consistent
//   TestC21           (rapid)  drawn constructor, generated value: round-trip oracle
//   TestC21Sweep      (plain, VERIF_N values per constructor) every constructor of
//                     tg, mt, e2e at least once, seed-derived start offset
//   TestC21Safety     (rapid)  mutated encodings / raw bytes through every decode
//                     entry point: no panic, stable when it decodes, allocation bound
//   TestC21Prealloc   (rapid)  one vector header rewritten to claim up to 2^31-1
//                     elements: allocation <= (n mod PreallocateLimit) elements + slack
//   TestC21Deep       (plain)  deepest chain per type cycle in a child process
//   TestC21Known      (plain)  replays listed findings
//   TestC21Child      child side of TestC21Deep
//   FuzzC21           native fuzz target

import (
	"bytes"
	"context"
	"encoding/binary"
	"encoding/json"
	"fmt"
	"os"
	"os/exec"
	"path/filepath"
	"reflect"
	"runtime"
	"runtime/debug"
	"strconv"
	"strings"
	"sync"
	"syscall"
	"testing"
	"time"

	"github.com/gotd/td/bin"
	"github.com/gotd/td/proto"
	"github.com/gotd/td/tg"
	"pgregory.net/rapid"

	"verifharness/pbt"
)

type fataler interface {
	Fatalf(format string, args ...any)
}

const (
	// sigGenericNil: decoding as one of the generic wrappers (invokeWithLayer, ...)
	// created by the type map calls Decode on a nil bin.Object.
	sigGenericNil = "C21/panic/generic-wrapper-nil-query"
	sigOverflow   = "C21/stack-overflow/cycle=" // + "<Class>.<constructor>" of the cycle
)

func encodeObj(o bin.Object) ([]byte, error) {
	var b bin.Buffer
	if err := o.Encode(&b); err != nil {
		return nil, err
	}
	return b.Buf, nil
}

var usedBuf []byte

// encodeObjUsed encodes o into a buffer that already holds pre bytes and whose
// spare capacity (at least hint+64 bytes) is filled with 0xA5, and returns
// what Encode appended. The bytes already there must stay as they were.
func encodeObjUsed(o bin.Object, pre, hint int) ([]byte, error) {
	need := pre + hint + 64
	if cap(usedBuf) < need {
		usedBuf = make([]byte, need*2)
	}
	dirty := usedBuf[:need]
	for i := range dirty {
		dirty[i] = 0xA5
	}
	b := bin.Buffer{Buf: usedBuf[:pre]}
	if err := o.Encode(&b); err != nil {
		return nil, err
	}
	for i := 0; i < pre; i++ {
		if b.Buf[i] != 0xA5 {
			return nil, fmt.Errorf("Encode changed byte %d of the %d bytes the buffer held before", i, pre)
		}
	}
	return append([]byte(nil), b.Buf[pre:]...), nil
}

// errClass reduces an Encode error to a short class for the statistics.
func errClass(err error) string {
	s := err.Error()
	switch {
	case strings.Contains(s, "is nil"):
		return "nil-field"
	case strings.Contains(s, "as nil"):
		return "nil-object"
	}
	if len(s) > 40 {
		s = s[:40]
	}
	return s
}

// roundTrip is the C21 round-trip oracle for one value p (pointer to struct) of ci.
// It returns the class of the Encode error if the value was rejected cleanly.
func roundTrip(ft fataler, ci *ctorInfo, p reflect.Value) (rejected string, encLen int) {
	obj := p.Interface().(bin.Object)
	show := func() string { return describe(p, 6) }
	b1, err := encodeObj(obj)
	if err != nil {
		return errClass(err), 0
	}
	if len(b1) < 4 || binary.LittleEndian.Uint32(b1) != ci.id {
		ft.Fatalf("%s: encoding does not start with the constructor id: % x\nvalue: %s", ci, trunc(b1), show())
	}
	// 1. decode through the constructor map of the schema
	fresh := reflect.ValueOf(ci.newFn())
	if fresh.Type() != p.Type() {
		ft.Fatalf("%s: TypesConstructorMap gives %s", ci, fresh.Type())
	}
	mirrorGenerics(p, fresh)
	src := append([]byte(nil), b1...)
	d := bin.Buffer{Buf: src}
	if err := fresh.Interface().(bin.Object).Decode(&d); err != nil {
		ft.Fatalf("%s: decode of own encoding failed: %v\nvalue: %s\nbytes: %x", ci, err, show(), b1)
	}
	if d.Len() != 0 {
		ft.Fatalf("%s: decode left %d of %d bytes\nvalue: %s\nbytes: %x", ci, d.Len(), len(b1), show(), b1)
	}
	// the receive buffer goes on to the next message: the decoded value must not live in it
	for i := range src {
		src[i] ^= 0x5A
	}
	if diff := tlEqual(p, fresh, ci.short); diff != "" {
		ft.Fatalf("%s: decoded value differs at %s\nvalue: %s\nbytes: %x", ci, diff, show(), b1)
	}
	// the re-encoding goes into a buffer that was used before (as the pooled
	// and Reset buffers of the senders are): its backing array is dirty, and
	// it may already hold a word. The bytes must not depend on that.
	pre := 4 * ((len(b1) / 4) % 2)
	b2, err := encodeObjUsed(fresh.Interface().(bin.Object), pre, len(b1))
	if err != nil {
		ft.Fatalf("%s: re-encode of the decoded value failed: %v\nvalue: %s", ci, err, show())
	}
	if !bytes.Equal(b1, b2) {
		ft.Fatalf("%s: re-encoding (into a used buffer holding %d bytes, dirty spare capacity) is not byte-identical\nfirst:  %x\nsecond: %x\nvalue: %s", ci, pre, b1, b2, show())
	}
	// 2. tmap.Constructor.New(id)
	o2 := ci.schema.tmap.New(ci.id)
	if o2 == nil || reflect.TypeOf(o2) != p.Type() {
		ft.Fatalf("%s: tmap.Constructor.New(%#x) = %T", ci, ci.id, o2)
	}
	v2 := reflect.ValueOf(o2)
	mirrorGenerics(p, v2)
	d = bin.Buffer{Buf: append([]byte(nil), b1...)}
	if err := o2.Decode(&d); err != nil || d.Len() != 0 {
		ft.Fatalf("%s: decode through tmap failed: err=%v left=%d\nvalue: %s", ci, err, d.Len(), show())
	}
	if diff := tlEqual(p, v2, ci.short); diff != "" {
		ft.Fatalf("%s: tmap-decoded value differs at %s\nvalue: %s", ci, diff, show())
	}
	// 3. class decoder
	if ci.class != "" {
		cd := ci.schema.classDec[ci.class]
		d = bin.Buffer{Buf: append([]byte(nil), b1...)}
		o3, err := cd.dec(&d)
		if err != nil || o3 == nil {
			ft.Fatalf("%s: class decoder %s failed on a valid encoding: obj=%v err=%v\nvalue: %s\nbytes: %x", ci, ci.class, o3, err, show(), b1)
		}
		if d.Len() != 0 {
			ft.Fatalf("%s: class decoder %s left %d bytes\nvalue: %s", ci, ci.class, d.Len(), show())
		}
		if reflect.TypeOf(o3) != p.Type() {
			ft.Fatalf("%s: class decoder %s returned %T, tmap returned %s", ci, ci.class, o3, p.Type())
		}
		if diff := tlEqual(v2, reflect.ValueOf(o3), ci.short); diff != "" {
			ft.Fatalf("%s: class decoder and tmap disagree at %s\nvalue: %s", ci, diff, show())
		}
	}
	return "", len(b1)
}

func requireRegistry(t testing.TB) {
	registry()
	if len(regProblems) > 0 {
		n := len(regProblems)
		if n > 20 {
			n = 20
		}
		t.Fatalf("C21 registry: %d problems, first: \n%s", len(regProblems), strings.Join(regProblems[:n], "\n"))
	}
}

// TestC21Registry: the registry covers exactly the maps and every class has a
// decoder entry.
func TestC21Registry(t *testing.T) {
	requireRegistry(t)
	st := pbt.NewStats("TestC21Registry")
	defer st.Flush()
	cond, shared, classes := 0, 0, 0
	for _, ci := range allCtors {
		for _, g := range ci.groups {
			cond++
			if len(g.fields) > 1 {
				shared++
			}
		}
		st.Case(ci.String(), true, ci.String(), "schema="+ci.schema.name)
	}
	for _, s := range schemas {
		classes += len(s.classes)
	}
	// calibration of allocFactor: Go size of a minimal object (plus the 16-byte
	// interface slot, allowing 4x for append growth) per byte of its encoding
	worst, worstName := 0.0, ""
	for _, ci := range allCtors {
		enc, err := encodeObj(minimalValue(ci).Interface().(bin.Object))
		if err != nil {
			t.Errorf("minimal value of %s does not encode: %v", ci, err)
			continue
		}
		if r := float64(ci.typ.Size()+4*16) / float64(len(enc)); r > worst {
			worst, worstName = r, ci.String()
		}
	}
	st.Set("worst_memory_per_wire_byte", worst)
	t.Logf("worst memory per wire byte of a minimal object: %.1f (%s); allocFactor=%d", worst, worstName, allocFactor)
	if worst*2 > allocFactor {
		t.Errorf("allocFactor %d is too tight for %s (%.1f bytes of memory per wire byte)", allocFactor, worstName, worst)
	}
	st.Set("constructors", len(allCtors))
	st.Set("classes", classes)
	st.Set("flag_bits", cond)
	st.Set("shared_flag_bits", shared)
	st.Set("max_vector_elem_size", int(maxElemSize))
	t.Logf("constructors=%d classes=%d flag bits=%d (shared by >1 field: %d) max vector element size=%d",
		len(allCtors), classes, cond, shared, maxElemSize)
}

type genResult struct {
	p  reflect.Value
	g  vgen
	ci *ctorInfo
}

func genFor(ci *ctorInfo, budget int) *rapid.Generator[genResult] {
	return rapid.Custom(func(t *rapid.T) genResult {
		// a Custom generator must consume data even for field-less constructors
		_ = rapid.Bool().Draw(t, "_")
		g := vgen{t: t}
		p := g.ctor(ci, budget)
		g.t = nil
		return genResult{p: p, g: g, ci: ci}
	})
}

func valueClasses(r genResult, rejected string) (nontrivial bool, classes []string) {
	nontrivial = r.g.optional > 0 || r.g.nested > 0
	classes = append(classes, "schema="+r.ci.schema.name)
	if r.g.optional > 0 {
		classes = append(classes, "optional-present")
	}
	if r.g.nested > 0 {
		classes = append(classes, "nested-interface")
	}
	if r.g.presentZ > 0 {
		classes = append(classes, "present-with-zero-value")
	}
	if r.ci.hasGeneric {
		classes = append(classes, "generic-wrapper")
	}
	switch {
	case r.g.nodes >= 50:
		classes = append(classes, "objects>=50")
	case r.g.nodes >= 10:
		classes = append(classes, "objects>=10")
	default:
		classes = append(classes, "objects<10")
	}
	if rejected != "" {
		classes = append(classes, "rejected-cleanly", "rejected:"+rejected)
	}
	return
}

const c21Budget = 4

// TestC21: drawn constructor, generated value, round-trip oracle.
func TestC21(t *testing.T) {
	requireRegistry(t)
	st := pbt.NewStats("TestC21")
	defer st.Flush()
	rapid.Check(t, func(t *rapid.T) {
		ci := allCtors[rapid.IntRange(0, len(allCtors)-1).Draw(t, "ctor")]
		r := genFor(ci, c21Budget).Draw(t, "value")
		rejected, _ := roundTrip(t, ci, r.p)
		nt, cl := valueClasses(r, rejected)
		for _, sig := range r.g.excluded {
			st.Excluded(sig)
		}
		st.Case(describe(r.p, 8), nt && rejected == "", describe(r.p, 3), cl...)
	})
}

// TestC21Sweep covers every constructor of the three schemas VERIF_N times
// (default 2), starting at a seed-derived offset; values come from the same
// generator through Generator.Example(seed). Besides the round-trip oracle each
// encoding is truncated at every word boundary and decoded (no panic, bounded
// allocation for the whole batch).
func TestC21Sweep(t *testing.T) {
	requireRegistry(t)
	st := pbt.NewStats("TestC21Sweep")
	defer st.Flush()
	reps := envInt("VERIF_N", 2)
	seed := envInt("VERIF_SEED", 1)
	shard, shards := envInt("VERIF_SHARD", 0), envInt("VERIF_SHARDS", 1)
	n := len(allCtors)
	offset := int(uint64(seed) * 2654435761 % uint64(n))
	if rf := os.Getenv("VERIF_REPLAY_FILE"); rf != "" {
		var rp sweepReplay
		raw, err := os.ReadFile(rf)
		if err != nil || json.Unmarshal(raw, &rp) != nil {
			t.Fatalf("replay file %s: %v", rf, err)
		}
		ci := schemaByName(rp.Schema).byID[rp.ID]
		sweepOne(t, st, ci, rp.ExampleSeed)
		return
	}
	rejected, total := 0, 0
	covered := map[*ctorInfo]bool{}
	for i := 0; i < n; i++ {
		if i%shards != shard {
			continue
		}
		ci := allCtors[(offset+i)%n]
		for k := 0; k < reps; k++ {
			ex := seed*1000003 + i*131 + k
			total++
			if sweepOne(t, st, ci, ex) {
				rejected++
			} else {
				covered[ci] = true
			}
			if t.Failed() {
				writeReplay(t, "sweep", sweepReplay{Schema: ci.schema.name, ID: ci.id, Name: ci.name, ExampleSeed: ex})
				return
			}
		}
	}
	st.Set("constructors_covered", len(covered))
	st.Set("constructors_total", n/shards)
	st.Set("rejected_cleanly", rejected)
	if shards == 1 && len(covered) != n {
		var miss []string
		for _, ci := range allCtors {
			if !covered[ci] && len(miss) < 10 {
				miss = append(miss, ci.String())
			}
		}
		t.Errorf("sweep covered %d of %d constructors; not covered (all values rejected by Encode): %v", len(covered), n, miss)
	}
	if rejected*5 > total {
		t.Errorf("generator: %d of %d values rejected by Encode (>20%%)", rejected, total)
	}
	t.Logf("sweep: %d constructors x %d values, %d rejected cleanly", n, reps, rejected)
}

type sweepReplay struct {
	Schema      string `json:"schema"`
	ID          uint32 `json:"id"`
	Name        string `json:"name"`
	ExampleSeed int    `json:"example_seed"`
}

func writeReplay(t testing.TB, name string, v any) {
	dir := os.Getenv("VERIF_REPLAY_DIR")
	if dir == "" {
		return
	}
	b, _ := json.Marshal(v)
	_ = os.MkdirAll(dir, 0o755)
	_ = os.WriteFile(filepath.Join(dir, name+".json"), b, 0o644)
}

type errCollector struct {
	t      testing.TB
	prefix string
}

type sweepAbort struct{}

func (e errCollector) Fatalf(format string, args ...any) {
	e.t.Errorf(e.prefix+format, args...)
	panic(sweepAbort{})
}

func sweepOne(t *testing.T, st *pbt.Stats, ci *ctorInfo, exampleSeed int) (rejectedCleanly bool) {
	defer func() {
		if r := recover(); r != nil {
			if _, ok := r.(sweepAbort); ok {
				return
			}
			t.Errorf("%s example seed %d: panic: %v\n%s", ci, exampleSeed, r, debug.Stack())
		}
	}()
	r := genFor(ci, c21Budget).Example(exampleSeed)
	ft := errCollector{t, fmt.Sprintf("[example seed %d] ", exampleSeed)}
	rejected, _ := roundTrip(ft, ci, r.p)
	nt, cl := valueClasses(r, rejected)
	for _, sig := range r.g.excluded {
		st.Excluded(sig)
	}
	if rejected == "" {
		// every word-boundary truncation of the valid encoding, as one batch
		b1, _ := encodeObj(r.p.Interface().(bin.Object))
		var m0, m1 runtime.MemStats
		bound := uint64(0)
		runtime.ReadMemStats(&m0)
		for cut := 0; cut < len(b1); cut += 4 {
			in := b1[:cut:cut]
			bound += allocBound(in)
			o := ci.newFn()
			mirrorGenerics(r.p, reflect.ValueOf(o))
			if err := o.Decode(&bin.Buffer{Buf: in}); err == nil {
				st.Class("prefix-decoded") // value-or-error is all the property asks
			}
		}
		runtime.ReadMemStats(&m1)
		if d := m1.TotalAlloc - m0.TotalAlloc; d > bound {
			ft.Fatalf("%s: decoding all truncations of %d bytes allocated %d bytes, bound %d", ci, len(b1), d, bound)
		}
		cl = append(cl, "truncations")
	}
	st.Case(describe(r.p, 8), nt && rejected == "", describe(r.p, 3), cl...)
	return rejected != ""
}

func envInt(name string, def int) int {
	if v, err := strconv.Atoi(os.Getenv(name)); err == nil {
		return v
	}
	return def
}

// ---------------------------------------------------------------------------
// safety

// allocFactor: bytes of Go memory a decoder may allocate per input byte for the
// elements that are really present in the input. Worst legitimate case: a
// vector whose elements are 4..8 bytes on the wire and a few hundred bytes in
// memory, grown by append (total allocated <= 4x final). Calibrated in
// TestC21Registry's log: see allocSlack below.
const (
	allocFactor = 128
	allocSlack  = 64 << 10
)

// allocBound is the stated allocation bound for decoding `in` as any type:
// allocFactor*len + slack for what is present, plus for every aligned word that
// could be read as a vector length n > 0 the allowed preallocation of
// (n mod PreallocateLimit) elements of the largest vector element type.
func allocBound(in []byte) uint64 {
	b := uint64(allocFactor*len(in) + allocSlack)
	for i := 0; i+4 <= len(in); i += 4 {
		w := int32(binary.LittleEndian.Uint32(in[i:]))
		if w > 0 {
			b += uint64(int(w)%bin.PreallocateLimit) * uint64(maxElemSize)
		}
	}
	return b
}

type decodeMode int

const (
	modeCtor      decodeMode = iota // TypesConstructorMap()[id]().Decode
	modeTmap                        // tmap.Constructor.New(PeekID).Decode
	modeClass                       // class decoder of the constructor's class
	modeBare                        // DecodeBare of the constructor (input without id)
	modeOtherType                   // a different constructor / class decodes the bytes
	numModes
)

var modeNames = []string{"ctor.Decode", "tmap.New+Decode", "class decoder", "DecodeBare", "other type"}

// prepareGenerics gives every bin.Object field of o an inner object, the way a
// caller has to before decoding a generic wrapper.
func prepareGenerics(o bin.Object) {
	v := reflect.ValueOf(o)
	ci := byType[v.Elem().Type()]
	if ci == nil || !ci.hasGeneric {
		return
	}
	for _, f := range ci.fields {
		if f.kind == kGeneric && v.Elem().Field(f.idx).IsNil() {
			v.Elem().Field(f.idx).Set(reflect.ValueOf(ci.schema.leaf.newFn()))
		}
	}
}

// decodeAs runs one decode entry point. decoded == nil on error.
func decodeAs(ci *ctorInfo, mode decodeMode, other *ctorInfo, in []byte, gateGeneric bool) (bin.Object, *bin.Buffer, error) {
	b := &bin.Buffer{Buf: in}
	prep := func(o bin.Object) bin.Object {
		if gateGeneric {
			prepareGenerics(o)
		}
		return o
	}
	switch mode {
	case modeCtor:
		o := prep(ci.newFn())
		return o, b, o.Decode(b)
	case modeTmap:
		id, err := b.PeekID()
		if err != nil {
			return nil, b, err
		}
		o := ci.schema.tmap.New(id)
		if o == nil {
			return nil, b, fmt.Errorf("harness: unknown id %#x", id)
		}
		prep(o)
		return o, b, o.Decode(b)
	case modeClass:
		if ci.class == "" {
			o := prep(ci.newFn())
			return o, b, o.Decode(b)
		}
		o, err := ci.schema.classDec[ci.class].dec(b)
		if err == nil && o == nil {
			return nil, b, fmt.Errorf("harness: class decoder returned (nil, nil)")
		}
		return o, b, err
	case modeBare:
		o := prep(ci.newFn())
		bd, ok := o.(bin.BareDecoder)
		if !ok {
			return o, b, o.Decode(b)
		}
		return o, b, bd.DecodeBare(b)
	case modeOtherType:
		if other.class != "" {
			o, err := other.schema.classDec[other.class].dec(b)
			if err == nil && o == nil {
				return nil, b, fmt.Errorf("harness: class decoder returned (nil, nil)")
			}
			return o, b, err
		}
		o := prep(other.newFn())
		return o, b, o.Decode(b)
	}
	panic("mode")
}

// checkDecode is the safety oracle for one input: no panic (the caller's
// framework reports panics), allocation within allocBound, and if the bytes
// decode, the decoded value re-encodes and that encoding round-trips stably.
func checkDecode(ft fataler, ci *ctorInfo, mode decodeMode, other *ctorInfo, in []byte, gateGeneric bool) (decoded bool, alloc uint64) {
	in = append([]byte(nil), in...)
	bound := allocBound(in)
	var m0, m1 runtime.MemStats
	runtime.ReadMemStats(&m0)
	o, buf, err := decodeAs(ci, mode, other, in, gateGeneric)
	runtime.ReadMemStats(&m1)
	alloc = m1.TotalAlloc - m0.TotalAlloc
	if alloc > bound {
		ft.Fatalf("%s via %s: decoding %d bytes allocated %d bytes (bound %d = %d*len + %d + allowed preallocation); err=%v\ninput: %x",
			ci, modeNames[mode], len(in), alloc, bound, allocFactor, allocSlack, err, in)
	}
	if err != nil {
		return false, alloc
	}
	if o == nil {
		ft.Fatalf("%s via %s: no error and no object; input %x", ci, modeNames[mode], in)
	}
	consumed := len(in) - buf.Len()
	// stability of what was decoded
	b2, err := encodeObj(o)
	if err != nil {
		ft.Fatalf("%s via %s: the decoder produced a value that Encode rejects: %v\ninput: %x\nvalue: %s",
			ci, modeNames[mode], err, in, describe(reflect.ValueOf(o), 6))
	}
	if mode == modeBare {
		return true, alloc
	}
	v := reflect.ValueOf(o)
	o3 := reflect.New(v.Elem().Type())
	mirrorGenerics(v, o3)
	d := bin.Buffer{Buf: append([]byte(nil), b2...)}
	if err := o3.Interface().(bin.Object).Decode(&d); err != nil || d.Len() != 0 {
		ft.Fatalf("%s via %s: re-encoding of a decoded value does not decode: err=%v left=%d\ninput: %x\nre-encoded: %x",
			ci, modeNames[mode], err, d.Len(), in, b2)
	}
	if diff := tlEqual(v, o3, "value"); diff != "" {
		ft.Fatalf("%s via %s: decode(encode(decode(in))) differs from decode(in) at %s\ninput: %x\nre-encoded: %x",
			ci, modeNames[mode], diff, in, b2)
	}
	b3, err := encodeObj(o3.Interface().(bin.Object))
	if err != nil || !bytes.Equal(b2, b3) {
		ft.Fatalf("%s via %s: encoding is not stable after one round: err=%v\ninput: %x\nsecond: %x\nthird:  %x",
			ci, modeNames[mode], err, in, b2, b3)
	}
	_ = consumed
	return true, alloc
}

var hostileWords = []uint32{0x7fffffff, 0xffffffff, 0x80000000, 1023, 1024, 1025, 0x7ffffc00, 0x7ffffbff,
	bin.TypeVector, 0xfffffffe, 0x00fffffe, 0xfefefefe, 0x000000fe, 0, 1, 0x997275b5 /*boolTrue*/}

// mutate applies one drawn mutation to a valid encoding (construction, not rejection).
func mutate(t *rapid.T, in []byte, otherEnc func() []byte) ([]byte, string) {
	in = append([]byte(nil), in...)
	kinds := []string{"bitflip", "truncate", "extend", "word", "veccount", "splice", "none", "idflip"}
	kind := rapid.SampledFrom(kinds).Draw(t, "mutation")
	words := len(in) / 4
	switch kind {
	case "bitflip":
		if len(in) > 0 {
			i := rapid.IntRange(0, len(in)-1).Draw(t, "pos")
			in[i] ^= 1 << uint(rapid.IntRange(0, 7).Draw(t, "bit"))
		}
	case "idflip":
		if len(in) >= 4 {
			i := rapid.IntRange(0, 3).Draw(t, "pos")
			in[i] ^= 1 << uint(rapid.IntRange(0, 7).Draw(t, "bit"))
		}
	case "truncate":
		in = in[:rapid.IntRange(0, len(in)).Draw(t, "cut")]
	case "extend":
		in = append(in, pbt.DrawBytes(t, "ext", rapid.IntRange(1, 16).Draw(t, "extn"))...)
	case "word":
		if words > 1 {
			i := rapid.IntRange(1, words-1).Draw(t, "wpos")
			binary.LittleEndian.PutUint32(in[4*i:], rapid.SampledFrom(hostileWords).Draw(t, "w"))
		}
	case "veccount":
		// rewrite the count after a vector id (if any), else like "word"
		var pos []int
		for i := 0; i+8 <= len(in); i += 4 {
			if binary.LittleEndian.Uint32(in[i:]) == bin.TypeVector {
				pos = append(pos, i+4)
			}
		}
		if len(pos) > 0 {
			p := pos[rapid.IntRange(0, len(pos)-1).Draw(t, "vpos")]
			n := rapid.OneOf(rapid.SampledFrom([]uint32{0x7fffffff, 0x80000000, 0xffffffff, 1023, 1024, 1025, 2047, 1 << 20, 1 << 30}),
				rapid.Uint32Range(0, 0x7fffffff)).Draw(t, "count")
			binary.LittleEndian.PutUint32(in[p:], n)
		} else if words > 1 {
			i := rapid.IntRange(1, words-1).Draw(t, "wpos")
			binary.LittleEndian.PutUint32(in[4*i:], 0x7fffffff)
		}
	case "splice":
		o := otherEnc()
		a := 4 * rapid.IntRange(0, words).Draw(t, "cutA")
		bw := len(o) / 4
		b := 4 * rapid.IntRange(0, bw).Draw(t, "cutB")
		in = append(in[:a:a], o[b:]...)
	}
	return in, kind
}

// TestC21Safety: mutated valid encodings and raw bytes through all decode entry points.
func TestC21Safety(t *testing.T) {
	requireRegistry(t)
	st := pbt.NewStats("TestC21Safety")
	defer st.Flush()
	gate := pbt.Known("C21", sigGenericNil)
	var maxExcess uint64
	rapid.Check(t, func(t *rapid.T) {
		ci := allCtors[rapid.IntRange(0, len(allCtors)-1).Draw(t, "ctor")]
		mode := decodeMode(rapid.IntRange(0, int(numModes)-1).Draw(t, "mode"))
		var other *ctorInfo
		if mode == modeOtherType {
			other = allCtors[rapid.IntRange(0, len(allCtors)-1).Draw(t, "other")]
		}
		class := rapid.SampledFrom([]string{"mutated", "mutated", "mutated", "raw", "raw-after-id"}).Draw(t, "class")
		var in []byte
		mut := ""
		switch class {
		case "mutated":
			r := genFor(ci, 2).Draw(t, "value")
			enc, err := encodeObj(r.p.Interface().(bin.Object))
			if err != nil {
				enc = binary.LittleEndian.AppendUint32(nil, ci.id)
			}
			in, mut = mutate(t, enc, func() []byte {
				oc := allCtors[rapid.IntRange(0, len(allCtors)-1).Draw(t, "spliceCtor")]
				e, err := encodeObj(genFor(oc, 1).Draw(t, "spliceValue").p.Interface().(bin.Object))
				if err != nil {
					return nil
				}
				return e
			})
		case "raw":
			in = pbt.DrawBytes(t, "in", rapid.IntRange(0, 64).Draw(t, "n"))
		case "raw-after-id":
			in = binary.LittleEndian.AppendUint32(nil, ci.id)
			in = append(in, pbt.DrawBytes(t, "in", 4*rapid.IntRange(0, 24).Draw(t, "n"))...)
			// sprinkle hostile words
			for k := rapid.IntRange(0, 3).Draw(t, "hostile"); k > 0 && len(in) > 4; k-- {
				i := rapid.IntRange(1, len(in)/4-1).Draw(t, "hpos")
				binary.LittleEndian.PutUint32(in[4*i:], rapid.SampledFrom(hostileWords).Draw(t, "hw"))
			}
		}
		if mode == modeBare && len(in) >= 4 && class != "raw" {
			in = in[4:]
		}
		target := ci
		if other != nil {
			target = other
		}
		usesGeneric := target.hasGeneric && mode != modeClass
		if mode == modeTmap && len(in) >= 4 {
			if c := ci.schema.byID[binary.LittleEndian.Uint32(in)]; c != nil {
				usesGeneric = c.hasGeneric
			}
		}
		if usesGeneric && gate {
			st.Excluded(sigGenericNil)
		}
		decoded, alloc := checkDecode(t, ci, mode, other, in, gate)
		if alloc > maxExcess {
			maxExcess = alloc
		}
		cl := []string{class, "mode=" + modeNames[mode], fmt.Sprintf("decoded=%v", decoded)}
		if mut != "" {
			cl = append(cl, "mut="+mut)
		}
		st.Case(fmt.Sprintf("%s/%d/%x", ci.name, mode, in), len(in) > 0,
			fmt.Sprintf("%s via %s: %s %s len=%d decoded=%v", ci.name, modeNames[mode], class, mut, len(in), decoded), cl...)
	})
	st.Set("max_alloc_observed", int(maxExcess))
}

// ---------------------------------------------------------------------------
// vector preallocation

// vecCountOffset finds the offset of the count word of vector field f of ci by
// encoding the same minimal value with one and with two elements: the first
// differing word is the count.
func vecCase(ci *ctorInfo, fidx int, elems int) (enc []byte, countOff, elemLen int, err error) {
	build := func(n int) ([]byte, error) {
		p := minimalValue(ci)
		f := ci.fields[fidx]
		setPresent(ci, p, fidx)
		s := reflect.MakeSlice(f.typ, n, n)
		for i := 0; i < n; i++ {
			s.Index(i).Set(minimalOf(f.typ.Elem()))
		}
		p.Elem().Field(f.idx).Set(s)
		return encodeObj(p.Interface().(bin.Object))
	}
	a, err := build(elems)
	if err != nil {
		return nil, 0, 0, err
	}
	b, err := build(elems + 1)
	if err != nil {
		return nil, 0, 0, err
	}
	for i := 0; i+4 <= len(a); i += 4 {
		wa, wb := binary.LittleEndian.Uint32(a[i:]), binary.LittleEndian.Uint32(b[i:])
		if wa != wb {
			if int(wa) != elems || int(wb) != elems+1 {
				return nil, 0, 0, fmt.Errorf("first differing word is not the count (%d vs %d)", wa, wb)
			}
			return a, i, len(b) - len(a), nil
		}
	}
	return nil, 0, 0, fmt.Errorf("no differing word")
}

// minimalOf returns the minimal value of a field type.
func minimalOf(t reflect.Type) reflect.Value {
	switch kindOf(t) {
	case kStruct:
		return minimalValue(byType[t]).Elem()
	case kClass:
		return minimalValue(minImplementers(t)[0]).Convert(t)
	case kGeneric:
		return minimalValue(schemaByName("tg").leaf).Convert(t)
	}
	return reflect.Zero(t)
}

// setPresent makes the presence group of field fidx present in p with minimal
// contents (flag bit set explicitly, `true` fields true, object fields minimal).
func setPresent(ci *ctorInfo, p reflect.Value, fidx int) {
	f := ci.fields[fidx]
	if !f.cond {
		return
	}
	sv := p.Elem()
	for _, j := range ci.groups[f.group].fields {
		g := ci.fields[j]
		switch g.kind {
		case kBool:
			sv.Field(g.idx).SetBool(true)
		case kClass, kStruct:
			sv.Field(g.idx).Set(minimalOf(g.typ))
		}
	}
	fl := sv.Field(f.flagField)
	fl.SetUint(fl.Uint() | 1<<uint(f.bit))
}

type vecField struct {
	ci   *ctorInfo
	fidx int
}

var (
	vecFieldsOnce sync.Once
	vecFields     []vecField
)

func allVecFields() []vecField {
	vecFieldsOnce.Do(func() {
		registry()
		for _, ci := range allCtors {
			for i, f := range ci.fields {
				if f.kind == kVector {
					vecFields = append(vecFields, vecField{ci, i})
				}
			}
		}
	})
	return vecFields
}

const preallocSlack = 16 << 10

// TestC21Prealloc: one vector header of an otherwise valid encoding claims n
// elements, n up to 2^31-1. Oracle: the decode allocates at most
// (n mod PreallocateLimit) * sizeof(element) + allocFactor*len(input) + 16 KiB
// (that is: never more than PreallocateLimit elements ahead of the data).
func TestC21Prealloc(t *testing.T) {
	requireRegistry(t)
	st := pbt.NewStats("TestC21Prealloc")
	defer st.Flush()
	vf := allVecFields()
	// bare vectors (no vector constructor id in front of the count) read their
	// count without the checks of the boxed header: a handful of fields among
	// thousands, so they get their own share of the cases
	var bare []vecField
	for _, v := range vf {
		if enc, off, _, err := vecCase(v.ci, v.fidx, 0); err == nil && (off < 4 || binary.LittleEndian.Uint32(enc[off-4:]) != 0x1cb5c415) {
			bare = append(bare, v)
		}
	}
	st.Set("bare_vector_fields", len(bare))
	var maxOver int64 = -1 << 62
	rapid.Check(t, func(t *rapid.T) {
		v := vf[rapid.IntRange(0, len(vf)-1).Draw(t, "vecField")]
		isBare := false
		if len(bare) > 0 && rapid.IntRange(0, 7).Draw(t, "bareField") == 0 {
			v = bare[rapid.IntRange(0, len(bare)-1).Draw(t, "bareIdx")]
			isBare = true
		}
		f := v.ci.fields[v.fidx]
		elems := rapid.IntRange(0, 3).Draw(t, "elems")
		enc, off, elemLen, err := vecCase(v.ci, v.fidx, elems)
		if err != nil {
			t.Fatalf("harness: %s field %s: %v", v.ci, f.name, err)
		}
		var n int
		switch rapid.IntRange(0, 4).Draw(t, "claimClass") {
		case 4: // the count word is a signed int: negative claims
			n = rapid.OneOf(rapid.SampledFrom([]int{-1, -2, -7, -1023, -1024, -1025, -2048, -1 << 31, -1<<31 + 1, -1<<31 + 1023}), rapid.IntRange(-1<<31, -1)).Draw(t, "claimedNeg")
		case 0:
			n = rapid.SampledFrom([]int{1023, 1024, 1025, 2047, 2048, 65535, 1 << 20, 1<<24 + 5, 1<<31 - 1, 1<<31 - 1024, 1<<31 - 1025, 1 << 30}).Draw(t, "claimed")
		case 1:
			n = rapid.IntRange(1024, 1<<31-1).Draw(t, "claimed")
		case 2: // uniform over the whole range
			n = 1024 + int(binary.LittleEndian.Uint32(pbt.DrawBytes(t, "claimedU", 4))%(1<<31-1024))
		case 3: // largest remainder: the full allowed preallocation
			n = int(binary.LittleEndian.Uint32(pbt.DrawBytes(t, "claimedK", 4))%(1<<21))*1024 + 1023
		}
		in := append([]byte(nil), enc...)
		binary.LittleEndian.PutUint32(in[off:], uint32(n))
		tail := rapid.SampledFrom([]string{"keep", "cut-after-header", "cut-after-elems"}).Draw(t, "tail")
		switch tail {
		case "cut-after-header":
			in = in[:off+4]
		case "cut-after-elems":
			in = in[:off+4+elems*elemLen]
		}
		elemSize := uint64(f.typ.Elem().Size())
		pre := n % bin.PreallocateLimit
		if pre < 0 {
			pre = 0 // a negative claim entitles to no preallocation at all
		}
		allowed := uint64(pre)*elemSize + uint64(allocFactor*len(in)) + preallocSlack
		var m0, m1 runtime.MemStats
		o := v.ci.newFn()
		prepareGenerics(o)
		runtime.ReadMemStats(&m0)
		derr := o.Decode(&bin.Buffer{Buf: in})
		runtime.ReadMemStats(&m1)
		alloc := m1.TotalAlloc - m0.TotalAlloc
		if alloc > allowed {
			t.Fatalf("%s field %s (element %s, %d bytes): header claims %d elements, %d present: decode allocated %d bytes, allowed %d (= %d mod %d elements + %d*len + %d); err=%v\ninput: %x",
				v.ci, f.name, f.typ.Elem(), elemSize, n, elems, alloc, allowed, n, bin.PreallocateLimit, allocFactor, preallocSlack, derr, in)
		}
		if over := int64(alloc) - int64(uint64(pre)*elemSize); over > maxOver {
			maxOver = over
		}
		cl := []string{tail, fmt.Sprintf("err=%v", derr != nil), "elemKind=" + f.typ.Elem().Kind().String(), fmt.Sprintf("bare=%v", isBare)}
		switch {
		case n < 0:
			cl = append(cl, "claimed<0")
		case n >= 1<<30:
			cl = append(cl, "claimed>=2^30")
		case n >= 1<<20:
			cl = append(cl, "claimed>=2^20")
		default:
			cl = append(cl, "claimed<2^20")
		}
		if n%bin.PreallocateLimit == 0 {
			cl = append(cl, "claimed multiple of limit")
		}
		st.Case(fmt.Sprintf("%s.%s/%d/%d/%s", v.ci.name, f.name, elems, n, tail), n > bin.PreallocateLimit || n < 0,
			fmt.Sprintf("%s.%s claimed=%d present=%d %s alloc=%d", v.ci.name, f.name, n, elems, tail, alloc), cl...)
	})
	st.Set("vector_fields", len(vf))
	st.Set("max_alloc_beyond_prealloc", int(maxOver))
}

// ---------------------------------------------------------------------------
// deep nesting

const (
	gzipLimit    = 10 * 1024 * 1024
	deepMaxBytes = gzipLimit - 1 // largest payload proto.GZIP.Decode lets through
)

type chainPlan struct {
	cy      cycle
	prefix  []byte // all steps' prefixes, outermost first
	suffix  []byte // all steps' suffixes, innermost first
	leaf    []byte // minimal encoding of the first constructor
	entry   *ctorInfo
	perStep int
}

// planChain computes, for every step C --field--> D of the cycle, the bytes of a
// minimal C before and after the nested object, by encoding C around a minimal
// D and locating D's encoding; the plan is verified by decoding a 3-level chain
// (full consumption, byte-identical re-encode).
func planChain(cy cycle) (*chainPlan, error) {
	k := len(cy.steps)
	pl := &chainPlan{cy: cy, entry: cy.steps[0].ci}
	type ps struct{ p, s []byte }
	// candidates per step
	cands := make([][]ps, k)
	for i, stp := range cy.steps {
		next := cy.steps[(i+1)%k].ci
		x := minimalValue(next)
		encX, err := encodeObj(x.Interface().(bin.Object))
		if err != nil {
			return nil, fmt.Errorf("step %d: minimal %s does not encode: %v", i, next, err)
		}
		c := minimalValue(stp.ci)
		f := stp.ci.fields[stp.field]
		setPresent(stp.ci, c, stp.field)
		fv := c.Elem().Field(f.idx)
		et := f.typ
		if f.kind == kVector {
			et = f.typ.Elem()
		}
		var child reflect.Value
		if kindOf(et) == kStruct {
			child = x.Elem()
		} else {
			child = x.Convert(et)
		}
		if f.kind == kVector {
			s := reflect.MakeSlice(f.typ, 1, 1)
			s.Index(0).Set(child)
			fv.Set(s)
		} else {
			fv.Set(child)
		}
		encC, err := encodeObj(c.Interface().(bin.Object))
		if err != nil {
			return nil, fmt.Errorf("step %d: %s around %s does not encode: %v", i, stp.ci, next, err)
		}
		for off := 4; off+len(encX) <= len(encC); off += 4 {
			if bytes.Equal(encC[off:off+len(encX)], encX) {
				cands[i] = append(cands[i], ps{encC[:off], encC[off+len(encX):]})
			}
		}
		if len(cands[i]) == 0 {
			return nil, fmt.Errorf("step %d: encoding of %s not found inside %s (bare element?)", i, next, stp.ci)
		}
	}
	leafV := minimalValue(pl.entry)
	leaf, err := encodeObj(leafV.Interface().(bin.Object))
	if err != nil {
		return nil, err
	}
	pl.leaf = leaf
	// try candidate combinations (almost always exactly one)
	idx := make([]int, k)
	for tries := 0; tries < 64; tries++ {
		var p, s []byte
		for i := 0; i < k; i++ {
			p = append(p, cands[i][idx[i]].p...)
		}
		for i := k - 1; i >= 0; i-- {
			s = append(s, cands[i][idx[i]].s...)
		}
		pl.prefix, pl.suffix, pl.perStep = p, s, len(p)+len(s)
		if pl.verify() == nil {
			return pl, nil
		}
		// next combination
		j := 0
		for ; j < k; j++ {
			idx[j]++
			if idx[j] < len(cands[j]) {
				break
			}
			idx[j] = 0
		}
		if j == k {
			break
		}
	}
	return nil, fmt.Errorf("no candidate split verifies: %v", pl.verify())
}

func (pl *chainPlan) build(levels int) []byte {
	out := make([]byte, 0, levels*pl.perStep+len(pl.leaf))
	for i := 0; i < levels; i++ {
		out = append(out, pl.prefix...)
	}
	out = append(out, pl.leaf...)
	for i := 0; i < levels; i++ {
		out = append(out, pl.suffix...)
	}
	return out
}

func (pl *chainPlan) maxLevels() int {
	return (deepMaxBytes - len(pl.leaf)) / pl.perStep
}

func (pl *chainPlan) decode(in []byte) (bin.Object, int, error) {
	b := &bin.Buffer{Buf: in}
	if pl.entry.class != "" {
		o, err := pl.entry.schema.classDec[pl.entry.class].dec(b)
		return o, b.Len(), err
	}
	o := pl.entry.newFn()
	err := o.Decode(b)
	return o, b.Len(), err
}

func (pl *chainPlan) verify() error {
	in := pl.build(3)
	o, left, err := pl.decode(append([]byte(nil), in...))
	if err != nil {
		return fmt.Errorf("3-level chain does not decode: %v", err)
	}
	if left != 0 {
		return fmt.Errorf("3-level chain leaves %d bytes", left)
	}
	re, err := encodeObj(o)
	if err != nil || !bytes.Equal(re, in) {
		return fmt.Errorf("3-level chain does not re-encode identically (err=%v)", err)
	}
	return nil
}

type childSpec struct {
	Label   string `json:"label"`
	Payload string `json:"payload"` // file with the raw chain
	Levels  int    `json:"levels"`
}

type childOutcome struct {
	kind    string // "ok", "decode-error", "stack-overflow", "oom", "timeout", "other"
	detail  string
	elapsed time.Duration
}

const childEnv = "VERIF_C21_CHILD"

// runDeepChild re-executes the test binary so that a Go fatal error (which no
// recover can catch) is an observable outcome instead of the end of the run.
func runDeepChild(pl *chainPlan, levels int) childOutcome {
	dir, err := os.MkdirTemp("", "c21deep")
	if err != nil {
		return childOutcome{kind: "other", detail: err.Error()}
	}
	defer os.RemoveAll(dir)
	pf := filepath.Join(dir, "payload.bin")
	if err := os.WriteFile(pf, pl.build(levels), 0o644); err != nil {
		return childOutcome{kind: "other", detail: err.Error()}
	}
	spec, _ := json.Marshal(childSpec{Label: pl.cy.label, Payload: pf, Levels: levels})
	exe, err := os.Executable()
	if err != nil {
		return childOutcome{kind: "other", detail: err.Error()}
	}
	ctx, cancel := context.WithTimeout(context.Background(), 150*time.Second)
	defer cancel()
	cmd := exec.CommandContext(ctx, exe, "-test.run=^TestC21Child$", "-test.v", "-test.timeout=140s", "-test.count=1")
	cmd.Env = append(os.Environ(), childEnv+"="+string(spec), "VERIF_STATS_DIR=")
	cmd.Dir = dir
	var out cappedBuffer
	cmd.Stdout, cmd.Stderr = &out, &out
	t0 := time.Now()
	runErr := cmd.Run()
	el := time.Since(t0)
	s := out.String()
	res := childOutcome{elapsed: el}
	switch {
	case strings.Contains(s, "goroutine stack exceeds") || strings.Contains(s, "fatal error: stack overflow"):
		res.kind = "stack-overflow"
		res.detail = firstLineWith(s, "goroutine stack exceeds", "fatal error: stack overflow")
	case ctx.Err() != nil:
		res.kind, res.detail = "timeout", "child did not finish in 150 s (signal: killed)"
	case strings.Contains(s, "out of memory") || strings.Contains(s, "cannot allocate memory"):
		res.kind, res.detail = "oom", firstLineWith(s, "out of memory", "cannot allocate memory")
	case runErr == nil && strings.Contains(s, "C21CHILD result=ok"):
		res.kind, res.detail = "ok", firstLineWith(s, "C21CHILD result=")
	case runErr == nil && strings.Contains(s, "C21CHILD result=decode-error"):
		res.kind, res.detail = "decode-error", firstLineWith(s, "C21CHILD result=")
	default:
		if len(s) > 2000 {
			s = s[:1000] + "\n...\n" + s[len(s)-1000:]
		}
		res.kind, res.detail = "other", fmt.Sprintf("run error %v; output:\n%s", runErr, s)
	}
	return res
}

type cappedBuffer struct {
	mu sync.Mutex
	b  bytes.Buffer
}

func (c *cappedBuffer) Write(p []byte) (int, error) {
	c.mu.Lock()
	defer c.mu.Unlock()
	if c.b.Len() < 1<<20 {
		c.b.Write(p)
	}
	return len(p), nil
}

func (c *cappedBuffer) String() string {
	c.mu.Lock()
	defer c.mu.Unlock()
	return c.b.String()
}

func firstLineWith(s string, needles ...string) string {
	for _, line := range strings.Split(s, "\n") {
		for _, n := range needles {
			if strings.Contains(line, n) {
				return strings.TrimSpace(line)
			}
		}
	}
	return ""
}

// TestC21Child is the child side: it decodes one payload the way the client
// receives it (gzip_packed, at most 10 MiB after decompression, then the class
// decoder) with the runtime's default stack limit and a bounded address space.
func TestC21Child(t *testing.T) {
	raw := os.Getenv(childEnv)
	if raw == "" {
		t.Skip("child process of TestC21Deep only")
	}
	var spec childSpec
	if err := json.Unmarshal([]byte(raw), &spec); err != nil {
		t.Fatal(err)
	}
	// memory budget of the child: 8 GiB of address space (a 1 GB goroutine stack
	// needs about 1.5 GB while it is being copied).
	lim := syscall.Rlimit{Cur: 8 << 30, Max: 8 << 30}
	_ = syscall.Setrlimit(syscall.RLIMIT_AS, &lim)
	registry()
	payload, err := os.ReadFile(spec.Payload)
	if err != nil {
		t.Fatal(err)
	}
	var pl *chainPlan
	for _, cy := range findCycles() {
		if cy.label == spec.Label {
			if pl, err = planChain(cy); err != nil {
				t.Fatal(err)
			}
		}
	}
	if pl == nil {
		t.Fatalf("unknown cycle %q", spec.Label)
	}
	// through the gzip container: proves the payload passes the 10 MiB limit
	var packed bin.Buffer
	if err := (proto.GZIP{Data: payload}).Encode(&packed); err != nil {
		t.Fatal(err)
	}
	var gz proto.GZIP
	if err := gz.Decode(&bin.Buffer{Buf: packed.Buf}); err != nil {
		t.Fatalf("the %d-byte payload does not pass proto.GZIP: %v", len(payload), err)
	}
	if len(packed.Buf) > 16<<20 {
		t.Fatalf("packed payload %d bytes exceeds a 16 MiB frame", len(packed.Buf))
	}
	t0 := time.Now()
	_, left, derr := pl.decode(gz.Data)
	if derr != nil {
		fmt.Printf("C21CHILD result=decode-error levels=%d bytes=%d packed=%d elapsed=%s err=%.200v\n", spec.Levels, len(payload), len(packed.Buf), time.Since(t0), derr)
		return
	}
	fmt.Printf("C21CHILD result=ok levels=%d bytes=%d packed=%d left=%d elapsed=%s\n", spec.Levels, len(payload), len(packed.Buf), left, time.Since(t0))
}

const witnessLabel = "RichText.textBold"

// deepSelection returns the cycles of the tier: quick = the textBold witness
// plus two seed-chosen cycles of other classes; thorough = all.
func deepSelection(cycles []cycle) []cycle {
	if only := os.Getenv("VERIF_C21_ONLY"); only != "" {
		var sel []cycle
		for _, c := range cycles {
			if c.label == only {
				sel = append(sel, c)
			}
		}
		return sel
	}
	if os.Getenv("VERIF_TIER") == "thorough" || os.Getenv("VERIF_C21_ALL_CYCLES") != "" {
		return cycles
	}
	var sel, rest []cycle
	for _, c := range cycles {
		if c.label == witnessLabel {
			sel = append(sel, c)
		} else if !strings.HasPrefix(c.label, "RichText.") {
			rest = append(rest, c)
		}
	}
	if len(rest) > 0 {
		seed := envInt("VERIF_SEED", 1)
		i := int(uint64(seed) * 7919 % uint64(len(rest)))
		j := (i + len(rest)/2) % len(rest)
		sel = append(sel, rest[i])
		if j != i {
			sel = append(sel, rest[j])
		}
	}
	return sel
}

func runDeep(t *testing.T, st *pbt.Stats, known bool) {
	requireRegistry(t)
	cycles := findCycles()
	if len(cycles) == 0 {
		t.Fatalf("no cycles found in the type graph")
	}
	sel := deepSelection(cycles)
	par := envInt("VERIF_C21_PAR", 3)
	type job struct {
		cy cycle
		pl *chainPlan
	}
	var jobs []job
	for _, cy := range sel {
		if pbt.Known("C21", cy.sig) != known {
			if !known {
				st.Excluded(cy.sig)
			}
			continue
		}
		pl, err := planChain(cy)
		if err != nil {
			if !known {
				st.Class("chain-not-buildable")
				t.Logf("cycle %s: chain not buildable: %v", cy.label, err)
			}
			continue
		}
		jobs = append(jobs, job{cy, pl})
	}
	results := make([]childOutcome, len(jobs))
	var wg sync.WaitGroup
	sem := make(chan struct{}, par)
	for i := range jobs {
		wg.Add(1)
		go func(i int) {
			defer wg.Done()
			sem <- struct{}{}
			defer func() { <-sem }()
			results[i] = runDeepChild(jobs[i].pl, jobs[i].pl.maxLevels())
		}(i)
	}
	wg.Wait()
	for i, j := range jobs {
		r := results[i]
		levels := j.pl.maxLevels()
		desc := fmt.Sprintf("cycle %s (%d steps, %d bytes per level): %d levels in %d bytes: %s [%s] %s",
			j.cy.label, len(j.cy.steps), j.pl.perStep, levels, levels*j.pl.perStep+len(j.pl.leaf), r.kind, r.elapsed.Round(time.Millisecond), r.detail)
		switch r.kind {
		case "ok", "decode-error":
			if known {
				t.Logf("listed finding %s no longer reproduces: %s", j.cy.sig, desc)
			} else {
				st.Case(j.cy.label, true, desc, "survived", "outcome="+r.kind)
			}
		case "stack-overflow":
			what := fmt.Sprintf("decoding %d nested %s objects (%d bytes, admissible as one gzip_packed payload) kills the process: %s",
				levels, j.cy.label, levels*j.pl.perStep+len(j.pl.leaf), r.detail)
			if known {
				pbt.ReportKnown("C21", j.cy.sig, what)
			} else {
				writeReplay(t, "deep-"+strings.ReplaceAll(j.cy.label, "/", "_"), map[string]any{"label": j.cy.label, "signature": j.cy.sig})
				t.Errorf("C21 [signature %s]: %s", j.cy.sig, what)
			}
		default:
			// timeout / oom / other: the budget of the child was not enough to decide
			t.Errorf("cycle %s: inconclusive child outcome %s (signal: killed if timeout): %s", j.cy.label, r.kind, desc)
		}
	}
	st.Set("cycles_total", len(cycles))
	st.Set("cycles_selected", len(sel))
}

// TestC21Deep: for every selected type cycle the deepest chain that fits a
// 10 MiB decompressed payload is decoded in a child process.
func TestC21Deep(t *testing.T) {
	st := pbt.NewStats("TestC21Deep")
	defer st.Flush()
	if rf := os.Getenv("VERIF_REPLAY_FILE"); rf != "" {
		var rp struct{ Label string }
		raw, _ := os.ReadFile(rf)
		_ = json.Unmarshal(raw, &rp)
		t.Setenv("VERIF_C21_ONLY", rp.Label)
	}
	runDeep(t, st, false)
}

// TestC21Known replays the listed deep-nesting findings of the tier's selection
// and the listed generic-wrapper finding, and reports those that still reproduce.
func TestC21Known(t *testing.T) {
	st := pbt.NewStats("TestC21Known")
	runDeep(t, st, true)
	if pbt.Known("C21", sigGenericNil) {
		if v := genericNilViolation(); v != "" {
			pbt.ReportKnown("C21", sigGenericNil, v)
		} else {
			t.Logf("listed finding %s no longer reproduces", sigGenericNil)
		}
	}
	if pbt.Known("C21", sigBareVecBoxed) {
		if v := bareVecBoxedViolation(); v != "" {
			pbt.ReportKnown("C21", sigBareVecBoxed, v)
		} else {
			t.Logf("listed finding %s no longer reproduces", sigBareVecBoxed)
		}
	}
}

// TestC21Cycles lists the cycles (diagnostic; cheap).
func TestC21Cycles(t *testing.T) {
	requireRegistry(t)
	cycles := findCycles()
	bad := 0
	for _, cy := range cycles {
		pl, err := planChain(cy)
		if err != nil {
			bad++
			t.Logf("%-60s steps=%d NOT BUILDABLE: %v", cy.label, len(cy.steps), err)
			continue
		}
		t.Logf("%-60s steps=%d bytes/level=%d levels=%d", cy.label, len(cy.steps), pl.perStep, pl.maxLevels())
	}
	t.Logf("%d cycles, %d not buildable", len(cycles), bad)
}

// ---------------------------------------------------------------------------
// regressions (fail on the pinned tree while the defects exist)

// TestC21Regression_stack_overflow_textBold: 2.6 million nested textBold
// constructors (10 MiB - 1 byte, admissible inside gzip_packed) must not kill
// the process.
func TestC21Regression_stack_overflow_textBold(t *testing.T) {
	requireRegistry(t)
	for _, cy := range findCycles() {
		if cy.label != witnessLabel {
			continue
		}
		pl, err := planChain(cy)
		if err != nil {
			t.Fatal(err)
		}
		r := runDeepChild(pl, pl.maxLevels())
		if r.kind != "ok" && r.kind != "decode-error" {
			t.Fatalf("C21 [signature %s]: decoding %d nested textBold (%d bytes): child outcome %s: %s",
				cy.sig, pl.maxLevels(), pl.maxLevels()*pl.perStep+len(pl.leaf), r.kind, r.detail)
		}
		t.Logf("child survived: %s", r.detail)
		return
	}
	t.Fatalf("cycle %s not found", witnessLabel)
}

// genericNilViolation decodes a valid invokeWithLayer encoding into the object
// the type map creates for its id.
func genericNilViolation() (v string) {
	registry()
	s := schemaByName("tg")
	for _, ci := range s.ctors {
		if !ci.hasGeneric {
			continue
		}
		p := minimalValue(ci)
		enc, err := encodeObj(p.Interface().(bin.Object))
		if err != nil {
			return "harness: " + err.Error()
		}
		func() {
			defer func() {
				if r := recover(); r != nil && v == "" {
					v = fmt.Sprintf("tmap.Constructor.New(%#x) (%s) then Decode of a valid %d-byte encoding panics: %v", ci.id, ci.name, len(enc), r)
				}
			}()
			o := s.tmap.New(ci.id)
			_ = o.Decode(&bin.Buffer{Buf: enc})
		}()
	}
	return v
}

// TestC21Regression_generic_wrapper_nil_query: decoding bytes as a generic
// wrapper obtained from the type map must give a value or an error, not a panic.
func TestC21Regression_generic_wrapper_nil_query(t *testing.T) {
	if v := genericNilViolation(); v != "" {
		t.Fatalf("C21 [signature %s]: %s", sigGenericNil, v)
	}
}

// bareVecBoxedViolation: accessPointRule with one ipPort does not survive
// Encode -> Decode (the elements of `ips:vector<IpPort>` are written without
// their constructor ids but read with them).
func bareVecBoxedViolation() string {
	v := &tg.AccessPointRule{PhonePrefixRules: "+7", DCID: 2, IPs: []tg.IPPortClass{&tg.IPPort{Ipv4: 0x7f000001, Port: 443}}}
	enc, err := encodeObj(v)
	if err != nil {
		return "harness: " + err.Error()
	}
	var got tg.AccessPointRule
	if err := got.Decode(&bin.Buffer{Buf: append([]byte(nil), enc...)}); err != nil {
		return fmt.Sprintf("accessPointRule{ips:[ipPort]} encodes to %x and that does not decode: %v", enc, err)
	}
	if diff := tlEqual(reflect.ValueOf(v), reflect.ValueOf(&got), "accessPointRule"); diff != "" {
		return "accessPointRule round-trip differs at " + diff
	}
	return ""
}

// TestC21Regression_accessPointRule_roundtrip fails while the encoder writes
// the elements of accessPointRule.ips bare.
func TestC21Regression_accessPointRule_roundtrip(t *testing.T) {
	if v := bareVecBoxedViolation(); v != "" {
		t.Fatalf("C21 [signature %s]: %s", sigBareVecBoxed, v)
	}
}

// ---------------------------------------------------------------------------
// native fuzzing

// FuzzC21: bytes decoded as a selected constructor through a selected entry
// point. Oracle: no panic, allocation bound, and if it decodes the re-encoding
// round-trips stably.
func FuzzC21(f *testing.F) {
	registry()
	if len(regProblems) > 0 {
		f.Fatalf("registry: %v", regProblems[0])
	}
	// seeds: minimal encodings of a few constructors, hostile vector counts
	for i, ci := range allCtors {
		if i%97 != 0 {
			continue
		}
		enc, err := encodeObj(minimalValue(ci).Interface().(bin.Object))
		if err == nil {
			f.Add(uint16(i), uint8(0), enc[4:])
		}
	}
	f.Add(uint16(0), uint8(1), []byte{0x15, 0xc4, 0xb5, 0x1c, 0xff, 0xff, 0xff, 0x7f})
	f.Add(uint16(5), uint8(2), []byte{0xfe, 0xff, 0xff, 0xff})
	gate := pbt.Known("C21", sigGenericNil)
	f.Fuzz(func(t *testing.T, sel uint16, mode uint8, data []byte) {
		if len(data) > 1<<16 {
			return
		}
		ci := allCtors[int(sel)%len(allCtors)]
		m := decodeMode(mode % uint8(numModes))
		var other *ctorInfo
		if m == modeOtherType {
			other = allCtors[(int(sel)*31+int(mode))%len(allCtors)]
		}
		in := data
		if m != modeBare {
			in = append(binary.LittleEndian.AppendUint32(nil, ci.id), data...)
		}
		checkDecode(t, ci, m, other, in, gate)
	})
}
