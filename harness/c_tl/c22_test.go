package c_tl

// C22: containers, RPC results, unencrypted messages and gzip framing
// round-trip with bounded expansion.
//
//   TestC22            (rapid)  generated containers / results / unencrypted
//                      messages / gzip objects: round-trip (through the library's
//                      encoder and through an independent reference writer),
//                      malformed counts and lengths, mutated and raw bytes
//   TestC22GzipLimits  (plain)  the 10 MiB limit: sizes around it, bombs up to
//                      1 GiB (streamed single member, concatenated members),
//                      truncated and corrupted streams; pooled reader re-use
//   TestC22Known       (plain)  replays listed findings
//   FuzzC22            native fuzz target

import (
	"bytes"
	"compress/gzip"
	"encoding/binary"
	"fmt"
	"hash/crc32"
	"math"
	"os"
	"runtime"
	"sync"
	"testing"

	"github.com/gotd/td/bin"
	"github.com/gotd/td/proto"
	"pgregory.net/rapid"

	"verifharness/pbt"
	"verifharness/pbt/ref"
)

const (
	mib              = 1 << 20
	c22MaxBody       = 1 * mib  // proto.Message body limit
	c22GzipLimit     = 10 * mib // proto.GZIP decompression limit
	sigNegativeCount = "C22/container-negative-count-accepted"
)

// ---------------------------------------------------------------------------
// reference writers (from the MTProto description, stdlib + pbt/ref only)

type refMsg struct {
	ID    int64
	SeqNo int32
	Body  []byte
}

// msg_container#73f1f8dc messages:vector<%Message>; message msg_id:long seqno:int bytes:int body:Object
func refContainer(msgs []refMsg) []byte {
	b := ref.PutUint32(nil, 0x73f1f8dc)
	b = ref.PutInt32(b, int32(len(msgs)))
	for _, m := range msgs {
		b = ref.PutInt64(b, m.ID)
		b = ref.PutInt32(b, m.SeqNo)
		b = ref.PutInt32(b, int32(len(m.Body)))
		b = append(b, m.Body...)
	}
	return b
}

// rpc_result#f35c6d01 req_msg_id:long result:Object
func refResult(reqID int64, body []byte) []byte {
	b := ref.PutUint32(nil, 0xf35c6d01)
	b = ref.PutInt64(b, reqID)
	return append(b, body...)
}

// unencrypted message: auth_key_id = 0 (int64), message_id, message_data_length, data
func refUnencrypted(msgID int64, data []byte) []byte {
	b := ref.PutInt64(nil, 0)
	b = ref.PutInt64(b, msgID)
	b = ref.PutInt32(b, int32(len(data)))
	return append(b, data...)
}

// gzip_packed#3072cfa1 packed_data:bytes
func refGzipPacked(stream []byte) []byte {
	b := ref.PutUint32(nil, 0x3072cfa1)
	return ref.PutBytes(b, stream)
}

func stdGzip(data []byte, level int) []byte {
	var buf bytes.Buffer
	w, err := gzip.NewWriterLevel(&buf, level)
	if err != nil {
		panic(err)
	}
	_, _ = w.Write(data)
	_ = w.Close()
	return buf.Bytes()
}

// zeroBomb streams n zero bytes through a gzip writer: one member.
func zeroBomb(n int) []byte {
	var buf bytes.Buffer
	w, _ := gzip.NewWriterLevel(&buf, gzip.BestSpeed)
	block := make([]byte, 1<<20)
	for n > 0 {
		k := len(block)
		if n < k {
			k = n
		}
		_, _ = w.Write(block[:k])
		n -= k
	}
	_ = w.Close()
	return buf.Bytes()
}

// ---------------------------------------------------------------------------
// decoding with the allocation oracle

func measured(f func()) uint64 {
	var m0, m1 runtime.MemStats
	runtime.ReadMemStats(&m0)
	f()
	runtime.ReadMemStats(&m1)
	return m1.TotalAlloc - m0.TotalAlloc
}

// poolProbe is the fixed valid gzip object decoded after every case: the pooled
// reader must be usable whatever happened before.
var poolProbe = sync.OnceValue(func() []byte {
	return refGzipPacked(stdGzip([]byte("pool probe: the quick brown fox jumps over the lazy dog"), gzip.DefaultCompression))
})

func checkPool(ft fataler, after string) {
	var g proto.GZIP
	err := g.Decode(&bin.Buffer{Buf: append([]byte(nil), poolProbe()...)})
	if err != nil || string(g.Data) != "pool probe: the quick brown fox jumps over the lazy dog" {
		ft.Fatalf("after %s the next valid gzip object does not decode: err=%v data=%q", after, err, g.Data)
	}
}

// gzipDecode runs proto.GZIP.Decode with the bounds every outcome must respect.
//
// Allocation bound (T8, stated slack): io.ReadAll grows its buffer
// geometrically (factor 1.25 for large buffers), so reading L bytes allocates up
// to ~6.25 L in total; the decompressor state is below 1 MiB. Whatever the
// claimed or real size of the stream, L = len(Data) is capped by the 10 MiB
// limit (checked first): alloc <= 8*len(Data) + 2*len(in) + 2 MiB.
func gzipDecode(ft fataler, in []byte, what string) (data []byte, err error) {
	in = append([]byte(nil), in...)
	var g proto.GZIP
	alloc := measured(func() { err = g.Decode(&bin.Buffer{Buf: in}) })
	if len(g.Data) > c22GzipLimit {
		ft.Fatalf("%s: GZIP.Decode produced %d bytes (> 10 MiB), err=%v", what, len(g.Data), err)
	}
	if cap(g.Data) > 2*c22GzipLimit {
		ft.Fatalf("%s: GZIP.Decode holds a %d-byte buffer (> 2 x 10 MiB), err=%v", what, cap(g.Data), err)
	}
	out := len(g.Data) // on error paths this is what had been read before the failure
	bound := uint64(8*out + 2*len(in) + 2*mib)
	if alloc > bound {
		ft.Fatalf("%s: GZIP.Decode of %d bytes allocated %d bytes, bound %d (output %d, err=%v)", what, len(in), alloc, bound, out, err)
	}
	return g.Data, err
}

// containerBound: the Messages slice grows by append (48-byte elements for >= 16
// wire bytes, <= 4x for growth), bodies are copied once, and one body buffer of
// up to 1 MiB may be allocated before the decoder notices the input is short.
func containerBound(in []byte) uint64 { return uint64(16*len(in) + c22MaxBody + 64<<10) }

func sameMsgs(got []proto.Message, want []refMsg) string {
	if len(got) != len(want) {
		return fmt.Sprintf("%d messages, want %d", len(got), len(want))
	}
	for i := range want {
		g, w := got[i], want[i]
		if g.ID != w.ID || g.SeqNo != int(w.SeqNo) || g.Bytes != len(w.Body) || !bytes.Equal(g.Body, w.Body) {
			return fmt.Sprintf("message %d: got id=%d seqno=%d bytes=%d len(body)=%d, want id=%d seqno=%d len=%d",
				i, g.ID, g.SeqNo, g.Bytes, len(g.Body), w.ID, w.SeqNo, len(w.Body))
		}
	}
	return ""
}

// ---------------------------------------------------------------------------
// generators

var bodyLenGen = rapid.OneOf(
	rapid.IntRange(0, 64), rapid.IntRange(0, 64), rapid.IntRange(0, 64),
	rapid.IntRange(0, 4096),
	rapid.SampledFrom([]int{0, 1, 3, 4, 12, 1024, 65535, 65536}),
)

// big bodies are rare: at most a few MiB per case
var bigLenGen = rapid.SampledFrom([]int{c22MaxBody, c22MaxBody - 1, c22MaxBody - 4, c22MaxBody / 2, 300000})

// oneIn is true with probability 1/n. rapid's integer generators favour small
// values and boundaries, so rare events are drawn from a uniform byte stream.
func oneIn(t *rapid.T, label string, n int) bool {
	return int(binary.LittleEndian.Uint32(pbt.DrawBytes(t, label, 4))%uint32(n)) == 0
}

func genBody(t *rapid.T, allowBig *int) []byte {
	n := bodyLenGen.Draw(t, "bodyLen")
	if *allowBig > 0 && oneIn(t, "big", 100) {
		*allowBig--
		n = bigLenGen.Draw(t, "bigLen")
	}
	if n == 0 {
		return []byte{}
	}
	return pbt.DrawBytes(t, "body", n)
}

func genMsgs(t *rapid.T) []refMsg {
	n := rapid.OneOf(rapid.IntRange(0, 5), rapid.IntRange(0, 5), rapid.IntRange(0, 50), rapid.SampledFrom([]int{0, 1, 50})).Draw(t, "n")
	big := 2
	msgs := make([]refMsg, n)
	for i := range msgs {
		msgs[i] = refMsg{
			ID:    int64Gen.Draw(t, "id"),
			SeqNo: int32Gen.Draw(t, "seqno"),
			Body:  genBody(t, &big),
		}
	}
	return msgs
}

// ---------------------------------------------------------------------------

func maxBody(msgs []refMsg) int {
	m := 0
	for _, x := range msgs {
		if len(x.Body) > m {
			m = len(x.Body)
		}
	}
	return m
}

// TestC22: generated objects and malformed / mutated bytes.
func TestC22(t *testing.T) {
	st := pbt.NewStats("TestC22")
	defer st.Flush()
	gateNeg := pbt.Known("C22", sigNegativeCount)
	rapid.Check(t, func(t *rapid.T) {
		kind := rapid.SampledFrom([]string{"container", "container", "result", "unencrypted", "gzip",
			"container-malformed", "container-malformed", "unencrypted-malformed", "gzip-malformed", "raw"}).Draw(t, "kind")
		var key, sample string
		nontrivial := false
		cl := []string{kind}
		switch kind {
		case "container":
			msgs := genMsgs(t)
			want := refContainer(msgs)
			c := proto.MessageContainer{}
			for _, m := range msgs {
				c.Messages = append(c.Messages, proto.Message{ID: m.ID, SeqNo: int(m.SeqNo), Bytes: len(m.Body), Body: m.Body})
			}
			enc := usedBuffer()
			if err := c.Encode(&enc); err != nil {
				t.Fatalf("container of %d messages (max body %d): Encode: %v", len(msgs), maxBody(msgs), err)
			}
			if !bytes.Equal(enc.Buf, want) {
				t.Fatalf("container of %d messages: encoding differs from the reference writer (%d vs %d bytes)", len(msgs), len(enc.Buf), len(want))
			}
			for _, src := range [][]byte{enc.Buf, want} {
				var d proto.MessageContainer
				in := append([]byte(nil), src...)
				buf := &bin.Buffer{Buf: in}
				var err error
				alloc := measured(func() { err = d.Decode(buf) })
				if err != nil {
					t.Fatalf("container of %d messages (max body %d): Decode: %v", len(msgs), maxBody(msgs), err)
				}
				if buf.Len() != 0 {
					t.Fatalf("container: %d bytes left after decode", buf.Len())
				}
				// what was decoded is a value of its own: the receive buffer is used for
				// the next frame while the decoded messages are still being handled
				for i := range in {
					in[i] = 0xff
				}
				if diff := sameMsgs(d.Messages, msgs); diff != "" {
					t.Fatalf("container round-trip: %s", diff)
				}
				if alloc > containerBound(src) {
					t.Fatalf("container of %d bytes: decode allocated %d, bound %d", len(src), alloc, containerBound(src))
				}
			}
			nontrivial = len(msgs) >= 2 || maxBody(msgs) >= 64<<10
			key = fmt.Sprintf("container/%x", crc32.ChecksumIEEE(want))
			sample = fmt.Sprintf("container n=%d maxBody=%d bytes=%d", len(msgs), maxBody(msgs), len(want))
			cl = append(cl, nClass(len(msgs)), bodyClass(maxBody(msgs)))
		case "result":
			id := int64Gen.Draw(t, "reqID")
			big := 1
			body := genBody(t, &big)
			want := refResult(id, body)
			enc := usedBuffer()
			if err := (&proto.Result{RequestMessageID: id, Result: body}).Encode(&enc); err != nil {
				t.Fatalf("result: Encode: %v", err)
			}
			if !bytes.Equal(enc.Buf, want) {
				t.Fatalf("result: encoding differs from the reference writer")
			}
			// decode into a fresh and into a re-used receiver (the engine re-uses buffers)
			reused := proto.Result{Result: []byte("stale content that must disappear")}
			for _, d := range []*proto.Result{{}, &reused} {
				in := append([]byte(nil), want...)
				buf := &bin.Buffer{Buf: in}
				if err := d.Decode(buf); err != nil {
					t.Fatalf("result (body %d): Decode: %v", len(body), err)
				}
				left := buf.Len()
				for i := range in {
					in[i] = 0xff // the source buffer is reused; the decoded value must not change
				}
				buf = &bin.Buffer{Buf: in[len(in)-left:]}
				if d.RequestMessageID != id || !bytes.Equal(d.Result, body) || buf.Len() != 0 {
					t.Fatalf("result round-trip: id %d want %d, body %d bytes want %d, left %d", d.RequestMessageID, id, len(d.Result), len(body), buf.Len())
				}
			}
			nontrivial = len(body) > 0
			key = fmt.Sprintf("result/%x", crc32.ChecksumIEEE(want))
			sample = fmt.Sprintf("result id=%d body=%d", id, len(body))
			cl = append(cl, bodyClass(len(body)))
		case "unencrypted":
			id := int64Gen.Draw(t, "msgID")
			big := 1
			data := genBody(t, &big)
			want := refUnencrypted(id, data)
			enc := usedBuffer()
			if err := (proto.UnencryptedMessage{MessageID: id, MessageData: data}).Encode(&enc); err != nil {
				t.Fatalf("unencrypted: Encode: %v", err)
			}
			if !bytes.Equal(enc.Buf, want) {
				t.Fatalf("unencrypted: encoding differs from the reference writer")
			}
			trail := pbt.DrawBytes(t, "trail", 4*rapid.IntRange(0, 2).Draw(t, "trailWords"))
			reused := proto.UnencryptedMessage{MessageData: []byte("stale content that must disappear")}
			for _, d := range []*proto.UnencryptedMessage{{}, &reused} {
				in := append(append([]byte(nil), want...), trail...)
				buf := &bin.Buffer{Buf: in}
				var err error
				alloc := measured(func() { err = d.Decode(buf) })
				if err != nil {
					t.Fatalf("unencrypted (data %d): Decode: %v", len(data), err)
				}
				left := buf.Len()
				for i := range in {
					in[i] = 0xff // the source buffer is reused; the decoded value must not change
				}
				buf = &bin.Buffer{Buf: in[len(in)-left:]}
				if d.MessageID != id || !bytes.Equal(d.MessageData, data) || buf.Len() != len(trail) {
					t.Fatalf("unencrypted round-trip: id %d want %d, data %d bytes want %d, left %d want %d",
						d.MessageID, id, len(d.MessageData), len(data), buf.Len(), len(trail))
				}
				if alloc > uint64(4*len(want)+64<<10) {
					t.Fatalf("unencrypted of %d bytes: decode allocated %d", len(want), alloc)
				}
			}
			nontrivial = len(data) > 0
			key = fmt.Sprintf("unenc/%x", crc32.ChecksumIEEE(want))
			sample = fmt.Sprintf("unencrypted id=%d data=%d trail=%d", id, len(data), len(trail))
			cl = append(cl, bodyClass(len(data)))
		case "gzip":
			// sizes: small mostly; sometimes within 2 bytes of the limit (compressible, so cheap)
			var data []byte
			content := rapid.SampledFrom([]string{"random", "zeros", "pattern"}).Draw(t, "content")
			n := rapid.OneOf(rapid.IntRange(0, 64), rapid.IntRange(0, 5000), rapid.SampledFrom([]int{0, 1, 65535, 65536, 300000})).Draw(t, "n")
			// (rare: each costs ~0.3 s; TestC22GzipLimits walks the limit deterministically)
			near := oneIn(t, "nearLimit", 300)
			if near {
				n = c22GzipLimit + rapid.IntRange(-2, 2).Draw(t, "delta")
				if content == "random" {
					content = "pattern"
				}
			}
			switch content {
			case "random":
				data = pbt.DrawBytes(t, "data", n)
			case "zeros":
				data = make([]byte, n)
			default:
				data = bytes.Repeat([]byte("gzip_packed "), n/12+1)[:n]
			}
			// the library's own encoder ...
			enc := usedBuffer()
			if err := (proto.GZIP{Data: data}).Encode(&enc); err != nil {
				t.Fatalf("gzip of %d bytes: Encode: %v", n, err)
			}
			// ... and an independent one
			level := rapid.SampledFrom([]int{gzip.NoCompression, gzip.BestSpeed, gzip.DefaultCompression}).Draw(t, "level")
			if n > mib {
				level = gzip.BestSpeed
			}
			inputs := [][]byte{enc.Buf, refGzipPacked(stdGzip(data, level))}
			for i, in := range inputs {
				got, err := gzipDecode(t, in, fmt.Sprintf("gzip object of %d %s bytes (encoder %d)", n, content, i))
				switch {
				case n < c22GzipLimit:
					if err != nil {
						t.Fatalf("gzip object of %d bytes (< 10 MiB) (encoder %d): Decode: %v", n, i, err)
					}
					if !bytes.Equal(got, data) {
						t.Fatalf("gzip round-trip of %d bytes (encoder %d): got %d bytes, differs", n, i, len(got))
					}
				case n > c22GzipLimit:
					if err == nil {
						t.Fatalf("gzip object of %d bytes (> 10 MiB) (encoder %d) decoded without error (%d bytes)", n, i, len(got))
					}
				default:
					if err == nil && !bytes.Equal(got, data) {
						t.Fatalf("gzip object of exactly 10 MiB decoded to different data")
					}
				}
			}
			nontrivial = n >= 4096 || near
			key = fmt.Sprintf("gzip/%s/%d/%x", content, n, crc32.ChecksumIEEE(data))
			sample = fmt.Sprintf("gzip %s n=%d", content, n)
			cl = append(cl, "content="+content)
			if near {
				cl = append(cl, fmt.Sprintf("limit%+d", n-c22GzipLimit))
			}
		case "container-malformed":
			msgs := genMsgs(t)
			if len(msgs) > 6 {
				msgs = msgs[:6]
			}
			in := refContainer(msgs)
			mut := rapid.SampledFrom([]string{"count", "count", "length", "length", "truncate", "bitflip", "wrong-id"}).Draw(t, "mut")
			mustFail := false
			switch mut {
			case "count":
				c := rapid.OneOf(rapid.SampledFrom([]int32{math.MaxInt32, math.MinInt32, -1, int32(len(msgs)) + 1, 1 << 30}), rapid.Int32()).Draw(t, "count")
				if c < 0 && gateNeg {
					st.Excluded(sigNegativeCount)
					c = math.MaxInt32
				}
				binary.LittleEndian.PutUint32(in[4:], uint32(c))
				// more messages claimed than present, or a negative count: malformed
				mustFail = c < 0 || int(c) > len(msgs)
				cl = append(cl, countClass(c, len(msgs)))
			case "length":
				if len(msgs) == 0 {
					msgs = []refMsg{{ID: 1, SeqNo: 1, Body: []byte{1, 2, 3, 4}}}
					in = refContainer(msgs)
				}
				// rewrite the bytes field of the first message
				l := rapid.OneOf(rapid.SampledFrom([]int32{c22MaxBody + 1, -1, math.MaxInt32, math.MinInt32, c22MaxBody, 1 << 24}), rapid.Int32()).Draw(t, "len")
				binary.LittleEndian.PutUint32(in[8+12:], uint32(l))
				rest := len(in) - (8 + 16)
				mustFail = l < 0 || l > c22MaxBody || int(l) > rest
				cl = append(cl, lenClass(l))
			case "truncate":
				if len(in) > 8 {
					in = in[:rapid.IntRange(0, len(in)-1).Draw(t, "cut")]
					mustFail = len(msgs) > 0 || len(in) < 8
				}
			case "bitflip":
				i := rapid.IntRange(0, min(len(in)-1, 40)).Draw(t, "pos")
				in[i] ^= 1 << uint(rapid.IntRange(0, 7).Draw(t, "bit"))
			case "wrong-id":
				binary.LittleEndian.PutUint32(in, rapid.SampledFrom([]uint32{0x3072cfa1, 0xf35c6d01, 0, 0x73f1f8dd}).Draw(t, "id"))
				mustFail = true
			}
			var d proto.MessageContainer
			var err error
			buf := &bin.Buffer{Buf: append([]byte(nil), in...)}
			alloc := measured(func() { err = d.Decode(buf) })
			if alloc > containerBound(in) {
				t.Fatalf("malformed container (%s) of %d bytes: decode allocated %d, bound %d; err=%v\ninput: %x", mut, len(in), alloc, containerBound(in), err, trunc64(in))
			}
			if mustFail && err == nil {
				t.Fatalf("malformed container (%s) decoded without error: %d messages, %d bytes left\ninput: %x", mut, len(d.Messages), buf.Len(), trunc64(in))
			}
			nontrivial = true
			key = fmt.Sprintf("cmal/%s/%x/%d", mut, crc32.ChecksumIEEE(in), len(in))
			sample = fmt.Sprintf("container %s n=%d bytes=%d err=%v", mut, len(msgs), len(in), err != nil)
			cl = append(cl, "mut="+mut, fmt.Sprintf("err=%v", err != nil))
		case "unencrypted-malformed":
			big := 0
			data := genBody(t, &big)
			in := refUnencrypted(int64Gen.Draw(t, "msgID"), data)
			mut := rapid.SampledFrom([]string{"length", "length", "keyid", "truncate"}).Draw(t, "mut")
			mustFail := false
			switch mut {
			case "length":
				l := rapid.OneOf(rapid.SampledFrom([]int32{-1, math.MaxInt32, math.MinInt32, int32(len(data)) + 1, 1 << 24}), rapid.Int32()).Draw(t, "len")
				binary.LittleEndian.PutUint32(in[16:], uint32(l))
				mustFail = l < 0 || int(l) > len(data)
				cl = append(cl, lenClass(l))
			case "keyid":
				binary.LittleEndian.PutUint64(in, rapid.Uint64Min(1).Draw(t, "keyID"))
				mustFail = true
			case "truncate":
				in = in[:rapid.IntRange(0, len(in)-1).Draw(t, "cut")]
				mustFail = true
			}
			var d proto.UnencryptedMessage
			var err error
			alloc := measured(func() { err = d.Decode(&bin.Buffer{Buf: append([]byte(nil), in...)}) })
			if alloc > uint64(4*len(in)+64<<10) {
				t.Fatalf("malformed unencrypted message (%s) of %d bytes: decode allocated %d; err=%v\ninput: %x", mut, len(in), alloc, err, trunc64(in))
			}
			if mustFail && err == nil {
				t.Fatalf("malformed unencrypted message (%s) decoded without error (%d data bytes)\ninput: %x", mut, len(d.MessageData), trunc64(in))
			}
			nontrivial = true
			key = fmt.Sprintf("umal/%s/%x/%d", mut, crc32.ChecksumIEEE(in), len(in))
			sample = fmt.Sprintf("unencrypted %s data=%d err=%v", mut, len(data), err != nil)
			cl = append(cl, "mut="+mut, fmt.Sprintf("err=%v", err != nil))
		case "gzip-malformed":
			data := pbt.DrawBytes(t, "data", rapid.IntRange(0, 3000).Draw(t, "n"))
			if rapid.Bool().Draw(t, "compressible") {
				data = bytes.Repeat([]byte{'a'}, len(data))
			}
			stream := stdGzip(data, gzip.DefaultCompression)
			mut := rapid.SampledFrom([]string{"truncate", "crc", "isize", "bitflip", "header", "members", "trailing-garbage", "tl-length", "empty"}).Draw(t, "mut")
			var in []byte
			switch mut {
			case "truncate":
				stream = stream[:rapid.IntRange(0, len(stream)-1).Draw(t, "cut")]
			case "crc":
				stream[len(stream)-8] ^= 1 << uint(rapid.IntRange(0, 7).Draw(t, "bit"))
			case "isize":
				stream[len(stream)-4] ^= 1 << uint(rapid.IntRange(0, 7).Draw(t, "bit"))
			case "bitflip":
				i := rapid.IntRange(0, len(stream)-1).Draw(t, "pos")
				stream[i] ^= 1 << uint(rapid.IntRange(0, 7).Draw(t, "bit"))
			case "header":
				i := rapid.IntRange(0, 9).Draw(t, "pos")
				stream[i] = byte(rapid.IntRange(0, 255).Draw(t, "val"))
			case "members":
				k := rapid.IntRange(2, 5).Draw(t, "members")
				one := stream
				for i := 1; i < k; i++ {
					stream = append(stream, one...)
				}
			case "trailing-garbage":
				stream = append(stream, pbt.DrawBytes(t, "garbage", rapid.IntRange(1, 20).Draw(t, "gn"))...)
			case "empty":
				stream = nil
			}
			in = refGzipPacked(stream)
			if mut == "tl-length" {
				// the TL bytes prefix claims more than the buffer holds
				in = ref.PutUint32(nil, 0x3072cfa1)
				in = append(in, 0xfe, 0xff, 0xff, byte(rapid.IntRange(0, 255).Draw(t, "hi")))
				in = append(in, stream[:min(len(stream), 16)]...)
			}
			got, err := gzipDecode(t, in, "malformed gzip object ("+mut+")")
			mustFail := mut == "truncate" || mut == "tl-length" || mut == "empty"
			if mustFail && err == nil {
				t.Fatalf("malformed gzip object (%s) decoded without error (%d bytes)\ninput: %x", mut, len(got), trunc64(in))
			}
			nontrivial = true
			key = fmt.Sprintf("gmal/%s/%x/%d", mut, crc32.ChecksumIEEE(in), len(in))
			sample = fmt.Sprintf("gzip %s data=%d err=%v out=%d", mut, len(data), err != nil, len(got))
			cl = append(cl, "mut="+mut, fmt.Sprintf("err=%v", err != nil))
		case "raw":
			in := pbt.DrawBytes(t, "raw", rapid.IntRange(0, 80).Draw(t, "n"))
			which := rapid.IntRange(0, 3).Draw(t, "type")
			if len(in) >= 4 && rapid.Bool().Draw(t, "withID") {
				binary.LittleEndian.PutUint32(in, []uint32{0x73f1f8dc, 0xf35c6d01, 0, 0x3072cfa1}[which])
			}
			ok := c22DecodeAny(t, which, in)
			nontrivial = len(in) > 0
			key = fmt.Sprintf("raw/%d/%x", which, in)
			sample = fmt.Sprintf("raw type=%d len=%d ok=%v", which, len(in), ok)
			cl = append(cl, fmt.Sprintf("ok=%v", ok))
		}
		// state-leak check: the pooled gzip reader still works
		checkPool(t, sample)
		st.Case(key, nontrivial, sample, cl...)
	})
}

// c22DecodeAny decodes arbitrary bytes as one of the four types: value or
// error, no panic, bounded allocation; a successful decode re-encodes and
// decodes to the same value.
func c22DecodeAny(ft fataler, which int, in []byte) bool {
	in = append([]byte(nil), in...)
	switch which % 4 {
	case 0:
		var d proto.MessageContainer
		var err error
		alloc := measured(func() { err = d.Decode(&bin.Buffer{Buf: in}) })
		if alloc > containerBound(in) {
			ft.Fatalf("container decode of %d raw bytes allocated %d, bound %d\ninput: %x", len(in), alloc, containerBound(in), trunc64(in))
		}
		if err != nil {
			return false
		}
		var enc bin.Buffer
		if err := d.Encode(&enc); err != nil {
			ft.Fatalf("decoded container does not encode: %v\ninput: %x", err, trunc64(in))
		}
		var d2 proto.MessageContainer
		if err := d2.Decode(&bin.Buffer{Buf: enc.Buf}); err != nil || len(d2.Messages) != len(d.Messages) {
			ft.Fatalf("re-encoded container does not decode back: %v\ninput: %x", err, trunc64(in))
		}
		for i := range d.Messages {
			a, b := d.Messages[i], d2.Messages[i]
			if a.ID != b.ID || a.SeqNo != b.SeqNo || a.Bytes != b.Bytes || !bytes.Equal(a.Body, b.Body) {
				ft.Fatalf("re-encoded container differs at message %d\ninput: %x", i, trunc64(in))
			}
		}
		return true
	case 1:
		var d proto.Result
		if err := d.Decode(&bin.Buffer{Buf: in}); err != nil {
			return false
		}
		var enc bin.Buffer
		_ = d.Encode(&enc)
		if !bytes.Equal(enc.Buf, in) {
			ft.Fatalf("rpc_result: decode then encode is not the input\ninput: %x", trunc64(in))
		}
		return true
	case 2:
		var d proto.UnencryptedMessage
		var err error
		b := &bin.Buffer{Buf: in}
		alloc := measured(func() { err = d.Decode(b) })
		if alloc > uint64(4*len(in)+64<<10) {
			ft.Fatalf("unencrypted decode of %d raw bytes allocated %d\ninput: %x", len(in), alloc, trunc64(in))
		}
		if err != nil {
			return false
		}
		var enc bin.Buffer
		_ = d.Encode(&enc)
		if !bytes.Equal(enc.Buf, in[:len(in)-b.Len()]) {
			ft.Fatalf("unencrypted: decode then encode is not the consumed input\ninput: %x", trunc64(in))
		}
		return true
	default:
		_, err := gzipDecode(ft, in, "raw bytes as gzip object")
		return err == nil
	}
}

func trunc64(b []byte) []byte {
	if len(b) > 64 {
		return b[:64]
	}
	return b
}

func nClass(n int) string {
	switch {
	case n == 0:
		return "n=0"
	case n == 1:
		return "n=1"
	case n < 10:
		return "n=2..9"
	default:
		return "n>=10"
	}
}

func bodyClass(n int) string {
	switch {
	case n == 0:
		return "body=0"
	case n < 64<<10:
		return "body<64K"
	case n < c22MaxBody:
		return "body<1M"
	default:
		return "body=1M"
	}
}

func countClass(c int32, n int) string {
	switch {
	case c < 0:
		return "count<0"
	case int(c) <= n:
		return "count<=n"
	case c >= 1<<30:
		return "count>=2^30"
	default:
		return "count>n"
	}
}

func lenClass(l int32) string {
	switch {
	case l < 0:
		return "len<0"
	case l > c22MaxBody:
		return "len>1M"
	default:
		return "len<=1M"
	}
}

// ---------------------------------------------------------------------------
// the 10 MiB limit and bombs (deterministic list)

type gzCase struct {
	name   string
	stream func() []byte
	// expectation: decoded size (for "must succeed" cases) or -1 for "must fail"
	size      int
	mustOK    bool
	mustFail  bool
	wantData  func() []byte
	thorough  bool
	malformed bool
}

func patternData(n int, seed uint64, random bool) []byte {
	if random {
		return pbt.NewStream(seed).Bytes(n)
	}
	return bytes.Repeat([]byte("0123456789abcdef"), n/16+1)[:n]
}

// members concatenates k gzip members of `each` zero bytes plus one of `last`.
func members(k, each, last int) []byte {
	one := zeroBomb(each)
	out := make([]byte, 0, k*len(one)+64)
	for i := 0; i < k; i++ {
		out = append(out, one...)
	}
	if last > 0 {
		out = append(out, zeroBomb(last)...)
	}
	return out
}

// TestC22GzipLimits walks a fixed list of sizes around the limit, bombs and
// corrupted streams; after every case the pooled reader must decode a valid object.
func TestC22GzipLimits(t *testing.T) {
	st := pbt.NewStats("TestC22GzipLimits")
	defer st.Flush()
	thorough := os.Getenv("VERIF_TIER") == "thorough"
	seed := uint64(envInt("VERIF_SEED", 1))
	var cases []gzCase
	for _, n := range []int{0, 1, c22GzipLimit - 1, c22GzipLimit, c22GzipLimit + 1, 11 * mib} {
		for _, random := range []bool{false, true} {
			n, random := n, random
			if random && n > c22GzipLimit+1 {
				continue
			}
			name := fmt.Sprintf("size=%d/%s", n, map[bool]string{false: "compressible", true: "incompressible"}[random])
			data := func() []byte { return patternData(n, seed, random) }
			cases = append(cases, gzCase{
				name: name, size: n, mustOK: n < c22GzipLimit, mustFail: n > c22GzipLimit, wantData: data,
				stream: func() []byte { return stdGzip(data(), gzip.BestSpeed) },
			})
		}
	}
	// bombs: one member, streamed
	for _, n := range []int{16 * mib, 64 * mib, 256 * mib, 1024 * mib} {
		n := n
		cases = append(cases, gzCase{name: fmt.Sprintf("bomb/one-member/%dMiB", n/mib), size: n, mustFail: true,
			stream: func() []byte { return zeroBomb(n) }, thorough: n > 64*mib && n < 1024*mib})
	}
	// bombs: concatenated members, each far below the limit
	cases = append(cases,
		gzCase{name: "bomb/members/11x1MiB", size: 11 * mib, mustFail: true, stream: func() []byte { return members(11, mib, 0) }},
		gzCase{name: "bomb/members/1024x1MiB", size: 1024 * mib, mustFail: true, stream: func() []byte { return members(1024, mib, 0) }},
		gzCase{name: "bomb/members/40960x25KiB", size: 40960 * 25 << 10, mustFail: true, stream: func() []byte { return members(40960, 25<<10, 0) }},
		gzCase{name: "members/9x1MiB+1MiB-1 (10 MiB - 1 in total)", size: c22GzipLimit - 1, stream: func() []byte { return members(9, mib, mib-1) }},
		gzCase{name: "members/10x1MiB+1 (10 MiB + 1 in total)", size: c22GzipLimit + 1, mustFail: true, stream: func() []byte { return members(10, mib, 1) }},
	)
	// corrupted streams around the limit
	corrupt := func(name string, n int, f func(s []byte) []byte) gzCase {
		return gzCase{name: name, size: n, malformed: true, stream: func() []byte { return f(zeroBomb(n)) }}
	}
	cases = append(cases,
		corrupt("corrupt/truncated-half/12MiB", 12*mib, func(s []byte) []byte { return s[:len(s)/2] }),
		corrupt("corrupt/truncated-trailer/5MiB", 5*mib, func(s []byte) []byte { return s[:len(s)-8] }),
		corrupt("corrupt/crc/5MiB", 5*mib, func(s []byte) []byte { s[len(s)-8] ^= 1; return s }),
		corrupt("corrupt/crc/12MiB", 12*mib, func(s []byte) []byte { s[len(s)-8] ^= 1; return s }),
		corrupt("corrupt/isize/5MiB", 5*mib, func(s []byte) []byte { s[len(s)-1] ^= 0x80; return s }),
		corrupt("corrupt/garbage-after/5MiB", 5*mib, func(s []byte) []byte { return append(s, "garbage after the stream"...) }),
		corrupt("corrupt/middle-byte/12MiB", 12*mib, func(s []byte) []byte { s[len(s)/2] ^= 0x55; return s }),
	)
	for _, c := range cases {
		if c.thorough && !thorough {
			continue
		}
		stream := c.stream()
		in := refGzipPacked(stream)
		if len(in) > 16*mib {
			t.Fatalf("harness: case %s does not fit a 16 MiB frame (%d bytes)", c.name, len(in))
		}
		ft := errCollector{t, "[" + c.name + "] "}
		func() {
			defer func() {
				if r := recover(); r != nil {
					if _, ok := r.(sweepAbort); !ok {
						t.Errorf("[%s] panic: %v", c.name, r)
					}
				}
			}()
			got, err := gzipDecode(ft, in, c.name)
			if c.mustOK {
				if err != nil {
					ft.Fatalf("%d bytes (< 10 MiB) must decode: %v", c.size, err)
				}
				if !bytes.Equal(got, c.wantData()) {
					ft.Fatalf("decoded %d bytes differ from the %d encoded", len(got), c.size)
				}
			}
			if c.mustFail && err == nil {
				ft.Fatalf("%d bytes of decompressed data (> 10 MiB) decoded without error (%d bytes returned)", c.size, len(got))
			}
			if c.wantData != nil && err == nil && !bytes.Equal(got, c.wantData()) {
				ft.Fatalf("decoded without error but to different data (%d vs %d bytes)", len(got), c.size)
			}
			checkPool(ft, c.name)
			cl := []string{fmt.Sprintf("err=%v", err != nil)}
			switch {
			case c.malformed:
				cl = append(cl, "corrupted")
			case c.size > c22GzipLimit:
				cl = append(cl, "over-limit")
			case c.size == c22GzipLimit:
				cl = append(cl, "at-limit")
			default:
				cl = append(cl, "under-limit")
			}
			st.Case(c.name, true, fmt.Sprintf("%s: stream %d bytes, out %d, err=%v", c.name, len(stream), len(got), err), cl...)
		}()
	}
	// the library's own encoder at the limit
	for _, n := range []int{c22GzipLimit - 1, c22GzipLimit + 1} {
		data := patternData(n, seed, false)
		var enc bin.Buffer
		if err := (proto.GZIP{Data: data}).Encode(&enc); err != nil {
			t.Errorf("GZIP.Encode of %d bytes: %v", n, err)
			continue
		}
		ft := errCollector{t, fmt.Sprintf("[own encoder %d] ", n)}
		func() {
			defer func() { _ = recover() }()
			got, err := gzipDecode(ft, enc.Buf, "own encoder")
			if n < c22GzipLimit && (err != nil || !bytes.Equal(got, data)) {
				ft.Fatalf("round-trip of %d bytes failed: err=%v got %d bytes", n, err, len(got))
			}
			if n > c22GzipLimit && err == nil {
				ft.Fatalf("%d bytes decoded without error", n)
			}
			checkPool(ft, "own encoder")
			st.Case(fmt.Sprintf("own/%d", n), true, fmt.Sprintf("own encoder n=%d err=%v", n, err), fmt.Sprintf("err=%v", err != nil))
		}()
	}
}

// ---------------------------------------------------------------------------
// findings

// negativeCountViolation: a container whose message count is negative decodes
// without error (as an empty container), the bytes after the count are ignored.
func negativeCountViolation() string {
	for _, c := range []int32{-1, math.MinInt32} {
		in := ref.PutInt32(ref.PutUint32(nil, 0x73f1f8dc), c)
		in = append(in, refContainer([]refMsg{{ID: 1, SeqNo: 1, Body: []byte{1, 2, 3, 4}}})[8:]...)
		var d proto.MessageContainer
		buf := &bin.Buffer{Buf: in}
		if err := d.Decode(buf); err == nil {
			return fmt.Sprintf("msg_container with count %d decodes without error: %d messages, %d of %d bytes left unread", c, len(d.Messages), buf.Len(), len(in))
		}
	}
	return ""
}

// TestC22Regression_container_negative_count fails while a negative message
// count is accepted.
func TestC22Regression_container_negative_count(t *testing.T) {
	if v := negativeCountViolation(); v != "" {
		t.Fatalf("C22 [signature %s]: %s", sigNegativeCount, v)
	}
}

func TestC22Known(t *testing.T) {
	if pbt.Known("C22", sigNegativeCount) {
		if v := negativeCountViolation(); v != "" {
			pbt.ReportKnown("C22", sigNegativeCount, v)
		} else {
			t.Logf("listed finding %s no longer reproduces", sigNegativeCount)
		}
	}
}

// FuzzC22: bytes decoded as container / rpc_result / unencrypted message /
// gzip object. Same oracle as the "raw" class of TestC22 plus the pool check.
func FuzzC22(f *testing.F) {
	f.Add(uint8(0), refContainer([]refMsg{{ID: 1, SeqNo: 2, Body: []byte{1, 2, 3, 4}}, {ID: 5, SeqNo: 6, Body: nil}}))
	f.Add(uint8(0), ref.PutInt32(ref.PutUint32(nil, 0x73f1f8dc), math.MaxInt32))
	f.Add(uint8(1), refResult(7, []byte{1, 2, 3, 4}))
	f.Add(uint8(2), refUnencrypted(9, []byte{1, 2, 3, 4, 5, 6, 7, 8}))
	f.Add(uint8(3), refGzipPacked(stdGzip([]byte("hello hello hello hello"), gzip.DefaultCompression)))
	f.Add(uint8(3), refGzipPacked(append(stdGzip([]byte("a"), gzip.BestSpeed), stdGzip([]byte("b"), gzip.BestSpeed)...)))
	f.Add(uint8(3), refGzipPacked(zeroBomb(11*mib)))
	f.Fuzz(func(t *testing.T, which uint8, data []byte) {
		if len(data) > 1<<20 {
			return
		}
		c22DecodeAny(t, int(which), data)
		checkPool(t, "fuzz input")
	})
}

var c22Dirty = make([]byte, 1<<16)

// usedBuffer is an empty buffer whose 64 KiB of spare capacity are full of
// another message's bytes, as a pooled buffer after Reset is: what is encoded
// into it must not depend on them.
func usedBuffer() bin.Buffer {
	for i := range c22Dirty {
		c22Dirty[i] = 0xA5
	}
	return bin.Buffer{Buf: c22Dirty[:0]}
}
