package c_tl

import "testing"

// FuzzC20: native coverage-guided fuzzing of the primitive decoders with the
// same differential oracle as TestC20Arbitrary (reference TL reader).
func FuzzC20(f *testing.F) {
	seeds := [][]byte{
		{}, {0}, {254, 0, 0, 0}, {255, 1, 2, 3}, {253, 0, 0, 0}, {3, 'a', 'b', 'c'},
		{0x15, 0xc4, 0xb5, 0x1c, 0xff, 0xff, 0xff, 0x7f},
		{0x15, 0xc4, 0xb5, 0x1c, 0xff, 0xff, 0xff, 0xff},
		{0xb5, 0x75, 0x72, 0x99}, {0x37, 0x97, 0x79, 0xbc},
	}
	for _, s := range seeds {
		for k := range primKinds {
			f.Add(byte(k), s)
		}
	}
	f.Fuzz(func(t *testing.T, kind byte, in []byte) {
		decodeAny(t, primKinds[int(kind)%len(primKinds)], in)
	})
}
