package c_tl

// C21 support: registry of every generated constructor of the tg, mt and e2e
// schemas (built by reflection over TypesConstructorMap / ClassConstructorsMap),
// a reflection-driven rapid value generator, the equality used by the
// round-trip oracle and the type graph used by the deep-nesting check.

import (
	"fmt"
	"math"
	"reflect"
	"sort"
	"sync"

	"github.com/gotd/td/bin"
	"github.com/gotd/td/mt"
	"github.com/gotd/td/tdp"
	"github.com/gotd/td/tg"
	"github.com/gotd/td/tg/e2e"
	"github.com/gotd/td/tmap"
	"pgregory.net/rapid"

	"verifharness/pbt"
)

// classDecoder is one generated DecodeX function together with the Go
// interface type (XClass) it returns.
type classDecoder struct {
	iface reflect.Type
	dec   func(*bin.Buffer) (bin.Object, error)
}

func wrapClassDecoder[T any](f func(*bin.Buffer) (T, error)) classDecoder {
	return classDecoder{
		iface: reflect.TypeFor[T](),
		dec: func(b *bin.Buffer) (bin.Object, error) {
			v, err := f(b)
			if err != nil {
				return nil, err
			}
			o, _ := any(v).(bin.Object)
			return o, nil
		},
	}
}

type fieldKind int

const (
	kFlags fieldKind = iota
	kBool
	kInt
	kLong
	kDouble
	kString
	kBytes
	kArray // bin.Int128 / bin.Int256
	kStruct
	kClass
	kGeneric // bin.Object (the !X parameter of invokeWithLayer and friends)
	kVector
)

func kindOf(t reflect.Type) fieldKind {
	switch {
	case t == fieldsType:
		return kFlags
	case t == objectType:
		return kGeneric
	}
	switch t.Kind() {
	case reflect.Bool:
		return kBool
	case reflect.Int, reflect.Int32:
		return kInt
	case reflect.Int64:
		return kLong
	case reflect.Float64:
		return kDouble
	case reflect.String:
		return kString
	case reflect.Array:
		return kArray
	case reflect.Struct:
		return kStruct
	case reflect.Interface:
		return kClass
	case reflect.Slice:
		if t.Elem().Kind() == reflect.Uint8 {
			return kBytes
		}
		return kVector
	}
	panic("C21: unsupported field type " + t.String())
}

type fieldInfo struct {
	idx  int
	name string
	typ  reflect.Type
	kind fieldKind
	// conditional fields: index of the bin.Fields struct field and bit; group is
	// the index into ctorInfo.groups (fields sharing one bit are present together,
	// as in the schema: `live_photo:flags.3?true video:flags.3?InputDocument`).
	cond      bool
	flagField int
	bit       int
	group     int
}

type presenceGroup struct {
	flagField int
	bit       int
	fields    []int // indexes into ctorInfo.fields
}

type ctorInfo struct {
	schema *schemaInfo
	id     uint32
	name   string // TL name, e.g. "textBold#6724abc4"
	short  string // "textBold"
	newFn  func() bin.Object
	typ    reflect.Type // struct type
	class  string       // class name or ""
	fields []fieldInfo
	groups []presenceGroup
	// height: minimal nesting depth of a value (0 = no required object field).
	height     int
	hasGeneric bool
	hasVector  bool
}

func (c *ctorInfo) String() string { return c.schema.name + "." + c.name }

type schemaInfo struct {
	name     string
	ctors    []*ctorInfo
	byID     map[uint32]*ctorInfo
	classes  map[string][]uint32
	classDec map[string]classDecoder
	tmap     *tmap.Constructor
	leaf     *ctorInfo
}

var (
	fieldsType = reflect.TypeOf(bin.Fields(0))
	objectType = reflect.TypeOf((*bin.Object)(nil)).Elem()

	regOnce      sync.Once
	schemas      []*schemaInfo
	allCtors     []*ctorInfo
	byType       = map[reflect.Type]*ctorInfo{}
	implementers = map[reflect.Type][]*ctorInfo{}
	regProblems  []string
	maxElemSize  uintptr
)

type typeInfoer interface{ TypeInfo() tdp.Type }

func registry() {
	regOnce.Do(buildRegistry)
}

func buildRegistry() {
	add := func(name string, types map[uint32]func() bin.Object, names map[uint32]string,
		classes map[string][]uint32, dec map[string]classDecoder) {
		s := &schemaInfo{name: name, byID: map[uint32]*ctorInfo{}, classes: classes, classDec: dec,
			tmap: tmap.NewConstructor(types)}
		ids := make([]uint32, 0, len(types))
		for id := range types {
			ids = append(ids, id)
		}
		sort.Slice(ids, func(i, j int) bool { return ids[i] < ids[j] })
		classOf := map[uint32]string{}
		for cn, cids := range classes {
			for _, id := range cids {
				if prev, dup := classOf[id]; dup {
					regProblems = append(regProblems, fmt.Sprintf("%s: id %#x in classes %s and %s", name, id, prev, cn))
				}
				classOf[id] = cn
				if types[id] == nil {
					regProblems = append(regProblems, fmt.Sprintf("%s: class %s lists id %#x which is not in TypesConstructorMap", name, cn, id))
				}
			}
			if _, ok := dec[cn]; !ok {
				regProblems = append(regProblems, fmt.Sprintf("%s: class %s has no entry in c21_classdec_test.go (regenerate)", name, cn))
			}
		}
		for _, id := range ids {
			obj := types[id]()
			pt := reflect.TypeOf(obj)
			if pt.Kind() != reflect.Ptr || pt.Elem().Kind() != reflect.Struct {
				regProblems = append(regProblems, fmt.Sprintf("%s: id %#x: constructor returns %s", name, id, pt))
				continue
			}
			ci := &ctorInfo{schema: s, id: id, name: names[id], newFn: types[id], typ: pt.Elem(), class: classOf[id]}
			ci.short = ci.name
			for i := 0; i < len(ci.short); i++ {
				if ci.short[i] == '#' {
					ci.short = ci.short[:i]
					break
				}
			}
			if ci.name == "" {
				regProblems = append(regProblems, fmt.Sprintf("%s: id %#x has no name in TypesMap", name, id))
				ci.name = fmt.Sprintf("%s#%08x", ci.typ.Name(), id)
				ci.short = ci.typ.Name()
			}
			if tid, ok := obj.(interface{ TypeID() uint32 }); !ok || tid.TypeID() != id {
				regProblems = append(regProblems, fmt.Sprintf("%s: id %#x: TypeID() disagrees", name, id))
			}
			s.ctors = append(s.ctors, ci)
			s.byID[id] = ci
			byType[ci.typ] = ci
		}
		schemas = append(schemas, s)
		allCtors = append(allCtors, s.ctors...)
	}
	add("tg", tg.TypesConstructorMap(), tg.TypesMap(), tg.ClassConstructorsMap(), classDecoders_tg)
	add("mt", mt.TypesConstructorMap(), mt.TypesMap(), mt.ClassConstructorsMap(), classDecoders_mt)
	add("e2e", e2e.TypesConstructorMap(), e2e.TypesMap(), e2e.ClassConstructorsMap(), classDecoders_e2e)

	for _, ci := range allCtors {
		analyseFields(ci)
	}
	// interface type -> implementing constructors; cross-check with the class maps.
	for _, s := range schemas {
		for cn, d := range s.classDec {
			if _, ok := s.classes[cn]; !ok {
				regProblems = append(regProblems, fmt.Sprintf("%s: decoder table lists unknown class %s", s.name, cn))
				continue
			}
			var impl []*ctorInfo
			for _, ci := range s.ctors {
				if reflect.PointerTo(ci.typ).Implements(d.iface) {
					impl = append(impl, ci)
				}
			}
			implementers[d.iface] = impl
			want := append([]uint32(nil), s.classes[cn]...)
			sort.Slice(want, func(i, j int) bool { return want[i] < want[j] })
			ok := len(want) == len(impl)
			for i := 0; ok && i < len(want); i++ {
				ok = want[i] == impl[i].id
			}
			if !ok {
				regProblems = append(regProblems, fmt.Sprintf("%s: class %s: ClassConstructorsMap and the Go interface disagree (%d vs %d constructors)", s.name, cn, len(want), len(impl)))
			}
		}
	}
	for _, ci := range allCtors {
		for _, f := range ci.fields {
			t := f.typ
			if f.kind == kVector {
				t = t.Elem()
				if t.Size() > maxElemSize {
					maxElemSize = t.Size()
				}
			}
			if kindOf(t) == kClass {
				if len(implementers[t]) == 0 {
					regProblems = append(regProblems, fmt.Sprintf("%s field %s: interface %s has no constructors", ci, f.name, t))
				}
			}
			if kindOf(t) == kStruct && byType[t] == nil {
				regProblems = append(regProblems, fmt.Sprintf("%s field %s: struct %s is not a registered constructor", ci, f.name, t))
			}
		}
	}
	computeHeights()
	for _, s := range schemas {
		for _, ci := range s.ctors {
			if ci.height == 0 && !ci.hasGeneric && s.leaf == nil {
				s.leaf = ci
			}
		}
	}
}

// analyseFields classifies the struct fields and finds, through the public
// TypeInfo() method, which flag bit makes each conditional field present.
func analyseFields(ci *ctorInfo) {
	var flagIdx []int
	for i := 0; i < ci.typ.NumField(); i++ {
		sf := ci.typ.Field(i)
		fi := fieldInfo{idx: i, name: sf.Name, typ: sf.Type, kind: kindOf(sf.Type), group: -1}
		if fi.kind == kFlags {
			flagIdx = append(flagIdx, i)
		}
		if fi.kind == kGeneric {
			ci.hasGeneric = true
		}
		if fi.kind == kVector {
			ci.hasVector = true
		}
		ci.fields = append(ci.fields, fi)
	}
	byName := map[string]int{}
	for i, f := range ci.fields {
		byName[f.name] = i
	}
	obj := ci.newFn()
	ti, ok := obj.(typeInfoer)
	if !ok {
		regProblems = append(regProblems, fmt.Sprintf("%s: no TypeInfo()", ci))
		return
	}
	seen := map[string]bool{}
	for _, f := range ti.TypeInfo().Fields {
		if _, ok := byName[f.Name]; !ok {
			regProblems = append(regProblems, fmt.Sprintf("%s: TypeInfo field %s is not a struct field", ci, f.Name))
		}
		seen[f.Name] = true
		if f.Null && len(flagIdx) == 0 {
			regProblems = append(regProblems, fmt.Sprintf("%s: field %s is Null but the type has no flags", ci, f.Name))
		}
	}
	for _, f := range ci.fields {
		if f.kind != kFlags && !seen[f.name] {
			regProblems = append(regProblems, fmt.Sprintf("%s: struct field %s is not in TypeInfo", ci, f.name))
		}
	}
	groupOf := map[[2]int]int{}
	for _, fidx := range flagIdx {
		for bit := 0; bit < 32; bit++ {
			o := ci.newFn()
			reflect.ValueOf(o).Elem().Field(fidx).SetUint(1 << uint(bit))
			for _, f := range o.(typeInfoer).TypeInfo().Fields {
				if f.Null {
					continue
				}
				i, ok := byName[f.Name]
				if !ok {
					continue
				}
				// non-null with exactly this bit set and null with no bit set => conditional on it
				if !isNullAtZero(ci, f.Name) {
					continue
				}
				fi := &ci.fields[i]
				if fi.cond {
					regProblems = append(regProblems, fmt.Sprintf("%s: field %s depends on two bits", ci, f.Name))
					continue
				}
				key := [2]int{fidx, bit}
				g, ok := groupOf[key]
				if !ok {
					g = len(ci.groups)
					groupOf[key] = g
					ci.groups = append(ci.groups, presenceGroup{flagField: fidx, bit: bit})
				}
				fi.cond, fi.flagField, fi.bit, fi.group = true, fidx, bit, g
				ci.groups[g].fields = append(ci.groups[g].fields, i)
			}
		}
	}
	for _, f := range ci.fields {
		if isNullAtZero(ci, f.name) && !f.cond {
			regProblems = append(regProblems, fmt.Sprintf("%s: conditional field %s: no flag bit found", ci, f.name))
		}
	}
}

var nullAtZeroCache sync.Map

func isNullAtZero(ci *ctorInfo, field string) bool {
	v, ok := nullAtZeroCache.Load(ci.typ)
	if !ok {
		m := map[string]bool{}
		for _, f := range ci.newFn().(typeInfoer).TypeInfo().Fields {
			m[f.Name] = f.Null
		}
		nullAtZeroCache.Store(ci.typ, m)
		v = m
	}
	return v.(map[string]bool)[field]
}

const infHeight = 1 << 20

func computeHeights() {
	for _, ci := range allCtors {
		ci.height = infHeight
	}
	typeHeight := func(t reflect.Type) int {
		switch kindOf(t) {
		case kStruct:
			if c := byType[t]; c != nil {
				return c.height
			}
			return infHeight
		case kClass:
			h := infHeight
			for _, c := range implementers[t] {
				if c.height < h {
					h = c.height
				}
			}
			return h
		case kGeneric:
			return 0
		}
		return -1
	}
	for changed := true; changed; {
		changed = false
		for _, ci := range allCtors {
			h := 0
			for _, f := range ci.fields {
				if f.cond || f.kind == kVector {
					continue
				}
				if fh := typeHeight(f.typ); fh >= 0 {
					if fh >= infHeight {
						h = infHeight
						break
					}
					if fh+1 > h {
						h = fh + 1
					}
				}
			}
			if h < ci.height {
				ci.height = h
				changed = true
			}
		}
	}
	for _, ci := range allCtors {
		if ci.height >= infHeight {
			regProblems = append(regProblems, fmt.Sprintf("%s: no finite value (required fields form a cycle)", ci))
		}
	}
}

// minImplementers returns the constructors of the interface with minimal height.
func minImplementers(t reflect.Type) []*ctorInfo {
	impl := implementers[t]
	h := infHeight
	for _, c := range impl {
		if c.height < h {
			h = c.height
		}
	}
	var out []*ctorInfo
	for _, c := range impl {
		if c.height == h {
			out = append(out, c)
		}
	}
	return out
}

// minimalValue builds, without randomness, the smallest value of ci: optional
// fields absent, vectors empty, scalars zero, required objects minimal.
func minimalValue(ci *ctorInfo) reflect.Value {
	p := reflect.New(ci.typ)
	sv := p.Elem()
	for _, f := range ci.fields {
		if f.cond || f.kind == kVector {
			continue
		}
		switch f.kind {
		case kStruct:
			sv.Field(f.idx).Set(minimalValue(byType[f.typ]).Elem())
		case kClass:
			sv.Field(f.idx).Set(minimalValue(minImplementers(f.typ)[0]))
		case kGeneric:
			sv.Field(f.idx).Set(minimalValue(ci.schema.leaf))
		}
	}
	return p
}

// ---------------------------------------------------------------------------
// rapid value generator

// vgen generates one value tree. Domain (sound by construction):
//   - Go `int` fields carry TL int (32 bit): drawn from the int32 range;
//   - strings and bytes are arbitrary bytes (TL strings are byte strings);
//   - a conditional field is present together with every field sharing its flag
//     bit (the schema's meaning of one bit); a present `flags.N?true` field is
//     true; a present object field is non-nil; other present fields may hold the
//     zero value, in which case the bit is set explicitly as SetX(zero) does;
//   - required interface fields are non-nil, vector elements are non-nil;
//   - bin.Fields hold only bits of declared conditional fields.
type vgen struct {
	t        *rapid.T
	optional int // conditional groups made present
	nested   int // interface-typed values generated below the top level
	presentZ int // present-with-zero-value fields
	nodes    int
	excluded []string // shapes left out because of listed known findings
}

// sigBareVecBoxed: accessPointRule.ips is `vector<IpPort>` (bare vector of boxed
// elements): the encoder writes the elements bare, the decoder expects ids.
const sigBareVecBoxed = "C21/roundtrip/accessPointRule-ips-elements-encoded-bare"

var knownBareVecBoxed = sync.OnceValue(func() bool { return pbt.Known("C21", sigBareVecBoxed) })

var (
	int32Gen = rapid.OneOf(rapid.SampledFrom([]int32{math.MinInt32, -1, 0, 1, math.MaxInt32, 1024, 0x1cb5c415}), rapid.Int32())
	int64Gen = rapid.OneOf(rapid.SampledFrom([]int64{math.MinInt64, -1, 0, 1, math.MaxInt64, math.MaxInt32 + 1}), rapid.Int64())
	f64Gen   = rapid.OneOf(rapid.SampledFrom([]uint64{
		math.Float64bits(0), math.Float64bits(math.Copysign(0, -1)), math.Float64bits(math.Inf(1)),
		math.Float64bits(math.Inf(-1)), math.Float64bits(math.NaN()), 0x7ff0000000000001, 1, math.Float64bits(1.5),
	}), rapid.Uint64())
	// short strings; sometimes around the 253/254 length-prefix switch
	strLenGen = rapid.OneOf(rapid.IntRange(0, 8), rapid.IntRange(0, 8), rapid.IntRange(0, 8), rapid.SampledFrom([]int{0, 1, 3, 4, 253, 254, 255, 256, 300}))
	vecLenGen = rapid.SampledFrom([]int{0, 0, 0, 1, 1, 1, 2, 2, 3})
)

func (g *vgen) bytes(n int) []byte {
	if n == 0 {
		return []byte{}
	}
	return pbt.DrawBytes(g.t, "raw", n)
}

// ctor generates a value of constructor ci (pointer to struct).
func (g *vgen) ctor(ci *ctorInfo, budget int) reflect.Value {
	p := reflect.New(ci.typ)
	g.fill(ci, p.Elem(), budget)
	return p
}

func (g *vgen) fill(ci *ctorInfo, sv reflect.Value, budget int) {
	g.nodes++
	// presence per group
	present := make([]bool, len(ci.groups))
	for i := range ci.groups {
		if budget > 0 {
			present[i] = rapid.Bool().Draw(g.t, "present")
		}
	}
	for _, f := range ci.fields {
		if f.kind == kFlags {
			continue
		}
		fv := sv.Field(f.idx)
		if f.cond {
			if !present[f.group] {
				continue
			}
			if ci.groups[f.group].fields[0] == f.idx {
				g.optional++ // count each present group once (on its first field)
			}
			flags := sv.Field(f.flagField)
			switch f.kind {
			case kBool:
				fv.SetBool(true)
			case kClass:
				fv.Set(g.value(f.typ, budget-1))
			default:
				// present, possibly with the zero value (SetX(zero) semantics)
				// (not for structs that need a non-nil object inside: their zero value does not encode)
				zeroOK := f.kind != kStruct || byType[f.typ].height == 0
				if zeroOK && rapid.IntRange(0, 7).Draw(g.t, "presentZero") == 0 {
					g.presentZ++
				} else {
					fv.Set(g.value(f.typ, budget-1))
				}
				// The bit is left to SetFlags (derived from the non-zero value) unless the
				// value is the zero value, where only an explicit bit (what SetX(zero)
				// does) makes the field present; sometimes it is set explicitly anyway.
				isZero := fv.IsZero()
				if f.kind == kStruct {
					isZero = fv.Addr().Interface().(interface{ Zero() bool }).Zero()
				}
				if isZero || rapid.IntRange(0, 3).Draw(g.t, "explicitBit") == 0 {
					flags.SetUint(flags.Uint() | 1<<uint(f.bit))
				}
			}
			continue
		}
		if f.kind == kVector && ci.short == "accessPointRule" && f.name == "IPs" && knownBareVecBoxed() {
			// listed finding: a non-empty ips vector does not round-trip; keep it empty
			g.excluded = append(g.excluded, sigBareVecBoxed)
			continue
		}
		fv.Set(g.value(f.typ, budget-1))
	}
}

// value generates a value of an arbitrary field type.
func (g *vgen) value(t reflect.Type, budget int) reflect.Value {
	switch kindOf(t) {
	case kBool:
		return reflect.ValueOf(rapid.Bool().Draw(g.t, "b")).Convert(t)
	case kInt:
		return reflect.ValueOf(int64(int32Gen.Draw(g.t, "i"))).Convert(t)
	case kLong:
		return reflect.ValueOf(int64Gen.Draw(g.t, "l")).Convert(t)
	case kDouble:
		return reflect.ValueOf(math.Float64frombits(f64Gen.Draw(g.t, "d"))).Convert(t)
	case kString:
		return reflect.ValueOf(string(g.bytes(strLenGen.Draw(g.t, "slen")))).Convert(t)
	case kBytes:
		return reflect.ValueOf(g.bytes(strLenGen.Draw(g.t, "blen"))).Convert(t)
	case kArray:
		v := reflect.New(t).Elem()
		raw := g.bytes(t.Len())
		if rapid.IntRange(0, 3).Draw(g.t, "zeroArr") == 0 {
			raw = make([]byte, t.Len())
		}
		reflect.Copy(v, reflect.ValueOf(raw))
		return v
	case kStruct:
		v := reflect.New(t).Elem()
		g.fill(byType[t], v, budget)
		return v
	case kClass:
		g.nested++
		var c *ctorInfo
		if budget <= 0 {
			m := minImplementers(t)
			c = m[rapid.IntRange(0, len(m)-1).Draw(g.t, "leaf")]
		} else {
			impl := implementers[t]
			c = impl[rapid.IntRange(0, len(impl)-1).Draw(g.t, "ctorOf")]
		}
		return g.ctor(c, budget).Convert(t)
	case kGeneric:
		g.nested++
		// the !X parameter: any function/object of the same schema
		var c *ctorInfo
		// the schema of a generic field is the one of the enclosing type: only tg has them
		s := schemaByName("tg")
		if budget <= 0 {
			c = s.leaf
		} else {
			c = s.ctors[rapid.IntRange(0, len(s.ctors)-1).Draw(g.t, "query")]
		}
		return g.ctor(c, budget).Convert(t)
	case kVector:
		n := 0
		if budget > 0 {
			n = vecLenGen.Draw(g.t, "vlen")
		}
		if n == 0 {
			if rapid.Bool().Draw(g.t, "emptyNonNil") {
				return reflect.MakeSlice(t, 0, 0)
			}
			return reflect.Zero(t)
		}
		v := reflect.MakeSlice(t, n, n)
		for i := 0; i < n; i++ {
			v.Index(i).Set(g.value(t.Elem(), budget-1))
		}
		return v
	}
	panic("C21 gen: " + t.String())
}

func schemaByName(name string) *schemaInfo {
	for _, s := range schemas {
		if s.name == name {
			return s
		}
	}
	panic(name)
}

// ---------------------------------------------------------------------------
// equality: the normalisation of the round-trip oracle.
// nil slice == empty slice; floats compared by bit pattern; bin.Fields ignored
// (the wire-visible part of the flags is covered by the byte-identical re-encode).

func tlEqual(a, b reflect.Value, path string) string {
	if a.Type() != b.Type() {
		return fmt.Sprintf("%s: type %s vs %s", path, a.Type(), b.Type())
	}
	switch a.Kind() {
	case reflect.Interface, reflect.Ptr:
		if a.IsNil() || b.IsNil() {
			if a.IsNil() != b.IsNil() {
				return fmt.Sprintf("%s: nil vs non-nil", path)
			}
			return ""
		}
		return tlEqual(a.Elem(), b.Elem(), path)
	case reflect.Struct:
		for i := 0; i < a.NumField(); i++ {
			if a.Type().Field(i).Type == fieldsType {
				continue
			}
			if d := tlEqual(a.Field(i), b.Field(i), path+"."+a.Type().Field(i).Name); d != "" {
				return d
			}
		}
		return ""
	case reflect.Slice:
		if a.Len() != b.Len() {
			return fmt.Sprintf("%s: len %d vs %d", path, a.Len(), b.Len())
		}
		for i := 0; i < a.Len(); i++ {
			if d := tlEqual(a.Index(i), b.Index(i), fmt.Sprintf("%s[%d]", path, i)); d != "" {
				return d
			}
		}
		return ""
	case reflect.Array:
		for i := 0; i < a.Len(); i++ {
			if a.Index(i).Uint() != b.Index(i).Uint() {
				return fmt.Sprintf("%s: array differs", path)
			}
		}
		return ""
	case reflect.Float64:
		if math.Float64bits(a.Float()) != math.Float64bits(b.Float()) {
			return fmt.Sprintf("%s: %#x vs %#x", path, math.Float64bits(a.Float()), math.Float64bits(b.Float()))
		}
		return ""
	case reflect.Bool:
		if a.Bool() != b.Bool() {
			return fmt.Sprintf("%s: %v vs %v", path, a.Bool(), b.Bool())
		}
		return ""
	case reflect.Int, reflect.Int32, reflect.Int64:
		if a.Int() != b.Int() {
			return fmt.Sprintf("%s: %d vs %d", path, a.Int(), b.Int())
		}
		return ""
	case reflect.Uint8, reflect.Uint32, reflect.Uint64:
		if a.Uint() != b.Uint() {
			return fmt.Sprintf("%s: %d vs %d", path, a.Uint(), b.Uint())
		}
		return ""
	case reflect.String:
		if a.String() != b.String() {
			return fmt.Sprintf("%s: %q vs %q", path, a.String(), b.String())
		}
		return ""
	}
	panic("tlEqual: " + a.Kind().String())
}

// mirrorGenerics prepares dst (a fresh object of the same constructor as src)
// for decoding: every bin.Object field gets a fresh object of the type src
// holds there. That is the documented use of the generic wrappers: the caller
// supplies the type of the inner query.
func mirrorGenerics(src, dst reflect.Value) {
	ci := byType[src.Elem().Type()]
	if ci == nil || !ci.hasGeneric {
		return
	}
	for _, f := range ci.fields {
		if f.kind != kGeneric {
			continue
		}
		q := src.Elem().Field(f.idx)
		if q.IsNil() {
			continue
		}
		inner := q.Elem() // pointer to struct
		fresh := reflect.New(inner.Type().Elem())
		mirrorGenerics(inner, fresh)
		dst.Elem().Field(f.idx).Set(fresh)
	}
}

// describe renders a value shortly for samples and failure messages.
func describe(v reflect.Value, depth int) string {
	switch v.Kind() {
	case reflect.Interface, reflect.Ptr:
		if v.IsNil() {
			return "nil"
		}
		return describe(v.Elem(), depth)
	case reflect.Struct:
		ci := byType[v.Type()]
		name := v.Type().Name()
		if ci != nil {
			name = ci.short
		}
		if depth <= 0 {
			return name + "{..}"
		}
		s := name + "{"
		n := 0
		for i := 0; i < v.NumField(); i++ {
			f := v.Field(i)
			if f.IsZero() {
				continue
			}
			if n > 0 {
				s += " "
			}
			n++
			s += v.Type().Field(i).Name + ":" + describe(f, depth-1)
		}
		return s + "}"
	case reflect.Slice:
		if v.Type().Elem().Kind() == reflect.Uint8 {
			if v.Len() > 8 {
				return fmt.Sprintf("bytes(%d)", v.Len())
			}
			return fmt.Sprintf("%x", v.Bytes())
		}
		s := "["
		for i := 0; i < v.Len(); i++ {
			if i > 0 {
				s += " "
			}
			s += describe(v.Index(i), depth-1)
		}
		return s + "]"
	case reflect.String:
		if v.Len() > 8 {
			return fmt.Sprintf("str(%d)", v.Len())
		}
		return fmt.Sprintf("%q", v.String())
	case reflect.Array:
		return "int" + fmt.Sprint(v.Len()*8)
	case reflect.Float64:
		return fmt.Sprintf("f%#x", math.Float64bits(v.Float()))
	}
	return fmt.Sprint(v.Interface())
}

// ---------------------------------------------------------------------------
// type graph and cycles (deep nesting)

type edge struct {
	field int // index into from.fields
	to    *ctorInfo
}

func edgesOf(ci *ctorInfo) []edge {
	var out []edge
	for i, f := range ci.fields {
		t := f.typ
		if f.kind == kVector {
			t = t.Elem()
		}
		switch kindOf(t) {
		case kStruct:
			if c := byType[t]; c != nil {
				out = append(out, edge{i, c})
			}
		case kClass:
			for _, c := range implementers[t] {
				out = append(out, edge{i, c})
			}
		}
		// kGeneric edges are left out: a generic wrapper accepts any type, which
		// would make every function part of a cycle through the wrapper alone; the
		// wrappers are covered by their own self-cycle below.
	}
	return out
}

type cycleStep struct {
	ci    *ctorInfo
	field int // the field of ci through which the next step's constructor is reached
}

type cycle struct {
	sig   string // "C21/stack-overflow/cycle=<Class>.<ctor>"
	label string
	steps []cycleStep
}

// findCycles returns, for every constructor that can contain itself, one
// shortest cycle through it (BFS over the field graph), sorted by label.
func findCycles() []cycle {
	registry()
	adj := map[*ctorInfo][]edge{}
	for _, ci := range allCtors {
		adj[ci] = edgesOf(ci)
	}
	var out []cycle
	for _, start := range allCtors {
		// BFS from start back to start
		type prev struct {
			from  *ctorInfo
			field int
		}
		pred := map[*ctorInfo]prev{}
		queue := []*ctorInfo{start}
		found := false
		var lastFrom *ctorInfo
		var lastField int
		for len(queue) > 0 && !found {
			cur := queue[0]
			queue = queue[1:]
			for _, e := range adj[cur] {
				if e.to == start {
					found, lastFrom, lastField = true, cur, e.field
					break
				}
				if _, ok := pred[e.to]; ok || e.to == start {
					continue
				}
				pred[e.to] = prev{cur, e.field}
				queue = append(queue, e.to)
			}
		}
		if !found {
			continue
		}
		var rev []cycleStep
		rev = append(rev, cycleStep{lastFrom, lastField})
		for c := lastFrom; c != start; {
			p := pred[c]
			rev = append(rev, cycleStep{p.from, p.field})
			c = p.from
		}
		steps := make([]cycleStep, len(rev))
		for i := range rev {
			steps[len(rev)-1-i] = rev[i]
		}
		cls := start.class
		if cls == "" {
			cls = start.typ.Name()
		}
		label := cls + "." + start.short
		if start.schema.name != "tg" {
			label = start.schema.name + ":" + label
		}
		out = append(out, cycle{sig: sigOverflow + label, label: label, steps: steps})
	}
	sort.Slice(out, func(i, j int) bool { return out[i].label < out[j].label })
	return out
}
