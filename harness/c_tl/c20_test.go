package c_tl

import (
	"bytes"
	"fmt"
	"math"
	"testing"

	"github.com/gotd/td/bin"
	"pgregory.net/rapid"

	"verifharness/pbt"
	"verifharness/pbt/ref"
)

// C20: TL primitive encoding round-trips and is always 4-byte aligned.

type prim struct {
	Kind string
	I32  int32
	I64  int64
	F    uint64 // float bits
	B    bool
	Raw  []byte // string/bytes/int128/int256
	N    int    // vector header
}

func (p prim) desc() string {
	switch p.Kind {
	case "string", "bytes":
		return fmt.Sprintf("%s(len=%d)", p.Kind, len(p.Raw))
	case "int":
		return fmt.Sprintf("int(%d)", p.I32)
	case "long":
		return fmt.Sprintf("long(%d)", p.I64)
	case "double":
		return fmt.Sprintf("double(bits=%#x)", p.F)
	case "bool":
		return fmt.Sprintf("bool(%v)", p.B)
	case "vector":
		return fmt.Sprintf("vector(%d)", p.N)
	default:
		return fmt.Sprintf("%s(%x)", p.Kind, p.Raw)
	}
}

var strLens = []int{0, 1, 2, 3, 4, 5, 250, 251, 252, 253, 254, 255, 256, 257, 258, 1000, 65535, 65536, 65537}

func genLen(t *rapid.T) int {
	switch rapid.IntRange(0, 9).Draw(t, "lenClass") {
	case 0, 1, 2, 3:
		return rapid.SampledFrom(strLens).Draw(t, "len")
	case 4:
		if rapid.IntRange(0, 15).Draw(t, "huge") == 0 {
			return rapid.SampledFrom([]int{1<<24 - 1, 1<<24 - 2, 1<<24 - 3, 1<<24 - 4, 1 << 23}).Draw(t, "len")
		}
		return rapid.IntRange(0, 1<<17).Draw(t, "len")
	default:
		return rapid.IntRange(0, 600).Draw(t, "len")
	}
}

func genPrim(t *rapid.T) prim {
	kind := rapid.SampledFrom([]string{"int", "long", "double", "bool", "int128", "int256", "string", "bytes", "vector", "string", "bytes"}).Draw(t, "kind")
	p := prim{Kind: kind}
	switch kind {
	case "int":
		p.I32 = rapid.OneOf(rapid.SampledFrom([]int32{math.MinInt32, -1, 0, 1, math.MaxInt32}), rapid.Int32()).Draw(t, "v")
	case "long":
		p.I64 = rapid.OneOf(rapid.SampledFrom([]int64{math.MinInt64, -1, 0, 1, math.MaxInt64}), rapid.Int64()).Draw(t, "v")
	case "double":
		p.F = rapid.OneOf(rapid.SampledFrom([]uint64{
			math.Float64bits(0), math.Float64bits(math.Copysign(0, -1)),
			math.Float64bits(math.Inf(1)), math.Float64bits(math.Inf(-1)),
			math.Float64bits(math.NaN()), 0x7ff0000000000001, 0xfff8000000000123, 1,
		}), rapid.Uint64()).Draw(t, "bits")
	case "bool":
		p.B = rapid.Bool().Draw(t, "v")
	case "int128":
		p.Raw = pbt.DrawBytes(t, "raw", 16)
	case "int256":
		p.Raw = pbt.DrawBytes(t, "raw", 32)
	case "string", "bytes":
		n := genLen(t)
		p.Raw = pbt.DrawBytes(t, "raw", n)
		if n > 0 && rapid.Bool().Draw(t, "zeros") {
			// all-zero content: indistinguishable from padding if lengths go wrong
			p.Raw = make([]byte, n)
		}
	case "vector":
		p.N = rapid.OneOf(rapid.SampledFrom([]int{0, 1, 1024, 1025, math.MaxInt32}), rapid.IntRange(0, math.MaxInt32)).Draw(t, "n")
	}
	return p
}

func (p prim) encodeImpl(b *bin.Buffer) {
	switch p.Kind {
	case "int":
		b.PutInt32(p.I32)
	case "long":
		b.PutLong(p.I64)
	case "double":
		b.PutDouble(math.Float64frombits(p.F))
	case "bool":
		b.PutBool(p.B)
	case "int128":
		var v bin.Int128
		copy(v[:], p.Raw)
		b.PutInt128(v)
	case "int256":
		var v bin.Int256
		copy(v[:], p.Raw)
		b.PutInt256(v)
	case "string":
		b.PutString(string(p.Raw))
	case "bytes":
		b.PutBytes(p.Raw)
	case "vector":
		b.PutVectorHeader(p.N)
	}
}

func (p prim) encodeRef(b []byte) []byte {
	switch p.Kind {
	case "int":
		return ref.PutInt32(b, p.I32)
	case "long":
		return ref.PutInt64(b, p.I64)
	case "double":
		return ref.PutInt64(b, int64(p.F))
	case "bool":
		return ref.PutBool(b, p.B)
	case "int128", "int256":
		return append(b, p.Raw...)
	case "string", "bytes":
		return ref.PutBytes(b, p.Raw)
	case "vector":
		return ref.PutVectorHeader(b, p.N)
	}
	panic("kind")
}

// decodeImpl decodes one value of p's kind and compares with p.
func (p prim) decodeImpl(b *bin.Buffer) error {
	switch p.Kind {
	case "int":
		v, err := b.Int32()
		if err != nil {
			return err
		}
		if v != p.I32 {
			return fmt.Errorf("int: got %d want %d", v, p.I32)
		}
		return nil
	case "long":
		v, err := b.Long()
		if err != nil {
			return err
		}
		if v != p.I64 {
			return fmt.Errorf("long: got %d want %d", v, p.I64)
		}
	case "double":
		v, err := b.Double()
		if err != nil {
			return err
		}
		if math.Float64bits(v) != p.F {
			return fmt.Errorf("double: got bits %#x want %#x", math.Float64bits(v), p.F)
		}
	case "bool":
		v, err := b.Bool()
		if err != nil {
			return err
		}
		if v != p.B {
			return fmt.Errorf("bool: got %v", v)
		}
	case "int128":
		v, err := b.Int128()
		if err != nil {
			return err
		}
		if !bytes.Equal(v[:], p.Raw) {
			return fmt.Errorf("int128 mismatch")
		}
	case "int256":
		v, err := b.Int256()
		if err != nil {
			return err
		}
		if !bytes.Equal(v[:], p.Raw) {
			return fmt.Errorf("int256 mismatch")
		}
	case "string":
		v, err := b.String()
		if err != nil {
			return err
		}
		if v != string(p.Raw) {
			return fmt.Errorf("string mismatch: got len %d want %d", len(v), len(p.Raw))
		}
		c20Kept = append(c20Kept, c20KeptValue{s: v, want: p.Raw})
	case "bytes":
		v, err := b.Bytes()
		if err != nil {
			return err
		}
		if !bytes.Equal(v, p.Raw) {
			return fmt.Errorf("bytes mismatch: got len %d want %d", len(v), len(p.Raw))
		}
		c20Kept = append(c20Kept, c20KeptValue{b: v, isBytes: true, want: p.Raw})
	case "vector":
		v, err := b.VectorHeader()
		if err != nil {
			return err
		}
		if v != p.N {
			return fmt.Errorf("vector: got %d want %d", v, p.N)
		}
	}
	return nil
}

var c20Dirty []byte

// c20Kept: the strings and byte slices decodeImpl handed out, kept as a caller
// keeps them while the buffer they were decoded from is used for the next message.
type c20KeptValue struct {
	s       string
	b       []byte
	isBytes bool
	want    []byte
}

var c20Kept []c20KeptValue

func TestC20(t *testing.T) {
	st := pbt.NewStats("TestC20")
	defer st.Flush()
	rapid.Check(t, func(t *rapid.T) {
		n := rapid.IntRange(1, 10).Draw(t, "n")
		vals := make([]prim, n)
		var key string
		nontrivial := n > 1
		for i := range vals {
			vals[i] = genPrim(t)
			key += vals[i].desc() + ";"
			if (vals[i].Kind == "string" || vals[i].Kind == "bytes") && len(vals[i].Raw) >= 252 {
				nontrivial = true
			}
		}
		// the values are appended to a buffer that may already hold something,
		// not necessarily a whole number of words (Buffer.Put of raw bytes, a
		// caller's own framing): each value's own encoding is 4-byte aligned and
		// equal to the reference whatever precedes it
		prefix := pbt.DrawBytes(t, "prefix", rapid.SampledFrom([]int{0, 0, 0, 1, 2, 3, 4, 5, 7}).Draw(t, "prefixLen"))
		if len(prefix)%4 != 0 {
			nontrivial = true
			key = fmt.Sprintf("prefix%d;", len(prefix)) + key
		}
		// ... and the buffer has been used before: its spare capacity (none, a
		// little, or enough for everything) is full of another message's bytes
		var b bin.Buffer
		if spare := rapid.SampledFrom([]int{0, 0, 16, 300, 70000}).Draw(t, "dirtySpare"); spare > 0 {
			if cap(c20Dirty) < spare {
				c20Dirty = make([]byte, spare)
			}
			d := c20Dirty[:spare]
			for i := range d {
				d[i] = 0xA5
			}
			b.Buf = d[:0]
			key = fmt.Sprintf("dirty%d;", spare) + key
		}
		b.Put(prefix)
		want := append([]byte(nil), prefix...)
		for _, v := range vals {
			before := b.Len()
			v.encodeImpl(&b)
			if (b.Len()-before)%4 != 0 {
				t.Fatalf("%s: encoded length %d is not 4-byte aligned", v.desc(), b.Len()-before)
			}
			want = v.encodeRef(want)
			if !bytes.Equal(b.Buf, want) {
				t.Fatalf("%s: encoding differs from reference (impl %d bytes, ref %d bytes)", v.desc(), b.Len(), len(want))
			}
		}
		// decode the concatenation: every value comes back and consumes exactly its length
		src := append([]byte(nil), b.Buf[len(prefix):]...)
		d := bin.Buffer{Buf: src}
		c20Kept = c20Kept[:0]
		consumed := 0
		var refBuf []byte
		for _, v := range vals {
			refBuf = v.encodeRef(refBuf[:0])
			before := d.Len()
			if err := v.decodeImpl(&d); err != nil {
				t.Fatalf("%s: decode: %v", v.desc(), err)
			}
			if before-d.Len() != len(refBuf) {
				t.Fatalf("%s: decode consumed %d bytes, encoded length is %d", v.desc(), before-d.Len(), len(refBuf))
			}
			consumed += len(refBuf)
		}
		if d.Len() != 0 {
			t.Fatalf("%d bytes left after decoding all values", d.Len())
		}
		// the source buffer goes on to carry the next message; the decoded
		// values are the caller's and stay what they were
		for i := range src {
			src[i] ^= 0x5A
		}
		for i, k := range c20Kept {
			if (k.isBytes && !bytes.Equal(k.b, k.want)) || (!k.isBytes && k.s != string(k.want)) {
				t.Fatalf("decoded value #%d (%d bytes, bytes=%v) changed when the buffer it was decoded from was overwritten", i, len(k.want), k.isBytes)
			}
		}
		// truncation: any strict prefix of a single encoded value must give an error
		v := vals[rapid.IntRange(0, n-1).Draw(t, "truncIdx")]
		enc := v.encodeRef(nil)
		cut := rapid.IntRange(0, len(enc)-1).Draw(t, "cut")
		td := bin.Buffer{Buf: enc[:cut:cut]}
		if err := v.decodeImpl(&td); err == nil {
			t.Fatalf("%s: decoding a %d-byte prefix of %d bytes succeeded", v.desc(), cut, len(enc))
		}
		st.Case(key, nontrivial, key, "n="+fmt.Sprint(n))
	})
}

// decodeAny decodes arbitrary bytes as kind with impl and reference and
// compares outcome, value and consumption.
func decodeAny(t interface{ Fatalf(string, ...any) }, kind string, in []byte) (ok bool) {
	b := bin.Buffer{Buf: append([]byte(nil), in...)}
	fail := func(format string, args ...any) {
		t.Fatalf("decode %s of %x: "+format, append([]any{kind, trunc(in)}, args...)...)
	}
	switch kind {
	case "int":
		v, err := b.Int32()
		rv, rn, rerr := ref.Int32(in)
		if (err == nil) != (rerr == nil) {
			fail("impl err=%v ref err=%v", err, rerr)
		}
		if err == nil && (v != rv || len(in)-b.Len() != rn) {
			fail("value/consumption mismatch")
		}
		return err == nil
	case "long", "double":
		var v int64
		var err error
		if kind == "long" {
			v, err = b.Long()
		} else {
			var f float64
			f, err = b.Double()
			v = int64(math.Float64bits(f))
		}
		rv, rn, rerr := ref.Int64(in)
		if (err == nil) != (rerr == nil) {
			fail("impl err=%v ref err=%v", err, rerr)
		}
		if err == nil && (v != rv || len(in)-b.Len() != rn) {
			fail("value/consumption mismatch")
		}
		return err == nil
	case "bool":
		v, err := b.Bool()
		rv, rn, rerr := ref.Bool(in)
		if (err == nil) != (rerr == nil) {
			fail("impl err=%v ref err=%v", err, rerr)
		}
		if err == nil && (v != rv || len(in)-b.Len() != rn) {
			fail("value/consumption mismatch")
		}
		return err == nil
	case "int128", "int256":
		size := 16
		var got []byte
		var err error
		if kind == "int128" {
			var v bin.Int128
			v, err = b.Int128()
			got = v[:]
		} else {
			size = 32
			var v bin.Int256
			v, err = b.Int256()
			got = v[:]
		}
		if (err == nil) != (len(in) >= size) {
			fail("impl err=%v len=%d", err, len(in))
		}
		if err == nil && (!bytes.Equal(got, in[:size]) || len(in)-b.Len() != size) {
			fail("value/consumption mismatch")
		}
		return err == nil
	case "string", "bytes":
		var got []byte
		var err error
		if kind == "string" {
			var s string
			s, err = b.String()
			got = []byte(s)
		} else {
			got, err = b.Bytes()
		}
		rv, rn, rerr := ref.Bytes(in)
		if (err == nil) != (rerr == nil) {
			fail("impl err=%v ref err=%v", err, rerr)
		}
		if err == nil && (!bytes.Equal(got, rv) || len(in)-b.Len() != rn) {
			fail("value/consumption mismatch: impl len %d consumed %d, ref len %d consumed %d", len(got), len(in)-b.Len(), len(rv), rn)
		}
		return err == nil
	case "vector":
		v, err := b.VectorHeader()
		rv, rn, rerr := ref.VectorHeader(in)
		if (err == nil) != (rerr == nil) {
			fail("impl err=%v ref err=%v", err, rerr)
		}
		if err == nil && (v != rv || len(in)-b.Len() != rn) {
			fail("value/consumption mismatch")
		}
		return err == nil
	}
	panic("kind " + kind)
}

func trunc(b []byte) []byte {
	if len(b) > 24 {
		return b[:24]
	}
	return b
}

var primKinds = []string{"int", "long", "double", "bool", "int128", "int256", "string", "bytes", "vector"}

// TestC20Arbitrary: decoding arbitrary / mutated bytes as any primitive never
// panics and agrees with the reference reader on success, value, consumption.
func TestC20Arbitrary(t *testing.T) {
	st := pbt.NewStats("TestC20Arbitrary")
	defer st.Flush()
	rapid.Check(t, func(t *rapid.T) {
		kind := rapid.SampledFrom(primKinds).Draw(t, "kind")
		var in []byte
		class := rapid.SampledFrom([]string{"random", "mutated", "lenprefix"}).Draw(t, "class")
		switch class {
		case "random":
			in = pbt.DrawBytes(t, "in", rapid.IntRange(0, 40).Draw(t, "n"))
		case "mutated":
			p := genPrim(t)
			in = p.encodeRef(nil)
			if len(in) > 70000 {
				in = in[:70000]
			}
			switch rapid.IntRange(0, 3).Draw(t, "mut") {
			case 0:
				if len(in) > 0 {
					i := rapid.IntRange(0, min(len(in)-1, 8)).Draw(t, "pos")
					in[i] ^= byte(1 << rapid.IntRange(0, 7).Draw(t, "bit"))
				}
			case 1:
				in = in[:rapid.IntRange(0, len(in)).Draw(t, "cut")]
			case 2:
				in = append(in, pbt.DrawBytes(t, "ext", rapid.IntRange(1, 8).Draw(t, "extn"))...)
			case 3:
			}
		case "lenprefix":
			// hostile string length prefixes with bodies around the claimed size
			first := rapid.SampledFrom([]byte{0, 1, 2, 3, 252, 253, 254, 255}).Draw(t, "first")
			claimed := rapid.SampledFrom([]int{0, 1, 3, 4, 253, 254, 255, 256, 1 << 16, 1<<24 - 1}).Draw(t, "claimed")
			in = []byte{first, byte(claimed), byte(claimed >> 8), byte(claimed >> 16)}
			body := rapid.SampledFrom([]int{0, 1, 2, 3, 4, 248, 249, 250, 251, 252, 253, 254, 255, 256, 257, 260}).Draw(t, "body")
			in = append(in, make([]byte, body)...)
			if rapid.Bool().Draw(t, "strkind") {
				kind = "string"
			} else {
				kind = "bytes"
			}
		}
		ok := decodeAny(t, kind, in)
		key := fmt.Sprintf("%s/%s/%x", kind, class, trunc(in))
		st.Case(key, len(in) > 0, fmt.Sprintf("%s %s len=%d ok=%v", kind, class, len(in), ok), class, fmt.Sprintf("ok=%v", ok))
	})
}
