package c_updates

import (
	"fmt"
	"testing"

	"pgregory.net/rapid"

	"verifharness/pbt"
)

// C03: (1) at every instant the persisted positions never cover an update that
// has not been handed to the handler (unless reported too long through the
// callback); (2) crash at a trace index + restart from the persisted state +
// recovery loses nothing.
func TestC03(t *testing.T) {
	st := pbt.NewStats("TestC03")
	defer st.Flush()
	rapid.Check(t, func(t *rapid.T) {
		rapid.SyncTest(t, func(t *rapid.T) {
			opts := scenarioOpts{maxSteps: 30, tooLong: true, unknownChannels: true}
			sc := genWorld(t, opts)
			w := sc.w
			initial := w.store.clone()
			w.store.snapshot = true
			sc.start(t, w.store)
			sc.runSteps(t, opts)
			sc.finish(t)
			sc.stop(t)
			if v := w.checkPersist(); v != "" {
				t.Fatalf("C03 violated (instant): %s\nsteps: %s\ntrace: %s", v, sc.key(), w.traceString(0))
			}
			// crash points: all for short traces, else a drawn subset that always
			// includes the points just after storage writes
			n := len(w.trace)
			var points []int
			if n <= 12 {
				for k := 0; k <= n; k++ {
					points = append(points, k)
				}
			} else {
				var afterStore []int
				for i, ev := range w.trace {
					if ev.kind == "store" {
						afterStore = append(afterStore, i+1)
					}
				}
				for j := 0; j < 6; j++ {
					points = append(points, rapid.IntRange(0, n).Draw(t, "crashAt"))
				}
				for j := 0; j < 6 && len(afterStore) > 0; j++ {
					points = append(points, afterStore[rapid.IntRange(0, len(afterStore)-1).Draw(t, "crashAfterStore")])
				}
			}
			// the quiescent point right after the client first heard of a channel it
			// did not know (its worker may still be waiting for the first difference)
			for _, at := range w.learnedAt {
				points = append(points, at)
			}
			nontrivialPoints := 0
			for _, k := range points {
				// non-trivial: strictly between a handler call and the next storage write, or inside a difference
				if k > 0 && k < n && (w.trace[k-1].kind == "handler" || w.trace[k-1].kind == "diff" || w.trace[k-1].kind == "diff-toolong") {
					nontrivialPoints++
				}
				persisted := w.store.at(k, initial)
				// second run: same (complete) server log, fresh trace
				w2 := &world{logs: w.logs, head: map[string]int{}, pub: map[string]int{}, base: w.base, byTag: w.byTag, date: w.date,
					sliceLimit: w.sliceLimit, tooLongGap: w.tooLongGap, chTooLong: w.chTooLong, complete: true, seq: w.seq, withMin: w.withMin, hasherDown: w.hasherDown}
				for s, es := range w.logs {
					w2.head[s] = w.base[s]
					if len(es) > 0 {
						w2.head[s] = es[len(es)-1].end
					}
					w2.pub[s] = len(es)
				}
				persisted.w = w2
				persisted.snaps = nil
				persisted.snapshot = false
				w2.store = persisted
				sc2 := &scenario{w: w2, classes: map[string]bool{}, channels: sc.channels}
				sc2.start(t, persisted)
				sc2.finish2()
				sc2.stop(t)
				d1, tl1 := w.reportedAt(k)
				d2, tl2 := w2.reportedAt(-1)
				for tag := range d2 {
					d1[tag] = true
				}
				for s, r := range tl2 {
					tl1[s] = append(tl1[s], r...)
				}
				inDiff := w.inDiffAt(k)
				for tag := range w2.inDiffAt(-1) {
					inDiff[tag] = true
				}
				if miss := w.missingFromAt(k, d1, tl1, inDiff); len(miss) > 0 {
					t.Fatalf("C03 violated (crash+restart): crash at trace index %d (persisted pts=%d qts=%d channels=%v), after restart and recovery %v never reached the handler in either run\nsteps: %s\ntrace1: %s\ntrace2: %s",
						k, persisted.state.Pts, persisted.state.Qts, persisted.channels, miss, sc.key(), w.traceString(0), w2.traceString(0))
				}
				st.Class("crash-points")
			}
			sc.postClasses()
			st.ClassN("nontrivial-crash-points", nontrivialPoints)
			st.Case(sc.key()+fmt.Sprint(points), nontrivialPoints > 0, short(sc.key(), 300)+fmt.Sprintf(" crash@%v", points), sc.classList()...)
		})
	})
}
