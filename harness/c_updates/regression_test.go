package c_updates

import (
	"testing"
	"testing/synctest"
	"time"

	"github.com/gotd/td/telegram/updates"
	"github.com/gotd/td/tg"
)

// Plain (non-rapid) replays of shrunk failures found by the generated checks.
// They run first in both tiers and fail if a repaired defect returns.

type fixedCase struct {
	name    string
	logs    map[string][]entry // positions start at 0
	pushed  []int              // tags pushed (each in its own container) before recovery
	lostAll bool
}

func buildFixed(c fixedCase) *scenario {
	w := &world{logs: map[string][]entry{}, head: map[string]int{}, pub: map[string]int{}, base: map[string]int{}, byTag: map[int]entry{}, date: 1000}
	sc := &scenario{w: w, classes: map[string]bool{}}
	for seq, es := range c.logs {
		w.base[seq], w.head[seq] = 0, 0
		for _, e := range es {
			e.seq = seq
			if e.ch != 0 {
				found := false
				for _, id := range sc.channels {
					found = found || id == e.ch
				}
				if !found {
					sc.channels = append(sc.channels, e.ch)
				}
			}
			w.logs[seq] = append(w.logs[seq], e)
			w.byTag[e.tag] = e
		}
	}
	for _, s := range []string{"pts", "qts"} {
		if _, ok := w.base[s]; !ok {
			w.base[s], w.head[s] = 0, 0
		}
	}
	w.store = &memStorage{w: w, has: true, channels: map[int64]int{}}
	w.store.state = updates.State{Date: w.date}
	for _, id := range sc.channels {
		w.store.channels[id] = 0
	}
	return sc
}

func runFixed(t *testing.T, c fixedCase) *scenario {
	sc := buildFixed(c)
	synctest.Test(t, func(t *testing.T) {
		sc.start(t, sc.w.store)
		for _, s := range sc.seqs() {
			for {
				if _, ok := sc.publish(s); !ok {
					break
				}
			}
		}
		for _, tag := range c.pushed {
			sc.push(t, &tg.Updates{Updates: []tg.UpdateClass{sc.w.byTag[tag].update()}, Date: sc.w.date})
			synctest.Wait()
		}
		for i := 0; i < 2; i++ {
			time.Sleep(16 * time.Minute)
			synctest.Wait()
		}
		sc.stop(t)
	})
	return sc
}

func TestC02Regression(t *testing.T) {
	cases := []fixedCase{
		{name: "common other update after a new message in one difference (fixed bdf7554f4)",
			logs: map[string][]entry{"pts": {{start: 0, end: 1, tag: 1, kind: "msg"}, {start: 1, end: 2, tag: 2, kind: "edit"}}}},
		{name: "common delete between two messages",
			logs: map[string][]entry{"pts": {{start: 0, end: 1, tag: 1, kind: "msg"}, {start: 1, end: 2, tag: 2, kind: "del"}, {start: 2, end: 3, tag: 3, kind: "msg"}}}},
		{name: "channel other update in a channel difference (fixed 59bdf24b8)",
			logs: map[string][]entry{"ch:100": {{start: 0, end: 1, tag: 1, kind: "cmsg", ch: 100}, {start: 1, end: 2, tag: 2, kind: "cdel", ch: 100}}}},
		{name: "channel edit only",
			logs: map[string][]entry{"ch:100": {{start: 0, end: 1, tag: 1, kind: "cedit", ch: 100}}}},
	}
	for _, c := range cases {
		sc := runFixed(t, c)
		if miss := sc.w.missing(-1); len(miss) > 0 {
			t.Errorf("%s: never delivered: %v\ntrace: %s", c.name, miss, sc.w.traceString(0))
		}
		if v := sc.w.checkOrder(); v != "" {
			t.Errorf("%s: %s", c.name, v)
		}
	}
}

func TestC01Regression(t *testing.T) {
	// read#1 lost, msg#2 pushed (buffered behind the gap); the recovering difference
	// carries read#1 in other_updates and msg#2 in new_messages: msg#2 was delivered twice.
	c := fixedCase{name: "buffered pushed update flushed by a difference's other update and delivered again (fixed bdf7554f4)",
		logs:   map[string][]entry{"pts": {{start: 0, end: 1, tag: 1, kind: "read"}, {start: 1, end: 2, tag: 2, kind: "msg"}}},
		pushed: []int{2}}
	sc := runFixed(t, c)
	if v := sc.w.checkOrder(); v != "" {
		t.Errorf("%s: %s\ntrace: %s", c.name, v, sc.w.traceString(0))
	}
	if miss := sc.w.missing(-1); len(miss) > 0 {
		t.Errorf("%s: never delivered: %v", c.name, miss)
	}
}

func TestC03Regression(t *testing.T) {
	// too-long difference answers: the callback must precede the persisted pts
	// (fixed: "report a too-long difference before persisting the skipped pts").
	for _, mode := range []string{"common", "channel"} {
		c := fixedCase{name: "too-long " + mode, logs: map[string][]entry{}}
		if mode == "common" {
			for i := 0; i < 6; i++ {
				c.logs["pts"] = append(c.logs["pts"], entry{start: i, end: i + 1, tag: i + 1, kind: "msg"})
			}
		} else {
			for i := 0; i < 6; i++ {
				c.logs["ch:100"] = append(c.logs["ch:100"], entry{start: i, end: i + 1, tag: i + 1, kind: "cmsg", ch: 100})
			}
		}
		sc := buildFixed(c)
		sc.w.tooLongGap, sc.w.chTooLong = 3, 3
		// publish everything before the client starts: its first difference is too long
		for _, s := range sc.seqs() {
			for {
				if _, ok := sc.publish(s); !ok {
					break
				}
			}
		}
		synctest.Test(t, func(t *testing.T) {
			sc.start(t, sc.w.store)
			time.Sleep(time.Second)
			synctest.Wait()
			sc.stop(t)
		})
		sawTooLong := false
		for _, ev := range sc.w.trace {
			sawTooLong = sawTooLong || ev.kind == "diff-toolong"
		}
		if !sawTooLong {
			t.Errorf("%s: scenario did not produce a too-long difference", c.name)
		}
		if v := sc.w.checkPersist(); v != "" {
			t.Errorf("%s: %s\ntrace: %s", c.name, v, sc.w.traceString(0))
		}
	}
}
