package c_updates

import (
	"context"
	"fmt"
	"sort"
	"sync"
	"time"

	"github.com/gotd/td/telegram"
	"github.com/gotd/td/telegram/updates"
	"github.com/gotd/td/tg"
)

// Simulation of an honest Telegram update server plus recording storage and
// handler, used by the manager-level checks of C01, C02 and C03.
//
// The server holds one finite log per sequence ("pts", "qts", "ch:<id>").
// Entries are published one by one (head moves); differences answer from the
// request position to the current head exactly as updates.getDifference /
// updates.getChannelDifference do: new messages in NewMessages /
// NewEncryptedMessages, every other update of the range in OtherUpdates with
// its real pts/qts, State = head; optionally sliced.

const selfID = int64(777)

type entry struct {
	seq   string // "pts", "qts", "ch:<id>"
	start int
	end   int
	tag   int
	kind  string // msg del read edit | enc qother | cmsg cdel cedit
	ch    int64
}

func (e entry) String() string {
	return fmt.Sprintf("%s:%s#%d[%d,%d)", e.seq, e.kind, e.tag, e.start, e.end)
}

type event struct {
	kind  string // handler | store | diff | toolong
	seq   string
	tag   int // handler
	value int // store: saved position; diff: to
	from  int // diff
	final bool
	tags  []int // diff: the log entries the response carried
}

func (e event) String() string {
	switch e.kind {
	case "handler":
		return fmt.Sprintf("H(%s#%d)", e.seq, e.tag)
	case "store":
		return fmt.Sprintf("S(%s=%d)", e.seq, e.value)
	case "diff":
		return fmt.Sprintf("D(%s %d->%d final=%v)", e.seq, e.from, e.value, e.final)
	case "toolong":
		return fmt.Sprintf("TL(%s)", e.seq)
	}
	return e.kind
}

type world struct {
	mu    sync.Mutex
	logs  map[string][]entry
	head  map[string]int // published position per sequence
	pub   map[string]int // number of published entries per sequence
	base  map[string]int
	byTag map[int]entry
	trace []event

	sliceLimit int  // max entries per difference response (0 = unlimited)
	tooLongGap int  // common difference answers TooLong when gap exceeds this (0 = never)
	chTooLong  int  // same for channel differences
	complete   bool // all logs fully published
	date       int
	seq        int // server-side updates sequence (containers with seq > 0)

	// crash support for C03: snapshot of storage at chosen trace indexes
	store *memStorage

	// channels the client does not know at the start (nothing stored): it starts
	// such a channel right before the first update it is pushed
	unknown       map[string]bool
	learnedStart  map[string]int // position before the first pushed update
	learnedAt     map[string]int // trace length at the quiescent point after that push
	chDiffLatency time.Duration

	withMin    bool // containers and differences carry min entities
	hasherDown bool // the access-hash store fails for them
}

func chSeq(id int64) string { return fmt.Sprintf("ch:%d", id) }

func (w *world) record(e event) {
	w.trace = append(w.trace, e)
}

// ---- update construction / identification

var chatPeer = &tg.PeerChat{ChatID: 10}

func (e entry) update() tg.UpdateClass {
	cnt := e.end - e.start
	switch e.kind {
	case "msg":
		return &tg.UpdateNewMessage{Message: &tg.Message{ID: e.tag, PeerID: chatPeer, Out: true}, Pts: e.end, PtsCount: cnt}
	case "del":
		return &tg.UpdateDeleteMessages{Messages: []int{e.tag}, Pts: e.end, PtsCount: cnt}
	case "read":
		return &tg.UpdateReadHistoryInbox{Peer: chatPeer, MaxID: e.tag, Pts: e.end, PtsCount: cnt}
	case "edit":
		return &tg.UpdateEditMessage{Message: &tg.Message{ID: e.tag, PeerID: chatPeer, Out: true}, Pts: e.end, PtsCount: cnt}
	case "enc":
		return &tg.UpdateNewEncryptedMessage{Message: &tg.EncryptedMessage{RandomID: int64(e.tag), ChatID: 5}, Qts: e.end}
	case "qother":
		return &tg.UpdateBotStopped{UserID: int64(e.tag), Qts: e.end}
	case "cmsg":
		return &tg.UpdateNewChannelMessage{Message: &tg.Message{ID: e.tag, PeerID: &tg.PeerChannel{ChannelID: e.ch}}, Pts: e.end, PtsCount: cnt}
	case "cdel":
		return &tg.UpdateDeleteChannelMessages{ChannelID: e.ch, Messages: []int{e.tag}, Pts: e.end, PtsCount: cnt}
	case "cedit":
		return &tg.UpdateEditChannelMessage{Message: &tg.Message{ID: e.tag, PeerID: &tg.PeerChannel{ChannelID: e.ch}}, Pts: e.end, PtsCount: cnt}
	case "cread":
		// occupies no position (pts_count is always 0): carries the channel pts at the time
		return &tg.UpdateReadChannelInbox{ChannelID: e.ch, MaxID: e.tag, Pts: e.end}
	case "web":
		return &tg.UpdateWebPage{Webpage: &tg.WebPageEmpty{ID: int64(e.tag)}, Pts: e.end, PtsCount: 0}
	}
	panic("kind " + e.kind)
}

func (e entry) isMessage() bool { return e.kind == "msg" || e.kind == "enc" || e.kind == "cmsg" }

// tagOf identifies a delivered update by the tag the harness put into it.
func tagOf(u tg.UpdateClass) (int, bool) {
	msgID := func(m tg.MessageClass) (int, bool) {
		if mm, ok := m.(*tg.Message); ok {
			return mm.ID, true
		}
		return 0, false
	}
	switch u := u.(type) {
	case *tg.UpdateNewMessage:
		return msgID(u.Message)
	case *tg.UpdateDeleteMessages:
		return u.Messages[0], true
	case *tg.UpdateReadHistoryInbox:
		return u.MaxID, true
	case *tg.UpdateEditMessage:
		return msgID(u.Message)
	case *tg.UpdateNewEncryptedMessage:
		return int(u.Message.(*tg.EncryptedMessage).RandomID), true
	case *tg.UpdateBotStopped:
		return int(u.UserID), true
	case *tg.UpdateNewChannelMessage:
		return msgID(u.Message)
	case *tg.UpdateDeleteChannelMessages:
		return u.Messages[0], true
	case *tg.UpdateEditChannelMessage:
		return msgID(u.Message)
	case *tg.UpdateReadChannelInbox:
		return u.MaxID, true
	case *tg.UpdateWebPage:
		if w, ok := u.Webpage.(*tg.WebPageEmpty); ok {
			return int(w.ID), true
		}
	}
	return 0, false
}

// ---- handler

func (w *world) handler() telegram.UpdateHandler {
	return telegram.UpdateHandlerFunc(func(ctx context.Context, u tg.UpdatesClass) error {
		w.mu.Lock()
		defer w.mu.Unlock()
		var list []tg.UpdateClass
		switch u := u.(type) {
		case *tg.Updates:
			list = u.Updates
		case *tg.UpdatesCombined:
			list = u.Updates
		case *tg.UpdateShort:
			list = []tg.UpdateClass{u.Update}
		default:
			panic(fmt.Sprintf("handler got %T", u))
		}
		for _, x := range list {
			tag, ok := tagOf(x)
			if !ok {
				continue
			}
			e, known := w.byTag[tag]
			if !known {
				// unsequenced harness update (qts=0 class)
				w.record(event{kind: "handler", seq: "none", tag: tag})
				continue
			}
			w.record(event{kind: "handler", seq: e.seq, tag: tag})
		}
		return nil
	})
}

// ---- API

type api struct{ w *world }

func (a api) UpdatesGetState(ctx context.Context) (*tg.UpdatesState, error) {
	w := a.w
	w.mu.Lock()
	defer w.mu.Unlock()
	return &tg.UpdatesState{Pts: w.head["pts"], Qts: w.head["qts"], Date: w.date, Seq: w.seq}, nil
}

func (w *world) rangeOf(seq string, from, to int) []entry {
	var out []entry
	for i, e := range w.logs[seq] {
		if w.pub != nil && i >= w.pub[seq] {
			break
		}
		if e.end > from && e.end <= to {
			out = append(out, e)
		}
	}
	return out
}

func tagsOf(ents []entry, seq string) []int {
	var out []int
	for _, e := range ents {
		if e.seq == seq {
			out = append(out, e.tag)
		}
	}
	return out
}

func (a api) UpdatesGetDifference(ctx context.Context, req *tg.UpdatesGetDifferenceRequest) (tg.UpdatesDifferenceClass, error) {
	w := a.w
	w.mu.Lock()
	defer w.mu.Unlock()
	hp, hq := w.head["pts"], w.head["qts"]
	if w.tooLongGap > 0 && hp-req.Pts > w.tooLongGap {
		// updates.differenceTooLong: the client must restart from Pts
		w.record(event{kind: "diff-toolong", seq: "pts", from: req.Pts, value: hp})
		return &tg.UpdatesDifferenceTooLong{Pts: hp}, nil
	}
	ents := append(w.rangeOf("pts", req.Pts, hp), w.rangeOf("qts", req.Qts, hq)...)
	if len(ents) == 0 {
		w.record(event{kind: "diff", seq: "pts", from: req.Pts, value: max(req.Pts, hp), final: true})
		w.record(event{kind: "diff", seq: "qts", from: req.Qts, value: max(req.Qts, hq), final: true})
		return &tg.UpdatesDifferenceEmpty{Date: w.date, Seq: w.seq}, nil
	}
	toP, toQ := hp, hq
	final := true
	if w.sliceLimit > 0 && len(ents) > w.sliceLimit {
		ents = ents[:w.sliceLimit]
		final = false
		toP, toQ = req.Pts, req.Qts
		for _, e := range ents {
			if e.seq == "pts" {
				toP = e.end
			} else {
				toQ = e.end
			}
		}
	}
	if toP < req.Pts {
		toP = req.Pts
	}
	if toQ < req.Qts {
		toQ = req.Qts
	}
	var msgs []tg.MessageClass
	var enc []tg.EncryptedMessageClass
	var other []tg.UpdateClass
	for _, e := range ents {
		switch e.kind {
		case "msg":
			msgs = append(msgs, e.update().(*tg.UpdateNewMessage).Message)
		case "enc":
			enc = append(enc, e.update().(*tg.UpdateNewEncryptedMessage).Message)
		default:
			other = append(other, e.update())
		}
	}
	state := tg.UpdatesState{Pts: toP, Qts: toQ, Date: w.date, Seq: w.seq}
	w.record(event{kind: "diff", seq: "pts", from: req.Pts, value: toP, final: final, tags: tagsOf(ents, "pts")})
	w.record(event{kind: "diff", seq: "qts", from: req.Qts, value: toQ, final: final, tags: tagsOf(ents, "qts")})
	var chats []tg.ChatClass
	var users []tg.UserClass
	if w.withMin {
		chats, users = minEntities()
	}
	if final {
		return &tg.UpdatesDifference{NewMessages: msgs, NewEncryptedMessages: enc, OtherUpdates: other, State: state, Chats: chats, Users: users}, nil
	}
	return &tg.UpdatesDifferenceSlice{NewMessages: msgs, NewEncryptedMessages: enc, OtherUpdates: other, IntermediateState: state, Chats: chats, Users: users}, nil
}

func (a api) UpdatesGetChannelDifference(ctx context.Context, req *tg.UpdatesGetChannelDifferenceRequest) (tg.UpdatesChannelDifferenceClass, error) {
	w := a.w
	if w.chDiffLatency > 0 {
		select {
		case <-time.After(w.chDiffLatency):
		case <-ctx.Done():
			return nil, ctx.Err()
		}
	}
	w.mu.Lock()
	defer w.mu.Unlock()
	id := req.Channel.(*tg.InputChannel).ChannelID
	seq := chSeq(id)
	head := w.head[seq]
	if w.chTooLong > 0 && head-req.Pts > w.chTooLong {
		d := &tg.Dialog{Peer: &tg.PeerChannel{ChannelID: id}}
		d.SetPts(head)
		w.record(event{kind: "diff-toolong", seq: seq, from: req.Pts, value: head})
		return &tg.UpdatesChannelDifferenceTooLong{Final: true, Dialog: d}, nil
	}
	ents := w.rangeOf(seq, req.Pts, head)
	if len(ents) == 0 {
		w.record(event{kind: "diff", seq: seq, from: req.Pts, value: max(req.Pts, head), final: true})
		return &tg.UpdatesChannelDifferenceEmpty{Pts: max(req.Pts, head), Final: true}, nil
	}
	final := true
	to := head
	if w.sliceLimit > 0 && len(ents) > w.sliceLimit {
		ents = ents[:w.sliceLimit]
		final = false
		to = ents[len(ents)-1].end
	}
	var msgs []tg.MessageClass
	var other []tg.UpdateClass
	for _, e := range ents {
		if e.kind == "cmsg" {
			msgs = append(msgs, e.update().(*tg.UpdateNewChannelMessage).Message)
		} else {
			other = append(other, e.update())
		}
	}
	w.record(event{kind: "diff", seq: seq, from: req.Pts, value: to, final: final, tags: tagsOf(ents, seq)})
	var chats []tg.ChatClass
	var users []tg.UserClass
	if w.withMin {
		chats, users = minEntities()
	}
	return &tg.UpdatesChannelDifference{Final: final, Pts: to, NewMessages: msgs, OtherUpdates: other, Chats: chats, Users: users}, nil
}

// ---- storage (records every write in the world trace)

type memStorage struct {
	w        *world
	state    updates.State
	has      bool
	channels map[int64]int
	// snaps[i] = (trace length after the write, copy of the storage): lets C03
	// reconstruct the persisted state at any crash point.
	snaps    []snapshot
	snapshot bool
}

type snapshot struct {
	traceLen int
	st       *memStorage
}

// snap must be called with w.mu held, after recording the store event.
func (s *memStorage) snap() {
	if s.snapshot {
		s.snaps = append(s.snaps, snapshot{traceLen: len(s.w.trace), st: s.clone()})
	}
}

// at returns the persisted state as of trace index k (events [0,k) happened).
func (s *memStorage) at(k int, initial *memStorage) *memStorage {
	cur := initial
	for _, sn := range s.snaps {
		if sn.traceLen <= k {
			cur = sn.st
		}
	}
	return cur.clone()
}

func (s *memStorage) clone() *memStorage {
	c := &memStorage{w: s.w, state: s.state, has: s.has, channels: map[int64]int{}}
	for k, v := range s.channels {
		c.channels[k] = v
	}
	return c
}

func (s *memStorage) GetState(ctx context.Context, userID int64) (updates.State, bool, error) {
	s.w.mu.Lock()
	defer s.w.mu.Unlock()
	return s.state, s.has, nil
}

func (s *memStorage) SetState(ctx context.Context, userID int64, st updates.State) error {
	s.w.mu.Lock()
	defer s.w.mu.Unlock()
	s.state, s.has = st, true
	s.w.record(event{kind: "store", seq: "pts", value: st.Pts})
	s.w.record(event{kind: "store", seq: "qts", value: st.Qts})
	s.snap()
	return nil
}

func (s *memStorage) SetPts(ctx context.Context, userID int64, pts int) error {
	s.w.mu.Lock()
	defer s.w.mu.Unlock()
	s.state.Pts = pts
	s.w.record(event{kind: "store", seq: "pts", value: pts})
	s.snap()
	return nil
}

func (s *memStorage) SetQts(ctx context.Context, userID int64, qts int) error {
	s.w.mu.Lock()
	defer s.w.mu.Unlock()
	s.state.Qts = qts
	s.w.record(event{kind: "store", seq: "qts", value: qts})
	s.snap()
	return nil
}

func (s *memStorage) SetDate(ctx context.Context, userID int64, date int) error {
	s.w.mu.Lock()
	defer s.w.mu.Unlock()
	s.state.Date = date
	return nil
}

func (s *memStorage) SetSeq(ctx context.Context, userID int64, seq int) error {
	s.w.mu.Lock()
	defer s.w.mu.Unlock()
	s.state.Seq = seq
	return nil
}

func (s *memStorage) SetDateSeq(ctx context.Context, userID int64, date, seq int) error {
	s.w.mu.Lock()
	defer s.w.mu.Unlock()
	s.state.Date, s.state.Seq = date, seq
	return nil
}

func (s *memStorage) GetChannelPts(ctx context.Context, userID, channelID int64) (int, bool, error) {
	s.w.mu.Lock()
	defer s.w.mu.Unlock()
	v, ok := s.channels[channelID]
	return v, ok, nil
}

func (s *memStorage) SetChannelPts(ctx context.Context, userID, channelID int64, pts int) error {
	s.w.mu.Lock()
	defer s.w.mu.Unlock()
	s.channels[channelID] = pts
	s.w.record(event{kind: "store", seq: chSeq(channelID), value: pts})
	s.snap()
	return nil
}

func (s *memStorage) ForEachChannels(ctx context.Context, userID int64, f func(ctx context.Context, channelID int64, pts int) error) error {
	s.w.mu.Lock()
	ids := make([]int64, 0, len(s.channels))
	for id := range s.channels {
		ids = append(ids, id)
	}
	sort.Slice(ids, func(i, j int) bool { return ids[i] < ids[j] })
	pts := make([]int, len(ids))
	for i, id := range ids {
		pts[i] = s.channels[id]
	}
	s.w.mu.Unlock()
	for i, id := range ids {
		if err := f(ctx, id, pts[i]); err != nil {
			return err
		}
	}
	return nil
}

// hasher is the access-hash store (Config.AccessHasher and UserAccessHasher).
// With fail set, lookups of the two "min" entities that the simulation attaches
// to containers and differences fail, as a database-backed store does during an
// outage; lookups the client needs to talk to the server (tracked channels)
// always succeed, so recovery itself stays possible.
type hasher struct{ fail bool }

const (
	minChannelID = int64(9001)
	minUserID    = int64(9002)
)

var errHasherDown = fmt.Errorf("harness: access-hash store is down")

func (hasher) SetChannelAccessHash(ctx context.Context, userID, channelID, accessHash int64) error {
	return nil
}

func (h hasher) GetChannelAccessHash(ctx context.Context, userID, channelID int64) (int64, bool, error) {
	if h.fail && channelID == minChannelID {
		return 0, false, errHasherDown
	}
	return channelID * 31, true, nil
}

func (hasher) SetUserAccessHash(ctx context.Context, userID, id, accessHash int64) error { return nil }

func (h hasher) GetUserAccessHash(ctx context.Context, userID, id int64) (int64, bool, error) {
	if h.fail && id == minUserID {
		return 0, false, errHasherDown
	}
	return id * 37, true, nil
}

// minEntities are what a server attaches to updates from groups: a channel and a
// user in their "min" form (the client completes them from the access-hash store).
func minEntities() ([]tg.ChatClass, []tg.UserClass) {
	return []tg.ChatClass{&tg.Channel{ID: minChannelID, Min: true, AccessHash: 5, Title: "min"}},
		[]tg.UserClass{&tg.User{ID: minUserID, Min: true, AccessHash: 6}}
}

// ---- oracles over the trace

// checkOrder is the C01 oracle over the trace: each position-bearing log entry
// reaches the handler at most once, and only when every earlier entry of its
// sequence was delivered before or lies in a range a returned difference covered.
func (w *world) checkOrder() string {
	delivered := map[int]bool{}
	covered := map[string]int{}
	for s, b := range w.base {
		covered[s] = b
	}
	for i, ev := range w.trace {
		switch ev.kind {
		case "diff", "diff-toolong":
			if ev.value > covered[ev.seq] {
				covered[ev.seq] = ev.value
			}
		case "handler":
			if ev.seq == "none" {
				continue
			}
			e := w.byTag[ev.tag]
			if e.end-e.start > 0 {
				if delivered[ev.tag] {
					return fmt.Sprintf("trace[%d]: %v delivered to the handler twice", i, e)
				}
			}
			for _, p := range w.logs[e.seq] {
				if p.tag == e.tag || p.end == p.start {
					continue // itself, or an entry that occupies no position
				}
				if p.end <= e.start && !delivered[p.tag] && p.end > covered[e.seq] {
					return fmt.Sprintf("trace[%d]: %v delivered while earlier %v was neither delivered nor covered by a difference (covered=%d)", i, e, p, covered[e.seq])
				}
			}
			delivered[ev.tag] = true
		}
	}
	return ""
}

// reportedAt replays the trace up to index upTo (-1 = all) and returns the set
// of delivered tags and, per sequence, the ranges reported through the too-long
// callback (a too-long difference answer followed by the callback).
// inDiffAt returns the tags carried by difference responses among trace[0:upTo).
func (w *world) inDiffAt(upTo int) map[int]bool {
	out := map[int]bool{}
	for i, ev := range w.trace {
		if upTo >= 0 && i >= upTo {
			break
		}
		if ev.kind == "diff" {
			for _, t := range ev.tags {
				out[t] = true
			}
		}
	}
	return out
}

func (w *world) reportedAt(upTo int) (map[int]bool, map[string][][2]int) {
	delivered := map[int]bool{}
	tooLong := map[string][][2]int{}
	pending := map[string][2]int{}
	for i, ev := range w.trace {
		if upTo >= 0 && i >= upTo {
			break
		}
		switch ev.kind {
		case "handler":
			delivered[ev.tag] = true
		case "diff-toolong":
			pending[ev.seq] = [2]int{ev.from, ev.value}
		case "toolong":
			if r, ok := pending[ev.seq]; ok {
				tooLong[ev.seq] = append(tooLong[ev.seq], r)
				delete(pending, ev.seq)
			}
		}
	}
	return delivered, tooLong
}

// missing returns the log entries that never reached the handler, excluding
// ranges reported through the too-long callbacks.
func (w *world) missing(upTo int) []entry {
	delivered, tooLong := w.reportedAt(upTo)
	return w.missingFrom(delivered, tooLong, w.inDiffAt(upTo))
}

// missingFrom: entries that occupy no position (pts_count 0) can only be
// recovered when a difference response carries them (the server does not
// return them to a client that is already at their pts), so they are required
// only if some difference carried them.
func (w *world) missingFrom(delivered map[int]bool, tooLong map[string][][2]int, inDiff map[int]bool) []entry {
	return w.missingFromAt(-1, delivered, tooLong, inDiff)
}

// missingFromAt: crashAt is the trace index of the crash (-1: none). Of a
// channel the client did not know at the start, only what follows the first
// pushed update is owed, and only if the client had consumed that update (the
// quiescent point after the push) before the crash.
func (w *world) missingFromAt(crashAt int, delivered map[int]bool, tooLong map[string][][2]int, inDiff map[int]bool) []entry {
	var out []entry
	seqs := make([]string, 0, len(w.logs))
	for s := range w.logs {
		seqs = append(seqs, s)
	}
	sort.Strings(seqs)
	for _, s := range seqs {
	next:
		for _, e := range w.logs[s] {
			if delivered[e.tag] {
				continue
			}
			if e.end == e.start && !inDiff[e.tag] {
				continue
			}
			if w.unknown[s] {
				ls, learned := w.learnedStart[s]
				at, done := w.learnedAt[s]
				if !learned || !done || e.end <= ls || (crashAt >= 0 && crashAt < at) {
					continue
				}
			}
			for _, r := range tooLong[s] {
				if e.end > r[0] && e.end <= r[1] {
					continue next
				}
			}
			out = append(out, e)
		}
	}
	return out
}

// checkPersist is C03 oracle 1: after every storage write the saved position
// covers only entries already handed to the handler (or reported too long
// through the callback before the write).
func (w *world) checkPersist() string {
	delivered := map[int]bool{}
	reported := map[string]int{} // positions <= this were reported too long by callback
	pendingTL := map[string]int{}
	inDiff := map[int]bool{}
	for i, ev := range w.trace {
		switch ev.kind {
		case "diff":
			for _, t := range ev.tags {
				inDiff[t] = true
			}
		case "handler":
			delivered[ev.tag] = true
		case "diff-toolong":
			pendingTL[ev.seq] = ev.value
		case "toolong":
			if v, ok := pendingTL[ev.seq]; ok && v > reported[ev.seq] {
				reported[ev.seq] = v
			}
		case "store":
			for _, e := range w.logs[ev.seq] {
				if e.end == e.start && !inDiff[e.tag] {
					continue // occupies no position and no difference carried it: not recoverable by design
				}
				if ls, learned := w.learnedStart[ev.seq]; w.unknown[ev.seq] && (!learned || e.end <= ls) {
					continue // before the point where the client first heard of this channel
				}
				if e.end <= ev.value && !delivered[e.tag] && e.end > reported[ev.seq] {
					return fmt.Sprintf("trace[%d]: saved %s=%d covers %v which has not been handed to the handler (nor reported too long)", i, ev.seq, ev.value, e)
				}
			}
		}
	}
	return ""
}

func (w *world) traceString(limit int) string {
	w.mu.Lock()
	defer w.mu.Unlock()
	s := ""
	for i, e := range w.trace {
		if limit > 0 && i >= limit {
			s += " …"
			break
		}
		s += e.String() + " "
	}
	return s
}
