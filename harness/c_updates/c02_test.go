package c_updates

import (
	"testing"

	"pgregory.net/rapid"

	"verifharness/pbt"
)

// C02: after recovery every entry of the finite server log has reached the
// handler (and, with C01's at-most-once, exactly once).
func TestC02(t *testing.T) {
	st := pbt.NewStats("TestC02")
	defer st.Flush()
	rapid.Check(t, func(t *rapid.T) {
		rapid.SyncTest(t, func(t *rapid.T) {
			opts := scenarioOpts{maxSteps: 30}
			sc := genWorld(t, opts)
			sc.start(t, sc.w.store)
			sc.runSteps(t, opts)
			sc.finish(t)
			miss := sc.w.missing(-1)
			sc.stop(t)
			if len(miss) > 0 {
				t.Fatalf("C02 violated: after recovery %d log entries never reached the handler: %v\nsteps: %s\ntrace: %s", len(miss), miss, sc.key(), sc.w.traceString(0))
			}
			if v := sc.w.checkOrder(); v != "" {
				t.Fatalf("C01 violated (checked in C02 run): %s\nsteps: %s\ntrace: %s", v, sc.key(), sc.w.traceString(0))
			}
			sc.postClasses()
			nontrivial := sc.classes["other-in-diff"] || sc.classes["sliced"]
			st.Case(sc.key(), nontrivial, short(sc.key(), 500), sc.classList()...)
		})
	})
}
