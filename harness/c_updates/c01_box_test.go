package c_updates

import (
	"fmt"
	"strings"
	"testing"

	"github.com/gotd/td/telegram/updates"
	"pgregory.net/rapid"

	"verifharness/pbt"
)

// C01 (driver a): the real sequenceBox against a position model.
//
// Domain: a server log over positions base+1..base+N partitioned into updates
// of count 1..4; delivery histories with loss (never sent), duplication,
// reordering, overlapping multi-count updates (the property's quantifier names
// them), count-0 updates, and fetched differences (ClearGaps+SetState(p), p >=
// current state, exactly what getDifference does). State==0 updates are not
// generated here: every caller that can see position 0 (handleQts,
// handleAffected) filters it before the box.

type logUpd struct {
	start, end int
	tag        int
}

type boxModel struct {
	state     int // covered frontier
	delivered map[int]int
	overlap   bool // history contains a synthetic (non-log) update
}

func TestC01Box(t *testing.T) {
	st := pbt.NewStats("TestC01Box")
	defer st.Flush()
	rapid.Check(t, func(t *rapid.T) {
		base := rapid.SampledFrom([]int{0, 0, 7, 1000}).Draw(t, "base")
		n := rapid.IntRange(1, 40).Draw(t, "n")
		var log []logUpd
		for p := base; p < base+n; {
			c := rapid.IntRange(1, 4).Draw(t, "count")
			if p+c > base+n {
				c = base + n - p
			}
			log = append(log, logUpd{start: p, end: p + c, tag: len(log) + 1})
			p += c
		}
		m := &boxModel{state: base, delivered: map[int]int{}}
		var history []string
		classes := map[string]bool{}
		var violation string
		box := updates.NewVerifSeqBox(base, func(state int, ups []updates.VerifUpdate) error {
			for _, u := range ups {
				start := u.State - u.Count
				if start > m.state {
					violation = fmt.Sprintf("update tag=%d [%d,%d) delivered while positions (%d,%d] are neither delivered nor covered", u.Tag, start, u.State, m.state, start)
				}
				// "The locally tracked position moves only to the end of an update
				// delivered in order": whatever overlaps were offered, an update that
				// is handed over starts exactly at the tracked position, otherwise
				// positions below the frontier reach the handler a second time inside
				// another update
				if start != m.state {
					violation = fmt.Sprintf("update tag=%d [%d,%d) delivered out of order: frontier is %d", u.Tag, start, u.State, m.state)
				}
				if u.State < m.state {
					violation = fmt.Sprintf("update tag=%d ends at %d before frontier %d (state would move backwards)", u.Tag, u.State, m.state)
				}
				if u.Count > 0 && u.Tag < 1000 {
					m.delivered[u.Tag]++
					if m.delivered[u.Tag] > 1 {
						violation = fmt.Sprintf("log update tag=%d delivered twice", u.Tag)
					}
				}
				if u.State > m.state {
					m.state = u.State
				}
			}
			if state != m.state {
				violation = fmt.Sprintf("apply callback state=%d but last delivered update ends at %d", state, m.state)
			}
			return nil
		})
		defer box.StopTimer()
		sent := map[int]bool{}
		synth := 1000
		check := func(what string) {
			if violation != "" {
				t.Fatalf("after %s: %s\nhistory: %s", what, violation, strings.Join(history, " "))
			}
			if box.State() != m.state {
				t.Fatalf("after %s: box state %d, model frontier %d (state moved to a position that is neither an in-order delivery end nor a difference position)\nhistory: %s",
					what, box.State(), m.state, strings.Join(history, " "))
			}
		}
		deliver := func(u logUpd, what string) {
			hadGap := box.HasGaps()
			pendingBefore := box.Pending()
			history = append(history, fmt.Sprintf("%s[%d,%d)#%d", what, u.start, u.end, u.tag))
			if err := box.Handle(updates.VerifUpdate{Tag: u.tag, State: u.end, Count: u.end - u.start}); err != nil {
				t.Fatalf("Handle: %v", err)
			}
			if !hadGap && box.HasGaps() {
				classes["gap-opened"] = true
			}
			if hadGap && !box.HasGaps() && pendingBefore > 0 {
				classes["gap-filled"] = true
			}
			check(what)
		}
		t.Repeat(map[string]func(*rapid.T){
			"next": func(t *rapid.T) {
				for _, u := range log {
					if !sent[u.tag] {
						sent[u.tag] = true
						deliver(u, "next")
						return
					}
				}
				t.Skip("all sent")
			},
			"later": func(t *rapid.T) {
				var cand []logUpd
				for _, u := range log {
					if !sent[u.tag] {
						cand = append(cand, u)
					}
				}
				if len(cand) < 2 {
					t.Skip("nothing to reorder")
				}
				u := cand[rapid.IntRange(1, len(cand)-1).Draw(t, "which")]
				sent[u.tag] = true
				classes["reorder"] = true
				deliver(u, "later")
			},
			"lose": func(t *rapid.T) {
				for _, u := range log {
					if !sent[u.tag] {
						sent[u.tag] = true
						history = append(history, fmt.Sprintf("lose#%d", u.tag))
						classes["loss"] = true
						return
					}
				}
				t.Skip("all sent")
			},
			"dup": func(t *rapid.T) {
				var cand []logUpd
				for _, u := range log {
					if sent[u.tag] {
						cand = append(cand, u)
					}
				}
				if len(cand) == 0 {
					t.Skip("nothing sent")
				}
				u := cand[rapid.IntRange(0, len(cand)-1).Draw(t, "which")]
				classes["dup"] = true
				deliver(u, "dup")
			},
			"overlap": func(t *rapid.T) {
				s := rapid.IntRange(base, base+n).Draw(t, "start")
				c := rapid.IntRange(1, 4).Draw(t, "count")
				synth++
				m.overlap = true
				classes["overlap"] = true
				deliver(logUpd{start: s, end: s + c, tag: synth}, "overlap")
			},
			"count0": func(t *rapid.T) {
				// a count-0 update carries the server's current position; an honest
				// one equals a log boundary
				p := rapid.IntRange(base, base+n).Draw(t, "pos")
				if p == 0 {
					t.Skip("position 0 is filtered by callers")
				}
				onBoundary := p == base
				for _, u := range log {
					if u.end == p {
						onBoundary = true
					}
				}
				if !onBoundary {
					m.overlap = true
				}
				synth++
				classes["count0"] = true
				deliver(logUpd{start: p, end: p, tag: synth}, "count0")
			},
			"difference": func(t *rapid.T) {
				// getDifference: gaps.Clear(); ...; SetState(remote) with remote >= local
				var cand []int
				for _, u := range log {
					if u.end >= box.State() {
						cand = append(cand, u.end)
					}
				}
				if len(cand) == 0 {
					cand = []int{box.State()}
				}
				p := cand[rapid.IntRange(0, len(cand)-1).Draw(t, "to")]
				hadGap := box.HasGaps()
				box.ClearGaps()
				box.SetState(p)
				if p > m.state {
					m.state = p
				}
				// everything up to p now counts as sent (the difference carried it)
				for _, u := range log {
					if u.end <= p {
						sent[u.tag] = true
					}
				}
				history = append(history, fmt.Sprintf("diff->%d", p))
				if hadGap {
					classes["gap-closed-by-diff"] = true
				}
				classes["difference"] = true
				check("difference")
			},
			"": func(t *rapid.T) { check("invariant") },
		})
		var cl []string
		for _, c := range []string{"dup", "reorder", "overlap", "gap-opened", "gap-filled", "gap-closed-by-diff", "loss", "count0", "difference"} {
			if classes[c] {
				cl = append(cl, c)
			}
		}
		nontrivial := classes["dup"] || classes["gap-opened"] || classes["overlap"] || classes["gap-filled"] || classes["gap-closed-by-diff"]
		key := strings.Join(history, " ")
		sample := key
		if len(sample) > 400 {
			sample = sample[:400] + "…"
		}
		st.Case(key, nontrivial, sample, cl...)
	})
}
