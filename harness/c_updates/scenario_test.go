package c_updates

import (
	"context"
	"fmt"
	"strings"
	"testing/synctest"
	"time"

	"github.com/gotd/td/telegram/updates"
	"github.com/gotd/td/tg"
	"pgregory.net/rapid"
)

type scenarioOpts struct {
	tooLong   bool // allow too-long difference answers (C03)
	maxSteps  int
	crashable bool
	// unknownChannels: some channels are not in the initial storage; the client
	// learns them from the first pushed update (C03's crash points)
	unknownChannels bool
}

type fataler interface{ Fatalf(string, ...any) }

type scenario struct {
	w        *world
	steps    []string
	classes  map[string]bool
	mgr      *updates.Manager
	cancel   context.CancelFunc
	done     chan error
	outbox   []entry
	pushed   []entry
	channels []int64
	script   []string // directly constructed prefix of steps (before the drawn ones)
}

func (sc *scenario) class(c string) { sc.classes[c] = true }

func genWorld(t *rapid.T, opts scenarioOpts) *scenario {
	w := &world{
		logs:  map[string][]entry{},
		head:  map[string]int{},
		pub:   map[string]int{},
		base:  map[string]int{},
		byTag: map[int]entry{},
		date:  1000,
	}
	sc := &scenario{w: w, classes: map[string]bool{}}
	nch := rapid.IntRange(0, 2).Draw(t, "channels")
	for i := 0; i < nch; i++ {
		sc.channels = append(sc.channels, int64(100*(i+1)))
	}
	tag := 0
	mk := func(seq string, base, n int, kinds []string, ch int64) {
		w.base[seq] = base
		w.head[seq] = base
		p := base
		for i := 0; i < n; i++ {
			kind := rapid.SampledFrom(kinds).Draw(t, "kind")
			c := 1
			if kind == "del" || kind == "cdel" {
				c = rapid.IntRange(1, 3).Draw(t, "cnt")
			}
			if kind == "cread" || kind == "web" {
				c = 0
				if p == 0 {
					// an update that occupies no position carries the current pts; before the
					// first event that would be pts 0, which an honest server never sends
					// (0 is the "unset" value and is filtered only on the qts path)
					kind, c = kinds[0], 1
				}
			}
			tag++
			e := entry{seq: seq, start: p, end: p + c, tag: tag, kind: kind, ch: ch}
			p += c
			w.logs[seq] = append(w.logs[seq], e)
			w.byTag[tag] = e
		}
	}
	mk("pts", rapid.SampledFrom([]int{0, 50}).Draw(t, "ptsBase"), rapid.IntRange(0, 10).Draw(t, "nPts"),
		[]string{"msg", "msg", "msg", "del", "read", "edit", "web"}, 0)
	mk("qts", rapid.SampledFrom([]int{0, 7}).Draw(t, "qtsBase"), rapid.IntRange(0, 4).Draw(t, "nQts"),
		[]string{"enc", "enc", "qother"}, 0)
	for _, id := range sc.channels {
		mk(chSeq(id), rapid.SampledFrom([]int{0, 20}).Draw(t, "chBase"), rapid.IntRange(0, 7).Draw(t, "nCh"),
			[]string{"cmsg", "cmsg", "cmsg", "cdel", "cedit", "cread"}, id)
	}
	w.sliceLimit = rapid.SampledFrom([]int{0, 0, 0, 1, 2, 3}).Draw(t, "sliceLimit")
	if rapid.IntRange(0, 2).Draw(t, "minEntities") == 0 {
		// containers and differences carry min entities; the store the client
		// completes them from may be down (then it hands them over as they are)
		w.withMin = true
		sc.class("min-entities")
		if rapid.Bool().Draw(t, "hasherDown") {
			w.hasherDown = true
			sc.class("access-hash-store-down")
		}
	}
	if opts.tooLong {
		w.tooLongGap = rapid.SampledFrom([]int{0, 0, 3, 5}).Draw(t, "tooLongGap")
		w.chTooLong = rapid.SampledFrom([]int{0, 0, 3}).Draw(t, "chTooLong")
	}
	scripted := false
	if opts.tooLong && rapid.IntRange(0, 9).Draw(t, "scriptedTooLongTwice") == 0 {
		// A history that needs about seven specific steps, built directly: a channel
		// whose log moves in steps of 120 positions (mass deletions); the server
		// announces a gap too long to fetch (pushed updateChannelTooLong, 120 > the
		// client's limit of 100), an idle difference then recovers it normally (the
		// server's own limit is 150), and later the channel falls 360 behind so that
		// the difference answers channelDifferenceTooLong. Drawn steps follow.
		scripted = true
		sc.class("scripted:channel-too-long-twice")
		const id = int64(100)
		sc.channels = []int64{id}
		for s := range w.logs {
			if strings.HasPrefix(s, "ch:") {
				for _, e := range w.logs[s] {
					delete(w.byTag, e.tag)
				}
				delete(w.logs, s)
				delete(w.base, s)
				delete(w.head, s)
			}
		}
		seq := chSeq(id)
		w.base[seq], w.head[seq] = 20, 20
		p := 20
		for _, c := range []int{120, 1, 120, 120, 120, 1} {
			tag++
			kind := "cdel"
			if c == 1 {
				kind = "cmsg"
			}
			e := entry{seq: seq, start: p, end: p + c, tag: tag, kind: kind, ch: id}
			p += c
			w.logs[seq] = append(w.logs[seq], e)
			w.byTag[tag] = e
		}
		w.chTooLong = 150
		sc.script = []string{"pub:" + seq, "chTooLongPts:100", "sleep16m", "pub:" + seq, "pub:" + seq, "pub:" + seq, "pub:" + seq, "sleep16m"}
	}
	w.store = &memStorage{w: w, has: true, channels: map[int64]int{}}
	w.store.state = updates.State{Pts: w.base["pts"], Qts: w.base["qts"], Date: w.date, Seq: 0}
	w.unknown, w.learnedStart, w.learnedAt = map[string]bool{}, map[string]int{}, map[string]int{}
	for _, id := range sc.channels {
		if opts.unknownChannels && !scripted && rapid.Bool().Draw(t, "unknownChannel") {
			// a channel the client has never seen: nothing stored; it learns the channel
			// from the first update it is pushed and starts right before that update
			w.unknown[chSeq(id)] = true
			sc.class("unknown-channel")
			continue
		}
		w.store.channels[id] = w.base[chSeq(id)]
	}
	if opts.unknownChannels {
		// getChannelDifference takes time: the client can be interrupted while a
		// channel worker waits for its first answer
		w.chDiffLatency = time.Duration(rapid.SampledFrom([]int{0, 0, 50, 2000}).Draw(t, "chDiffLatencyMs")) * time.Millisecond
	}
	return sc
}

func (sc *scenario) start(t fataler, store *memStorage) {
	w := sc.w
	sc.mgr = updates.New(updates.Config{
		Handler:          w.handler(),
		Storage:          store,
		AccessHasher:     hasher{fail: w.hasherDown},
		UserAccessHasher: hasher{fail: w.hasherDown},
		OnTooLong: func() {
			w.mu.Lock()
			w.record(event{kind: "toolong", seq: "pts"})
			w.mu.Unlock()
		},
		OnChannelTooLong: func(id int64) {
			w.mu.Lock()
			w.record(event{kind: "toolong", seq: chSeq(id)})
			w.mu.Unlock()
		},
	})
	ctx, cancel := context.WithCancel(context.Background())
	sc.cancel = cancel
	sc.done = make(chan error, 1)
	go func() { sc.done <- sc.mgr.Run(ctx, api{w}, selfID, updates.AuthOptions{}) }()
	synctest.Wait()
}

func (sc *scenario) stop(t fataler) {
	sc.cancel()
	synctest.Wait()
	select {
	case <-sc.done:
	default:
		t.Fatalf("Manager.Run did not return after cancel")
	}
}

func (sc *scenario) push(t fataler, u tg.UpdatesClass) {
	if err := sc.mgr.Handle(context.Background(), u); err != nil {
		t.Fatalf("Manager.Handle: %v", err)
	}
}

func (sc *scenario) publish(seq string) (entry, bool) {
	w := sc.w
	w.mu.Lock()
	defer w.mu.Unlock()
	if i := w.pub[seq]; i < len(w.logs[seq]) {
		e := w.logs[seq][i]
		w.pub[seq] = i + 1
		w.head[seq] = e.end
		w.date++
		return e, true
	}
	return entry{}, false
}

func (sc *scenario) seqs() []string {
	s := []string{"pts", "qts"}
	for _, id := range sc.channels {
		s = append(s, chSeq(id))
	}
	return s
}

func (sc *scenario) container(t *rapid.T, ents []entry, noSeq ...bool) tg.UpdatesClass {
	var ups []tg.UpdateClass
	for _, e := range ents {
		ups = append(ups, e.update())
	}
	sc.w.mu.Lock()
	date := sc.w.date
	sc.w.mu.Unlock()
	// honest containers either carry seq 0 or the next value of the server's
	// updates sequence; a container that is generated but never pushed (lost)
	// leaves a seq gap
	seq := 0
	if rapid.IntRange(0, 2).Draw(t, "withSeq") == 0 && !(len(noSeq) > 0 && noSeq[0]) {
		// (draws never happen under the world mutex: a draw can panic out of the
		// property while rapid shrinks, and a mutex left locked wedges the bubble)
		lost := rapid.IntRange(0, 4).Draw(t, "seqLost") == 0
		sc.w.mu.Lock()
		if lost {
			sc.w.seq++ // an earlier container of the sequence was lost
		}
		sc.w.seq++
		seq = sc.w.seq
		sc.w.mu.Unlock()
		if lost {
			sc.class("seq-gap")
		}
		sc.class("seq")
	}
	var chats []tg.ChatClass
	var users []tg.UserClass
	if sc.w.withMin {
		chats, users = minEntities()
	}
	switch rapid.IntRange(0, 2).Draw(t, "containerKind") {
	case 0:
		if len(ups) == 1 && seq == 0 {
			return &tg.UpdateShort{Update: ups[0], Date: date}
		}
		fallthrough
	case 1:
		return &tg.Updates{Updates: ups, Date: date, Seq: seq, Chats: chats, Users: users}
	default:
		return &tg.UpdatesCombined{Updates: ups, Date: date, Seq: seq, SeqStart: seq, Chats: chats, Users: users}
	}
}

// runSteps executes a drawn delivery history. Returns after the last step
// (the manager is still running).
func (sc *scenario) runSteps(t *rapid.T, opts scenarioOpts) {
	n := rapid.IntRange(0, opts.maxSteps).Draw(t, "nSteps")
	note := func(f string, a ...any) { sc.steps = append(sc.steps, fmt.Sprintf(f, a...)) }
	for _, op := range sc.script {
		switch {
		case strings.HasPrefix(op, "pub:"):
			if e, ok := sc.publish(strings.TrimPrefix(op, "pub:")); ok {
				note("pub(%v) [not pushed]", e)
			}
		case strings.HasPrefix(op, "chTooLongPts:"):
			var id int64
			fmt.Sscanf(strings.TrimPrefix(op, "chTooLongPts:"), "%d", &id)
			sc.w.mu.Lock()
			head := sc.w.head[chSeq(id)]
			sc.w.mu.Unlock()
			u := &tg.UpdateChannelTooLong{ChannelID: id}
			u.SetPts(head)
			note("channelTooLong(%d, pts %d)", id, head)
			sc.push(t, &tg.Updates{Updates: []tg.UpdateClass{u}})
			synctest.Wait()
			sc.class("channelTooLong")
		case op == "sleep16m":
			note("sleep(16m)")
			time.Sleep(16 * time.Minute)
			synctest.Wait()
		}
	}
	for i := 0; i < n; i++ {
		switch rapid.SampledFrom([]string{"publish", "publish", "publish", "push", "push", "push", "lose", "sleep", "wait", "tooLong", "chTooLong", "ptsChanged", "qts0"}).Draw(t, "action") {
		case "publish":
			seqs := sc.seqs()
			seq := seqs[rapid.IntRange(0, len(seqs)-1).Draw(t, "seq")]
			if e, ok := sc.publish(seq); ok {
				sc.outbox = append(sc.outbox, e)
				note("pub(%v)", e)
			}
		case "push":
			var ents []entry
			k := rapid.IntRange(1, 3).Draw(t, "k")
			for j := 0; j < k; j++ {
				dup := len(sc.pushed) > 0 && rapid.IntRange(0, 4).Draw(t, "dup") == 0
				switch {
				case dup:
					ents = append(ents, sc.pushed[rapid.IntRange(0, len(sc.pushed)-1).Draw(t, "which")])
					sc.class("dup")
				case len(sc.outbox) > 0:
					idx := 0
					if rapid.IntRange(0, 2).Draw(t, "reorder") == 0 {
						idx = rapid.IntRange(0, len(sc.outbox)-1).Draw(t, "idx")
						if idx > 0 {
							sc.class("reorder")
						}
					}
					e := sc.outbox[idx]
					sc.outbox = append(sc.outbox[:idx:idx], sc.outbox[idx+1:]...)
					ents = append(ents, e)
					sc.pushed = append(sc.pushed, e)
				}
			}
			if len(ents) == 0 {
				continue
			}
			note("push%v", ents)
			var learning []string
			sc.w.mu.Lock()
			for _, e := range ents {
				if _, seen := sc.w.learnedStart[e.seq]; sc.w.unknown[e.seq] && !seen {
					sc.w.learnedStart[e.seq] = e.start
					learning = append(learning, e.seq)
				}
			}
			sc.w.mu.Unlock()
			// (the update that introduces an unknown channel travels in a container
			// without seq: after a seq gap the client drops the container and relies
			// on updates.difference, which on a real server names the channel through
			// updateChannelTooLong - something this simulation does not model)
			sc.push(t, sc.container(t, ents, len(learning) > 0))
			if len(learning) > 0 || rapid.Bool().Draw(t, "waitAfterPush") {
				synctest.Wait()
			} else {
				sc.class("push-no-wait")
			}
			if len(learning) > 0 {
				// quiescent: the client has consumed the update, so from here on it knows
				// the channel (a worker may still be waiting for its first difference)
				sc.w.mu.Lock()
				for _, s := range learning {
					sc.w.learnedAt[s] = len(sc.w.trace)
				}
				sc.w.mu.Unlock()
				sc.class("unknown-channel-learned")
			}
		case "lose":
			if len(sc.outbox) > 0 {
				idx := rapid.IntRange(0, len(sc.outbox)-1).Draw(t, "idx")
				note("lose(%v)", sc.outbox[idx])
				sc.outbox = append(sc.outbox[:idx:idx], sc.outbox[idx+1:]...)
				sc.class("loss")
			}
		case "sleep":
			d := rapid.SampledFrom([]time.Duration{100 * time.Millisecond, 499 * time.Millisecond, 500 * time.Millisecond, time.Second, 15 * time.Minute}).Draw(t, "d")
			note("sleep(%v)", d)
			time.Sleep(d)
			synctest.Wait()
			if d >= 500*time.Millisecond {
				sc.class("gap-timer-elapsed")
			}
		case "wait":
			synctest.Wait()
		case "tooLong":
			note("updatesTooLong")
			sc.push(t, &tg.UpdatesTooLong{})
			sc.class("updatesTooLong")
		case "chTooLong":
			if len(sc.channels) == 0 {
				continue
			}
			id := sc.channels[rapid.IntRange(0, len(sc.channels)-1).Draw(t, "ch")]
			sc.w.mu.Lock()
			head := sc.w.head[chSeq(id)]
			_, learned := sc.w.learnedStart[chSeq(id)]
			notYet := sc.w.unknown[chSeq(id)] && !learned
			sc.w.mu.Unlock()
			if notYet {
				continue // the first thing the client hears of an unknown channel is an update (defines where it starts)
			}
			u := &tg.UpdateChannelTooLong{ChannelID: id}
			if rapid.Bool().Draw(t, "withPts") {
				u.SetPts(head)
			}
			note("channelTooLong(%d)", id)
			sc.push(t, &tg.Updates{Updates: []tg.UpdateClass{u}})
			sc.class("channelTooLong")
		case "ptsChanged":
			note("ptsChanged")
			sc.push(t, &tg.Updates{Updates: []tg.UpdateClass{&tg.UpdatePtsChanged{}}})
			sc.class("ptsChanged")
		case "qts0":
			// qts==0 is the documented "unset" value (business updates in differences)
			note("qts0")
			sc.push(t, &tg.Updates{Updates: []tg.UpdateClass{&tg.UpdateBotStopped{UserID: 900000 + int64(i), Qts: 0}}})
			sc.class("qts0")
		}
	}
}

// finish publishes the rest of every log and lets the client recover.
func (sc *scenario) finish(t *rapid.T) {
	for _, s := range sc.seqs() {
		for {
			if _, ok := sc.publish(s); !ok {
				break
			}
			sc.class("unpushed-tail")
		}
	}
	sc.w.mu.Lock()
	sc.w.complete = true
	sc.w.mu.Unlock()
	switch rapid.SampledFrom([]string{"idle", "tooLong", "gapTimer"}).Draw(t, "recovery") {
	case "tooLong":
		sc.steps = append(sc.steps, "recover:tooLong")
		sc.push(t, &tg.UpdatesTooLong{})
		for _, id := range sc.channels {
			sc.push(t, &tg.Updates{Updates: []tg.UpdateClass{&tg.UpdateChannelTooLong{ChannelID: id}}})
		}
		synctest.Wait()
	case "gapTimer":
		sc.steps = append(sc.steps, "recover:gapTimer")
		time.Sleep(501 * time.Millisecond)
		synctest.Wait()
	default:
		sc.steps = append(sc.steps, "recover:idle")
	}
	// the idle timers (15 min) guarantee a difference fetch on every sequence
	for i := 0; i < 2; i++ {
		time.Sleep(16 * time.Minute)
		synctest.Wait()
	}
}

func (sc *scenario) key() string { return strings.Join(sc.steps, " ") }

func (sc *scenario) classList() []string {
	var out []string
	for _, c := range []string{"dup", "reorder", "loss", "push-no-wait", "gap-timer-elapsed", "updatesTooLong", "channelTooLong", "ptsChanged", "qts0", "unpushed-tail", "sliced", "other-in-diff", "toolong-diff", "seq", "seq-gap", "unknown-channel", "unknown-channel-learned", "min-entities", "access-hash-store-down", "scripted:channel-too-long-twice"} {
		if sc.classes[c] {
			out = append(out, c)
		}
	}
	return out
}

// postClasses derives classes from the trace.
func (sc *scenario) postClasses() {
	w := sc.w
	for _, ev := range w.trace {
		if ev.kind == "diff" && !ev.final {
			sc.class("sliced")
		}
		if ev.kind == "diff-toolong" {
			sc.class("toolong-diff")
		}
		if ev.kind == "diff" {
			for _, e := range w.rangeOf(ev.seq, ev.from, ev.value) {
				if !e.isMessage() {
					sc.class("other-in-diff")
				}
			}
		}
	}
}

func short(s string, n int) string {
	if len(s) > n {
		return s[:n] + "…"
	}
	return s
}

// finish2 lets a restarted client recover (everything is already published).
func (sc *scenario) finish2() {
	for i := 0; i < 2; i++ {
		time.Sleep(16 * time.Minute)
		synctest.Wait()
	}
}
