package c_updates

import (
	"testing"

	"pgregory.net/rapid"

	"verifharness/pbt"
)

// C01 (driver b): the real updates.Manager (public API) in a synctest bubble
// against the simulated server; the oracle is the order/at-most-once invariant
// over the recorded history.
func TestC01Manager(t *testing.T) {
	st := pbt.NewStats("TestC01Manager")
	defer st.Flush()
	rapid.Check(t, func(t *rapid.T) {
		rapid.SyncTest(t, func(t *rapid.T) {
			opts := scenarioOpts{maxSteps: 40}
			sc := genWorld(t, opts)
			sc.start(t, sc.w.store)
			sc.runSteps(t, opts)
			sc.finish(t)
			sc.stop(t)
			if v := sc.w.checkOrder(); v != "" {
				t.Fatalf("C01 violated: %s\nsteps: %s\ntrace: %s", v, sc.key(), sc.w.traceString(0))
			}
			sc.postClasses()
			nontrivial := sc.classes["dup"] || sc.classes["reorder"] || sc.classes["loss"] || sc.classes["sliced"]
			st.Case(sc.key(), nontrivial, short(sc.key(), 500), sc.classList()...)
		})
	})
}
