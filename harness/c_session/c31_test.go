package c_session

import (
	"bytes"
	"context"
	"encoding/json"
	"errors"
	"fmt"
	"os"
	"os/exec"
	"path/filepath"
	"reflect"
	"regexp"
	"runtime"
	"sort"
	"strconv"
	"strings"
	"testing"

	"github.com/gotd/td/session"
	"github.com/gotd/td/tg"

	"verifharness/pbt"
)

// C31: session file updates are atomic with respect to crashes (T9).
//
// (1) Process crash, real: a helper (this test binary re-executed) performs
// Loader.Save on a FileStorage under strace; a reference run lists the system
// calls that touch the session directory, then the helper is re-run once per
// (syscall, index) with SIGKILL injected at the entry of that call and the
// directory is inspected.
// (2) Partial write and lost unsynced data, simulated: the recorded trace is
// replayed on a small file-system model of the directory up to every prefix,
// with the last write applied partially, and - power-loss model - with data
// not followed by an fsync of that file dropped while completed renames persist.
// Oracle for every crash state: Loader.Load returns data deep-equal to the old
// or to the new session.

const helperEnv = "VERIF_C31_HELPER"

func mkData(seed uint64, nOpts int, dc int) *session.Data {
	s := pbt.NewStream(seed)
	d := &session.Data{
		DC:        dc,
		Addr:      fmt.Sprintf("10.0.%d.%d:443", seed%250, dc),
		AuthKey:   s.Bytes(256),
		AuthKeyID: s.Bytes(8),
		Salt:      int64(s.Uint64()),
		Config: session.Config{
			Date: int(seed % 100000), Expires: int(seed%100000) + 3600, ThisDC: dc,
			DCTxtDomainName: fmt.Sprintf("dom-%d.example", seed),
		},
	}
	for i := 0; i < nOpts; i++ {
		d.Config.DCOptions = append(d.Config.DCOptions, tg.DCOption{
			ID: i%5 + 1, IPAddress: fmt.Sprintf("149.154.%d.%d", i%250, (i*7)%250), Port: 443, Secret: s.Bytes(int(seed+uint64(i)) % 24),
		})
	}
	return d
}

// TestC31Helper is the crashing process: it only acts when re-executed by TestC31.
func TestC31Helper(t *testing.T) {
	spec := os.Getenv(helperEnv)
	if spec == "" {
		t.Skip("helper: only meaningful when re-executed by TestC31")
	}
	runtime.LockOSThread()
	var h struct {
		Path string
		Data *session.Data
		// Fresh: the storage starts without a file, as on a new installation: the
		// helper first looks for a session (none), stores Old, and then replaces
		// it with Data - all on one FileStorage value. The marker call (an unlink
		// of a file that does not exist) separates the two stores in the trace.
		Fresh bool
		Old   *session.Data
	}
	raw, err := os.ReadFile(spec)
	if err != nil {
		os.Exit(3)
	}
	if err := json.Unmarshal(raw, &h); err != nil {
		os.Exit(3)
	}
	l := session.Loader{Storage: &session.FileStorage{Path: h.Path}}
	if h.Fresh {
		if _, err := l.Load(context.Background()); !errors.Is(err, session.ErrNotFound) {
			os.Exit(5)
		}
		if err := l.Save(context.Background(), h.Old); err != nil {
			os.Exit(6)
		}
		_ = os.Remove(h.Path + ".marker")
	}
	if err := l.Save(context.Background(), h.Data); err != nil {
		os.Exit(4)
	}
	os.Exit(0)
}

type traceOp struct {
	pid     string
	name    string
	ordinal int    // index among this pid's calls of this syscall (1-based) = strace "when"
	line    string // raw
	// parsed
	path, path2 string // path argument(s) or the fd's path
	flags       string
	n           int // bytes for write
}

var (
	reLine       = regexp.MustCompile(`^(\d+)\s+(\w+)\((.*)\)\s+=\s+(-?\d+)(.*)$`)
	reUnfinished = regexp.MustCompile(`^(\d+)\s+(\w+\(.*) <unfinished \.\.\.>$`)
	reResumed    = regexp.MustCompile(`^(\d+)\s+<\.\.\. (\w+) resumed>(.*)$`)
	reFD         = regexp.MustCompile(`^\d+<([^>]*)>`)
	reQuote      = regexp.MustCompile(`"((?:[^"\\]|\\.)*)"`)
)

const tracedCalls = "openat,open,creat,write,pwrite64,writev,fsync,fdatasync,rename,renameat,renameat2,close,ftruncate,truncate,unlink,unlinkat,fchmod,fchmodat,link,linkat"

func helperCmd(t *testing.T, spec string, straceArgs ...string) *exec.Cmd {
	exe, err := os.Executable()
	if err != nil {
		t.Fatalf("executable: %v", err)
	}
	args := append([]string{"-f"}, straceArgs...)
	args = append(args, exe, "-test.run", "^TestC31Helper$")
	cmd := exec.Command("strace", args...)
	cmd.Env = append(os.Environ(), helperEnv+"="+spec, "GOMAXPROCS=1", "VERIF_STATS_DIR=")
	return cmd
}

func parseTrace(t *testing.T, file, dir string) ([]traceOp, error) {
	raw, err := os.ReadFile(file)
	if err != nil {
		t.Fatalf("trace: %v", err)
	}
	counts := map[string]int{}
	var ops []traceOp
	// With -f, a call that is still running when another thread makes one is
	// written in two pieces: "pid call(args <unfinished ...>" and later
	// "pid <... call resumed>rest) = ret". Under load that happens to the very
	// calls that matter here (a big write, an fsync). The pieces are joined
	// first; the order of operations is that of their completion.
	pending := map[string]string{}
	var lines []string
	for _, ln := range strings.Split(string(raw), "\n") {
		if m := reUnfinished.FindStringSubmatch(ln); m != nil {
			pending[m[1]] = m[1] + " " + m[2]
			continue
		}
		if m := reResumed.FindStringSubmatch(ln); m != nil {
			if head, ok := pending[m[1]]; ok {
				delete(pending, m[1])
				ln = head + m[3]
			}
		}
		lines = append(lines, ln)
	}
	for _, ln := range lines {
		m := reLine.FindStringSubmatch(ln)
		if m == nil {
			if strings.Contains(ln, dir) && !strings.Contains(ln, "+++") && !strings.Contains(ln, "---") {
				return nil, fmt.Errorf("a trace line about the session directory could not be parsed: %q", ln)
			}
			continue
		}
		pid, name, args := m[1], m[2], m[3]
		counts[pid+"/"+name]++
		if !strings.Contains(ln, dir) {
			continue
		}
		op := traceOp{pid: pid, name: name, ordinal: counts[pid+"/"+name], line: ln}
		qs := reQuote.FindAllStringSubmatch(args, -1)
		switch name {
		case "openat", "open", "creat":
			for _, q := range qs {
				if strings.HasPrefix(q[1], dir) {
					op.path = q[1]
				}
			}
			parts := strings.Split(args, ", ")
			for _, p := range parts {
				if strings.HasPrefix(p, "O_") {
					op.flags = p
				}
			}
			if m[4] == "-1" {
				continue
			}
		case "write", "pwrite64", "writev":
			if fd := reFD.FindStringSubmatch(args); fd != nil {
				op.path = fd[1]
			}
			op.n, _ = strconv.Atoi(m[4])
		case "fsync", "fdatasync", "close", "ftruncate", "fchmod":
			if fd := reFD.FindStringSubmatch(args); fd != nil {
				op.path = fd[1]
			}
		case "rename", "renameat", "renameat2", "link", "linkat":
			var ps []string
			for _, q := range qs {
				ps = append(ps, q[1])
			}
			if len(ps) >= 2 {
				op.path, op.path2 = ps[len(ps)-2], ps[len(ps)-1]
			}
		case "unlink", "unlinkat", "truncate", "fchmodat":
			for _, q := range qs {
				op.path = q[1]
			}
		}
		ops = append(ops, op)
	}
	return ops, nil
}

// ---- file-system model for the simulated crash states

type mfile struct {
	data   []byte
	synced int // bytes known to be on stable storage
}

type fsModel struct {
	files   map[string]*mfile // by path
	durable map[string]*mfile // directory entries known to be durable (after dir fsync) - start state
}

func (m *fsModel) clone() *fsModel {
	c := &fsModel{files: map[string]*mfile{}}
	for k, f := range m.files {
		c.files[k] = &mfile{data: append([]byte(nil), f.data...), synced: f.synced}
	}
	return c
}

// apply replays one traced operation; newData supplies the bytes of writes (the
// helper writes exactly the marshalled new session, possibly in several calls).
func (m *fsModel) apply(op traceOp, newData []byte, written map[string]int, partial int) {
	switch op.name {
	case "openat", "open", "creat":
		f, ok := m.files[op.path]
		if !ok && (strings.Contains(op.flags, "O_CREAT") || op.name == "creat") {
			f = &mfile{}
			m.files[op.path] = f
		}
		if f != nil && (strings.Contains(op.flags, "O_TRUNC") || op.name == "creat") {
			f.data = nil
			f.synced = 0
			written[op.path] = 0
		}
	case "write", "pwrite64", "writev":
		f := m.files[op.path]
		if f == nil {
			return
		}
		n := op.n
		if partial >= 0 && partial < n {
			n = partial
		}
		off := written[op.path]
		end := min(off+n, len(newData))
		if off < end {
			f.data = append(f.data, newData[off:end]...)
		}
		written[op.path] = off + n
	case "fsync", "fdatasync":
		if f := m.files[op.path]; f != nil {
			f.synced = len(f.data)
		}
	case "rename", "renameat", "renameat2":
		if f, ok := m.files[op.path]; ok {
			m.files[op.path2] = f
			delete(m.files, op.path)
			// the open fd keeps referring to the same file: follow it
			if w, ok := written[op.path]; ok {
				written[op.path2] = w
			}
		}
	case "unlink", "unlinkat":
		delete(m.files, op.path)
	case "ftruncate", "truncate":
		if f := m.files[op.path]; f != nil {
			f.data = nil
			f.synced = 0
		}
	}
}

func materialize(t *testing.T, m *fsModel, dir string, lossy bool, keep func(path string, f *mfile) int) {
	_ = os.RemoveAll(dir)
	if err := os.MkdirAll(dir, 0o755); err != nil {
		t.Fatal(err)
	}
	for p, f := range m.files {
		data := f.data
		if lossy {
			data = data[:keep(p, f)]
		}
		if err := os.WriteFile(filepath.Join(dir, filepath.Base(p)), data, 0o600); err != nil {
			t.Fatal(err)
		}
	}
}

func loadState(dir string) (*session.Data, error) {
	l := session.Loader{Storage: &session.FileStorage{Path: filepath.Join(dir, "session.json")}}
	return l.Load(context.Background())
}

func marshalled(t *testing.T, d *session.Data) []byte {
	mem := &session.StorageMemory{}
	if err := (&session.Loader{Storage: mem}).Save(context.Background(), d); err != nil {
		t.Fatal(err)
	}
	b, err := mem.Bytes(nil)
	if err != nil {
		t.Fatal(err)
	}
	return b
}

func TestC31(t *testing.T) {
	if _, err := exec.LookPath("strace"); err != nil {
		t.Fatalf("strace is required for C31: %v", err)
	}
	st := pbt.NewStats("TestC31")
	defer st.Flush()
	seed, _ := strconv.ParseUint(os.Getenv("VERIF_SEED"), 10, 64)
	pairs := 12
	if os.Getenv("VERIF_TIER") == "thorough" {
		pairs = 120
	}
	work, err := os.MkdirTemp(".", "c31-")
	if err != nil {
		t.Fatal(err)
	}
	work, _ = filepath.Abs(work)
	defer os.RemoveAll(work)
	sizes := []int{0, 1, 3, 40, 400, 2500}
	violations := 0
	fail := func(format string, a ...any) {
		violations++
		msg := fmt.Sprintf(format, a...)
		if rd := os.Getenv("VERIF_REPLAY_DIR"); rd != "" && violations == 1 {
			_ = os.WriteFile(filepath.Join(rd, "c31-violation.txt"), []byte(msg), 0o644)
		}
		t.Errorf("%s", msg)
	}
	for pi := 0; pi < pairs && violations == 0; pi++ {
		rs := pbt.NewStream(seed*1000 + uint64(pi))
		oldD := mkData(rs.Uint64()%1e6, sizes[int(rs.Uint64()%uint64(len(sizes)))], 2)
		newD := mkData(rs.Uint64()%1e6+1e6, sizes[int(rs.Uint64()%uint64(len(sizes)))], 4)
		oldBytes, newBytes := marshalled(t, oldD), marshalled(t, newD)
		// the sessions a restarted client saves next (see goOn): one shorter
		// than anything the interrupted save can have staged, one longer
		nextSmall := mkData(rs.Uint64()%1e6+2e6, 0, 1)
		nextBig := mkData(rs.Uint64()%1e6+3e6, 3000, 5)
		goOnCount := 0
		dir := filepath.Join(work, fmt.Sprintf("p%d", pi))
		path := filepath.Join(dir, "session.json")
		reset := func() {
			_ = os.RemoveAll(dir)
			if err := os.MkdirAll(dir, 0o755); err != nil {
				t.Fatal(err)
			}
			if err := os.WriteFile(path, oldBytes, 0o600); err != nil {
				t.Fatal(err)
			}
		}
		specB, _ := json.Marshal(map[string]any{"Path": path, "Data": newD})
		spec := filepath.Join(work, fmt.Sprintf("spec%d.json", pi))
		if err := os.WriteFile(spec, specB, 0o600); err != nil {
			t.Fatal(err)
		}
		check := func(what string, nontrivial bool) (usable bool) {
			got, err := loadState(dir)
			class := "old"
			switch {
			case err != nil:
				ents, _ := os.ReadDir(dir)
				var names []string
				for _, e := range ents {
					info, _ := e.Info()
					names = append(names, fmt.Sprintf("%s(%d)", e.Name(), info.Size()))
				}
				fail("C31 violated: after %s the session does not load: %v (old %d bytes, new %d bytes, directory now: %v)", what, err, len(oldBytes), len(newBytes), names)
				class = "broken"
			case reflect.DeepEqual(got, oldD):
			case reflect.DeepEqual(got, newD):
				class = "new"
			default:
				fail("C31 violated: after %s the loaded session is neither the old nor the new one", what)
				class = "mixed"
			}
			st.Case(fmt.Sprintf("pair%d:%s", pi, what), nontrivial, fmt.Sprintf("pair %d (old %dB new %dB): %s -> %s", pi, len(oldBytes), len(newBytes), what, class), "state="+class)
			return class == "old" || class == "new"
		}
		// goOn: the crash state is one the restarted client can go on from. It
		// has loaded the session (check above); now it saves the next session,
		// undisturbed, on a new FileStorage over the directory as the crash left
		// it (leftover temporary files included), and that session must be what
		// is stored afterwards.
		goOn := func(what string) {
			next := nextSmall
			if goOnCount%3 == 2 {
				next = nextBig
			}
			goOnCount++
			l := session.Loader{Storage: &session.FileStorage{Path: path}}
			if err := l.Save(context.Background(), next); err != nil {
				fail("C31 violated: after %s the restarted client cannot save the next session: %v", what, err)
				return
			}
			got, err := loadState(dir)
			if err != nil || !reflect.DeepEqual(got, next) {
				ents, _ := os.ReadDir(dir)
				var names []string
				for _, e := range ents {
					info, _ := e.Info()
					names = append(names, fmt.Sprintf("%s(%d)", e.Name(), info.Size()))
				}
				fail("C31 violated: after %s the restarted client saved the next session (%d bytes) without error, but what is stored then does not load as it: err=%v (directory now: %v)", what, len(marshalled(t, next)), err, names)
			}
			st.Class("continued-with-next-save")
		}
		// ---- reference run
		reset()
		traceFile := filepath.Join(work, fmt.Sprintf("trace%d.txt", pi))
		cmd := helperCmd(t, spec, "-y", "-s", "0", "-o", traceFile, "-e", "trace="+tracedCalls)
		if out, err := cmd.CombinedOutput(); err != nil {
			t.Fatalf("reference run failed: %v\n%s", err, out)
		}
		if got, err := loadState(dir); err != nil || !reflect.DeepEqual(got, newD) {
			t.Fatalf("reference run did not store the new session: %v", err)
		}
		ops, perr := parseTrace(t, traceFile, dir)
		if perr != nil {
			// the harness could not read its own reference trace: no verdict for this pair
			t.Logf("pair %d skipped: %v", pi, perr)
			st.Class("skipped:reference-trace-unparsed")
			continue
		}
		if len(ops) < 2 {
			t.Fatalf("reference trace has %d operations on the session directory", len(ops))
		}
		var sig []string
		for _, op := range ops {
			sig = append(sig, op.name)
		}
		st.Class("trace:" + strings.Join(sig, ","))
		// ---- (1) real process crash at the entry of every traced operation
		firstMut, lastMut := -1, -1
		for i, op := range ops {
			if op.name != "close" && op.name != "fsync" && op.name != "fdatasync" {
				if firstMut < 0 {
					firstMut = i
				}
				lastMut = i
			}
		}
		for i, op := range ops {
			reset()
			cmd := helperCmd(t, spec, "-o", os.DevNull, "-e", "trace="+op.name, "-e", fmt.Sprintf("inject=%s:signal=SIGKILL:when=%d", op.name, op.ordinal))
			_ = cmd.Run() // the tracee is killed; strace exits non-zero
			what := fmt.Sprintf("SIGKILL at entry of %s #%d (op %d/%d of the save)", op.name, op.ordinal, i+1, len(ops))
			if check(what, i > firstMut && i <= lastMut) {
				goOn(what)
			}
			st.Class("real-kill")
		}
		// ---- (1b) a storage that starts empty (every second pair): look for a
		// session, find none, store the old one, replace it by the new one, all on
		// one FileStorage value; a real crash at the entry of every operation. Up to
		// the marker the directory may hold no session or the complete old one,
		// after it the complete old or new one.
		if pi%2 == 0 {
			freshSpecB, _ := json.Marshal(map[string]any{"Path": path, "Data": newD, "Fresh": true, "Old": oldD})
			freshSpec := filepath.Join(work, fmt.Sprintf("fresh%d.json", pi))
			if err := os.WriteFile(freshSpec, freshSpecB, 0o600); err != nil {
				t.Fatal(err)
			}
			resetFresh := func() {
				_ = os.RemoveAll(dir)
				if err := os.MkdirAll(dir, 0o755); err != nil {
					t.Fatal(err)
				}
			}
			resetFresh()
			ftrace := filepath.Join(work, fmt.Sprintf("ftrace%d.txt", pi))
			cmd := helperCmd(t, freshSpec, "-y", "-s", "0", "-o", ftrace, "-e", "trace="+tracedCalls)
			if out, err := cmd.CombinedOutput(); err != nil {
				t.Fatalf("reference run (fresh storage) failed: %v\n%s", err, out)
			}
			fops, perr := parseTrace(t, ftrace, dir)
			marker := -1
			for i, op := range fops {
				if strings.HasPrefix(op.name, "unlink") && strings.Contains(op.line, ".marker") {
					marker = i
				}
			}
			if perr != nil || marker < 0 {
				t.Logf("pair %d fresh scenario skipped: %v (marker %d)", pi, perr, marker)
				st.Class("skipped:reference-trace-unparsed")
			} else {
				for i, op := range fops {
					resetFresh()
					cmd := helperCmd(t, freshSpec, "-o", os.DevNull, "-e", "trace="+op.name, "-e", fmt.Sprintf("inject=%s:signal=SIGKILL:when=%d", op.name, op.ordinal))
					_ = cmd.Run()
					what := fmt.Sprintf("fresh storage (load miss, store, store): SIGKILL at entry of %s #%d (op %d/%d, marker at %d)", op.name, op.ordinal, i+1, len(fops), marker+1)
					got, err := loadState(dir)
					class := "old"
					switch {
					case errors.Is(err, session.ErrNotFound) && i <= marker:
						class = "none"
					case err != nil:
						ents, _ := os.ReadDir(dir)
						var names []string
						for _, e := range ents {
							info, _ := e.Info()
							names = append(names, fmt.Sprintf("%s(%d)", e.Name(), info.Size()))
						}
						fail("C31 violated: after %s the session does not load: %v (old %d bytes, new %d bytes, directory now: %v)", what, err, len(oldBytes), len(newBytes), names)
						class = "broken"
					case reflect.DeepEqual(got, oldD):
					case reflect.DeepEqual(got, newD) && i > marker:
						class = "new"
					default:
						fail("C31 violated: after %s the loaded session is neither the old nor the new one", what)
						class = "mixed"
					}
					st.Case(fmt.Sprintf("pair%d:%s", pi, what), i > marker, fmt.Sprintf("pair %d: %s -> %s", pi, what, class), "state="+class, "scenario=fresh-storage")
					if class == "old" || class == "new" || class == "none" {
						goOn(what)
					}
					st.Class("real-kill")
				}
			}
			reset()
		}
		// ---- (2) simulated: every prefix, last write partial; then power loss
		base := &fsModel{files: map[string]*mfile{path: {data: append([]byte(nil), oldBytes...), synced: len(oldBytes)}}}
		for k := 0; k <= len(ops); k++ {
			partials := []int{-1}
			if k < len(ops) && strings.HasPrefix(ops[k].name, "write") || (k < len(ops) && ops[k].name == "pwrite64") {
				n := ops[k].n
				partials = []int{0, 1, n / 2, n - 1}
			}
			for _, partial := range partials {
				m := base.clone()
				written := map[string]int{}
				for j := 0; j < k; j++ {
					m.apply(ops[j], newBytes, written, -1)
				}
				what := fmt.Sprintf("process crash after %d/%d operations", k, len(ops))
				if partial >= 0 {
					m.apply(ops[k], newBytes, written, partial)
					what = fmt.Sprintf("process crash inside %s #%d after %d of %d bytes", ops[k].name, ops[k].ordinal, partial, ops[k].n)
				}
				materialize(t, m, dir, false, nil)
				if check("simulated "+what, k > firstMut && k <= lastMut) {
					goOn("simulated " + what)
					materialize(t, m, dir, false, nil)
				}
				st.Class("simulated-process-crash")
				// power loss: unsynced tails of files are lost (to nothing, or to a prefix)
				for _, keepMode := range []string{"none", "half"} {
					lossy := false
					for _, f := range m.files {
						if f.synced < len(f.data) {
							lossy = true
						}
					}
					if !lossy {
						continue
					}
					materialize(t, m, dir, true, func(p string, f *mfile) int {
						if keepMode == "none" {
							return f.synced
						}
						return f.synced + (len(f.data)-f.synced)/2
					})
					if w := fmt.Sprintf("simulated power loss (%s of the unsynced data kept) %s", keepMode, strings.TrimPrefix(what, "process crash ")); check(w, true) {
						goOn(w)
					}
					st.Class("simulated-power-loss")
				}
			}
		}
	}
	_ = sort.Strings
	_ = bytes.Equal
}
