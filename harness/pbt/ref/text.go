package ref

import (
	"unicode"
	"unicode/utf16"
)

// Text references for the message-entity checks (C35..C37). Written from the
// Telegram API documentation ("entity offsets and lengths are expressed in
// UTF-16 code units") and the Unicode White_Space property; stdlib only.

// UTF16Len is the number of UTF-16 code units of s. Bytes that are not valid
// UTF-8 count as one U+FFFD each (the Go string -> []rune conversion), which is
// also what any UTF-8 decoder that substitutes per byte would produce.
func UTF16Len(s string) int {
	return len(utf16.Encode([]rune(s)))
}

// UTF16Offset is the UTF-16 offset of byte position pos in s.
func UTF16Offset(s string, pos int) int {
	return UTF16Len(s[:pos])
}

// IsWhiteSpace reports the Unicode White_Space property.
func IsWhiteSpace(r rune) bool {
	return unicode.Is(unicode.White_Space, r)
}

// TrimRightSpaceLen returns the byte length of s without its trailing
// White_Space runes.
func TrimRightSpaceLen(s string) int {
	rs := []rune(s)
	n := len(s)
	for i := len(rs) - 1; i >= 0; i-- {
		if !IsWhiteSpace(rs[i]) {
			break
		}
		// A White_Space rune is always valid, so its encoded length is exact.
		n -= len(string(rs[i]))
	}
	return n
}

// AllWhiteSpace reports whether s consists of White_Space runes only.
func AllWhiteSpace(s string) bool {
	for _, r := range s {
		if !IsWhiteSpace(r) {
			return false
		}
	}
	return true
}
