package ref

// Telegram's SRP variant (core.telegram.org/api/srp, "Checking the password
// with SRP"), client and verifier side, written from the formulas of the
// specification with math/big, crypto/sha256, crypto/sha512 and crypto/hmac.
//
//	H(data)  := sha256(data)
//	SH(data, salt) := H(salt | data | salt)
//	PH1(password, salt1, salt2) := SH(SH(password, salt1), salt2)
//	PH2(password, salt1, salt2) := SH(pbkdf2(sha512, PH1(password, salt1, salt2), salt1, 100000), salt2)
//
//	k := H(p | g)                     g_a := pow(g, a) mod p
//	u := H(g_a | g_b)                 x := PH2(password, salt1, salt2)
//	v := pow(g, x) mod p              k_v := (k * v) mod p
//	t := (g_b - k_v) mod p            s_a := pow(t, a + u * x) mod p
//	k_a := H(s_a)
//	M1 := H(H(p) xor H(g) | H(salt1) | H(salt2) | g_a | g_b | k_a)
//
// "In all cases where concatenation of numbers passed to hashing functions is
// done, the numbers must be used in big-endian form, padded to 2048 bits; all
// maths is modulo p."
//
// Server side (standard SRP-6a with the same k, u):
//
//	g_b := (k_v + pow(g, b)) mod p
//	s_b := pow(g_a * pow(v, u), b) mod p,  k_b := H(s_b)

import (
	"crypto/hmac"
	"crypto/sha256"
	"crypto/sha512"
	"math/big"
)

// SRPParams are the fields of passwordKdfAlgoSHA256SHA256PBKDF2HMACSHA512iter100000SHA256ModPow.
type SRPParams struct {
	G     int
	P     *big.Int
	Salt1 []byte
	Salt2 []byte
}

func srpH(parts ...[]byte) []byte {
	h := sha256.New()
	for _, p := range parts {
		h.Write(p)
	}
	return h.Sum(nil)
}

func srpSH(data, salt []byte) []byte { return srpH(salt, data, salt) }

// SRPPad is the 2048-bit big-endian form of a number below 2^2048.
func SRPPad(x *big.Int) []byte {
	out := make([]byte, 256)
	x.FillBytes(out)
	return out
}

// PBKDF2SHA512Block1 is PBKDF2 (RFC 8018 section 5.2) with HMAC-SHA512 for a
// derived key of exactly hLen = 64 bytes (a single block T_1).
func PBKDF2SHA512Block1(password, salt []byte, iterations int) []byte {
	mac := hmac.New(sha512.New, password)
	mac.Write(salt)
	mac.Write([]byte{0, 0, 0, 1}) // INT(1)
	u := mac.Sum(nil)
	t := append([]byte(nil), u...)
	for i := 2; i <= iterations; i++ {
		mac.Reset()
		mac.Write(u)
		u = mac.Sum(u[:0])
		for j := range t {
			t[j] ^= u[j]
		}
	}
	return t
}

// SRPPH1 is PH1.
func SRPPH1(password, salt1, salt2 []byte) []byte {
	return srpSH(srpSH(password, salt1), salt2)
}

// SRPX is x = PH2(password, salt1, salt2) as a number (100000 iterations).
func SRPX(password, salt1, salt2 []byte) *big.Int {
	ph2 := srpSH(PBKDF2SHA512Block1(SRPPH1(password, salt1, salt2), salt1, 100000), salt2)
	return new(big.Int).SetBytes(ph2)
}

func (q SRPParams) g() *big.Int { return big.NewInt(int64(q.G)) }

// K is k = H(p | g) with both numbers padded to 2048 bits.
func (q SRPParams) K() *big.Int {
	return new(big.Int).SetBytes(srpH(SRPPad(q.P), SRPPad(q.g())))
}

// SRPVerifierV is v = pow(g, x) mod p (what the server stores).
func (q SRPParams) SRPVerifierV(x *big.Int) *big.Int {
	return new(big.Int).Exp(q.g(), x, q.P)
}

// SRPServerB is g_b = (k*v + pow(g, b)) mod p.
func (q SRPParams) SRPServerB(v, b *big.Int) *big.Int {
	kv := new(big.Int).Mul(q.K(), v)
	kv.Mod(kv, q.P)
	gb := new(big.Int).Exp(q.g(), b, q.P)
	gb.Add(gb, kv)
	return gb.Mod(gb, q.P)
}

func (q SRPParams) m1(gA, gB *big.Int, kA []byte) []byte {
	hp := srpH(SRPPad(q.P))
	hg := srpH(SRPPad(q.g()))
	x := make([]byte, 32)
	for i := range x {
		x[i] = hp[i] ^ hg[i]
	}
	return srpH(x, srpH(q.Salt1), srpH(q.Salt2), SRPPad(gA), SRPPad(gB), kA)
}

// SRPClientAnswer computes (A, M1) for client secret a, password hash x and
// server value gB (0 < gB < p).
func (q SRPParams) SRPClientAnswer(x, a, gB *big.Int) (A []byte, M1 []byte) {
	p := q.P
	gA := new(big.Int).Exp(q.g(), a, p)
	u := new(big.Int).SetBytes(srpH(SRPPad(gA), SRPPad(gB)))
	v := q.SRPVerifierV(x)
	kv := new(big.Int).Mul(q.K(), v)
	kv.Mod(kv, p)
	t := new(big.Int).Sub(gB, kv)
	t.Mod(t, p) // Go's Mod is Euclidean: result in [0, p)
	e := new(big.Int).Mul(u, x)
	e.Add(e, a)
	sA := new(big.Int).Exp(t, e, p)
	kA := srpH(SRPPad(sA))
	return SRPPad(gA), q.m1(gA, gB, kA)
}

// SRPSharedSecret is the client's s_a = pow(g_b - k*v, a + u*x) mod p.
func (q SRPParams) SRPSharedSecret(x, a, gB *big.Int) *big.Int {
	p := q.P
	gA := new(big.Int).Exp(q.g(), a, p)
	u := new(big.Int).SetBytes(srpH(SRPPad(gA), SRPPad(gB)))
	kv := new(big.Int).Mul(q.K(), q.SRPVerifierV(x))
	kv.Mod(kv, p)
	t := new(big.Int).Sub(gB, kv)
	t.Mod(t, p)
	e := new(big.Int).Mul(u, x)
	e.Add(e, a)
	return new(big.Int).Exp(t, e, p)
}

// SRPServerCheck is the verifier: with stored v and its secret b it accepts
// (A, M1) iff 0 < A < p and M1 equals the value derived from
// s_b = pow(A * pow(v, u), b) mod p.
func (q SRPParams) SRPServerCheck(v, b *big.Int, A, M1 []byte) bool {
	p := q.P
	gA := new(big.Int).SetBytes(A)
	if gA.Sign() <= 0 || gA.Cmp(p) >= 0 {
		return false
	}
	gB := q.SRPServerB(v, b)
	u := new(big.Int).SetBytes(srpH(SRPPad(gA), SRPPad(gB)))
	base := new(big.Int).Exp(v, u, p)
	base.Mul(base, gA)
	base.Mod(base, p)
	sB := new(big.Int).Exp(base, b, p)
	kB := srpH(SRPPad(sB))
	return hmac.Equal(q.m1(gA, gB, kB), M1)
}
