package ref

// RSA_PAD and the legacy "data_with_hash" RSA scheme, written from
// core.telegram.org/mtproto/auth_key ("Presenting proof of work; Server
// authentication", steps 1-9 of RSA_PAD) with math/big only.

import (
	"crypto/sha1"
	"crypto/sha256"
	"errors"
	"fmt"
	"math/big"
)

// RSAPadDataLimit is the largest data RSA_PAD takes ("One has to check that
// data is not longer than 144 bytes").
const RSAPadDataLimit = 144

// RSAHashedDataLimit is 255 - 20: data_with_hash is exactly 255 bytes.
const RSAHashedDataLimit = 235

func reversed(b []byte) []byte {
	out := make([]byte, len(b))
	for i := range b {
		out[len(b)-1-i] = b[i]
	}
	return out
}

func rsaRaw(in []byte, exp, n *big.Int) []byte {
	m := new(big.Int).SetBytes(in)
	c := new(big.Int).Exp(m, exp, n)
	out := make([]byte, 256)
	c.FillBytes(out)
	return out
}

// RSAPadEncrypt performs RSA_PAD(data, server_public_key) for a 2048-bit
// modulus n and public exponent e with caller-chosen randomness: padding must
// have 192-len(data) bytes, tempKeys are tried in order (step 8 repeats from
// step 3 while key_aes_encrypted >= n). It returns the 256-byte ciphertext and
// the number of temp keys used; an error if the keys run out.
func RSAPadEncrypt(data []byte, n *big.Int, e int, padding []byte, tempKeys [][32]byte) ([]byte, int, error) {
	if len(data) > RSAPadDataLimit {
		return nil, 0, fmt.Errorf("ref: RSA_PAD data of %d bytes exceeds 144", len(data))
	}
	if len(data)+len(padding) != 192 {
		return nil, 0, fmt.Errorf("ref: RSA_PAD data+padding is %d bytes, want 192", len(data)+len(padding))
	}
	// 1) data_with_padding := data + random_padding_bytes (192 bytes)
	dataWithPadding := concatBytes(data, padding)
	// 2) data_pad_reversed := BYTE_REVERSE(data_with_padding)
	dataPadReversed := reversed(dataWithPadding)
	for i, tempKey := range tempKeys {
		// 4) data_with_hash := data_pad_reversed + SHA256(temp_key + data_with_padding)
		h := sha256.Sum256(concatBytes(tempKey[:], dataWithPadding))
		dataWithHash := concatBytes(dataPadReversed, h[:])
		// 5) aes_encrypted := AES256_IGE(data_with_hash, temp_key, 0)
		zeroIV := make([]byte, 32)
		aesEncrypted := IGEEncrypt(tempKey[:], zeroIV, dataWithHash)
		// 6) temp_key_xor := temp_key XOR SHA256(aes_encrypted)
		eh := sha256.Sum256(aesEncrypted)
		tempKeyXor := make([]byte, 32)
		for j := range tempKeyXor {
			tempKeyXor[j] = tempKey[j] ^ eh[j]
		}
		// 7) key_aes_encrypted := temp_key_xor + aes_encrypted (256 bytes)
		keyAESEncrypted := concatBytes(tempKeyXor, aesEncrypted)
		// 8) compare with the modulus as a big-endian 2048-bit integer
		if new(big.Int).SetBytes(keyAESEncrypted).Cmp(n) >= 0 {
			continue
		}
		// 9) encrypted_data := RSA(key_aes_encrypted, server_pubkey)
		return rsaRaw(keyAESEncrypted, big.NewInt(int64(e)), n), i + 1, nil
	}
	return nil, len(tempKeys), errors.New("ref: RSA_PAD ran out of temp keys")
}

// RSAPadDecrypt inverts RSA_PAD with the private exponent d: it returns the
// 192-byte data_with_padding and the temp_key, or an error when the embedded
// SHA256 does not match (steps 9..1 backwards).
func RSAPadDecrypt(ciphertext []byte, n, d *big.Int) (dataWithPadding []byte, tempKey [32]byte, err error) {
	if len(ciphertext) != 256 {
		return nil, tempKey, fmt.Errorf("ref: RSA_PAD ciphertext of %d bytes", len(ciphertext))
	}
	if new(big.Int).SetBytes(ciphertext).Cmp(n) >= 0 {
		return nil, tempKey, errors.New("ref: RSA_PAD ciphertext is not below the modulus")
	}
	keyAESEncrypted := rsaRaw(ciphertext, d, n)
	tempKeyXor, aesEncrypted := keyAESEncrypted[:32], keyAESEncrypted[32:]
	eh := sha256.Sum256(aesEncrypted)
	for j := range tempKey {
		tempKey[j] = tempKeyXor[j] ^ eh[j]
	}
	dataWithHash := IGEDecrypt(tempKey[:], make([]byte, 32), aesEncrypted)
	dataWithPadding = reversed(dataWithHash[:192])
	h := sha256.Sum256(concatBytes(tempKey[:], dataWithPadding))
	if string(h[:]) != string(dataWithHash[192:]) {
		return nil, tempKey, errors.New("ref: RSA_PAD hash mismatch")
	}
	return dataWithPadding, tempKey, nil
}

// RSAHashedEncrypt is the legacy scheme: data_with_hash := SHA1(data) + data +
// (any random bytes) such that the length equals 255 bytes; encrypted_data :=
// RSA(data_with_hash, server_public_key) stored as a 256-byte number.
// padding must have 235-len(data) bytes.
func RSAHashedEncrypt(data []byte, n *big.Int, e int, padding []byte) ([]byte, error) {
	if len(data) > RSAHashedDataLimit {
		return nil, fmt.Errorf("ref: hashed RSA data of %d bytes exceeds 235", len(data))
	}
	if len(data)+len(padding) != RSAHashedDataLimit {
		return nil, fmt.Errorf("ref: hashed RSA data+padding is %d bytes, want 235", len(data)+len(padding))
	}
	h := sha1.Sum(data)
	return rsaRaw(concatBytes(h[:], data, padding), big.NewInt(int64(e)), n), nil
}

// RSAHashedDecrypt inverts the legacy scheme: it returns the 255-byte
// data_with_hash, or an error if the decrypted number does not fit 255 bytes.
func RSAHashedDecrypt(ciphertext []byte, n, d *big.Int) ([]byte, error) {
	if len(ciphertext) != 256 {
		return nil, fmt.Errorf("ref: hashed RSA ciphertext of %d bytes", len(ciphertext))
	}
	m := rsaRaw(ciphertext, d, n)
	if m[0] != 0 {
		return nil, errors.New("ref: hashed RSA plaintext does not fit 255 bytes")
	}
	return m[1:], nil
}

// RSAHashedHolds says whether dataWithHash (255 bytes) is SHA1(data) + data +
// anything.
func RSAHashedHolds(dataWithHash, data []byte) bool {
	if len(dataWithHash) != 255 || len(data) > RSAHashedDataLimit {
		return false
	}
	h := sha1.Sum(data)
	return string(dataWithHash[:20]) == string(h[:]) && string(dataWithHash[20:20+len(data)]) == string(data)
}
