// Package ref holds independent reference implementations written from the
// specification texts (stdlib only). They never call the code under test.
package ref

import (
	"encoding/binary"
	"errors"
	"math"
)

// TL primitive serialization per https://core.telegram.org/mtproto/serialize.

// ErrShort is returned by the reference readers for short/malformed input.
var ErrShort = errors.New("ref: short or malformed input")

const (
	idVector = 0x1cb5c415
	idTrue   = 0x997275b5
	idFalse  = 0xbc799737
)

// PutInt32 appends a little-endian 32-bit value.
func PutInt32(b []byte, v int32) []byte { return binary.LittleEndian.AppendUint32(b, uint32(v)) }

// PutUint32 appends a little-endian 32-bit value.
func PutUint32(b []byte, v uint32) []byte { return binary.LittleEndian.AppendUint32(b, v) }

// PutInt64 appends a little-endian 64-bit value.
func PutInt64(b []byte, v int64) []byte { return binary.LittleEndian.AppendUint64(b, uint64(v)) }

// PutDouble appends the IEEE-754 bits little-endian.
func PutDouble(b []byte, v float64) []byte {
	return binary.LittleEndian.AppendUint64(b, math.Float64bits(v))
}

// PutBool appends boolTrue / boolFalse.
func PutBool(b []byte, v bool) []byte {
	if v {
		return PutUint32(b, idTrue)
	}
	return PutUint32(b, idFalse)
}

// PutBytes appends a TL string/bytes value.
func PutBytes(b []byte, v []byte) []byte {
	l := len(v)
	var head int
	if l <= 253 {
		b = append(b, byte(l))
		head = 1
	} else {
		b = append(b, 254, byte(l), byte(l>>8), byte(l>>16))
		head = 4
	}
	b = append(b, v...)
	for (head+l)%4 != 0 {
		b = append(b, 0)
		l++
	}
	return b
}

// PutVectorHeader appends vector#1cb5c415 and the count.
func PutVectorHeader(b []byte, n int) []byte {
	b = PutUint32(b, idVector)
	return PutInt32(b, int32(n))
}

// Bytes reads a TL string/bytes value; returns value and bytes consumed.
func Bytes(b []byte) ([]byte, int, error) {
	if len(b) < 1 {
		return nil, 0, ErrShort
	}
	var l, head int
	switch {
	case b[0] == 255:
		return nil, 0, ErrShort
	case b[0] == 254:
		if len(b) < 4 {
			return nil, 0, ErrShort
		}
		l = int(b[1]) | int(b[2])<<8 | int(b[3])<<16
		head = 4
	default:
		l = int(b[0])
		head = 1
	}
	total := head + l
	for total%4 != 0 {
		total++
	}
	if len(b) < total {
		return nil, 0, ErrShort
	}
	return b[head : head+l], total, nil
}

// Int32 reads a 32-bit value.
func Int32(b []byte) (int32, int, error) {
	if len(b) < 4 {
		return 0, 0, ErrShort
	}
	return int32(binary.LittleEndian.Uint32(b)), 4, nil
}

// Int64 reads a 64-bit value.
func Int64(b []byte) (int64, int, error) {
	if len(b) < 8 {
		return 0, 0, ErrShort
	}
	return int64(binary.LittleEndian.Uint64(b)), 8, nil
}

// Bool reads boolTrue/boolFalse.
func Bool(b []byte) (bool, int, error) {
	v, _, err := Int32(b)
	if err != nil {
		return false, 0, err
	}
	switch uint32(v) {
	case idTrue:
		return true, 4, nil
	case idFalse:
		return false, 4, nil
	}
	return false, 0, ErrShort
}

// VectorHeader reads vector id + non-negative count.
func VectorHeader(b []byte) (int, int, error) {
	if len(b) < 8 {
		return 0, 0, ErrShort
	}
	if binary.LittleEndian.Uint32(b) != idVector {
		return 0, 0, ErrShort
	}
	n := int32(binary.LittleEndian.Uint32(b[4:]))
	if n < 0 {
		return 0, 0, ErrShort
	}
	return int(n), 8, nil
}
