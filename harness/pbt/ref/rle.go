package ref

// Zero run-length encoding used by Telegram Bot-API file ids (TDLib
// zero_encode / zero_decode): every run of zero bytes is written as the pair
// (0x00, n) with 1 <= n <= 255 standing for n zero bytes; runs longer than one
// pair can hold are split into several pairs. Non-zero bytes are literal.

// RLEDecode expands (0x00, n) pairs. A lone trailing 0x00 (no count byte) is
// kept as one literal zero byte, as TDLib does.
func RLEDecode(in []byte) []byte {
	var out []byte
	for i := 0; i < len(in); i++ {
		if in[i] == 0 && i+1 < len(in) {
			for n := int(in[i+1]); n > 0; n-- {
				out = append(out, 0)
			}
			i++
			continue
		}
		out = append(out, in[i])
	}
	return out
}

// RLEEncode is the inverse for every input: RLEDecode(RLEEncode(x)) == x.
func RLEEncode(in []byte) []byte {
	var out []byte
	for i := 0; i < len(in); {
		if in[i] != 0 {
			out = append(out, in[i])
			i++
			continue
		}
		n := 0
		for i < len(in) && in[i] == 0 && n < 255 {
			n++
			i++
		}
		out = append(out, 0, byte(n))
	}
	return out
}

// MaxZeroRun returns the length of the longest run of zero bytes.
func MaxZeroRun(in []byte) int {
	best, cur := 0, 0
	for _, c := range in {
		if c == 0 {
			cur++
			if cur > best {
				best = cur
			}
		} else {
			cur = 0
		}
	}
	return best
}
