package ref

// Reference MTProto transport framing, obfuscated2 key schedule and FakeTLS
// record layer, written from
//
//	https://core.telegram.org/mtproto/mtproto-transports
//	(sections Abridged, Intermediate, Padded intermediate, Full,
//	 Transport errors, Transport obfuscation)
//
// and, for FakeTLS, from the MTProxy / TDLib description (TlsInit.cpp:
// "response = 16 03 03 len .. | 14 03 03 00 01 01 | 17 03 03 len ..; the 32
// bytes at offset 11 are HMAC-SHA256(secret, client_random || response with
// those 32 bytes zeroed)"; data then travels in 17 03 03 len records, the
// client's first record is preceded by a dummy 14 03 03 00 01 01).
//
// Stdlib only; nothing here calls gotd/td.

import (
	"crypto/aes"
	"crypto/cipher"
	"crypto/hmac"
	"crypto/sha256"
	"encoding/binary"
	"errors"
	"hash/crc32"
)

// FrameProto names one of the four TCP transports.
type FrameProto int

const (
	FrameAbridged FrameProto = iota
	FrameIntermediate
	FramePadded
	FrameFull
)

func (p FrameProto) String() string {
	switch p {
	case FrameAbridged:
		return "abridged"
	case FrameIntermediate:
		return "intermediate"
	case FramePadded:
		return "padded"
	case FrameFull:
		return "full"
	}
	return "?"
}

// FrameLimit is the largest frame the client side accepts or sends (TDLib's
// TcpTransport uses 1<<24 as well).
const FrameLimit = 1 << 24

// FrameHeader returns the bytes a client sends once before its first frame
// (nothing for the full transport).
func FrameHeader(p FrameProto) []byte {
	switch p {
	case FrameAbridged:
		return []byte{0xef}
	case FrameIntermediate:
		return []byte{0xee, 0xee, 0xee, 0xee}
	case FramePadded:
		return []byte{0xdd, 0xdd, 0xdd, 0xdd}
	}
	return nil
}

// FrameObfTag returns the 4-byte protocol identifier placed in the
// obfuscated2 init payload (abridged repeats 0xef four times).
func FrameObfTag(p FrameProto) [4]byte {
	switch p {
	case FrameAbridged:
		return [4]byte{0xef, 0xef, 0xef, 0xef}
	case FrameIntermediate:
		return [4]byte{0xee, 0xee, 0xee, 0xee}
	case FramePadded:
		return [4]byte{0xdd, 0xdd, 0xdd, 0xdd}
	}
	return [4]byte{}
}

// AppendFrame appends one frame carrying payload. seq is the per-direction
// packet counter (full transport only); padding is appended after the payload
// (padded intermediate only, 0..15 bytes per the document).
func AppendFrame(dst []byte, p FrameProto, seq uint32, payload, padding []byte) []byte {
	switch p {
	case FrameAbridged:
		// length in 4-byte words: one byte if < 0x7f, else 0x7f + 3 bytes LE.
		w := len(payload) / 4
		if w < 0x7f {
			dst = append(dst, byte(w))
		} else {
			dst = append(dst, 0x7f, byte(w), byte(w>>8), byte(w>>16))
		}
		return append(dst, payload...)
	case FrameIntermediate:
		dst = binary.LittleEndian.AppendUint32(dst, uint32(len(payload)))
		return append(dst, payload...)
	case FramePadded:
		dst = binary.LittleEndian.AppendUint32(dst, uint32(len(payload)+len(padding)))
		dst = append(dst, payload...)
		return append(dst, padding...)
	case FrameFull:
		start := len(dst)
		dst = binary.LittleEndian.AppendUint32(dst, uint32(len(payload)+12))
		dst = binary.LittleEndian.AppendUint32(dst, seq)
		dst = append(dst, payload...)
		return binary.LittleEndian.AppendUint32(dst, crc32.ChecksumIEEE(dst[start:]))
	}
	panic("ref: unknown transport")
}

// Frame is one parsed frame.
type Frame struct {
	// Body is what follows the length prefix (and seqno): for padded
	// intermediate it still includes the padding, which the framing itself
	// cannot separate from the payload.
	Body []byte
	// Start, PrefixLen: position of the length prefix in the parsed input.
	Start, PrefixLen int
	// End is the offset just after the frame (after CRC for full).
	End int
}

// Errors of the reference reader.
var (
	// ErrFrameTruncated: input ends inside a prefix or a frame.
	ErrFrameTruncated = errors.New("ref: truncated frame")
	// ErrFrameMalformed: the document gives the bytes no meaning for a
	// server-to-client frame (zero length, over the limit, full transport
	// length < 12 or unaligned, wrong seqno/crc, abridged first byte with the
	// high bit set).
	ErrFrameMalformed = errors.New("ref: malformed frame")
)

// ReadFrame parses one frame at in[off:]. seq is the expected full-transport
// sequence number.
func ReadFrame(p FrameProto, in []byte, off int, seq uint32) (Frame, error) {
	rest := in[off:]
	f := Frame{Start: off}
	need := func(n int) bool { return len(rest) >= n }
	switch p {
	case FrameAbridged:
		if !need(1) {
			return f, ErrFrameTruncated
		}
		var words int
		switch {
		case rest[0] < 0x7f:
			words, f.PrefixLen = int(rest[0]), 1
		case rest[0] == 0x7f:
			if !need(4) {
				return f, ErrFrameTruncated
			}
			words, f.PrefixLen = int(rest[1])|int(rest[2])<<8|int(rest[3])<<16, 4
		default:
			return f, ErrFrameMalformed
		}
		n := words * 4
		if n == 0 || n > FrameLimit {
			return f, ErrFrameMalformed
		}
		if !need(f.PrefixLen + n) {
			return f, ErrFrameTruncated
		}
		f.Body = rest[f.PrefixLen : f.PrefixLen+n]
		f.End = off + f.PrefixLen + n
		return f, nil
	case FrameIntermediate, FramePadded:
		if !need(4) {
			return f, ErrFrameTruncated
		}
		f.PrefixLen = 4
		n64 := uint64(binary.LittleEndian.Uint32(rest))
		if n64 == 0 || n64 > FrameLimit {
			return f, ErrFrameMalformed
		}
		n := int(n64)
		if !need(4 + n) {
			return f, ErrFrameTruncated
		}
		f.Body = rest[4 : 4+n]
		f.End = off + 4 + n
		return f, nil
	case FrameFull:
		if !need(4) {
			return f, ErrFrameTruncated
		}
		f.PrefixLen = 4
		n64 := uint64(binary.LittleEndian.Uint32(rest))
		if n64 < 12 || n64 > FrameLimit || n64%4 != 0 {
			return f, ErrFrameMalformed
		}
		n := int(n64)
		if !need(n) {
			return f, ErrFrameTruncated
		}
		if binary.LittleEndian.Uint32(rest[4:]) != seq {
			return f, ErrFrameMalformed
		}
		if crc32.ChecksumIEEE(rest[:n-4]) != binary.LittleEndian.Uint32(rest[n-4:]) {
			return f, ErrFrameMalformed
		}
		f.Body = rest[8 : n-4]
		f.End = off + n
		return f, nil
	}
	panic("ref: unknown transport")
}

// ReadFrames parses a whole stream (optionally starting with the client
// header) into frames; the stream must end exactly at a frame boundary.
func ReadFrames(p FrameProto, in []byte, withHeader bool) ([]Frame, error) {
	off := 0
	if withHeader {
		h := FrameHeader(p)
		if len(in) < len(h) {
			return nil, ErrFrameTruncated
		}
		for i := range h {
			if in[i] != h[i] {
				return nil, ErrFrameMalformed
			}
		}
		off = len(h)
	}
	var out []Frame
	for seq := uint32(0); off < len(in); seq++ {
		f, err := ReadFrame(p, in, off, seq)
		if err != nil {
			return out, err
		}
		out = append(out, f)
		off = f.End
	}
	return out, nil
}

// TransportErrorCode interprets a 4-byte frame body as a transport error:
// the body is the negated error code as a little-endian int32.
func TransportErrorCode(body []byte) (int32, bool) {
	if len(body) != 4 {
		return 0, false
	}
	return -int32(binary.LittleEndian.Uint32(body)), true
}

// ---------------------------------------------------------------------------
// obfuscated2

// Obf2Reserved reports whether a 64-byte init payload starts with a pattern
// the document forbids (it would be mistaken for an unobfuscated transport
// or for HTTP/TLS).
func Obf2Reserved(init []byte) bool {
	if init[0] == 0xef {
		return true
	}
	switch binary.LittleEndian.Uint32(init[0:4]) {
	case 0x44414548, // HEAD
		0x54534f50, // POST
		0x20544547, // GET
		0x4954504f, // OPTI
		0x02010316, // TLS handshake record
		0xdddddddd,
		0xeeeeeeee:
		return true
	}
	return binary.LittleEndian.Uint32(init[4:8]) == 0
}

func framingReverse(b []byte) []byte {
	out := make([]byte, len(b))
	for i := range b {
		out[len(b)-1-i] = b[i]
	}
	return out
}

func framingCTR(key, iv []byte) cipher.Stream {
	blk, err := aes.NewCipher(key)
	if err != nil {
		panic(err)
	}
	return cipher.NewCTR(blk, iv)
}

// Obf2Streams derives, from the 64 bytes the client put on the wire, the
// AES-256-CTR stream for client-to-server data (starting at wire offset 0,
// i.e. it also covers the 64 header bytes) and the one for server-to-client
// data. secret is nil/empty or the 16-byte proxy secret.
//
//	encrypt key = init[8:40], iv = init[40:56]
//	decrypt key/iv = the same slices of the byte-reversed init
//	with a secret: key = SHA256(key || secret)
func Obf2Streams(header []byte, secret []byte) (c2s, s2c cipher.Stream) {
	ek := append([]byte(nil), header[8:40]...)
	eiv := append([]byte(nil), header[40:56]...)
	rev := framingReverse(header[:64])
	dk := append([]byte(nil), rev[8:40]...)
	div := append([]byte(nil), rev[40:56]...)
	if len(secret) > 0 {
		h := sha256.Sum256(append(append([]byte(nil), ek...), secret...))
		ek = h[:]
		h2 := sha256.Sum256(append(append([]byte(nil), dk...), secret...))
		dk = h2[:]
	}
	return framingCTR(ek, eiv), framingCTR(dk, div)
}

// Obf2Open decrypts everything the client sent (header included) and returns
// the protocol tag, the DC id and the plaintext that follows the header.
func Obf2Open(c2sWire []byte, secret []byte) (tag [4]byte, dc int16, data []byte, ok bool) {
	if len(c2sWire) < 64 {
		return tag, 0, nil, false
	}
	c2s, _ := Obf2Streams(c2sWire[:64], secret)
	plain := make([]byte, len(c2sWire))
	c2s.XORKeyStream(plain, c2sWire)
	copy(tag[:], plain[56:60])
	dc = int16(binary.LittleEndian.Uint16(plain[60:62]))
	return tag, dc, plain[64:], true
}

// Obf2OpenReply decrypts what the server sent back.
func Obf2OpenReply(header []byte, secret []byte, s2cWire []byte) []byte {
	_, s2c := Obf2Streams(header, secret)
	plain := make([]byte, len(s2cWire))
	s2c.XORKeyStream(plain, s2cWire)
	return plain
}

// ---------------------------------------------------------------------------
// FakeTLS

// TLS record content types used by FakeTLS.
const (
	TLSChangeCipherSpec = 0x14
	TLSHandshake        = 0x16
	TLSApplication      = 0x17
)

// TLSRecord is one record as found on the wire.
type TLSRecord struct {
	Type    byte
	Version [2]byte
	Data    []byte
}

// ErrTLSRecord is returned when the bytes are not a sequence of whole records.
var ErrTLSRecord = errors.New("ref: malformed or truncated TLS record")

// ReadTLSRecords splits a byte stream into records: type(1) version(2)
// length(2, big endian) data(length). Version major must be 3. The stream
// must end at a record boundary.
func ReadTLSRecords(in []byte) ([]TLSRecord, error) {
	var out []TLSRecord
	for len(in) > 0 {
		if len(in) < 5 {
			return out, ErrTLSRecord
		}
		if in[1] != 3 || in[2] > 4 {
			return out, ErrTLSRecord
		}
		n := int(binary.BigEndian.Uint16(in[3:5]))
		if len(in) < 5+n {
			return out, ErrTLSRecord
		}
		out = append(out, TLSRecord{Type: in[0], Version: [2]byte{in[1], in[2]}, Data: in[5 : 5+n]})
		in = in[5+n:]
	}
	return out, nil
}

// AppendTLSRecord appends one record (len(data) must fit 16 bits).
func AppendTLSRecord(dst []byte, typ byte, data []byte) []byte {
	if len(data) > 0xffff {
		panic("ref: TLS record too long")
	}
	dst = append(dst, typ, 3, 3, byte(len(data)>>8), byte(len(data)))
	return append(dst, data...)
}

// FakeTLSAppData returns the concatenated application data of a FakeTLS
// data stream: application records carry data, ChangeCipherSpec records are
// dummies, anything else is an error.
func FakeTLSAppData(in []byte) (data []byte, records []TLSRecord, err error) {
	records, err = ReadTLSRecords(in)
	if err != nil {
		return nil, records, err
	}
	data = make([]byte, 0, len(in))
	for _, r := range records {
		switch r.Type {
		case TLSApplication:
			data = append(data, r.Data...)
		case TLSChangeCipherSpec:
		default:
			return nil, records, ErrTLSRecord
		}
	}
	return data, records, nil
}

// FakeTLSClientRandom extracts the 32-byte random of a ClientHello record
// (5 bytes record header, 1 type, 3 length, 2 version => offset 11).
func FakeTLSClientRandom(hello []byte) (r [32]byte, ok bool) {
	if len(hello) < 43 || hello[0] != TLSHandshake || hello[5] != 0x01 {
		return r, false
	}
	copy(r[:], hello[11:43])
	return r, true
}

// FakeTLSClientHelloDigestOK checks the client side of the handshake the way
// an MTProxy does: HMAC-SHA256(secret, hello with random zeroed) must equal
// the random in its first 28 bytes; the last 4 bytes xor the digest give the
// little-endian unix time, returned.
func FakeTLSClientHelloDigestOK(hello, secret []byte) (unix uint32, ok bool) {
	r, good := FakeTLSClientRandom(hello)
	if !good {
		return 0, false
	}
	z := append([]byte(nil), hello...)
	for i := 11; i < 43; i++ {
		z[i] = 0
	}
	m := hmac.New(sha256.New, secret)
	m.Write(z)
	d := m.Sum(nil)
	if !hmac.Equal(d[:28], r[:28]) {
		return 0, false
	}
	return binary.LittleEndian.Uint32(d[28:]) ^ binary.LittleEndian.Uint32(r[28:]), true
}

// FakeTLSServerHello builds the server's reply: a handshake record with
// body hsBody (>= 38 bytes so that the digest slot at offset 11..43 lies in
// it), extra further handshake records, the dummy ChangeCipherSpec and one
// application record with appData. The digest slot is filled with
// HMAC-SHA256(secret, clientRandom || reply-with-zero-slot).
func FakeTLSServerHello(secret []byte, clientRandom [32]byte, hsBody []byte, extra [][]byte, appData []byte) []byte {
	if len(hsBody) < 38 {
		panic("ref: server hello body too short")
	}
	body := append([]byte(nil), hsBody...)
	for i := 6; i < 38; i++ {
		body[i] = 0
	}
	var out []byte
	out = AppendTLSRecord(out, TLSHandshake, body)
	for _, e := range extra {
		out = AppendTLSRecord(out, TLSHandshake, e)
	}
	out = AppendTLSRecord(out, TLSChangeCipherSpec, []byte{1})
	out = AppendTLSRecord(out, TLSApplication, appData)
	copy(out[11:43], FakeTLSServerDigest(secret, clientRandom, out))
	return out
}

// FakeTLSServerDigest computes the digest for a reply (the slot content is
// ignored).
func FakeTLSServerDigest(secret []byte, clientRandom [32]byte, reply []byte) []byte {
	z := append([]byte(nil), reply...)
	for i := 11; i < 43 && i < len(z); i++ {
		z[i] = 0
	}
	m := hmac.New(sha256.New, secret)
	m.Write(clientRandom[:])
	m.Write(z)
	return m.Sum(nil)
}
