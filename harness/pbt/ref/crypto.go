package ref

// Reference MTProto cryptography written from the specification texts
// (core.telegram.org/mtproto/description, /description_v1, /api/pfs),
// standard library only. Nothing here calls gotd/td or gotd/ige.

import (
	"crypto/aes"
	"crypto/sha1"
	"crypto/sha256"
	"encoding/binary"
	"errors"
	"fmt"
	"math/big"
)

// ---------------------------------------------------------------------------
// AES-IGE (Infinite Garble Extension), from the definition:
//
//	c_i = E_K(p_i XOR c_{i-1}) XOR p_{i-1}
//	p_i = D_K(c_i XOR p_{i-1}) XOR c_{i-1}
//
// with c_0 = iv[0:16] and p_0 = iv[16:32] (the convention MTProto and OpenSSL
// use for the 32-byte IV).
// ---------------------------------------------------------------------------

// IGEEncrypt encrypts plaintext (length multiple of 16) with an AES key of 16,
// 24 or 32 bytes and a 32-byte IV. It panics on malformed arguments.
func IGEEncrypt(key, iv, plaintext []byte) []byte {
	if len(iv) != 32 || len(plaintext)%16 != 0 {
		panic(fmt.Sprintf("ref.IGEEncrypt: iv %d bytes, data %d bytes", len(iv), len(plaintext)))
	}
	blk, err := aes.NewCipher(key)
	if err != nil {
		panic(err)
	}
	out := make([]byte, len(plaintext))
	var cPrev, pPrev, tmp [16]byte
	copy(cPrev[:], iv[:16])
	copy(pPrev[:], iv[16:])
	for off := 0; off < len(plaintext); off += 16 {
		p := plaintext[off : off+16]
		for i := 0; i < 16; i++ {
			tmp[i] = p[i] ^ cPrev[i]
		}
		blk.Encrypt(tmp[:], tmp[:])
		for i := 0; i < 16; i++ {
			tmp[i] ^= pPrev[i]
		}
		copy(out[off:], tmp[:])
		copy(cPrev[:], tmp[:])
		copy(pPrev[:], p)
	}
	return out
}

// IGEDecrypt is the inverse of IGEEncrypt.
func IGEDecrypt(key, iv, ciphertext []byte) []byte {
	if len(iv) != 32 || len(ciphertext)%16 != 0 {
		panic(fmt.Sprintf("ref.IGEDecrypt: iv %d bytes, data %d bytes", len(iv), len(ciphertext)))
	}
	blk, err := aes.NewCipher(key)
	if err != nil {
		panic(err)
	}
	out := make([]byte, len(ciphertext))
	var cPrev, pPrev, tmp [16]byte
	copy(cPrev[:], iv[:16])
	copy(pPrev[:], iv[16:])
	for off := 0; off < len(ciphertext); off += 16 {
		c := ciphertext[off : off+16]
		for i := 0; i < 16; i++ {
			tmp[i] = c[i] ^ pPrev[i]
		}
		blk.Decrypt(tmp[:], tmp[:])
		for i := 0; i < 16; i++ {
			tmp[i] ^= cPrev[i]
		}
		copy(out[off:], tmp[:])
		copy(pPrev[:], tmp[:])
		copy(cPrev[:], c)
	}
	return out
}

// ---------------------------------------------------------------------------
// Key identifiers and key derivation.
// ---------------------------------------------------------------------------

// AuthKeyID is the 64 lower-order bits of SHA1(auth_key), i.e. bytes 12..20.
func AuthKeyID(key [256]byte) [8]byte {
	h := sha1.Sum(key[:])
	var id [8]byte
	copy(id[:], h[12:20])
	return id
}

// AuthKeyAuxHash is the 64 higher-order bits of SHA1(auth_key).
func AuthKeyAuxHash(key [256]byte) [8]byte {
	h := sha1.Sum(key[:])
	var id [8]byte
	copy(id[:], h[0:8])
	return id
}

func xOf(fromServer bool) int {
	// "x = 0 for messages from client to server and x = 8 for those from
	// server to client."
	if fromServer {
		return 8
	}
	return 0
}

func concatBytes(parts ...[]byte) []byte {
	var out []byte
	for _, p := range parts {
		out = append(out, p...)
	}
	return out
}

// MsgKeyV2: msg_key_large = SHA256(substr(auth_key, 88+x, 32) + plaintext +
// random_padding); msg_key = substr(msg_key_large, 8, 16).
func MsgKeyV2(authKey [256]byte, plaintextPadded []byte, fromServer bool) [16]byte {
	x := xOf(fromServer)
	h := sha256.New()
	h.Write(authKey[88+x : 88+x+32])
	h.Write(plaintextPadded)
	large := h.Sum(nil)
	var k [16]byte
	copy(k[:], large[8:24])
	return k
}

// KDFv2 derives aes_key and aes_iv per MTProto 2.0:
//
//	sha256_a = SHA256(msg_key + substr(auth_key, x, 36))
//	sha256_b = SHA256(substr(auth_key, 40+x, 36) + msg_key)
//	aes_key = substr(sha256_a, 0, 8) + substr(sha256_b, 8, 16) + substr(sha256_a, 24, 8)
//	aes_iv  = substr(sha256_b, 0, 8) + substr(sha256_a, 8, 16) + substr(sha256_b, 24, 8)
func KDFv2(authKey [256]byte, msgKey [16]byte, fromServer bool) (key, iv [32]byte) {
	x := xOf(fromServer)
	a := sha256.Sum256(concatBytes(msgKey[:], authKey[x:x+36]))
	b := sha256.Sum256(concatBytes(authKey[40+x:40+x+36], msgKey[:]))
	copy(key[:], concatBytes(a[0:8], b[8:24], a[24:32]))
	copy(iv[:], concatBytes(b[0:8], a[8:24], b[24:32]))
	return key, iv
}

// MsgKeyV1: the 128 lower-order bits of SHA1 of the plaintext (without
// padding): substr(SHA1(plaintext), 4, 16).
func MsgKeyV1(plaintext []byte) [16]byte {
	h := sha1.Sum(plaintext)
	var k [16]byte
	copy(k[:], h[4:20])
	return k
}

// KDFv1 derives aes_key and aes_iv per MTProto 1.0:
//
//	sha1_a = SHA1(msg_key + substr(auth_key, x, 32))
//	sha1_b = SHA1(substr(auth_key, 32+x, 16) + msg_key + substr(auth_key, 48+x, 16))
//	sha1_c = SHA1(substr(auth_key, 64+x, 32) + msg_key)
//	sha1_d = SHA1(msg_key + substr(auth_key, 96+x, 32))
//	aes_key = substr(sha1_a, 0, 8) + substr(sha1_b, 8, 12) + substr(sha1_c, 4, 12)
//	aes_iv  = substr(sha1_a, 8, 12) + substr(sha1_b, 0, 8) + substr(sha1_c, 16, 4) + substr(sha1_d, 0, 8)
func KDFv1(authKey [256]byte, msgKey [16]byte, fromServer bool) (key, iv [32]byte) {
	x := xOf(fromServer)
	a := sha1.Sum(concatBytes(msgKey[:], authKey[x:x+32]))
	b := sha1.Sum(concatBytes(authKey[32+x:48+x], msgKey[:], authKey[48+x:64+x]))
	c := sha1.Sum(concatBytes(authKey[64+x:96+x], msgKey[:]))
	d := sha1.Sum(concatBytes(msgKey[:], authKey[96+x:128+x]))
	copy(key[:], concatBytes(a[0:8], b[8:20], c[4:16]))
	copy(iv[:], concatBytes(a[8:20], b[0:8], c[16:20], d[0:8]))
	return key, iv
}

// ---------------------------------------------------------------------------
// MTProto 2.0 encrypted message.
//
// wire = auth_key_id(8) | msg_key(16) | AES-IGE(salt(8) | session_id(8) |
//        msg_id(8) | seq_no(4) | message_data_length(4) | message_data | padding)
// ---------------------------------------------------------------------------

// Errors of DecryptMessage.
var (
	ErrWireShort   = errors.New("ref: encrypted message shorter than 24 bytes")
	ErrWireAlign   = errors.New("ref: encrypted body is not a multiple of 16 bytes")
	ErrWireKeyID   = errors.New("ref: auth_key_id does not match the key")
	ErrWireMsgKey  = errors.New("ref: msg_key does not match SHA256 of the plaintext")
	ErrWireHeader  = errors.New("ref: decrypted body shorter than the 32-byte header")
	ErrWireDataLen = errors.New("ref: message_data_length is negative or exceeds the body")
)

// EncryptMessage produces the wire form of one MTProto 2.0 message.
// serverSide says who encrypts (true: server->client, x = 8). padding is the
// caller-chosen padding (the specification asks for 12..1024 random bytes; the
// function only insists that 32+len(payload)+len(padding) is a multiple of
// 16 and panics otherwise, so callers can build out-of-spec paddings).
func EncryptMessage(authKey [256]byte, serverSide bool, salt, session, msgID int64, seqNo int32, payload []byte, padding []byte) []byte {
	return EncryptMessageLen(authKey, serverSide, salt, session, msgID, seqNo, int32(len(payload)), concatBytes(payload, padding))
}

// EncryptMessageLen is EncryptMessage with an explicit message_data_length
// field and the bytes after the header given verbatim (for hostile peers).
func EncryptMessageLen(authKey [256]byte, serverSide bool, salt, session, msgID int64, seqNo int32, dataLen int32, dataWithPadding []byte) []byte {
	plain := make([]byte, 0, 32+len(dataWithPadding))
	plain = binary.LittleEndian.AppendUint64(plain, uint64(salt))
	plain = binary.LittleEndian.AppendUint64(plain, uint64(session))
	plain = binary.LittleEndian.AppendUint64(plain, uint64(msgID))
	plain = binary.LittleEndian.AppendUint32(plain, uint32(seqNo))
	plain = binary.LittleEndian.AppendUint32(plain, uint32(dataLen))
	plain = append(plain, dataWithPadding...)
	if len(plain)%16 != 0 {
		panic(fmt.Sprintf("ref.EncryptMessage: plaintext of %d bytes is not block aligned", len(plain)))
	}
	msgKey := MsgKeyV2(authKey, plain, serverSide)
	key, iv := KDFv2(authKey, msgKey, serverSide)
	id := AuthKeyID(authKey)
	wire := make([]byte, 0, 24+len(plain))
	wire = append(wire, id[:]...)
	wire = append(wire, msgKey[:]...)
	wire = append(wire, IGEEncrypt(key[:], iv[:], plain)...)
	return wire
}

// DecryptMessage parses and authenticates one wire message. fromServer says
// who encrypted it (true: it came from the server, x = 8). It enforces what
// makes the message authentic and parseable (key id, block alignment, msg_key
// equal to the SHA256 recomputation, 0 <= message_data_length <= body); the
// padding length is returned for the caller to judge (12..1024 per the
// specification), as is divisibility of the length by 4.
func DecryptMessage(authKey [256]byte, fromServer bool, wire []byte) (salt, session, msgID int64, seqNo int32, payload []byte, paddingLen int, err error) {
	if len(wire) < 24 {
		err = ErrWireShort
		return
	}
	id := AuthKeyID(authKey)
	if string(wire[:8]) != string(id[:]) {
		err = ErrWireKeyID
		return
	}
	body := wire[24:]
	if len(body)%16 != 0 {
		err = ErrWireAlign
		return
	}
	var msgKey [16]byte
	copy(msgKey[:], wire[8:24])
	key, iv := KDFv2(authKey, msgKey, fromServer)
	plain := IGEDecrypt(key[:], iv[:], body)
	if MsgKeyV2(authKey, plain, fromServer) != msgKey {
		err = ErrWireMsgKey
		return
	}
	if len(plain) < 32 {
		err = ErrWireHeader
		return
	}
	salt = int64(binary.LittleEndian.Uint64(plain[0:]))
	session = int64(binary.LittleEndian.Uint64(plain[8:]))
	msgID = int64(binary.LittleEndian.Uint64(plain[16:]))
	seqNo = int32(binary.LittleEndian.Uint32(plain[24:]))
	n := int32(binary.LittleEndian.Uint32(plain[28:]))
	if n < 0 || int(n) > len(plain)-32 {
		err = ErrWireDataLen
		return
	}
	payload = plain[32 : 32+int(n)]
	paddingLen = len(plain) - 32 - int(n)
	return
}

// ---------------------------------------------------------------------------
// Special binding message (core.telegram.org/api/pfs): MTProto 1.0 envelope
//
//	perm_auth_key_id(8) | msg_key(16) | AES-IGE_v1(random(16) | msg_id(8) |
//	seq_no(4) = 0 | msg_len(4) | bind_auth_key_inner | 0..15 padding bytes)
//
// with msg_key = substr(SHA1(envelope without padding), 4, 16) and the v1 KDF
// with x = 0 over the permanent key.
// ---------------------------------------------------------------------------

// BindInner is bind_auth_key_inner#75a3f765.
type BindInner struct {
	Nonce         int64
	TempAuthKeyID int64
	PermAuthKeyID int64
	TempSessionID int64
	ExpiresAt     int32
}

// BindMessage is what DecryptBindMessage recovers.
type BindMessage struct {
	Random     [16]byte
	MsgID      int64
	SeqNo      int32
	MsgLen     int32
	Inner      BindInner
	PaddingLen int
}

// DecryptBindMessage decrypts and checks the binding message under permKey.
func DecryptBindMessage(permKey [256]byte, wire []byte) (BindMessage, error) {
	var m BindMessage
	if len(wire) < 24 || (len(wire)-24)%16 != 0 {
		return m, fmt.Errorf("ref: bind message has bad length %d", len(wire))
	}
	id := AuthKeyID(permKey)
	if string(wire[:8]) != string(id[:]) {
		return m, ErrWireKeyID
	}
	var msgKey [16]byte
	copy(msgKey[:], wire[8:24])
	key, iv := KDFv1(permKey, msgKey, false)
	plain := IGEDecrypt(key[:], iv[:], wire[24:])
	if len(plain) < 32 {
		return m, ErrWireHeader
	}
	copy(m.Random[:], plain[:16])
	m.MsgID = int64(binary.LittleEndian.Uint64(plain[16:]))
	m.SeqNo = int32(binary.LittleEndian.Uint32(plain[24:]))
	m.MsgLen = int32(binary.LittleEndian.Uint32(plain[28:]))
	if m.MsgLen < 0 || int(m.MsgLen) > len(plain)-32 {
		return m, ErrWireDataLen
	}
	m.PaddingLen = len(plain) - 32 - int(m.MsgLen)
	if MsgKeyV1(plain[:32+int(m.MsgLen)]) != msgKey {
		return m, errors.New("ref: bind msg_key is not SHA1(envelope without padding)[4:20]")
	}
	body := plain[32 : 32+int(m.MsgLen)]
	if len(body) != 4+8*4+4 {
		return m, fmt.Errorf("ref: bind_auth_key_inner has %d bytes, want 40", len(body))
	}
	if binary.LittleEndian.Uint32(body) != 0x75a3f765 {
		return m, fmt.Errorf("ref: bind_auth_key_inner has constructor %#x", binary.LittleEndian.Uint32(body))
	}
	m.Inner.Nonce = int64(binary.LittleEndian.Uint64(body[4:]))
	m.Inner.TempAuthKeyID = int64(binary.LittleEndian.Uint64(body[12:]))
	m.Inner.PermAuthKeyID = int64(binary.LittleEndian.Uint64(body[20:]))
	m.Inner.TempSessionID = int64(binary.LittleEndian.Uint64(body[28:]))
	m.Inner.ExpiresAt = int32(binary.LittleEndian.Uint32(body[36:]))
	return m, nil
}

// ---------------------------------------------------------------------------
// Key-exchange answers: answer_with_hash = SHA1(answer) + answer + (0-15
// random bytes) such that the length is divisible by 16, AES-256-IGE under
// tmp_aes_key / tmp_aes_iv (core.telegram.org/mtproto/auth_key, step 5/6).
// ---------------------------------------------------------------------------

// ExchangeAnswerPlain decrypts an exchange answer (no interpretation).
func ExchangeAnswerPlain(ciphertext, key, iv []byte) []byte {
	return IGEDecrypt(key, iv, ciphertext)
}

// ExchangeAnswerData says whether data is an authentic content of the
// decrypted answer_with_hash: SHA1(data) equals the first 20 bytes, data is a
// prefix of the remainder and at most 15 bytes of padding follow it.
func ExchangeAnswerData(plain, data []byte) bool {
	if len(plain) < 20 || len(data) > len(plain)-20 {
		return false
	}
	pad := len(plain) - 20 - len(data)
	if pad < 0 || pad > 15 {
		return false
	}
	if string(plain[20:20+len(data)]) != string(data) {
		return false
	}
	h := sha1.Sum(data)
	return string(h[:]) == string(plain[:20])
}

// ExchangeAnswerAuthentic says whether plain admits ANY data with 0..15 bytes
// of padding whose SHA1 is the 20-byte prefix.
func ExchangeAnswerAuthentic(plain []byte) bool {
	if len(plain) < 20 {
		return false
	}
	for pad := 0; pad <= 15 && pad <= len(plain)-20; pad++ {
		h := sha1.Sum(plain[20 : len(plain)-pad])
		if string(h[:]) == string(plain[:20]) {
			return true
		}
	}
	return false
}

// TempAESKeys per auth_key step 5:
//
//	tmp_aes_key = SHA1(new_nonce + server_nonce) + substr(SHA1(server_nonce + new_nonce), 0, 12)
//	tmp_aes_iv  = substr(SHA1(server_nonce + new_nonce), 12, 8) + SHA1(new_nonce + new_nonce) + substr(new_nonce, 0, 4)
//
// newNonce is the 32-byte and serverNonce the 16-byte nonce as serialized.
func TempAESKeys(newNonce [32]byte, serverNonce [16]byte) (key, iv [32]byte) {
	ns := sha1.Sum(concatBytes(newNonce[:], serverNonce[:]))
	sn := sha1.Sum(concatBytes(serverNonce[:], newNonce[:]))
	nn := sha1.Sum(concatBytes(newNonce[:], newNonce[:]))
	copy(key[:], concatBytes(ns[:], sn[0:12]))
	copy(iv[:], concatBytes(sn[12:20], nn[:], newNonce[0:4]))
	return key, iv
}

// ---------------------------------------------------------------------------
// Number theory helpers for the DH / pq checks.
// ---------------------------------------------------------------------------

// IsQuadraticResidue is Euler's criterion for an odd prime p and g not
// divisible by p: g is a quadratic residue mod p iff g^((p-1)/2) = 1 (mod p).
// (For g = 0 mod p the power is 0 and the answer is false.)
func IsQuadraticResidue(g, p *big.Int) bool {
	e := new(big.Int).Sub(p, big.NewInt(1))
	e.Rsh(e, 1)
	gm := new(big.Int).Mod(g, p)
	return new(big.Int).Exp(gm, e, p).Cmp(big.NewInt(1)) == 0
}

// SievePrimes returns all primes < limit (sieve of Eratosthenes).
func SievePrimes(limit int) []int {
	if limit < 3 {
		return nil
	}
	composite := make([]bool, limit)
	var primes []int
	for i := 2; i < limit; i++ {
		if composite[i] {
			continue
		}
		primes = append(primes, i)
		for j := i * i; j < limit; j += i {
			composite[j] = true
		}
	}
	return primes
}

// SafePrimesBelow returns all safe primes p < limit (p and (p-1)/2 prime),
// starting with 5.
func SafePrimesBelow(limit int) []int {
	primes := SievePrimes(limit)
	isPrime := make([]bool, limit)
	for _, p := range primes {
		isPrime[p] = true
	}
	var out []int
	for _, p := range primes {
		if p >= 5 && isPrime[(p-1)/2] {
			out = append(out, p)
		}
	}
	return out
}

// PrimesInWindow returns the primes in [lo, hi) by a segmented sieve with
// the base primes up to sqrt(hi). hi must be below 2^63 and hi-lo moderate.
func PrimesInWindow(lo, hi uint64) []uint64 {
	if hi <= lo {
		return nil
	}
	if lo < 2 {
		lo = 2
	}
	root := uint64(1)
	for (root+1)*(root+1) < hi {
		root++
	}
	base := SievePrimes(int(root) + 2)
	composite := make([]bool, hi-lo)
	for _, bp := range base {
		p := uint64(bp)
		if p*p >= hi {
			break
		}
		start := (lo + p - 1) / p * p
		if start < p*p {
			start = p * p
		}
		for m := start; m < hi; m += p {
			composite[m-lo] = true
		}
	}
	var out []uint64
	for i, c := range composite {
		if !c {
			out = append(out, lo+uint64(i))
		}
	}
	return out
}

// IsPrimeTrial is trial division (for n below about 2^40).
func IsPrimeTrial(n uint64) bool {
	if n < 2 {
		return false
	}
	if n%2 == 0 {
		return n == 2
	}
	for d := uint64(3); d*d <= n; d += 2 {
		if n%d == 0 {
			return false
		}
	}
	return true
}
