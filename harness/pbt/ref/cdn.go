package ref

import (
	"crypto/aes"
	"crypto/cipher"
	"crypto/sha256"
	"encoding/binary"
	"fmt"
)

// Telegram CDN download rules, written from core.telegram.org/cdn
// ("Decrypting files", "Verifying files") and the upload.getCdnFile method
// page. Stdlib only; never calls gotd/td.

const (
	CDNMinChunk = 4 * 1024
	CDNMaxChunk = 1024 * 1024
	// CDNHashWindow is the window size Telegram uses for CDN file hashes.
	CDNHashWindow = 128 * 1024
)

// CDNCrypt encrypts (== decrypts) data that sits at byte offset `offset` of a
// CDN file: AES-256-CTR with encryption_key, and encryption_iv whose last 4
// bytes are replaced by offset/16 in big-endian.
func CDNCrypt(key, iv []byte, offset int64, data []byte) []byte {
	if len(key) != 32 || len(iv) != 16 {
		panic("ref.CDNCrypt: key must be 32 bytes, iv 16 bytes")
	}
	b, err := aes.NewCipher(key)
	if err != nil {
		panic(err)
	}
	ctr := append([]byte(nil), iv...)
	binary.BigEndian.PutUint32(ctr[12:], uint32(offset/16))
	out := make([]byte, len(data))
	cipher.NewCTR(b, ctr).XORKeyStream(out, data)
	return out
}

// CDNRequestValid checks one upload.getCdnFile request against the documented
// constraints: offset divisible by 4 KB, limit divisible by 4 KB, 1 MB
// divisible by limit, and offset/1MB == (offset+limit-1)/1MB.
func CDNRequestValid(offset int64, limit int) error {
	switch {
	case offset < 0:
		return fmt.Errorf("offset %d is negative", offset)
	case limit <= 0:
		return fmt.Errorf("limit %d is not positive", limit)
	case offset%CDNMinChunk != 0:
		return fmt.Errorf("offset %d is not divisible by 4096", offset)
	case limit%CDNMinChunk != 0:
		return fmt.Errorf("limit %d is not divisible by 4096", limit)
	case CDNMaxChunk%limit != 0:
		return fmt.Errorf("1048576 is not divisible by limit %d", limit)
	case offset/CDNMaxChunk != (offset+int64(limit)-1)/CDNMaxChunk:
		return fmt.Errorf("range [%d,%d) crosses a 1 MiB boundary", offset, offset+int64(limit))
	}
	return nil
}

// Range is one requested byte range.
type Range struct {
	Offset int64
	Limit  int
}

// CDNPlanCovers checks that reqs, in order, are valid CDN requests that tile
// [offset, offset+limit) exactly: first starts at offset, each next starts
// where the previous ended, the last ends at offset+limit.
func CDNPlanCovers(reqs []Range, offset int64, limit int) error {
	if len(reqs) == 0 {
		return fmt.Errorf("no CDN request for [%d,%d)", offset, offset+int64(limit))
	}
	cur := offset
	for i, r := range reqs {
		if err := CDNRequestValid(r.Offset, r.Limit); err != nil {
			return fmt.Errorf("request %d: %v", i, err)
		}
		if r.Offset != cur {
			return fmt.Errorf("request %d starts at %d, previous coverage ends at %d", i, r.Offset, cur)
		}
		cur += int64(r.Limit)
		if cur > offset+int64(limit) {
			return fmt.Errorf("request %d ends at %d, beyond the asked end %d", i, cur, offset+int64(limit))
		}
	}
	if cur != offset+int64(limit) {
		return fmt.Errorf("requests cover [%d,%d), asked [%d,%d)", offset, cur, offset, offset+int64(limit))
	}
	return nil
}

// SHA256 of b.
func SHA256(b []byte) []byte {
	h := sha256.Sum256(b)
	return h[:]
}
