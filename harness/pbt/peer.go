package pbt

import (
	"encoding/binary"
	"fmt"
	"io"
	"net"
	"sync"
	"time"

	"verifharness/pbt/ref"
)

// Peer is the harness-side MTProto server end of a net.Pipe (T4). It speaks the
// intermediate transport (client header 0xeeeeeeee, then 4-byte LE length +
// payload) written here from the transport specification, decrypts client
// frames and encrypts its own with the reference implementation in pbt/ref, and
// builds / parses service messages by hand. Nothing in it calls gotd/td, so the
// peer's view never depends on the code under test being right.
type Peer struct {
	stall chan struct{} // non-nil: the peer does not read (see StallReads)
	// HeaderRead: the 4-byte transport header was consumed before Serve started
	HeaderRead bool
	Conn    net.Conn
	Key     [256]byte
	T0      time.Time
	Session int64 // learned from the first client frame

	mu       sync.Mutex
	Frames   []*ClientMsg // every client message (containers flattened), in arrival order
	RawCount int
	lastID   int64
	closed   bool
	ReadErr  error

	// OnMsg is called (on the read goroutine) for every client message, after
	// it was recorded. It may call Send*.
	OnMsg func(p *Peer, m *ClientMsg)
	// OnBadFrame is called when a client frame does not decrypt/authenticate.
	OnBadFrame func(p *Peer, wire []byte, err error)
}

// ClientMsg is one message sent by the client.
type ClientMsg struct {
	At          time.Duration
	Salt        int64
	Session     int64
	MsgID       int64
	SeqNo       int32
	Body        []byte
	TypeID      uint32
	InContainer bool
	PaddingLen  int
	Frame       int // index of the transport frame it arrived in
}

// TL constructor ids used by the peer (core.telegram.org/schema/mtproto).
const (
	IDMsgContainer       = 0x73f1f8dc
	IDRPCResult          = 0xf35c6d01
	IDRPCError           = 0x2144ca19
	IDPong               = 0x347773c5
	IDPing               = 0x7abe77ec
	IDPingDelayDisc      = 0xf3427b8c
	IDNewSessionCreated  = 0x9ec20908
	IDBadServerSalt      = 0xedab447b
	IDBadMsgNotification = 0xa7eff811
	IDMsgsAck            = 0x62d6b459
	IDFutureSalts        = 0xae500895
	IDGetFutureSalts     = 0xb921bd04
	IDGzipPacked         = 0x3072cfa1
	IDRPCDropAnswer      = 0x58e4a740
	IDVector             = 0x1cb5c415
)

// NewPeer wraps the server end of a pipe.
func NewPeer(conn net.Conn, key [256]byte) *Peer {
	return &Peer{Conn: conn, Key: key, T0: time.Now()}
}

// Serve reads client frames until the connection ends. Run it in a goroutine.
func (p *Peer) Serve() {
	var hdr [4]byte
	if p.HeaderRead {
		binary.LittleEndian.PutUint32(hdr[:], 0xeeeeeeee) // someone else consumed the transport header already
	} else if _, err := io.ReadFull(p.Conn, hdr[:]); err != nil {
		p.setErr(err)
		return
	}
	if binary.LittleEndian.Uint32(hdr[:]) != 0xeeeeeeee {
		p.setErr(fmt.Errorf("peer: unexpected transport header %x", hdr))
		return
	}
	for {
		p.mu.Lock()
		stall := p.stall
		p.mu.Unlock()
		if stall != nil {
			<-stall // the peer has stopped reading: the client's writes block (a half-open link)
		}
		if _, err := io.ReadFull(p.Conn, hdr[:]); err != nil {
			p.setErr(err)
			return
		}
		n := binary.LittleEndian.Uint32(hdr[:])
		if n > 1<<24 {
			p.setErr(fmt.Errorf("peer: frame of %d bytes", n))
			return
		}
		wire := make([]byte, n)
		p.mu.Lock()
		stall = p.stall
		p.mu.Unlock()
		if stall != nil {
			<-stall // stalled inside a frame: its length word was taken, the rest stays in the client's write
		}
		if _, err := io.ReadFull(p.Conn, wire); err != nil {
			p.setErr(err)
			return
		}
		p.handleFrame(wire)
	}
}

// StallReads makes the peer stop reading after the frame it is reading now
// (if any); ResumeReads lets it continue. While stalled, whatever the client
// writes blocks in the transport.
func (p *Peer) StallReads() {
	p.mu.Lock()
	if p.stall == nil {
		p.stall = make(chan struct{})
	}
	p.mu.Unlock()
}

// ResumeReads ends a stall.
func (p *Peer) ResumeReads() {
	p.mu.Lock()
	if p.stall != nil {
		close(p.stall)
		p.stall = nil
	}
	p.mu.Unlock()
}

func (p *Peer) setErr(err error) {
	p.mu.Lock()
	p.ReadErr = err
	p.mu.Unlock()
}

func (p *Peer) handleFrame(wire []byte) {
	salt, session, msgID, seqNo, payload, pad, err := ref.DecryptMessage(p.Key, false, wire)
	p.mu.Lock()
	frame := p.RawCount
	p.RawCount++
	p.mu.Unlock()
	if err != nil {
		if p.OnBadFrame != nil {
			p.OnBadFrame(p, wire, err)
		}
		return
	}
	if p.Session == 0 {
		p.Session = session
	}
	at := time.Since(p.T0)
	var msgs []*ClientMsg
	top := &ClientMsg{At: at, Salt: salt, Session: session, MsgID: msgID, SeqNo: seqNo, Body: append([]byte(nil), payload...), PaddingLen: pad, Frame: frame}
	top.TypeID = typeID(top.Body)
	msgs = append(msgs, top)
	if top.TypeID == IDMsgContainer && len(payload) >= 8 {
		cnt := int(binary.LittleEndian.Uint32(payload[4:]))
		off := 8
		for i := 0; i < cnt && off+16 <= len(payload); i++ {
			id := int64(binary.LittleEndian.Uint64(payload[off:]))
			sq := int32(binary.LittleEndian.Uint32(payload[off+8:]))
			ln := int(binary.LittleEndian.Uint32(payload[off+12:]))
			off += 16
			if ln < 0 || off+ln > len(payload) {
				break
			}
			m := &ClientMsg{At: at, Salt: salt, Session: session, MsgID: id, SeqNo: sq, Body: append([]byte(nil), payload[off:off+ln]...), InContainer: true, Frame: frame}
			m.TypeID = typeID(m.Body)
			msgs = append(msgs, m)
			off += ln
		}
	}
	p.mu.Lock()
	p.Frames = append(p.Frames, msgs...)
	p.mu.Unlock()
	if p.OnMsg != nil {
		for _, m := range msgs {
			p.OnMsg(p, m)
		}
	}
}

func typeID(b []byte) uint32 {
	if len(b) < 4 {
		return 0
	}
	return binary.LittleEndian.Uint32(b)
}

// Msgs returns a snapshot of the recorded client messages.
func (p *Peer) Msgs() []*ClientMsg {
	p.mu.Lock()
	defer p.mu.Unlock()
	return append([]*ClientMsg(nil), p.Frames...)
}

// NextID returns a fresh server message id (type: 1 = response to a client
// message, 3 = message from the server) derived from the (virtual) clock and
// strictly increasing.
func (p *Peer) NextID(typ int64) int64 {
	now := time.Now()
	id := now.Unix()<<32 | int64(now.Nanosecond())&^3 | typ
	p.mu.Lock()
	defer p.mu.Unlock()
	for id <= p.lastID {
		id += 4
	}
	p.lastID = id
	return id
}

// WriteFrame writes one transport frame.
func (p *Peer) WriteFrame(wire []byte) error {
	buf := make([]byte, 4, 4+len(wire))
	binary.LittleEndian.PutUint32(buf, uint32(len(wire)))
	buf = append(buf, wire...)
	_, err := p.Conn.Write(buf)
	return err
}

// Padding returns n deterministic padding bytes.
func Padding(n int) []byte {
	b := make([]byte, n)
	for i := range b {
		b[i] = byte(i*31 + 7)
	}
	return b
}

// PadFor returns a padding length in [12,1024] that block-aligns a payload.
func PadFor(payloadLen int) int {
	pad := 16 - (32+payloadLen)%16
	if pad == 16 {
		pad = 0
	}
	for pad < 12 {
		pad += 16
	}
	return pad
}

// Encrypt builds the wire form of a server message with spec-conforming padding.
func (p *Peer) Encrypt(salt, session, msgID int64, seqNo int32, body []byte) []byte {
	return ref.EncryptMessage(p.Key, true, salt, session, msgID, seqNo, body, Padding(PadFor(len(body))))
}

// Send encrypts and sends a server message in the current session.
func (p *Peer) Send(msgID int64, seqNo int32, body []byte) error {
	return p.WriteFrame(p.Encrypt(0x5a17, p.Session, msgID, seqNo, body))
}

// ---- service message builders (hand-written TL)

func le32(v uint32) []byte { return binary.LittleEndian.AppendUint32(nil, v) }
func le64(v int64) []byte  { return binary.LittleEndian.AppendUint64(nil, uint64(v)) }

func cat(parts ...[]byte) []byte {
	var out []byte
	for _, p := range parts {
		out = append(out, p...)
	}
	return out
}

// RPCResult builds rpc_result.
func RPCResult(reqMsgID int64, result []byte) []byte {
	return cat(le32(IDRPCResult), le64(reqMsgID), result)
}

// RPCError builds rpc_error.
func RPCError(code int32, msg string) []byte {
	return cat(le32(IDRPCError), le32(uint32(code)), ref.PutBytes(nil, []byte(msg)))
}

// Pong builds pong.
func Pong(msgID, pingID int64) []byte { return cat(le32(IDPong), le64(msgID), le64(pingID)) }

// NewSessionCreated builds new_session_created.
func NewSessionCreated(firstMsgID, uniqueID, salt int64) []byte {
	return cat(le32(IDNewSessionCreated), le64(firstMsgID), le64(uniqueID), le64(salt))
}

// BadServerSalt builds bad_server_salt (error code 48).
func BadServerSalt(badMsgID int64, badSeq int32, newSalt int64) []byte {
	return cat(le32(IDBadServerSalt), le64(badMsgID), le32(uint32(badSeq)), le32(48), le64(newSalt))
}

// BadMsgNotification builds bad_msg_notification.
func BadMsgNotification(badMsgID int64, badSeq int32, code int32) []byte {
	return cat(le32(IDBadMsgNotification), le64(badMsgID), le32(uint32(badSeq)), le32(uint32(code)))
}

// MsgsAck builds msgs_ack.
func MsgsAck(ids ...int64) []byte {
	b := cat(le32(IDMsgsAck), le32(IDVector), le32(uint32(len(ids))))
	for _, id := range ids {
		b = append(b, le64(id)...)
	}
	return b
}

// FutureSalt is one entry of future_salts.
type FutureSalt struct {
	ValidSince, ValidUntil int32
	Salt                   int64
}

// FutureSalts builds future_salts.
func FutureSalts(reqMsgID int64, now int32, salts []FutureSalt) []byte {
	b := cat(le32(IDFutureSalts), le64(reqMsgID), le32(uint32(now)), le32(uint32(len(salts))))
	for _, s := range salts {
		b = append(b, cat(le32(uint32(s.ValidSince)), le32(uint32(s.ValidUntil)), le64(s.Salt))...)
	}
	return b
}

// ContainerMsg is one message of a container.
type ContainerMsg struct {
	MsgID int64
	SeqNo int32
	Body  []byte
}

// Container builds msg_container.
func Container(msgs ...ContainerMsg) []byte {
	b := cat(le32(IDMsgContainer), le32(uint32(len(msgs))))
	for _, m := range msgs {
		b = append(b, cat(le64(m.MsgID), le32(uint32(m.SeqNo)), le32(uint32(len(m.Body))), m.Body)...)
	}
	return b
}

// PingID extracts ping_id from ping / ping_delay_disconnect.
func PingID(body []byte) (int64, bool) {
	if len(body) < 12 {
		return 0, false
	}
	switch typeID(body) {
	case IDPing, IDPingDelayDisc:
		return int64(binary.LittleEndian.Uint64(body[4:])), true
	}
	return 0, false
}
